"""bin/m2.py — kernel-certified per-case goals ("M2", DESIGN.md section 3).

A property plug-in (bin/plugins/Cxx.py: extra(ctx)) builds Goal objects for a sample of the
run's cases:   Rabs (<RealSpec term at the exact inputs> - <observed float, exact>) <= tol
This module writes one build/cert/Cert_<pid>_<k>.v per goal and lets coqc decide it with
Coq-Interval's [interval] / [integral] tactics (reflexive interval arithmetic re-checked
by the kernel at Qed).  Integrals are certified one RInt per [integral] call, inside
enclosures proposed by an UNTRUSTED mpmath sub-process (bin/m2_ref.py under python3-vt);
the enclosures are then combined by [interval].  Only coqc's acceptance counts:

  certified  : the goal                      |spec - observed| <= tol   was proved
  refuted    : the complementary goal  tol < |spec - observed|          was proved
  undecided  : neither within the time limits (a wrong candidate, a value within the
               enclosure width of tol, a time-out) — NOT a verdict; the plug-in then falls
               back on the uncertified reference and reports the case separately.

Stdlib only (runs under the system python3).
"""
import os, sys, json, subprocess, time, hashlib, re
from fractions import Fraction
from concurrent.futures import ThreadPoolExecutor

ROOT = os.path.dirname(os.path.dirname(os.path.abspath(__file__)))

HEADER = """From Coq Require Import Reals Lra ZArith.
From Coquelicot Require Import Coquelicot.
From Interval Require Import Tactic.
%s
Open Scope R_scope.
"""

# tactic parameter levels: (name, interval options, integral options)
LEVELS = [
    ("L1", "i_prec 60", "i_prec 60"),
    ("L2", "i_prec 100, i_depth 25", "i_prec 100, i_fuel 2000, i_degree 14"),
]


# ------------------------------------------------------------------ numbers
def bits_to_x(b):
    """IEEE-754 binary64 bit pattern -> Fraction | 'nan' | 'inf' | '-inf' (exact, as Base/Num.decode_bits)"""
    s = (b >> 63) & 1
    e = (b >> 52) & 2047
    m = b & ((1 << 52) - 1)
    if e == 2047:
        return "nan" if m else ("-inf" if s else "inf")
    if e == 0:
        v = Fraction(m, 1 << 1074)
    else:
        v = Fraction((1 << 52) + m) * (Fraction(2) ** (e - 1075))
    return -v if s else v


def is_num(x):
    return isinstance(x, Fraction)


def rlit(fr):
    """Coq real literal (exact)"""
    fr = Fraction(fr)
    n, d = fr.numerator, fr.denominator
    if d == 1:
        return "%d" % n if n >= 0 else "(%d)" % n
    return "(%d / %d)" % (n, d)


def pylit(fr):
    """argument for the reference evaluator"""
    fr = Fraction(fr)
    return "F('%d/%d')" % (fr.numerator, fr.denominator)


def enclosure(center, halfwidth, digits=None):
    """outward-rounded decimal enclosure [lo, hi] of center +- halfwidth (Fractions)"""
    center, halfwidth = Fraction(center), Fraction(halfwidth)
    if halfwidth <= 0:
        raise ValueError("halfwidth")
    # decimal digits: enough to resolve halfwidth/100
    k = 0
    while Fraction(1, 10 ** k) > halfwidth / 100 and k < 400:
        k += 1
    sc = 10 ** k
    lo = Fraction((center - halfwidth) * sc // 1, sc)
    hi = Fraction(-((-(center + halfwidth) * sc) // 1), sc)
    return lo, hi


# ------------------------------------------------------------------ reference (untrusted)
def ref_eval(exprs, dps=40, timeout=600):
    """evaluate python/mpmath expressions in a python3-vt sub-process -> list of Fraction | None"""
    if not exprs:
        return []
    try:
        r = subprocess.run(["python3-vt", os.path.join(ROOT, "bin", "m2_ref.py")], input=json.dumps(dict(dps=dps, exprs=exprs)),
                           capture_output=True, text=True, timeout=timeout)
        if r.returncode != 0:
            return [None] * len(exprs)
        vals = json.loads(r.stdout)
    except Exception:
        return [None] * len(exprs)
    out = []
    for v in vals:
        try:
            out.append(Fraction(v) if v is not None else None)
        except Exception:
            out.append(None)
    return out


def ref_eval_parallel(exprs, dps=40, nproc=8, timeout=600):
    if len(exprs) < 64 or nproc <= 1:
        return ref_eval(exprs, dps, timeout)
    chunks = [list(range(k, len(exprs), nproc)) for k in range(nproc)]
    with ThreadPoolExecutor(nproc) as ex:
        res = list(ex.map(lambda ch: ref_eval([exprs[i] for i in ch], dps, timeout), chunks))
    out = [None] * len(exprs)
    for ch, rv in zip(chunks, res):
        for i, v in zip(ch, rv):
            out[i] = v
    return out


# ------------------------------------------------------------------ goals
class Goal:
    """One certificate goal  Rabs (expr - obs) <= tol.

    expr      Coq term of type R built from RealSpec definitions and exact literals
    obs, tol  Fractions (tol = absolute tolerance, already scaled if the clause is relative)
    requires  'From MM Require Import ...' lines
    prelude   tactics exposing a form [interval]/[integral] can evaluate (rewrite with bridging lemmas, unfold)
    integrals list of dict(term=<exact Coq text of an RInt occurring after the prelude>,
                           pat=<pattern for [set], e.g. 'RInt _ 0 (3 / 16)'>,
                           ref=<reference expression for m2_ref.py>, rel=<relative half-width> | abs=<absolute half-width>)
    finish    closing tactic; may contain %(iopt)s / %(gopt)s (options of the current level for interval / integral);
              default "interval with (%(iopt)s)"; a goal with a single RInt can use "integral with (%(gopt)s)" and no enclosures
    ref       reference expression for the whole value (fallback decision), optional
    info      free dict copied into reports (case index, inputs, ...)
    """

    def __init__(self, gid, expr, obs, tol, requires="", prelude="", integrals=(), ref=None, info=None, finish=None):
        self.gid, self.expr, self.obs, self.tol = gid, expr, Fraction(obs), Fraction(tol)
        self.requires, self.prelude, self.integrals = requires, prelude, list(integrals)
        self.ref, self.info, self.finish = ref, info or {}, finish
        self.cands = None      # filled by run_goals
        self.result = None

    def statement(self, negated=False):
        if negated:
            return "%s < Rabs (%s - %s)" % (rlit(self.tol), self.expr, rlit(self.obs))
        return "Rabs (%s - %s) <= %s" % (self.expr, rlit(self.obs), rlit(self.tol))

    def script(self, level, negated=False):
        name, iopt, gopt = LEVELS[level]
        s = HEADER % self.requires
        s += "Lemma cert : %s.\nProof.\n" % self.statement(negated)
        if self.prelude:
            s += "  " + self.prelude.strip() + "\n"
        for k, (ig, c) in enumerate(zip(self.integrals, self.cands or [])):
            if c is None:
                return None
            hw = abs(c) * Fraction(ig["rel"]) if "rel" in ig else Fraction(ig["abs"])
            if hw == 0:
                hw = Fraction(1, 10 ** 30)
            lo, hi = enclosure(c, hw)
            s += "  assert (H%d : %s <= %s <= %s) by (integral with (%s)).\n" % (k, rlit(lo), ig["term"], rlit(hi), gopt)
        for k, ig in enumerate(self.integrals):
            s += "  try set (I%d := %s) in *.\n" % (k, ig["pat"])
        fin = self.finish or "interval with (%(iopt)s)"
        if "%(" in fin:
            fin = fin % dict(iopt=iopt, gopt=gopt)
        s += "  %s.\nQed.\n" % fin
        return s


def _run_coqc(path, timeout):
    """one coqc run; [timeout] limits the CPU seconds of the process (ulimit -t), so that a loaded machine does
    not turn provable goals into 'undecided'; the wall clock is capped at 8 times that"""
    t0 = time.time()
    try:
        r = subprocess.run("cd %s && ulimit -t %d && timeout %d coqc -Q %s/coq MM %s 2>&1"
                           % (os.path.dirname(path), timeout, 8 * timeout, ROOT, os.path.basename(path)),
                           shell=True, capture_output=True, text=True, timeout=8 * timeout + 10)
        ok = r.returncode == 0
        out = r.stdout[-800:]
    except subprocess.TimeoutExpired:
        ok, out = False, "timeout"
    return ok, out, time.time() - t0


def _decide(goal, outdir, pid, timeouts, try_negation=True):
    """certified | refuted | undecided, trying the levels in turn"""
    base = os.path.join(outdir, "Cert_%s_%s" % (pid, goal.gid))
    log = []
    for level in range(len(LEVELS)):
        src = goal.script(level, False)
        if src is None:
            log.append("no candidate enclosure")
            break
        path = "%s.v" % base
        with open(path, "w") as f:
            f.write(src)
        ok, out, dt = _run_coqc(path, timeouts[min(level, len(timeouts) - 1)])
        log.append("%s %.1fs %s" % (LEVELS[level][0], dt, "ok" if ok else "fail"))
        if ok:
            goal.result = dict(status="certified", level=LEVELS[level][0], seconds=round(dt, 2), file=path, log=log)
            return goal.result
    if try_negation:
        src = goal.script(len(LEVELS) - 1, True)
        if src is not None:
            path = "%s_neg.v" % base
            with open(path, "w") as f:
                f.write(src)
            ok, out, dt = _run_coqc(path, timeouts[-1])
            log.append("NEG %.1fs %s" % (dt, "ok" if ok else "fail"))
            if ok:
                goal.result = dict(status="refuted", level="NEG", seconds=round(dt, 2), file=path, log=log)
                return goal.result
    goal.result = dict(status="undecided", level=None, seconds=0, file="%s.v" % base, log=log)
    return goal.result


def run_goals(goals, pid, ncpu=8, timeouts=(40, 120), outdir=None, dps=40):
    """Decide every goal (in parallel).  Returns summary dict; each goal gets .result."""
    outdir = outdir or os.path.join(ROOT, "build", "cert")
    os.makedirs(outdir, exist_ok=True)
    for fn in os.listdir(outdir):
        if fn.startswith("Cert_%s_" % pid) or fn.startswith(".Cert_%s_" % pid):
            try:
                os.remove(os.path.join(outdir, fn))
            except OSError:
                pass
    # candidates for all integrals in one reference call
    exprs, where = [], []
    for g in goals:
        g.cands = [None] * len(g.integrals)
        for k, ig in enumerate(g.integrals):
            exprs.append(ig["ref"])
            where.append((g, k))
    vals = ref_eval_parallel(exprs, dps=dps, nproc=max(1, min(ncpu, 8)))
    for (g, k), v in zip(where, vals):
        g.cands[k] = v
    t0 = time.time()
    with ThreadPoolExecutor(max(1, ncpu)) as ex:
        list(ex.map(lambda g: _decide(g, outdir, pid, timeouts), goals))
    # keep the sources and logs of the goals; drop compiled artefacts
    for fn in os.listdir(outdir):
        if fn.startswith("Cert_%s_" % pid) and not fn.endswith(".v") or fn.startswith(".Cert_%s_" % pid):
            try:
                os.remove(os.path.join(outdir, fn))
            except OSError:
                pass
    st = {}
    for g in goals:
        st[g.result["status"]] = st.get(g.result["status"], 0) + 1
    try:
        with open(os.path.join(outdir, "%s_results.json" % pid), "w") as f:
            json.dump([dict(id=g.gid, goal=g.statement(False), status=g.result["status"], log=g.result["log"], info=g.info) for g in goals],
                      f, indent=1, default=str)
    except OSError:
        pass
    return dict(goals=len(goals), certified=st.get("certified", 0), refuted=st.get("refuted", 0),
                undecided=st.get("undecided", 0), seconds=round(time.time() - t0, 1))


def write_replay(pid, kind, payload):
    """same layout as bin/check's replays; kind 'm2' (kernel-refuted goal) or 'ref' (uncertified reference)"""
    d = os.path.join(ROOT, "replays")
    os.makedirs(d, exist_ok=True)
    h = hashlib.sha1(json.dumps(payload, sort_keys=True, default=str).encode()).hexdigest()[:12]
    rel = "replays/%s-%s-%s.json" % (pid, kind, h)
    payload = dict(payload, property_id=pid, kind=kind, replay_cmd="bin/check %s --replay %s" % (pid, rel))
    with open(os.path.join(ROOT, rel), "w") as f:
        json.dump(payload, f, indent=1, default=str)
    return rel


def fstr(fr, digits=17):
    """decimal rendering of a Fraction for reports"""
    if not is_num(fr):
        return str(fr)
    try:
        return "%.*g" % (digits, float(fr))
    except OverflowError:
        return str(fr)

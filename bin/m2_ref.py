#!/usr/bin/env python3-vt
"""bin/m2_ref.py — UNTRUSTED high-precision reference evaluator (mpmath), run as a
sub-process under python3-vt by bin/m2.py.

stdin : JSON {"dps": 40, "exprs": ["<python expression over the helpers below>", ...]}
stdout: JSON list of decimal strings (or null where evaluation failed)

It only proposes candidate enclosures for the certificate goals and serves as the
supporting reference outside the window Coq-Interval can certify; a wrong value here
can make a goal fail (-> reported as undecided), never make one pass.
"""
import sys, json
import mpmath as mp
from mpmath import mpf


def F(s):
    """exact rational 'n/d' or 'n' -> mpf (rounded once at working precision)"""
    s = str(s)
    if "/" in s:
        n, d = s.split("/")
        return mpf(int(n)) / mpf(int(d))
    return mpf(int(s))


def quad(f, a, b, pieces=8):
    a, b = mpf(a), mpf(b)
    pts = [a + (b - a) * i / pieces for i in range(pieces + 1)]
    return mp.quad(f, pts)


def ncdf(z):
    return mp.erfc(-z / mp.sqrt(2)) / 2


def npdf(z):
    return mp.exp(-z * z / 2) / mp.sqrt(2 * mp.pi)


def phi_int(a, b):
    """int_a^b standard normal density"""
    return (mp.erf(b / mp.sqrt(2)) - mp.erf(a / mp.sqrt(2))) / 2


def cos_int(e, theta):
    """int_0^theta cos(t)^e dt, |theta| <= pi/2"""
    return quad(lambda t: mp.cos(t) ** e, 0, theta)


def tcdf(nu, x):
    nu, x = mpf(nu), mpf(x)
    if x == 0:
        return mpf(1) / 2
    v = mp.betainc(nu / 2, mpf(1) / 2, 0, nu / (nu + x * x), regularized=True) / 2
    return 1 - v if x > 0 else v


def tpdf(nu, x):
    nu, x = mpf(nu), mpf(x)
    return mp.exp(mp.loggamma((nu + 1) / 2) - mp.loggamma(nu / 2)) / mp.sqrt(nu * mp.pi) * (1 + x * x / nu) ** (-(nu + 1) / 2)


def ibeta(x, a, b):
    return mp.betainc(a, b, 0, x, regularized=True)


def bint(a, b, x):
    """int_0^x t^(a-1) (1-t)^(b-1) dt"""
    return mp.betainc(a, b, 0, x)


def pgamma(a, x):
    return mp.gammainc(a, 0, x, regularized=True)


def qgamma(a, x):
    return mp.gammainc(a, x, mp.inf, regularized=True)


def beta(a, b):
    return mp.beta(a, b)


def lbinom(n, k):
    import math
    return mp.log(mpf(math.comb(int(n), int(k))))


def main():
    req = json.load(sys.stdin)
    mp.mp.dps = int(req.get("dps", 40))
    out = []
    env = dict(mp=mp, mpf=mpf, F=F, quad=quad, ncdf=ncdf, npdf=npdf, phi_int=phi_int, cos_int=cos_int, tcdf=tcdf, tpdf=tpdf,
               ibeta=ibeta, bint=bint, pgamma=pgamma, qgamma=qgamma, beta=beta, lbinom=lbinom,
               exp=mp.exp, log=mp.log, sqrt=mp.sqrt, pi=mp.pi, atan=mp.atan, erf=mp.erf, erfc=mp.erfc)
    for e in req["exprs"]:
        try:
            v = eval(e, env)
            v = mpf(v)
            if mp.isnan(v) or mp.isinf(v):
                out.append(None)
            else:
                out.append(mp.nstr(v, mp.mp.dps))
        except Exception as ex:   # noqa
            out.append(None)
    json.dump(out, sys.stdout)


if __name__ == "__main__":
    main()

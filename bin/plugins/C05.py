"""bin/plugins/C05.py — C05 (NormalDist, TDist, DeltaDist): per-case certificate goals (M2),
uncertified mpmath reference, decoding of replays.

Kernel-certified on a sample of the run's cases (definitions: coq/RealSpec/Normal.v, TDist.v):
  * NormalDist.CDF(x)        Rabs (Phi mu sigma x - obs) <= 1e-9                       [integral]
  * NormalDist.PDF(x)        Rabs (phi mu sigma x - obs) <= 1e-9 * peak density        [interval]
  * NormalDist.InvCDF(p)     Rabs (Phi mu sigma InvCDF_go(p) - p) <= 1e-9 * p  (p >= 1e-12; well-conditioned mu/sigma)  [integral]
  * TDist.CDF(x), PDF(x)     integer and half-integer V in [1, 200]: cos-power integrals [integral + interval]
Everything else (V < 1, V > 200, non-half-integer V, p < 1e-12, ...) is compared with the
UNCERTIFIED mpmath reference on a sample and reported separately.
"""
import os, sys, json, random
from fractions import Fraction

sys.path.insert(0, os.path.dirname(os.path.dirname(os.path.abspath(__file__))))
import m2  # noqa: E402

PID = "C05"
TOL = Fraction(1, 10 ** 9)
INV_SQRT_2PI = Fraction(3989422804014327, 10 ** 16)
REQ = "From MM Require Import RealSpec.Normal RealSpec.TDist RealSpec.TDistGen Proofs.NormalR Proofs.TDistR Proofs.M2Lemmas Proofs.M2LemmasGen."
EPS52 = Fraction(1, 2 ** 52)


def parse(ints):
    op = ints[1]
    X = m2.bits_to_x

    def grid(o):
        cnt = ints[o]
        return [dict(x=X(ints[o + 1 + 4 * i]), pdf=X(ints[o + 2 + 4 * i]), cdf=X(ints[o + 3 + 4 * i]), gl=X(ints[o + 4 + 4 * i])) for i in range(cnt)]
    if op == 1:
        return dict(op=1, mu=X(ints[2]), sigma=X(ints[3]), mean=X(ints[4]), var=X(ints[5]), lo=X(ints[6]), hi=X(ints[7]), pts=grid(8))
    if op == 2:
        cnt = ints[4]
        return dict(op=2, mu=X(ints[2]), sigma=X(ints[3]),
                    pts=[dict(p=X(ints[5 + 4 * i]), inv=X(ints[6 + 4 * i]), cdfinv=X(ints[7 + 4 * i]), pdfinv=X(ints[8 + 4 * i])) for i in range(cnt)])
    if op == 3:
        cnt = ints[4]
        return dict(op=3, mu=X(ints[2]), sigma=X(ints[3]), pts=[dict(z=X(ints[5 + 2 * i]), out=X(ints[6 + 2 * i])) for i in range(cnt)])
    if op == 4:
        return dict(op=4, v=X(ints[2]), lo=X(ints[3]), hi=X(ints[4]), pts=grid(5))
    if op == 5:
        cnt = ints[5]
        pts = [dict(x=X(ints[6 + 3 * i]), pdf=X(ints[7 + 3 * i]), cdf=X(ints[8 + 3 * i])) for i in range(cnt)]
        o = 6 + 3 * cnt
        cnt2 = ints[o]
        inv = [dict(y=X(ints[o + 1 + 2 * i]), inv=X(ints[o + 2 + 2 * i])) for i in range(cnt2)]
        return dict(op=5, T=X(ints[2]), lo=X(ints[3]), hi=X(ints[4]), pts=pts, inv=inv)
    if op == 6:
        cnt = ints[8]
        return dict(op=6, fn=ints[2], p1=X(ints[3]), p2=X(ints[4]), lo=X(ints[5]), hi=X(ints[6]), n=ints[7],
                    pts=[dict(xlo=X(ints[9 + 4 * i]), xhi=X(ints[10 + 4 * i]), cdf_lo=X(ints[11 + 4 * i]), cdf_hi=X(ints[12 + 4 * i])) for i in range(cnt)])
    return dict(op=op)


GRID_CODES = {1: "PDF negative or not finite", 2: "CDF outside [0,1]", 3: "CDF not monotone", 4: "integral of PDF (Gauss-Legendre) != CDF difference",
              5: "CDF(c-d)+CDF(c+d) != 1", 6: "PDF not symmetric", 7: "CDF at the centre / at +-inf", 8: "NaN handling",
              10: "Mean", 11: "Variance", 12: "Bounds"}


def describe(ints, verdict, case_json):
    d = parse(ints)
    pos = verdict[2] if len(verdict) > 2 else -1
    if pos >= 1 << 62:
        pos = -1
    names = {1: "NormalDist grid", 2: "NormalDist.InvCDF", 3: "NormalDist.Rand", 4: "TDist grid", 5: "DeltaDist", 6: "CDF monotonicity scan"}
    out = dict(op=names.get(d["op"], d["op"]), index=pos)
    try:
        code = verdict[3] if len(verdict) > 3 else None
        if d["op"] in (1, 4):
            out["failed"] = GRID_CODES.get(code, code)
            for k in ("mu", "sigma", "v"):
                if k in d:
                    out[k] = m2.fstr(d[k])
            if 0 <= pos < len(d["pts"]):
                out["point"] = {k: m2.fstr(v) for k, v in d["pts"][pos].items()}
                if pos > 0:
                    out["previous_point"] = {k: m2.fstr(v) for k, v in d["pts"][pos - 1].items()}
        elif d["op"] == 2:
            out["failed"] = {1: "special value (NaN outside [0,1], -inf at 0, +inf at 1)", 2: "not finite", 3: "CDF(InvCDF(p)) != p to 1e-9 relative", 4: "InvCDF not monotone"}.get(code, code)
            out.update(mu=m2.fstr(d["mu"]), sigma=m2.fstr(d["sigma"]))
            if 0 <= pos < len(d["pts"]):
                out["point"] = {k: m2.fstr(v) for k, v in d["pts"][pos].items()}
        elif d["op"] == 3 and 0 <= pos < len(d["pts"]):
            out.update(mu=m2.fstr(d["mu"]), sigma=m2.fstr(d["sigma"]), point={k: m2.fstr(v) for k, v in d["pts"][pos].items()},
                       failed="Rand != NormFloat64()*Sigma+Mu")
        elif d["op"] == 6:
            out.update(function={1: "NormalDist.CDF", 2: "TDist.CDF"}.get(d["fn"], d["fn"]), p1=m2.fstr(d["p1"]), p2=m2.fstr(d["p2"]),
                       failed={2: "CDF value outside [0,1] or not finite", 3: "CDF(xlo) > CDF(xhi) + 1e-12 for xlo < xhi (not monotone)"}.get(code, code))
            if 0 <= pos < len(d["pts"]):
                pt = d["pts"][pos]
                out["pair"] = {k: m2.fstr(v, 19) for k, v in pt.items()}
                if m2.is_num(pt["cdf_lo"]) and m2.is_num(pt["cdf_hi"]):
                    out["step"] = m2.fstr(pt["cdf_hi"] - pt["cdf_lo"])
        elif d["op"] == 5:
            out.update(T=m2.fstr(d["T"]), failed={1: "PDF", 2: "CDF (unit step at T)", 3: "InvCDF (quantile T)", 12: "Bounds"}.get(code, code))
            if code in (1, 2) and 0 <= pos < len(d["pts"]):
                out["point"] = {k: m2.fstr(v) for k, v in d["pts"][pos].items()}
            if code == 3 and 0 <= pos < len(d["inv"]):
                out["point"] = {k: m2.fstr(v) for k, v in d["inv"][pos].items()}
    except Exception as e:  # noqa
        out["note"] = "decode: %r" % (e,)
    return out


# ------------------------------------------------------------------ goals
def half_steps(v):
    """V = 1 + p/2, p natural, V <= 200 -> p"""
    if not m2.is_num(v):
        return None
    p = (v - 1) * 2
    if p.denominator == 1 and 0 <= p <= 398:
        return int(p)
    return None


def std_prelude(mu, sigma, x):
    """Phi mu sigma x -> 1/2 + RInt (standard density) 0 z with z = (x-mu)/sigma as ONE literal
    (a compound constant bound such as (5 - 0) / 1 trips Coq-Interval's reification)"""
    if mu == 0 and sigma == 1:
        return "unfold Phi, phi."
    z = (x - mu) / sigma
    return ("rewrite (Phi_standard %s %s %s) by lra. replace ((%s - %s) / %s) with %s by (field; lra). unfold Phi, phi."
            % (m2.rlit(mu), m2.rlit(sigma), m2.rlit(x), m2.rlit(x), m2.rlit(mu), m2.rlit(sigma), m2.rlit(z)))


def goal_ncdf(gid, mu, sigma, x, obs, info):
    expr = "Phi %s %s %s" % (m2.rlit(mu), m2.rlit(sigma), m2.rlit(x))
    if x == mu:      # degenerate integral: Phi at the centre is 1/2 (Proofs/NormalR.v Phi_centre)
        return m2.Goal(gid, expr, obs, TOL, requires=REQ, prelude="rewrite Phi_centre.", ref="mpf(1)/2", info=info, finish="interval")
    prelude = std_prelude(mu, sigma, x)
    return m2.Goal(gid, expr, obs, TOL, requires=REQ, prelude=prelude, ref="ncdf(%s)" % m2.pylit((x - mu) / sigma), info=info,
                   finish="integral with (%(gopt)s)")


def pdf_tol(sigma):
    return TOL * INV_SQRT_2PI / sigma


def goal_npdf(gid, mu, sigma, x, obs, info):
    expr = "phi %s %s %s" % (m2.rlit(mu), m2.rlit(sigma), m2.rlit(x))
    return m2.Goal(gid, expr, obs, pdf_tol(sigma), requires=REQ, prelude="unfold phi.",
                   ref="npdf(%s)/%s" % (m2.pylit((x - mu) / sigma), m2.pylit(sigma)), info=info, finish="interval with (i_prec 100)")


def inv_tol(p, x, pdfx):
    return TOL * p + 2 * pdfx * EPS52 * abs(x)


def goal_invcdf(gid, mu, sigma, p, x, pdfx, info):
    expr = "Phi %s %s %s" % (m2.rlit(mu), m2.rlit(sigma), m2.rlit(x))
    prelude = std_prelude(mu, sigma, x)
    return m2.Goal(gid, expr, p, inv_tol(p, x, pdfx), requires=REQ, prelude=prelude, ref="ncdf(%s)" % m2.pylit((x - mu) / sigma), info=info,
                   finish="integral with (%(gopt)s)")


HALF = Fraction(1, 2)


def t_certifiable(v, x):
    """window the kernel certifies: integer and half-integer V in [1,200] (RealSpec/TDist.v forms) and
    V = 1/2 (RealSpec/TDistGen.v: the one half-integer below 1; integrand 1/sqrt(cos) up to atan(x/sqrt V))"""
    if not m2.is_num(v):
        return False
    if v == HALF:
        return abs(x) <= 64
    return half_steps(v) is not None and abs(x) <= 1000


def t_forms(v):
    if v == HALF:
        return dict(expr_cdf="tcdf_gen (1 / 2) %s", expr_pdf="tpdf_gen (1 / 2) %s",
                    cdf_prelude="rewrite tcdf_gen_half_form.", pdf_prelude="rewrite tpdf_gen_half_form.",
                    num_fun="(fun th => / sqrt (cos th))", num_e="mpf(-1)/2",
                    fun="(fun th => sqrt (cos th) ^ 3)", e="mpf(3)/2")
    p = half_steps(v)
    if p is None:
        return None
    if p % 2 == 0:
        n = p // 2
        return dict(cdf="tcdf_pow_form %d" % n, pdf="tpdf_pow_form %d" % n, fun="(fun th => cos th ^ %d)" % n, e=str(n))
    return dict(cdf="tcdf_half_form %d" % p, pdf="tpdf_half_form %d" % p, fun="(fun th => sqrt (cos th) ^ %d)" % p, e="mpf(%d)/2" % p)


def goal_tcdf(gid, v, x, obs, info):
    f = t_forms(v)
    vs, xs = m2.rlit(v), m2.rlit(x)
    if "expr_cdf" in f:
        expr, prelude = f["expr_cdf"] % xs, f["cdf_prelude"]
    else:
        expr = "tcdf %s %s" % (vs, xs)
        prelude = "rewrite (%s %s %s) by (rewrite ?INR_lit; simpl; lra)." % (f["cdf"], vs, xs)
    rel = Fraction(1, 10 ** 10)
    up = "(atan (%s / sqrt %s))" % (xs, vs)
    integrals = [dict(term="RInt %s 0 %s" % (f.get("num_fun", f["fun"]), up), pat="RInt _ 0 %s" % up,
                      ref="cos_int(%s, atan(%s/sqrt(%s)))" % (f.get("num_e", f["e"]), m2.pylit(x), m2.pylit(v)), rel=rel),
                 dict(term="RInt %s 0 (PI / 2)" % f["fun"], pat="RInt _ 0 (PI / 2)", ref="cos_int(%s, pi/2)" % f["e"], rel=rel)]
    return m2.Goal(gid, expr, obs, TOL, requires=REQ, prelude=prelude, integrals=integrals, ref="tcdf(%s,%s)" % (m2.pylit(v), m2.pylit(x)), info=info)


def goal_tpdf(gid, v, x, obs, info):
    f = t_forms(v)
    vs, xs = m2.rlit(v), m2.rlit(x)
    if "expr_pdf" in f:
        expr, prelude = f["expr_pdf"] % xs, f["pdf_prelude"]
    else:
        expr = "tpdf %s %s" % (vs, xs)
        prelude = "rewrite (%s %s %s) by (rewrite ?INR_lit; simpl; lra)." % (f["pdf"], vs, xs)
    integrals = [dict(term="RInt %s 0 (PI / 2)" % f["fun"], pat="RInt _ 0 (PI / 2)", ref="cos_int(%s, pi/2)" % f["e"], rel=Fraction(1, 10 ** 11))]
    return m2.Goal(gid, expr, obs, TOL, requires=REQ, prelude=prelude, integrals=integrals, ref="tpdf(%s,%s)" % (m2.pylit(v), m2.pylit(x)), info=info)


# ------------------------------------------------------------------ collection
def collect(lines):
    cert, refonly = [], []
    for ci, ln in enumerate(lines):
        ints = [int(t, 16) for t in ln.split("#")[0].split()]
        d = parse(ints)
        if d["op"] == 1:
            mu, sg = d["mu"], d["sigma"]
            for pi, p in enumerate(d["pts"]):
                x = p["x"]
                if not m2.is_num(x):
                    continue
                info = dict(mu=mu, sigma=sg, x=x, point=pi)
                simple = sg.denominator <= (1 << 40) and sg.numerator <= (1 << 40) and mu.denominator <= (1 << 30)
                if m2.is_num(p["cdf"]):
                    (cert if simple else refonly).append(("ncdf", ci, info, p["cdf"]))
                if m2.is_num(p["pdf"]):
                    (cert if simple else refonly).append(("npdf", ci, info, p["pdf"]))
        elif d["op"] == 2:
            mu, sg = d["mu"], d["sigma"]
            for pi, p in enumerate(d["pts"]):
                if not (m2.is_num(p["p"]) and 0 < p["p"] < 1 and m2.is_num(p["inv"]) and m2.is_num(p["pdfinv"])):
                    continue
                info = dict(mu=mu, sigma=sg, p=p["p"], pdf=p["pdfinv"], point=pi)
                well = abs(mu) <= 1000 * sg and p["p"] >= Fraction(1, 10 ** 12) and sg.denominator <= (1 << 40) and sg.numerator <= (1 << 40)
                (cert if well else refonly).append(("invcdf", ci, info, p["inv"]))
        elif d["op"] == 4:
            v = d["v"]
            for pi, p in enumerate(d["pts"]):
                x = p["x"]
                if not (m2.is_num(x) and x != 0):
                    continue
                info = dict(v=v, x=x, point=pi)
                ok = t_certifiable(v, x)
                if m2.is_num(p["cdf"]):
                    (cert if ok else refonly).append(("tcdf", ci, info, p["cdf"]))
                if m2.is_num(p["pdf"]):
                    (cert if ok else refonly).append(("tpdf", ci, info, p["pdf"]))
    return cert, refonly


def ref_expr(kind, info):
    L = m2.pylit
    if kind == "ncdf":
        return "ncdf(%s)" % L((info["x"] - info["mu"]) / info["sigma"])
    if kind == "npdf":
        return "npdf(%s)/%s" % (L((info["x"] - info["mu"]) / info["sigma"]), L(info["sigma"]))
    if kind == "tcdf":
        return "tcdf(%s,%s)" % (L(info["v"]), L(info["x"]))
    if kind == "tpdf":
        return "tpdf(%s,%s)" % (L(info["v"]), L(info["x"]))
    raise ValueError(kind)


def ref_check(it, v):
    """-> (bad?, tolerance) for an item against the reference value v"""
    kind, ci, info, obs = it
    if kind == "npdf":
        tol = pdf_tol(info["sigma"])
    else:
        tol = TOL
    return abs(obs - v) > tol, tol


def make_goal(gid, it):
    kind, ci, info, obs = it
    ginfo = dict(kind=kind, case_index=ci, **{k: (m2.fstr(v) if m2.is_num(v) else v) for k, v in info.items()})
    if kind == "ncdf":
        return goal_ncdf(gid, info["mu"], info["sigma"], info["x"], obs, ginfo)
    if kind == "npdf":
        return goal_npdf(gid, info["mu"], info["sigma"], info["x"], obs, ginfo)
    if kind == "invcdf":
        return goal_invcdf(gid, info["mu"], info["sigma"], info["p"], obs, info["pdf"], ginfo)
    if kind == "tcdf":
        return goal_tcdf(gid, info["v"], info["x"], obs, ginfo)
    if kind == "tpdf":
        return goal_tpdf(gid, info["v"], info["x"], obs, ginfo)
    raise ValueError(kind)


def point_case(lines, it):
    kind, ci, info, obs = it
    case = json.loads(lines[ci].split("#", 1)[1])
    try:
        case["xs"] = [case["xs"][info["point"]]]
    except Exception:
        pass
    return case


def extra(ctx):
    tier, seed, lines = ctx["tier"], ctx["seed"], ctx["lines"]
    rnd = random.Random(seed * 1009 + 5)
    cert, refonly = collect(lines)
    quota = dict(ncdf=14, npdf=6, invcdf=8, tcdf=20, tpdf=6) if tier == "quick" else dict(ncdf=400, npdf=150, invcdf=250, tcdf=500, tpdf=150)
    nref = 4000 if tier == "quick" else 60000
    # ---- uncertified reference on a sample of all transcendental values
    ref_items = [it for it in refonly + cert]
    rnd.shuffle(ref_items)
    ref_items = ref_items[:nref]
    exprs = []
    for it in ref_items:
        if it[0] == "invcdf":
            info = it[2]
            exprs.append("ncdf(%s)" % m2.pylit((it[3] - info["mu"]) / info["sigma"]))
        else:
            exprs.append(ref_expr(it[0], it[2]))
    vals = m2.ref_eval_parallel(exprs, dps=30, nproc=min(ctx.get("ncpu", 8), 12), timeout=900)
    bad_ref, n_ref, n_fail = [], 0, 0
    for it, v in zip(ref_items, vals):
        if v is None:
            n_fail += 1
            continue
        n_ref += 1
        if it[0] == "invcdf":
            info = it[2]
            tol = inv_tol(info["p"], it[3], info["pdf"])
            if abs(v - info["p"]) > tol:
                bad_ref.append((it, v, tol))
        else:
            bad, tol = ref_check(it, v)
            if bad:
                bad_ref.append((it, v, tol))
    # ---- certificate goals
    certset = {id(it) for it in cert}
    chosen = [it for it, _, _ in bad_ref if id(it) in certset][:30]
    by_kind = {}
    for it in cert:
        by_kind.setdefault(it[0], []).append(it)
    for kind, items in sorted(by_kind.items()):
        rnd.shuffle(items)
        if kind in ("ncdf", "npdf"):
            # spread over the standardised abscissa: centre, shoulders, tails
            items.sort(key=lambda it: (min(4, int(abs((it[2]["x"] - it[2]["mu"]) / it[2]["sigma"]) // 2)), rnd.random()))
            picked, k = [], 0
            buckets = {}
            for it in items:
                buckets.setdefault(min(4, int(abs((it[2]["x"] - it[2]["mu"]) / it[2]["sigma"]) // 2)), []).append(it)
            while len(picked) < quota[kind] and any(buckets.values()):
                for b in sorted(buckets):
                    if buckets[b] and len(picked) < quota[kind]:
                        picked.append(buckets[b].pop())
            chosen += picked
        elif kind in ("tcdf", "tpdf"):
            # stratified over V: first one goal for each of the small V (1/2 = the only certifiable V below 1,
            # then the integers and half-integers a sample of 2..6 values produces), then one goal per further
            # distinct V, round robin, until the quota is reached; abscissae 1/4 <= |x| <= 8 where a wrong
            # formula is visible
            prio = [Fraction(k, 2) for k in (1, 2, 3, 4, 5, 6, 8, 10)] if kind == "tcdf" else [Fraction(k, 2) for k in (1, 2, 4, 6)]
            byv = {}
            for it in items:
                if Fraction(1, 4) <= abs(it[2]["x"]) <= 8:
                    byv.setdefault(it[2]["v"], []).append(it)
            order = [v for v in prio if v in byv] + [v for v in byv if v not in prio]
            picked, rnd_i = [], 0
            while len(picked) < quota.get(kind, 0) and any(byv[v] for v in order):
                for v in order:
                    if byv[v] and len(picked) < quota.get(kind, 0):
                        picked.append(byv[v].pop())
            chosen += picked
        else:
            chosen += items[:quota.get(kind, 0)]
    seen, goals, gitems = set(), [], []
    for it in chosen:
        key = (it[0], it[1], it[2].get("point"))
        if key in seen:
            continue
        seen.add(key)
        goals.append(make_goal(str(len(goals)), it))
        gitems.append(it)
    summ = m2.run_goals(goals, PID, ncpu=ctx.get("ncpu", 8), timeouts=(45, 150) if tier == "quick" else (60, 300))
    violations, kinds = [], {}
    und = [g for g in goals if g.result["status"] == "undecided"]
    und_ref = dict(zip([id(g) for g in und], m2.ref_eval([g.ref for g in und], dps=30)))
    decided = {}
    for g, it in zip(goals, gitems):
        st = g.result["status"]
        decided[id(it)] = st
        kinds.setdefault(it[0], {}).setdefault(st, 0)
        kinds[it[0]][st] += 1
        if st == "refuted":
            rp = m2.write_replay(PID, "m2", dict(case=point_case(lines, it), goal=g.statement(False), refuted_by=g.statement(True),
                                                  certificate=g.result["file"], info=g.info, observed=m2.fstr(it[3]),
                                                  explanation="the complementary goal tol < |spec - observed| was PROVED by coqc (Coq-Interval): the implementation's value differs from the RealSpec value by more than the property's tolerance",
                                                  seed=seed, tier=tier))
            violations.append(dict(replay=rp, suffix=""))
        elif st == "undecided":
            v = und_ref.get(id(g))
            if v is not None and abs(g.obs - v) > g.tol and not any(b[0] is it for b in bad_ref):
                bad_ref.append((it, v, g.tol))
    for it, v, tol in bad_ref[:5]:
        if decided.get(id(it)) in ("certified", "refuted"):
            continue
        rp = m2.write_replay(PID, "ref", dict(case=point_case(lines, it), info=dict(kind=it[0], **{k: m2.fstr(x) if m2.is_num(x) else x for k, x in it[2].items()}),
                                               observed=m2.fstr(it[3]), reference=m2.fstr(v), tolerance=m2.fstr(tol),
                                               explanation="value differs from the UNCERTIFIED mpmath reference by more than the property's tolerance (outside the window the kernel certifies, or the goal was undecided)",
                                               seed=seed, tier=tier))
        violations.append(dict(replay=rp, suffix=" decided-by-uncertified-reference"))
    return dict(obligations=len(goals), discharged=summ["certified"], certified_goals=summ["certified"], refuted_goals=summ["refuted"],
                undecided_goals=summ["undecided"], certified_by_kind=kinds, uncertified_reference_cases=n_ref,
                uncertified_reference_mismatches=len(bad_ref), uncertified_reference_failed_evaluations=n_fail,
                m2_seconds=summ["seconds"], violations=violations)


def replay(rp, ctx):
    import subprocess
    case = rp["case"]
    r = subprocess.run([ctx["harness"], "run", PID], input=json.dumps(case) + "\n", capture_output=True, text=True, env=ctx["env"])
    lines = [l for l in r.stdout.split("\n") if l.strip() and not l.startswith("!")]
    if not lines:
        print("harness rejected the replay case:", r.stdout[:300])
        return 2
    cert, refonly = collect(lines)
    kind = rp.get("info", {}).get("kind")
    items = [it for it in cert + refonly if it[0] == kind] or (cert + refonly)
    if not items:
        print("no comparable value in the case")
        return 2
    it = items[0]
    print("case      :", json.dumps(case))
    status = None
    g = None
    if any(it is c for c in cert):
        g = make_goal("replay", it)
        m2.run_goals([g], PID + "r", ncpu=1, timeouts=(60, 200))
        status = g.result["status"]
        print("goal      :", g.statement(False))
        print("kernel    :", status, g.result["log"])
    if it[0] == "invcdf":
        info = it[2]
        v = m2.ref_eval(["ncdf(%s)" % m2.pylit((it[3] - info["mu"]) / info["sigma"])], dps=30)[0]
        badref = v is not None and abs(v - info["p"]) > inv_tol(info["p"], it[3], info["pdf"])
        print("InvCDF    :", m2.fstr(it[3]), " reference CDF there (uncertified):", m2.fstr(v), " p:", m2.fstr(info["p"]))
    else:
        v = m2.ref_eval([ref_expr(it[0], it[2])], dps=30)[0]
        badref = v is not None and ref_check(it, v)[0]
        print("observed  :", m2.fstr(it[3]), " reference (uncertified):", m2.fstr(v) if v is not None else "n/a")
    bad = status == "refuted" or (status != "certified" and badref)
    print("RESULT    :", "still fails on the current tree" if bad else "passes on the current tree")
    return 1 if bad else 0

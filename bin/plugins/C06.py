"""human-readable decoding of a C06 case line / verdict for replays"""
import struct


def _f(bits):
    return struct.unpack(">d", struct.pack(">Q", bits & 0xFFFFFFFFFFFFFFFF))[0]


def describe(line, verdict, case_json):
    d = {}
    try:
        op, status = line[1], line[2]
        if op == 0:
            d["dist"] = "BinomialDist{N:%d, P:%r}" % (line[3], _f(line[4]))
            hdr = dict(zip(["Mean", "Variance", "NormalApprox.Mu", "NormalApprox.Sigma", "Bounds.lo", "Bounds.hi", "Step"], map(_f, line[5:12])))
            items = line[13:]
        else:
            d["dist"] = "HypergeometicDist{N:%d, K:%d, Draws:%d}" % (line[3], line[4], line[5])
            hdr = dict(zip(["Mean", "Variance", "Bounds.lo", "Bounds.hi", "Step"], map(_f, line[6:11])))
            items = line[12:]
        d["status"] = {0: "returned", 2: "panicked", 3: "two passes over the same (distribution, k) in one process differ in some bit"}.get(status, status)
        cj = case_json
        if isinstance(cj, (str, bytes)):
            try:
                import json
                cj = json.loads(cj)
            except Exception:
                cj = None
        if isinstance(cj, dict) and cj.get("pre"):
            d["evaluated_before_in_the_same_process"] = cj["pre"]
        d["observed_header"] = hdr
        code, tag, pos = verdict[0], verdict[1], verdict[2]
        if code == 2 and pos >= 10:
            i, which = (pos - 10) // 2, (pos - 10) % 2
            k, pm, cd = items[3 * i: 3 * i + 3]
            d["failing"] = dict(k=_f(k), observable=["PMF", "CDF"][which], observed=_f(pm if which == 0 else cd))
            dg = verdict[3:]
            if tag & 2048 and len(dg) >= 5:
                # enclosure mode (Check/C06.v, round 3): diagnostics = floor k, L num, L den, U num, U den
                from fractions import Fraction
                lo, hi = Fraction(dg[1], dg[2]), Fraction(dg[3], dg[4])
                d["failing"]["floor_k"] = dg[0]
                d["failing"]["expected"] = float(lo)
                d["failing"]["expected_enclosure"] = dict(lower=float(lo), upper=float(hi), width=float(hi - lo),
                                                          observed_minus_lower=float(Fraction(d["failing"]["observed"]) - lo))
            elif len(dg) >= 4:
                ki, u, T, s = dg[0], dg[1], dg[2], dg[3]
                d["failing"]["floor_k"] = ki
                try:
                    from fractions import Fraction
                    d["failing"]["expected"] = float(Fraction(u, T * 2 ** s))
                except Exception:
                    pass
        elif code == 2 and 0 <= pos < 7:
            d["failing"] = dict(observable=["Mean", "Variance", "NormalApprox.Mu", "NormalApprox.Sigma", "Bounds.lo", "Bounds.hi", "Step"][pos])
    except Exception as e:
        d["describe_error"] = repr(e)
    return d

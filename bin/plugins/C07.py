"""Human-readable decoding of a C07 case line and verdict (used for replays/evidence only)."""
import struct
from fractions import Fraction


def _f(bits):
    return struct.unpack(">d", struct.pack(">Q", bits & 0xFFFFFFFFFFFFFFFF))[0]


def _q(num, den):
    fr = Fraction(num, den)
    return {"exact": "%d/%d" % (fr.numerator, fr.denominator), "approx": float(fr)}


def _xdiag(d):
    if not d:
        return None
    if d[0] == 0:
        return "NaN"
    if d[0] == 1:
        return "-Inf" if d[1] else "+Inf"
    return _q(d[1], d[2])


_WHY = {
    1: "y is NaN (nothing is demanded; not reported)",
    2: "expected NaN (y outside [0,1])",
    3: "special value y=0 / y=1: expected exactly the value below (Bounds end point if CDF is exactly 0/1 there, else -Inf/+Inf)",
    4: "call panicked or returned a non-finite value; expected the quantile below",
    5: "result is not within 1e-9|x*| (+ 2^-50 W/H for the harness's own rounding on a ramp of width W, height H) of the exact quantile x* below",
    6: "CDF(result) < y: the result is not an upper end (smallest x with CDF(x) >= y is x* below)",
    7: "result outside the pair [x1, x2] reached by the model bisection after 12 halvings",
    8: "dispatch: stats.InvCDF(d)(y) and d.InvCDF(y) differ (status, generic bits, method bits)",
    9: "stats.Rand(d)(r) differs from the reference generator (own Rand method, or InvCDF(d) at the first non-zero source value) for equally seeded sources (observed bits, reference bits)",
    10: "relational: CDF(x) < y at the returned x (own method: CDF(x + 1e-9|x|) < y - 1e-12); CDF value below",
    11: "relational: CDF(x - 1e-9|x|) >= y: the returned x is not the smallest point with CDF >= y; CDF(x - tol) below",
    12: "infinite result for 0 < y < 1: expected exactly when the bracket expansion overflows (quantile beyond 2^1023 / at or below -2^1023); [neg, expected quantile or CDF at the last finite probe]",
    13: "not non-decreasing in y: the results at the two level indices below are in the wrong order",
    14: "the distribution's Bounds / CDF (2) or the constructors stats.InvCDF / stats.Rand (3) panicked",
    15: "the distribution's own Rand method is not a deterministic function of the source: two equally seeded sources gave different draws (or a draw panicked): status, bits, status, bits",
}


def describe(line, verdict, case):
    out = {"op": line[1] if len(line) > 1 else None}
    code, tag, pos = verdict[0], verdict[1], verdict[2]
    diag = verdict[3:]
    bits = {1: "bisection", 2: "special", 4: "nan-range", 8: "right", 16: "left", 32: "far", 64: "jump", 128: "flat-level",
            256: "ramp", 512: "discrete", 1024: "dispatch", 2048: "rand", 4096: "zeros-skipped", 8192: "inf-at-end",
            16384: "nan-arg", 32768: "exact-level", 65536: "borderline", 131072: "ks", 262144: "relational", 524288: "overflow"}
    out["branches"] = [n for b, n in sorted(bits.items()) if tag & b]
    if code in (0, 1):
        return out
    op = line[1]
    try:
        if op in (0, 1, 2, 11):
            if op == 0:
                nk = line[2]
                base = 3 + 3 * nk + 2
            elif op == 1:
                base = 4
            elif op == 11:
                base = 5 + line[4]      # 7 11 N1 N2 nt t.. ny: support points k, k1, k2 below are in DOUBLED units (u = k/2)
            else:
                base = 5
            items = line[base + 1:]
            y, st, obs = items[3 * pos: 3 * pos + 3]
            out["failing_level"] = {"index": pos, "y": _f(y), "status": st, "observed": _f(obs)}
            if op == 0:
                out["why"] = _WHY.get(diag[0], "?") if diag else "?"
                if diag and diag[0] in (4, 5, 6) and len(diag) >= 3:
                    out["expected_quantile"] = _q(diag[1], diag[2])
                elif diag and diag[0] == 3:
                    out["expected"] = _xdiag(diag[1:])
                elif diag and diag[0] == 7 and len(diag) >= 5:
                    out["model_pair"] = [_q(diag[1], diag[2]), _q(diag[3], diag[4])]
                elif diag and diag[0] == 12 and len(diag) >= 4:
                    out["expected"] = "-Inf" if diag[1] else "+Inf"
                    out["exact_quantile"] = _q(diag[2], diag[3])
                elif diag and diag[0] == 13 and len(diag) >= 3:
                    out["level_indices"] = diag[1:3]
            else:
                if diag and diag[0] in (4, 5) and len(diag) >= 4:
                    out["why"] = "expected the support point k (any of k1..k2 when y is within 1e-9 of a cumulative level), returned as a float >= k within 1e-9"
                    out["expected_k"], out["k1"], out["k2"] = diag[1], diag[2], diag[3]
                elif diag:
                    out["why"] = _WHY.get(diag[0], "?")
                    if diag[0] == 3:
                        out["expected"] = _xdiag(diag[1:])
        elif op == 3:
            out["why"] = _WHY.get(diag[0], "?") if diag else "?"
            out["index"] = pos
            out["values"] = [_f(b) if i > 0 or diag[0] == 9 else b for i, b in enumerate(diag[1:])]
        elif op == 4:
            out["why"] = ["Rand panicked", "number of source values consumed (expected, observed)",
                          "y reported by the harness is not the first non-zero source value / 2^63",
                          "draw != InvCDF(dist)(y) bit for bit (status, draw bits, inv bits)",
                          "InvCDF(dist)(y) itself is wrong: " + (_WHY.get(diag[0], "?") if diag else "?")][pos] if 0 <= pos <= 4 else "?"
            out["diag"] = diag
        elif op in (9, 10):
            kinds = ["TDist", "UDist", "KDE", "BinomialDist", "HypergeometicDist", "NormalDist", "DeltaDist", "harness geometric (DiscreteDist)", "harness Poisson (DiscreteDist)", "harness atom + exponential tail", "harness power law"]
            out["distribution"] = kinds[line[2]] if 0 <= line[2] < len(kinds) else line[2]
            out["own_rand_method"] = bool(line[4] & 2)
            if diag and diag[0] == 14:
                out["why"] = _WHY[14]
            elif op == 9:
                out["why"] = _WHY[15]
                out["draws"] = [_f(diag[2]), _f(diag[4])] if len(diag) >= 5 else diag
            else:
                out["why"] = ["stats.Rand(d) (2) or the distribution's CDF at a draw (3) panicked",
                              "Kolmogorov-Smirnov distance of the draws of stats.Rand(d) to d's own CDF (computed by the comparator from the sorted draws and the reported cdf values) exceeds the DKW bound for false-alarm probability 1e-9",
                              "a draw or a cdf value is not a finite number, or the draws are not sorted"][pos] if 0 <= pos <= 2 else "?"
                if pos == 1 and len(diag) >= 2:
                    out["D"] = _q(diag[0], diag[1])
                    n = line[13] if len(line) > 13 else None
                    out["draws"] = n
        elif op in (6, 7):
            kinds = ["TDist", "UDist", "KDE", "BinomialDist", "HypergeometicDist", "NormalDist", "DeltaDist", "harness geometric (DiscreteDist)", "harness Poisson (DiscreteDist)", "harness atom + exponential tail", "harness power law"]
            out["distribution"] = kinds[line[2]] if 0 <= line[2] < len(kinds) else line[2]
            out["own_invcdf_method"], out["own_rand_method"] = bool(line[4] & 1), bool(line[4] & 2)
            if op == 7 and 0 <= pos <= 3:
                out["why"] = ["Rand panicked", "number of source values consumed (expected, observed)",
                              "y reported by the harness is not the first non-zero source value / 2^63",
                              "draw != InvCDF(dist)(y) bit for bit (status, draw bits, inv bits)"][pos]
                out["diag"] = diag
            elif op == 6 and pos >= 1000:
                out["why"] = _WHY[9]
                out["values"] = [_f(b) for b in diag[1:]]
            else:
                out["why"] = _WHY.get(diag[0], "?") if diag else "?"
                if diag and diag[0] == 14:
                    pass
                elif diag and diag[0] == 8 and len(diag) >= 5:
                    out["why"] = ("InvCDF(d)(y) is not bit-identical to " + ("the distribution's own method" if line[4] & 1 else
                                  "the generic algorithm run through a bare CDF/Bounds wrapper") + " (status, result bits, reference status/bits)")
                    out["result"], out["reference"] = _f(diag[2]), _f(diag[3])
                elif diag and diag[0] in (10, 11) and len(diag) >= 3:
                    out["cdf_value"] = _q(diag[1], diag[2])
                elif diag and diag[0] == 3:
                    out["expected"] = _xdiag(diag[1:])
                if op == 6:
                    base = 12
                    items = line[base + 1:]
                    if 0 <= pos and 10 * pos + 10 <= len(items):
                        it = items[10 * pos: 10 * pos + 10]
                        out["failing_level"] = {"index": pos, "y": _f(it[0]), "status": it[1], "x": _f(it[2]), "CDF(x)": _f(it[4]),
                                                "x-tol": _f(it[3]), "CDF(x-tol)": _f(it[5])}
        elif op == 8:
            out["why"] = ["Rand panicked", "Kolmogorov-Smirnov distance (computed by the comparator against the exact cdf) exceeds the DKW bound for false-alarm probability 1e-9",
                          "a draw is not a finite number"][pos] if 0 <= pos <= 2 else "?"
            if pos == 1 and len(diag) >= 2:
                out["D"] = _q(diag[0], diag[1])
        elif op == 5:
            out["why"] = "Kolmogorov-Smirnov distance of the draws exceeds the DKW bound for false-alarm probability 1e-9"
            if len(diag) >= 3:
                out["D"] = _q(diag[1], diag[2])
    except Exception as e:  # a decoding aid must never break the driver
        out["decode_error"] = repr(e)
    return out

"""Human-readable decoding of a C07 case line and verdict (used for replays/evidence only)."""
import struct
from fractions import Fraction


def _f(bits):
    return struct.unpack(">d", struct.pack(">Q", bits & 0xFFFFFFFFFFFFFFFF))[0]


def _q(num, den):
    fr = Fraction(num, den)
    return {"exact": "%d/%d" % (fr.numerator, fr.denominator), "approx": float(fr)}


def _xdiag(d):
    if not d:
        return None
    if d[0] == 0:
        return "NaN"
    if d[0] == 1:
        return "-Inf" if d[1] else "+Inf"
    return _q(d[1], d[2])


_WHY = {
    1: "y is NaN: the generic closure panics in bisectBool (model: IPanic); the call did not panic",
    2: "expected NaN (y outside [0,1])",
    3: "special value y=0 / y=1: expected exactly the value below (Bounds end point if CDF is exactly 0/1 there, else -Inf/+Inf)",
    4: "call panicked or returned a non-finite value; expected the quantile below",
    5: "result is not within 1e-9|x*| + 1e-9 max|break point| + 2e-16 of the exact quantile x* below",
    6: "CDF(result) < y: the result is not an upper end (smallest x with CDF(x) >= y is x* below)",
    7: "result outside the pair [x1, x2] reached by the model bisection after 12 halvings",
    8: "dispatch: stats.InvCDF(d)(y) and d.InvCDF(y) differ (status, generic bits, method bits)",
    9: "dispatch: stats.Rand(d)(r) and the method's draw differ (generic bits, method bits)",
}


def describe(line, verdict, case):
    out = {"op": line[1] if len(line) > 1 else None}
    code, tag, pos = verdict[0], verdict[1], verdict[2]
    diag = verdict[3:]
    bits = {1: "bisection", 2: "special", 4: "nan-range", 8: "right", 16: "left", 32: "far", 64: "jump", 128: "flat-level",
            256: "ramp", 512: "discrete", 1024: "dispatch", 2048: "rand", 4096: "zeros-skipped", 8192: "inf-at-end",
            16384: "nan-arg-panic", 32768: "exact-level", 65536: "borderline", 131072: "ks"}
    out["branches"] = [n for b, n in sorted(bits.items()) if tag & b]
    if code in (0, 1):
        return out
    if code == 10:
        out["signature"] = "xtol-limited accuracy near 0: the result is within 2e-16 of the quantile absolutely, but not within 1e-9 relative (bisectBool xtol = 1e-16, dist.go:124)"
        if len(diag) >= 2:
            out["expected_quantile"] = _q(diag[0], diag[1])
        return out
    op = line[1]
    try:
        if op in (0, 1, 2):
            if op == 0:
                nk = line[2]
                base = 3 + 3 * nk + 2
            elif op == 1:
                base = 4
            else:
                base = 5
            items = line[base + 1:]
            y, st, obs = items[3 * pos: 3 * pos + 3]
            out["failing_level"] = {"index": pos, "y": _f(y), "status": st, "observed": _f(obs)}
            if op == 0:
                out["why"] = _WHY.get(diag[0], "?") if diag else "?"
                if diag and diag[0] in (4, 5, 6) and len(diag) >= 3:
                    out["expected_quantile"] = _q(diag[1], diag[2])
                elif diag and diag[0] == 3:
                    out["expected"] = _xdiag(diag[1:])
                elif diag and diag[0] == 7 and len(diag) >= 5:
                    out["model_pair"] = [_q(diag[1], diag[2]), _q(diag[3], diag[4])]
            else:
                if diag and diag[0] in (4, 5) and len(diag) >= 4:
                    out["why"] = "expected the support point k (any of k1..k2 when y is within 1e-9 of a cumulative level), returned as a float >= k within 1e-9"
                    out["expected_k"], out["k1"], out["k2"] = diag[1], diag[2], diag[3]
                elif diag:
                    out["why"] = _WHY.get(diag[0], "?")
                    if diag[0] == 3:
                        out["expected"] = _xdiag(diag[1:])
        elif op == 3:
            out["why"] = _WHY.get(diag[0], "?") if diag else "?"
            out["index"] = pos
            out["values"] = [_f(b) if i > 0 or diag[0] == 9 else b for i, b in enumerate(diag[1:])]
        elif op == 4:
            out["why"] = ["Rand panicked", "number of source values consumed (expected, observed)",
                          "y reported by the harness is not the first non-zero source value / 2^63",
                          "draw != InvCDF(dist)(y) bit for bit (status, draw bits, inv bits)",
                          "InvCDF(dist)(y) itself is wrong: " + (_WHY.get(diag[0], "?") if diag else "?")][pos] if 0 <= pos <= 4 else "?"
            out["diag"] = diag
        elif op == 5:
            out["why"] = "Kolmogorov-Smirnov distance of the draws exceeds the DKW bound for false-alarm probability 1e-9"
            if len(diag) >= 3:
                out["D"] = _q(diag[1], diag[2])
    except Exception as e:  # a decoding aid must never break the driver
        out["decode_error"] = repr(e)
    return out

"""bin/plugins/C08.py — C08 (mathx special functions): per-case certificate goals (M2),
uncertified mpmath reference, human-readable decoding of replays.

What is decided here (DESIGN.md section 7, C08 "Tie"):
  * kernel-certified goals on a sample of the run's cases
      - Lchoose(n,k)          : Rabs (ln (IZR (binomZ n k)) - obs) <= 1e-10          [interval]
      - GammaInc/Comp(a,x)    : integer a, closed form of Proofs/GammaR.v              [interval]
      - BetaInc(x,a,b)        : half-integer a,b >= 1, two integrals (Proofs/BetaR.v) [integral + interval];
                                half-integer a,b with a = 1/2 or b = 1/2 (the shape TDist.CDF uses): RealSpec/BetaGen.v's
                                Ibeta_gen through three proper integrals (Proofs/M2LemmasBeta.v)
  * every other transcendental value (non-integer parameters outside those windows) is
    compared with the UNCERTIFIED mpmath reference on a sample; reported separately.
"""
import os, sys, json, random, math
from fractions import Fraction

sys.path.insert(0, os.path.dirname(os.path.dirname(os.path.abspath(__file__))))
import m2  # noqa: E402

PID = "C08"
TOL_VALUE = Fraction(1, 10 ** 9)      # BetaInc, GammaInc: "to within 1e-9"
TOL_LCHOOSE = Fraction(1, 10 ** 10)   # Choose within 1e-10 relative  =>  its logarithm within 1e-10 absolute
TOL_BETA_REL = Fraction(1, 10 ** 9)
REQ = "From MM Require Import RealSpec.Beta RealSpec.Gamma RealSpec.BetaGen Proofs.BetaR Proofs.GammaR Proofs.M2Lemmas Proofs.M2LemmasBeta Model.Mathx."


# ------------------------------------------------------------------ line decoding
def parse(ints):
    """case line -> dict(op=..., ...) with exact values"""
    op = ints[1]
    X = m2.bits_to_x
    if op == 1:
        n, cnt = ints[2], ints[3]
        es = [(ints[4 + 3 * i], X(ints[5 + 3 * i]), X(ints[6 + 3 * i])) for i in range(cnt)]
        return dict(op=1, n=n, entries=es)
    if op == 2:
        cnt = ints[2]
        return dict(op=2, entries=[(X(ints[3 + 2 * i]), X(ints[4 + 2 * i])) for i in range(cnt)])
    if op == 3:
        a, b, cnt = X(ints[2]), X(ints[3]), ints[4]
        pts = []
        for i in range(cnt):
            o = 5 + 5 * i
            pts.append(dict(x=X(ints[o]), x1=X(ints[o + 1]), status=ints[o + 2], v=X(ints[o + 3]), v1=X(ints[o + 4])))
        return dict(op=3, a=a, b=b, pts=pts)
    if op == 4:
        a, cnt = X(ints[2]), ints[3]
        pts = []
        for i in range(cnt):
            o = 4 + 4 * i
            pts.append(dict(x=X(ints[o]), status=ints[o + 1], p=X(ints[o + 2]), q=X(ints[o + 3])))
        return dict(op=4, a=a, pts=pts)
    if op == 5:
        cnt = ints[2]
        return dict(op=5, entries=[(X(ints[3 + 3 * i]), X(ints[4 + 3 * i]), X(ints[5 + 3 * i])) for i in range(cnt)])
    if op == 6:
        cnt = ints[9]
        return dict(op=6, fn=ints[2], a=X(ints[3]), b=X(ints[4]), lo=X(ints[5]), hi=X(ints[6]), n=ints[7], status=ints[8],
                    pts=[dict(xlo=X(ints[10 + 4 * i]), xhi=X(ints[11 + 4 * i]), f_lo=X(ints[12 + 4 * i]), f_hi=X(ints[13 + 4 * i])) for i in range(cnt)])
    if op == 7:
        cnt = ints[2]
        return dict(op=7, entries=[tuple(X(ints[3 + 6 * i + j]) for j in range(6)) for i in range(cnt)])
    return dict(op=op)


CODES3 = {1: "value differs from the closed form I_x(a,b) at integer (a,b)", 2: "value outside [0,1]", 3: "not monotone in x",
          4: "BetaInc(x,a,b)+BetaInc(1-x,b,a) != 1", 5: "x outside [0,1] must give NaN", 6: "end value (0 at x=0, 1 at x=1)", 7: "panic / status"}
CODES4 = {2: "P or Q outside [0,1]", 3: "not monotone in x", 4: "P+Q != 1", 5: "NaN domain (a<=0, x<0, NaN)", 6: "x=0 must give P=0, Q=1", 7: "panic / status"}


def describe(ints, verdict, case_json):
    d = parse(ints)
    pos = verdict[2] if len(verdict) > 2 else -1
    if pos >= 1 << 62:
        pos = -1
    out = dict(op={1: "Choose/Lchoose row", 2: "Sign", 3: "BetaInc grid", 4: "GammaInc/GammaIncComp grid", 5: "Beta"}.get(d["op"], d["op"]), index=pos)
    try:
        if d["op"] == 1 and 0 <= pos < len(d["entries"]):
            k, c, l = d["entries"][pos]
            out.update(n=d["n"], k=k, Choose=m2.fstr(c), Lchoose=m2.fstr(l), which={1: "Choose", 2: "Lchoose"}.get(verdict[3], "?"),
                       expected_binomial=str(verdict[4]) if len(verdict) > 4 else None)
        elif d["op"] == 2 and 0 <= pos < len(d["entries"]):
            out.update(x=m2.fstr(d["entries"][pos][0]), Sign=m2.fstr(d["entries"][pos][1]))
        elif d["op"] == 3 and 0 <= pos < len(d["pts"]):
            p = d["pts"][pos]
            out.update(a=m2.fstr(d["a"]), b=m2.fstr(d["b"]), x=m2.fstr(p["x"]), BetaInc=m2.fstr(p["v"]), BetaInc_reflected=m2.fstr(p["v1"]),
                       failed=CODES3.get(verdict[3], verdict[3]))
            if len(verdict) >= 6 and verdict[5]:
                out["expected"] = m2.fstr(Fraction(verdict[4], verdict[5]))
        elif d["op"] == 4 and 0 <= pos < len(d["pts"]):
            p = d["pts"][pos]
            out.update(a=m2.fstr(d["a"]), x=m2.fstr(p["x"]), GammaInc=m2.fstr(p["p"]), GammaIncComp=m2.fstr(p["q"]), failed=CODES4.get(verdict[3], verdict[3]))
        elif d["op"] == 7 and 0 <= pos < len(d["entries"]):
            a, b, a1, b0, b1, bs = d["entries"][pos]
            out.update(op="Beta laws", a=m2.fstr(a), b=m2.fstr(b), Beta_a_b=m2.fstr(b0), Beta_a1_b=m2.fstr(b1), Beta_b_a=m2.fstr(bs),
                       failed={1: "not finite / not positive", 2: "Beta(a,b) != Beta(b,a)", 3: "(a+b) Beta(a+1,b) != a Beta(a,b) to 1e-9 relative"}.get(verdict[3] if len(verdict) > 3 else None))
        elif d["op"] == 6:
            out.update(op="monotonicity scan in x", function={1: "BetaInc(x,a,b)", 2: "GammaInc(a,x)", 3: "GammaIncComp(a,x)"}.get(d["fn"], d["fn"]),
                       a=m2.fstr(d["a"]), b=m2.fstr(d["b"]),
                       failed={2: "value outside [0,1] or not finite", 3: "not monotone in x beyond 1e-12", 7: "panic"}.get(verdict[3] if len(verdict) > 3 else None))
            if 0 <= pos < len(d["pts"]):
                pt = d["pts"][pos]
                out["pair"] = {k: m2.fstr(v, 19) for k, v in pt.items()}
                if m2.is_num(pt["f_lo"]) and m2.is_num(pt["f_hi"]):
                    out["step"] = m2.fstr(pt["f_hi"] - pt["f_lo"])
        elif d["op"] == 5 and 0 <= pos < len(d["entries"]):
            a, b, o = d["entries"][pos]
            out.update(a=m2.fstr(a), b=m2.fstr(b), Beta=m2.fstr(o))
            if len(verdict) >= 5 and verdict[4]:
                out["expected_rational_part"] = m2.fstr(Fraction(verdict[3], verdict[4]))
    except Exception as e:  # noqa
        out["note"] = "decode: %r" % (e,)
    return out


# ------------------------------------------------------------------ goal builders
def half_int(v):
    """v = 1 + p/2 with p a natural number <= 78 -> p, else None"""
    if not m2.is_num(v):
        return None
    p = (v - 1) * 2
    if p.denominator == 1 and 0 <= p <= 78:
        return int(p)
    return None


def half2(v):
    """v = m/2 with m a natural number in 1..80 -> m, else None"""
    if not m2.is_num(v):
        return None
    m = v * 2
    if m.denominator == 1 and 1 <= m <= 80:
        return int(m)
    return None


def goal_beta_gen(gid, x, a, b, obs, info):
    """half-integer a, b >= 1/2 (in particular a = 1/2 or b = 1/2, the shape TDist.CDF uses): RealSpec/BetaGen.v's
    Ibeta_gen through three proper integrals (Proofs/M2LemmasBeta.v)"""
    p, q = half2(a), half2(b)
    xs, as_, bs = m2.rlit(x), m2.rlit(a), m2.rlit(b)
    expr = "Ibeta_gen %s %s %s" % (xs, as_, bs)
    side = "rewrite ?INR_lit; simpl; lra"
    prelude = ("rewrite (Ibeta_gen_half_form %d %d %s %s %s); [ | %s | %s | repeat constructor | repeat constructor | lra ]."
               % (p, q, as_, bs, xs, side, side))
    kpq = "(fun t => sqrt t ^ %d * sqrt (1 - t) ^ %d / (1 - t))" % (p, q)
    kqp = "(fun t => sqrt t ^ %d * sqrt (1 - t) ^ %d / (1 - t))" % (q, p)
    rel = Fraction(1, 10 ** 10)

    def href(pp, qq, up):
        # int_0^up t^(pp/2) (1-t)^(qq/2-1) dt = B_up(pp/2+1, qq/2)
        return "bint(%s,%s,%s)" % (m2.pylit(Fraction(pp, 2) + 1), m2.pylit(Fraction(qq, 2)), up)
    integrals = [dict(term="RInt %s 0 %s" % (kpq, xs), pat="RInt _ 0 %s" % xs, ref=href(p, q, m2.pylit(x)), rel=rel),
                 dict(term="RInt %s 0 (1 / 2)" % kpq, pat="RInt _ 0 (1 / 2)", ref=href(p, q, "F('1/2')"), rel=rel),
                 dict(term="RInt %s 0 (1 / 2)" % kqp, pat="RInt _ 0 (1 / 2)", ref=href(q, p, "F('1/2')"), rel=rel)]
    if x == Fraction(1, 2):
        integrals = integrals[1:]
    return m2.Goal(gid, expr, obs, TOL_VALUE, requires=REQ, prelude=prelude, integrals=integrals,
                   ref="ibeta(%s,%s,%s)" % (m2.pylit(x), m2.pylit(a), m2.pylit(b)), info=info)


def goal_lchoose(gid, n, k, obs, info):
    expr = "ln (IZR (binomZ %d %d))" % (n, k)
    prelude = ("let v := eval vm_compute in (binomZ %d %d) in replace (binomZ %d %d) with v by (vm_compute; reflexivity)." % (n, k, n, k))
    return m2.Goal(gid, expr, obs, TOL_LCHOOSE, requires=REQ, prelude=prelude, ref="lbinom(%d,%d)" % (n, k), info=info,
                   finish="interval with (i_prec 90)")


def goal_gamma(gid, a, x, obs, comp, info):
    n = int(a) - 1
    xs = m2.rlit(x)
    if comp:
        expr = "(1 - Pgamma_nat %d %s)" % (n, xs)
        prelude = "rewrite Qgamma_cert_form. cbv [hz Z.of_nat Pos.of_succ_nat Pos.succ]."
        ref = "qgamma(%d,%s)" % (n + 1, m2.pylit(x))
    else:
        expr = "Pgamma_nat %d %s" % (n, xs)
        prelude = "rewrite Pgamma_cert_form. cbv [hz Z.of_nat Pos.of_succ_nat Pos.succ]."
        ref = "pgamma(%d,%s)" % (n + 1, m2.pylit(x))
    return m2.Goal(gid, expr, obs, TOL_VALUE, requires=REQ, prelude=prelude, ref=ref, info=info, finish="interval with (i_prec 120)")


def goal_beta(gid, x, a, b, obs, info):
    p, q = half_int(a), half_int(b)
    xs, as_, bs = m2.rlit(x), m2.rlit(a), m2.rlit(b)
    expr = "Ibeta_R %s %s %s" % (xs, as_, bs)
    prelude = "rewrite (Ibeta_half %d %d %s %s %s) by (rewrite ?INR_lit; simpl; lra)." % (p, q, as_, bs, xs)
    fun = "(fun t => sqrt t ^ %d * sqrt (1 - t) ^ %d)" % (p, q)
    # each integral to 1e-11 relative: the ratio is then within 3e-11 of the truth
    rel = Fraction(1, 10 ** 10)
    integrals = [dict(term="RInt %s 0 %s" % (fun, xs), pat="RInt _ 0 %s" % xs, ref="bint(%s,%s,%s)" % (m2.pylit(a), m2.pylit(b), m2.pylit(x)), rel=rel),
                 dict(term="RInt %s 0 1" % fun, pat="RInt _ 0 1", ref="bint(%s,%s,1)" % (m2.pylit(a), m2.pylit(b)), rel=rel)]
    if x == 1:
        integrals = integrals[1:]
    return m2.Goal(gid, expr, obs, TOL_VALUE, requires=REQ, prelude=prelude, integrals=integrals,
                   ref="ibeta(%s,%s,%s)" % (m2.pylit(x), m2.pylit(a), m2.pylit(b)), info=info)


# ------------------------------------------------------------------ the extra stage
def collect(lines, rnd, tier):
    """-> (certifiable goal candidates, reference-only items)"""
    cert, refonly = [], []
    for ci, ln in enumerate(lines):
        ints = [int(t, 16) for t in ln.split("#")[0].split()]
        d = parse(ints)
        if d["op"] == 1:
            n = d["n"]
            for (k, c, l) in d["entries"]:
                if 0 < k < n and m2.is_num(l):
                    cert.append(("lchoose", ci, dict(n=n, k=k), l))
        elif d["op"] == 3:
            a, b = d["a"], d["b"]
            pa, pb = half_int(a), half_int(b)
            for pi, p in enumerate(d["pts"]):
                x = p["x"]
                if not (m2.is_num(x) and 0 < x < 1 and p["status"] == 0 and m2.is_num(p["v"])):
                    continue
                info = dict(a=a, b=b, x=x, point=pi)
                small_x = x.denominator <= (1 << 30) and x >= Fraction(1, 1 << 20) and 1 - x >= Fraction(1, 1 << 20)
                if pa is not None and pb is not None and small_x:
                    cert.append(("beta", ci, info, p["v"]))
                elif (half2(a) is not None and half2(b) is not None and (half2(a) == 1 or half2(b) == 1)
                      and x.denominator <= (1 << 30) and Fraction(1, 64) <= x <= 1 - Fraction(1, 64)):
                    cert.append(("betag", ci, info, p["v"]))
                elif not (a.denominator == 1 and b.denominator == 1 and x.denominator <= 1024):
                    refonly.append(("beta", ci, info, p["v"]))
        elif d["op"] == 4:
            a = d["a"]
            if not (m2.is_num(a) and a > 0):
                continue
            for pi, p in enumerate(d["pts"]):
                x = p["x"]
                if not (m2.is_num(x) and x > 0 and p["status"] == 0 and m2.is_num(p["p"]) and m2.is_num(p["q"])):
                    continue
                info = dict(a=a, x=x, point=pi)
                # (Coq-Interval does not finish 1 - exp(-x) * poly(x) for x = 1e10 within the limits: far tail by reference)
                if a.denominator == 1 and a <= 300 and x.denominator <= (1 << 40) and Fraction(1, 1 << 30) <= x <= 10 ** 7:
                    cert.append(("gammaP", ci, info, p["p"]))
                    cert.append(("gammaQ", ci, info, p["q"]))
                else:
                    refonly.append(("gammaP", ci, info, p["p"]))
                    refonly.append(("gammaQ", ci, info, p["q"]))
        elif d["op"] == 5:
            for ei, (a, b, o) in enumerate(d["entries"]):
                if m2.is_num(a) and m2.is_num(b) and m2.is_num(o) and not ((2 * a).denominator == 1 and (2 * b).denominator == 1):
                    refonly.append(("betafn", ci, dict(a=a, b=b, point=ei), o))
    return cert, refonly


def ref_expr(kind, info):
    L = m2.pylit
    if kind == "lchoose":
        return "lbinom(%d,%d)" % (info["n"], info["k"])
    if kind in ("beta", "betag"):
        return "ibeta(%s,%s,%s)" % (L(info["x"]), L(info["a"]), L(info["b"]))
    if kind == "gammaP":
        return "pgamma(%s,%s)" % (L(info["a"]), L(info["x"]))
    if kind == "gammaQ":
        return "qgamma(%s,%s)" % (L(info["a"]), L(info["x"]))
    if kind == "betafn":
        return "beta(%s,%s)" % (L(info["a"]), L(info["b"]))
    raise ValueError(kind)


def tol_of(kind, refval):
    if kind == "lchoose":
        return TOL_LCHOOSE
    if kind == "betafn":
        return TOL_BETA_REL * abs(refval)
    return TOL_VALUE


def make_goal(gid, item):
    kind, ci, info, obs = item
    ginfo = dict(kind=kind, case_index=ci, **{k: (m2.fstr(v) if m2.is_num(v) else v) for k, v in info.items()})
    if kind == "lchoose":
        return goal_lchoose(gid, info["n"], info["k"], obs, ginfo)
    if kind == "beta":
        return goal_beta(gid, info["x"], info["a"], info["b"], obs, ginfo)
    if kind == "betag":
        return goal_beta_gen(gid, info["x"], info["a"], info["b"], obs, ginfo)
    if kind == "gammaP":
        return goal_gamma(gid, info["a"], info["x"], obs, False, ginfo)
    if kind == "gammaQ":
        return goal_gamma(gid, info["a"], info["x"], obs, True, ginfo)
    raise ValueError(kind)


def point_case(lines, item):
    """the harness case restricted to the one point the goal is about (small replay)"""
    kind, ci, info, obs = item
    case = json.loads(lines[ci].split("#", 1)[1])
    try:
        if kind == "lchoose":
            case["ks"] = [info["k"]]
        elif kind in ("beta", "betag", "gammaP", "gammaQ"):
            case["xs"] = [case["xs"][info["point"]]]
        elif kind == "betafn":
            case["xs"] = case["xs"][2 * info["point"]: 2 * info["point"] + 2]
    except Exception:
        pass
    return case


def extra(ctx):
    tier, seed, lines = ctx["tier"], ctx["seed"], ctx["lines"]
    rnd = random.Random(seed * 1009 + 8)
    cert, refonly = collect(lines, rnd, tier)
    quota = dict(lchoose=10, beta=12, betag=6, gammaP=12, gammaQ=6) if tier == "quick" else dict(lchoose=150, beta=400, betag=100, gammaP=300, gammaQ=150)
    nref = 1200 if tier == "quick" else 20000
    # --- reference on a sample of everything transcendental (uncertified)
    ref_items = list(refonly) + [it for it in cert if it[0] != "lchoose"]
    rnd.shuffle(ref_items)
    ref_items = ref_items[:nref]
    # Lchoose reference: python's math.log of the exact integer (double precision is enough for 1e-10)
    lch = [it for it in cert if it[0] == "lchoose"]
    bad_ref = []
    n_ref_checked = 0
    for it in lch:
        info = it[2]
        r = math.log(math.comb(info["n"], info["k"]))
        n_ref_checked += 1
        if abs(float(it[3]) - r) > 1e-10 + 4e-16 * abs(r):
            bad_ref.append((it, Fraction(r)))
    vals = m2.ref_eval_parallel([ref_expr(it[0], it[2]) for it in ref_items], dps=30, nproc=min(ctx.get("ncpu", 8), 12), timeout=900)
    n_ref_failed = 0
    for it, v in zip(ref_items, vals):
        if v is None:
            n_ref_failed += 1
            continue
        n_ref_checked += 1
        if abs(it[3] - v) > tol_of(it[0], v):
            bad_ref.append((it, v))
    # --- certificate goals: every reference mismatch inside the certifiable window + a stratified sample
    certset = {id(it) for it in cert}
    chosen = [it for it, _ in bad_ref if id(it) in certset][:6 if tier == "quick" else 30]
    by_kind = {}
    for it in cert:
        by_kind.setdefault(it[0], []).append(it)
    for kind, items in sorted(by_kind.items()):
        rnd.shuffle(items)
        if kind == "lchoose":       # prefer large coefficients, keep a few small
            items.sort(key=lambda it: -it[2]["n"] * min(it[2]["k"], it[2]["n"] - it[2]["k"]))
            items = items[:quota[kind] // 2] + rnd.sample(items, min(len(items), quota[kind] - quota[kind] // 2))
        chosen += items[:quota.get(kind, 0)]
    seen, goals, gitems = set(), [], []
    for it in chosen:
        key = (it[0], it[1], json.dumps(it[2], default=str, sort_keys=True))
        if key in seen:
            continue
        seen.add(key)
        goals.append(make_goal(str(len(goals)), it))
        gitems.append(it)
    summ = m2.run_goals(goals, PID, ncpu=ctx.get("ncpu", 8), timeouts=(45, 150) if tier == "quick" else (60, 300))
    # --- verdicts
    violations = []
    undecided_ref = m2.ref_eval([g.ref for g in goals if g.result["status"] == "undecided"], dps=30)
    ui = 0
    uncertified_cases = 0
    kinds = {}
    for g, it in zip(goals, gitems):
        st = g.result["status"]
        kinds.setdefault(it[0], {}).setdefault(st, 0)
        kinds[it[0]][st] += 1
        if st == "refuted":
            rp = m2.write_replay(PID, "m2", dict(case=point_case(lines, it), goal=g.statement(False), refuted_by=g.statement(True),
                                                  certificate=g.result["file"], info=g.info, observed=m2.fstr(it[3]),
                                                  explanation="the complementary goal tol < |spec - observed| was PROVED by coqc (Coq-Interval): the implementation's value differs from the RealSpec value by more than the property's tolerance",
                                                  seed=seed, tier=tier))
            violations.append(dict(replay=rp, suffix=""))
        elif st == "undecided":
            v = undecided_ref[ui]
            ui += 1
            uncertified_cases += 1
            if v is not None and abs(it[3] - v) > tol_of(it[0], v) and not any(b[0] is it for b in bad_ref):
                bad_ref.append((it, v))
    # reference mismatches that no certificate decided
    decided = {id(it): g.result["status"] for g, it in zip(goals, gitems)}
    for it, v in bad_ref[:5]:
        if decided.get(id(it)) in ("certified", "refuted"):
            continue          # the kernel's verdict stands (certified = the reference was wrong)
        rp = m2.write_replay(PID, "ref", dict(case=point_case(lines, it), info=dict(kind=it[0], **{k: m2.fstr(x) if m2.is_num(x) else x for k, x in it[2].items()}),
                                               observed=m2.fstr(it[3]), reference=m2.fstr(v), tolerance=m2.fstr(tol_of(it[0], v)),
                                               explanation="value differs from the UNCERTIFIED mpmath reference by more than the property's tolerance (outside the window the kernel certifies, or the goal was undecided)",
                                               seed=seed, tier=tier))
        violations.append(dict(replay=rp, suffix=" decided-by-uncertified-reference"))
    return dict(obligations=len(goals), discharged=summ["certified"], certified_goals=summ["certified"],
                refuted_goals=summ["refuted"], undecided_goals=summ["undecided"], certified_by_kind=kinds,
                uncertified_reference_cases=n_ref_checked, uncertified_reference_mismatches=len(bad_ref),
                uncertified_reference_failed_evaluations=n_ref_failed,
                m2_seconds=summ["seconds"], violations=violations)


# ------------------------------------------------------------------ replay of an m2/ref finding
def replay(rp, ctx):
    """re-run the recorded point against the current tree: harness -> certificate (both directions) -> reference"""
    import subprocess
    case = rp["case"]
    r = subprocess.run([ctx["harness"], "run", PID], input=json.dumps(case) + "\n", capture_output=True, text=True, env=ctx["env"])
    lines = [l for l in r.stdout.split("\n") if l.strip() and not l.startswith("!")]
    if not lines:
        print("harness rejected the replay case:", r.stdout[:300])
        return 2
    cert, refonly = collect(lines, random.Random(0), "quick")
    kind = rp.get("info", {}).get("kind")
    items = [it for it in cert + refonly if it[0] == kind] or (cert + refonly)
    if not items:
        print("no comparable value in the case")
        return 2
    it = items[0]
    v = m2.ref_eval([ref_expr(it[0], it[2])], dps=30)[0]
    print("case      :", json.dumps(case))
    print("observed  :", m2.fstr(it[3]), " reference (uncertified):", m2.fstr(v) if v is not None else "n/a")
    status = None
    if it in cert:
        g = make_goal("replay", it)
        m2.run_goals([g], PID + "r", ncpu=1, timeouts=(60, 200))
        status = g.result["status"]
        print("goal      :", g.statement(False))
        print("kernel    :", status, g.result["log"])
    bad = status == "refuted" or (status != "certified" and v is not None and abs(it[3] - v) > tol_of(it[0], v))
    print("RESULT    :", "still fails on the current tree" if bad else "passes on the current tree")
    return 1 if bad else 0

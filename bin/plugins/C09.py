"""Human-readable decoding of a C09 verdict (see coq/Check/C09.v)."""
import json

STAT = ["stats.Mean(xs)", "stats.Variance(xs)", "stats.StdDev(xs)", "stats.GeoMean(xs)", "stats.Bounds(xs)",
        "Sample.Mean", "Sample.Variance", "Sample.StdDev", "Sample.GeoMean", "Sample.Sum", "Sample.Weight",
        "Sample.Bounds", "sample unmodified"]
QUERY = ["Sample.Mean", "Sample.Sum", "Sample.Weight", "Sample.Bounds", "Sample.Variance"]

def describe(line_ints, verdict, case_json):
    code, tag, pos = verdict[0], verdict[1], verdict[2]
    d = verdict[3:]
    out = {"branch_tag": tag}
    try:
        case = json.loads(case_json)
    except Exception:
        case = {}
    kind = case.get("kind")
    if kind == 0:
        out["observable"] = STAT[pos] if 0 <= pos < len(STAT) else pos
        if len(d) >= 6:
            q = lambda a, b: None if b == 0 else "%d/%d = %.17g" % (a, b, a / b)
            out["model"] = {"Sample.Mean": q(d[0], d[1]), "Variance(xs)": q(d[2], d[3]), "Sample.Sum": q(d[4], d[5])}
        out["theorem"] = "C09_welford_mean_eq / C09_welford_var_eq / C09_wmean_eq / C09_bounds_def / C09_weighted_bounds_def / C09_geomean_coeffs"
    elif kind == 1:
        out["operation_index"] = pos
        if 0 <= pos < len(case.get("ops", [])):
            out["operation"] = case["ops"][pos]
        if d:
            if d[0] == 3 and len(d) > 1:
                out["what"] = "query %s differs from the fresh computation" % (QUERY[d[1]] if d[1] < len(QUERY) else d[1])
            else:
                out["what"] = {0: "contents of the store after Sort differ (pairs detached, not ascending, or another sample changed)",
                               1: "contents of the store after Copy differ",
                               2: "contents of the store after a direct write differ (a copy shares storage with its original?)"}.get(d[0], d)
        out["theorem"] = "C09_history_agrees / C09_sort_pairs"
    elif kind == 3:
        out["step_index"] = pos
        steps = case.get("steps", [])
        if 0 <= pos < len(steps):
            out["contents_at_that_step"] = steps[pos]
        if d:
            out["observable"] = STAT[d[0]] if 0 <= d[0] < len(STAT) else d[0]
        out["what"] = ("one Sample whose Xs / Weights arrays are overwritten in place between the steps: the statistic observed "
                       "after the overwrite differs from the fresh computation on the current contents (a result remembered per storage identity?)")
        out["theorem"] = "C09_check_ok_sound (KSteps: every step satisfies stats_ok for the contents current at that step)"
    elif kind == 2:
        out["what"] = "vec.%s differs from its defining identity" % (["Linspace", "Logspace", "Sum", "Map/Vectorize", "Concat"][d[0]] if d and d[0] < 5 else "?")
    return out

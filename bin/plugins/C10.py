"""Human-readable decoding of a C10 verdict (see coq/Check/C10.v)."""
import json

def describe(line_ints, verdict, case_json):
    code, tag, pos = verdict[0], verdict[1], verdict[2]
    d = verdict[3:]
    out = {"branch_tag": tag}
    step = None
    if len(line_ints) > 1 and line_ints[1] == 2 and pos >= 0 and d:
        # history: pos = failing step, diag = the step's own position and diagnostics
        step, pos, d = pos, d[0], d[1:]
        out["history_step"] = step
        out["note"] = "one Sample, backing arrays overwritten in place between the steps; the step is compared with the model on the values current at that step"
    exp = None
    if d:
        if d[0] == 1 and len(d) >= 3:
            exp = "%d/%d = %.17g" % (d[1], d[2], d[1] / d[2])
        elif d[0] == 0:
            exp = "NaN"
        elif d[0] == 2:
            exp = "panic"
        elif d[0] == 9:
            exp = "sample unmodified"
    if pos >= 0:
        out["what"] = "Quantile(q) differs from the model"
        try:
            cj = json.loads(case_json)
            out["q"] = (cj["steps"][step] if step is not None else cj)["qs"][pos]
        except Exception:
            out["q_index"] = pos
        out["theorem"] = "C10_quantile_is_hf8 (unweighted) / C10_weighted_quantile_spec"
    elif pos == -2:
        out["what"] = "Quantile/IQR modified the sample (Xs, Weights or Sorted changed)"
    elif pos == -3:
        out["what"] = "IQR differs from Quantile(0.75)-Quantile(0.25)"
        out["theorem"] = "C10_iqr_def"
    out["expected"] = exp
    return out

"""bin/plugins/C11.py — C11 (QuantileCI): human-readable decoding of case lines / verdicts for replays,
and the M2 stage of the n > 30 branch.

M2 (kernel-certified on a sample of the run's op-1 cases whose Sigma is a short dyadic rational, i.e.
n q (1-q) a perfect square — harness stream (b6)): with mu = norm.Mu and sigma = norm.Sigma as exact
rationals and Phi the normal CDF of coq/RealSpec/Normal.v,
    Rabs (Phi mu sigma l1        - alpha)    <= 1e-9     l1 = norm.InvCDF(alpha) really is the alpha-quantile
    Rabs (Phi mu sigma (rw-1/2)  - CDF_hi)   <= 1e-9     the CDF values the band masses are differences of
    Rabs (Phi mu sigma (lw-1/2)  - CDF_lo)   <= 1e-9     ((lw, rw) = the rounded band after the widening loop,
    Rabs (Phi mu sigma (rw-3/2)  - CDF_hi1)  <= 1e-9      before the trim)
The comparator (coq/Check/C11.v) ties mu, sigma^2 to n q, n q (1-q), the band masses to differences of
these CDF values and Confidence to the band mass; together: the band is the outward rounding of the
central interval of content c of Normal(nq, nq(1-q)) and Confidence is its normal mass to 2e-9.
Cases outside the certified window are compared with the UNCERTIFIED mpmath reference on a sample.
"""
import os, sys, json, random, struct
from fractions import Fraction

sys.path.insert(0, os.path.dirname(os.path.dirname(os.path.abspath(__file__))))
import m2  # noqa: E402

PID = "C11"
TOL = Fraction(1, 10 ** 9)
REQ = "From MM Require Import RealSpec.Normal Proofs.NormalR Proofs.M2Lemmas."


def _f(bits):
    return struct.unpack(">d", struct.pack(">Q", bits & 0xFFFFFFFFFFFFFFFF))[0]


def describe(line, verdict, case_json):
    d = {}
    try:
        op = line[1]
        code, tag, pos = verdict[0], verdict[1], verdict[2]
        if op == 0:
            n, q = line[2], _f(line[3])
            d["call"] = "QuantileCI(%d, %r, c) for a list of c" % (n, q)
            items = line[5:]
            if code == 2 and pos >= 0:
                it = items[7 * pos: 7 * pos + 7]
                d["failing"] = dict(c=_f(it[0]), observed=dict(N=it[1], Quantile=_f(it[2]), Confidence=_f(it[3]), LoOrder=it[4], HiOrder=it[5], Ambiguous=bool(it[6])))
                dg = verdict[3:]
                if len(dg) >= 6 and dg[0] == 2:
                    d["failing"]["an_admissible_outcome"] = dict(LoOrder=dg[1], HiOrder=dg[2], Ambiguous=bool(dg[3]), Confidence=dg[4] / 2.0 ** dg[5], admissible_outcomes=dg[6] if len(dg) > 6 else None)
                elif dg and dg[0] == 9:
                    d["failing"]["reason"] = "0 <= LoOrder < HiOrder <= n+1 violated"
        elif op == 1:
            n, q, c = line[2], _f(line[3]), _f(line[4])
            d["call"] = "QuantileCI(%d, %r, %r)" % (n, q, c)
            o = line[-6:]
            d["observed"] = dict(N=o[0], Quantile=_f(o[1]), Confidence=_f(o[2]), LoOrder=o[3], HiOrder=o[4], Ambiguous=bool(o[5]))
            d["oracle"] = dict(Mu=_f(line[5]), Sigma=_f(line[6]), l1=_f(line[7]), r1=_f(line[8]), l0=line[9], r0=line[10], band=_f(line[11]), band_biased=_f(line[12]), cdf_l1=_f(line[13]), widenings=line[17])
            if code == 2:
                d["failing_stage"] = {0: "N/Quantile", 1: "c>=1 short cut", 2: "mu / sigma", 3: "r1", 4: "band masses", 5: "rounded band", 6: "CDF(l1) vs alpha", 7: "result", 8: "non-finite oracle value", 9: "order claim", 10: "widening chain", 11: "model self-check"}.get(pos, pos)
                if pos == 7 and len(verdict) >= 8:
                    d["expected"] = dict(LoOrder=verdict[3], HiOrder=verdict[4], Ambiguous=bool(verdict[5]), Confidence=verdict[6] / verdict[7])
        else:
            d["call"] = "QuantileCIResult{N:%d, LoOrder:%d, HiOrder:%d, Quantile:%r}.SampleCI(sample)" % (line[2], line[3], line[4], _f(line[5]))
            d["failing_observable"] = {0: "sample modified", 1: "panic status", 2: "lo", 3: "hi", 4: "quantile"}.get(pos, pos)
    except Exception as e:
        d["describe_error"] = repr(e)
    return d


# ------------------------------------------------------------------ M2 stage
def _alpha(c):
    a = (1 - c) / 2
    return Fraction(1, 2) if a > Fraction(1, 2) else a


def parse_op1(ints):
    X = m2.bits_to_x
    return dict(n=ints[2], q=X(ints[3]), c=X(ints[4]), mu=X(ints[5]), sigma=X(ints[6]), l1=X(ints[7]), r1=X(ints[8]),
                l0=ints[9], r0=ints[10], b1=X(ints[11]), b2=X(ints[12]), cdf_l1=X(ints[13]), ch=X(ints[14]), cl=X(ints[15]), ch1=X(ints[16]),
                K=ints[17] if len(ints) > 17 + 6 else 0)


def points(d):
    """the four (name, abscissa, observed/required value) of one case; K = number of widenings of the
    rounded band, (lw, rw) the band taken"""
    la = d["r0"] - 1 if d["r0"] <= d["l0"] else d["l0"]
    lw, rw = la - d.get("K", 0), d["r0"] + d.get("K", 0)
    return [("alpha", d["l1"], _alpha(d["c"])),
            ("cdf_hi", Fraction(2 * rw - 1, 2), d["ch"]),
            ("cdf_lo", Fraction(2 * lw - 1, 2), d["cl"]),
            ("cdf_hi1", Fraction(2 * rw - 3, 2), d["ch1"])]


def collect(lines):
    cert, refonly = [], []
    for ci, ln in enumerate(lines):
        toks = ln.split("#")[0].split()
        if len(toks) < 17 or toks[0] != "b" or toks[1] != "1":
            continue
        d = parse_op1([int(t, 16) for t in toks])
        num = m2.is_num
        if not all(num(d[k]) for k in ("q", "c", "mu", "sigma", "l1", "r1", "ch", "cl", "ch1")):
            continue
        if not (d["c"] < 1 and d["sigma"] > 0):
            continue
        sg, mu = d["sigma"], d["mu"]
        simple = sg.denominator <= (1 << 40) and sg.numerator <= (1 << 40) and mu.denominator <= (1 << 30) and d["c"].denominator <= (1 << 64)
        central = all(abs((x - mu) / sg) <= 10 for _, x, _ in points(d))      # [integral] is fast and conclusive there
        (cert if simple and central else refonly).append((ci, d))
    return cert, refonly


def std_prelude(mu, sigma, x):
    """Phi mu sigma x -> 1/2 + RInt (standard density) 0 z with z = (x-mu)/sigma as ONE literal"""
    if mu == 0 and sigma == 1:
        return "unfold Phi, phi."
    z = (x - mu) / sigma
    return ("rewrite (Phi_standard %s %s %s) by lra. replace ((%s - %s) / %s) with %s by (field; lra). unfold Phi, phi."
            % (m2.rlit(mu), m2.rlit(sigma), m2.rlit(x), m2.rlit(x), m2.rlit(mu), m2.rlit(sigma), m2.rlit(z)))


def make_goal(gid, ci, d, name, x, obs):
    mu, sigma = d["mu"], d["sigma"]
    info = dict(case_index=ci, point=name, n=d["n"], q=m2.fstr(d["q"]), c=m2.fstr(d["c"]), mu=m2.fstr(mu), sigma=m2.fstr(sigma), x=m2.fstr(x))
    expr = "Phi %s %s %s" % (m2.rlit(mu), m2.rlit(sigma), m2.rlit(x))
    if x == mu:
        return m2.Goal(gid, expr, obs, TOL, requires=REQ, prelude="rewrite Phi_centre.", ref="mpf(1)/2", info=info, finish="interval")
    return m2.Goal(gid, expr, obs, TOL, requires=REQ, prelude=std_prelude(mu, sigma, x),
                   ref="ncdf(%s)" % m2.pylit((x - mu) / sigma), info=info, finish="integral with (%(gopt)s)")


def ref_values(zs, nproc=8):
    """uncertified Phi(z): beyond 40 standard deviations the value is 0 or 1 to 1e-300 (and mpmath's
    1e-300000000 would not fit a Fraction)"""
    out = [None] * len(zs)
    idx = []
    for i, z in enumerate(zs):
        if z < -40:
            out[i] = Fraction(0)
        elif z > 40:
            out[i] = Fraction(1)
        else:
            idx.append(i)
    vals = m2.ref_eval_parallel(["ncdf(%s)" % m2.pylit(zs[i]) for i in idx], dps=30, nproc=nproc, timeout=300) if idx else []
    for i, v in zip(idx, vals):
        out[i] = v
    return out


def extra(ctx):
    tier, seed, lines = ctx["tier"], ctx["seed"], ctx["lines"]
    rnd = random.Random(seed * 1009 + 11)
    cert, refonly = collect(lines)
    ncases = 6 if tier == "quick" else 80
    nref = 300 if tier == "quick" else 4000
    # ---- uncertified reference on a sample of all n > 30 cases (any sigma)
    allc = cert + refonly
    rnd.shuffle(allc)
    ref_items = [(ci, d, name, x, obs) for ci, d in allc[:nref] for name, x, obs in points(d)]
    vals = ref_values([(x - d["mu"]) / d["sigma"] for ci, d, name, x, obs in ref_items], min(ctx.get("ncpu", 8), 12))
    bad_ref, n_ref, n_fail = [], 0, 0
    for it, v in zip(ref_items, vals):
        if v is None:
            n_fail += 1
            continue
        n_ref += 1
        if abs(v - it[4]) > TOL:
            bad_ref.append((it, v))
    # ---- certificate goals: cases failing the reference first, then a sample spread over c
    chosen = []
    seen = set()
    for it, v in bad_ref:
        if it[0] not in seen and any(it[0] == ci for ci, _ in cert):
            seen.add(it[0])
            chosen.append((it[0], it[1]))
    pool = sorted(cert, key=lambda t: (t[1]["c"], rnd.random()))
    if pool:
        step = max(1, len(pool) // max(1, ncases))
        off = rnd.randrange(step)
        for k in range(off, len(pool), step):
            if len(chosen) >= ncases + len(seen):
                break
            if pool[k][0] not in seen:
                seen.add(pool[k][0])
                chosen.append(pool[k])
    goals, gitems = [], []
    for ci, d in chosen:
        for name, x, obs in points(d):
            goals.append(make_goal(str(len(goals)), ci, d, name, x, obs))
            gitems.append((ci, d, name, x, obs))
    summ = m2.run_goals(goals, PID, ncpu=ctx.get("ncpu", 8), timeouts=(45, 150) if tier == "quick" else (60, 300)) if goals else \
        dict(goals=0, certified=0, refuted=0, undecided=0, seconds=0.0)
    violations, kinds, decided = [], {}, set()
    und = [g for g in goals if g.result["status"] == "undecided"]
    und_ref = dict(zip([id(g) for g in und], m2.ref_eval([g.ref for g in und], dps=30, timeout=120))) if und else {}
    for g, it in zip(goals, gitems):
        st = g.result["status"]
        kinds.setdefault(it[2], {}).setdefault(st, 0)
        kinds[it[2]][st] += 1
        if st in ("certified", "refuted"):
            decided.add((it[0], it[2]))
        if st == "refuted":
            rp = m2.write_replay(PID, "m2", dict(case=json.loads(lines[it[0]].split("#", 1)[1]), goal=g.statement(False), refuted_by=g.statement(True),
                                                  certificate=g.result["file"], info=g.info, observed=m2.fstr(it[4]),
                                                  explanation="the complementary goal tol < |Phi - value| was PROVED by coqc (Coq-Interval): the implementation's normal quantile / CDF value used by QuantileCI differs from the normal distribution Normal(mu, sigma) by more than 1e-9",
                                                  seed=seed, tier=tier))
            violations.append(dict(replay=rp, suffix=""))
        elif st == "undecided":
            v = und_ref.get(id(g))
            if v is not None and abs(g.obs - v) > g.tol and not any(b[0][0] == it[0] and b[0][2] == it[2] for b in bad_ref):
                bad_ref.append((it, v))
    n_bad = 0
    for it, v in bad_ref:
        if (it[0], it[2]) in decided:
            continue
        n_bad += 1
        if n_bad > 5:
            continue
        rp = m2.write_replay(PID, "ref", dict(case=json.loads(lines[it[0]].split("#", 1)[1]), info=dict(point=it[2], x=m2.fstr(it[3])),
                                               observed=m2.fstr(it[4]), reference=m2.fstr(v), tolerance=m2.fstr(TOL),
                                               explanation="a normal quantile / CDF value used by QuantileCI differs from the UNCERTIFIED mpmath reference by more than 1e-9 (outside the window the kernel certifies, or the goal was undecided)",
                                               seed=seed, tier=tier))
        violations.append(dict(replay=rp, suffix=" decided-by-uncertified-reference"))
    return dict(obligations=len(goals), discharged=summ["certified"], certified_goals=summ["certified"], refuted_goals=summ["refuted"],
                undecided_goals=summ["undecided"], certified_cases=len(chosen), certifiable_cases=len(cert), certified_by_point=kinds,
                uncertified_reference_values=n_ref, uncertified_reference_mismatches=n_bad,
                uncertified_reference_failed_evaluations=n_fail, m2_seconds=summ["seconds"], violations=violations)


def replay(rp, ctx):
    import subprocess
    case = rp["case"]
    r = subprocess.run([ctx["harness"], "run", PID], input=json.dumps(case) + "\n", capture_output=True, text=True, env=ctx["env"])
    lines = [l for l in r.stdout.split("\n") if l.strip() and not l.startswith("!")]
    if not lines:
        print("harness rejected the replay case:", r.stdout[:300])
        return 2
    cert, refonly = collect(lines)
    items = cert + refonly
    if not items:
        print("no n > 30 case with c < 1 and sigma > 0 in the replay")
        return 2
    ci, d = items[0]
    want = (rp.get("info") or {}).get("point")
    pts = [p for p in points(d) if want is None or p[0] == want] or points(d)
    print("case      :", json.dumps(case))
    bad = False
    for name, x, obs in pts:
        status = None
        if cert:
            g = make_goal("replay", ci, d, name, x, obs)
            m2.run_goals([g], PID + "r", ncpu=1, timeouts=(60, 200))
            status = g.result["status"]
            print("goal      :", g.statement(False))
            print("kernel    :", status, g.result["log"])
        v = ref_values([(x - d["mu"]) / d["sigma"]], 1)[0]
        badref = v is not None and abs(v - obs) > TOL
        print("%-10s: value %s  reference (uncertified) %s" % (name, m2.fstr(obs), m2.fstr(v) if v is not None else "n/a"))
        bad = bad or status == "refuted" or (status != "certified" and badref)
    print("RESULT    :", "still fails on the current tree" if bad else "passes on the current tree")
    return 1 if bad else 0

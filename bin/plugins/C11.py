"""human-readable decoding of a C11 case line / verdict for replays"""
import struct


def _f(bits):
    return struct.unpack(">d", struct.pack(">Q", bits & 0xFFFFFFFFFFFFFFFF))[0]


def describe(line, verdict, case_json):
    d = {}
    try:
        op = line[1]
        code, tag, pos = verdict[0], verdict[1], verdict[2]
        if op == 0:
            n, q = line[2], _f(line[3])
            d["call"] = "QuantileCI(%d, %r, c) for a list of c" % (n, q)
            items = line[5:]
            if code == 2 and pos >= 0:
                it = items[7 * pos: 7 * pos + 7]
                d["failing"] = dict(c=_f(it[0]), observed=dict(N=it[1], Quantile=_f(it[2]), Confidence=_f(it[3]), LoOrder=it[4], HiOrder=it[5], Ambiguous=bool(it[6])))
                dg = verdict[3:]
                if len(dg) >= 6 and dg[0] == 2:
                    d["failing"]["an_admissible_outcome"] = dict(LoOrder=dg[1], HiOrder=dg[2], Ambiguous=bool(dg[3]), Confidence=dg[4] / 2.0 ** dg[5], admissible_outcomes=dg[6] if len(dg) > 6 else None)
                elif dg and dg[0] == 9:
                    d["failing"]["reason"] = "0 <= LoOrder < HiOrder <= n+1 violated"
        elif op == 1:
            n, q, c = line[2], _f(line[3]), _f(line[4])
            d["call"] = "QuantileCI(%d, %r, %r)" % (n, q, c)
            o = line[-6:]
            d["observed"] = dict(N=o[0], Quantile=_f(o[1]), Confidence=_f(o[2]), LoOrder=o[3], HiOrder=o[4], Ambiguous=bool(o[5]))
            d["oracle"] = dict(Mu=_f(line[5]), l1=_f(line[6]), r1=_f(line[7]), l0=line[8], r0=line[9], band=_f(line[10]), band_biased=_f(line[11]), cdf_l1=_f(line[12]))
            if code == 2:
                d["failing_stage"] = {0: "N/Quantile", 1: "c>=1 short cut", 2: "mu", 3: "r1", 4: "band masses", 5: "rounded band", 6: "CDF(l1) vs alpha", 7: "result", 8: "non-finite oracle value", 9: "order claim"}.get(pos, pos)
                if pos == 7 and len(verdict) >= 8:
                    d["expected"] = dict(LoOrder=verdict[3], HiOrder=verdict[4], Ambiguous=bool(verdict[5]), Confidence=verdict[6] / verdict[7])
        else:
            d["call"] = "QuantileCIResult{N:%d, LoOrder:%d, HiOrder:%d, Quantile:%r}.SampleCI(sample)" % (line[2], line[3], line[4], _f(line[5]))
            d["failing_observable"] = {0: "sample modified", 1: "panic status", 2: "lo", 3: "hi", 4: "quantile"}.get(pos, pos)
    except Exception as e:
        d["describe_error"] = repr(e)
    return d

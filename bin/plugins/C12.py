"""bin/plugins/C12.py — C12 (kernel density estimates, stats/kde.go): decoding of replays, the
feature-coverage table of a run, and per-case certificate goals (M2) for the GAUSSIAN kernel.

The extracted Q model (coq/Check/C12.v) cannot evaluate exp / Phi, so it checks only LAWS on the
Gaussian outputs.  This plug-in ties Gaussian VALUES to the real-number formulas of
coq/RealSpec/KdeR.v + RealSpec/Normal.v on a sample of the run's Gaussian cases with 1..4 data
points, by kernel-checked Coq-Interval goals (bin/m2.py):

  PDF(x):  Rabs (<formula> - obs) <= 1e-9 * 1/(h*sqrt(2 pi))       (relative to the peak kernel density)
  CDF(x):  Rabs (<formula> - obs) <= 1e-9                          (absolute)

  <formula>  no boundary     kde_mix (phi 0 h) d x                      / kde_mix (Phi 0 h) d x
             lower bound m   refl_low_pdf  f m x = f x + f (2m - x)     / refl_low_cdf  F m x = F x - F (2m - x)
             upper bound M   refl_high_pdf f M x = f x + f (2M - x)     / refl_high_cdf F M x = F x + (1 - F (2M - x))
             both            img_pdf f m M N x / img_cdf F m M N x  (images n = -N..N of RealSpec/KdeR.v) with
                             N = ceil(4.25 h / (M - m)), certified only when N <= 6 (h up to ~1.4 interval lengths).
                             Every neglected image (|n| > N) is at least 2 N (M - m) >= 8.5 h away from any x in
                             [m, M): together they change PDF by < 1e-15 of the peak and CDF by < 1e-15.  The goal
                             states the (2N+1)-image sum; that bound on the neglected tail is an argument made
                             HERE, not a kernel-checked statement.
  x outside [m, M):          the model already checks PDF = 0 / CDF = 0 or 1 exactly; no goal.

Each [integral] call sees exactly one RInt: a CDF goal is rewritten (Phi_standard, Phi_symmetric) into terms
SP z = 1/2 + RInt (standard density) 0 z with z = |a|/h >= 0, one per distinct |z| < 8; each integral is enclosed by
  assert (lo <= RInt ... <= hi) by integral        (enclosure proposed by the UNTRUSTED mpmath reference)
the far tails z >= 8 are bounded by 1 - 1e-15 <= SP z <= 1 (one integral for SP 8 + monotonicity, lemma SP_hi in the
helper library build/cert/C12H_<hash>.v generated below), and everything is combined by [interval].  Only coqc's
acceptance counts.

Everything Gaussian that is not certified (larger samples, full-mantissa inputs, lazy bandwidths, doubly bounded with
N > 6, goals left undecided) is compared with the UNCERTIFIED mpmath reference (image sums to convergence) on a sample
and reported separately as "reference, not kernel-certified".  The same reference re-evaluates the mass between the two
ends of Bounds() for Gaussian estimates (the comparator can only use the implementation's own CDF there).
extra() also writes the (kernel x boundaries x weighted) x feature coverage table of the run into the evidence.
"""
import os, sys, json, random, math
from fractions import Fraction

sys.path.insert(0, os.path.dirname(os.path.dirname(os.path.abspath(__file__))))
import m2  # noqa: E402

PID = "C12"
TOL = Fraction(1, 10 ** 9)
INV_SQRT_2PI = Fraction(3989422804014327, 10 ** 16)
REQ0 = "From MM Require Import RealSpec.Normal RealSpec.KdeR Proofs.NormalR."

KERNELS = {0: "Epanechnikov", 1: "Gaussian", 2: "Delta"}
T = dict(EPAN=1, GAUSS=2, DELTA=4, NOBC=8, LOWER=16, UPPER=32, BOTH=64, OUTSIDE=128, ATMIN=256, ATMAX=512,
         WEIGHTED=1024, LAZY=2048, IMAGES=4096, KEND=8192, BOUNDS=16384, QUAD=32768, INF=65536, EMPTY=131072,
         BWRULE=262144, BORDER=524288, SORTED=1048576, OFFSET=2097152, HISTORY=4194304)
D_NAMES = {1: "PDF value", 2: "CDF value", 3: "Bandwidth field after the call", 4: "law: PDF >= 0 / = 0 outside [BoundaryMin, BoundaryMax)",
           5: "law: CDF in [0,1], 0 up to BoundaryMin, 1 from BoundaryMax", 6: "law: CDF non-decreasing", 7: "Bounds()",
           8: "BandwidthScott", 9: "BandwidthSilverman", 10: "integral of PDF != CDF difference", 11: "total mass != 1",
           12: "Sample.Xs / Weights modified", 13: "call status (panic / no panic)"}


# ------------------------------------------------------------------ decoding
def parse(ints):
    X = m2.bits_to_x
    o = [1]

    def nxt():
        v = ints[o[0]]
        o[0] += 1
        return v

    def fl():
        return X(nxt())

    def flist():
        n = nxt()
        return [fl() for _ in range(n)]
    d = dict(kernel=nxt(), hasw=nxt())
    d["xs"] = flist()
    d["ws"] = flist()
    d["h"], d["bmin"], d["bmax"] = fl(), fl(), fl()
    d["scott"] = dict(st=nxt(), v=fl())
    d["silverman"] = dict(st=nxt(), v=fl())
    n = nxt()
    d["pts"] = [dict(x=fl(), pst=nxt(), pdf=fl(), cst=nxt(), cdf=fl(), hafter=fl()) for _ in range(n)]
    d["bounds"] = dict(st=nxt(), lo=fl(), hi=fl(), cdf_lo=fl(), cdf_hi=fl(), hafter=fl())
    n = nxt()
    d["quads"] = [dict(a=fl(), b=fl(), integral=fl(), cdf_a=fl(), cdf_b=fl()) for _ in range(n)]
    d["mass"] = dict(st=nxt(), a=fl(), b=fl(), integral=fl())
    d["unmodified"] = nxt()
    return d


def conf_of(d):
    """0 none, 1 lower, 2 upper, 3 both, -1 outside the property"""
    bmin, bmax = d["bmin"], d["bmax"]
    if bmin == 0 and bmax == 0:
        return 0
    if m2.is_num(bmin) and bmax == "inf":
        return 1
    if bmin == "-inf" and m2.is_num(bmax):
        return 2
    if m2.is_num(bmin) and m2.is_num(bmax):
        return 3
    return -1


CONFS = {0: "none", 1: "lower", 2: "upper", 3: "both", -1: "bad"}


def tag_names(t):
    return [k for k, v in T.items() if t & v]


def describe(ints, verdict, case_json):
    out = {}
    try:
        d = parse(ints)
        S = m2.fstr
        out.update(kernel=KERNELS.get(d["kernel"], d["kernel"]), boundaries=CONFS[conf_of(d)],
                   xs=[S(x) for x in d["xs"]], weights=[S(w) for w in d["ws"]] if d["hasw"] else None,
                   bandwidth_field=S(d["h"]), boundary_min=S(d["bmin"]), boundary_max=S(d["bmax"]))
        tag = verdict[1] if len(verdict) > 1 else 0
        pos = verdict[2] if len(verdict) > 2 else -1
        if pos >= 1 << 62:
            pos -= 1 << 64
        cls = verdict[3] if len(verdict) > 3 else None
        out["branch_tags"] = tag_names(tag)
        out["failed"] = D_NAMES.get(cls, cls)
        if 0 <= pos < len(d["pts"]):
            p = d["pts"][pos]
            out["point_index"] = pos
            out["point"] = dict(x=S(p["x"]), PDF=S(p["pdf"]) if p["pst"] == 0 else "panic", CDF=S(p["cdf"]) if p["cst"] == 0 else "panic",
                                bandwidth_after=S(p["hafter"]))
            if pos > 0:
                q = d["pts"][pos - 1]
                out["previous_point"] = dict(x=S(q["x"]), PDF=S(q["pdf"]), CDF=S(q["cdf"]))
            dg = verdict[4:]
            if cls in (1, 2) and len(dg) >= 3 and dg[0] == 1 and dg[2]:
                sg = lambda z: z - (1 << 64) if z >= 1 << 63 else z
                out["model_expects"] = S(Fraction(sg(dg[1]), dg[2]))
        elif pos == -10:
            b = d["bounds"]
            out["bounds"] = dict(status={0: "returned", 2: "panic", 3: "not called"}.get(b["st"]), low=S(b["lo"]), high=S(b["hi"]),
                                 cdf_low=S(b["cdf_lo"]), cdf_high=S(b["cdf_hi"]), bandwidth_after=S(b["hafter"]))
        elif pos in (-20, -21, -22):
            out["BandwidthScott"] = S(d["scott"]["v"]) if d["scott"]["st"] == 0 else "panic"
            out["BandwidthSilverman"] = S(d["silverman"]["v"]) if d["silverman"]["st"] == 0 else "panic"
            if d["pts"]:
                out["bandwidth_after_first_call"] = S(d["pts"][0]["hafter"])
        elif pos == -30:
            mm = d["mass"]
            out["total_mass"] = dict(a=S(mm["a"]), b=S(mm["b"]), integral_of_PDF=S(mm["integral"]))
        elif pos <= -100:
            k = -100 - pos
            if 0 <= k < len(d["quads"]):
                q = d["quads"][k]
                out["quadrature"] = {kk: S(v) for kk, v in q.items()}
                if all(m2.is_num(q[kk]) for kk in ("cdf_a", "cdf_b")):
                    out["quadrature"]["cdf_b - cdf_a"] = S(q["cdf_b"] - q["cdf_a"])
    except Exception as e:  # noqa
        out["note"] = "decode: %r" % (e,)
    return out


# ------------------------------------------------------------------ feature coverage of a run
def scott_branch(xs):
    """which branch of BandwidthScott an unweighted sample takes: 'stddev' (s < IQR/1.349) or 'iqr'; None if degenerate.
    Exact arithmetic on the R8 quantiles (sample.go Quantile, unweighted)."""
    n = len(xs)
    if n < 2:
        return None
    s = sorted(xs)

    def quant(q):
        N = Fraction(n)
        h = (N + Fraction(1, 3)) * q + Fraction(1, 3)      # sample.go: n := 1/3.0 + q*(N+1/3.0)  (R8)
        if h < 1:
            return s[0]
        if h >= n:
            return s[-1]
        f = h.numerator // h.denominator
        return s[f - 1] + (h - f) * (s[f] - s[f - 1])
    iqr = quant(Fraction(3, 4)) - quant(Fraction(1, 4))
    mean = sum(s) / n
    var = sum((x - mean) ** 2 for x in s) / (n - 1)
    r = iqr / Fraction(1349, 1000)
    if var == 0 and r == 0:
        return None
    return "stddev" if var < r * r else "iqr"


FEATURES = ["cases", "OUTSIDE", "ATMIN", "ATMAX", "KEND", "IMAGES", "BOUNDS", "QUAD", "LAZY0", "LAZY1", "LAZY2", "BW_SD", "BW_IQR", "SORTED", "OFFSET", "HISTORY"]


def coverage(lines, verdicts):
    """(kernel, boundary configuration, weighted) x feature -> number of cases, from the verdict tags (T_* of Check/C12.v)
    and the case itself (First for the lazy cases; Gaussian IMAGES = doubly bounded with h > BoundaryMax - BoundaryMin:
    the comparator's far_images is defined for the Epanechnikov kernel only)."""
    tab = {}
    for ln, v in zip(lines, verdicts):
        if not isinstance(v, list) or len(v) < 2:
            continue
        tag = v[1]
        if tag == 0 or tag & T["EMPTY"]:
            continue
        try:
            d = parse([int(t, 16) for t in ln.split("#")[0].split()])
            case = json.loads(ln.split("#", 1)[1])
        except Exception:
            continue
        cf = conf_of(d)
        if cf < 0:
            continue
        key = "%s/%s/%s" % (KERNELS[d["kernel"]][:5], CONFS[cf], "w" if d["hasw"] else "u")
        row = tab.setdefault(key, {f: 0 for f in FEATURES})
        row["cases"] += 1
        for f in ("OUTSIDE", "ATMIN", "ATMAX", "KEND", "BOUNDS", "QUAD", "SORTED", "OFFSET", "HISTORY"):
            if tag & T[f]:
                row[f] += 1
        img = bool(tag & T["IMAGES"])
        if d["kernel"] == 1 and cf == 3:
            hh = d["pts"][0]["hafter"] if d["pts"] else d["h"]
            img = m2.is_num(hh) and hh > d["bmax"] - d["bmin"] and any(d["bmin"] <= p["x"] < d["bmax"] for p in d["pts"])
        if img:
            row["IMAGES"] += 1
        if tag & T["LAZY"]:
            row["LAZY%d" % int(case.get("first", 0))] += 1
        if tag & T["BWRULE"]:
            br = scott_branch(d["xs"])
            if br == "stddev":
                row["BW_SD"] += 1
            elif br == "iqr":
                row["BW_IQR"] += 1
    return tab


def applicable(key, f):
    k, cf, w = key.split("/")
    if f == "ATMIN":
        return cf in ("lower", "both")
    if f == "ATMAX":
        return cf in ("upper", "both")
    if f == "OUTSIDE":
        return cf != "none"
    if f == "IMAGES":
        return cf == "both" and k != "Delta"      # delta kernel: data inside [m, M], farther images never contribute
    if f == "QUAD":
        return k != "Delta"
    if f == "OFFSET":
        return cf == "none" and w == "u"           # offsets of 1e4..1e9 spreads: bandwidth rules on unbounded, unweighted KDEs
    if f.startswith("LAZY") or f.startswith("BW_"):
        return w == "u"                            # Sample.StdDev panics for weighted samples (covered by the malformed cases)
    return True


def all_keys():
    return ["%s/%s/%s" % (KERNELS[k][:5], CONFS[c], w) for k in (0, 1, 2) for c in (0, 1, 2, 3) for w in ("u", "w")]


def holes(tab):
    out = []
    for key in all_keys():
        row = tab.get(key, {f: 0 for f in FEATURES})
        for f in FEATURES:
            if applicable(key, f) and row[f] == 0:
                out.append("%s:%s" % (key, f))
    return out


def format_table(tab):
    w = max(len(k) for k in all_keys())
    s = "%-*s " % (w, "kernel/conf/weighted") + " ".join("%7s" % f for f in FEATURES) + "\n"
    for key in all_keys():
        row = tab.get(key, {f: 0 for f in FEATURES})
        s += "%-*s " % (w, key) + " ".join("%7s" % (row[f] if applicable(key, f) else "-") for f in FEATURES) + "\n"
    return s



# ------------------------------------------------------------------ M2: Gaussian values
# Coq text placed after the imports of every certificate (m2.HEADER % requires): the standardised distribution
# function SP z = Phi 0 1 z, the change of variable Phi 0 h a = SP (a/h), and the far tails |z| >= 8 bounded ONCE by
# [integral] and monotonicity (Proofs/NormalR.v) instead of one integral per far image.
COQ_HELPERS = """From Coq Require Import List. Import ListNotations. Open Scope R_scope.
Definition SP (z : R) : R := Phi 0 1 z.
Lemma SP_at : forall h a z, 0 < h -> a = z * h -> Phi 0 h a = SP z.
Proof. intros h a z Hh E. unfold SP. rewrite (Phi_standard 0 h a Hh). f_equal. subst a. field. lra. Qed.
Lemma SP_neg : forall z, SP (- z) = 1 - SP z.
Proof. intros z. unfold SP. generalize (Phi_symmetric 0 1 Rlt_0_1 z). replace (0 - z) with (- z) by ring. replace (0 + z) with z by ring. lra. Qed.
Lemma SP_at_neg : forall h a z, 0 < h -> a = - z * h -> Phi 0 h a = 1 - SP z.
Proof. intros h a z Hh E. rewrite <- SP_neg. apply SP_at; lra. Qed.
Lemma SP_0 : SP 0 = 1 / 2.
Proof. unfold SP. apply Phi_centre. Qed.
Ltac sp h z := match goal with |- context [Phi 0 h ?a] => first [ rewrite (SP_at h a z) by lra | rewrite (SP_at_neg h a z) by lra ] end.
"""
COQ_TAILS = """Lemma SP_hi : forall z, 8 <= z -> 1 - 1 / 1000000000000000 <= SP z <= 1.
Proof.
  intros z Hz. assert (H8 : 1 - 1 / 1000000000000000 <= SP 8) by (unfold SP, Phi, phi; integral with (i_prec 80)).
  assert (Hm : SP 8 <= SP z) by (apply Phi_monotone; lra).
  assert (Hr := Phi_range 0 1 z Rlt_0_1). unfold SP in *. lra.
Qed.
"""
STD_INT = "RInt (fun x : R => exp (- ((x - 0) * (x - 0)) / (2 * 1 * 1)) / (1 * sqrt (2 * PI))) 0 %s"
UNFOLD = "unfold refl_low_pdf, refl_low_cdf, refl_high_pdf, refl_high_cdf, img_pdf, img_cdf, sym_sum, img_period, kde_mix, msum, wsum; cbn [fst snd INR]."
FAR = 8


def images_needed(h, m, M):
    """smallest N such that every image with |n| > N is at least 8.5 h away from every x in [m, M):
    the nearest neglected image is at distance >= 2 N (M - m)"""
    return max(1, math.ceil(Fraction(17, 4) * h / (M - m)))


def gauss_args(cf, xs, m, M, N, x):
    """the arguments a at which the kernel (density / distribution function) is evaluated, as (point index, a, sign of the
    term in the CDF formula; the PDF adds them all), in the left-to-right order of the unfolded RealSpec term"""
    out = []

    def F(t, sgn):
        for i, xi in enumerate(xs):
            out.append((i, t - xi, sgn))
    if cf == 0:
        F(x, 1)
    elif cf == 1:
        F(x, 1)
        F(2 * m - x, -1)
    elif cf == 2:
        F(x, 1)
        F(2 * M - x, -1)          # CDF: F x + (1 - F (2M - x))
    else:
        d = 2 * (M - m)
        order = [0] + [s * j for j in range(1, N + 1) for s in (1, -1)]     # sym_sum: t 0 + t 1 + t (-1) + t 2 + ...
        for n in order:
            F(x + n * d, 1)
            F(2 * m - x + n * d, -1)
    return out


def spec_expr(kind, cf, h, xs, ws, m, M, N, x):
    L = m2.rlit
    dl = "[" + "; ".join("(%s, %s)" % (L(a), L(w)) for a, w in zip(xs, ws)) + "]"
    g = "(kde_mix (%s 0 %s) %s)" % ("phi" if kind == "pdf" else "Phi", L(h), dl)
    if cf == 0:
        return "%s %s" % (g[1:-1], L(x))
    if cf == 1:
        return "refl_low_%s %s %s %s" % (kind, g, L(m), L(x))
    if cf == 2:
        return "refl_high_%s %s %s %s" % (kind, g, L(M), L(x))
    return "img_%s %s %s %s %d %s" % (kind, g, L(m), L(M), N, L(x))


def ref_value_expr(kind, cf, h, xs, ws, m, M, N, x):
    """python/mpmath expression (bin/m2_ref.py) of the same formula; N=None: doubly bounded image sum to convergence
    (every image within 40 h)"""
    P = m2.pylit
    if cf == 3 and N is None:
        N = max(1, math.ceil(Fraction(20) * h / (M - m)))
    W = sum(ws)
    terms = []
    for i, a, sgn in gauss_args(cf, xs, m, M, N, x):
        z, w = a / h, ws[i]
        if kind == "pdf":
            terms.append("%s*npdf(%s)" % (P(w / (W * h)), P(z)))
        elif cf == 2 and sgn < 0:
            terms.append("%s*ncdf(%s)" % (P(w / W), P(-z)))        # 1 - Phi(z) = Phi(-z): no cancellation in the reference
        else:
            terms.append("%s%s*ncdf(%s)" % ("-" if sgn < 0 else "", P(w / W), P(z)))
    return "+".join("(%s)" % t for t in terms)


def make_goal(gid, it):
    """it: dict(kind, cf, h, xs, ws, m, M, N, x, obs, ...)"""
    kind, cf, h, xs, ws, m, M, N, x = (it[k] for k in ("kind", "cf", "h", "xs", "ws", "m", "M", "N", "x"))
    L = m2.rlit
    expr = spec_expr(kind, cf, h, xs, ws, m, M, N, x)
    ref = ref_value_expr(kind, cf, h, xs, ws, m, M, N, x)
    info = {k: (m2.fstr(v) if m2.is_num(v) else [m2.fstr(u) for u in v] if isinstance(v, list) else v) for k, v in it.items() if k != "obs"}
    if kind == "pdf":
        tol = TOL * INV_SQRT_2PI / h
        return m2.Goal(gid, expr, it["obs"], tol, requires=requires(), prelude=UNFOLD + " unfold phi.", ref=ref, info=info,
                       finish="interval with (i_prec 100)")
    # CDF: every Phi 0 h a becomes SP |z| or 1 - SP |z| (z = a/h); one integral per distinct 0 < |z| < 8, the far tails by SP_hi
    # (one [sp] per syntactically distinct argument, in the order of the unfolded term: the first occurrence matches at once)
    zs, calls, seen = [], [], set()
    for i, a, sgn in gauss_args(cf, xs, m, M, N, x):
        z = abs(a / h)
        if z not in zs:
            zs.append(z)
        if (sgn, a + xs[i], xs[i]) not in seen:
            seen.add((sgn, a + xs[i], xs[i]))
            calls.append(z)
    near = [z for z in zs if z < FAR and z != 0]
    far = [z for z in zs if z >= FAR]
    pre = [UNFOLD] + ["sp %s %s." % (L(h), L(z)) for z in calls]
    for k, z in enumerate(far):
        pre.append("assert (T%d := SP_hi %s ltac:(lra)). set (F%d := SP %s) in *." % (k, L(z), k, L(z)))
    pre.append("rewrite ?SP_0. unfold SP, Phi, phi.")
    hw = Fraction(1, 10 ** 12)
    integrals = [dict(term=STD_INT % L(z), pat="RInt _ 0 %s" % L(z), ref="ncdf(%s)-mpf(1)/2" % m2.pylit(z), abs=hw) for z in near]
    return m2.Goal(gid, expr, it["obs"], TOL, requires=requires(), prelude=" ".join(pre),
                   integrals=integrals, ref=ref, info=info)


def simple_num(q, bits=64):
    """numbers the certificates handle quickly: numerator and denominator together within [bits] bits (dyadic values at any of the generated scales)"""
    return m2.is_num(q) and q.denominator.bit_length() + abs(q.numerator).bit_length() <= bits


def collect(lines, maxn=4):
    """Gaussian PDF/CDF values of the run -> (certifiable items, reference-only items)"""
    cert, refonly = [], []
    for ci, ln in enumerate(lines):
        head = ln.split("#")[0].split()
        if len(head) < 3 or head[0] != "c" or head[1] != "1":
            continue
        d = parse([int(t, 16) for t in head])
        cf = conf_of(d)
        n = len(d["xs"])
        if cf < 0 or n == 0 or not d["pts"]:
            continue
        ws = d["ws"] if d["hasw"] else [Fraction(1)] * n
        m = d["bmin"] if cf in (1, 3) else None
        M = d["bmax"] if cf in (2, 3) else None
        if cf == 3 and not M > m:
            continue
        for pi, p in enumerate(d["pts"]):
            h, x = p["hafter"], p["x"]
            if not (m2.is_num(h) and h > 0) or p["pst"] != 0 or p["cst"] != 0:
                continue
            if (m is not None and x < m) or (M is not None and x >= M):
                continue        # outside the support: exact 0 / 1, checked by the model
            N = images_needed(h, m, M) if cf == 3 else 0
            base = dict(cf=cf, h=h, xs=d["xs"], ws=ws, m=m, M=M, N=N, x=x, case_index=ci, point=pi, lazy=(d["h"] == 0))
            simple = (n <= maxn and simple_num(h) and simple_num(x) and all(simple_num(v) for v in d["xs"] + ws)
                      and (m is None or simple_num(m)) and (M is None or simple_num(M)))
            nterms = n * (1 if cf == 0 else 2 if cf < 3 else 2 * (2 * N + 1))
            for kind, obs in (("pdf", p["pdf"]), ("cdf", p["cdf"])):
                if not m2.is_num(obs):
                    continue
                it = dict(base, kind=kind, obs=obs, nterms=nterms)
                (cert if simple and N <= 6 else refonly).append(it)
    return cert, refonly


def collect_bounds(lines, maxn=12):
    """Gaussian cases whose Bounds() returned: the two end points as CDF items (the comparator can only use the
    implementation's own CDF there)"""
    out = []
    for ci, ln in enumerate(lines):
        head = ln.split("#")[0].split()
        if len(head) < 3 or head[0] != "c" or head[1] != "1":
            continue
        d = parse([int(t, 16) for t in head])
        cf, n, b = conf_of(d), len(d["xs"]), d["bounds"]
        if cf < 0 or n == 0 or n > maxn or b["st"] != 0:
            continue
        h = b["hafter"]
        if not (m2.is_num(h) and h > 0 and all(m2.is_num(b[k]) for k in ("lo", "hi", "cdf_lo", "cdf_hi"))):
            continue
        m = d["bmin"] if cf in (1, 3) else None
        M = d["bmax"] if cf in (2, 3) else None
        if cf == 3 and (not M > m or Fraction(20) * h / (M - m) > 150):
            continue
        ws = d["ws"] if d["hasw"] else [Fraction(1)] * n
        ends = []
        for x, obs in ((b["lo"], b["cdf_lo"]), (b["hi"], b["cdf_hi"])):
            fixed = Fraction(0) if (m is not None and x <= m) else Fraction(1) if (M is not None and x >= M) else None
            ends.append(dict(kind="cdf", cf=cf, h=h, xs=d["xs"], ws=ws, m=m, M=M, N=None, x=x, obs=obs, case_index=ci, point=-1, fixed=fixed,
                             nterms=0, lazy=(d["h"] == 0)))
        out.append(ends)
    return out


def item_tol(it):
    return TOL * INV_SQRT_2PI / it["h"] if it["kind"] == "pdf" else TOL


def item_ref(it):
    return ref_value_expr(it["kind"], it["cf"], it["h"], it["xs"], it["ws"], it["m"], it["M"], None, it["x"])


# ------------------------------------------------------------------ helper library, compiled once
_HELPER = [None]


def requires():
    """'Require' lines of a certificate: the RealSpec/Proofs modules plus the helper lemmas above, compiled once into
    build/cert/C12H_<hash>.vo (coqc has the certificate directory in its load path)"""
    if _HELPER[0] is None:
        import hashlib, subprocess, tempfile, shutil
        src = m2.HEADER % REQ0 + COQ_HELPERS + COQ_TAILS
        name = "C12H_" + hashlib.sha1(src.encode()).hexdigest()[:10]
        outdir = os.path.join(m2.ROOT, "build", "cert")
        os.makedirs(outdir, exist_ok=True)
        if not os.path.exists(os.path.join(outdir, name + ".vo")):
            tmp = tempfile.mkdtemp(prefix="c12h", dir=outdir)
            try:
                with open(os.path.join(tmp, name + ".v"), "w") as f:
                    f.write(src)
                r = subprocess.run("cd %s && timeout 300 coqc -Q %s/coq MM %s.v 2>&1" % (tmp, m2.ROOT, name), shell=True, capture_output=True, text=True)
                if r.returncode == 0:
                    os.replace(os.path.join(tmp, name + ".v"), os.path.join(outdir, name + ".v"))
                    os.replace(os.path.join(tmp, name + ".vo"), os.path.join(outdir, name + ".vo"))
                else:
                    name = None
                    sys.stderr.write("[C12 plug-in] helper lemmas do not compile:\n" + r.stdout[-1500:] + "\n")
            finally:
                shutil.rmtree(tmp, ignore_errors=True)
        _HELPER[0] = name or ""
    if _HELPER[0]:
        return REQ0 + "\nFrom Coq Require Import List. Import ListNotations.\nRequire Import %s." % _HELPER[0]
    return REQ0 + "\n" + COQ_HELPERS + COQ_TAILS       # fall back on inlining the lemmas


def point_case(lines, it):
    case = json.loads(lines[it["case_index"]].split("#", 1)[1])
    case["pts"] = [float(it["x"])] if float(it["x"]) == it["x"] else case.get("pts")
    case["quad"] = False
    if it.get("point", 0) == -1:      # an end point of Bounds()
        case["bounds"] = True
        return case
    case["bounds"] = False
    if case.get("first") == 2:
        case["first"] = 0
    return case


def item_info(it):
    return {k: (m2.fstr(v) if m2.is_num(v) else [m2.fstr(u) for u in v] if isinstance(v, list) else v) for k, v in it.items()}


def choose(cert, quota, rnd):
    """spread the goals over (PDF/CDF) x boundary configuration x sample size x weighted/unweighted; cheap goals first
    in the doubly bounded buckets"""
    buckets = {}
    for it in cert:
        buckets.setdefault((it["kind"], it["cf"]), []).append(it)
    chosen = []
    for key in sorted(buckets):
        items = buckets[key]
        rnd.shuffle(items)
        q = quota.get(key, 0)
        cap = quota.get("max_terms", {}).get(key)
        if cap:
            items = [it for it in items if it["nterms"] <= cap]
        sub = {}
        for it in items:
            sub.setdefault((len(it["xs"]), any(w != 1 for w in it["ws"])), []).append(it)
        picked, used_cases = [], set()
        while len(picked) < q and any(sub.values()):
            for sk in sorted(sub):
                if sub[sk] and len(picked) < q:
                    # prefer a case not used yet
                    k = next((j for j, it in enumerate(sub[sk]) if it["case_index"] not in used_cases), 0)
                    it = sub[sk].pop(k)
                    used_cases.add(it["case_index"])
                    picked.append(it)
        chosen += picked
    return chosen


QUOTA = {
    "quick": {("pdf", 0): 2, ("pdf", 1): 2, ("pdf", 2): 2, ("pdf", 3): 2, ("cdf", 0): 3, ("cdf", 1): 2, ("cdf", 2): 2, ("cdf", 3): 1,
              "max_terms": {("cdf", 3): 10, ("cdf", 1): 6, ("cdf", 2): 6}},
    "thorough": {("pdf", 0): 24, ("pdf", 1): 24, ("pdf", 2): 24, ("pdf", 3): 32, ("cdf", 0): 24, ("cdf", 1): 24, ("cdf", 2): 24, ("cdf", 3): 20,
                 "max_terms": {("cdf", 3): 60}},
}


def extra(ctx):
    tier, seed, lines, verdicts = ctx["tier"], ctx["seed"], ctx["lines"], ctx["verdicts"]
    ncpu = ctx.get("ncpu", 8)
    rnd = random.Random(seed * 1009 + 12)
    out = {}
    # ---- which (kernel, boundaries, weighted) x feature cells did this run exercise?
    try:
        tab = coverage(lines, verdicts)
        out["feature_coverage"] = dict(columns=FEATURES, rows={k: [tab.get(k, {}).get(f, 0) if applicable(k, f) else None for f in FEATURES] for k in all_keys()},
                                       legend="rows kernel/boundaries/weighted(u|w); number of cases whose verdict tag has the feature (T_* of Check/C12.v); LAZYk = lazy bandwidth with First=k (0 PDF, 1 CDF, 2 Bounds first); BW_SD / BW_IQR = BandwidthScott took the StdDev / the IQR branch; SORTED = Sample.Sorted set; HISTORY = the same KDE object had other configurations before; OFFSET = bandwidth rule compared on data whose offset is >= 1e4 ranges; Gaussian IMAGES = doubly bounded with h > BoundaryMax-BoundaryMin; null = not applicable")
        out["feature_holes"] = holes(tab)
    except Exception as e:  # noqa
        out["feature_coverage"] = "failed: %r" % (e,)
    # ---- Gaussian values
    cert, refonly = collect(lines)
    out["gaussian_values_in_run"] = len(cert) + len(refonly)
    out["gaussian_values_in_certifiable_window"] = len(cert)
    # uncertified reference on a sample of everything
    nref = 600 if tier == "quick" else 15000
    ref_items = [it for it in cert + refonly if it["cf"] != 3 or (Fraction(20) * it["h"] / (it["M"] - it["m"]) <= 150 and len(it["xs"]) <= 12)]
    rnd.shuffle(ref_items)
    ref_items = ref_items[:nref]
    vals = m2.ref_eval_parallel([item_ref(it) for it in ref_items], dps=30, nproc=min(ncpu, 12), timeout=900)
    bad_ref, n_ref, n_fail, worst = [], 0, 0, Fraction(0)
    for it, v in zip(ref_items, vals):
        if v is None:
            n_fail += 1
            continue
        n_ref += 1
        err = abs(it["obs"] - v) / item_tol(it)
        worst = max(worst, err)
        if err > 1:
            bad_ref.append((it, v))
    # ---- Bounds() of Gaussian estimates: at least 98% of the mass by the REFERENCE distribution function (uncertified)
    bnd = collect_bounds(lines)
    rnd.shuffle(bnd)
    bnd = bnd[:150 if tier == "quick" else 5000]
    flat = [e for ends in bnd for e in ends if e["fixed"] is None]
    bvals = dict(zip([id(e) for e in flat], m2.ref_eval_parallel([item_ref(e) for e in flat], dps=30, nproc=min(ncpu, 12), timeout=900)))
    n_bnd, min_mass = 0, None
    for lo, hi in bnd:
        vlo = lo["fixed"] if lo["fixed"] is not None else bvals.get(id(lo))
        vhi = hi["fixed"] if hi["fixed"] is not None else bvals.get(id(hi))
        if vlo is None or vhi is None:
            n_fail += 1
            continue
        n_bnd += 1
        mass = vhi - vlo
        min_mass = mass if min_mass is None else min(min_mass, mass)
        for e, v in ((lo, vlo), (hi, vhi)):
            if abs(e["obs"] - v) > TOL:
                bad_ref.append((e, v))
        if mass < Fraction(98, 100) - TOL and not any(b[0] is hi for b in bad_ref):
            bad_ref.append((dict(hi, kind="bounds_mass", obs=hi["obs"] - lo["obs"], x=hi["x"], lo=lo["x"]), mass))
    out["gaussian_bounds_reference_cases"] = n_bnd
    out["gaussian_bounds_reference_min_mass"] = float(min_mass) if min_mass is not None else None
    # ---- certificate goals
    chosen = [it for it, _ in bad_ref if any(it is c for c in cert)][:20] + choose(cert, QUOTA[tier], rnd)
    seen, goals, gitems = set(), [], []
    chosen.sort(key=lambda it: (len(it["xs"]), it["nterms"]))
    for it in chosen:
        key = (it["kind"], it["case_index"], it["point"])
        if key in seen:
            continue
        seen.add(key)
        goals.append(make_goal(str(len(goals)), it))
        gitems.append(it)
    summ = m2.run_goals(goals, PID, ncpu=ncpu, timeouts=(90, 200) if tier == "quick" else (120, 400)) if goals else dict(certified=0, refuted=0, undecided=0, seconds=0)
    violations, kinds, decided, n_refuted_replays = [], {}, {}, 0
    und = [g for g in goals if g.result["status"] == "undecided"]
    und_ref = dict(zip([id(g) for g in und], m2.ref_eval([g.ref for g in und], dps=30))) if und else {}
    for g, it in zip(goals, gitems):
        st = g.result["status"]
        decided[id(it)] = st
        k = "%s/%s" % (it["kind"].upper(), CONFS[it["cf"]])
        kinds.setdefault(k, {}).setdefault(st, 0)
        kinds[k][st] += 1
        if st == "refuted":
            n_refuted_replays += 1
            if n_refuted_replays > 3:
                continue            # every refuted goal is counted; three replays are enough to act on
            rp = m2.write_replay(PID, "m2", dict(case=point_case(lines, it), goal=g.statement(False), refuted_by=g.statement(True),
                                                  certificate=g.result["file"], info=item_info(it), observed=m2.fstr(it["obs"]),
                                                  explanation="the complementary goal tol < |formula - observed| was PROVED by coqc (Coq-Interval): the implementation's Gaussian-kernel value differs from the RealSpec formula (kde_mix / refl_* / img_* of RealSpec/KdeR.v) by more than the property's tolerance",
                                                  seed=seed, tier=tier))
            violations.append(dict(replay=rp, suffix=""))
        elif st == "undecided":
            v = und_ref.get(id(g))
            if v is not None and abs(g.obs - v) > g.tol and not any(b[0] is it for b in bad_ref):
                bad_ref.append((it, v))
    nrep = 0
    for it, v in sorted(bad_ref, key=lambda b: (len(b[0]["xs"]), b[0]["nterms"])):
        if decided.get(id(it)) in ("certified", "refuted") or nrep >= 3:
            continue
        nrep += 1
        rp = m2.write_replay(PID, "ref", dict(case=point_case(lines, it), info=item_info(it), observed=m2.fstr(it["obs"]), reference=m2.fstr(v),
                                               tolerance=m2.fstr(item_tol(it)),
                                               explanation="Gaussian-kernel value differs from the UNCERTIFIED mpmath reference (image sums to convergence) by more than the property's tolerance — reference, not kernel-certified (outside the window the kernel certifies, or the goal was undecided)",
                                               seed=seed, tier=tier))
        violations.append(dict(replay=rp, suffix=" decided-by-uncertified-reference"))
    out.update(obligations=len(goals), discharged=summ["certified"], certified_goals=summ["certified"], refuted_goals=summ["refuted"],
               undecided_goals=summ["undecided"], certified_by_kind=kinds,
               m2_statement="Gaussian kernel, 1..4 data points: |PDF(x) - formula| <= 1e-9/(h sqrt(2 pi)), |CDF(x) - formula| <= 1e-9; formula = kde_mix / refl_low_* / refl_high_* / img_* N of RealSpec/KdeR.v with phi/Phi of RealSpec/Normal.v; doubly bounded: images -N..N with N = ceil(4.25 h/(Max-Min)) <= 6 (neglected images are >= 8.5 h away: < 1e-15, argued in bin/plugins/C12.py, not in the goal)",
               uncertified_reference_cases=n_ref, uncertified_reference_mismatches=len(bad_ref), uncertified_reference_failed_evaluations=n_fail,
               uncertified_reference_worst_error_over_tolerance=float(worst), uncertified_reference_note="reference, not kernel-certified (mpmath, 30 digits)",
               m2_seconds=summ["seconds"], violations=violations)
    return out


def replay(rp, ctx):
    import subprocess
    case = rp["case"]
    r = subprocess.run([ctx["harness"], "run", PID], input=json.dumps(case) + "\n", capture_output=True, text=True, env=ctx["env"])
    lines = [l for l in r.stdout.split("\n") if l.strip() and not l.startswith("!")]
    if not lines:
        print("harness rejected the replay case:", r.stdout[:300])
        return 2
    if rp.get("info", {}).get("point") == -1:
        # the finding was about Bounds(): reference distribution function at the two ends
        bad = False
        for lo, hi in collect_bounds(lines):
            vs = [e["fixed"] if e["fixed"] is not None else m2.ref_eval([item_ref(e)], dps=30)[0] for e in (lo, hi)]
            print("Bounds()  : [%s, %s]  CDF there: %s, %s  reference (uncertified): %s, %s" % (m2.fstr(lo["x"]), m2.fstr(hi["x"]), m2.fstr(lo["obs"]), m2.fstr(hi["obs"]),
                                                                                              m2.fstr(vs[0]) if vs[0] is not None else "n/a", m2.fstr(vs[1]) if vs[1] is not None else "n/a"))
            if None not in vs:
                bad = bad or vs[1] - vs[0] < Fraction(98, 100) - TOL or abs(lo["obs"] - vs[0]) > TOL or abs(hi["obs"] - vs[1]) > TOL
        print("RESULT    :", "still fails on the current tree" if bad else "passes on the current tree")
        return 1 if bad else 0
    cert, refonly = collect(lines)
    kind = rp.get("info", {}).get("kind")
    items = [it for it in cert + refonly if it["kind"] == kind] or (cert + refonly)
    if not items:
        print("no comparable Gaussian value in the case")
        return 2
    print("case      :", json.dumps(case))
    bad = False
    for it in items[:4]:
        status = None
        if any(it is c for c in cert):
            g = make_goal("replay", it)
            m2.run_goals([g], PID + "r", ncpu=1, timeouts=(120, 300))
            status = g.result["status"]
            print("goal      :", g.statement(False))
            print("kernel    :", status, g.result["log"])
        v = m2.ref_eval([item_ref(it)], dps=30)[0]
        badref = v is not None and abs(it["obs"] - v) > item_tol(it)
        print("x = %s %s observed: %s  reference (uncertified): %s" % (m2.fstr(it["x"]), it["kind"].upper(), m2.fstr(it["obs"]), m2.fstr(v) if v is not None else "n/a"))
        bad = bad or status == "refuted" or (status != "certified" and badref)
    print("RESULT    :", "still fails on the current tree" if bad else "passes on the current tree")
    return 1 if bad else 0

if __name__ == "__main__":
    # bin/plugins/C12.py <harness binary> [tier] [seed]: dry run of the generator, coverage table (needs build/vmodel/vmodel)
    import subprocess
    ROOT = m2.ROOT
    hb = sys.argv[1]
    tier = sys.argv[2] if len(sys.argv) > 2 else "quick"
    seed = sys.argv[3] if len(sys.argv) > 3 else "20260926"
    r = subprocess.run([hb, "gen", PID, tier, seed], capture_output=True, text=True)
    lines = [l for l in r.stdout.split("\n") if l.strip() and not l.startswith("!")]
    vm = subprocess.run([os.path.join(ROOT, "build/vmodel/vmodel")], input="\n".join(l.split("#")[0] for l in lines) + "\n", capture_output=True, text=True)
    verdicts = [[int(t, 16) for t in l.split()] for l in vm.stdout.split("\n") if l.strip()]
    tab = coverage(lines, verdicts)
    print(format_table(tab))
    print("holes:", holes(tab))
    print("not ok:", [(i, v[:4]) for i, v in enumerate(verdicts) if v[0] != 0][:10])

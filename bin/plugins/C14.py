"""Human-readable decoding of a C14 verdict (see coq/Check/C14.v)."""
import json

def _slot(i, nb=None):
    return "under" if i == -1 else ("none" if i == -2 else "bin %d (or over if = number of bins)" % i)

def describe(line_ints, verdict, case_json):
    code, tag, pos = verdict[0], verdict[1], verdict[2]
    d = verdict[3:]
    out = {"operation_index": pos, "branch_tag": tag}
    try:
        case = json.loads(case_json)
        if 0 <= pos < len(case.get("ops", [])):
            out["operation"] = case["ops"][pos]
    except Exception:
        pass
    if pos == -2:
        out["what"] = "number of bins after construction differs from the model (expected %s)" % (d[0] if d else "?")
    elif d:
        if d[0] == 0:
            out["what"] = "Add changed the wrong counter(s)"
            out["observed"] = {"counter": _slot(d[1]), "counters_changed": d[2] if d[2] >= 0 else "Add panicked", "increment": d[3]}
            out["admissible_counters (-1 under, k bin k, nbins over)"] = d[4:]
            out["theorem"] = "C14_lin_bin_iff_edges / C14_lin_under_iff / C14_lin_over_iff (LinearHist), C14_log_*_iff (LogHist)"
        elif d[0] == 2:
            exp = {0: "NaN", 2: "panic"}.get(d[2], None)
            if d[2] == 1:
                exp = "BinToValue(%d + %d/%d)" % (d[3], d[4], d[5])
            out["what"] = "HistogramQuantile differs"
            out["goal floor(q*total)"] = d[1]
            out["expected"] = exp
            out["theorem"] = "C14_hist_quantile_rank / _nan_iff / _total"
        elif d[0] == 1:
            out["what"] = "BinToValue differs"
            if len(d) >= 3:
                out["expected"] = "%d/%d" % (d[1], d[2])
        elif d[0] == 3:
            out["what"] = "Counts() differs from the counters implied by the Adds"
        elif d[0] == 4:
            out["what"] = "HistogramIQR differs from Quantile(0.75)-Quantile(0.25) (verdicts q75,q25,iqr = %s)" % d[1:]
    return out

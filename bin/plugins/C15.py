"""Human-readable decoding of a C15 verdict (see coq/Check/C15.v)."""
import json

TAGS = {1: "weights", 2: "degree>=3", 4: "unsorted LOESS input", 8: "interior window", 16: "full window (q=n)",
        32: "borderline", 64: "zero weight / repeated abscissa", 128: "ill-conditioned (orthogonality only)",
        256: "LinearLeastSquares", 512: "PolynomialRegression", 1024: "LOESS", 2048: "window at an end"}
FIT_POS = {0: "panic status differs from the model (length checks, degree < 0)",
           1: "a returned coefficient is NaN/Inf",
           2: "number of returned coefficients != number of terms",
           3: "Go's own coefficients violate the normal equations: |term_j . W (y - X beta_go)| > 1e-9 * scale (exact arithmetic)",
           4: "coefficients differ from the exact minimiser beyond the conditioning-scaled tolerance",
           5: "an argument slice was modified",
           6: "LinearLeastSquares on the monomial basis panicked",
           7: "HISTORY: parameters / Coefficients / F values read again after OTHER fits ran differ from the first reading "
              "(the returned slice or the closure F shares storage with later calls)"}


def _pairs(d):
    out = []
    for i in range(0, len(d) - 1, 2):
        out.append(None if d[i + 1] == 0 else "%d/%d = %.17g" % (d[i], d[i + 1], d[i] / d[i + 1]))
    return out


def describe(line_ints, verdict, case_json):
    code, tag, pos = verdict[0], verdict[1], verdict[2]
    d = verdict[3:]
    out = {"branch_tag": tag, "branch": [n for b, n in TAGS.items() if tag & b]}
    try:
        case = json.loads(case_json)
    except Exception:
        case = {}
    op = case.get("op")
    if op in (0, 1):
        out["call"] = "fit.LinearLeastSquares" if op == 0 else "fit.PolynomialRegression (+ LinearLeastSquares on monomials)"
        if pos >= 20:
            i = pos - 20
            out["what"] = "F(x) at query %d differs from sum c_i x^i of the returned Coefficients (1e-12) or from the exact fit" % i
            if 0 <= i < len(case.get("qs", [])):
                out["query"] = case["qs"][i]
            out["theorem"] = "C15_F_is_poly_eval"
        elif pos >= 10:
            out["what"] = "LinearLeastSquares on the monomial basis: " + FIT_POS.get(pos - 10, str(pos - 10))
            out["theorem"] = "C15_polyreg_is_lls_on_monomials"
        else:
            out["what"] = FIT_POS.get(pos, str(pos))
            out["theorem"] = "C15_lls_is_the_minimiser / C15_normal_eq_iff_orthogonal / C15_check_reference_minimises"
        if d:
            out["exact_minimiser"] = _pairs(d)
    elif op == 2:
        out["call"] = "fit.LOESS"
        if pos == 0:
            out["what"] = "panic status differs from the model (degree < 0, span <= 0)"
        elif pos == 1 and d[:1] == [7]:
            out["what"] = ("HISTORY: a LOESS query evaluated again after other fits / closures ran differs from its "
                           "first evaluation (the closure keeps or shares state)")
        elif pos == 1:
            out["what"] = "an argument slice was modified"
        elif pos >= 2:
            i = pos - 2
            out["what"] = "LOESS value at query %d differs from the model for every admissible window decision" % i
            if 0 <= i < len(case.get("qs", [])):
                out["query"] = case["qs"][i]
            if len(d) >= 1:
                out["model_window_width_q"] = d[0]
            if len(d) >= 2:
                out["model_window_start"] = d[1]
            if len(d) >= 4:
                out["model_value"] = _pairs(d[2:4])[0]
            out["theorem"] = "C15_loess_q_spec / C15_loess_window_nearest / C15_loess_is_the_local_fit"
    return out

"""Human-readable decoding of C17 case lines for replays."""
import struct


def _f(bits):
    return struct.unpack(">d", struct.pack(">Q", bits & 0xFFFFFFFFFFFFFFFF))[0]


def describe(ints, verdict, case_json):
    try:
        it = iter(ints)
        nxt = lambda: next(it)
        assert nxt() == 17
        k = nxt()
        if k == 0:
            mx, minl, maxl, guess, wlo = nxt(), nxt(), nxt(), nxt(), nxt()
            n = nxt()
            vs = [nxt() for _ in range(n)]
            left, right, ok, lev = nxt(), nxt(), nxt(), nxt()
            d = dict(kind="FindLevel", Max=mx, MinLevel=minl, MaxLevel=maxl, guess=guess, window_lo=wlo, counts=vs,
                     left=left, right=right, observed=dict(ok=bool(ok), level=lev))
            if len(verdict) > 4:
                d["expected"] = dict(ok=bool(verdict[3]), level=verdict[4])
            return d

        def fl():
            n = nxt()
            return [_f(nxt()) for _ in range(n)]
        base, mn, mx = nxt(), _f(nxt()), _f(nxt())
        omax, minl, maxl = nxt(), nxt(), nxt()
        d = dict(kind="Linear" if k == 1 else "Log", Base=base, Min=mn, Max=mx, opts=dict(Max=omax, MinLevel=minl, MaxLevel=maxl))
        d["Ticks"] = dict(status=nxt(), major=fl(), minor=fl())
        nl = nxt()
        d["levels"] = [dict(level=nxt(), CountTicks=nxt(), status=nxt(), TicksAtLevel=fl()) for _ in range(nl)]
        d["NiceOptions"] = dict(Max=nxt(), MinLevel=nxt(), MaxLevel=nxt())
        d["Nice"] = dict(status=nxt(), Min=_f(nxt()), Max=_f(nxt()), MapOfNewMin=_f(nxt()), MapOfNewMax=_f(nxt()))
        d["NiceTwice"] = dict(status=nxt(), Min=_f(nxt()), Max=_f(nxt()))
        d["TicksAfterNice"] = dict(status=nxt(), major=fl())
        d["failing_check"] = {10: "Ticks(o) major/minor", 20: "CountTicks/TicksAtLevel at a level", 21: "observed CountTicks not non-increasing in the level", 30: "Nice(o') new Min/Max",
                              35: "Nice shrank the domain (observed values)", 36: "Ticks(o') after Nice differs from the model's ticks on the observed niced domain",
                              37: "second Nice(o') differs from the model's Nice on the observed niced domain", 42: "niced bounds not finite / not a Log domain",
                              45: "Nice added more than one major tick spacing at an end", 3: "panic status of the second Nice", 4: "panic status of Ticks after Nice",
                              40: "Nice is idempotent", 41: "first/last major tick after Nice equal the new bounds", 43: "Map(new Min)=0 / Map(new Max)=1 after Nice",
                              1: "panic status of Ticks", 2: "panic status of Nice"}.get(verdict[2], str(verdict[2]))
        return d
    except Exception as e:  # never let decoding break a report
        return dict(error=repr(e))

"""Human-readable decoding of C18 replays (see coq/Check/C18.v for the line formats)."""
OPS = {1: "NodeMarks history", 2: "PreOrder/PostOrder/Reverse/Euler", 3: "SCC", 4: "MakeBiGraph", 5: "Equal",
       6: "SimplifyMulti", 7: "SubgraphKeep", 8: "SubgraphRemove", 9: "DotString", 10: "Dot.Sprint"}
OBS = {
    2: ["status (a call panicked)", "PreOrder", "PostOrder", "Reverse(PostOrder)", "Euler Enter/Exit sequence",
        "Euler with Enter only", "Euler with Exit only"],
    3: ["status (SCC panicked)", "negative id in the result", "scc_ok: not the SCC decomposition in reverse topological order",
        "result differs from the model of Tarjan's algorithm (component order / subnode order / Out lists / SubnodeComponent)",
        "SubnodeComponent availability", "SubnodeComponent values", "number of Out lists",
        "Out(c) is not exactly the other components entered, once each", "argument graph modified"],
    4: ["status", "number of In lists", "In(j) differs from the transpose", "NumNodes/Out differ from the argument",
        "MakeBiGraph of a BiGraph is not the identity", "argument graph modified"],
    5: ["status", "Equal result", "an argument graph was modified"],
    6: ["status", "NumNodes", "Out / OutWeight differ from first-occurrence order with summed weights", "argument modified"],
    7: ["status (panic expected or not)", "NumNodes/Out/NodeMap/EdgeMap", "an argument was modified"],
    8: ["status (panic expected or not)", "NumNodes/Out/NodeMap/EdgeMap", "an argument was modified"],
    9: ["status", "negative byte", "DotString output", "unescaping the observed output does not restore the input"],
    10: ["status (panic expected or not)", "Sprint output", "an argument (graph or attribute slice) was modified"],
}


def describe(line, verdict, case_json):
    op = line[1] if len(line) > 1 else None
    d = {"operation": OPS.get(op, op), "verdict_code": verdict[0], "branch_tag": verdict[1], "position": verdict[2]}
    diag = verdict[3:]
    if op == 1 and len(diag) >= 2:
        d["failing"] = "operation #%d of the history: the set model expects %d" % (verdict[2], diag[1])
        d["codes"] = "0 Mark 1 Unmark 2 Test 3 Next; observed 2 on Mark/Unmark = panic"
    elif op in OBS and len(diag) >= 2:
        k = diag[1]
        names = OBS[op]
        d["failing"] = "argument graph modified" if k == 99 else (names[k] if 0 <= k < len(names) else k)
        if op == 2:
            d["root_index"] = verdict[2]
    return d

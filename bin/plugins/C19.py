"""Human-readable decoding of a C19 case line and verdict (used in replay files)."""

POS = {
    0: "IDom panicked", 1: "IDom differs from idom_spec (the closest strict dominator by node deletion)",
    2: "IDom differs from the Cooper-Harvey-Kennedy model idom_chk",
    3: "Dom panicked", 4: "Dom(idom).NumNodes", 5: "Dom(idom).IDom / In",
    6: "Dom(idom).Out does not invert IDom", 7: "Dom(idom).Out differs from the model (order)",
    8: "DomFrontier panicked", 9: "DomFrontier differs from df_spec (as a set, for a reachable node)",
    10: "DomFrontier differs from the model dom_frontier (exact, rows of reachable nodes)",
    11: "an argument (adjacency lists / idom slice) was modified", 12: "the model itself failed (1 panic / 2 out of fuel)",
}
TAGS = {1: "unreachable-nodes", 2: "unreachable-pred-feeds-reachable-join", 4: "irreducible", 8: "self-loop",
        16: "parallel-edges", 32: "root-has-one-incoming-edge", 64: "non-empty-frontier", 128: "ids>=1024"}


def _take_list(it):
    n = next(it)
    return [next(it) for _ in range(n)]


def describe(ints, verdict, case_json):
    it = iter(ints)
    assert next(it) == 19
    n = next(it)
    g = [_take_list(it) for _ in range(n)]
    roots = []
    for _ in range(next(it)):
        o = {"root": next(it), "DomFrontier_called_with_nil_idom": bool(next(it))}
        o["IDom_status"] = {0: "returned", 2: "PANIC"}.get(next(it), "?")
        o["IDom"] = _take_list(it)
        o["Dom_status"] = {0: "returned", 2: "PANIC"}.get(next(it), "?")
        o["Dom_NumNodes"] = next(it)
        tree = []
        for _k in range(next(it)):
            tree.append({"IDom": next(it), "In": _take_list(it), "Out": _take_list(it)})
        o["DomFrontier_status"] = {0: "returned", 2: "PANIC"}.get(next(it), "?")
        o["DomFrontier"] = [_take_list(it) for _ in range(next(it))]
        o["argument_modified"] = bool(next(it))
        if n <= 64:
            o["Dom_tree"] = tree
        else:
            o["IDom"] = "(%d entries omitted)" % len(o["IDom"])
            o["DomFrontier"] = "(%d rows omitted)" % len(o["DomFrontier"])
        roots.append(o)
    d = {"nodes": n, "observed": roots}
    if n <= 64:
        d["adjacency"] = g
    if verdict and len(verdict) >= 3:
        tag, pos = verdict[1], verdict[2]
        d["graph_features"] = [name for bit, name in sorted(TAGS.items()) if tag & bit]
        if pos >= 0:
            d["failing_root_index"] = pos // 16
            d["failing_observable"] = POS.get(pos % 16, "?")
            d["expected_or_diagnostic"] = verdict[3:40]
    return d

"""C20 plug-in: the schedule clause under the Go race detector.
The same harness is built with -race and the C20 cases are run again (16 goroutines per
case on shared inputs); any report of the race detector is a violation whose replay is
the report itself plus the case that was running."""
import os, subprocess, json, hashlib, re


def describe(line, verdict, case_json):
    pos = {0: "an argument outside the routine's footprint was modified", 1: "results differ between two calls on equal arguments (after unrelated calls)",
           2: "concurrent results differ from the sequential one, or a shared input was modified", 3: "a documented in-place operation changed nothing",
           4: "an exported function/method taking a slice, Sample, graph or distribution is exercised by no entry of the harness table (the property quantifies over every such function; it is neither modelled nor run)", -1: "ok"}
    n = line[2]
    return dict(routine=line[1], nargs=n, mutated=line[3:3 + n], deterministic=line[3 + n], concurrent_ok=line[4 + n],
                meaning=pos.get(verdict[2], "?"), case=json.loads(case_json))


def extra(ctx):
    root, env = ctx["root"], dict(ctx["env"])
    env["VERIF_RACE"] = "1"
    r = subprocess.run(["bin/build-harness"], cwd=root, env=env, capture_output=True, text=True, timeout=2000)
    if r.returncode != 0:
        raise SystemExit("[check] MACHINERY FAILURE: -race build failed: " + r.stdout + r.stderr)
    racebin = os.path.join(root, r.stdout.strip().splitlines()[-1] + "-race")
    env["GORACE"] = "halt_on_error=0 exitcode=66"
    env["C20_CONC_FIRST"] = "1"   # first use of every routine in the -race process is concurrent (lazy initialisation races)
    env["C20_NOFRESH"] = "1"      # the fresh-process reference belongs to the plain run; a -race child per case would cost a second each
    try:
        p = subprocess.run([racebin, "gen", "C20", ctx["tier"], str(ctx["seed"])], env=env, capture_output=True, text=True,
                           timeout=900 if ctx["tier"] == "quick" else 7200)
    except subprocess.TimeoutExpired:
        return dict(race_run="timed out", race_reports=0)
    lines = [l for l in p.stdout.split("\n") if l.strip()]
    reports = p.stderr.count("WARNING: DATA RACE")
    out = dict(race_detector_cases=len(lines), race_reports=reports, race_goroutines_per_case=16, race_exit_code=p.returncode)
    if reports or p.returncode == 66:
        first = p.stderr[p.stderr.find("WARNING: DATA RACE"):][:6000]
        # the call names involved (from the stack frames of the report)
        funcs = sorted(set(re.findall(r"github\.com/aclements/go-moremath/[\w/]+\.[\w\.\(\)\*]+", first)))[:12]
        os.makedirs(os.path.join(root, "replays"), exist_ok=True)
        h = hashlib.sha1(first.encode()).hexdigest()[:12]
        path = "replays/C20-race-%s.json" % h
        json.dump(dict(property_id="C20", kind="race", reports=reports, functions=funcs, first_report=first,
                       replay_cmd="VERIF_RACE=1 bin/build-harness && GORACE=halt_on_error=1 build/harness-*/vharness-race gen C20 %s %d" % (ctx["tier"], ctx["seed"]),
                       explanation="the Go race detector reported a data race while 16 goroutines issued library calls on shared read-only inputs"),
                  open(os.path.join(root, path), "w"), indent=1)
        out["violations"] = [dict(replay=path, suffix="")]
    return out

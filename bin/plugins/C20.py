"""C20 plug-in: the schedule clause under the Go race detector.
The same harness is built with -race and the C20 cases are run again (16 goroutines per
case on shared inputs, the first use of every entry concurrent).  The twin's outcome is
JUDGED, never merely counted:
  * its case lines go through the extracted comparator (vmodel) like those of the plain run
    (a conc = 0 / det = 0 / modification seen only in the -race build, the warm-up line, the
    canaries) - a mismatch is a violation with the case as replay;
  * every report of the race detector is a violation, EXCEPT the reports on the harness's own
    racy canary (harness/c20canary.go, c20CanaryRaceFn), of which at least one is DEMANDED
    (a twin that reports nothing at all is blind);
  * an exit status other than 0 / 66, a fatal runtime error (concurrent map writes, ...), a
    hang, a missing end-of-generation sentinel, a time-out or a failing -race build is a
    violation (crash/hang) or a machinery failure (exit 2) - never a pass.
Self-test of the hand-written coverage list: every name in c20StaticCovered must really be
called in harness/c20.go."""
import os, subprocess, json, hashlib, re, sys


def describe(line, verdict, case_json):
    pos = {0: "an argument outside the routine's footprint was modified", 1: "results differ between two calls on equal arguments (after unrelated calls, on reused arrays, or in a fresh process)",
           2: "concurrent results differ from the sequential one, or a shared input was modified", 3: "a documented in-place operation changed nothing",
           4: "an exported function/method taking a slice, Sample, graph or distribution is exercised by no entry of the harness table (the property quantifies over every such function; it is neither modelled nor run)",
           5: "a library call of the case panicked: nothing was compared",
           6: "a canary of the harness (a deliberately impure / history-dependent / schedule-dependent function defined in harness/c20canary.go) was NOT flagged as it must be: the harness is blind in that stage",
           -1: "ok"}
    n = line[2]
    return dict(routine=line[1], nargs=n, mutated=line[3:3 + n], deterministic=line[3 + n], concurrent_ok=line[4 + n], panics=line[5 + n],
                meaning=pos.get(verdict[2], "?"), case=json.loads(case_json))


def _die(msg):
    print("[check] MACHINERY FAILURE:", msg, file=sys.stderr, flush=True)
    sys.exit(2)


def _replay(root, kind, payload):
    os.makedirs(os.path.join(root, "replays"), exist_ok=True)
    h = hashlib.sha1(json.dumps(payload, sort_keys=True).encode()).hexdigest()[:12]
    path = "replays/C20-%s-%s.json" % (kind, h)
    json.dump(dict(payload, property_id="C20", kind=kind), open(os.path.join(root, path), "w"), indent=1)
    return path


def _static_coverage_selftest(root):
    """every API name the hand-written table claims to exercise is really called in harness/c20.go"""
    src = open(os.path.join(root, "harness", "c20.go")).read()
    m = re.search(r"var c20StaticCovered = \[\]string\{(.*?)\n\}", src, re.S)
    if not m:
        _die("C20 self-test: c20StaticCovered not found in harness/c20.go")
    names = re.findall(r'"([^"]+)"', m.group(1))
    body = src[:m.start()] + src[m.end():]
    missing = []
    for n in names:
        parts = n.split(".")
        if len(parts) == 2:
            pat = r"\b%s\.%s\b" % (re.escape(parts[0]), re.escape(parts[1]))
        else:
            pat = r"\.%s\(" % re.escape(parts[-1])
        if not re.search(pat, body):
            missing.append(n)
    if missing:
        _die("C20 self-test: c20StaticCovered claims %s but harness/c20.go never calls them" % missing)
    return len(names)


def _vmodel(root, lines):
    r = subprocess.run(["bash", "-c", "ulimit -s unlimited 2>/dev/null; exec build/vmodel/vmodel"], cwd=root,
                       input="\n".join(l.split("#")[0] for l in lines) + "\n", capture_output=True, text=True, timeout=900)
    out = [v for v in r.stdout.split("\n") if v.strip()]
    if r.returncode != 0 or len(out) != len(lines):
        _die("vmodel failed on the lines of the -race twin: %s %s" % (r.stdout[-300:], r.stderr[-300:]))
    try:
        return [[int(t, 16) for t in v.split()] for v in out]
    except ValueError:
        _die("vmodel output on the lines of the -race twin: " + r.stdout[-300:])


def extra(ctx):
    root, env = ctx["root"], dict(ctx["env"])
    out = dict(static_coverage_names_checked=_static_coverage_selftest(root))
    env["VERIF_RACE"] = "1"
    r = subprocess.run(["bin/build-harness"], cwd=root, env=env, capture_output=True, text=True, timeout=2000)
    if r.returncode != 0:
        _die("-race build failed: " + r.stdout + r.stderr)
    racebin = os.path.join(root, r.stdout.strip().splitlines()[-1] + "-race")
    env["GORACE"] = "halt_on_error=0 exitcode=66"
    env["C20_CONC_FIRST"] = "1"   # first use of every routine in the -race process is concurrent (lazy initialisation races)
    env["C20_NOFRESH"] = "1"      # the fresh-process reference belongs to the plain run; a -race child per case would cost a second each
    replay_cmd = "VERIF_RACE=1 bin/build-harness && C20_CONC_FIRST=1 C20_NOFRESH=1 GORACE='halt_on_error=0 exitcode=66' build/harness-*/vharness-race gen C20 %s %d" % (ctx["tier"], ctx["seed"])
    try:
        p = subprocess.run([racebin, "gen", "C20", ctx["tier"], str(ctx["seed"])], env=env, capture_output=True, text=True,
                           timeout=900 if ctx["tier"] == "quick" else 7200)
    except subprocess.TimeoutExpired:
        _die("the -race twin did not finish within its time limit (no verdict on the schedule clause)")
    violations = []
    lines = [l for l in p.stdout.split("\n") if l.strip()]
    # 1. the process: exit status, fatal errors, completeness
    blocks = [b for b in re.split(r"={18,}\n", p.stderr) if "WARNING: DATA RACE" in b]
    canary = [b for b in blocks if "c20CanaryRaceFn" in b]
    foreign = [b for b in blocks if "c20CanaryRaceFn" not in b]
    m = re.search(r"\[C20\] gen complete: (\d+) cases", p.stderr)
    out.update(race_detector_cases=len(lines), race_reports=len(foreign), race_canary_reports=len(canary), race_goroutines_per_case=16,
               race_exit_code=p.returncode, race_first_use_concurrent=True)
    if p.returncode not in (0, 66) or "fatal error:" in p.stderr:
        k = p.stderr.find("fatal error:")
        violations.append(dict(replay=_replay(root, "race-crash", dict(
            exit_code=p.returncode, stderr=p.stderr[max(0, k - 200):][:6000] if k >= 0 else p.stderr[-6000:], replay_cmd=replay_cmd,
            last_line=lines[-1][:2000] if lines else None,
            explanation="the -race twin died (exit status %d): a fatal runtime error in the code under test while 16 goroutines issued library calls on shared read-only inputs (e.g. concurrent map writes)" % p.returncode)), suffix=""))
    elif not m or int(m.group(1)) != len(lines):
        _die("the -race twin ended without its end-of-generation sentinel or with %d lines for %s cases: %s" % (len(lines), m.group(1) if m else "?", p.stderr[-1500:]))
    # 2. its lines: hangs, harness failures, the comparator's verdicts
    hangs = [l for l in lines if l.startswith("!HANG")]
    bad = [l for l in lines if l.startswith("!") and not l.startswith("!HANG")]
    if bad:
        _die("the -race twin rejected its own cases: " + bad[0][:600])
    for h in hangs[:2]:
        violations.append(dict(replay=_replay(root, "race-hang", dict(case=json.loads(h.split("#", 1)[1]), problem=h.split("#")[0].strip(), replay_cmd=replay_cmd,
                          explanation="under the race detector and 16 goroutines the implementation did not return on this case")), suffix=""))
    lines = [l for l in lines if not l.startswith("!")]
    verdicts = _vmodel(root, lines) if lines else []
    if any(v[0] == 3 for v in verdicts):
        _die("the model rejects a line of the -race twin as malformed: " + lines[[v[0] for v in verdicts].index(3)][:400])
    seen = set()
    for l, v in zip(lines, verdicts):
        if v[0] >= 2 and (v[1], v[2]) not in seen and len(seen) < 3:
            seen.add((v[1], v[2]))
            cj = l.split("#", 1)[1].strip()
            ints = [int(t, 16) for t in l.split("#")[0].split()]
            violations.append(dict(replay=_replay(root, "race-case", dict(case=json.loads(cj), line=l.split("#")[0].strip(), verdict=v, decoded=describe(ints, v, cj),
                              replay_cmd=replay_cmd, explanation="a case line of the -race twin (first use of every entry concurrent, 16 goroutines, race detector on) is rejected by the comparator")), suffix=""))
    out["race_twin_mismatches"] = sum(1 for v in verdicts if v[0] >= 2)
    out["race_twin_canary_lines"] = sum(1 for v in verdicts if v[1] == 8)
    # 3. the race detector's reports
    if foreign:
        first = foreign[0][:6000]
        funcs = sorted(set(re.findall(r"github\.com/aclements/go-moremath/[\w/]+\.[\w\.\(\)\*]+", first)))[:12]
        violations.append(dict(replay=_replay(root, "race", dict(reports=len(foreign), functions=funcs, first_report=first, replay_cmd=replay_cmd,
                          explanation="the Go race detector reported a data race while 16 goroutines issued library calls on shared read-only inputs")), suffix=""))
    if not canary and not violations:
        violations.append(dict(replay=_replay(root, "race-blind", dict(stderr_tail=p.stderr[-3000:], replay_cmd=replay_cmd,
                          explanation="the -race twin did not report the data race of the harness's own racy canary (c20CanaryRaceFn): the race detection stage is blind, the schedule clause was not checked")), suffix=""))
    # machinery note: the API surface of the tree under test (go/parser scan made by the harness)
    try:
        env2 = dict(ctx["env"]); env2["C20_LIST_API"] = "1"
        q = subprocess.run([ctx["harness"], "gen", "C20", "quick", "1"], env=env2, capture_output=True, text=True, timeout=120)
        m = re.search(r"api surface: (\d+) uncovered: (\d+)", q.stderr)
        if m:
            out["api_surface_functions"] = int(m.group(1))
            out["api_uncovered"] = [l.split()[1] for l in q.stderr.split("\n") if l.startswith("UNCOVERED")]
            out["api_not_called"] = {"graphout.Dot.Print": "writes to os.Stdout (the harness's result channel); = Fprint(os.Stdout, g)"}
    except Exception as e:                                   # a note only
        out["api_surface_note_error"] = str(e)
    if violations:
        out["violations"] = violations
    return out

(* GASort: a verified generic stable insertion sort, instantiated for
   rationals (Qsort) and for (value, weight) pairs keyed on the value (psort).
   Depends only on the Coq standard library. *)
From Coq Require Import List Permutation Sorted Bool QArith Qabs Lia.
Import ListNotations.

(* ------------------------------------------------------------------ *)
(* Generic list helpers                                                *)
(* ------------------------------------------------------------------ *)

Lemma Forall2_nth : forall (A B : Type) (R : A -> B -> Prop) l1 l2 d1 d2 i,
  Forall2 R l1 l2 -> (i < length l1)%nat -> R (nth i l1 d1) (nth i l2 d2).
Proof.
  intros A B R l1 l2 d1 d2 i H. revert i.
  induction H as [|a b l1 l2 Hab H IH]; intros i Hi; simpl in *.
  - lia.
  - destruct i as [|i]; auto. apply IH. lia.
Qed.

Lemma Forall2_imp : forall (A B : Type) (R R' : A -> B -> Prop),
  (forall a b, R a b -> R' a b) ->
  forall l1 l2, Forall2 R l1 l2 -> Forall2 R' l1 l2.
Proof.
  intros A B R R' HR l1 l2 H. induction H; constructor; auto.
Qed.

Lemma Forall2_same_length : forall (A B : Type) (R : A -> B -> Prop) l1 l2,
  Forall2 R l1 l2 -> length l1 = length l2.
Proof.
  intros A B R l1 l2 H. induction H; simpl; auto.
Qed.

Lemma StronglySorted_imp : forall (A : Type) (R R' : A -> A -> Prop),
  (forall a b, R a b -> R' a b) ->
  forall l, StronglySorted R l -> StronglySorted R' l.
Proof.
  intros A R R' HR l H. induction H as [|a l Hs IH Hf]; constructor; auto.
  eapply Forall_impl; [|exact Hf]. intros b Hb. apply HR. exact Hb.
Qed.

(* ------------------------------------------------------------------ *)
(* Generic sort                                                        *)
(* ------------------------------------------------------------------ *)

Section GenericSort.
  Variable A : Type.
  Variable leb : A -> A -> bool.

  Definition gle (a b : A) : Prop := leb a b = true.
  Definition geqv (a b : A) : Prop := gle a b /\ gle b a.

  Fixpoint insert (x : A) (l : list A) : list A :=
    match l with
    | [] => [x]
    | y :: t => if leb x y then x :: y :: t else y :: insert x t
    end.

  Fixpoint isort (l : list A) : list A :=
    match l with
    | [] => []
    | x :: t => insert x (isort t)
    end.

  (* ---------------- no hypotheses needed ---------------- *)

  Lemma insert_perm : forall x l, Permutation (insert x l) (x :: l).
  Proof.
    intros x l. induction l as [|a l IH]; simpl.
    - apply Permutation_refl.
    - destruct (leb x a).
      + apply Permutation_refl.
      + eapply perm_trans; [apply perm_skip; exact IH | apply perm_swap].
  Qed.

  Lemma isort_perm : forall l, Permutation (isort l) l.
  Proof.
    induction l as [|a l IH]; simpl.
    - apply perm_nil.
    - eapply perm_trans; [apply insert_perm | apply perm_skip; exact IH].
  Qed.

  Lemma isort_length : forall l, length (isort l) = length l.
  Proof.
    intros l. apply Permutation_length. apply isort_perm.
  Qed.

  Lemma insert_length : forall x l, length (insert x l) = S (length l).
  Proof.
    intros x l. apply (Permutation_length (insert_perm x l)).
  Qed.

  Lemma insert_in : forall x l y, In y (insert x l) <-> y = x \/ In y l.
  Proof.
    intros x l y. split.
    - intros H. apply (Permutation_in _ (insert_perm x l)) in H.
      simpl in H. destruct H as [H|H]; [left; symmetry; exact H | right; exact H].
    - intros H. apply (Permutation_in _ (Permutation_sym (insert_perm x l))).
      simpl. destruct H as [H|H]; [left; symmetry; exact H | right; exact H].
  Qed.

  Lemma isort_in : forall l x, In x (isort l) <-> In x l.
  Proof.
    intros l x. split.
    - apply Permutation_in. apply isort_perm.
    - apply Permutation_in. apply Permutation_sym. apply isort_perm.
  Qed.

  Lemma insert_hd : forall x l, Forall (gle x) l -> insert x l = x :: l.
  Proof.
    intros x l H. destruct l as [|a l]; simpl; [reflexivity|].
    inversion H as [|a' l' Ha Hl]; subst. unfold gle in Ha. rewrite Ha. reflexivity.
  Qed.

  (* hypothesis-free form of isort_id (no totality / transitivity needed) *)
  Lemma isort_id_gen : forall l, StronglySorted gle l -> isort l = l.
  Proof.
    induction l as [|a l IH]; simpl; intros H; [reflexivity|].
    inversion H as [|a' l' Hs Hf]; subst.
    rewrite (IH Hs). apply insert_hd. exact Hf.
  Qed.

  (* ---------------- total preorder ---------------- *)

  Hypothesis leb_total : forall a b, leb a b = true \/ leb b a = true.
  Hypothesis leb_trans : forall a b c, leb a b = true -> leb b c = true -> leb a c = true.

  (* Uniform interface: every lemma from here to the end of the section takes
     [A leb leb_total leb_trans] after discharge, whether or not its proof
     happens to use both hypotheses. *)
  Set Default Proof Using "leb_total leb_trans".

  Lemma gle_refl : forall a, gle a a.
  Proof. intros a. unfold gle. destruct (leb_total a a); assumption. Qed.

  Lemma gle_trans : forall a b c, gle a b -> gle b c -> gle a c.
  Proof. unfold gle. intros a b c. apply leb_trans. Qed.

  Lemma gle_total : forall a b, gle a b \/ gle b a.
  Proof. unfold gle. intros a b. apply leb_total. Qed.

  Lemma leb_false_gle : forall a b, leb a b = false -> gle b a.
  Proof.
    intros a b H. destruct (leb_total a b) as [H1|H1].
    - rewrite H in H1. discriminate.
    - exact H1.
  Qed.

  Lemma geqv_refl : forall a, geqv a a.
  Proof. intros a. split; apply gle_refl. Qed.

  Lemma geqv_sym : forall a b, geqv a b -> geqv b a.
  Proof. intros a b [H1 H2]. split; assumption. Qed.

  Lemma geqv_trans : forall a b c, geqv a b -> geqv b c -> geqv a c.
  Proof.
    intros a b c [H1 H2] [H3 H4]. split; eapply gle_trans; eassumption.
  Qed.

  Lemma Forall2_geqv_refl : forall l, Forall2 geqv l l.
  Proof. induction l; constructor; auto using geqv_refl. Qed.

  Lemma Forall2_geqv_sym : forall l1 l2, Forall2 geqv l1 l2 -> Forall2 geqv l2 l1.
  Proof. intros l1 l2 H. induction H; constructor; auto using geqv_sym. Qed.

  Lemma Forall2_geqv_trans : forall l1 l2 l3,
    Forall2 geqv l1 l2 -> Forall2 geqv l2 l3 -> Forall2 geqv l1 l3.
  Proof.
    intros l1 l2 l3 H. revert l3.
    induction H as [|a b l1 l2 Hab H IH]; intros l3 H3.
    - inversion H3; subst. constructor.
    - inversion H3 as [|b' c l2' l3' Hbc H3' E1 E2]; subst.
      constructor.
      + eapply geqv_trans; eassumption.
      + apply IH. assumption.
  Qed.

  (* ---------------- sortedness ---------------- *)

  Lemma insert_sorted : forall x l, StronglySorted gle l -> StronglySorted gle (insert x l).
  Proof.
    intros x l. induction l as [|a l IH]; simpl; intros H.
    - constructor; constructor.
    - inversion H as [|a' l' Hs Hf]; subst.
      destruct (leb x a) eqn:E.
      + constructor; [exact H|].
        constructor; [exact E|].
        eapply Forall_impl; [|exact Hf].
        intros b Hb. eapply gle_trans; [exact E | exact Hb].
      + constructor; [apply IH; exact Hs|].
        apply Forall_forall. intros y Hy.
        apply insert_in in Hy. destruct Hy as [Hy|Hy].
        * subst y. apply leb_false_gle. exact E.
        * rewrite Forall_forall in Hf. apply Hf. exact Hy.
  Qed.

  Lemma isort_sorted : forall l, StronglySorted gle (isort l).
  Proof.
    induction l as [|a l IH]; simpl.
    - constructor.
    - apply insert_sorted. exact IH.
  Qed.

  (* already ascending: unchanged (this is why the sort is stable) *)
  Lemma isort_id : forall l, StronglySorted gle l -> isort l = l.
  Proof. exact isort_id_gen. Qed.

  Lemma isort_idem : forall l, isort (isort l) = isort l.
  Proof. intros l. apply isort_id. apply isort_sorted. Qed.

  (* ---------------- permutation invariance up to key equivalence ---------------- *)

  Lemma insert_eqv_compat : forall x s s',
    Forall2 geqv s s' -> Forall2 geqv (insert x s) (insert x s').
  Proof.
    intros x s s' H. induction H as [|a b s s' Hab H IH]; simpl.
    - constructor; [apply geqv_refl | constructor].
    - destruct Hab as [Hab Hba].
      destruct (leb x a) eqn:E1; destruct (leb x b) eqn:E2.
      + constructor; [apply geqv_refl|]. constructor; [split; assumption | exact H].
      + assert (leb x b = true) as E by (eapply leb_trans; [exact E1 | exact Hab]).
        rewrite E in E2. discriminate.
      + assert (leb x a = true) as E by (eapply leb_trans; [exact E2 | exact Hba]).
        rewrite E in E1. discriminate.
      + constructor; [split; assumption | exact IH].
  Qed.

  Lemma insert_eqv_compat2 : forall x x' s s',
    geqv x x' -> Forall2 geqv s s' -> Forall2 geqv (insert x s) (insert x' s').
  Proof.
    intros x x' s s' [Hxx' Hx'x] H. induction H as [|a b s s' Hab H IH]; simpl.
    - constructor; [split; assumption | constructor].
    - destruct Hab as [Hab Hba].
      destruct (leb x a) eqn:E1; destruct (leb x' b) eqn:E2.
      + constructor; [split; assumption|]. constructor; [split; assumption | exact H].
      + assert (leb x' b = true) as E.
        { eapply leb_trans; [exact Hx'x|]. eapply leb_trans; [exact E1 | exact Hab]. }
        rewrite E in E2. discriminate.
      + assert (leb x a = true) as E.
        { eapply leb_trans; [exact Hxx'|]. eapply leb_trans; [exact E2 | exact Hba]. }
        rewrite E in E1. discriminate.
      + constructor; [split; assumption | exact IH].
  Qed.

  Lemma insert_swap_eqv : forall x y s,
    Forall2 geqv (insert x (insert y s)) (insert y (insert x s)).
  Proof.
    intros x y s. induction s as [|a s IH].
    - simpl.
      destruct (leb x y) eqn:Exy; destruct (leb y x) eqn:Eyx.
      + constructor; [split; assumption|].
        constructor; [split; assumption | constructor].
      + apply Forall2_geqv_refl.
      + apply Forall2_geqv_refl.
      + destruct (leb_total x y) as [H|H]; [rewrite H in Exy | rewrite H in Eyx]; discriminate.
    - simpl.
      destruct (leb y a) eqn:Eya; destruct (leb x a) eqn:Exa; simpl.
      + (* both go in front of a *)
        rewrite Exa, Eya.
        destruct (leb x y) eqn:Exy; destruct (leb y x) eqn:Eyx.
        * constructor; [split; assumption|].
          constructor; [split; assumption|]. apply Forall2_geqv_refl.
        * apply Forall2_geqv_refl.
        * apply Forall2_geqv_refl.
        * destruct (leb_total x y) as [H|H]; [rewrite H in Exy | rewrite H in Eyx]; discriminate.
      + (* y before a, x after a *)
        rewrite Exa, Eya.
        destruct (leb x y) eqn:Exy.
        * assert (leb x a = true) as E by (eapply leb_trans; [exact Exy | exact Eya]).
          rewrite E in Exa. discriminate.
        * apply Forall2_geqv_refl.
      + (* x before a, y after a *)
        rewrite Exa, Eya.
        destruct (leb y x) eqn:Eyx.
        * assert (leb y a = true) as E by (eapply leb_trans; [exact Eyx | exact Exa]).
          rewrite E in Eya. discriminate.
        * apply Forall2_geqv_refl.
      + (* both after a *)
        rewrite Exa, Eya.
        constructor; [apply geqv_refl | exact IH].
  Qed.

  (* sorting two permutations of the same list gives lists that agree
     position by position up to key equivalence *)
  Lemma isort_perm_eqv : forall l1 l2, Permutation l1 l2 -> Forall2 geqv (isort l1) (isort l2).
  Proof.
    intros l1 l2 H. induction H as [|x l l' H IH|x y l|l l' l'' H1 IH1 H2 IH2].
    - simpl. constructor.
    - simpl. apply insert_eqv_compat. exact IH.
    - simpl. apply insert_swap_eqv.
    - eapply Forall2_geqv_trans; eassumption.
  Qed.

  Lemma sorted_perm_eqv : forall l1 l2,
    StronglySorted gle l1 -> StronglySorted gle l2 -> Permutation l1 l2 -> Forall2 geqv l1 l2.
  Proof.
    intros l1 l2 H1 H2 HP.
    rewrite <- (isort_id l1 H1). rewrite <- (isort_id l2 H2).
    apply isort_perm_eqv. exact HP.
  Qed.

  (* ---------------- extremal elements, monotone nth ---------------- *)

  (* the head of a sorted list is a least element *)
  Lemma sorted_hd_le : forall x l, StronglySorted gle (x :: l) -> forall y, In y (x :: l) -> gle x y.
  Proof.
    intros x l H y Hy. inversion H as [|x' l' Hs Hf]; subst.
    simpl in Hy. destruct Hy as [Hy|Hy].
    - subst y. apply gle_refl.
    - rewrite Forall_forall in Hf. apply Hf. exact Hy.
  Qed.

  (* the last of a sorted list is a greatest element *)
  Lemma sorted_last_ge : forall l d, StronglySorted gle l -> forall y, In y l -> gle y (last l d).
  Proof.
    intros l d. induction l as [|a l IH]; intros H y Hy.
    - destruct Hy.
    - inversion H as [|a' l' Hs Hf]; subst.
      destruct l as [|b l].
      + simpl in Hy. destruct Hy as [Hy|[]]. subst y. simpl. apply gle_refl.
      + change (last (a :: b :: l) d) with (last (b :: l) d).
        destruct Hy as [Hy|Hy].
        * subst y. apply gle_trans with b.
          -- inversion Hf; subst. assumption.
          -- apply IH; [exact Hs | left; reflexivity].
        * apply IH; assumption.
  Qed.

  (* nth is monotone on a sorted list *)
  Lemma sorted_nth_le : forall l d i j,
    StronglySorted gle l -> (i <= j < length l)%nat -> gle (nth i l d) (nth j l d).
  Proof.
    intros l d. induction l as [|a l IH]; intros i j H Hij.
    - simpl in Hij. lia.
    - inversion H as [|a' l' Hs Hf]; subst. simpl in Hij.
      destruct i as [|i]; destruct j as [|j]; simpl.
      + apply gle_refl.
      + rewrite Forall_forall in Hf. apply Hf. apply nth_In. lia.
      + lia.
      + apply IH; [exact Hs | lia].
  Qed.

  Lemma sorted_nth0_le : forall l d, StronglySorted gle l -> forall y, In y l -> gle (nth 0 l d) y.
  Proof.
    intros l d H y Hy. destruct l as [|a l]; [destruct Hy|].
    simpl. eapply sorted_hd_le; eassumption.
  Qed.

  Unset Default Proof Using.

End GenericSort.

(* ------------------------------------------------------------------ *)
(* Instantiation: rationals, and (value, weight) pairs keyed on value  *)
(* ------------------------------------------------------------------ *)

Definition Qsort : list Q -> list Q := isort Q Qle_bool.
Definition pair_leb (a b : Q * Q) : bool := Qle_bool (fst a) (fst b).
Definition psort : list (Q * Q) -> list (Q * Q) := isort (Q * Q) pair_leb.

Lemma Qle_bool_total : forall a b, Qle_bool a b = true \/ Qle_bool b a = true.
Proof.
  intros a b. destruct (Qlt_le_dec a b) as [H|H].
  - left. apply Qle_bool_iff. apply Qlt_le_weak. exact H.
  - right. apply Qle_bool_iff. exact H.
Qed.

Lemma Qle_bool_trans : forall a b c,
  Qle_bool a b = true -> Qle_bool b c = true -> Qle_bool a c = true.
Proof.
  intros a b c H1 H2. apply Qle_bool_iff.
  apply Qle_bool_iff in H1. apply Qle_bool_iff in H2.
  eapply Qle_trans; eassumption.
Qed.

Lemma pair_leb_total : forall a b, pair_leb a b = true \/ pair_leb b a = true.
Proof. intros a b. unfold pair_leb. apply Qle_bool_total. Qed.

Lemma pair_leb_trans : forall a b c,
  pair_leb a b = true -> pair_leb b c = true -> pair_leb a c = true.
Proof. intros a b c. unfold pair_leb. apply Qle_bool_trans. Qed.

Lemma gle_Q_iff : forall a b, gle Q Qle_bool a b <-> (a <= b)%Q.
Proof. intros a b. unfold gle. apply Qle_bool_iff. Qed.

Lemma gle_pair_iff : forall a b, gle (Q * Q) pair_leb a b <-> (fst a <= fst b)%Q.
Proof. intros a b. unfold gle, pair_leb. apply Qle_bool_iff. Qed.

Lemma geqv_Q_iff : forall a b, geqv Q Qle_bool a b <-> (a == b)%Q.
Proof.
  intros a b. unfold geqv. rewrite !gle_Q_iff. split.
  - intros [H1 H2]. apply Qle_antisym; assumption.
  - intros H. split.
    + apply Qle_lteq. right. exact H.
    + apply Qle_lteq. right. apply Qeq_sym. exact H.
Qed.

Lemma geqv_pair_iff : forall a b, geqv (Q * Q) pair_leb a b <-> (fst a == fst b)%Q.
Proof.
  intros a b. unfold geqv. rewrite !gle_pair_iff. split.
  - intros [H1 H2]. apply Qle_antisym; assumption.
  - intros H. split.
    + apply Qle_lteq. right. exact H.
    + apply Qle_lteq. right. apply Qeq_sym. exact H.
Qed.

(* ---------------- Qsort ---------------- *)

Lemma Qsort_perm : forall l, Permutation (Qsort l) l.
Proof. intros l. apply isort_perm. Qed.

Lemma Qsort_length : forall l, length (Qsort l) = length l.
Proof. intros l. apply isort_length. Qed.

Lemma Qsort_in : forall l x, In x (Qsort l) <-> In x l.
Proof. intros l x. apply isort_in. Qed.

Lemma Qsort_sorted_gle : forall l, StronglySorted (gle Q Qle_bool) (Qsort l).
Proof.
  intros l. apply isort_sorted; [apply Qle_bool_total | apply Qle_bool_trans].
Qed.

Lemma Qsort_sorted : forall l, StronglySorted Qle (Qsort l).
Proof.
  intros l. apply StronglySorted_imp with (R := gle Q Qle_bool).
  - intros a b. apply gle_Q_iff.
  - apply Qsort_sorted_gle.
Qed.

Lemma Qsort_id : forall l, StronglySorted Qle l -> Qsort l = l.
Proof.
  intros l H. apply isort_id; [apply Qle_bool_total | apply Qle_bool_trans |].
  apply StronglySorted_imp with (R := Qle); [|exact H].
  intros a b. apply gle_Q_iff.
Qed.

Lemma Qsort_idem : forall l, Qsort (Qsort l) = Qsort l.
Proof. intros l. apply Qsort_id. apply Qsort_sorted. Qed.

Lemma Qsort_perm_eq : forall l1 l2, Permutation l1 l2 -> Forall2 Qeq (Qsort l1) (Qsort l2).
Proof.
  intros l1 l2 H. apply Forall2_imp with (R := geqv Q Qle_bool).
  - intros a b. apply geqv_Q_iff.
  - apply isort_perm_eqv; [apply Qle_bool_total | apply Qle_bool_trans | exact H].
Qed.

Lemma Qsorted_perm_eq : forall l1 l2,
  StronglySorted Qle l1 -> StronglySorted Qle l2 -> Permutation l1 l2 -> Forall2 Qeq l1 l2.
Proof.
  intros l1 l2 H1 H2 HP.
  rewrite <- (Qsort_id l1 H1). rewrite <- (Qsort_id l2 H2).
  apply Qsort_perm_eq. exact HP.
Qed.

Lemma Qsort_nth_le : forall l i j, (i <= j < length l)%nat ->
  (nth i (Qsort l) 0 <= nth j (Qsort l) 0)%Q.
Proof.
  intros l i j Hij. apply gle_Q_iff.
  apply sorted_nth_le; [apply Qle_bool_total | apply Qle_bool_trans | apply Qsort_sorted_gle |].
  rewrite Qsort_length. exact Hij.
Qed.

Lemma Qsort_min : forall l x, In x l -> (nth 0 (Qsort l) 0 <= x)%Q.
Proof.
  intros l x Hx. apply gle_Q_iff.
  apply sorted_nth0_le; [apply Qle_bool_total | apply Qle_bool_trans | apply Qsort_sorted_gle |].
  apply Qsort_in. exact Hx.
Qed.

Lemma Qsort_max : forall l x, In x l -> (x <= last (Qsort l) 0)%Q.
Proof.
  intros l x Hx. apply gle_Q_iff.
  apply sorted_last_ge; [apply Qle_bool_total | apply Qle_bool_trans | apply Qsort_sorted_gle |].
  apply Qsort_in. exact Hx.
Qed.

(* ---------------- psort ---------------- *)

Lemma psort_perm : forall l, Permutation (psort l) l.
Proof. intros l. apply isort_perm. Qed.

Lemma psort_length : forall l, length (psort l) = length l.
Proof. intros l. apply isort_length. Qed.

Lemma psort_in : forall l x, In x (psort l) <-> In x l.
Proof. intros l x. apply isort_in. Qed.

Lemma psort_sorted_gle : forall l, StronglySorted (gle (Q * Q) pair_leb) (psort l).
Proof.
  intros l. apply isort_sorted; [apply pair_leb_total | apply pair_leb_trans].
Qed.

Lemma psort_sorted : forall l, StronglySorted (fun a b => (fst a <= fst b)%Q) (psort l).
Proof.
  intros l. apply StronglySorted_imp with (R := gle (Q * Q) pair_leb).
  - intros a b. apply gle_pair_iff.
  - apply psort_sorted_gle.
Qed.

Lemma psort_id : forall l, StronglySorted (fun a b => (fst a <= fst b)%Q) l -> psort l = l.
Proof.
  intros l H. apply isort_id; [apply pair_leb_total | apply pair_leb_trans |].
  apply StronglySorted_imp with (R := fun a b : Q * Q => (fst a <= fst b)%Q); [|exact H].
  intros a b. apply gle_pair_iff.
Qed.

Lemma psort_idem : forall l, psort (psort l) = psort l.
Proof. intros l. apply psort_id. apply psort_sorted. Qed.

Lemma psort_perm_eqv : forall l1 l2, Permutation l1 l2 ->
  Forall2 (fun a b => (fst a == fst b)%Q) (psort l1) (psort l2).
Proof.
  intros l1 l2 H. apply Forall2_imp with (R := geqv (Q * Q) pair_leb).
  - intros a b. apply geqv_pair_iff.
  - apply isort_perm_eqv; [apply pair_leb_total | apply pair_leb_trans | exact H].
Qed.

Lemma psort_nth_le : forall l d i j, (i <= j < length l)%nat ->
  (fst (nth i (psort l) d) <= fst (nth j (psort l) d))%Q.
Proof.
  intros l d i j Hij. apply gle_pair_iff.
  apply sorted_nth_le; [apply pair_leb_total | apply pair_leb_trans | apply psort_sorted_gle |].
  rewrite psort_length. exact Hij.
Qed.

(* sorting the values alone = values of the sorted pairs *)
Lemma insert_map_fst : forall p l,
  map fst (insert (Q * Q) pair_leb p l) = insert Q Qle_bool (fst p) (map fst l).
Proof.
  intros p l. induction l as [|a l IH]; simpl.
  - reflexivity.
  - unfold pair_leb at 1. destruct (Qle_bool (fst p) (fst a)); simpl.
    + reflexivity.
    + rewrite IH. reflexivity.
Qed.

Lemma psort_fst : forall l, map fst (psort l) = Qsort (map fst l).
Proof.
  induction l as [|a l IH]; simpl.
  - reflexivity.
  - unfold psort, Qsort in *. simpl. rewrite insert_map_fst. rewrite IH. reflexivity.
Qed.

(* unweighted view: pairs with weight 1 *)
Definition unit_weight (x : Q) : Q * Q := (x, 1%Q).

Lemma insert_unit_weight : forall x l,
  insert (Q * Q) pair_leb (unit_weight x) (map unit_weight l)
  = map unit_weight (insert Q Qle_bool x l).
Proof.
  intros x l. induction l as [|a l IH]; simpl.
  - reflexivity.
  - unfold pair_leb at 1. simpl. destruct (Qle_bool x a); simpl.
    + reflexivity.
    + rewrite IH. reflexivity.
Qed.

Lemma psort_unit_weight : forall l,
  psort (map unit_weight l) = map unit_weight (Qsort l).
Proof.
  induction l as [|a l IH]; simpl.
  - reflexivity.
  - unfold psort, Qsort in *. simpl. rewrite IH. apply insert_unit_weight.
Qed.

Lemma psort_unit_weight_snd : forall l p, In p (psort (map unit_weight l)) -> snd p = 1%Q.
Proof.
  intros l p H. apply (proj1 (psort_in _ _)) in H. apply in_map_iff in H.
  destruct H as [x [Hx _]]. subst p. reflexivity.
Qed.

(* ------------------------------------------------------------------ *)
(* Assumption audit                                                     *)
(* ------------------------------------------------------------------ *)

Print Assumptions Forall2_nth.
Print Assumptions insert_perm.
Print Assumptions isort_perm.
Print Assumptions isort_length.
Print Assumptions isort_in.
Print Assumptions isort_sorted.
Print Assumptions isort_id.
Print Assumptions isort_idem.
Print Assumptions isort_perm_eqv.
Print Assumptions sorted_perm_eqv.
Print Assumptions sorted_hd_le.
Print Assumptions sorted_last_ge.
Print Assumptions sorted_nth_le.
Print Assumptions Qle_bool_total.
Print Assumptions Qle_bool_trans.
Print Assumptions pair_leb_total.
Print Assumptions pair_leb_trans.
Print Assumptions geqv_Q_iff.
Print Assumptions Qsort_perm.
Print Assumptions Qsort_sorted.
Print Assumptions Qsort_id.
Print Assumptions Qsort_length.
Print Assumptions Qsort_perm_eq.
Print Assumptions Qsort_nth_le.
Print Assumptions Qsort_min.
Print Assumptions Qsort_max.
Print Assumptions psort_perm.
Print Assumptions psort_sorted.
Print Assumptions psort_id.
Print Assumptions psort_length.
Print Assumptions psort_perm_eqv.
Print Assumptions psort_nth_le.
Print Assumptions psort_fst.
Print Assumptions psort_unit_weight.

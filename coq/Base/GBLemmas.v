(* Base/GBLemmas.v — boolean comparison reflection on Q used by the scale/tick proofs (group gB). *)
From MM Require Import Base.Num.
From Coq Require Import Lqa.
Local Open Scope Q_scope.

Lemma gb_Qltb_true a b : Qltb a b = true <-> a < b.
Proof. unfold Qltb. rewrite negb_true_iff. split.
  - intros H. apply Qnot_le_lt. intro L. apply Qle_bool_iff in L. congruence.
  - intros H. destruct (Qle_bool b a) eqn:E; [|reflexivity]. apply Qle_bool_iff in E. exfalso. apply (Qlt_not_le _ _ H E). Qed.
Lemma gb_Qltb_false a b : Qltb a b = false <-> b <= a.
Proof. unfold Qltb. rewrite negb_false_iff. apply Qle_bool_iff. Qed.
Lemma gb_Qleb_true a b : Qleb a b = true <-> a <= b.
Proof. apply Qle_bool_iff. Qed.
Lemma gb_Qleb_false a b : Qleb a b = false <-> b < a.
Proof. unfold Qleb. split.
  - intros H. apply Qnot_le_lt. intro L. apply Qle_bool_iff in L. congruence.
  - intros H. destruct (Qle_bool a b) eqn:E; [|reflexivity]. apply Qle_bool_iff in E. exfalso. apply (Qlt_not_le _ _ H E). Qed.
Lemma gb_Qeqb_true a b : Qeqb a b = true <-> a == b.
Proof. apply Qeq_bool_iff. Qed.
Lemma gb_Qeqb_false a b : Qeqb a b = false <-> ~ a == b.
Proof. unfold Qeqb. split.
  - intros H E. apply Qeq_bool_iff in E. congruence.
  - intros H. destruct (Qeq_bool a b) eqn:E; [|reflexivity]. apply Qeq_bool_iff in E. contradiction. Qed.

Ltac gb_bool :=
  repeat match goal with
  | H : Qltb _ _ = true |- _ => apply gb_Qltb_true in H
  | H : Qltb _ _ = false |- _ => apply gb_Qltb_false in H
  | H : Qleb _ _ = true |- _ => apply gb_Qleb_true in H
  | H : Qleb _ _ = false |- _ => apply gb_Qleb_false in H
  | H : Qeqb _ _ = true |- _ => apply gb_Qeqb_true in H
  | H : Qeqb _ _ = false |- _ => apply gb_Qeqb_false in H
  end.

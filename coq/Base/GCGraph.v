(* Base/GCGraph.v — graphs as the Go code sees them (graph.IntGraph: adjacency lists,
   nodes densely numbered from 0), paths, and the two executable representations of the
   out-edge function used by the models: list indexing (statements) and a binary trie
   (the extracted check on graphs of 10^5 nodes).  Every model of C18 is a function of
   an out-edge function [out : N -> list N], so the theorems apply to either. *)
From Coq Require Import List NArith ZArith FMapPositive Lia Bool.
Import ListNotations.

Definition graph := list (list N).

(* g.Out(u) — [] outside the graph (the Go code would panic; callers guard with u < n) *)
Definition g_out (g : graph) (u : N) : list N := nth (N.to_nat u) g [].
Definition g_n (g : graph) : N := N.of_nat (length g).

(* every edge target is a node *)
Definition out_wf (out : N -> list N) (n : N) : Prop := forall u v, In v (out u) -> (v < n)%N.
Definition g_wf (g : graph) : Prop := out_wf (g_out g) (g_n g).
Definition g_wfb (g : graph) : bool :=
  let n := g_n g in forallb (forallb (fun v => (v <? n)%N)) g.

(* 0, 1, ..., n-1 *)
Definition nodes_upto (n : N) : list N := map N.of_nat (seq 0 (N.to_nat n)).

(* ---- paths ---- *)
Section Path.
  Variable out : N -> list N.
  Inductive path : N -> N -> Prop :=
  | path_refl : forall u, path u u
  | path_step : forall u v w, In v (out u) -> path v w -> path u w.

  Lemma path_trans : forall u v w, path u v -> path v w -> path u w.
  Proof. induction 1; intros; auto. econstructor; eauto. Qed.

  Lemma path_snoc : forall u v w, path u v -> In w (out v) -> path u w.
  Proof. intros. eapply path_trans; eauto. econstructor; eauto. constructor. Qed.
End Path.

Lemma path_ext : forall out1 out2, (forall u, out1 u = out2 u) -> forall u v, path out1 u v -> path out2 u v.
Proof.
  intros out1 out2 E u v H. induction H. constructor.
  econstructor; eauto. rewrite <- E; auto.
Qed.

(* ---- trie representation ---- *)
Definition gmap := PositiveMap.t (list N).
Fixpoint gm_build_from (g : graph) (i : positive) (acc : gmap) : gmap :=
  match g with
  | [] => acc
  | l :: t => gm_build_from t (Pos.succ i) (PositiveMap.add i l acc)
  end.
Definition gm_build (g : graph) : gmap := gm_build_from g 1%positive (PositiveMap.empty _).
Definition gm_out (pm : gmap) (u : N) : list N :=
  match PositiveMap.find (N.succ_pos u) pm with Some l => l | None => [] end.

Lemma gm_build_from_find : forall g i acc p,
  PositiveMap.find p (gm_build_from g i acc) =
  if (p <? i)%positive then PositiveMap.find p acc
  else match nth_error g (Pos.to_nat p - Pos.to_nat i) with
       | Some l => Some l
       | None => PositiveMap.find p acc
       end.
Proof.
  induction g as [|l t IH]; intros i acc p; simpl.
  - destruct (p <? i)%positive; auto. destruct (Pos.to_nat p - Pos.to_nat i)%nat; auto.
  - rewrite IH. destruct (Pos.ltb_spec p (Pos.succ i)) as [H1|H1]; destruct (Pos.ltb_spec p i) as [H2|H2]; try lia.
    + rewrite PositiveMap.gso by lia. reflexivity.
    + assert (p = i) by lia. subst p. rewrite PositiveMap.gss. rewrite Nat.sub_diag. reflexivity.
    + replace (Pos.to_nat p - Pos.to_nat i)%nat with (S (Pos.to_nat p - Pos.to_nat (Pos.succ i)))%nat by lia.
      simpl. rewrite PositiveMap.gso by lia. reflexivity.
Qed.

Lemma gm_out_build : forall g u, gm_out (gm_build g) u = g_out g u.
Proof.
  intros g u. unfold gm_out, gm_build, g_out. rewrite gm_build_from_find.
  assert (H : (N.succ_pos u <? 1)%positive = false) by (apply Pos.ltb_ge; lia).
  rewrite H. rewrite PositiveMap.gempty.
  replace (Pos.to_nat (N.succ_pos u) - Pos.to_nat 1)%nat with (N.to_nat u).
  2:{ destruct u; simpl; lia. }
  destruct (nth_error g (N.to_nat u)) eqn:E.
  - symmetry. apply nth_error_nth. exact E.
  - symmetry. apply nth_overflow. apply nth_error_None. exact E.
Qed.

Lemma g_wfb_spec : forall g, g_wfb g = true -> g_wf g.
Proof.
  intros g H u v Hin. unfold g_wfb in H. rewrite forallb_forall in H.
  unfold g_out in Hin.
  destruct (nth_error g (N.to_nat u)) eqn:E.
  - rewrite (nth_error_nth _ _ _ E) in Hin. apply nth_error_In in E.
    specialize (H _ E). rewrite forallb_forall in H. specialize (H _ Hin). apply N.ltb_lt in H. exact H.
  - rewrite nth_overflow in Hin by (apply nth_error_None; exact E). destruct Hin.
Qed.

(* Base/GCReach.v — verified reachability closure over an out-edge function.
   [reach out fuel r] is a worklist closure with a trie as the seen-set; it answers
   [None] only when the fuel runs out, which [reach_fuel_enough] excludes for
   fuel >= nodes + edges + 2.   In v (reach ...) <-> path out r v  is [reach_spec]. *)
From Coq Require Import List NArith ZArith FMapPositive Lia Bool.
From MM Require Import Base.GCGraph.
Import ListNotations.

Definition nset := PositiveMap.t unit.
Definition ns_empty : nset := PositiveMap.empty unit.
Definition ns_mem (u : N) (s : nset) : bool :=
  match PositiveMap.find (N.succ_pos u) s with Some _ => true | None => false end.
Definition ns_add (u : N) (s : nset) : nset := PositiveMap.add (N.succ_pos u) tt s.

Section Reach.
  Variable out : N -> list N.

  Fixpoint reach_loop (fuel : nat) (work : list N) (seen : nset) : option nset :=
    match work with
    | [] => Some seen
    | u :: w =>
        match fuel with
        | O => None
        | S f => if ns_mem u seen then reach_loop f w seen
                 else reach_loop f (out u ++ w) (ns_add u seen)
        end
    end.

  Definition reach (fuel : nat) (r : N) : option nset := reach_loop fuel [r] ns_empty.

  (* number of edges leaving the nodes 0..n-1 *)
  Definition edge_count (n : N) : nat := list_sum (map (fun u => length (out u)) (nodes_upto n)).
  Definition reach_fuel (n : N) : nat := S (S (N.to_nat n + edge_count n)).
End Reach.

(* ---- the seen-set ---- *)
Lemma succ_pos_inj : forall u v, N.succ_pos u = N.succ_pos v -> u = v.
Proof.
  intros u v H. pose proof (N.succ_pos_spec u) as Hu. pose proof (N.succ_pos_spec v) as Hv.
  rewrite H in Hu. lia.
Qed.

Lemma ns_mem_empty : forall v, ns_mem v ns_empty = false.
Proof. intros v. unfold ns_mem, ns_empty. rewrite PositiveMap.gempty. reflexivity. Qed.

Lemma ns_mem_add : forall u v s, ns_mem v (ns_add u s) = (v =? u)%N || ns_mem v s.
Proof.
  intros u v s. unfold ns_mem, ns_add. destruct (N.eqb_spec v u) as [E|E].
  - subst v. rewrite PositiveMap.gss. reflexivity.
  - rewrite PositiveMap.gso. reflexivity.
    intros H. apply E. apply succ_pos_inj. exact H.
Qed.

Lemma ns_mem_add_true : forall u v s, ns_mem v (ns_add u s) = true <-> v = u \/ ns_mem v s = true.
Proof.
  intros u v s. rewrite ns_mem_add, orb_true_iff, N.eqb_eq. reflexivity.
Qed.

(* ---- nodes_upto ---- *)
Lemma in_nodes_upto : forall n u, In u (nodes_upto n) <-> (u < n)%N.
Proof.
  intros n u. unfold nodes_upto. rewrite in_map_iff. split.
  - intros [i [Hi Hin]]. apply in_seq in Hin. lia.
  - intros H. exists (N.to_nat u). split. apply N2Nat.id. apply in_seq. lia.
Qed.

Lemma length_nodes_upto : forall n, length (nodes_upto n) = N.to_nat n.
Proof. intros n. unfold nodes_upto. rewrite map_length, seq_length. reflexivity. Qed.

(* ---- partial correctness ---- *)
Section ReachSpec.
  Variable out : N -> list N.

  Lemma closed_path : forall s,
    (forall u v, ns_mem u s = true -> In v (out u) -> ns_mem v s = true) ->
    forall u v, path out u v -> ns_mem u s = true -> ns_mem v s = true.
  Proof.
    intros s Hcl u v Hp. induction Hp as [u|u v w Hin Hp IH]; intros Hu.
    - exact Hu.
    - apply IH. eapply Hcl; eauto.
  Qed.

  Lemma reach_loop_spec : forall r fuel work seen s,
    (forall x, ns_mem x seen = true -> path out r x) ->
    (forall x, In x work -> path out r x) ->
    (forall u v, ns_mem u seen = true -> In v (out u) -> ns_mem v seen = true \/ In v work) ->
    (ns_mem r seen = true \/ In r work) ->
    reach_loop out fuel work seen = Some s ->
    forall v, ns_mem v s = true <-> path out r v.
  Proof.
    intros r fuel. induction fuel as [|f IH]; intros work seen s I1 I1w I2 I3 HR;
      destruct work as [|u w]; simpl in HR.
    - injection HR as HR. subst s. intros v. split. apply I1.
      intros Hp. eapply closed_path; [| exact Hp |].
      + intros a b Ha Hb. destruct (I2 a b Ha Hb) as [Hs|[]]. exact Hs.
      + destruct I3 as [Hs|[]]. exact Hs.
    - discriminate HR.
    - injection HR as HR. subst s. intros v. split. apply I1.
      intros Hp. eapply closed_path; [| exact Hp |].
      + intros a b Ha Hb. destruct (I2 a b Ha Hb) as [Hs|[]]. exact Hs.
      + destruct I3 as [Hs|[]]. exact Hs.
    - destruct (ns_mem u seen) eqn:Hu.
      + apply (IH w seen s); auto.
        * intros x Hx. apply I1w. right. exact Hx.
        * intros a b Ha Hb. destruct (I2 a b Ha Hb) as [Hs|[Hs|Hs]]; auto.
          subst b. auto.
        * destruct I3 as [Hs|[Hs|Hs]]; auto. subst u. auto.
      + apply (IH (out u ++ w) (ns_add u seen) s); auto.
        * intros x Hx. apply ns_mem_add_true in Hx. destruct Hx as [Hx|Hx].
          subst x. apply I1w. left. reflexivity. apply I1. exact Hx.
        * intros x Hx. apply in_app_or in Hx. destruct Hx as [Hx|Hx].
          eapply path_snoc; [| exact Hx]. apply I1w. left. reflexivity.
          apply I1w. right. exact Hx.
        * intros a b Ha Hb. apply ns_mem_add_true in Ha. destruct Ha as [Ha|Ha].
          subst a. right. apply in_or_app. left. exact Hb.
          destruct (I2 a b Ha Hb) as [Hs|[Hs|Hs]].
          left. apply ns_mem_add_true. right. exact Hs.
          left. apply ns_mem_add_true. left. symmetry. exact Hs.
          right. apply in_or_app. right. exact Hs.
        * destruct I3 as [Hs|[Hs|Hs]].
          left. apply ns_mem_add_true. right. exact Hs.
          left. apply ns_mem_add_true. left. symmetry. exact Hs.
          right. apply in_or_app. right. exact Hs.
  Qed.

  Theorem reach_spec_sec : forall fuel r s, reach out fuel r = Some s ->
    forall v, ns_mem v s = true <-> path out r v.
  Proof.
    intros fuel r s HR. unfold reach in HR. eapply reach_loop_spec; [| | | | exact HR].
    - intros x Hx. rewrite ns_mem_empty in Hx. discriminate Hx.
    - intros x [Hx|[]]. subst x. constructor.
    - intros u v Hu. rewrite ns_mem_empty in Hu. discriminate Hu.
    - right. left. reflexivity.
  Qed.

  (* ---- termination: the fuel bound ---- *)
  Definition cost (seen : nset) (u : N) : nat :=
    if ns_mem u seen then 0 else S (length (out u)).

  Lemma cost_add_le : forall u seen x, cost (ns_add u seen) x <= cost seen x.
  Proof.
    intros u seen x. unfold cost. rewrite ns_mem_add.
    destruct (x =? u)%N; destruct (ns_mem x seen); simpl; lia.
  Qed.

  Lemma sum_add_le : forall u seen l,
    list_sum (map (cost (ns_add u seen)) l) <= list_sum (map (cost seen) l).
  Proof.
    intros u seen l. induction l as [|a l IH]; simpl. lia.
    pose proof (cost_add_le u seen a). lia.
  Qed.

  Lemma sum_add_lt : forall u seen l, ns_mem u seen = false -> In u l ->
    list_sum (map (cost (ns_add u seen)) l) + S (length (out u)) <= list_sum (map (cost seen) l).
  Proof.
    intros u seen l Hu. induction l as [|a l IH]; simpl; intros Hin. destruct Hin.
    destruct Hin as [Ha|Hin].
    - subst a. pose proof (sum_add_le u seen l) as Hle.
      unfold cost at 1. rewrite ns_mem_add, N.eqb_refl. simpl.
      unfold cost at 2. rewrite Hu. lia.
    - pose proof (cost_add_le u seen a). specialize (IH Hin). lia.
  Qed.

  Lemma reach_loop_fuel : forall n, out_wf out n -> forall fuel work seen,
    (forall x, In x work -> (x < n)%N) ->
    length work + list_sum (map (cost seen) (nodes_upto n)) < fuel ->
    exists s, reach_loop out fuel work seen = Some s.
  Proof.
    intros n Hwf fuel. induction fuel as [|f IH]; intros work seen Hw Hphi. lia.
    destruct work as [|u w]; simpl. eauto.
    simpl in Hphi. destruct (ns_mem u seen) eqn:Hu.
    - apply IH. intros x Hx. apply Hw. right. exact Hx. lia.
    - apply IH.
      + intros x Hx. apply in_app_or in Hx. destruct Hx as [Hx|Hx].
        eapply Hwf. exact Hx. apply Hw. right. exact Hx.
      + rewrite app_length.
        assert (Hin : In u (nodes_upto n)). { apply in_nodes_upto. apply Hw. left. reflexivity. }
        pose proof (sum_add_lt u seen (nodes_upto n) Hu Hin). lia.
  Qed.

  Lemma sum_S : forall (f : N -> nat) l,
    list_sum (map (fun u => S (f u)) l) = length l + list_sum (map f l).
  Proof. intros f l. induction l as [|a l IH]; simpl. reflexivity. rewrite IH. lia. Qed.

  Theorem reach_fuel_enough_sec : forall n r fuel, out_wf out n -> (r < n)%N ->
    (reach_fuel out n <= fuel)%nat -> exists s, reach out fuel r = Some s.
  Proof.
    intros n r fuel Hwf Hr Hf. unfold reach. apply (reach_loop_fuel n Hwf).
    - intros x [Hx|[]]. subst x. exact Hr.
    - assert (E : map (cost ns_empty) (nodes_upto n) = map (fun u => S (length (out u))) (nodes_upto n)).
      { apply map_ext. intros a. unfold cost. rewrite ns_mem_empty. reflexivity. }
      rewrite E, sum_S, length_nodes_upto. unfold reach_fuel, edge_count in Hf. simpl. lia.
  Qed.
End ReachSpec.

Theorem reach_spec : forall out fuel r s, reach out fuel r = Some s ->
  forall v, ns_mem v s = true <-> path out r v.
Proof. exact reach_spec_sec. Qed.

Theorem reach_fuel_enough : forall out n r fuel, out_wf out n -> (r < n)%N ->
  (reach_fuel out n <= fuel)%nat -> exists s, reach out fuel r = Some s.
Proof. exact reach_fuel_enough_sec. Qed.

Corollary reach_complete_set : forall out n r fuel, out_wf out n -> (r < n)%N ->
  (reach_fuel out n <= fuel)%nat ->
  exists s, reach out fuel r = Some s /\ forall v, ns_mem v s = true <-> path out r v.
Proof.
  intros out n r fuel Hwf Hr Hf. destruct (reach_fuel_enough out n r fuel Hwf Hr Hf) as [s Hs].
  exists s. split. exact Hs. eapply reach_spec. exact Hs.
Qed.

(* ---- extensionality, edge counts, ranges ---- *)
Lemma reach_loop_ext : forall out1 out2, (forall u, out1 u = out2 u) ->
  forall fuel work seen, reach_loop out1 fuel work seen = reach_loop out2 fuel work seen.
Proof.
  intros out1 out2 E fuel. induction fuel as [|f IH]; intros work seen; destruct work as [|u w]; simpl; auto.
  rewrite E. rewrite !IH. reflexivity.
Qed.

Lemma reach_ext : forall out1 out2, (forall u, out1 u = out2 u) ->
  forall fuel r, reach out1 fuel r = reach out2 fuel r.
Proof. intros out1 out2 E fuel r. unfold reach. apply reach_loop_ext. exact E. Qed.

Lemma edge_count_ext : forall out1 out2 n, (forall u, out1 u = out2 u) ->
  edge_count out1 n = edge_count out2 n.
Proof.
  intros out1 out2 n E. unfold edge_count. f_equal. apply map_ext. intros a. rewrite E. reflexivity.
Qed.

Lemma map_nth_seq : forall (A : Type) (d : A) (l : list A),
  map (fun i => nth i l d) (seq 0 (length l)) = l.
Proof.
  intros A d l. induction l as [|a l IH]; simpl. reflexivity.
  f_equal. rewrite <- seq_shift, map_map. exact IH.
Qed.

Lemma length_concat_sum : forall (A : Type) (g : list (list A)),
  length (concat g) = list_sum (map (@length A) g).
Proof.
  intros A g. induction g as [|l g IH]; simpl. reflexivity. rewrite app_length, IH. reflexivity.
Qed.

Lemma edge_count_graph : forall g, edge_count (g_out g) (g_n g) = length (concat g).
Proof.
  intros g. unfold edge_count, nodes_upto, g_n, g_out. rewrite Nat2N.id, map_map.
  rewrite length_concat_sum.
  pose proof (map_nth_seq (list N) [] g) as Hg.
  apply (f_equal (map (@length N))) in Hg. rewrite map_map in Hg. rewrite <- Hg.
  f_equal. apply map_ext. intros i. rewrite Nat2N.id. reflexivity.
Qed.

Lemma path_in_range : forall out n, out_wf out n ->
  forall u v, path out u v -> (u < n)%N -> (v < n)%N.
Proof.
  intros out n Hwf u v Hp. induction Hp as [u|u v w Hin Hp IH]; intros Hu. exact Hu.
  apply IH. eapply Hwf. exact Hin.
Qed.

Print Assumptions reach_spec.
Print Assumptions reach_fuel_enough.
Print Assumptions edge_count_graph.

(* Base/GDGraph.v — a small graph library for the dominance property (C19, group gD).
   Graphs are adjacency lists [list (list nat)]: node i has successors [nth i g []]
   (with multiplicity, in order: parallel edges and self-loops are representable).
   Contents: walks, a reachability closure [reach] with its specification
   [In v (reach g r) <-> path g r v], and node deletion [del]. *)
From Coq Require Import List Arith Bool Lia PeanoNat.
Import ListNotations.

Definition graph := list (list nat).
Definition succs (g : graph) (u : nat) : list nat := nth u g [].
Definition memb (x : nat) (l : list nat) : bool := existsb (Nat.eqb x) l.

(* keep the first occurrence of each element *)
Fixpoint dedup (seen : list nat) (l : list nat) : list nat :=
  match l with
  | [] => []
  | x :: t => if memb x seen then dedup seen t else x :: dedup (x :: seen) t
  end.

(* nodes first reached from the frontier [fr] that are not yet in [seen] *)
Definition fresh (g : graph) (seen fr : list nat) : list nat := dedup seen (flat_map (succs g) fr).

(* breadth-first closure: [seen] grows by the new successors of the last frontier *)
Fixpoint close (fuel : nat) (g : graph) (seen fr : list nat) : list nat :=
  match fuel with
  | O => seen
  | S f => match fresh g seen fr with
           | [] => seen
           | nw => close f g (seen ++ nw) nw
           end
  end.

(* every node that a closure can ever contain is the root or the target of an edge, so
   [S (number of edges)] rounds always suffice (proved below: reach_spec) *)
Definition reach (g : graph) (r : nat) : list nat := close (S (length (concat g))) g [r] [r].

(* g − a: node a keeps its number but loses all its edges, in and out *)
Fixpoint del_from (i a : nat) (g : graph) : graph :=
  match g with
  | [] => []
  | l :: t => (if i =? a then [] else filter (fun v => negb (v =? a)) l) :: del_from (S i) a t
  end.
Definition del (g : graph) (a : nat) : graph := del_from 0 a g.

(* walk g u l v: l lists the nodes visited after u, ending in v; the nodes on the walk are u :: l *)
Inductive walk (g : graph) : nat -> list nat -> nat -> Prop :=
| walk_nil : forall u, walk g u [] u
| walk_cons : forall u w l v, In w (succs g u) -> walk g w l v -> walk g u (w :: l) v.

Definition path (g : graph) (u v : nat) : Prop := exists l, walk g u l v.

(* well-formed: every edge target is a node *)
Definition wf (g : graph) : Prop := forall u v, In v (succs g u) -> v < length g.
Definition wfb (g : graph) : bool := forallb (forallb (fun v => v <? length g)) g.

(* ------------------------------------------------------------------ proofs *)

Lemma memb_In : forall x l, memb x l = true <-> In x l.
Proof.
  intros x l. unfold memb. rewrite existsb_exists. split.
  - intros [y [Hy He]]. apply Nat.eqb_eq in He. subst. exact Hy.
  - intros H. exists x. split; [exact H | apply Nat.eqb_refl].
Qed.

Lemma memb_false : forall x l, memb x l = false <-> ~ In x l.
Proof.
  intros x l. rewrite <- memb_In. destruct (memb x l); split; intros; congruence.
Qed.

Lemma succs_in_concat : forall g u v, In v (succs g u) -> In v (concat g).
Proof.
  intros g u v H. unfold succs in H.
  destruct (Nat.lt_ge_cases u (length g)) as [Hlt | Hge].
  - apply in_concat. exists (nth u g []). split; [apply nth_In; exact Hlt | exact H].
  - rewrite nth_overflow in H by exact Hge. destruct H.
Qed.

Lemma succs_lt : forall g u v, In v (succs g u) -> u < length g.
Proof.
  intros g u v H. unfold succs in H.
  destruct (Nat.lt_ge_cases u (length g)) as [Hlt | Hge]; [exact Hlt|].
  rewrite nth_overflow in H by exact Hge. destruct H.
Qed.

Lemma wfb_wf : forall g, wfb g = true <-> wf g.
Proof.
  intros g. unfold wfb, wf. rewrite forallb_forall. split.
  - intros H u v Hin. pose proof (succs_lt _ _ _ Hin) as Hu.
    specialize (H (nth u g []) (nth_In _ _ Hu)). rewrite forallb_forall in H.
    apply Nat.ltb_lt. apply H. exact Hin.
  - intros H l Hl. apply forallb_forall. intros v Hv. apply Nat.ltb_lt.
    destruct (In_nth _ _ [] Hl) as [u [Hu He]]. apply (H u). unfold succs. rewrite He. exact Hv.
Qed.

(* dedup *)
Lemma dedup_In : forall l seen x, In x (dedup seen l) <-> In x l /\ ~ In x seen.
Proof.
  induction l as [|y t IH]; intros seen x; simpl.
  - tauto.
  - destruct (memb y seen) eqn:E.
    + rewrite IH. apply memb_In in E. split.
      * intros [H1 H2]. tauto.
      * intros [[H1 | H1] H2]; [subst; contradiction | tauto].
    + apply memb_false in E. simpl. rewrite IH. simpl. split.
      * intros [H | [H1 H2]]; [subst; tauto | tauto].
      * intros [[H1 | H1] H2]; [tauto|]. destruct (Nat.eq_dec y x); [tauto|]. right. tauto.
Qed.

Lemma dedup_NoDup : forall l seen, NoDup (dedup seen l).
Proof.
  induction l as [|y t IH]; intros seen; simpl.
  - constructor.
  - destruct (memb y seen) eqn:E; [apply IH|].
    constructor; [|apply IH]. rewrite dedup_In. simpl. tauto.
Qed.

Lemma fresh_In : forall g seen fr x,
  In x (fresh g seen fr) <-> (exists u, In u fr /\ In x (succs g u)) /\ ~ In x seen.
Proof.
  intros. unfold fresh. rewrite dedup_In, in_flat_map. tauto.
Qed.

(* walks *)
Lemma walk_app : forall g u l1 w l2 v, walk g u l1 w -> walk g w l2 v -> walk g u (l1 ++ l2) v.
Proof.
  intros g u l1 w l2 v H1 H2. induction H1; simpl; [exact H2|].
  constructor; [assumption | apply IHwalk; exact H2].
Qed.

Lemma walk_snoc : forall g u l p b, walk g u l p -> In b (succs g p) -> walk g u (l ++ [b]) b.
Proof.
  intros. eapply walk_app; [eassumption|]. constructor; [assumption | constructor].
Qed.

(* inversion at the end *)
Lemma walk_inv_end : forall g u l v, walk g u l v ->
  (l = [] /\ u = v) \/ exists l' p, l = l' ++ [v] /\ walk g u l' p /\ In v (succs g p).
Proof.
  intros g u l v H. induction H.
  - left. split; reflexivity.
  - right. destruct IHwalk as [[Hl He] | [l' [p [Hl [Hw Hin]]]]].
    + subst. exists [], u. simpl. repeat split; [constructor | assumption].
    + subst. exists (w :: l'), p. simpl. repeat split; [constructor; assumption | assumption].
Qed.

(* splitting at a node on the walk *)
Lemma walk_split : forall g u l v a, walk g u l v -> In a (u :: l) ->
  exists l1 l2, l = l1 ++ l2 /\ walk g u l1 a /\ walk g a l2 v.
Proof.
  intros g u l v a H. induction H; intros Hin.
  - destruct Hin as [He | []]. subst. exists [], []. repeat split; constructor.
  - destruct Hin as [He | Hin].
    + subst. exists [], (w :: l). repeat split; [constructor | constructor; assumption].
    + destruct (IHwalk Hin) as [l1 [l2 [Hl [H1 H2]]]]. subst.
      exists (w :: l1), l2. repeat split; [constructor; assumption | assumption].
Qed.

(* snoc-induction principle for walks from a fixed start *)
Lemma walk_ind_end : forall g u (P : list nat -> nat -> Prop),
  P [] u ->
  (forall l p b, walk g u l p -> P l p -> In b (succs g p) -> P (l ++ [b]) b) ->
  forall l v, walk g u l v -> P l v.
Proof.
  intros g u P H0 Hs l. remember (length l) as n eqn:Hn. revert l Hn.
  induction n as [|n IH]; intros l Hn v Hw.
  - destruct l; [|discriminate]. inversion Hw; subst. exact H0.
  - destruct (walk_inv_end _ _ _ _ Hw) as [[Hl He] | [l' [p [Hl [Hw' Hin]]]]].
    + subst. discriminate.
    + subst. rewrite app_length in Hn. simpl in Hn.
      apply Hs with (p := p); [assumption | apply IH; [lia | assumption] | assumption].
Qed.

Lemma path_refl : forall g u, path g u u.
Proof. intros. exists []. constructor. Qed.

Lemma path_step : forall g u p b, path g u p -> In b (succs g p) -> path g u b.
Proof. intros g u p b [l H] Hin. exists (l ++ [b]). eapply walk_snoc; eassumption. Qed.

Lemma path_trans : forall g u w v, path g u w -> path g w v -> path g u v.
Proof. intros g u w v [l1 H1] [l2 H2]. exists (l1 ++ l2). eapply walk_app; eassumption. Qed.

(* closure *)
Definition closed (g : graph) (S : list nat) : Prop := forall u v, In u S -> In v (succs g u) -> In v S.

Lemma closed_walk : forall g S u l v, closed g S -> walk g u l v -> In u S -> In v S /\ incl l S.
Proof.
  intros g S u l v Hc H. induction H; intros Hu.
  - split; [exact Hu | intros x []].
  - assert (Hw : In w S) by (eapply Hc; eassumption).
    destruct (IHwalk Hw) as [Hv Hl]. split; [exact Hv|].
    intros x [Hx | Hx]; [subst; exact Hw | apply Hl; exact Hx].
Qed.

Lemma close_incl : forall fuel g seen fr, incl seen (close fuel g seen fr).
Proof.
  induction fuel as [|f IH]; intros g seen fr; simpl; [apply incl_refl|].
  destruct (fresh g seen fr) eqn:E; [apply incl_refl|].
  intros x Hx. apply IH. apply in_or_app. left. exact Hx.
Qed.

Lemma close_sound : forall fuel g r seen fr,
  (forall x, In x seen -> path g r x) -> incl fr seen ->
  forall x, In x (close fuel g seen fr) -> path g r x.
Proof.
  induction fuel as [|f IH]; intros g r seen fr Hs Hfr x Hx; simpl in Hx; [apply Hs; exact Hx|].
  destruct (fresh g seen fr) eqn:E; [apply Hs; exact Hx|].
  rewrite <- E in Hx. eapply IH; [| |exact Hx].
  - intros y Hy. apply in_app_or in Hy. destruct Hy as [Hy | Hy]; [apply Hs; exact Hy|].
    apply fresh_In in Hy. destruct Hy as [[u [Hu Hin]] _].
    eapply path_step; [apply Hs; apply Hfr; exact Hu | exact Hin].
  - intros y Hy. apply in_or_app. right. exact Hy.
Qed.

Lemma NoDup_app_disj : forall (l1 l2 : list nat), NoDup l1 -> NoDup l2 ->
  (forall x, In x l1 -> In x l2 -> False) -> NoDup (l1 ++ l2).
Proof.
  induction l1 as [|a t IH]; intros l2 H1 H2 Hd; simpl; [exact H2|].
  inversion H1; subst. constructor.
  - intros Hin. apply in_app_or in Hin. destruct Hin as [Hin | Hin]; [contradiction|].
    apply (Hd a); [left; reflexivity | exact Hin].
  - apply IH; [assumption | assumption |]. intros x Hx Hx'. apply (Hd x); [right; exact Hx | exact Hx'].
Qed.

Lemma close_closed : forall fuel g U seen fr,
  NoDup seen -> incl seen U -> (forall x, In x (concat g) -> In x U) ->
  length U < fuel + length seen ->
  incl fr seen ->
  (forall u v, In u seen -> In v (succs g u) -> In u fr \/ In v seen) ->
  closed g (close fuel g seen fr).
Proof.
  induction fuel as [|f IH]; intros g U seen fr Hnd Hincl HU Hlen Hfr Hinv.
  - exfalso. pose proof (NoDup_incl_length Hnd Hincl). simpl in Hlen. lia.
  - simpl. destruct (fresh g seen fr) as [|n0 nw] eqn:E.
    + intros u v Hu Hv. destruct (Hinv u v Hu Hv) as [Hf | Hs]; [|exact Hs].
      destruct (in_dec Nat.eq_dec v seen) as [Hin | Hnin]; [exact Hin|].
      assert (In v (fresh g seen fr)) by (apply fresh_In; split; [exists u; split; assumption | exact Hnin]).
      rewrite E in H. destruct H.
    + rewrite <- E. assert (Hnew : forall x, In x (fresh g seen fr) -> ~ In x seen /\ In x (concat g)).
      { intros x Hx. apply fresh_In in Hx. destruct Hx as [[u [Hu Hin]] Hn]. split; [exact Hn|].
        eapply succs_in_concat; exact Hin. }
      apply IH with (U := U).
      * apply NoDup_app_disj; [exact Hnd | apply dedup_NoDup |].
        intros x Hx Hx'. apply (proj1 (Hnew x Hx')). exact Hx.
      * intros x Hx. apply in_app_or in Hx. destruct Hx as [Hx | Hx]; [apply Hincl; exact Hx|].
        apply HU. apply (Hnew x Hx).
      * exact HU.
      * rewrite app_length. rewrite E. simpl. simpl in Hlen. lia.
      * intros x Hx. apply in_or_app. right. exact Hx.
      * intros u v Hu Hv. apply in_app_or in Hu. destruct Hu as [Hu | Hu]; [|left; exact Hu].
        right. destruct (in_dec Nat.eq_dec v seen) as [Hin | Hnin]; [apply in_or_app; left; exact Hin|].
        destruct (Hinv u v Hu Hv) as [Hf | Hs]; [|contradiction].
        apply in_or_app. right. apply fresh_In. split; [exists u; split; assumption | exact Hnin].
Qed.

(* the specification of [reach] *)
Theorem reach_spec : forall g r v, In v (reach g r) <-> path g r v.
Proof.
  intros g r v. unfold reach. split.
  - apply close_sound.
    + intros x [Hx | []]. subst. apply path_refl.
    + apply incl_refl.
  - intros [l Hw].
    assert (Hc : closed g (close (S (length (concat g))) g [r] [r])).
    { apply close_closed with (U := r :: concat g).
      - constructor; [intros [] | constructor].
      - intros x [Hx | []]. left. exact Hx.
      - intros x Hx. right. exact Hx.
      - simpl. lia.
      - apply incl_refl.
      - intros u w Hu _. left. exact Hu. }
    refine (proj1 (closed_walk _ _ _ _ _ Hc Hw _)). apply close_incl. left. reflexivity.
Qed.

Lemma reach_root : forall g r, In r (reach g r).
Proof. intros. apply reach_spec. apply path_refl. Qed.

(* deletion *)
Lemma nth_del_from : forall g i a u,
  nth u (del_from i a g) [] = if i + u =? a then [] else filter (fun v => negb (v =? a)) (nth u g []).
Proof.
  induction g as [|l t IH]; intros i a u; simpl.
  - destruct u; destruct (_ =? a); reflexivity.
  - destruct u.
    + rewrite Nat.add_0_r. reflexivity.
    + rewrite IH. replace (S i + u) with (i + S u) by lia. reflexivity.
Qed.

Lemma succs_del : forall g a u,
  succs (del g a) u = if u =? a then [] else filter (fun v => negb (v =? a)) (succs g u).
Proof. intros. unfold succs, del. rewrite nth_del_from. reflexivity. Qed.

Lemma In_succs_del : forall g a u v, In v (succs (del g a) u) <-> In v (succs g u) /\ u <> a /\ v <> a.
Proof.
  intros. rewrite succs_del. destruct (u =? a) eqn:E.
  - apply Nat.eqb_eq in E. simpl. tauto.
  - apply Nat.eqb_neq in E. rewrite filter_In, negb_true_iff, Nat.eqb_neq. tauto.
Qed.

Lemma del_length : forall g a, length (del g a) = length g.
Proof. intros g a. unfold del. generalize 0. induction g; intros; simpl; [reflexivity | f_equal; apply IHg]. Qed.

(* the walks of g − a are the walks of g that do not pass through a (the trivial walk at a remains) *)
Lemma walk_del : forall g a u l v,
  walk (del g a) u l v <-> walk g u l v /\ ~ In a l /\ (l = [] \/ u <> a).
Proof.
  intros g a u l v. split.
  - intros H. induction H.
    + split; [constructor | split; [intros [] | left; reflexivity]].
    + apply In_succs_del in H. destruct H as [Hin [Hu Hw]].
      destruct IHwalk as [Hwk [Hn _]]. split; [constructor; assumption|].
      split; [|right; exact Hu]. intros [He | Hx]; [congruence | contradiction].
  - intros [H [Hn Hs]]. induction H.
    + constructor.
    + assert (Hu : u <> a) by (destruct Hs as [Hs | Hs]; [discriminate | exact Hs]).
      assert (Hw : w <> a) by (intros He; apply Hn; left; exact He).
      constructor.
      * apply In_succs_del. tauto.
      * apply IHwalk; [intros Hx; apply Hn; right; exact Hx | right; exact Hw].
Qed.

(* the closure never lists a node twice *)
Lemma close_NoDup : forall fuel g seen fr, NoDup seen -> NoDup (close fuel g seen fr).
Proof.
  induction fuel as [|f IH]; intros g seen fr H; simpl; [exact H|].
  destruct (fresh g seen fr) eqn:E; [exact H|]. rewrite <- E. apply IH.
  apply NoDup_app_disj; [exact H | apply dedup_NoDup |].
  intros x Hx Hx'. apply fresh_In in Hx'. apply (proj2 Hx'). exact Hx.
Qed.

Lemma reach_NoDup : forall g r, NoDup (reach g r).
Proof. intros. unfold reach. apply close_NoDup. constructor; [intros [] | constructor]. Qed.

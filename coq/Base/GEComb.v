(* Base/GEComb.v (group gE) — small combinatorial toolkit over nat/Z used by the
   Mann-Whitney development (C01-C03): Pascal binomial [C], finite sums [zsum],
   list sums [lsum].  Definitions are executable; lemmas are axiom-free. *)
From Coq Require Import List ZArith Lia Arith Bool.
Import ListNotations.
Open Scope Z_scope.

(* Pascal's triangle; C n k = 0 for k > n.  (Specification-level: exponential to run;
   the executable binomial is Model.GEChoose.choose, proved equal.) *)
Fixpoint C (n k : nat) : Z :=
  match n, k with
  | _, O => 1
  | O, S _ => 0
  | S n', S k' => C n' k' + C n' (S k')
  end.

Fixpoint lsum (l : list nat) : nat := match l with [] => 0%nat | a :: t => (a + lsum t)%nat end.
Fixpoint zsum {A} (f : A -> Z) (l : list A) : Z :=
  match l with [] => 0 | a :: t => f a + zsum f t end.

Lemma zsum_app {A} (f : A -> Z) l1 l2 : zsum f (l1 ++ l2) = zsum f l1 + zsum f l2.
Proof. induction l1 as [|a l IH]; cbn; [reflexivity|]. rewrite IH. lia. Qed.
Lemma zsum_map {A B} (f : B -> Z) (g : A -> B) l : zsum f (map g l) = zsum (fun a => f (g a)) l.
Proof. induction l as [|a l IH]; cbn; [reflexivity|]. now rewrite IH. Qed.
Lemma zsum_flat_map {A B} (f : B -> Z) (g : A -> list B) l :
  zsum f (flat_map g l) = zsum (fun a => zsum f (g a)) l.
Proof. induction l as [|a l IH]; cbn; [reflexivity|]. now rewrite zsum_app, IH. Qed.
Lemma zsum_ext_in {A} (f g : A -> Z) l : (forall a, In a l -> f a = g a) -> zsum f l = zsum g l.
Proof. induction l as [|a l IH]; cbn; intros H; [reflexivity|]. rewrite H, IH; auto. Qed.
Lemma zsum_ext {A} (f g : A -> Z) l : (forall a, f a = g a) -> zsum f l = zsum g l.
Proof. intros H. apply zsum_ext_in. auto. Qed.
Lemma zsum_scale {A} c (f : A -> Z) l : zsum (fun a => c * f a) l = c * zsum f l.
Proof. induction l as [|a l IH]; cbn; [lia|]. rewrite IH. lia. Qed.
Lemma zsum_zero {A} (l : list A) : zsum (fun _ => 0) l = 0.
Proof. induction l; cbn; lia. Qed.
Lemma zsum_zero_in {A} (f : A -> Z) l : (forall a, In a l -> f a = 0) -> zsum f l = 0.
Proof. intros H. rewrite (zsum_ext_in f (fun _ => 0)); auto using zsum_zero. Qed.
Lemma zsum_plus {A} (f g : A -> Z) l : zsum (fun a => f a + g a) l = zsum f l + zsum g l.
Proof. induction l as [|a l IH]; cbn; [reflexivity|]. rewrite IH. lia. Qed.
Lemma zsum_nonneg {A} (f : A -> Z) l : (forall a, In a l -> 0 <= f a) -> 0 <= zsum f l.
Proof. induction l as [|a l IH]; cbn; intros H; [lia|]. specialize (H a (or_introl eq_refl)) as H1.
  assert (0 <= zsum f l) by (apply IH; intros; apply H; auto). lia. Qed.
Lemma zsum_le {A} (f g : A -> Z) l : (forall a, In a l -> f a <= g a) -> zsum f l <= zsum g l.
Proof. induction l as [|a l IH]; cbn; intros H; [lia|]. specialize (H a (or_introl eq_refl)) as H1.
  assert (zsum f l <= zsum g l) by (apply IH; intros; apply H; auto). lia. Qed.
Lemma zsum_swap {A B} (f : A -> B -> Z) la lb :
  zsum (fun a => zsum (fun b => f a b) lb) la = zsum (fun b => zsum (fun a => f a b) la) lb.
Proof.
  induction la as [|a la IH]; cbn; [now rewrite zsum_zero|]. rewrite IH, <- zsum_plus. reflexivity.
Qed.
Lemma zsum_const {A} c (l : list A) : zsum (fun _ => c) l = c * Z.of_nat (length l).
Proof. induction l as [|a l IH]; cbn [zsum length]; [lia|]. rewrite IH. lia. Qed.

Lemma zsum_seq_skip (g : nat -> Z) a len : (forall r, (r < a)%nat -> g r = 0) ->
  zsum g (seq 0 len) = zsum g (seq a (len - a)).
Proof.
  intros Hz. destruct (Nat.le_gt_cases a len) as [Hle|Hgt].
  - replace len with (a + (len - a))%nat at 1 by lia. rewrite seq_app, zsum_app. cbn [Nat.add].
    rewrite (zsum_zero_in g); [lia|]. intros r Hr. apply in_seq in Hr. apply Hz. lia.
  - replace (len - a)%nat with 0%nat by lia. cbn. apply zsum_zero_in.
    intros r Hr. apply in_seq in Hr. apply Hz. lia.
Qed.
(* extend a sum over [0,len) to [0,len') when the extra terms vanish *)
Lemma zsum_seq_extend (g : nat -> Z) s len len' : (len <= len')%nat ->
  (forall r, (s + len <= r < s + len')%nat -> g r = 0) ->
  zsum g (seq s len') = zsum g (seq s len).
Proof.
  intros Hle Hz. replace len' with (len + (len' - len))%nat by lia. rewrite seq_app, zsum_app.
  rewrite (zsum_zero_in g (seq (s + len) _)); [lia|]. intros r Hr. apply in_seq in Hr. apply Hz. lia.
Qed.

Lemma C_out n k : (n < k)%nat -> C n k = 0.
Proof. revert k; induction n as [|n IH]; intros [|k] H; cbn; try lia. rewrite !IH by lia. lia. Qed.
Lemma C_n0 n : C n 0 = 1. Proof. destruct n; reflexivity. Qed.
Lemma C_nn n : C n n = 1.
Proof. induction n as [|n IH]; cbn; [reflexivity|]. rewrite IH, C_out by lia. lia. Qed.
Lemma C_nonneg n k : 0 <= C n k.
Proof. revert k; induction n as [|n IH]; intros [|k]; cbn; try lia. specialize (IH k) as H1. specialize (IH (S k)). lia. Qed.
Lemma C_pos n k : (k <= n)%nat -> 0 < C n k.
Proof. revert k; induction n as [|n IH]; intros [|k] H; cbn; try lia.
  assert (0 < C n k) by (apply IH; lia). pose proof (C_nonneg n (S k)). lia. Qed.

(* absorption: (k+1) C(n+1,k+1) = (n+1) C(n,k) *)
Lemma C_absorb n : forall k, Z.of_nat (S k) * C (S n) (S k) = Z.of_nat (S n) * C n k.
Proof.
  induction n as [|n IH]; intros k.
  - destruct k; cbn; lia.
  - destruct k as [|k].
    + change (C (S (S n)) 1) with (C (S n) 0 + C (S n) 1). specialize (IH 0%nat).
      rewrite !C_n0 in *. lia.
    + assert (E1: C (S n) (S k) = C n k + C n (S k)) by reflexivity.
      assert (E2: C (S (S n)) (S (S k)) = C (S n) (S k) + C (S n) (S (S k))) by reflexivity.
      pose proof (IH k) as H1. pose proof (IH (S k)) as H2. rewrite E2.
      rewrite !Nat2Z.inj_succ in *.
      set (X := C (S n) (S k)) in *. set (Y := C (S n) (S (S k))) in *.
      set (A := C n k) in *. set (B := C n (S k)) in *. clearbody X Y A B. subst X. nia.
Qed.

(* Base/GESort.v (group gE) — insertion sort over an arbitrary boolean order, with
   Permutation and sortedness, uniqueness of the sorted arrangement, and commutation
   with order-preserving maps.  Executable; lemmas axiom-free. *)
From Coq Require Import List Bool Permutation Sorted Lia.
Import ListNotations.

Section Sort.
  Context {A : Type} (leb : A -> A -> bool).

  Fixpoint insert (a : A) (l : list A) : list A :=
    match l with
    | [] => [a]
    | b :: l' => if leb a b then a :: l else b :: insert a l'
    end.
  Fixpoint isort (l : list A) : list A :=
    match l with [] => [] | a :: l' => insert a (isort l') end.

  Lemma insert_perm a l : Permutation (a :: l) (insert a l).
  Proof.
    induction l as [|b l IH]; cbn [insert]; [reflexivity|].
    destruct (leb a b); [reflexivity|]. rewrite perm_swap. now apply perm_skip.
  Qed.
  Theorem isort_perm l : Permutation l (isort l).
  Proof. induction l as [|a l IH]; cbn [isort]; [constructor|]. rewrite <- insert_perm. now apply perm_skip. Qed.
  Lemma isort_length l : length (isort l) = length l.
  Proof. symmetry. apply Permutation_length, isort_perm. Qed.

  Definition sorted (l : list A) : Prop := StronglySorted (fun a b => leb a b = true) l.

  Hypothesis leb_total : forall a b, leb a b = true \/ leb b a = true.
  Hypothesis leb_trans : forall a b c, leb a b = true -> leb b c = true -> leb a c = true.

  Lemma insert_sorted a l : sorted l -> sorted (insert a l).
  Proof.
    unfold sorted. induction l as [|b l IH]; intros H; cbn [insert].
    - repeat constructor.
    - inversion H as [|? ? Hs Hf]; subst. destruct (leb a b) eqn:E.
      + constructor; [assumption|]. constructor; [assumption|].
        eapply Forall_impl; [|exact Hf]. intros c Hc. eauto.
      + constructor; [auto|]. destruct (leb_total a b) as [H1|H1]; [congruence|].
        eapply Permutation_Forall; [apply insert_perm|]. constructor; assumption.
  Qed.
  Theorem isort_sorted l : sorted (isort l).
  Proof. induction l as [|a l IH]; cbn [isort]; [constructor|]. now apply insert_sorted. Qed.

  (* with an antisymmetric order the sorted arrangement of a multiset is unique *)
  Hypothesis leb_antisym : forall a b, leb a b = true -> leb b a = true -> a = b.
  Lemma sorted_unique l : forall l', sorted l -> sorted l' -> Permutation l l' -> l = l'.
  Proof.
    unfold sorted. induction l as [|a l IH]; intros l' Hs Hs' Hp.
    - apply Permutation_nil in Hp. now subst.
    - destruct l' as [|a' l']; [apply Permutation_sym, Permutation_nil in Hp; discriminate|].
      inversion Hs as [|? ? Hs1 Hf1]; inversion Hs' as [|? ? Hs2 Hf2]; subst.
      assert (a = a').
      { assert (In a (a' :: l')) as Hin by (eapply Permutation_in; [exact Hp|left; reflexivity]).
        assert (In a' (a :: l)) as Hin' by (eapply Permutation_in; [symmetry; exact Hp|left; reflexivity]).
        destruct Hin as [->|Hin]; [reflexivity|]. destruct Hin' as [->|Hin']; [reflexivity|].
        rewrite Forall_forall in Hf1, Hf2. auto. }
      subst a'. f_equal. apply IH; auto. eapply Permutation_cons_inv; eauto.
  Qed.
  Corollary isort_perm_eq l l' : Permutation l l' -> isort l = isort l'.
  Proof.
    intros H. apply sorted_unique; try apply isort_sorted.
    rewrite <- (isort_perm l), <- (isort_perm l'). exact H.
  Qed.
End Sort.

(* order-preserving maps commute with sorting (no order axioms needed) *)
Lemma insert_map {A B} (lebA : A -> A -> bool) (lebB : B -> B -> bool) (f : A -> B) :
  (forall a b, lebB (f a) (f b) = lebA a b) ->
  forall a l, insert lebB (f a) (map f l) = map f (insert lebA a l).
Proof.
  intros Hf a l. induction l as [|b l IH]; cbn [insert map]; [reflexivity|].
  rewrite Hf. destruct (lebA a b); cbn [map]; [reflexivity|]. now rewrite IH.
Qed.
Lemma isort_map {A B} (lebA : A -> A -> bool) (lebB : B -> B -> bool) (f : A -> B) :
  (forall a b, lebB (f a) (f b) = lebA a b) -> forall l, isort lebB (map f l) = map f (isort lebA l).
Proof.
  intros Hf l. induction l as [|a l IH]; cbn [isort map]; [reflexivity|]. rewrite IH. now apply insert_map.
Qed.

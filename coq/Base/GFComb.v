(* Base/GFComb.v — Pascal's binomial coefficient on nat (specification level) and the
   identities C06/C11 need: symmetry, the two absorption rules, positivity, Vandermonde's
   convolution, the binomial theorem over Q, and the "shift" forms of both that give the
   factorial moments of the binomial and hypergeometric distributions. *)
From MM Require Import Base.Num Base.GFSum.
From Coq Require Import Lqa Lia.
Local Open Scope Z_scope.

Fixpoint binom (n k : nat) : Z :=
  match n with
  | O => match k with O => 1 | S _ => 0 end
  | S n' => match k with O => 1 | S k' => binom n' k' + binom n' k end
  end.

Lemma binom_n_0 : forall n, binom n 0 = 1.
Proof. destruct n; reflexivity. Qed.
Lemma binom_0_S : forall k, binom 0 (S k) = 0.
Proof. reflexivity. Qed.
Lemma binom_pascal : forall n k, binom (S n) (S k) = binom n k + binom n (S k).
Proof. reflexivity. Qed.

Lemma binom_gt : forall n k, (n < k)%nat -> binom n k = 0.
Proof.
  induction n as [|n IH]; intros k H; destruct k as [|k]; try lia; [reflexivity|].
  rewrite binom_pascal, !IH by lia. reflexivity.
Qed.

Lemma binom_nn : forall n, binom n n = 1.
Proof.
  induction n as [|n IH]; [reflexivity|]. rewrite binom_pascal, IH, binom_gt by lia. reflexivity.
Qed.

Lemma binom_nonneg : forall n k, 0 <= binom n k.
Proof.
  induction n as [|n IH]; intros [|k]; simpl; try lia.
  specialize (IH k) as H1. specialize (IH (S k)) as H2. lia.
Qed.

Lemma binom_pos : forall n k, (k <= n)%nat -> 0 < binom n k.
Proof.
  induction n as [|n IH]; intros [|k] H; simpl; try lia.
  specialize (IH k ltac:(lia)). pose proof (binom_nonneg n (S k)). lia.
Qed.

Lemma binom_pos_iff : forall n k, 0 < binom n k <-> (k <= n)%nat.
Proof.
  intros n k; split; [|apply binom_pos].
  intros H. destruct (le_lt_dec k n) as [|L]; [assumption|]. rewrite binom_gt in H by assumption. lia.
Qed.

(* C(n,k+1) (k+1) = C(n,k) (n-k) *)
Lemma binom_succ_mul : forall n k,
  binom n (S k) * Z.of_nat (S k) = binom n k * (Z.of_nat n - Z.of_nat k).
Proof.
  induction n as [|n IH]; intros k.
  - destruct k; simpl; lia.
  - destruct k as [|k].
    + rewrite binom_pascal, !binom_n_0. specialize (IH O). rewrite binom_n_0 in IH. lia.
    + rewrite (binom_pascal n (S k)), (binom_pascal n k).
      pose proof (IH k) as H0. pose proof (IH (S k)) as H1.
      set (A := binom n k) in *. set (B := binom n (S k)) in *. set (C := binom n (S (S k))) in *.
      nia.
Qed.

(* C(n+1,k+1) (k+1) = (n+1) C(n,k) *)
Lemma binom_absorb : forall n k,
  binom (S n) (S k) * Z.of_nat (S k) = Z.of_nat (S n) * binom n k.
Proof.
  intros n k. rewrite binom_pascal. pose proof (binom_succ_mul n k) as H.
  set (A := binom n k) in *. set (B := binom n (S k)) in *. nia.
Qed.

Lemma binom_sym : forall n k, (k <= n)%nat -> binom n k = binom n (n - k).
Proof.
  induction n as [|n IH]; intros k H.
  - replace k with O by lia. reflexivity.
  - destruct k as [|k].
    + rewrite Nat.sub_0_r, binom_nn, binom_n_0. reflexivity.
    + destruct (Nat.eq_dec k n) as [->|Hne].
      * rewrite Nat.sub_diag, binom_nn, binom_n_0. reflexivity.
      * replace (S n - S k)%nat with (S (n - S k)) by lia.
        rewrite !binom_pascal. rewrite (IH k) by lia. rewrite (IH (S k)) by lia.
        assert (E : (n - k)%nat = S (n - S k)) by lia. rewrite E. lia.
Qed.

(* ---------- Vandermonde ---------- *)
Lemma vandermonde : forall a b n,
  Zsum_n (fun k => binom a k * binom b (n - k)) (S n) = binom (a + b) n.
Proof.
  induction a as [|a IH]; intros b n.
  - rewrite Zsum_n_S_l. rewrite Zsum_n_zero by (intros; reflexivity || (simpl; lia)).
    rewrite Nat.sub_0_r. change (binom 0 0) with 1. change (0 + b)%nat with b. lia.
  - destruct n as [|n].
    + cbn [Zsum_n]. rewrite !binom_n_0. lia.
    + rewrite Zsum_n_S_l. rewrite binom_n_0, Nat.sub_0_r.
      rewrite (Zsum_n_ext _ (fun i => binom a i * binom b (n - i) + binom a (S i) * binom b (S n - S i))).
      2:{ intros i Hi. rewrite binom_pascal. simpl Nat.sub. ring. }
      rewrite Zsum_n_plus. rewrite IH.
      pose proof (IH b (S n)) as H. rewrite Zsum_n_S_l in H. rewrite binom_n_0, Nat.sub_0_r in H.
      change (S a + b)%nat with (S (a + b)). rewrite binom_pascal. lia.
Qed.

(* sum_k (k h(k)) C(a+1,k) C(b,n+1-k) = (a+1) sum_i h(i+1) C(a,i) C(b,n-i) *)
Lemma vandermonde_shift : forall (h : nat -> Z) a b n,
  Zsum_n (fun k => Z.of_nat k * h k * (binom (S a) k * binom b (S n - k))) (S (S n)) =
  Z.of_nat (S a) * Zsum_n (fun i => h (S i) * (binom a i * binom b (n - i))) (S n).
Proof.
  intros h a b n. rewrite Zsum_n_S_l. rewrite <- Zsum_n_scal.
  replace (Z.of_nat 0 * h O * (binom (S a) 0 * binom b (S n - 0))) with 0 by (simpl; lia).
  rewrite Z.add_0_l. apply Zsum_n_ext. intros i Hi.
  pose proof (binom_absorb a i) as H. simpl Nat.sub.
  transitivity ((binom (S a) (S i) * Z.of_nat (S i)) * (h (S i) * binom b (n - i))); [ring|].
  rewrite H. ring.
Qed.

(* ---------- binomial theorem over Q ---------- *)
Local Open Scope Q_scope.

Definition bterm (a b : Q) (n k : nat) : Q := inject_Z (binom n k) * qpow a k * qpow b (n - k).

Lemma binomial_theorem : forall a b n, Qsum_n (bterm a b n) (S n) == qpow (a + b) n.
Proof.
  intros a b. induction n as [|n IH].
  - unfold bterm. simpl. ring.
  - rewrite Qsum_n_S_l.
    rewrite (Qsum_n_ext _ (fun i => a * bterm a b n i + inject_Z (binom n (S i)) * qpow a (S i) * qpow b (n - i))).
    2:{ intros i Hi. unfold bterm. rewrite binom_pascal, inject_Z_plus. simpl Nat.sub. simpl qpow. ring. }
    rewrite Qsum_n_plus, Qsum_n_scal, IH.
    (* the second sum: its last term vanishes, the others carry a factor b *)
    simpl Qsum_n at 1.
    rewrite (binom_gt n (S n)) by lia.
    rewrite (Qsum_n_ext (fun i => inject_Z (binom n (S i)) * qpow a (S i) * qpow b (n - i))
                        (fun i => b * bterm a b n (S i))).
    2:{ intros i Hi. unfold bterm. replace (n - i)%nat with (S (n - S i)) by lia. simpl qpow. ring. }
    rewrite Qsum_n_scal.
    assert (E : bterm a b (S n) 0 == b * bterm a b n 0).
    { unfold bterm. rewrite !binom_n_0, !Nat.sub_0_r. simpl qpow. ring. }
    rewrite E.
    pose proof (Qsum_n_S_l (bterm a b n) n) as H. rewrite IH in H.
    simpl qpow. rewrite H. unfold inject_Z at 1. ring.
Qed.

(* sum_k (k h(k)) C(n+1,k) a^k b^(n+1-k) = (n+1) a sum_i h(i+1) C(n,i) a^i b^(n-i) *)
Lemma binomial_shift : forall (h : nat -> Q) a b n,
  Qsum_n (fun k => inject_Z (Z.of_nat k) * h k * bterm a b (S n) k) (S (S n)) ==
  inject_Z (Z.of_nat (S n)) * a * Qsum_n (fun i => h (S i) * bterm a b n i) (S n).
Proof.
  intros h a b n. rewrite Qsum_n_S_l. rewrite <- Qsum_n_scal.
  assert (E : inject_Z (Z.of_nat 0) * h O * bterm a b (S n) 0 == 0) by (simpl; ring).
  rewrite E, Qplus_0_l. apply Qsum_n_ext. intros i Hi. unfold bterm.
  pose proof (binom_absorb n i) as H.
  assert (HQ : inject_Z (binom (S n) (S i)) * inject_Z (Z.of_nat (S i)) == inject_Z (Z.of_nat (S n)) * inject_Z (binom n i)).
  { rewrite <- !inject_Z_mult, H. reflexivity. }
  simpl Nat.sub. simpl qpow.
  transitivity (inject_Z (binom (S n) (S i)) * inject_Z (Z.of_nat (S i)) * (h (S i) * a * qpow a i * qpow b (n - i))); [ring|].
  rewrite HQ. ring.
Qed.

(* ---------- factorial moments of the Vandermonde convolution ---------- *)
Local Open Scope Z_scope.
(* (a+b) sum_k k C(a,k) C(b,n-k) = a n C(a+b,n) *)
Lemma vandermonde_moment1 : forall a b n,
  Zsum_n (fun k => Z.of_nat k * (binom a k * binom b (n - k))) (S n) * Z.of_nat (a + b)
  = Z.of_nat a * Z.of_nat n * binom (a + b) n.
Proof.
  intros a b n. destruct a as [|a].
  { rewrite Zsum_n_zero; [simpl; lia|]. intros [|i] Hi; simpl; lia. }
  destruct n as [|n].
  { cbn [Zsum_n]. simpl Z.of_nat. lia. }
  rewrite (Zsum_n_ext _ (fun k => Z.of_nat k * 1 * (binom (S a) k * binom b (S n - k)))) by (intros; ring).
  rewrite (vandermonde_shift (fun _ => 1)).
  rewrite (Zsum_n_ext _ (fun i => binom a i * binom b (n - i))) by (intros; ring).
  rewrite vandermonde.
  pose proof (binom_absorb (a + b) n) as H. change (S a + b)%nat with (S (a + b)).
  set (X := binom (S (a + b)) (S n)) in *. set (Y := binom (a + b) n) in *.
  transitivity (Z.of_nat (S a) * (Z.of_nat (S (a + b)) * Y)); [ring|]. rewrite <- H. ring.
Qed.

(* (a+b)(a+b-1) sum_k k(k-1) C(a,k) C(b,n-k) = a(a-1) n(n-1) C(a+b,n) *)
Lemma vandermonde_moment2 : forall a b n,
  Zsum_n (fun k => Z.of_nat k * (Z.of_nat k - 1) * (binom a k * binom b (n - k))) (S n)
    * (Z.of_nat (a + b) * (Z.of_nat (a + b) - 1))
  = Z.of_nat a * (Z.of_nat a - 1) * (Z.of_nat n * (Z.of_nat n - 1)) * binom (a + b) n.
Proof.
  intros a b n. destruct a as [|a].
  { rewrite Zsum_n_zero; [simpl; lia|]. intros [|i] Hi; simpl; lia. }
  destruct n as [|n].
  { cbn [Zsum_n]. simpl Z.of_nat. lia. }
  rewrite (vandermonde_shift (fun k => Z.of_nat k - 1)).
  rewrite (Zsum_n_ext _ (fun i => Z.of_nat i * (binom a i * binom b (n - i)))).
  2:{ intros i Hi. rewrite Nat2Z.inj_succ. unfold Z.succ. ring. }
  pose proof (vandermonde_moment1 a b n) as H1.
  pose proof (binom_absorb (a + b) n) as H. change (S a + b)%nat with (S (a + b)).
  set (S1 := Zsum_n (fun i => Z.of_nat i * (binom a i * binom b (n - i))) (S n)) in *.
  set (X := binom (S (a + b)) (S n)) in *. set (Y := binom (a + b) n) in *.
  rewrite !Nat2Z.inj_succ in *. unfold Z.succ in *.
  replace (Z.of_nat (a + b) + 1 - 1) with (Z.of_nat (a + b)) by lia.
  replace (Z.of_nat a + 1 - 1) with (Z.of_nat a) by lia.
  replace (Z.of_nat n + 1 - 1) with (Z.of_nat n) by lia.
  transitivity ((Z.of_nat a + 1) * (S1 * Z.of_nat (a + b)) * (Z.of_nat (a + b) + 1)); [ring|].
  rewrite H1.
  transitivity ((Z.of_nat a + 1) * Z.of_nat a * Z.of_nat n * ((Z.of_nat (a + b) + 1) * Y)); [ring|].
  rewrite <- H. ring.
Qed.

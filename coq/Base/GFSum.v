(* Base/GFSum.v — finite sums indexed by nat over Z and Q, natural powers of a rational.
   Definitions used by the C06/C11 models, followed by the algebra of these sums. *)
From MM Require Import Base.Num.
From Coq Require Import Lqa Lia Morphisms Setoid.

(* ---------- definitions ---------- *)
(* sum_{i<n} f i *)
Fixpoint Zsum_n (f : nat -> Z) (n : nat) : Z :=
  match n with O => 0%Z | S m => (Zsum_n f m + f m)%Z end.
Fixpoint Qsum_n (f : nat -> Q) (n : nat) : Q :=
  match n with O => 0%Q | S m => (Qsum_n f m + f m)%Q end.
(* sum_{lo <= j <= hi} f j  (empty when hi < lo) *)
Definition Zsum_range (f : Z -> Z) (lo hi : Z) : Z :=
  Zsum_n (fun i => f (lo + Z.of_nat i)%Z) (Z.to_nat (hi - lo + 1)).
Definition Qsum_range (f : Z -> Q) (lo hi : Z) : Q :=
  Qsum_n (fun i => f (lo + Z.of_nat i)%Z) (Z.to_nat (hi - lo + 1)).
(* x^n, n a natural number *)
Fixpoint qpow (x : Q) (n : nat) : Q :=
  match n with O => 1%Q | S m => (x * qpow x m)%Q end.

(* ---------- Z sums ---------- *)
Section ZS.
Local Open Scope Z_scope.

Lemma Zsum_n_ext : forall f g n, (forall i, (i < n)%nat -> f i = g i) -> Zsum_n f n = Zsum_n g n.
Proof.
  induction n as [|n IH]; intros H; simpl; [reflexivity|].
  rewrite IH by (intros; apply H; lia). rewrite H by lia. reflexivity.
Qed.

Lemma Zsum_n_zero : forall f n, (forall i, (i < n)%nat -> f i = 0) -> Zsum_n f n = 0.
Proof.
  induction n as [|n IH]; intros H; simpl; [reflexivity|].
  rewrite IH by (intros; apply H; lia). rewrite H by lia. reflexivity.
Qed.

Lemma Zsum_n_S_l : forall f n, Zsum_n f (S n) = f O + Zsum_n (fun i => f (S i)) n.
Proof.
  induction n as [|n IH]; [simpl; lia|].
  change (Zsum_n f (S (S n))) with (Zsum_n f (S n) + f (S n)). rewrite IH. simpl. lia.
Qed.

Lemma Zsum_n_plus : forall f g n, Zsum_n (fun i => f i + g i) n = Zsum_n f n + Zsum_n g n.
Proof. induction n as [|n IH]; simpl; [reflexivity| rewrite IH; lia]. Qed.

Lemma Zsum_n_scal : forall c f n, Zsum_n (fun i => c * f i) n = c * Zsum_n f n.
Proof. induction n as [|n IH]; simpl; [lia| rewrite IH; lia]. Qed.

Lemma Zsum_n_app : forall f n m, Zsum_n f (n + m) = Zsum_n f n + Zsum_n (fun i => f (n + i)%nat) m.
Proof.
  induction m as [|m IH]; simpl.
  - rewrite Nat.add_0_r. lia.
  - rewrite Nat.add_succ_r. simpl. rewrite IH. lia.
Qed.

Lemma Zsum_n_rev : forall n f, Zsum_n f n = Zsum_n (fun i => f (n - 1 - i)%nat) n.
Proof.
  induction n as [|n IH]; intros f; [reflexivity|].
  rewrite Zsum_n_S_l. rewrite (IH (fun i => f (S i))).
  change (Zsum_n (fun i => f (S n - 1 - i)%nat) (S n))
    with (Zsum_n (fun i => f (S n - 1 - i)%nat) n + f (S n - 1 - n)%nat).
  replace (S n - 1 - n)%nat with O by lia.
  rewrite Z.add_comm. f_equal.
  apply Zsum_n_ext. intros i Hi. f_equal. lia.
Qed.

Lemma Zsum_n_nonneg : forall f n, (forall i, (i < n)%nat -> 0 <= f i) -> 0 <= Zsum_n f n.
Proof.
  induction n as [|n IH]; intros H; simpl; [lia|].
  specialize (IH (fun i Hi => H i (Nat.lt_lt_succ_r _ _ Hi))). specialize (H n (Nat.lt_succ_diag_r n)). lia.
Qed.

Lemma Zsum_range_split : forall f lo m hi, lo <= m -> m <= hi + 1 ->
  Zsum_range f lo hi = Zsum_range f lo (m - 1) + Zsum_range f m hi.
Proof.
  intros f lo m hi H1 H2. unfold Zsum_range.
  replace (Z.to_nat (hi - lo + 1)) with (Z.to_nat (m - 1 - lo + 1) + Z.to_nat (hi - m + 1))%nat by lia.
  rewrite Zsum_n_app. f_equal. apply Zsum_n_ext. intros i Hi. f_equal. lia.
Qed.

Lemma Zsum_range_ext : forall f g lo hi, (forall j, lo <= j <= hi -> f j = g j) ->
  Zsum_range f lo hi = Zsum_range g lo hi.
Proof. intros. unfold Zsum_range. apply Zsum_n_ext. intros i Hi. apply H. lia. Qed.

Lemma Zsum_range_zero : forall f lo hi, (forall j, lo <= j <= hi -> f j = 0) -> Zsum_range f lo hi = 0.
Proof. intros. unfold Zsum_range. apply Zsum_n_zero. intros i Hi. apply H. lia. Qed.

Lemma Zsum_range_empty : forall f lo hi, hi < lo -> Zsum_range f lo hi = 0.
Proof. intros. unfold Zsum_range. replace (Z.to_nat (hi - lo + 1)) with O by lia. reflexivity. Qed.

(* reflection j -> c - j *)
Lemma Zsum_range_reflect : forall f lo hi c,
  Zsum_range f lo hi = Zsum_range (fun j => f (c - j)) (c - hi) (c - lo).
Proof.
  intros. unfold Zsum_range.
  replace (c - lo - (c - hi) + 1) with (hi - lo + 1) by lia.
  rewrite Zsum_n_rev. apply Zsum_n_ext. intros i Hi. f_equal. lia.
Qed.
End ZS.

(* ---------- Q sums ---------- *)
Section QS.
Local Open Scope Q_scope.

Lemma Qsum_n_ext : forall f g n, (forall i, (i < n)%nat -> f i == g i) -> Qsum_n f n == Qsum_n g n.
Proof.
  induction n as [|n IH]; intros H; simpl; [reflexivity|].
  rewrite IH by (intros; apply H; lia). rewrite H by lia. reflexivity.
Qed.

Lemma Qsum_n_zero : forall f n, (forall i, (i < n)%nat -> f i == 0) -> Qsum_n f n == 0.
Proof.
  induction n as [|n IH]; intros H; simpl; [reflexivity|].
  rewrite IH by (intros; apply H; lia). rewrite H by lia. ring.
Qed.

Lemma Qsum_n_S_l : forall f n, Qsum_n f (S n) == f O + Qsum_n (fun i => f (S i)) n.
Proof.
  induction n as [|n IH]; [simpl; ring|].
  change (Qsum_n f (S (S n))) with (Qsum_n f (S n) + f (S n)). rewrite IH. simpl. ring.
Qed.

Lemma Qsum_n_plus : forall f g n, Qsum_n (fun i => f i + g i) n == Qsum_n f n + Qsum_n g n.
Proof. induction n as [|n IH]; simpl; [ring| rewrite IH; ring]. Qed.

Lemma Qsum_n_scal : forall c f n, Qsum_n (fun i => c * f i) n == c * Qsum_n f n.
Proof. induction n as [|n IH]; simpl; [ring| rewrite IH; ring]. Qed.

Lemma Qsum_n_app : forall f n m, Qsum_n f (n + m) == Qsum_n f n + Qsum_n (fun i => f (n + i)%nat) m.
Proof.
  induction m as [|m IH]; simpl.
  - rewrite Nat.add_0_r. ring.
  - rewrite Nat.add_succ_r. simpl. rewrite IH. ring.
Qed.

Lemma Qsum_n_rev : forall n f, Qsum_n f n == Qsum_n (fun i => f (n - 1 - i)%nat) n.
Proof.
  induction n as [|n IH]; intros f; [reflexivity|].
  rewrite Qsum_n_S_l. rewrite (IH (fun i => f (S i))).
  change (Qsum_n (fun i => f (S n - 1 - i)%nat) (S n))
    with (Qsum_n (fun i => f (S n - 1 - i)%nat) n + f (S n - 1 - n)%nat).
  replace (S n - 1 - n)%nat with O by lia.
  rewrite Qplus_comm. apply Qplus_comp; [|reflexivity].
  apply Qsum_n_ext. intros i Hi. replace (S n - 1 - i)%nat with (S (n - 1 - i)) by lia. reflexivity.
Qed.

Lemma Qsum_n_nonneg : forall f n, (forall i, (i < n)%nat -> 0 <= f i) -> 0 <= Qsum_n f n.
Proof.
  induction n as [|n IH]; intros H; simpl; [apply Qle_refl|].
  specialize (IH (fun i Hi => H i (Nat.lt_lt_succ_r _ _ Hi))). specialize (H n (Nat.lt_succ_diag_r n)). lra.
Qed.

Lemma Qsum_n_inject : forall f n, Qsum_n (fun i => inject_Z (f i)) n == inject_Z (Zsum_n f n).
Proof. induction n as [|n IH]; simpl; [reflexivity| rewrite IH, inject_Z_plus; reflexivity]. Qed.

Lemma Qsum_range_split : forall f lo m hi, (lo <= m)%Z -> (m <= hi + 1)%Z ->
  Qsum_range f lo hi == Qsum_range f lo (m - 1) + Qsum_range f m hi.
Proof.
  intros f lo m hi H1 H2. unfold Qsum_range.
  replace (Z.to_nat (hi - lo + 1)) with (Z.to_nat (m - 1 - lo + 1) + Z.to_nat (hi - m + 1))%nat by lia.
  rewrite Qsum_n_app. apply Qplus_comp; [reflexivity|].
  apply Qsum_n_ext. intros i Hi.
  replace (lo + Z.of_nat (Z.to_nat (m - 1 - lo + 1) + i))%Z with (m + Z.of_nat i)%Z by lia. reflexivity.
Qed.

Lemma Qsum_range_ext : forall f g lo hi, (forall j, (lo <= j <= hi)%Z -> f j == g j) ->
  Qsum_range f lo hi == Qsum_range g lo hi.
Proof. intros. unfold Qsum_range. apply Qsum_n_ext. intros i Hi. apply H. lia. Qed.

Lemma Qsum_range_zero : forall f lo hi, (forall j, (lo <= j <= hi)%Z -> f j == 0) -> Qsum_range f lo hi == 0.
Proof. intros. unfold Qsum_range. apply Qsum_n_zero. intros i Hi. apply H. lia. Qed.

Lemma Qsum_range_empty : forall f lo hi, (hi < lo)%Z -> Qsum_range f lo hi == 0.
Proof. intros. unfold Qsum_range. replace (Z.to_nat (hi - lo + 1)) with O by lia. reflexivity. Qed.

Lemma Qsum_range_last : forall f lo hi, (lo <= hi + 1)%Z ->
  Qsum_range f lo (hi + 1) == Qsum_range f lo hi + f (hi + 1)%Z.
Proof.
  intros f lo hi H. unfold Qsum_range.
  replace (Z.to_nat (hi + 1 - lo + 1)) with (S (Z.to_nat (hi - lo + 1))) by lia.
  simpl. replace (lo + Z.of_nat (Z.to_nat (hi - lo + 1)))%Z with (hi + 1)%Z by lia. reflexivity.
Qed.

Lemma Qsum_range_scal : forall c f lo hi, Qsum_range (fun j => c * f j) lo hi == c * Qsum_range f lo hi.
Proof. intros. unfold Qsum_range. apply Qsum_n_scal. Qed.

Lemma Qsum_range_inject : forall f lo hi,
  Qsum_range (fun j => inject_Z (f j)) lo hi == inject_Z (Zsum_range f lo hi).
Proof. intros. unfold Qsum_range, Zsum_range. apply Qsum_n_inject. Qed.

(* powers *)
Global Instance qpow_comp : Proper (Qeq ==> eq ==> Qeq) qpow.
Proof.
  intros x y Hxy n m <-. induction n as [|n IH]; simpl; [reflexivity| rewrite IH, Hxy; reflexivity].
Qed.
Lemma qpow_S : forall x n, qpow x (S n) == x * qpow x n.
Proof. reflexivity. Qed.
Lemma qpow_add : forall x n m, qpow x (n + m) == qpow x n * qpow x m.
Proof. induction n as [|n IH]; intros; simpl; [ring| rewrite IH; ring]. Qed.
Lemma qpow_1_l : forall n, qpow 1 n == 1.
Proof. induction n as [|n IH]; simpl; [reflexivity| rewrite IH; ring]. Qed.
Lemma qpow_nonneg : forall x n, 0 <= x -> 0 <= qpow x n.
Proof. induction n as [|n IH]; intros; simpl; [lra| apply Qmult_le_0_compat; auto]. Qed.
Lemma qpow_pos : forall x n, 0 < x -> 0 < qpow x n.
Proof.
  induction n as [|n IH]; intros; simpl; [lra|].
  specialize (IH H). apply Qmult_lt_0_compat; assumption.
Qed.
End QS.

(* Base/Num.v — exact numbers shared by every model: rationals, extended reals
   (float64 values decoded exactly), comparators with tolerances, and the flat
   integer "case line" decoding combinators used by every Check/Cxx.v. *)
From Coq Require Export List ZArith QArith Qabs Qminmax Bool Lia.
Export ListNotations.
Open Scope Z_scope.

(* ---------- extended reals: what a float64 can hold, exactly ---------- *)
Inductive xreal := XNaN | XInf (neg : bool) | XFin (q : Q).

Definition two_pow (e : Z) : Q :=
  if 0 <=? e then inject_Z (Z.shiftl 1 e) else 1 # (Z.to_pos (Z.shiftl 1 (- e))).

(* strip the trailing zero bits of a positive: p = p' * 2^t with p' odd *)
Fixpoint pos_odd_part (p : positive) (t : Z) : positive * Z :=
  match p with xO q => pos_odd_part q (t + 1) | _ => (p, t) end.

(* m * 2^e as a reduced rational, without any gcd *)
Definition dyadic (m : Z) (e : Z) : Q :=
  match m with
  | Z0 => 0 # 1
  | Zpos p => let '(p', t) := pos_odd_part p 0 in
              let e' := e + t in
              if 0 <=? e' then inject_Z (Z.shiftl (Zpos p') e') else (Zpos p') # (Z.to_pos (Z.shiftl 1 (- e')))
  | Zneg p => let '(p', t) := pos_odd_part p 0 in
              let e' := e + t in
              if 0 <=? e' then inject_Z (Z.shiftl (Zneg p') e') else (Zneg p') # (Z.to_pos (Z.shiftl 1 (- e')))
  end.

(* IEEE-754 binary64 bit pattern (as a non-negative integer) -> exact value *)
Definition decode_bits (b : Z) : xreal :=
  let s := Z.testbit b 63 in
  let e := Z.land (Z.shiftr b 52) 2047 in
  let m := Z.land b 4503599627370495 in          (* 2^52 - 1 *)
  if e =? 2047 then (if m =? 0 then XInf s else XNaN)
  else
    let mant := if e =? 0 then m else 4503599627370496 + m in     (* 2^52 + m *)
    let ex := if e =? 0 then -1074 else e - 1075 in
    XFin (dyadic (if s then - mant else mant) ex).

Definition xfin (x : xreal) : option Q := match x with XFin q => Some q | _ => None end.
Definition is_fin (x : xreal) : bool := match x with XFin _ => true | _ => false end.
Definition is_nan (x : xreal) : bool := match x with XNaN => true | _ => false end.

(* ---------- Q helpers ---------- *)
Local Open Scope Q_scope.
Definition Qleb := Qle_bool.
Definition Qltb (a b : Q) : bool := negb (Qle_bool b a).
Definition Qeqb (a b : Q) : bool := Qeq_bool a b.
Definition Qmaxb (a b : Q) : Q := if Qle_bool a b then b else a.
Definition Qminb (a b : Q) : Q := if Qle_bool a b then a else b.
Definition Qsq (a : Q) : Q := a * a.
Definition QofN (n : N) : Q := inject_Z (Z.of_N n).
Definition Qofnat (n : nat) : Q := inject_Z (Z.of_nat n).

Fixpoint Qsum (l : list Q) : Q := match l with [] => 0 | x :: t => x + Qsum t end.
Definition Qmaxabs (l : list Q) : Q := fold_left (fun m x => Qmaxb m (Qabs x)) l 0.
Definition Qlmin (d : Q) (l : list Q) : Q := fold_left Qminb l d.
Definition Qlmax (d : Q) (l : list Q) : Q := fold_left Qmaxb l d.

(* unit round-off of binary64 *)
Definition ulp53 : Q := 1 # (2 ^ 53)%positive.

(* ---------- comparators ---------- *)
(* |obs - expected| <= tol *)
Definition within (tol expected obs : Q) : bool := Qle_bool (Qabs (obs - expected)) tol.
(* relative + absolute *)
Definition close (rel abs expected obs : Q) : bool :=
  within (abs + rel * Qabs expected) expected obs.
(* obs ~ sqrt(expected_sq): compare squares.  |obs^2 - v| <= tol_sq *)
Definition close_sqrt (tol_sq expected_sq obs : Q) : bool :=
  Qle_bool 0 obs && within tol_sq expected_sq (obs * obs).

Definition xwithin (tol : Q) (expected : xreal) (obs : xreal) : bool :=
  match expected, obs with
  | XNaN, XNaN => true
  | XInf a, XInf b => Bool.eqb a b
  | XFin e, XFin o => within tol e o
  | _, _ => false
  end.
Definition xeq (a b : xreal) : bool := xwithin 0 a b.

Local Close Scope Q_scope.
(* ---------- case-line decoding: a line is a flat list of integers ---------- *)
Definition parser (A : Type) := list Z -> option (A * list Z).
Definition pret {A} (a : A) : parser A := fun l => Some (a, l).
Definition pbind {A B} (p : parser A) (f : A -> parser B) : parser B :=
  fun l => match p l with Some (a, r) => f a r | None => None end.
Definition pZ : parser Z := fun l => match l with x :: r => Some (x, r) | [] => None end.
Definition pX : parser xreal := pbind pZ (fun b => pret (decode_bits b)).
Definition pQ : parser Q := fun l =>
  match l with x :: r => match decode_bits x with XFin q => Some (q, r) | _ => None end | [] => None end.
Definition pnat : parser nat := pbind pZ (fun z => if z <? 0 then (fun _ => None) else pret (Z.to_nat z)).
Definition pbool : parser bool := pbind pZ (fun z => pret (negb (z =? 0))).
Fixpoint prep {A} (p : parser A) (n : nat) : parser (list A) :=
  match n with
  | O => pret []
  | S k => pbind p (fun a => pbind (prep p k) (fun t => pret (a :: t)))
  end.
(* length-prefixed list; the length is bounded by what is left on the line, so a
   corrupt prefix cannot make [prep] run away *)
Definition plist {A} (p : parser A) : parser (list A) := fun l =>
  match l with
  | n :: r => if (n <? 0) || (Z.of_nat (length r) <? n) then None else prep p (Z.to_nat n) r
  | [] => None
  end.
Definition pend {A} (a : A) : parser A := fun l => match l with [] => Some (a, []) | _ => None end.

Notation "'do' x <- p ; q" := (pbind p (fun x => q)) (at level 200, x pattern, p at level 100, q at level 200).

(* ---------- verdict codes returned by every check function ---------- *)
Definition V_OK : Z := 0.
Definition V_BORDERLINE : Z := 1.
Definition V_MISMATCH : Z := 2.
Definition V_MALFORMED : Z := 3.
(* codes >= 10 are known-finding signatures; see KNOWN_FINDINGS.txt *)

(* a verdict line: code, branch tag, position of the first failing observable
   (or -1) and free diagnostics *)
Definition verdict (code tag pos : Z) (diag : list Z) : list Z := code :: tag :: pos :: diag.

(* rendering a rational for diagnostics: numerator, denominator *)
Definition qdiag (q : Q) : list Z := let r := Qred q in [Qnum r; Zpos (Qden r)].

(* count-prefixed list of variable-width items: the count cannot exceed the
   number of integers left, so [prep] is bounded by the line length *)
Definition plist_any {A} (p : parser A) : parser (list A) := plist p.

(* ---------- in-kernel cross-check of the extracted model ---------- *)
Fixpoint list_Z_eqb (a b : list Z) : bool :=
  match a, b with
  | [], [] => true
  | x :: a', y :: b' => (x =? y) && list_Z_eqb a' b'
  | _, _ => false
  end.
(* indices of the cases on which [f line] differs from the recorded verdict *)
Definition crosscheck (f : list Z -> list Z) (cases : list (list Z * list Z)) : list Z :=
  (fix go (l : list (list Z * list Z)) (i : Z) : list Z :=
     match l with
     | [] => []
     | (line, v) :: t => if list_Z_eqb (f line) v then go t (i + 1) else i :: go t (i + 1)
     end) cases 0.

(* Check/C01.v — correspondence comparator for C01 (Mann-Whitney exact test).
   Line:  1 run        (run as described in Check/GEMw.v; the calls are the three alternatives) *)
From MM Require Import Base.Num Model.Utest Check.GEMw.
Local Open Scope Z_scope.

Definition check_C01 (line : list Z) : list Z :=
  match (do tag <- pZ; if negb (tag =? 1) then (fun _ => None) else do r <- p_run; pend r) line with
  | None => verdict V_MALFORMED 0 (-1) []
  | Some (run, _) =>
      match check_run run with
      | (code, tag, None) => verdict code tag (-1) []
      | (code, tag, Some (i, w, e)) => verdict code tag i (w :: qdiag e)
      end
  end.

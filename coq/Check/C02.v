(* Check/C02.v — correspondence comparator for C02 (UDist).
   Line:  2 N1 N2 tnil |T| T...  nu { u pmf cdf }*  lo hi step status
     tnil = 1: T is nil in Go (then |T| = 0);  u, pmf, cdf, lo, hi, step: float64 bit patterns;
     status 0 = every call returned, 2 = some call panicked.
   The whole distribution for (N1,N2,T) is computed once (Model.Udist.mass_table), then
   every u of the line is compared.  Tolerance on probabilities: 1e-10 absolute (DESIGN 7, C02); exact
   (tolerance 0) where the property states the value outright, see tol_pmf_at / tol_cdf_at. *)
From Coq Require Import Qround.
From MM Require Import Base.Num Base.GEComb Model.GEChoose Model.Udist.
Local Open Scope Z_scope.

Definition tol_prob : Q := 1 # 10000000000.
(* where the property states the value outright (CDF 0 below zero and 1 from N1*N2 upward; no mass outside
   0 .. N1*N2) the comparison is exact: tolerance 0 *)
Definition tol_pmf_at (n1 n2 : nat) (u : Q) : Q :=
  if Qltb u 0 || Qleb ((1 # 2) + QN (n1 * n2)) u then 0%Q else tol_prob.
Definition tol_cdf_at (n1 n2 : nat) (u : Q) : Q :=
  if Qltb u 0 || Qleb (QN (n1 * n2)) u then 0%Q else tol_prob.

Definition p_triple : parser (Q * xreal * xreal) :=
  do u <- pQ; do p <- pX; do c <- pX; pret (u, p, c).

Definition p_line02 : parser (nat * nat * bool * list nat * list (Q * xreal * xreal) * (xreal * xreal * xreal) * Z) :=
  do tag <- pZ; if negb (tag =? 2) then (fun _ => None) else
  do n1 <- pnat; do n2 <- pnat; do tnil <- pbool; do T <- plist pnat;
  do us <- plist_any p_triple; do lo <- pX; do hi <- pX; do st <- pX; do status <- pZ;
  pend (n1, n2, tnil, T, us, (lo, hi, st), status).

(* the property's domain: N1,N2 >= 1; T nil, or positive counts over >= 2 ranks summing to N1+N2 *)
Definition valid_T (n1 n2 : nat) (tnil : bool) (T : list nat) : bool :=
  (1 <=? n1)%nat && (1 <=? n2)%nat &&
  (if tnil then match T with [] => true | _ => false end
   else (2 <=? length T)%nat && forallb (fun t => (1 <=? t)%nat) T && (lsum T =? n1 + n2)%nat).

(* branch tag: 1 T=nil, 2 T all ones (untied path with explicit T), 4 ties with K=2 (closed-form
   base case at the top), 8 ties with K>=3; +16 when N1+N2 > 20 (Choose leaves its integer path) *)
Definition tag02 (n1 n2 : nat) (tnil : bool) (T : list nat) : Z :=
  (if tnil then 1 else if negb (has_ties T) then 2 else if (length T =? 2)%nat then 4 else 8)
  + (if (20 <? n1 + n2)%nat then 16 else 0).

Fixpoint cmp_us (n1 n2 : nat) (T : list nat) (tbl cs : list Z) (tot : Z)
                (us : list (Q * xreal * xreal)) (i : Z) : option (Z * Z * Q) :=
  match us with
  | [] => None
  | (u, op, oc) :: rest =>
      let ep := fast_pmf n1 n2 T tbl tot u in
      if negb (xwithin (tol_pmf_at n1 n2 u) (XFin ep) op) then Some (i, 0, ep) else
      let ec := fast_cdf n1 n2 T cs tot u in
      if negb (xwithin (tol_cdf_at n1 n2 u) (XFin ec) oc) then Some (i, 1, ec) else
      cmp_us n1 n2 T tbl cs tot rest (i + 1)
  end.

Definition check_C02 (line : list Z) : list Z :=
  match p_line02 line with
  | None => verdict V_MALFORMED 0 (-1) []
  | Some ((n1, n2, tnil, T, us, (lo, hi, st), status), _) =>
      if negb (valid_T n1 n2 tnil T) then verdict V_MALFORMED 0 (-2) [] else
      let tag := tag02 n1 n2 tnil T in
      if negb (status =? 0) then verdict V_MISMATCH tag (-1) [4; status] else
      let tbl := dist_table n1 n2 T in
      let cs := cumsum 0 tbl in
      let tot := choosen (n1 + n2) n1 in
      match cmp_us n1 n2 T tbl cs tot us 0 with
      | Some (i, which, e) => verdict V_MISMATCH tag i (which :: qdiag e)
      | None =>
          let (elo, ehi) := udist_bounds n1 n2 in
          if negb (xeq (XFin elo) lo && xeq (XFin ehi) hi) then verdict V_MISMATCH tag (-1) (2 :: qdiag ehi)
          else if negb (xeq (XFin udist_step) st) then verdict V_MISMATCH tag (-1) [3]
          else verdict V_OK tag (-1) []
      end
  end.

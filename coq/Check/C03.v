(* Check/C03.v — correspondence comparator for C03 (Mann-Whitney laws at every size).
   Line:  3 nruns run*      (run as described in Check/GEMw.v)
   A case is a family of runs on related inputs: the base pair, the same pair reordered, mapped through
   a strictly increasing function, swapped, and under several settings of the two limit variables.
   Every call of every run is compared with the model; the laws (order/monotone-map invariance, swap,
   errors, ranges) are theorems about the model (Properties/C03.v), so agreement on each call carries
   them over to the implementation's outputs.  Purity (arguments unmodified, limits restored) is a flag
   per run.  Known finding D2 = code 10 exactly as in C01. *)
From MM Require Import Base.Num Model.Utest Check.GEMw.
Local Open Scope Z_scope.

Fixpoint check_runs (rs : list mwrun) (i : Z) (code tag : Z) : Z * Z * option (Z * Z * Z * Q) :=
  match rs with
  | [] => (code, tag, None)
  | r :: rest =>
      match check_run r with
      | (cd, tg, Some (j, w, e)) =>
          if (cd =? V_MISMATCH) then (V_MISMATCH, Z.lor tag tg, Some (i, j, w, e))
          else check_runs rest (i + 1) (Z.max code cd) (Z.lor tag tg)
      | (cd, tg, None) => check_runs rest (i + 1) (Z.max code cd) (Z.lor tag tg)
      end
  end.

Definition check_C03 (line : list Z) : list Z :=
  match (do tag <- pZ; if negb (tag =? 3) then (fun _ => None) else do rs <- plist_any p_run; pend rs) line with
  | None => verdict V_MALFORMED 0 (-1) []
  | Some (rs, _) =>
      match check_runs rs 0 V_OK 0 with
      | (code, tag, None) => verdict code tag (-1) []
      | (code, tag, Some (i, j, w, e)) => verdict code tag i (w :: j :: qdiag e)
      end
  end.

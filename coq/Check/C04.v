(* Check/C04.v — correspondence comparator for C04 (t-tests and MeanCI).
   Lines (hexadecimal integers; floats as IEEE-754 bit patterns; lists length-prefixed):
     4 0 x1 x2 alt        st n1 n2 T DoF altout P cdfT cdfAbs      TwoSampleTTest
     4 1 x1 x2 alt        ...                                      TwoSampleWelchTTest
     4 2 x1 x2 mu0 alt    ...                                      PairedTTest
     4 3 x  mu0 alt       ...                                      OneSampleTTest
     4 4 x  c             mean lo hi trec Fneg                     MeanCI
   st: 0 result, 1 ErrSampleSize, 2 ErrZeroVariance, 3 ErrMismatchedSamples, 8 another error, 9 panic.
   cdfT, cdfAbs: stats.TDist{V: DoF}.CDF at the returned T and |T| (oracle instantiation, DESIGN 3): the
   comparator checks P against the model's tail selection over exactly these values; the accuracy of the
   CDF itself is property C05.  trec = (hi-mean)*sqrt(n)/StdDev(xs), Fneg = TDist{n-1}.CDF(-trec). *)
From MM Require Import Base.Num Model.TTest.
Local Open Scope Q_scope.

Inductive c04case :=
| CTest (op : Z) (x1 x2 : list Q) (mu0 : Q) (alt : Z) (st n1 n2 : Z) (T dof : xreal) (altout : Z) (P cdfT cdfAbs : xreal)
| CCI (xs : list Q) (c : Q) (mean lo hi trec fneg : xreal).

Definition p_obs : parser (Z * Z * Z * xreal * xreal * Z * xreal * xreal * xreal) :=
  do st <- pZ; do n1 <- pZ; do n2 <- pZ; do T <- pX; do dof <- pX; do ao <- pZ; do P <- pX; do c1 <- pX; do c2 <- pX;
  pend (st, n1, n2, T, dof, ao, P, c1, c2).

Definition p_line : parser c04case :=
  do id <- pZ; if negb (id =? 4)%Z then (fun _ => None) else
  do op <- pZ;
  if (op =? 0)%Z || (op =? 1)%Z then
    (do x1 <- plist pQ; do x2 <- plist pQ; do alt <- pZ; do o <- p_obs;
     let '(st, n1, n2, T, dof, ao, P, c1, c2) := o in pret (CTest op x1 x2 0 alt st n1 n2 T dof ao P c1 c2))
  else if (op =? 2)%Z then
    (do x1 <- plist pQ; do x2 <- plist pQ; do mu0 <- pQ; do alt <- pZ; do o <- p_obs;
     let '(st, n1, n2, T, dof, ao, P, c1, c2) := o in pret (CTest op x1 x2 mu0 alt st n1 n2 T dof ao P c1 c2))
  else if (op =? 3)%Z then
    (do x1 <- plist pQ; do mu0 <- pQ; do alt <- pZ; do o <- p_obs;
     let '(st, n1, n2, T, dof, ao, P, c1, c2) := o in pret (CTest op x1 [] mu0 alt st n1 n2 T dof ao P c1 c2))
  else if (op =? 4)%Z then
    (do xs <- plist pQ; do c <- pQ; do m <- pX; do lo <- pX; do hi <- pX; do tr <- pX; do fn <- pX;
     pend (CCI xs c m lo hi tr fn))
  else (fun _ => None).

(* ---------- tolerances ---------- *)
(* The tolerance for T, tau = tr |T| + tr with tr = 1e-9 + 2^-46 n kappa, does NOT grow with mu0, and need not:
   the code forms (mean - mu0) sqrt(n) / s AFTER computing the mean and s of the untouched data (differences).
     - the subtraction mean - mu0 is one rounding: absolute error <= ulp53 (|mean| + |mu0|), i.e. a relative error
       of T of ulp53 (|mean| + |mu0|) / |mean - mu0|: about one ulp when |mu0| >> |mean| (T is then huge but
       relatively exact), and when mu0 is next to the mean (T next to 0) an ABSOLUTE error of T of
       ulp53 * 2|mean| sqrt(n)/s <= 4 ulp53 n max|d| / (max d - min d) = 4 ulp53 n cond(d) < 2^-46 n kappa <= tr;
     - the rounding of the mean and of s is what kappa (the conditioning of the data, not of mu0) accounts for.
   So a T that is off by more than 1e-9 relative for a large mu0 (e.g. because mu0 was subtracted from every
   value BEFORE the mean and the variance were taken, which rounds the data to ulp(mu0)) is a mismatch. *)
(* conditioning of a sample for mean/variance in floating point: max|x| / (max - min); 0 for a constant sample *)
Definition cond (xs : list Q) : Q :=
  match xs with
  | [] => 0
  | x :: t => let mn := Qlmin x t in let mx := Qlmax x t in
              if Qeqb mx mn then 0 else Qred (Qmaxabs xs / (mx - mn))
  end.
Definition two46 : Q := 1 # (2 ^ 46)%positive.
(* "to within rounding": 1e-9 plus the rounding error a Welford pass can have on n values of this conditioning *)
Definition tol_rel (n : nat) (kappa : Q) : Q := (1 # 1000000000) + two46 * Qofnat n * kappa.
Definition tol_P : Q := 1 # 1000000000.

(* s * sqrt q >= L, for a sign s in {-1,0,1} and q >= 0, without taking the root *)
Definition sqrt_ge (s : Z) (q L : Q) : bool :=
  if (0 <=? s)%Z then (if Qle_bool L 0 then true else Qle_bool (L * L) q)
  else Qle_bool L 0 && Qle_bool q (L * L).
Definition sqrt_le (s : Z) (q U : Q) : bool := sqrt_ge (- s) q (- U).
(* | tgo - s sqrt q | <= tau *)
Definition T_close (s : Z) (q tgo tau : Q) : bool := sqrt_ge s q (tgo - tau) && sqrt_le s q (tgo + tau).

Definition err_code (e : terr) : Z :=
  match e with ErrSampleSize => 1 | ErrZeroVariance => 2 | ErrMismatchedSamples => 3 end.

Definition first_false (l : list bool) : option Z :=
  (fix go (l : list bool) (i : Z) := match l with [] => None | true :: t => go t (i + 1)%Z | false :: _ => Some i end) l 0%Z.

Definition in01 (x : xreal) : bool :=
  match x with XFin q => Qle_bool (- (1 # 1000000000000)) q && Qle_bool q (1 + (1 # 1000000000000)) | _ => false end.

Definition check_test (op : Z) (x1 x2 : list Q) (mu0 : Q) (alt st n1 n2 : Z) (T dof : xreal) (altout : Z)
  (P cdfT cdfAbs : xreal) : list Z :=
  let model := if (op =? 0)%Z then two_sample x1 x2 else if (op =? 1)%Z then welch x1 x2
               else if (op =? 2)%Z then paired x1 x2 mu0 else one_sample x1 mu0 in
  match model with
  | TErr e => if (st =? err_code e)%Z then verdict V_OK 0 (-1) [] else verdict V_MISMATCH 0 0 [err_code e]
  | TOk r =>
      if negb (st =? 0)%Z then verdict V_MISMATCH 0 0 [0%Z] else
      let n := (length x1 + length x2)%nat in
      let kappa := if (op =? 2)%Z then Qmaxb (cond (vdiff x1 x2)) (Qmaxabs (x1 ++ x2) * cond (vdiff x1 x2) / (Qmaxabs (vdiff x1 x2) + (1 # 1000000000000000000)))
                   else Qmaxb (cond x1) (cond x2) in
      let tr := tol_rel n kappa in
      let tag := (1 + op + 8 * (alt + 1) + (if (n1 =? n2)%Z then 0 else 32) + (if (t_sign r =? 0)%Z then 64 else 0))%Z in
      match T, dof, P, cdfT, cdfAbs with
      | XFin tgo, XFin dgo, XFin pgo, XFin ct, XFin ca =>
          let F := fun q : Q => if Qeqb q (Qabs tgo) then ca else ct in
          match first_false
            [ (n1 =? t_n1 r)%Z; (n2 =? t_n2 r)%Z;
              T_close (t_sign r) (t_sq r) tgo (tr * Qabs tgo + tr);
              within (tr * t_dof r) (t_dof r) dgo;
              (altout =? alt)%Z;
              within tol_P (ttail F alt tgo) pgo;
              in01 P && in01 cdfT && in01 cdfAbs ] with
          | None => verdict V_OK tag (-1) []
          | Some i => verdict V_MISMATCH tag (i + 1) (t_n1 r :: t_n2 r :: t_sign r :: qdiag (t_sq r) ++ qdiag (t_dof r) ++ qdiag (ttail F alt tgo))
          end
      | _, _, _, _, _ => verdict V_MISMATCH tag 9 []
      end
  end.

Definition check_ci (xs : list Q) (c : Q) (mean lo hi trec fneg : xreal) : list Z :=
  match meanci xs c with
  | (None, _) => if is_nan mean && is_nan lo && is_nan hi then verdict V_OK 0 (-1) [] else verdict V_MISMATCH 0 1 []
  | (Some m, w) =>
      match mean with
      | XFin mgo =>
          let n := length xs in
          if negb (within ((4 * Qofnat n + 16) * ulp53 * Qmaxabs xs) m mgo) then verdict V_MISMATCH 0 1 (qdiag m) else
          match w with
          | CIZero => if xeq (XFin mgo) lo && xeq (XFin mgo) hi then verdict V_OK 129 (-1) [] else verdict V_MISMATCH 129 2 []
          | CIInf => if xeq (XInf true) lo && xeq (XInf false) hi then verdict V_OK 130 (-1) [] else verdict V_MISMATCH 130 2 []
          | CIStudent n' v alpha =>
              if is_zero v then
                (if xeq (XFin mgo) lo && xeq (XFin mgo) hi then verdict V_OK 132 (-1) [] else verdict V_MISMATCH 132 2 [])
              else
                match lo, hi, trec, fneg with
                | XFin l, XFin h, XFin t, XFin f =>
                    let wh := h - mgo in let wl := mgo - l in
                    let kappa := cond xs in
                    let rnd := 8 * ulp53 * (Qabs mgo + Qabs wh) in
                    let relw := if Qle_bool wh 0 then 1 else rnd / wh in
                    let tr := tol_rel n kappa in
                    match first_false
                      [ Qltb 0 wh && Qltb 0 wl;
                        within rnd wh wl;                                   (* symmetric about the mean *)
                        Qltb 0 t;
                        within (2 * tr + 2 * relw) 1 (wh * wh * Qofnat n / (t * t * v));   (* w = t s / sqrt n *)
                        within (tol_P + t * (tr + relw)) alpha f ] with      (* content: F(-t) = (1-c)/2 *)
                    | None => verdict V_OK 131 (-1) []
                    | Some i => verdict V_MISMATCH 131 (i + 3) (qdiag v ++ qdiag alpha)
                    end
                | _, _, _, _ => verdict V_MISMATCH 131 2 []
                end
          end
      | _ => verdict V_MISMATCH 0 1 (qdiag m)
      end
  end.

Definition check_C04 (line : list Z) : list Z :=
  match p_line line with
  | None => verdict V_MALFORMED 0 (-1) []
  | Some (CTest op x1 x2 mu0 alt st n1 n2 T dof ao P c1 c2, _) => check_test op x1 x2 mu0 alt st n1 n2 T dof ao P c1 c2
  | Some (CCI xs c m lo hi tr fn, _) => check_ci xs c m lo hi tr fn
  end.

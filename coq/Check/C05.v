(* Check/C05.v — correspondence comparator for C05 (NormalDist, TDist, DeltaDist).
   Line:  5 op ...
     op 1  Normal grid : mu sigma  Mean Variance BoundsLo BoundsHi  cnt { x PDF(x) CDF(x) GL }*
     op 2  Normal InvCDF: mu sigma cnt { p InvCDF(p) CDF(InvCDF(p)) PDF(InvCDF(p)) }*
     op 3  Normal Rand  : mu sigma cnt { z Rand }*         z = NormFloat64() of a clone of the scripted source
     op 4  TDist grid   : V BoundsLo BoundsHi cnt { x PDF(x) CDF(x) GL }*
     op 5  DeltaDist    : T BoundsLo BoundsHi cnt { x PDF(x) CDF(x) }* cnt { y InvCDF(y) }*
     op 6  CDF scan     : fn p1 p2 lo hi n cnt { xlo xhi CDF(xlo) CDF(xhi) }*     fn 1 normal (mu sigma), 2 t (V 0)
   The pairs of op 6 are found by the harness's discontinuity hunt (harness/hb_scan.go) over n cells of
   [lo,hi]; the first pair is the consecutive grid pair with the smallest increment.  Only the
   reported pairs are judged: xlo < xhi must give CDF(xlo) <= CDF(xhi) + 1e-12, values in [0,1].
   GL = the harness's composite Gauss-Legendre quadrature of the implementation's PDF over
   [previous x, x] (NaN where not computed).  Grids are sorted and symmetric about the centre.
   Exact (M1): DeltaDist, Mean/Variance/Bounds, InvCDF special values, Rand, CDF at 0 and at
   +-inf.  Laws on the implementation's outputs: range, monotone, symmetry, PDF >= 0,
   PDF/CDF consistency, CDF(InvCDF p) = p.  The VALUES of the normal and t PDF/CDF are
   decided by certificate goals (bin/plugins/C05.py). *)
From Coq Require Import Qround.
From MM Require Import Base.Num Model.Dists.
Local Open Scope Q_scope.

Definition tol_law : Q := 1 # 1000000000000.        (* identities on reported floats: 1e-12 *)
Definition tol_rel9 : Q := 1 # 1000000000.          (* "to 1e-9 relative" *)
Definition eps52 : Q := 1 # (2 ^ 52)%positive.

Definition in01 (v : Q) : bool := Qleb 0 v && Qleb v 1.

(* ---------- sorted symmetric grid of (x, pdf, cdf, gl) ---------- *)
Definition gpoint := (xreal * xreal * xreal * xreal)%type.

(* codes: 1 PDF negative / not finite, 2 CDF outside [0,1], 3 CDF not monotone,
          4 PDF/CDF inconsistent (quadrature; each CDF value may be off by the property's 1e-9), 5 CDF symmetry, 6 PDF symmetry,
          7 CDF at the centre / at +-inf, 8 NaN handling *)
Fixpoint grid_walk (pts : list gpoint) (prev : option (xreal * Q)) (i : Z) : option (Z * Z) :=
  match pts with
  | [] => None
  | (x, pdf, cdf, gl) :: t =>
      match x with
      | XNaN => if is_nan cdf then grid_walk t prev (i + 1)%Z else Some (i, 8%Z)
      | _ =>
        match pdf, cdf with
        | XFin pq, XFin cq =>
            if negb (Qleb 0 pq) then Some (i, 1%Z) else
            if negb (in01 cq) then Some (i, 2%Z) else
            let endok := match x with
                         | XInf true => Qeqb cq 0 && Qeqb pq 0
                         | XInf false => Qeqb cq 1 && Qeqb pq 0
                         | _ => true end in
            if negb endok then Some (i, 7%Z) else
            let mono := match prev with
                        | Some (px, pc) => if xle px x then Qleb (pc - tol_law * pc) cq else true
                        | None => true end in
            if negb mono then Some (i, 3%Z) else
            let glok := match gl, prev with
                        | XFin g, Some (_, pc) => within (2 * tol_rel9 + tol_rel9 * Qabs (cq - pc)) (cq - pc) g
                        | _, _ => true end in
            if negb glok then Some (i, 4%Z) else
            grid_walk t (Some (x, cq)) (i + 1)%Z
        | _, _ => Some (i, 1%Z)
        end
      end
  end.

(* pair the list with its reverse: x_i + x_j = 2*centre  =>  cdf_i + cdf_j = 1, pdf_i = pdf_j *)
Fixpoint grid_sym (c2 : Q) (a b : list gpoint) (i : Z) : option (Z * Z) :=
  match a, b with
  | (XFin x, XFin p, XFin c, _) :: ta, (XFin x', XFin p', XFin c', _) :: tb =>
      if Qeqb (x + x') c2 then
        if negb (within tol_law 1 (c + c')) then Some (i, 5%Z)
        else if negb (within (tol_law * Qabs p) p p') then Some (i, 6%Z)
        else grid_sym c2 ta tb (i + 1)%Z
      else grid_sym c2 ta tb (i + 1)%Z
  | _ :: ta, _ :: tb => grid_sym c2 ta tb (i + 1)%Z
  | _, _ => None
  end.

Definition check_grid (c2 : Q) (pts : list gpoint) : option (Z * Z) :=
  match grid_walk pts None 0 with
  | Some e => Some e
  | None => grid_sym c2 pts (rev pts) 0
  end.

(* value at the centre: CDF = 1/2 *)
Fixpoint centre_ok (c : Q) (tol : Q) (pts : list gpoint) (i : Z) : option (Z * Z) :=
  match pts with
  | [] => None
  | (XFin x, _, XFin cq, _) :: t => if Qeqb x c && negb (within tol (1 # 2) cq) then Some (i, 7%Z) else centre_ok c tol t (i + 1)%Z
  | _ :: t => centre_ok c tol t (i + 1)%Z
  end.

Definition p_gpoint : parser gpoint := do x <- pX; do p <- pX; do c <- pX; do g <- pX; pret (x, p, c, g).

(* coverage bits of a grid: 4 a point at least zfar standard units from the centre, 8 at least
   zext, 16 an infinite abscissa, 32 a NaN abscissa *)
Fixpoint grid_bits (c s zfar zext : Q) (pts : list gpoint) (acc : Z) : Z :=
  match pts with
  | [] => acc
  | (x, _, _, _) :: t =>
      let b := match x with
               | XNaN => 32%Z
               | XInf _ => 16%Z
               | XFin xq => let d := Qabs (xq - c) in
                            if Qleb (zext * s) d then 12%Z else if Qleb (zfar * s) d then 4%Z else 0%Z
               end in
      grid_bits c s zfar zext t (Z.lor acc b)
  end.

Definition tail_deep : Q := 1 # (10 ^ 12)%positive.
Definition tail_extreme : Q := 1 # (10 ^ 200)%positive.

(* ---------- op 2: InvCDF ---------- *)
(* codes: 1 special value, 2 not finite, 3 CDF(InvCDF p) <> p, 4 not monotone *)
Fixpoint check_invcdf (mu sigma : Q) (pts : list (xreal * xreal * xreal * xreal)) (prev : option (Q * Q)) (i : Z) (tag : Z)
  : Z * option (Z * Z) :=
  match pts with
  | [] => (tag, None)
  | (p, inv, cdfinv, pdfinv) :: t =>
      match normal_invcdf_special p with
      | Some r => if match r, inv with XNaN, XNaN => true | XInf a, XInf b => Bool.eqb a b | _, _ => false end
                  then check_invcdf mu sigma t prev (i + 1)%Z (Z.lor tag 1) else (tag, Some (i, 1%Z))
      | None =>
          match p, inv, cdfinv, pdfinv with
          | XFin pq, XFin x, XFin c, XFin d =>
              (* x is a float: its own rounding moves CDF by about pdf * ulp(x) *)
              let tol := tol_rel9 * pq + 2 * d * eps52 * Qabs x in
              if negb (within tol pq c) then (tag, Some (i, 3%Z)) else
              let mono := match prev with
                          | Some (pp, px) => if Qleb pp pq then Qleb (px - (tol_rel9 * sigma + tol_law * Qabs mu)) x else true
                          | None => true end in
              if negb mono then (tag, Some (i, 4%Z)) else
              (* coverage tag: which rational approximation (normaldist.go:100-115), how deep a tail *)
              let rb := match invcdf_region_of pq with RCentral => 2%Z | RLow => 4%Z | RHigh => 8%Z end in
              let tb := if Qltb pq tail_deep then (if Qltb pq tail_extreme then 48%Z else 16%Z) else 0%Z in
              check_invcdf mu sigma t (Some (pq, x)) (i + 1)%Z (Z.lor tag (Z.lor rb tb))
          | _, _, _, _ => (tag, Some (i, 2%Z))
          end
      end
  end.

(* ---------- op 3: Rand ---------- *)
Fixpoint check_rand (mu sigma : Q) (pts : list (xreal * xreal)) (i : Z) : option Z :=
  match pts with
  | [] => None
  | (XFin z, XFin o) :: t =>
      let e := normal_rand mu sigma z in
      if within (2 * eps52 * (Qabs (z * sigma) + Qabs e)) e o then check_rand mu sigma t (i + 1)%Z else Some i
  | _ :: _ => Some i
  end.

(* ---------- op 5: DeltaDist ---------- *)
Definition xsame (a b : xreal) : bool :=
  match a, b with XNaN, XNaN => true | XInf s, XInf t => Bool.eqb s t | XFin p, XFin q => Qeqb p q | _, _ => false end.
Fixpoint check_delta_pts (T : xreal) (pts : list (xreal * xreal * xreal)) (i : Z) : option (Z * Z) :=
  match pts with
  | [] => None
  | (x, p, c) :: t =>
      if negb (xsame (delta_pdf T x) p) then Some (i, 1%Z)
      else if negb (xsame (delta_cdf T x) c) then Some (i, 2%Z)
      else check_delta_pts T t (i + 1)%Z
  end.
Fixpoint check_delta_inv (T : xreal) (pts : list (xreal * xreal)) (i : Z) : option (Z * Z) :=
  match pts with
  | [] => None
  | (y, v) :: t => if xsame (delta_invcdf T y) v then check_delta_inv T t (i + 1)%Z else Some (i, 3%Z)
  end.

(* within rounding of an exactly known value *)
Definition near (e : Q) (scale : Q) (o : xreal) : bool :=
  match o with XFin v => within (4 * eps52 * scale) e v | _ => false end.

(* ---------- op 6: monotonicity on the pairs located by the scan ---------- *)
(* codes: 2 value outside [0,1] / not finite, 3 CDF(xlo) > CDF(xhi) + 1e-12 for xlo < xhi *)
Fixpoint check_scan (pts : list (xreal * xreal * xreal * xreal)) (i : Z) : option (Z * Z) :=
  match pts with
  | [] => None
  | (XFin a, XFin b, XFin fa, XFin fb) :: t =>
      if negb (in01 fa && in01 fb) then Some (i, 2%Z)
      else if Qltb a b && negb (Qleb (fa - tol_law) fb) then Some (i, 3%Z)
      else if Qltb b a && negb (Qleb (fb - tol_law) fa) then Some (i, 3%Z)
      else check_scan t (i + 1)%Z
  | _ :: _ => Some (i, 2%Z)
  end.

Local Open Scope Z_scope.
Inductive c05case :=
| KNormal (mu sigma : Q) (mean var blo bhi : xreal) (pts : list gpoint)
| KInv (mu sigma : Q) (pts : list (xreal * xreal * xreal * xreal))
| KRand (mu sigma : Q) (pts : list (xreal * xreal))
| KT (v : Q) (blo bhi : xreal) (pts : list gpoint)
| KDelta (T : Q) (blo bhi : xreal) (pts : list (xreal * xreal * xreal)) (inv : list (xreal * xreal))
| KScan (fn : Z) (p1 p2 lo hi : Q) (n : Z) (pts : list (xreal * xreal * xreal * xreal)).

Definition p_line : parser c05case :=
  do id <- pZ; if negb (id =? 5) then (fun _ => None) else
  do op <- pZ;
  if op =? 1 then (do mu <- pQ; do sg <- pQ; do me <- pX; do va <- pX; do lo <- pX; do hi <- pX; do pts <- plist p_gpoint; pend (KNormal mu sg me va lo hi pts))
  else if op =? 2 then (do mu <- pQ; do sg <- pQ; do pts <- plist (do p <- pX; do x <- pX; do c <- pX; do d <- pX; pret (p, x, c, d)); pend (KInv mu sg pts))
  else if op =? 3 then (do mu <- pQ; do sg <- pQ; do pts <- plist (do z <- pX; do o <- pX; pret (z, o)); pend (KRand mu sg pts))
  else if op =? 4 then (do v <- pQ; do lo <- pX; do hi <- pX; do pts <- plist p_gpoint; pend (KT v lo hi pts))
  else if op =? 5 then (do T <- pQ; do lo <- pX; do hi <- pX; do pts <- plist (do x <- pX; do p <- pX; do c <- pX; pret (x, p, c));
                        do inv <- plist (do y <- pX; do v <- pX; pret (y, v)); pend (KDelta T lo hi pts inv))
  else if op =? 6 then (do fn <- pZ; do p1 <- pQ; do p2 <- pQ; do lo <- pQ; do hi <- pQ; do n <- pZ;
                        do pts <- plist (do a <- pX; do b <- pX; do fa <- pX; do fb <- pX; pret (a, b, fa, fb));
                        pend (KScan fn p1 p2 lo hi n pts))
  else (fun _ => None).

Local Open Scope Q_scope.
(* tags: 64*op + bits
   op 1 (64):  +1 standard normal / +2 other parameters, +4 a point >= 8 sigma out, +8 a point >= 37 sigma out
               (CDF underflows below -38.5), +16 infinite abscissa, +32 NaN abscissa
   op 2 (128): +1 special values seen, +2 central approximation, +4 lower-tail approximation, +8 upper-tail
               approximation, +16 a probability below 1e-12, +32 (with 16) below 1e-200
   op 3 (192): Rand
   op 4 (256): +1 V < 1 / +2 integer V / +3 half-integer V / +4 other V >= 1, +8 V > 200,
               +16 a point with |x| >= 100 or an infinite abscissa, +32 NaN abscissa
   op 5 (320): DeltaDist
   op 6 (384): +1 normal CDF scan / +2 t CDF scan, +4 a candidate jump was located and judged *)
Definition check_C05 (line : list Z) : list Z :=
  match p_line line with
  | None => verdict V_MALFORMED 0 (-1) []
  | Some (KNormal mu sg me va lo hi pts, _) =>
      if negb (Qltb 0 sg) then verdict V_MALFORMED 0 (-1) [] else
      let tag := (64 + (if Qeqb mu 0 && Qeqb sg 1 then 1 else 2) + grid_bits mu sg 8 37 pts 0)%Z in
      let '(elo, ehi) := normal_bounds mu sg in
      if negb (xsame (XFin (normal_mean mu sg)) me) then verdict V_MISMATCH tag (-1) [10%Z]
      else if negb (near (normal_variance mu sg) (sg * sg) va) then verdict V_MISMATCH tag (-1) [11%Z]
      else if negb (near elo (Qabs mu + 3 * sg) lo && near ehi (Qabs mu + 3 * sg) hi) then verdict V_MISMATCH tag (-1) [12%Z]
      else match check_grid (2 * mu) pts with
           | Some (i, c) => verdict V_MISMATCH tag i [c]
           | None => match centre_ok mu 0 pts 0 with
                     | Some (i, c) => verdict V_MISMATCH tag i [c]
                     | None => verdict V_OK tag (-1) []
                     end
           end
  | Some (KInv mu sg pts, _) =>
      if negb (Qltb 0 sg) then verdict V_MALFORMED 0 (-1) [] else
      match check_invcdf mu sg pts None 0 0 with
      | (tag, None) => verdict V_OK (128 + tag) (-1) []
      | (tag, Some (i, c)) => verdict V_MISMATCH (128 + tag) i [c]
      end
  | Some (KRand mu sg pts, _) =>
      match check_rand mu sg pts 0 with
      | None => verdict V_OK 192 (-1) []
      | Some i => verdict V_MISMATCH 192 i []
      end
  | Some (KT v lo hi pts, _) =>
      if negb (Qltb 0 v) then verdict V_MALFORMED 0 (-1) [] else
      let vclass := if Qltb v 1 then 1%Z else if Qeqb v (inject_Z (Qfloor v)) then 2%Z
                    else if Qeqb (2 * v) (inject_Z (Qfloor (2 * v))) then 3%Z else 4%Z in
      let gb := grid_bits 0 1 100 100 pts 0 in
      let tag := (256 + vclass + (if Qltb 200 v then 8 else 0)
                  + (if Z.testbit gb 2 || Z.testbit gb 4 then 16 else 0) + (if Z.testbit gb 5 then 32 else 0))%Z in
      let '(elo, ehi) := tdist_bounds in
      if negb (xsame (XFin elo) lo && xsame (XFin ehi) hi) then verdict V_MISMATCH tag (-1) [12%Z]
      else match check_grid 0 pts with
           | Some (i, c) => verdict V_MISMATCH tag i [c]
           | None => match centre_ok 0 0 pts 0 with
                     | Some (i, c) => verdict V_MISMATCH tag i [c]
                     | None => verdict V_OK tag (-1) []
                     end
           end
  | Some (KDelta T lo hi pts inv, _) =>
      let '(elo, ehi) := delta_bounds T in
      if negb (near elo (Qabs T + 1) lo && near ehi (Qabs T + 1) hi) then verdict V_MISMATCH 320 (-1) [12%Z]
      else match check_delta_pts (XFin T) pts 0 with
           | Some (i, c) => verdict V_MISMATCH 320 i [c]
           | None => match check_delta_inv (XFin T) inv 0 with
                     | Some (i, c) => verdict V_MISMATCH 320 i [c]
                     | None => verdict V_OK 320 (-1) []
                     end
           end
  | Some (KScan fn p1 p2 lo hi n pts, _) =>
      if negb (((fn =? 1) || (fn =? 2))%Z && Qltb lo hi && (8 <=? n)%Z) then verdict V_MALFORMED 0 (-1) [] else
      (* +4: the hunt located at least one candidate jump besides the smallest grid increment *)
      let tag := (384 + fn + (if (2 <=? Z.of_nat (length pts))%Z then 4 else 0))%Z in
      match pts with
      | [] => verdict V_MISMATCH tag (-1) [2%Z]        (* the scan must report its smallest increment *)
      | _ => match check_scan pts 0 with
             | Some (i, c) => verdict V_MISMATCH tag i [c]
             | None => verdict V_OK tag (-1) []
             end
      end
  end.

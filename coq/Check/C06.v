(* Check/C06.v — correspondence comparator for C06 (binomial / hypergeometric PMF, CDF, moments).
   Line:  6 op status ...
     op 0 (BinomialDist{N,P}):       6 0 status N Pbits  mean var mu sigma lo hi step  nitems { kbits pmfbits cdfbits }*
     op 1 (HypergeometicDist{N,K,D}): 6 1 status N K D    mean var       lo hi step  nitems { kbits pmfbits cdfbits }*
   status: 0 = all calls returned, 2 = a call panicked (then nitems = 0).
   One line carries a whole grid of k for one distribution; the exact values come from one
   shared table per line (weights over a common denominator and their running sums), see
   Proofs/C06Table.v for the equality of the table with the model functions; for small N every
   item is additionally evaluated with the model functions themselves (binom_pmf_i, binom_cdf_i,
   hg_pmf_i, hg_cdf_i — the latter two with the code's own sum/flip structure). *)
From MM Require Import Base.Num Base.GFSum Model.Choose Model.Binom Model.Hyperg.
From Coq Require Import Qround.
Local Open Scope Z_scope.

(* "PMF(k) equals the exact rational probability to within 1e-10"; the CDF clause is an equality
   of the same kind and is held to the same absolute tolerance *)
Definition tol_abs : Q := 1 # 10000000000.
(* Mean / Variance / NormalApprox are one to three float operations on exact inputs: 8 units of round-off *)
Definition tol_moment_rel : Q := (8 * ulp53)%Q.

(* |obs - u/(T*2^s)| <= tol, exactly; every big product has a small or power-of-two first factor *)
Definition dwithin (tol : Q) (u T s : Z) (obs : Q) : bool :=
  let on := Qnum obs in
  let od := Zpos (Qden obs) in
  let lhs := Z.abs (Z.shiftl (on * T) s - od * u) in
  Zpos (Qden tol) * lhs <=? Qnum tol * Z.shiftl (od * T) s.

(* ---------- shared tables: value of index lo + i is  w_i / (T * 2^s) ---------- *)
Record table := mkT { t_T : Z; t_s : Z; t_lo : Z; t_hi : Z; t_w : list Z; t_cum : list Z }.

Fixpoint scan (acc : Z) (l : list Z) : list Z :=
  match l with [] => [] | x :: t => (acc + x) :: scan (acc + x) t end.

(* binomial: w_k = C(n,k) a^k b^(n-k) with p = a/(a+b);  w_{k+1} = w_k (n-k) a / ((k+1) b), exact *)
Fixpoint bw_iter (n a b : Z) (steps : nat) (k w : Z) : list Z :=
  match steps with
  | O => []
  | S st => let w' := w * ((n - k) * a) / ((k + 1) * b) in w' :: bw_iter n a b st (k + 1) w'
  end.
Definition binom_weights (n a b : Z) : list Z :=
  if b =? 0 then repeat 0 (Z.to_nat n) ++ [a ^ n]
  else let w0 := b ^ n in w0 :: bw_iter n a b (Z.to_nat n) 0 w0.

Definition binom_table (n : Z) (p : Q) : table :=
  let a := Qnum p in
  let d := Zpos (Qden p) in
  let ws := binom_weights n a (d - a) in
  let e := Z.log2 d in
  if d =? Z.shiftl 1 e then mkT 1 (e * n) 0 n ws (scan 0 ws)      (* float64 inputs: d = 2^e *)
  else mkT (d ^ n) 0 0 n ws (scan 0 ws).

(* hypergeometric: u_k = C(K,k) C(N-K,n-k), T = C(N,n);
   u_{k+1} = u_k (K-k)(n-k) / ((k+1)(N-K-n+k+1)), exact *)
Fixpoint hw_iter (N K n : Z) (steps : nat) (k w : Z) : list Z :=
  match steps with
  | O => []
  | S st => let w' := w * ((K - k) * (n - k)) / ((k + 1) * (N - K - n + k + 1)) in
            w' :: hw_iter N K n st (k + 1) w'
  end.
Definition hg_weights (N K n : Z) : list Z :=
  let lo := hg_lo N K n in
  let w0 := hg_num N K n lo in
  w0 :: hw_iter N K n (Z.to_nat (hg_hi N K n - lo)) lo w0.
Definition hg_table (N K n : Z) : table :=
  let ws := hg_weights N K n in
  mkT (choose N n) 0 (hg_lo N K n) (hg_hi N K n) ws (scan 0 ws).

(* ---------- items ---------- *)
Definition is_zero (x : xreal) : bool := match x with XFin q => (Qnum q =? 0) | _ => false end.
Definition is_one (x : xreal) : bool := match x with XFin q => Qeq_bool q 1 | _ => false end.
Definition tab_close (t : table) (l : list Z) (i : Z) (x : xreal) : bool :=
  match x, nth_error l (Z.to_nat i) with
  | XFin q, Some u => dwithin tol_abs u (t_T t) (t_s t) q
  | _, _ => false
  end.
Definition tab_val (t : table) (l : list Z) (i : Z) : list Z :=      (* diagnostics: u, T, s *)
  match nth_error l (Z.to_nat i) with Some u => [u; t_T t; t_s t] | None => [] end.
Definition tab_q (t : table) (l : list Z) (i : Z) : option Q :=
  match nth_error l (Z.to_nat i) with
  | Some u => match (t_T t * Z.shiftl 1 (t_s t))%Z with Zpos d => Some (u # d) | _ => None end
  | None => None
  end.

(* which distribution a line is about *)
Inductive dist := DBin (n : Z) (p : Q) | DHg (N K n : Z).
(* the model functions themselves are evaluated too when that is cheap: N <= 14 and, for the
   binomial, P with at most 12 fractional bits (or N <= 4) *)
Definition small_limit : Z := 14.
Definition bin_small (n : Z) (p : Q) : bool :=
  (n <=? 4) || ((n <=? small_limit) && (Zpos (Qden p) <=? 4096)).
Definition model_agrees (d : dist) (t : table) (ki : Z) : bool :=
  let lo := t_lo t in let hi := t_hi t in
  match d with
  | DBin n p =>
      if negb (bin_small n p) then true else
      (if (ki <? lo) || (hi <? ki) then Qeq_bool (binom_pmf_i n p ki) 0
       else match tab_q t (t_w t) (ki - lo) with Some q => Qeq_bool (binom_pmf_i n p ki) q | None => false end)
      && (if ki <? lo then Qeq_bool (binom_cdf_i n p ki) 0
          else if hi <=? ki then Qeq_bool (binom_cdf_i n p ki) 1
          else match tab_q t (t_cum t) (ki - lo) with Some q => Qeq_bool (binom_cdf_i n p ki) q | None => false end)
  | DHg N K n =>
      if small_limit <? N then true else
      (if (ki <? lo) || (hi <? ki) then true
       else match tab_q t (t_w t) (ki - lo) with Some q => Qeq_bool (hg_pmf_i N K n ki) q | None => false end)
      && (if ki <? lo then Qeq_bool (hg_cdf_i N K n ki) 0
          else if hi <=? ki then Qeq_bool (hg_cdf_i N K n ki) 1
          else match tab_q t (t_cum t) (ki - lo) with Some q => Qeq_bool (hg_cdf_i N K n ki) q | None => false end)
  end.

(* tag bits: 1 pmf inside the support, 2 pmf outside, 4 cdf interior, 8 cdf below, 16 cdf from the top,
   32 non-integer k, 64 hypergeometric, 128 hg flipped branch, 256 hg direct branch,
   512 degenerate binomial (P = 0 or 1), 1024 model functions evaluated as well *)
Definition item_tag (d : dist) (t : table) (k : Q) (ki : Z) : Z :=
  let lo := t_lo t in let hi := t_hi t in
  let inside := negb ((ki <? lo) || (hi <? ki)) in
  let interior := negb (ki <? lo) && negb (hi <=? ki) in
  Z.lor (if inside then 1 else 2)
  (Z.lor (if ki <? lo then 8 else if hi <=? ki then 16 else 4)
  (Z.lor (if Qeq_bool k (inject_Z ki) then 0 else 32)
   match d with
   | DBin n p => Z.lor (if (Qnum p =? 0) || Qeq_bool p 1 then 512 else 0) (if bin_small n p then 1024 else 0)
   | DHg N K n => Z.lor 64 (Z.lor (if interior then (if hg_flip_test N K n ki then 128 else 256) else 0)
                                   (if small_limit <? N then 0 else 1024))
   end)).

(* the two comparisons made on one item, given ki = floor k: exact 0 outside the support / below it,
   exact 1 from its top, otherwise within tol_abs of the table entry *)
Definition pmf_ok_b (t : table) (ki : Z) (pm : xreal) : bool :=
  if (ki <? t_lo t) || (t_hi t <? ki) then is_zero pm else tab_close t (t_w t) (ki - t_lo t) pm.
Definition cdf_ok_b (t : table) (ki : Z) (cd : xreal) : bool :=
  if ki <? t_lo t then is_zero cd else if t_hi t <=? ki then is_one cd else tab_close t (t_cum t) (ki - t_lo t) cd.

(* result of one item: None = fine, Some (which, diag) = first failing observable (0 pmf, 1 cdf, 2 table/model) *)
Definition check_item (d : dist) (t : table) (k : Q) (pm cd : xreal) : option (Z * list Z) :=
  let ki := Qfloor k in
  let lo := t_lo t in let hi := t_hi t in
  if negb (model_agrees d t ki) then Some (2, [ki]) else
  if negb (pmf_ok_b t ki pm) then Some (0, ki :: (if (ki <? lo) || (hi <? ki) then [0; 1; 0] else tab_val t (t_w t) (ki - lo))) else
  if negb (cdf_ok_b t ki cd) then Some (1, ki :: (if ki <? lo then [0; 1; 0] else if hi <=? ki then [1; 1; 0] else tab_val t (t_cum t) (ki - lo))) else
  None.

(* items arrive as raw integers (k bits, pmf bits, cdf bits); an item whose floor(k) and observed
   bit patterns equal those of the last COMPARED item needs no further arithmetic (its comparisons
   would be the same ones: check_item depends on k only through floor k).  [prev] is None until an
   item has been compared, so no item is ever accepted without a comparison having been made on
   exactly its (floor k, pmf bits, cdf bits). *)
Fixpoint run_items (d : dist) (t : table) (items : list (Z * Z * Z)) (idx tag : Z) (prev : option (Z * Z * Z))
  : Z * option (Z * Z * list Z) :=
  match items with
  | [] => (tag, None)
  | (kb, pb, cb) :: rest =>
      match decode_bits kb with
      | XFin k =>
          let ki := Qfloor k in
          let tag' := Z.lor tag (item_tag d t k ki) in
          let same := match prev with
                      | Some (pki, ppb, pcb) => (ki =? pki) && (pb =? ppb) && (cb =? pcb)
                      | None => false
                      end in
          if same then run_items d t rest (idx + 1) tag' prev
          else match check_item d t k (decode_bits pb) (decode_bits cb) with
               | None => run_items d t rest (idx + 1) tag' (Some (ki, pb, cb))
               | Some (w, dg) => (tag', Some (idx, w, dg))
               end
      | _ => (tag, Some (idx, 3, []))           (* k must be finite: malformed *)
      end
  end.

Definition p_item : parser (Z * Z * Z) := do k <- pZ; do p <- pZ; do c <- pZ; pret (k, p, c).

Definition xclose_rel (rel : Q) (e : Q) (o : xreal) : bool :=
  match o with XFin q => close rel 0 e q | _ => false end.
Definition xis (z : Z) (o : xreal) : bool := xeq (XFin (inject_Z z)) o.

Definition first_false (l : list bool) : option Z :=
  (fix go (l : list bool) (i : Z) := match l with [] => None | true :: t => go t (i + 1) | false :: _ => Some i end) l 0.

Definition finish (d : dist) (t : table) (hdr : list bool) (items : list (Z * Z * Z)) : list Z :=
  match first_false hdr with
  | Some i => verdict V_MISMATCH 1 i []
  | None =>
      match run_items d t items 0 0 None with
      | (tag, None) => verdict V_OK tag (-1) []
      | (tag, Some (idx, w, dg)) =>
          if w =? 3 then verdict V_MALFORMED tag idx []
          else if w =? 2 then verdict V_MALFORMED tag idx (99 :: dg)     (* table <> model: a bug of ours *)
          else verdict V_MISMATCH tag (10 + 2 * idx + w) dg
      end
  end.

(* ---------- enclosure mode (group hK): P so close to 0 or 1 that the exact table is out of reach ----------
   For P = a/2^e the exact (1-P)^N has N*e bits and costs ~e^2 N^2/2 bit operations here (2.4 s at N = 101,
   P = 1e-12; > 100 s at N = 1000).  With m = min (P, 1-P) and eps = N (N-1) m^2 the Bernoulli inequality
   (1-m)^k >= 1 - k m and "the probabilities are >= 0 and sum to 1" enclose EVERY probability of the
   distribution in an interval of width <= eps with end points of a few hundred bits (Proofs/C06Encl.v):
     small side B(N, m):   pr 0 in [1 - N m, 1 - N m + eps],   pr 1 in [N m - eps, N m],   pr j in [0, eps] (j >= 2),
                           sum_{i<=j} pr i in [1 - eps, 1] for 1 <= j < N;
   P near 1 is the mirror image (k -> N - k, lower sums -> 1 - lower sums).  An observed value q is accepted
   iff U - tol_abs <= q <= L + tol_abs, which implies |q - exact| <= tol_abs for every exact in [L, U].
   The mode is used only when eps <= 1e-12 (1% of the tolerance) AND N * e > 9000 (no case of the quick tier
   before round 3 is that large; its largest is 170 * 40), so what the exact-table path accepts or rejects is untouched. *)
Definition encl_eps (n : Z) (m : Q) : Q := (inject_Z (n * (n - 1)) * m * m)%Q.
Definition encl_applies (n : Z) (m : Q) (d : positive) : bool :=
  (1 <=? n) && (9000 <? n * Z.log2 (Zpos d)) && Qle_bool (encl_eps n m) (1 # 1000000000000).
(* Some false: P near 0 (m = P);  Some true: P near 1 (m = 1 - P);  None: the exact table *)
Definition encl_side (n : Z) (p : Q) : option bool :=
  if encl_applies n p (Qden p) then Some false
  else if encl_applies n (1 - p) (Qden p) then Some true else None.
(* enclosure (L, U) of pr j of B(n, m), 0 <= j <= n *)
Definition encl_pmf (n : Z) (m : Q) (j : Z) : Q * Q :=
  let nm := (inject_Z n * m)%Q in let e := encl_eps n m in
  if j =? 0 then (1 - nm, 1 - nm + e)%Q else if j =? 1 then (nm - e, nm)%Q else (0%Q, e).
(* enclosure of sum_{i <= j} pr i of B(n, m), 0 <= j < n *)
Definition encl_cdf (n : Z) (m : Q) (j : Z) : Q * Q :=
  let nm := (inject_Z n * m)%Q in let e := encl_eps n m in
  if j =? 0 then (1 - nm, 1 - nm + e)%Q else (1 - e, 1)%Q.
Definition encl_flip (lu : Q * Q) : Q * Q := (1 - snd lu, 1 - fst lu)%Q.
Definition encl_close (lu : Q * Q) (x : xreal) : bool :=
  match x with XFin q => Qle_bool (snd lu - tol_abs) q && Qle_bool q (fst lu + tol_abs) | _ => false end.
(* the enclosures for floor k = ki of BinomialDist{n, P}: flip = false, m = P;  flip = true, m = 1 - P *)
Definition epmf_encl (n : Z) (m : Q) (flip : bool) (ki : Z) : Q * Q := encl_pmf n m (if flip then n - ki else ki).
Definition ecdf_encl (n : Z) (m : Q) (flip : bool) (ki : Z) : Q * Q :=
  if flip then encl_flip (encl_cdf n m (n - ki - 1)) else encl_cdf n m ki.
Definition epmf_ok_b (n : Z) (m : Q) (flip : bool) (ki : Z) (pm : xreal) : bool :=
  if (ki <? 0) || (n <? ki) then is_zero pm else encl_close (epmf_encl n m flip ki) pm.
Definition ecdf_ok_b (n : Z) (m : Q) (flip : bool) (ki : Z) (cd : xreal) : bool :=
  if ki <? 0 then is_zero cd else if n <=? ki then is_one cd else encl_close (ecdf_encl n m flip ki) cd.
Definition lu_diag (lu : Q * Q) : list Z := qdiag (fst lu) ++ qdiag (snd lu).
(* tag bit 2048: enclosure mode (the other bits as in item_tag; the table there is only asked for its bounds) *)
Fixpoint run_items_e (n : Z) (p m : Q) (flip : bool) (items : list (Z * Z * Z)) (idx tag : Z)
  : Z * option (Z * Z * list Z) :=
  match items with
  | [] => (tag, None)
  | (kb, pb, cb) :: rest =>
      match decode_bits kb with
      | XFin k =>
          let ki := Qfloor k in
          let tag' := Z.lor tag (Z.lor 2048 (item_tag (DBin n p) (mkT 1 0 0 n [] []) k ki)) in
          if negb (epmf_ok_b n m flip ki (decode_bits pb)) then
            (tag', Some (idx, 0, ki :: (if (ki <? 0) || (n <? ki) then [0; 1; 0; 1] else lu_diag (epmf_encl n m flip ki))))
          else if negb (ecdf_ok_b n m flip ki (decode_bits cb)) then
            (tag', Some (idx, 1, ki :: (if ki <? 0 then [0; 1; 0; 1] else if n <=? ki then [1; 1; 1; 1] else lu_diag (ecdf_encl n m flip ki))))
          else run_items_e n p m flip rest (idx + 1) tag'
      | _ => (tag, Some (idx, 3, []))
      end
  end.
Definition finish_e (n : Z) (p : Q) (flip : bool) (hdr : list bool) (items : list (Z * Z * Z)) : list Z :=
  match first_false hdr with
  | Some i => verdict V_MISMATCH 1 i []
  | None =>
      match run_items_e n p (if flip then 1 - p else p)%Q flip items 0 0 with
      | (tag, None) => verdict V_OK tag (-1) []
      | (tag, Some (idx, w, dg)) =>
          if w =? 3 then verdict V_MALFORMED tag idx []
          else verdict V_MISMATCH tag (10 + 2 * idx + w) dg
      end
  end.

(* ---------- the decoded case ---------- *)
Record bin_case := mkBin { b_n : Z; b_p : Q;
                           b_mean : xreal; b_var : xreal; b_mu : xreal; b_sigma : xreal;
                           b_lo : xreal; b_hi : xreal; b_step : xreal;
                           b_items : list (Z * Z * Z) }.
Record hg_case := mkHg { h_N : Z; h_K : Z; h_n : Z;
                         h_mean : xreal; h_var : xreal;
                         h_lo : xreal; h_hi : xreal; h_step : xreal;
                         h_items : list (Z * Z * Z) }.
(* CPanic op status: some call panicked (status <> 0); the rest of the line is not looked at *)
Inductive c06case := CPanic (op st : Z) | CBin (c : bin_case) | CHg (c : hg_case).

Definition p_bin : parser c06case :=
  do n <- pZ; do p <- pQ; do mean <- pX; do var <- pX; do mu <- pX; do sg <- pX;
  do lo <- pX; do hi <- pX; do stp <- pX; do items <- plist p_item;
  pend (CBin (mkBin n p mean var mu sg lo hi stp items)).
Definition p_hg : parser c06case :=
  do N <- pZ; do K <- pZ; do n <- pZ; do mean <- pX; do var <- pX;
  do lo <- pX; do hi <- pX; do stp <- pX; do items <- plist p_item;
  pend (CHg (mkHg N K n mean var lo hi stp items)).
Definition p_line : parser c06case := fun line =>
  match line with
  | 6 :: 0 :: st :: rest => if negb (st =? 0) then Some (CPanic 0 st, []) else p_bin rest
  | 6 :: 1 :: st :: rest => if negb (st =? 0) then Some (CPanic 1 st, []) else p_hg rest
  | _ => None
  end.

(* the parameter ranges the property speaks about; anything else is a malformed line *)
Definition bin_valid (c : bin_case) : bool := negb ((b_n c <? 0) || Qltb (b_p c) 0 || Qltb 1 (b_p c)).
Definition hg_valid_b (c : hg_case) : bool :=
  negb ((h_N c <? 2) || (h_K c <? 0) || (h_N c <? h_K c) || (h_n c <? 0) || (h_N c <? h_n c)).

(* header comparisons, in the order of the line: 0 Mean, 1 Variance, 2 NormalApprox.Mu, 3 NormalApprox.Sigma,
   4 Bounds lo, 5 Bounds hi, 6 Step.  HypergeometicDist has no NormalApprox: positions 2, 3 are not on its
   line and the two [true] only keep the position numbering common. *)
Definition bin_hdr (c : bin_case) : list bool :=
  let n := b_n c in let p := b_p c in
  let '(emu, evar) := binom_normal_approx n p in
  [ xclose_rel tol_moment_rel (binom_mean n p) (b_mean c);
    xclose_rel tol_moment_rel (binom_var n p) (b_var c);
    xclose_rel tol_moment_rel emu (b_mu c);
    match b_sigma c with XFin s => close_sqrt (2 * tol_moment_rel * evar)%Q evar s | _ => false end;
    xis (fst (binom_bounds n)) (b_lo c); xis (snd (binom_bounds n)) (b_hi c); xis binom_step (b_step c) ].
Definition hg_hdr (c : hg_case) : list bool :=
  let N := h_N c in let K := h_K c in let n := h_n c in
  [ xclose_rel tol_moment_rel (hg_mean N K n) (h_mean c);
    xclose_rel tol_moment_rel (hg_var N K n) (h_var c);
    true; true;
    xis (fst (hg_bounds N K n)) (h_lo c); xis (snd (hg_bounds N K n)) (h_hi c); xis hg_step (h_step c) ].

Definition check_case (cs : c06case) : list Z :=
  match cs with
  | CPanic _ st => verdict V_MISMATCH 1 (-2) [st]
  | CBin c =>
      if negb (bin_valid c) then verdict V_MALFORMED 0 (-1) [] else
      match encl_side (b_n c) (b_p c) with
      | Some flip => finish_e (b_n c) (b_p c) flip (bin_hdr c) (b_items c)
      | None => finish (DBin (b_n c) (b_p c)) (binom_table (b_n c) (b_p c)) (bin_hdr c) (b_items c)
      end
  | CHg c =>
      if negb (hg_valid_b c) then verdict V_MALFORMED 0 (-1) [] else
      finish (DHg (h_N c) (h_K c) (h_n c)) (hg_table (h_N c) (h_K c) (h_n c)) (hg_hdr c) (h_items c)
  end.

Definition check_C06 (line : list Z) : list Z :=
  match p_line line with
  | Some (cs, _) => check_case cs
  | None => verdict V_MALFORMED 0 (-1) []
  end.

(* Check/C07.v — correspondence comparator for C07 (generic InvCDF, Rand).
   Line:  7 op ...
     op 0  InvCDF of a harness-defined distribution with a piecewise cdf:
           7 0  nk { x l v }*  bl bh  ny { y st obs }*
     op 1  InvCDF(BinomialDist{N,P}):            7 1 N P      ny { y st obs }*
     op 2  InvCDF(HypergeometicDist{N,K,D}):     7 2 N K D    ny { y st obs }*
     op 3  dispatch (NormalDist / DeltaDist):    7 3 kind a b  ny { y st generic method }*  nr { generic method }*
           (bit patterns of stats.InvCDF(d)(y) and d.InvCDF(y); of stats.Rand(d)(r) and d.Rand(r'))
     op 4  Rand on a piecewise distribution with a scripted source:
           7 4  nk { x l v }*  bl bh  nsrc { int63 }*  st consumed y draw  ist inv
     op 5  supporting evidence: Kolmogorov-Smirnov distance D (computed by the harness against the
           distribution's own float64 CDF) of n draws of stats.Rand with a seeded math/rand source:
           7 5  nk { x l v }*  bl bh  n st D
     op 6  built-in distributions without a quantile method and without an exact model here
           (TDist, UDist, KDE), relational (oracle instantiation: F := the implementation's own CDF,
           reported by the harness at the points the statement needs):
           7 6 kind  bl bh cbl cbh  ny { y st x xm c0 cm }*
           bl bh = Bounds(), cbl = CDF(bl), cbh = CDF(bh), x = InvCDF(y), xm = x - tol, c0 = CDF(x), cm = CDF(xm)
   All of x l v bl bh y obs ... are float64 bit patterns; st: 0 = returned, 2 = panicked.
   knot (x, l, v): break point, left limit, value (see Model/InvCDF.v). *)
From MM Require Import Base.Num Model.Choose Model.Binom Model.Hyperg Model.InvCDF Check.C06.
From Coq Require Import Qround.
Local Open Scope Z_scope.

(* "to within 1e-9 relative": 1e-9 |x*| + 1e-9 scale, scale = largest |break point| (where the
   distribution is located) *)
Definition e9 : Q := 1 # 1000000000.
Definition tol_x (scale q : Q) : Q := (e9 * Qabs q + e9 * scale)%Q.
(* bisectBool stops when high - low <= xtol = 1e-16 (dist.go:124, alg.go:90): near 0 the result is only
   ABSOLUTELY accurate.  A result within 2e-16 of the quantile but outside the relative tolerance is
   reported under its own signature (verdict code 10 = "xtol-limited accuracy near 0"), which counts as
   a violation unless KNOWN_FINDINGS.txt lists it.  The default generators keep break points at 0 or
   >= 2^-22 in magnitude, where the relative tolerance already covers 1e-16. *)
Definition xtol_window : Q := 1 # 5000000000000000.
Definition V_XTOL : Z := 10.
(* slack on "CDF(result) >= y": the harness evaluates a ramp in float64 (two roundings) *)
Definition eps_level : Q := 1 # 1000000000000.
(* halvings of the model bisection the observed value is enclosed by *)
Definition model_halvings : nat := 12.

Definition xdiag (x : xreal) : list Z :=
  match x with XNaN => [0] | XInf b => [1; if b then 1 else 0] | XFin q => 2 :: qdiag q end.

(* tag bits *)
Definition T_REG := 1.        (* 0 < y < 1: bracket + bisection *)
Definition T_SPECIAL := 2.    (* y = 0 or y = 1, end point returned *)
Definition T_NAN := 4.        (* y < 0, y > 1, +-Inf *)
Definition T_RIGHT := 8.      (* bracket expanded to the right *)
Definition T_LEFT := 16.      (* ... to the left *)
Definition T_FAR := 32.       (* more than two doublings *)
Definition T_JUMP := 64.      (* the answer is a jump point *)
Definition T_FLAT := 128.     (* y is exactly the level of a flat stretch (answer = its left end) *)
Definition T_RAMP := 256.     (* the answer is inside a ramp *)
Definition T_DISCRETE := 512. (* built-in discrete distribution *)
Definition T_DISPATCH := 1024.
Definition T_RAND := 2048.
Definition T_ZEROSKIP := 4096.  (* Rand skipped leading zeros *)
Definition T_INF := 8192.     (* y = 0 / 1 answered by -Inf / +Inf *)
Definition T_PANIC := 16384.  (* y = NaN *)
Definition T_EXACTLEVEL := 32768.  (* y equals a level of the cdf at a knot *)
Definition T_BORDER := 65536.
Definition T_KS := 131072.
Definition T_REL := 262144.   (* relational check against the implementation's own CDF *)

(* Dvoretzky-Kiefer-Wolfowitz (Massart): P (D_n > e) <= 2 exp (-2 n e^2).  False-alarm bound 1e-9:
   2 n D^2 <= ln (2e9) = 21.4164...  (the logarithm is a constant here, rounded up) *)
Definition ks_bound : Q := 2142 # 100.

(* ---------- classification of the exact answer (tags only) ---------- *)
Fixpoint q_kind_from (pv : Q) (rest : pwf) (y : Q) : Z :=
  match rest with
  | [] => 0
  | (xi, li, vi) :: r =>
      if Qle_bool y li then Z.lor T_RAMP (if Qeq_bool y li then T_EXACTLEVEL else 0)
      else if Qle_bool y vi then Z.lor T_JUMP (if Qeq_bool y vi then T_EXACTLEVEL else 0)
      else q_kind_from vi r y
  end.
Definition q_kind (pw : pwf) (y : Q) : Z :=
  match pw with
  | [] => 0
  | (_, _, v0) :: r => if Qle_bool y v0 then Z.lor T_JUMP (if Qeq_bool y v0 then T_EXACTLEVEL else 0) else q_kind_from v0 r y
  end.
Fixpoint flat_at (pw : pwf) (y : Q) : bool :=
  match pw with
  | (_, _, v) :: (((_, l', _) :: _) as r) => (Qeq_bool v y && Qeq_bool l' y) || flat_at r y
  | _ => false
  end.

(* ---------- one requested level on a piecewise distribution ---------- *)
(* result: tag, None = agrees | Some diag *)
Definition check_pw_y (pw : pwf) (bl bh scale : Q) (y : xreal) (st : Z) (obs : xreal) : Z * option (list Z) :=
  match y with
  | XNaN => (T_PANIC, if st =? 2 then None else Some [1])
  | XInf _ => (T_NAN, if (st =? 0) && is_nan obs then None else Some [2])
  | XFin yq =>
      match inv_special (pw_cdf pw) bl bh yq with
      | Some r =>
          (match r with XNaN => T_NAN | XInf _ => Z.lor T_SPECIAL T_INF | XFin _ => T_SPECIAL end,
           if (st =? 0) && xeq r obs then None else Some (3 :: xdiag r))
      | None =>
          match pw_quantile pw yq, invcdf_core (pw_cdf pw) go_expand_fuel model_halvings yq with
          | Some q, Some ((lo, hi), (x1, x2)) =>
              let tag := Z.lor T_REG (Z.lor (if goes_right (pw_cdf pw) yq then T_RIGHT else T_LEFT)
                         (Z.lor (if Qle_bool 4 (hi - lo) then T_FAR else 0)
                         (Z.lor (q_kind pw yq) (if flat_at pw yq then T_FLAT else 0)))) in
              match obs with
              | XFin o =>
                  let tol := tol_x scale q in
                  if negb (st =? 0) then (tag, Some (4 :: qdiag q))
                  else if negb (within (tol + xtol_window) q o) then (tag, Some (5 :: qdiag q))   (* not the quantile *)
                  else if negb (within tol q o) then (tag, Some (98 :: qdiag q))               (* only absolutely accurate: xtol *)
                  else if negb (Qle_bool (yq - eps_level) (pw_cdf pw o)) then (tag, Some (6 :: qdiag q))  (* CDF(result) < y: not the upper end *)
                  else if negb (Qle_bool (x1 - tol - xtol_window) o && Qle_bool o (x2 + tol + xtol_window)) then (tag, Some (7 :: qdiag x1 ++ qdiag x2))
                  else (tag, None)
              | _ => (tag, Some (4 :: qdiag q))
              end
          | _, _ => (0, Some [99])
          end
      end
  end.

Definition p_knot : parser knot := do x <- pQ; do l <- pQ; do v <- pQ; pret (x, l, v).
Definition p_item : parser (xreal * Z * xreal) := do y <- pX; do st <- pZ; do o <- pX; pret (y, st, o).

Fixpoint run_pw_items (pw : pwf) (bl bh scale : Q) (items : list (xreal * Z * xreal)) (idx tag : Z)
  : Z * option (Z * list Z) :=
  match items with
  | [] => (tag, None)
  | (y, st, o) :: rest =>
      let '(t, r) := check_pw_y pw bl bh scale y st o in
      match r with
      | None => run_pw_items pw bl bh scale rest (idx + 1) (Z.lor tag t)
      | Some dg => (Z.lor tag t, Some (idx, dg))
      end
  end.

Definition pw_scale (pw : pwf) : Q := Qmaxabs (map (fun k : knot => fst (fst k)) pw).

(* ---------- built-in discrete distributions ---------- *)
(* exact cdf at the support points lo..hi: Model.InvCDF.disc_table; smallest support point with
   cdf >= t: disc_quantile (Proofs: disc_quantile_spec) *)
Definition cdf_table := disc_table.
Definition first_ge := disc_quantile.
(* Above [small_limit] (= 14, Check/C06.v) the model functions binom_cdf_i / hg_cdf_i are too slow to
   tabulate (N = 80: 35 s); the exact cumulative probabilities then come from C06's shared table
   (running sums of integer weights over a common denominator; Check/C06.v checks it against the model
   functions for every N <= 14 on every run, Proofs/C06Table.v proves the equality). *)
Fixpoint fast_entries (t : table) (i : nat) (cnt : nat) : list (Z * Q) :=
  match cnt with
  | O => []
  | S c => match tab_q t (t_cum t) (Z.of_nat i) with
           | Some q => (t_lo t + Z.of_nat i, Qred q) :: fast_entries t (S i) c
           | None => []
           end
  end.
Definition fast_table (t : table) : list (Z * Q) := fast_entries t 0 (length (t_cum t)).

Definition check_disc_y (tab : list (Z * Q)) (lo hi : Z) (y : xreal) (st : Z) (obs : xreal) : Z * option (list Z) :=
  match y with
  | XNaN => (T_PANIC, if st =? 2 then None else Some [1])
  | XInf _ => (T_NAN, if (st =? 0) && is_nan obs then None else Some [2])
  | XFin yq =>
      let cdf_lo := match tab with (_, c) :: _ => c | [] => 1%Q end in
      if Qltb yq 0 || Qltb 1 yq then (T_NAN, if (st =? 0) && is_nan obs then None else Some [2])
      else if Qeq_bool yq 0 then
        let r := if Qeq_bool cdf_lo 0 then XFin (inject_Z lo) else XInf true in
        (Z.lor T_DISCRETE (match r with XInf _ => Z.lor T_SPECIAL T_INF | _ => T_SPECIAL end),
         if (st =? 0) && xeq r obs then None else Some (3 :: xdiag r))
      else if Qeq_bool yq 1 then
        (Z.lor T_DISCRETE T_SPECIAL, if (st =? 0) && xeq (XFin (inject_Z hi)) obs then None else Some (3 :: xdiag (XFin (inject_Z hi))))
      else
        let k := first_ge tab yq hi in
        let k1 := first_ge tab (yq - e9)%Q hi in
        let k2 := first_ge tab (Qminb 1 (yq + e9))%Q hi in
        let tag := Z.lor T_DISCRETE (Z.lor T_REG (Z.lor T_JUMP (Z.lor (if 0 <? k then T_RIGHT else T_LEFT)
                    (Z.lor (if 3 <? k then T_FAR else 0) (if k1 =? k2 then 0 else T_BORDER))))) in
        match obs with
        | XFin o =>
            (* the bisection ends at the smallest float with CDF >= y: the support point itself *)
            let ko := Qfloor o in
            if (st =? 0) && (k1 <=? ko) && (ko <=? k2) && Qle_bool (o - inject_Z ko) (e9 * inject_Z ko + xtol_window)%Q
            then (tag, None) else (tag, Some [5; k; k1; k2])
        | _ => (tag, Some [4; k; k1; k2])
        end
  end.

Fixpoint run_disc_items (tab : list (Z * Q)) (lo hi : Z) (items : list (xreal * Z * xreal)) (idx tag : Z)
  : Z * option (Z * list Z) :=
  match items with
  | [] => (tag, None)
  | (y, st, o) :: rest =>
      let '(t, r) := check_disc_y tab lo hi y st o in
      match r with
      | None => run_disc_items tab lo hi rest (idx + 1) (Z.lor tag t)
      | Some dg => (Z.lor tag t, Some (idx, dg))
      end
  end.

Definition finish (r : Z * option (Z * list Z)) : list Z :=
  match r with
  | (tag, None) => verdict (if Z.land tag T_BORDER =? 0 then V_OK else V_BORDERLINE) tag (-1) []
  | (tag, Some (idx, dg)) =>
      match dg with
      | [99] => verdict V_MALFORMED tag idx dg
      | 98 :: d => verdict V_XTOL tag idx d
      | _ => verdict V_MISMATCH tag idx dg
      end
  end.

(* ---------- dispatch: both bit patterns must be the same integer ---------- *)
Definition p_disp : parser (Z * Z * Z * Z) := do y <- pZ; do st <- pZ; do g <- pZ; do m <- pZ; pret (y, st, g, m).
Definition p_pair : parser (Z * Z) := do g <- pZ; do m <- pZ; pret (g, m).
Fixpoint run_disp (items : list (Z * Z * Z * Z)) (idx : Z) : option (Z * list Z) :=
  match items with
  | [] => None
  | (y, st, g, m) :: rest => if (st =? 0) && (g =? m) then run_disp rest (idx + 1) else Some (idx, [8; st; g; m])
  end.
Fixpoint run_pairs (items : list (Z * Z)) (idx : Z) : option (Z * list Z) :=
  match items with
  | [] => None
  | (g, m) :: rest => if g =? m then run_pairs rest (idx + 1) else Some (idx, [9; g; m])
  end.

(* ---------- relational check (C07_invcdf_generic_regular with F := the reported CDF values):
   the result x satisfies CDF(x) >= y, and CDF(x - tol) < y with tol <= 1.001e-9 |x| + 2e-15 (the harness forms x - tol in float64), i.e. x is
   within the property's tolerance of the smallest point with CDF >= y; y = 0 / 1 by the end-point rule ---------- *)
Definition check_rel_y (slack : Q) (bl bh cbl cbh : xreal) (y : xreal) (st : Z) (x xm c0 cm : xreal) : Z * option (list Z) :=
  match y with
  | XNaN => (T_PANIC, if st =? 2 then None else Some [1])
  | XInf _ => (T_NAN, if (st =? 0) && is_nan x then None else Some [2])
  | XFin yq =>
      if Qltb yq 0 || Qltb 1 yq then (T_NAN, if (st =? 0) && is_nan x then None else Some [2])
      else if Qeq_bool yq 0 then
        let r := if xeq (XFin 0) cbl then bl else XInf true in
        (Z.lor T_SPECIAL (match r with XInf _ => T_INF | _ => 0 end), if (st =? 0) && xeq r x then None else Some (3 :: xdiag r))
      else if Qeq_bool yq 1 then
        let r := if xeq (XFin 1) cbh then bh else XInf false in
        (Z.lor T_SPECIAL (match r with XInf _ => T_INF | _ => 0 end), if (st =? 0) && xeq r x then None else Some (3 :: xdiag r))
      else
        let tag := Z.lor T_REG T_REL in
        match x, xm, c0, cm with
        | XFin xq, XFin xmq, XFin c0q, XFin cmq =>
            if negb (st =? 0) then (tag, Some [4])
            else if negb (Qltb xmq xq && Qle_bool (xq - xmq) ((1001 # 1000) * e9 * Qabs xq + (2 # 1000000000000000))%Q) then (tag, Some [99])
            else if negb (Qle_bool yq c0q) then (tag, Some (10 :: qdiag c0q))      (* CDF(x) < y *)
            else if negb (Qltb cmq (yq + slack)) then (tag, Some (11 :: qdiag cmq))  (* CDF(x - tol) >= y: not the smallest *)
            else (Z.lor tag (if Qle_bool 0 xq then T_RIGHT else T_LEFT), None)
        | _, _, _, _ => (tag, Some [4])
        end
  end.
Definition p_rel : parser (xreal * Z * (xreal * xreal * xreal * xreal)) :=
  do y <- pX; do st <- pZ; do x <- pX; do xm <- pX; do c0 <- pX; do cm <- pX; pret (y, st, (x, xm, c0, cm)).
Fixpoint run_rel_items (slack : Q) (bl bh cbl cbh : xreal) (items : list (xreal * Z * (xreal * xreal * xreal * xreal))) (idx tag : Z)
  : Z * option (Z * list Z) :=
  match items with
  | [] => (tag, None)
  | (y, st, (x, xm, c0, cm)) :: rest =>
      let '(t, r) := check_rel_y slack bl bh cbl cbh y st x xm c0 cm in
      match r with
      | None => run_rel_items slack bl bh cbl cbh rest (idx + 1) (Z.lor tag t)
      | Some dg => (Z.lor tag t, Some (idx, dg))
      end
  end.

Definition valid_pw (pw : pwf) : bool := pw_wfb pw.

Definition check_C07 (line : list Z) : list Z :=
  match line with
  | 7 :: 0 :: rest =>
      match (do pw <- plist p_knot; do bl <- pQ; do bh <- pQ; do items <- plist p_item; pend (pw, bl, bh, items)) rest with
      | Some ((pw, bl, bh, items), _) =>
          if negb (valid_pw pw) then verdict V_MALFORMED 0 (-1) [] else
          finish (run_pw_items pw bl bh (pw_scale pw) items 0 0)
      | None => verdict V_MALFORMED 0 (-1) []
      end
  | 7 :: 1 :: rest =>
      match (do n <- pZ; do p <- pQ; do items <- plist p_item; pend (n, p, items)) rest with
      | Some ((n, p, items), _) =>
          if (n <? 0) || (200 <? n) || Qltb p 0 || Qltb 1 p then verdict V_MALFORMED 0 (-1) [] else
          let tab := if n <=? small_limit then cdf_table (binom_cdf_i n p) 0 (Z.to_nat (n + 1)) else fast_table (binom_table n p) in
          if negb (Z.of_nat (length tab) =? n + 1) then verdict V_MALFORMED 0 (-1) [98] else
          finish (run_disc_items tab 0 n items 0 0)
      | None => verdict V_MALFORMED 0 (-1) []
      end
  | 7 :: 2 :: rest =>
      match (do N <- pZ; do K <- pZ; do n <- pZ; do items <- plist p_item; pend (N, K, n, items)) rest with
      | Some ((N, K, n, items), _) =>
          if (N <? 2) || (200 <? N) || (K <? 0) || (N <? K) || (n <? 0) || (N <? n) then verdict V_MALFORMED 0 (-1) [] else
          let lo := hg_lo N K n in let hi := hg_hi N K n in
          let tab := if N <=? small_limit then cdf_table (hg_cdf_i N K n) lo (Z.to_nat (hi - lo + 1)) else fast_table (hg_table N K n) in
          if negb (Z.of_nat (length tab) =? hi - lo + 1) then verdict V_MALFORMED 0 (-1) [98] else
          finish (run_disc_items tab lo hi items 0 0)
      | None => verdict V_MALFORMED 0 (-1) []
      end
  | 7 :: 3 :: rest =>
      match (do kind <- pZ; do a <- pZ; do b <- pZ; do items <- plist p_disp; do pairs <- plist p_pair; pend (items, pairs)) rest with
      | Some ((items, pairs), _) =>
          match run_disp items 0 with
          | Some (idx, dg) => verdict V_MISMATCH T_DISPATCH idx dg
          | None => match run_pairs pairs 0 with
                    | Some (idx, dg) => verdict V_MISMATCH T_DISPATCH (1000 + idx) dg
                    | None => verdict V_OK (match items, pairs with [], [] => 0 | _, _ => T_DISPATCH end) (-1) []
                    end
          end
      | None => verdict V_MALFORMED 0 (-1) []
      end
  | 7 :: 4 :: rest =>
      match (do pw <- plist p_knot; do bl <- pQ; do bh <- pQ; do src <- plist pZ;
             do st <- pZ; do consumed <- pZ; do y <- pX; do draw <- pZ; do ist <- pZ; do inv <- pZ;
             pend (pw, bl, bh, src, (st, consumed, y), (draw, ist, inv))) rest with
      | Some ((pw, bl, bh, src, (st, consumed, y), (draw, ist, inv)), _) =>
          if negb (valid_pw pw) || existsb (fun v => (v <? 0) || (2 ^ 63 <=? v) || negb (Z.land v 1023 =? 0)) src
          then verdict V_MALFORMED 0 (-1) [] else
          (* the model of Rand: which element of the source is used, how many are consumed *)
          match rand_model (fun q => q) (map float64_of_int63 src) with
          | None => verdict V_MALFORMED 0 (-1) []
          | Some (yq, n) =>
              let tag := Z.lor T_RAND (if (1 <? n)%nat then T_ZEROSKIP else 0) in
              if negb (st =? 0) then verdict V_MISMATCH tag 0 [st]
              else if negb (consumed =? Z.of_nat n) then verdict V_MISMATCH tag 1 [Z.of_nat n; consumed]
              else if negb (xeq (XFin yq) y) then verdict V_MISMATCH tag 2 (qdiag yq)
              else if negb ((ist =? 0) && (draw =? inv)) then verdict V_MISMATCH tag 3 [ist; draw; inv]   (* draw = InvCDF(dist)(y), bit for bit *)
              else
                let '(t, r) := check_pw_y pw bl bh (pw_scale pw) (XFin yq) ist (decode_bits inv) in
                match r with
                | None => verdict V_OK (Z.lor tag t) (-1) []
                | Some dg => match dg with
                             | [99] => verdict V_MALFORMED tag 4 dg
                             | 98 :: d => verdict V_XTOL (Z.lor tag t) 4 d
                             | _ => verdict V_MISMATCH (Z.lor tag t) 4 dg
                             end
                end
          end
      | None => verdict V_MALFORMED 0 (-1) []
      end
  | 7 :: 6 :: rest =>
      match (do kind <- pZ; do bl <- pX; do bh <- pX; do cbl <- pX; do cbh <- pX; do items <- plist p_rel;
             pend (kind, bl, bh, cbl, cbh, items)) rest with
      | Some ((kind, bl, bh, cbl, cbh, items), _) =>
          (* step functions (UDist) are evaluated exactly; a smooth float64 CDF is flat or noisy at the
             1e-16 level where its derivative vanishes (an Epanechnikov kernel's edge, t near 0) *)
          finish (run_rel_items (if kind =? 1 then 0 else eps_level) bl bh cbl cbh items 0 0)
      | None => verdict V_MALFORMED 0 (-1) []
      end
  | 7 :: 5 :: rest =>
      match (do pw <- plist p_knot; do bl <- pQ; do bh <- pQ; do n <- pZ; do st <- pZ; do d <- pX; pend (pw, n, st, d)) rest with
      | Some ((pw, n, st, d), _) =>
          if negb (valid_pw pw) || (n <? 1) then verdict V_MALFORMED 0 (-1) [] else
          match d with
          | XFin dq => if (st =? 0) && Qle_bool 0 dq && Qle_bool (dq * dq * inject_Z (2 * n)) ks_bound
                       then verdict V_OK (Z.lor T_RAND T_KS) (-1) []
                       else verdict V_MISMATCH (Z.lor T_RAND T_KS) 0 (st :: qdiag dq)
          | _ => verdict V_MISMATCH (Z.lor T_RAND T_KS) 0 [st]
          end
      | None => verdict V_MALFORMED 0 (-1) []
      end
  | _ => verdict V_MALFORMED 0 (-1) []
  end.

(* Check/C07.v — correspondence comparator for C07 (generic InvCDF, Rand).
   Line:  7 op ...
     op 0  InvCDF of a harness-defined distribution with a piecewise cdf:
           7 0  nk { x l v }*  bl bh  ny { y st obs }*
     op 1  InvCDF(BinomialDist{N,P}):            7 1 N P      ny { y st obs }*
     op 2  InvCDF(HypergeometicDist{N,K,D}):     7 2 N K D    ny { y st obs }*
     op 3  dispatch (NormalDist / DeltaDist):    7 3 kind a b  ny { y st generic method }*  nr { generic method }*
           (bit patterns of stats.InvCDF(d)(y) and d.InvCDF(y); of stats.Rand(d)(r) and d.Rand(r'))
     op 4  Rand on a piecewise distribution with a scripted source:
           7 4  nk { x l v }*  bl bh  nsrc { int63 }*  st consumed y draw  ist inv
     op 5  supporting evidence: Kolmogorov-Smirnov distance D (computed by the harness against the
           distribution's own float64 CDF) of n draws of stats.Rand with a seeded math/rand source:
           7 5  nk { x l v }*  bl bh  n st D
     op 6  built-in distributions without a quantile method and without an exact model here
           (TDist, UDist, KDE), relational (oracle instantiation: F := the implementation's own CDF,
           reported by the harness at the points the statement needs):
           7 6 kind par own hst  bl bh cbl cbh cpl cph  ny { y st x xm c0 cm xp cp rst ref }*  nr { g m }*
           par: the first parameter (TDist: V);  own: bit 0 the distribution has its own InvCDF method, bit 1 its own Rand method;
           bl bh = Bounds(), cbl = CDF(bl), cbh = CDF(bh), cpl = CDF(-2^1023), cph = CDF(2^1023) (the last
           finite probes of the bracket expansion), x = InvCDF(y), xm = x - tol, c0 = CDF(x), cm = CDF(xm);
           ref = the distribution's own method at y (own bit 0) / stats.InvCDF of a bare wrapper that
           forwards only CDF and Bounds (otherwise): x and ref must be the same bits;
           g m = stats.Rand(d)(r) next to the reference generator (own Rand method / InvCDF(d) at the
           first non-zero value of an equally seeded source)
           kinds: 0 TDist 1 UDist 2 KDE 3 Binomial 4 Hypergeometric 5 Normal 6 Delta 7 harness geometric
           8 harness Poisson (7, 8: full DiscreteDist, infinite support, approximate Bounds) 9 harness atom +
           exponential tail (mixed) 10 harness two-sided power law (continuous, heavy tails)
     op 8  Kolmogorov-Smirnov distance computed HERE: the n draws of stats.Rand with a seeded math/rand
           source, sorted by the harness, against the exact pw_cdf:   7 8  nk { x l v }*  bl bh  st  n { draw }*
           hst: 0, or 2 / 3 when Bounds / CDF / the constructors panicked (a mismatch; the line ends there)
     op 9  the distribution has its OWN Rand method: determinism, two equally seeded sources:
           7 9 hdr  n { st1 draw1 st2 draw2 }*
     op 10 Kolmogorov-Smirnov distance of the sorted draws of stats.Rand(d) to d's own cdf (reported by the
           harness just below and just above each draw), computed here:   7 10 hdr  st  n { v cm cp }*
     op 7  Rand on a relational-kind distribution with a scripted source (no Rand method of its own):
           7 7 kind par own hst  bl bh cbl cbh cpl cph  nsrc { int63 }*  st consumed y draw  { y ist x xm c0 cm rst ref }
     op 11 InvCDF(UDist{N1,N2,T}) against the EXACT model of C02 (Model/Udist.v):   7 11 N1 N2 nt { t }*  ny { y st obs }*
           (nt = 0: T is nil, no ties).  The support of U is 0, 1/2, ..., N1*N2: the comparison is made in DOUBLED units
           (support points k = 0 .. 2 N1 N2, observed values doubled), with the comparator of ops 1 / 2
   All of x l v bl bh y obs ... are float64 bit patterns; st: 0 = returned, 2 = panicked.
   knot (x, l, v): break point, left limit, value (see Model/InvCDF.v). *)
From MM Require Import Base.Num Model.Choose Model.Binom Model.Hyperg Model.InvCDF Check.C06.
From Coq Require Import Qround.
From MM Require Model.Udist Check.C02.
Local Open Scope Z_scope.

(* "to within 1e-9 relative": 1e-9 |x*|, plus what the harness's OWN float64 evaluation of a ramp costs:
   v = lo + ((x - xi) / W) * H is computed with four roundings, an absolute error below 2^-51 in v, which
   moves the point where the computed cdf crosses y by less than 2^-51 * W / H (W, H = width and height of
   the ramp).  Jumps and flats are decided by comparisons only: no slack there. *)
Definition e9 : Q := 1 # 1000000000.
Definition ramp_unit : Q := 1 # 1125899906842624.   (* 2^-50 *)
(* slack for the quantile at level y: 0 at a jump, 2^-50 W/H on a ramp *)
Fixpoint ramp_slack_from (px pv : Q) (rest : pwf) (y : Q) : Q :=
  match rest with
  | [] => 0
  | (xi, li, vi) :: r =>
      if Qle_bool y li then (if Qeq_bool li pv then 0 else ramp_unit * (xi - px) / (li - pv))%Q
      else if Qle_bool y vi then 0
      else ramp_slack_from xi vi r y
  end.
Definition ramp_slack (pw : pwf) (y : Q) : Q :=
  match pw with
  | [] => 0
  | (x0, _, v0) :: r => if Qle_bool y v0 then 0 else ramp_slack_from x0 v0 r y
  end.
Definition tol_x (pw : pwf) (y q : Q) : Q := (e9 * Qabs q + ramp_slack pw y)%Q.
(* slack on "CDF(result) >= y": the harness evaluates a ramp in float64 *)
Definition eps_level : Q := 1 # 1000000000000000.
(* halvings of the model bisection the observed value is enclosed by *)
Definition model_halvings : nat := 12.

(* y = NaN: the property demands nothing for a NaN argument (the pinned code panics in bisectBool, the
   model says IPanic; NormalDist's method returns NaN, DeltaDist's returns T): whatever happens is accepted *)
Definition nan_arg_ok (st : Z) (obs : xreal) : bool := true.

Definition xdiag (x : xreal) : list Z :=
  match x with XNaN => [0] | XInf b => [1; if b then 1 else 0] | XFin q => 2 :: qdiag q end.

(* tag bits *)
Definition T_REG := 1.        (* 0 < y < 1: bracket + bisection *)
Definition T_SPECIAL := 2.    (* y = 0 or y = 1, end point returned *)
Definition T_NAN := 4.        (* y < 0, y > 1, +-Inf *)
Definition T_RIGHT := 8.      (* bracket expanded to the right *)
Definition T_LEFT := 16.      (* ... to the left *)
Definition T_FAR := 32.       (* more than two doublings *)
Definition T_JUMP := 64.      (* the answer is a jump point *)
Definition T_FLAT := 128.     (* y is exactly the level of a flat stretch (answer = its left end) *)
Definition T_RAMP := 256.     (* the answer is inside a ramp *)
Definition T_DISCRETE := 512. (* built-in discrete distribution *)
Definition T_DISPATCH := 1024.
Definition T_RAND := 2048.
Definition T_ZEROSKIP := 4096.  (* Rand skipped leading zeros *)
Definition T_INF := 8192.     (* y = 0 / 1 answered by -Inf / +Inf *)
Definition T_PANIC := 16384.  (* y = NaN *)
Definition T_EXACTLEVEL := 32768.  (* y equals a level of the cdf at a knot *)
Definition T_BORDER := 65536.
Definition T_KS := 131072.
Definition T_REL := 262144.   (* relational check against the implementation's own CDF *)
Definition T_OVERFLOW := 524288.  (* 0 < y < 1 answered by +-Inf: the bracket expansion overflowed *)

(* ---------- "non-decreasing in y" on the observed values of one case ----------
   (Proofs: invcdf_generic_monotone_in_y holds for ANY F; the float64 bisection inherits it: two levels
   share the probes, and the first mid point at which they part separates the two results) *)
Definition xr_leb (tolrel : Q) (a b : xreal) : bool :=
  match a, b with
  | XNaN, _ | _, XNaN => false
  | XInf true, _ | _, XInf false => true
  | XInf false, _ | _, XInf true => false
  | XFin p, XFin q => Qle_bool p (q + tolrel * Qabs q)%Q
  end.
(* first pair (i, j) with y_i <= y_j and not x_i <= x_j *)
Fixpoint mono_against (tolrel : Q) (i : Z) (yi : Q) (xi : xreal) (rest : list (Z * Q * xreal)) : option (Z * Z) :=
  match rest with
  | [] => None
  | (j, yj, xj) :: r =>
      if (Qle_bool yi yj && negb (xr_leb tolrel xi xj)) || (Qle_bool yj yi && negb (xr_leb tolrel xj xi)) then Some (i, j)
      else mono_against tolrel i yi xi r
  end.
Fixpoint mono_check (tolrel : Q) (l : list (Z * Q * xreal)) : option (Z * Z) :=
  match l with
  | [] => None
  | (i, yi, xi) :: r => match mono_against tolrel i yi xi r with Some p => Some p | None => mono_check tolrel r end
  end.
(* the regular items (0 < y < 1, returned) of a case with their indices *)
Fixpoint mono_items (idx : Z) (items : list (xreal * Z * xreal)) : list (Z * Q * xreal) :=
  match items with
  | [] => []
  | (XFin y, st, o) :: r =>
      if Qltb 0 y && Qltb y 1 && (st =? 0) then (idx, y, o) :: mono_items (idx + 1) r else mono_items (idx + 1) r
  | _ :: r => mono_items (idx + 1) r
  end.
(* run after the per-level checks: a violation is a mismatch at the second index, diag [13; i; j] *)
Definition with_mono (tolrel : Q) (items : list (xreal * Z * xreal)) (r : Z * option (Z * list Z)) : Z * option (Z * list Z) :=
  match r with
  | (tag, None) => match mono_check tolrel (mono_items 0 items) with
                   | Some (i, j) => (tag, Some (j, [13; i; j]))
                   | None => r
                   end
  | _ => r
  end.

(* Dvoretzky-Kiefer-Wolfowitz (Massart): P (D_n > e) <= 2 exp (-2 n e^2).  False-alarm bound 1e-9:
   2 n D^2 <= ln (2e9) = 21.4164...  (the logarithm is a constant here, rounded up) *)
Definition ks_bound : Q := 2142 # 100.

(* ---------- classification of the exact answer (tags only) ---------- *)
Fixpoint q_kind_from (pv : Q) (rest : pwf) (y : Q) : Z :=
  match rest with
  | [] => 0
  | (xi, li, vi) :: r =>
      if Qle_bool y li then Z.lor T_RAMP (if Qeq_bool y li then T_EXACTLEVEL else 0)
      else if Qle_bool y vi then Z.lor T_JUMP (if Qeq_bool y vi then T_EXACTLEVEL else 0)
      else q_kind_from vi r y
  end.
Definition q_kind (pw : pwf) (y : Q) : Z :=
  match pw with
  | [] => 0
  | (_, _, v0) :: r => if Qle_bool y v0 then Z.lor T_JUMP (if Qeq_bool y v0 then T_EXACTLEVEL else 0) else q_kind_from v0 r y
  end.
Fixpoint flat_at (pw : pwf) (y : Q) : bool :=
  match pw with
  | (_, _, v) :: (((_, l', _) :: _) as r) => (Qeq_bool v y && Qeq_bool l' y) || flat_at r y
  | _ => false
  end.

(* ---------- one requested level on a piecewise distribution ---------- *)
(* result: tag, None = agrees | Some diag *)
Definition check_pw_y (pw : pwf) (bl bh : Q) (y : xreal) (st : Z) (obs : xreal) : Z * option (list Z) :=
  match y with
  | XNaN => (T_PANIC, if nan_arg_ok st obs then None else Some [1])
  | XInf _ => (T_NAN, if (st =? 0) && is_nan obs then None else Some [2])
  | XFin yq =>
      match inv_special (pw_cdf pw) bl bh yq with
      | Some r =>
          (match r with XNaN => T_NAN | XInf _ => Z.lor T_SPECIAL T_INF | XFin _ => T_SPECIAL end,
           if (st =? 0) && xeq r obs then None else Some (3 :: xdiag r))
      | None =>
          match pw_quantile pw yq, invcdf_core_fast (pw_cdf pw) model_halvings yq with
          | Some q, None =>
              (* no finite bracket: the doubling overflowed (quantile beyond -+2^1023), the closure returns -+Inf *)
              match bracket_fast (pw_cdf pw) yq with
              | BInf neg =>
                  (Z.lor T_REG (Z.lor T_OVERFLOW (Z.lor T_FAR (if neg then T_LEFT else T_RIGHT))),
                   if (st =? 0) && xeq (XInf neg) obs then None else Some (12 :: (if neg then 1 else 0) :: qdiag q))
              | _ => (0, Some [99])
              end
          | Some q, Some ((lo, hi), (x1, x2)) =>
              let tag := Z.lor T_REG (Z.lor (if goes_right (pw_cdf pw) yq then T_RIGHT else T_LEFT)
                         (Z.lor (if Qle_bool 4 (hi - lo) then T_FAR else 0)
                         (Z.lor (q_kind pw yq) (if flat_at pw yq then T_FLAT else 0)))) in
              match obs with
              | XFin o =>
                  let tol := tol_x pw yq q in
                  if negb (st =? 0) then (tag, Some (4 :: qdiag q))
                  else if negb (within tol q o) then (tag, Some (5 :: qdiag q))   (* not the quantile *)
                  else if negb (Qle_bool (yq - eps_level) (pw_cdf pw o)) then (tag, Some (6 :: qdiag q))  (* CDF(result) < y: not the upper end *)
                  else if negb (Qle_bool (x1 - tol) o && Qle_bool o (x2 + tol)) then (tag, Some (7 :: qdiag x1 ++ qdiag x2))
                  else (tag, None)
              | _ => (tag, Some (4 :: qdiag q))
              end
          | _, _ => (0, Some [99])
          end
      end
  end.

Definition p_knot : parser knot := do x <- pQ; do l <- pQ; do v <- pQ; pret (x, l, v).
Definition p_item : parser (xreal * Z * xreal) := do y <- pX; do st <- pZ; do o <- pX; pret (y, st, o).

Fixpoint run_pw_items (pw : pwf) (bl bh : Q) (items : list (xreal * Z * xreal)) (idx tag : Z)
  : Z * option (Z * list Z) :=
  match items with
  | [] => (tag, None)
  | (y, st, o) :: rest =>
      let '(t, r) := check_pw_y pw bl bh y st o in
      match r with
      | None => run_pw_items pw bl bh rest (idx + 1) (Z.lor tag t)
      | Some dg => (Z.lor tag t, Some (idx, dg))
      end
  end.


(* ---------- built-in discrete distributions ---------- *)
(* exact cdf at the support points lo..hi: Model.InvCDF.disc_table; smallest support point with
   cdf >= t: disc_quantile (Proofs: disc_quantile_spec) *)
Definition cdf_table := disc_table.
Definition first_ge := disc_quantile.
(* Above [small_limit] (= 14, Check/C06.v) the model functions binom_cdf_i / hg_cdf_i are too slow to
   tabulate (N = 80: 35 s); the exact cumulative probabilities then come from C06's shared table
   (running sums of integer weights over a common denominator; Check/C06.v checks it against the model
   functions for every N <= 14 on every run, Proofs/C06Table.v proves the equality). *)
Fixpoint fast_entries (t : table) (i : nat) (cnt : nat) : list (Z * Q) :=
  match cnt with
  | O => []
  | S c => match tab_q t (t_cum t) (Z.of_nat i) with
           | Some q => (t_lo t + Z.of_nat i, Qred q) :: fast_entries t (S i) c
           | None => []
           end
  end.
Definition fast_table (t : table) : list (Z * Q) := fast_entries t 0 (length (t_cum t)).

Definition check_disc_y (tab : list (Z * Q)) (lo hi : Z) (y : xreal) (st : Z) (obs : xreal) : Z * option (list Z) :=
  match y with
  | XNaN => (T_PANIC, if nan_arg_ok st obs then None else Some [1])
  | XInf _ => (T_NAN, if (st =? 0) && is_nan obs then None else Some [2])
  | XFin yq =>
      let cdf_lo := match tab with (_, c) :: _ => c | [] => 1%Q end in
      if Qltb yq 0 || Qltb 1 yq then (T_NAN, if (st =? 0) && is_nan obs then None else Some [2])
      else if Qeq_bool yq 0 then
        let r := if Qeq_bool cdf_lo 0 then XFin (inject_Z lo) else XInf true in
        (Z.lor T_DISCRETE (match r with XInf _ => Z.lor T_SPECIAL T_INF | _ => T_SPECIAL end),
         if (st =? 0) && xeq r obs then None else Some (3 :: xdiag r))
      else if Qeq_bool yq 1 then
        (Z.lor T_DISCRETE T_SPECIAL, if (st =? 0) && xeq (XFin (inject_Z hi)) obs then None else Some (3 :: xdiag (XFin (inject_Z hi))))
      else
        let k := first_ge tab yq hi in
        let k1 := first_ge tab (yq - e9)%Q hi in
        let k2 := first_ge tab (Qminb 1 (yq + e9))%Q hi in
        let tag := Z.lor T_DISCRETE (Z.lor T_REG (Z.lor T_JUMP (Z.lor (if 0 <? k then T_RIGHT else T_LEFT)
                    (Z.lor (if 3 <? k then T_FAR else 0) (if k1 =? k2 then 0 else T_BORDER))))) in
        match obs with
        | XFin o =>
            (* the bisection ends at the smallest float with CDF >= y: the support point itself *)
            let ko := Qfloor o in
            if (st =? 0) && (k1 <=? ko) && (ko <=? k2) && Qle_bool (o - inject_Z ko) (e9 * inject_Z ko)%Q
            then (tag, None) else (tag, Some [5; k; k1; k2])
        | _ => (tag, Some [4; k; k1; k2])
        end
  end.

Fixpoint run_disc_items (tab : list (Z * Q)) (lo hi : Z) (items : list (xreal * Z * xreal)) (idx tag : Z)
  : Z * option (Z * list Z) :=
  match items with
  | [] => (tag, None)
  | (y, st, o) :: rest =>
      let '(t, r) := check_disc_y tab lo hi y st o in
      match r with
      | None => run_disc_items tab lo hi rest (idx + 1) (Z.lor tag t)
      | Some dg => (Z.lor tag t, Some (idx, dg))
      end
  end.

(* op 11: UDist in doubled units.  InvCDF of a step cdf returns the jump point itself (a half-integer u); the table
   lists the exact cdf of C02's model at u = k/2 for k = 0 .. 2 N1 N2 and the observed value is doubled.  Without
   ties the cdf only jumps at integers u: the odd keys then repeat the value of the even key below them. *)
Definition udouble (x : xreal) : xreal := match x with XFin q => XFin (2 * q)%Q | _ => x end.
Definition udouble_items (items : list (xreal * Z * xreal)) : list (xreal * Z * xreal) :=
  map (fun it => match it with (y, st, o) => (y, st, udouble o) end) items.
Definition ucdf2 (n1 n2 : nat) (T : list nat) (k : Z) : Q := Udist.udist_cdf n1 n2 T (inject_Z k / 2)%Q.
(* the property's domain as in Check/C02.v, and sizes the direct model function tabulates quickly
   (N1 = N2 = 5 untied: 0.5 s in Coq; 6, 6: 7 s) *)
Definition udist_params_ok (n1 n2 : nat) (T : list nat) : bool :=
  C02.valid_T n1 n2 (match T with [] => true | _ => false end) T && (n1 + n2 <=? 10)%nat && (n1 * n2 <=? 25)%nat.

Definition finish (r : Z * option (Z * list Z)) : list Z :=
  match r with
  | (tag, None) => verdict (if Z.land tag T_BORDER =? 0 then V_OK else V_BORDERLINE) tag (-1) []
  | (tag, Some (idx, dg)) =>
      match dg with
      | [99] => verdict V_MALFORMED tag idx dg
      | _ => verdict V_MISMATCH tag idx dg
      end
  end.

(* ---------- dispatch: both bit patterns must be the same integer ---------- *)
Definition p_disp : parser (Z * Z * Z * Z) := do y <- pZ; do st <- pZ; do g <- pZ; do m <- pZ; pret (y, st, g, m).
Definition p_pair : parser (Z * Z) := do g <- pZ; do m <- pZ; pret (g, m).
Fixpoint run_disp (items : list (Z * Z * Z * Z)) (idx : Z) : option (Z * list Z) :=
  match items with
  | [] => None
  | (y, st, g, m) :: rest => if (st =? 0) && (g =? m) then run_disp rest (idx + 1) else Some (idx, [8; st; g; m])
  end.
Fixpoint run_pairs (items : list (Z * Z)) (idx : Z) : option (Z * list Z) :=
  match items with
  | [] => None
  | (g, m) :: rest => if g =? m then run_pairs rest (idx + 1) else Some (idx, [9; g; m])
  end.

(* ---------- relational check (C07_invcdf_generic_regular with F := the reported CDF values):
   the result x satisfies CDF(x) >= y, and CDF(x - tol) < y with tol <= 1.001e-9 |x| + 2e-15 (the harness
   forms x - tol in float64), i.e. x is within the property's tolerance of the smallest point with
   CDF >= y; y = 0 / 1 by the end-point rule; -Inf / +Inf for 0 < y < 1 exactly when the last finite probe
   of the expansion still has CDF >= y / CDF < y; and the DISPATCH clause: the bits of x are the bits of
   the reference (own method, or the generic algorithm through a bare wrapper) ---------- *)
(* step functions are evaluated exactly; a smooth float64 CDF is flat or noisy at the 1e-16 level where
   its derivative vanishes (an Epanechnikov kernel's edge, t near 0) *)
Definition rel_is_step (kind : Z) : bool :=
  (kind =? 1) || (kind =? 3) || (kind =? 4) || (kind =? 6) || (kind =? 7) || (kind =? 8).
(* slack on CDF(x - tol) < y.  TDist.CDF (an incomplete beta function in float64) is not monotone at the
   1e-8 level for V > 1e7 (measured: up to 1.2e-8 over 1e-9 |x|; none in 10^6 samples for V <= 1e7): there
   the implementation's own cdf defines its quantile only to that accuracy *)
Definition rel_slack_hi (kind : Z) (par : xreal) : Q :=
  if rel_is_step kind then 0
  else if kind =? 0 then match par with XFin v => if Qle_bool v 10000000 then eps_level else 1 # 10000000 | _ => eps_level end
  else eps_level.
(* CDF(x) >= y: the generic algorithm returns a point where the comparison CDF(x) < y was evaluated and
   false, so this is exact; a distribution's own method is held to CDF(x + tol) >= y - 1e-12 *)
(* non-decreasing in y: exact for the generic algorithm, 1e-9 relative for an own method *)
Definition rel_mono_tol (own : Z) : Q := if Z.land own 1 =? 0 then 0 else e9.

Record relhdr := { rh_kind : Z; rh_par : xreal; rh_own : Z; rh_hst : Z; rh_bl : xreal; rh_bh : xreal; rh_cbl : xreal; rh_cbh : xreal;
                   rh_cpl : xreal; rh_cph : xreal }.
Record relitem := { ri_y : xreal; ri_st : Z; ri_xb : Z; ri_xm : xreal; ri_c0 : xreal; ri_cm : xreal;
                    ri_xp : xreal; ri_cp : xreal; ri_rst : Z; ri_refb : Z }.

Definition check_rel_y (h : relhdr) (it : relitem) : Z * option (list Z) :=
  let st := ri_st it in
  let x := decode_bits (ri_xb it) in
  let dtag := if Z.land (rh_own h) 1 =? 0 then 0 else T_DISPATCH in
  (* dispatch / generic path, bit for bit *)
  if negb ((st =? ri_rst it) && ((st =? 2) || (ri_xb it =? ri_refb it))) then (Z.lor T_REL dtag, Some [8; st; ri_xb it; ri_refb it; ri_rst it])
  else
  match ri_y it with
  | XNaN => (* the generic closure panics; an own method may do what it likes: it IS the result *)
      (T_PANIC, if nan_arg_ok st x || negb (Z.land (rh_own h) 1 =? 0) then None else Some [1])
  | XInf _ => (T_NAN, if (st =? 0) && is_nan x then None else Some [2])
  | XFin yq =>
      if Qltb yq 0 || Qltb 1 yq then (T_NAN, if (st =? 0) && is_nan x then None else Some [2])
      else if (Qeq_bool yq 0 || Qeq_bool yq 1) && negb (Z.land (rh_own h) 1 =? 0) then
        (* an own method IS the result at the end points (DeltaDist returns T, not Bounds) *)
        (Z.lor T_SPECIAL dtag, if st =? 0 then None else Some [4])
      else if Qeq_bool yq 0 then
        let r := if xeq (XFin 0) (rh_cbl h) then rh_bl h else XInf true in
        (Z.lor T_SPECIAL (match r with XInf _ => T_INF | _ => 0 end), if (st =? 0) && xeq r x then None else Some (3 :: xdiag r))
      else if Qeq_bool yq 1 then
        let r := if xeq (XFin 1) (rh_cbh h) then rh_bh h else XInf false in
        (Z.lor T_SPECIAL (match r with XInf _ => T_INF | _ => 0 end), if (st =? 0) && xeq r x then None else Some (3 :: xdiag r))
      else
        let tag := Z.lor (Z.lor T_REG T_REL) dtag in
        match x, ri_xm it, ri_c0 it, ri_cm it with
        | XFin xq, XFin xmq, XFin c0q, XFin cmq =>
            if negb (st =? 0) then (tag, Some [4])
            else if negb (Qltb xmq xq && Qle_bool (xq - xmq) ((1001 # 1000) * e9 * Qabs xq + (2 # 1000000000000000))%Q) then (tag, Some [99])
            else if negb (if Z.land (rh_own h) 1 =? 0 then Qle_bool yq c0q                          (* generic: CDF(x) >= y, exactly *)
                          else match ri_xp it, ri_cp it with                                          (* own method: CDF(x + tol) >= y *)
                               | XFin xpq, XFin cpq => Qle_bool (xpq - xq) ((1001 # 1000) * e9 * Qabs xq + (2 # 1000000000000000))%Q
                                                       && Qle_bool (yq - eps_level) cpq
                               | _, _ => false
                               end) then (tag, Some (10 :: qdiag c0q))
            else if negb (Qltb cmq (yq + rel_slack_hi (rh_kind h) (rh_par h))) then (tag, Some (11 :: qdiag cmq))  (* CDF(x - tol) >= y: not the smallest *)
            else (Z.lor tag (if Qle_bool 0 xq then T_RIGHT else T_LEFT), None)
        | XInf true, _, _, _ =>
            (* -Inf: legitimate exactly when CDF is still >= y at the last finite probe -2^1023 *)
            (Z.lor tag T_OVERFLOW,
             match rh_cpl h with XFin c => if (st =? 0) && Qle_bool yq c then None else Some (12 :: 1 :: qdiag c) | _ => Some [12; 1] end)
        | XInf false, _, _, _ =>
            (Z.lor tag T_OVERFLOW,
             match rh_cph h with XFin c => if (st =? 0) && Qltb c yq then None else Some (12 :: 0 :: qdiag c) | _ => Some [12; 0] end)
        | _, _, _, _ => (tag, Some [4])
        end
  end.
Definition p_rel : parser relitem :=
  do y <- pX; do st <- pZ; do x <- pZ; do xm <- pX; do c0 <- pX; do cm <- pX; do xp <- pX; do cp <- pX; do rst <- pZ; do ref <- pZ;
  pret {| ri_y := y; ri_st := st; ri_xb := x; ri_xm := xm; ri_c0 := c0; ri_cm := cm; ri_xp := xp; ri_cp := cp; ri_rst := rst; ri_refb := ref |}.
Definition p_relhdr : parser relhdr :=
  do kind <- pZ; do par <- pX; do own <- pZ; do hst <- pZ; do bl <- pX; do bh <- pX; do cbl <- pX; do cbh <- pX; do cpl <- pX; do cph <- pX;
  pret {| rh_kind := kind; rh_par := par; rh_own := own; rh_hst := hst; rh_bl := bl; rh_bh := bh; rh_cbl := cbl; rh_cbh := cbh; rh_cpl := cpl; rh_cph := cph |}.
Fixpoint run_rel_items (h : relhdr) (items : list relitem) (idx tag : Z) : Z * option (Z * list Z) :=
  match items with
  | [] => (tag, None)
  | it :: rest =>
      let '(t, r) := check_rel_y h it in
      match r with
      | None => run_rel_items h rest (idx + 1) (Z.lor tag t)
      | Some dg => (Z.lor tag t, Some (idx, dg))
      end
  end.
Definition rel_plain (items : list relitem) : list (xreal * Z * xreal) :=
  map (fun it => (ri_y it, ri_st it, decode_bits (ri_xb it))) items.

(* ---------- Kolmogorov-Smirnov distance of a sorted sample against pw_cdf ----------
   D = max_i max ((i+1)/n - cdf (v_i + tol), cdf (v_i - tol) - i/n) over the sorted draws v_0 <= ... <= v_(n-1):
   a draw may sit up to the property's tolerance tol = 1e-9 |v| (+ the smallest positive float64) away from
   the exact quantile (a draw that is exactly 0: looked at from just below 0) — at an atom that alone would
   make the plain distance 1 — so the empirical cdf is
   compared with the cdf shifted by tol to either side; this statistic is <= the distance of exact draws.
   None: the sample is not sorted. *)
Definition ks_tiny : Q := 1 # (2 ^ 1074).
Fixpoint ks_scan (pw : pwf) (n : Q) (i : Z) (prev : option Q) (xs : list Q) (best : Q) : option Q :=
  match xs with
  | [] => Some best
  | v :: r =>
      if match prev with Some p => Qltb v p | None => false end then None else
      let tol := (e9 * Qabs v)%Q in
      let up := (inject_Z (i + 1) / n - pw_cdf pw (v + tol))%Q in
      let dn := (pw_cdf pw (if Qeq_bool v 0 then - ks_tiny else v - tol) - inject_Z i / n)%Q in
      ks_scan pw n (i + 1) (Some v) r (Qmaxb best (Qmaxb up dn))
  end.

(* the same distance against the distribution's OWN cdf, reported by the harness just below (cm) and just
   above (cp) every sorted draw v: D = max_i max ((i+1)/n - cp_i, cm_i - i/n).  None: not sorted, or a value
   that is not a finite number *)
Definition p_ks3 : parser (xreal * xreal * xreal) := do v <- pX; do cm <- pX; do cp <- pX; pret (v, cm, cp).
Fixpoint ks_scan3 (n : Q) (i : Z) (prev : option Q) (xs : list (xreal * xreal * xreal)) (best : Q) : option Q :=
  match xs with
  | [] => Some best
  | (XFin v, XFin cm, XFin cp) :: r =>
      if match prev with Some p => Qltb v p | None => false end then None else
      let up := (inject_Z (i + 1) / n - cp)%Q in
      let dn := (cm - inject_Z i / n)%Q in
      ks_scan3 n (i + 1) (Some v) r (Qmaxb best (Qmaxb up dn))
  | _ => None
  end.

(* determinism of a distribution's own Rand method: two equally seeded sources, the same draws *)
Definition p_det : parser (Z * Z * Z * Z) := do s1 <- pZ; do d1 <- pZ; do s2 <- pZ; do d2 <- pZ; pret (s1, d1, s2, d2).
Fixpoint run_det (items : list (Z * Z * Z * Z)) (idx : Z) : option (Z * list Z) :=
  match items with
  | [] => None
  | (s1, d1, s2, d2) :: rest =>
      if (s1 =? 0) && (s2 =? 0) && (d1 =? d2) then run_det rest (idx + 1) else Some (idx, [15; s1; d1; s2; d2])
  end.

(* the header of the relational ops; a header status other than 0 (the distribution's Bounds / CDF or the
   constructors stats.InvCDF / stats.Rand panicked) is a mismatch and ends the line *)
Inductive rhres := RHBad (v : list Z) | RHOk (h : relhdr) (rest : list Z).
Definition rel_header (l : list Z) : rhres :=
  match p_relhdr l with
  | None => RHBad (verdict V_MALFORMED 0 (-1) [])
  | Some (h, rest) => if rh_hst h =? 0 then RHOk h rest else RHBad (verdict V_MISMATCH T_REL 0 [14; rh_hst h])
  end.

Definition valid_pw (pw : pwf) : bool := pw_wfb pw.

Definition check_C07 (line : list Z) : list Z :=
  match line with
  | 7 :: 0 :: rest =>
      match (do pw <- plist p_knot; do bl <- pQ; do bh <- pQ; do items <- plist p_item; pend (pw, bl, bh, items)) rest with
      | Some ((pw, bl, bh, items), _) =>
          if negb (valid_pw pw) then verdict V_MALFORMED 0 (-1) [] else
          finish (with_mono 0 items (run_pw_items pw bl bh items 0 0))
      | None => verdict V_MALFORMED 0 (-1) []
      end
  | 7 :: 1 :: rest =>
      match (do n <- pZ; do p <- pQ; do items <- plist p_item; pend (n, p, items)) rest with
      | Some ((n, p, items), _) =>
          if (n <? 0) || (200 <? n) || Qltb p 0 || Qltb 1 p then verdict V_MALFORMED 0 (-1) [] else
          let tab := if n <=? small_limit then cdf_table (binom_cdf_i n p) 0 (Z.to_nat (n + 1)) else fast_table (binom_table n p) in
          if negb (Z.of_nat (length tab) =? n + 1) then verdict V_MALFORMED 0 (-1) [98] else
          finish (with_mono 0 items (run_disc_items tab 0 n items 0 0))
      | None => verdict V_MALFORMED 0 (-1) []
      end
  | 7 :: 2 :: rest =>
      match (do N <- pZ; do K <- pZ; do n <- pZ; do items <- plist p_item; pend (N, K, n, items)) rest with
      | Some ((N, K, n, items), _) =>
          if (N <? 2) || (200 <? N) || (K <? 0) || (N <? K) || (n <? 0) || (N <? n) then verdict V_MALFORMED 0 (-1) [] else
          let lo := hg_lo N K n in let hi := hg_hi N K n in
          let tab := if N <=? small_limit then cdf_table (hg_cdf_i N K n) lo (Z.to_nat (hi - lo + 1)) else fast_table (hg_table N K n) in
          if negb (Z.of_nat (length tab) =? hi - lo + 1) then verdict V_MALFORMED 0 (-1) [98] else
          finish (with_mono 0 items (run_disc_items tab lo hi items 0 0))
      | None => verdict V_MALFORMED 0 (-1) []
      end
  | 7 :: 3 :: rest =>
      match (do kind <- pZ; do a <- pZ; do b <- pZ; do items <- plist p_disp; do pairs <- plist p_pair; pend (items, pairs)) rest with
      | Some ((items, pairs), _) =>
          match run_disp items 0 with
          | Some (idx, dg) => verdict V_MISMATCH T_DISPATCH idx dg
          | None => match run_pairs pairs 0 with
                    | Some (idx, dg) => verdict V_MISMATCH T_DISPATCH (1000 + idx) dg
                    | None => verdict V_OK (match items, pairs with [], [] => 0 | _, _ => T_DISPATCH end) (-1) []
                    end
          end
      | None => verdict V_MALFORMED 0 (-1) []
      end
  | 7 :: 4 :: rest =>
      match (do pw <- plist p_knot; do bl <- pQ; do bh <- pQ; do src <- plist pZ;
             do st <- pZ; do consumed <- pZ; do y <- pX; do draw <- pZ; do ist <- pZ; do inv <- pZ;
             pend (pw, bl, bh, src, (st, consumed, y), (draw, ist, inv))) rest with
      | Some ((pw, bl, bh, src, (st, consumed, y), (draw, ist, inv)), _) =>
          if negb (valid_pw pw) || existsb (fun v => (v <? 0) || (2 ^ 63 <=? v) || negb (Z.land v 1023 =? 0)) src
          then verdict V_MALFORMED 0 (-1) [] else
          (* the model of Rand: which element of the source is used, how many are consumed *)
          match rand_model (fun q => q) (map float64_of_int63 src) with
          | None => verdict V_MALFORMED 0 (-1) []
          | Some (yq, n) =>
              let tag := Z.lor T_RAND (if (1 <? n)%nat then T_ZEROSKIP else 0) in
              if negb (st =? 0) then verdict V_MISMATCH tag 0 [st]
              else if negb (consumed =? Z.of_nat n) then verdict V_MISMATCH tag 1 [Z.of_nat n; consumed]
              else if negb (xeq (XFin yq) y) then verdict V_MISMATCH tag 2 (qdiag yq)
              else if negb ((ist =? 0) && (draw =? inv)) then verdict V_MISMATCH tag 3 [ist; draw; inv]   (* draw = InvCDF(dist)(y), bit for bit *)
              else
                let '(t, r) := check_pw_y pw bl bh (XFin yq) ist (decode_bits inv) in
                match r with
                | None => verdict V_OK (Z.lor tag t) (-1) []
                | Some dg => match dg with
                             | [99] => verdict V_MALFORMED tag 4 dg
                             | _ => verdict V_MISMATCH (Z.lor tag t) 4 dg
                             end
                end
          end
      | None => verdict V_MALFORMED 0 (-1) []
      end
  | 7 :: 6 :: rest0 =>
      match rel_header rest0 with RHBad v => v | RHOk h rest =>
      match (do items <- plist p_rel; do pairs <- plist p_pair; pend (h, items, pairs)) rest with
      | Some ((h, items, pairs), _) =>
          match with_mono (rel_mono_tol (rh_own h)) (rel_plain items) (run_rel_items h items 0 0) with
          | (tag, None) =>
              match run_pairs pairs 0 with
              | Some (idx, dg) => verdict V_MISMATCH (Z.lor tag T_RAND) (1000 + idx) dg
              | None => finish (match pairs with [] => tag | _ => Z.lor tag T_RAND end, None)
              end
          | r => finish r
          end
      | None => verdict V_MALFORMED 0 (-1) []
      end end
  | 7 :: 7 :: rest0 =>
      match rel_header rest0 with RHBad v => v | RHOk h rest =>
      match (do src <- plist pZ; do st <- pZ; do consumed <- pZ; do y <- pX; do draw <- pZ; do it <- p_rel;
             pend (h, src, (st, consumed, y), draw, it)) rest with
      | Some ((h, src, (st, consumed, y), draw, it), _) =>
          if existsb (fun v => (v <? 0) || (2 ^ 63 <=? v) || negb (Z.land v 1023 =? 0)) src || negb (Z.land (rh_own h) 2 =? 0)
          then verdict V_MALFORMED 0 (-1) [] else
          match rand_model (fun q => q) (map float64_of_int63 src) with
          | None => verdict V_MALFORMED 0 (-1) []
          | Some (yq, n) =>
              let tag := Z.lor T_RAND (if (1 <? n)%nat then T_ZEROSKIP else 0) in
              if negb (st =? 0) then verdict V_MISMATCH tag 0 [st]
              else if negb (consumed =? Z.of_nat n) then verdict V_MISMATCH tag 1 [Z.of_nat n; consumed]
              else if negb (xeq (XFin yq) y && xeq (XFin yq) (ri_y it)) then verdict V_MISMATCH tag 2 (qdiag yq)
              else if negb ((ri_st it =? 0) && (draw =? ri_xb it)) then verdict V_MISMATCH tag 3 [ri_st it; draw; ri_xb it]   (* draw = InvCDF(dist)(y), bit for bit *)
              else
                let '(t, r) := check_rel_y h it in
                match r with
                | None => verdict V_OK (Z.lor tag t) (-1) []
                | Some dg => match dg with
                             | [99] => verdict V_MALFORMED tag 4 dg
                             | _ => verdict V_MISMATCH (Z.lor tag t) 4 dg
                             end
                end
          end
      | None => verdict V_MALFORMED 0 (-1) []
      end end
  | 7 :: 9 :: rest0 =>
      match rel_header rest0 with RHBad v => v | RHOk h rest =>
      match (do items <- plist p_det; pend items) rest with
      | Some (items, _) =>
          if Z.land (rh_own h) 2 =? 0 then verdict V_MALFORMED 0 (-1) [] else
          match run_det items 0 with
          | Some (idx, dg) => verdict V_MISMATCH (Z.lor T_RAND T_DISPATCH) idx dg
          | None => verdict V_OK (match items with [] => 0 | _ => Z.lor T_RAND T_DISPATCH end) (-1) []
          end
      | None => verdict V_MALFORMED 0 (-1) []
      end end
  | 7 :: 10 :: rest0 =>
      match rel_header rest0 with RHBad v => v | RHOk h rest =>
      match (do st <- pZ; do items <- plist p_ks3; pend (st, items)) rest with
      | Some ((st, items), _) =>
          let n := Z.of_nat (length items) in
          let tag := Z.lor (Z.lor T_RAND T_KS) (Z.lor T_REL (if Z.land (rh_own h) 2 =? 0 then 0 else T_DISPATCH)) in
          if n <? 1 then verdict V_MALFORMED 0 (-1) [] else
          if negb (st =? 0) then verdict V_MISMATCH tag 0 [st] else
          match ks_scan3 (inject_Z n) 0 None items 0 with
          | None => verdict V_MISMATCH tag 2 []      (* a draw or a cdf value that is not a finite number, or not sorted *)
          | Some d => if Qle_bool (d * d * inject_Z (2 * n)) ks_bound
                      then verdict V_OK tag (-1) []
                      else verdict V_MISMATCH tag 1 (qdiag d)
          end
      | None => verdict V_MALFORMED 0 (-1) []
      end end
  | 7 :: 8 :: rest =>
      match (do pw <- plist p_knot; do bl <- pQ; do bh <- pQ; do st <- pZ; do xs <- plist pQ; pend (pw, st, xs)) rest with
      | Some ((pw, st, xs), _) =>
          let n := Z.of_nat (length xs) in
          if negb (valid_pw pw) || (n <? 1) then verdict V_MALFORMED 0 (-1) [] else
          if negb (st =? 0) then verdict V_MISMATCH (Z.lor T_RAND T_KS) 0 [st] else
          match ks_scan pw (inject_Z n) 0 None xs 0 with
          | None => verdict V_MALFORMED 0 (-1) [97]
          | Some d => if Qle_bool (d * d * inject_Z (2 * n)) ks_bound
                      then verdict V_OK (Z.lor T_RAND T_KS) (-1) []
                      else verdict V_MISMATCH (Z.lor T_RAND T_KS) 1 (qdiag d)
          end
      | None => verdict V_MISMATCH (Z.lor T_RAND T_KS) 2 []     (* a draw that is not a finite number *)
      end
  | 7 :: 5 :: rest =>
      match (do pw <- plist p_knot; do bl <- pQ; do bh <- pQ; do n <- pZ; do st <- pZ; do d <- pX; pend (pw, n, st, d)) rest with
      | Some ((pw, n, st, d), _) =>
          if negb (valid_pw pw) || (n <? 1) then verdict V_MALFORMED 0 (-1) [] else
          match d with
          | XFin dq => if (st =? 0) && Qle_bool 0 dq && Qle_bool (dq * dq * inject_Z (2 * n)) ks_bound
                       then verdict V_OK (Z.lor T_RAND T_KS) (-1) []
                       else verdict V_MISMATCH (Z.lor T_RAND T_KS) 0 (st :: qdiag dq)
          | _ => verdict V_MISMATCH (Z.lor T_RAND T_KS) 0 [st]
          end
      | None => verdict V_MALFORMED 0 (-1) []
      end
  | 7 :: 11 :: rest =>
      match (do n1 <- pnat; do n2 <- pnat; do T <- plist pnat; do items <- plist p_item; pend (n1, n2, T, items)) rest with
      | Some ((n1, n2, T, items), _) =>
          if negb (udist_params_ok n1 n2 T) then verdict V_MALFORMED 0 (-1) [] else
          let hi := 2 * Z.of_nat (n1 * n2) in
          let tab := cdf_table (ucdf2 n1 n2 T) 0 (Z.to_nat (hi + 1)) in
          let items2 := udouble_items items in
          finish (with_mono 0 items2 (run_disc_items tab 0 hi items2 0 0))
      | None => verdict V_MALFORMED 0 (-1) []
      end
  | _ => verdict V_MALFORMED 0 (-1) []
  end.

(* Check/C08.v — correspondence comparator for C08 (mathx special functions).
   Line:  8 op ...
     op 1  Choose row     : n cnt { k  Choose(n,k)  Lchoose(n,k) }*
     op 2  Sign           : cnt { x  Sign(x) }*
     op 3  BetaInc grid   : a b cnt { x  x'  status  BetaInc(x,a,b)  BetaInc(x',b,a) }*      x' = float(1-x)
     op 4  GammaInc grid  : a cnt { x  status  GammaInc(a,x)  GammaIncComp(a,x) }*
     op 5  Beta           : cnt { a b Beta(a,b) }*
     op 6  scan in x      : fn a b lo hi n status cnt { xlo xhi F(xlo) F(xhi) }*    fn 1 BetaInc(.,a,b), 2 GammaInc(a,.), 3 GammaIncComp(a,.)
   The pairs of op 6 are located by the harness's discontinuity hunt (harness/hb_scan.go) on n cells of
   [lo,hi]; the first pair is the consecutive grid pair with the smallest increment (decrement for fn 3).
   Only the reported pairs are judged: xlo < xhi must give F(xlo) <= F(xhi) + 1e-12 (>= for fn 3), values in [0,1].
   floats are IEEE-754 bit patterns; status 0 = returned, 2 = panicked.
   Exact (M1) comparisons: Choose for every (n,k); Sign; BetaInc at integer (a,b) against
   the closed form; Beta at integer/half-integer arguments; special values.  Laws on the
   implementation's own outputs: range, monotonicity on the sorted grid, reflection,
   P+Q=1, NaN domains.  Transcendental VALUES at non-integer parameters are decided by the
   per-case certificate goals (bin/plugins/C08.py), not here. *)
From Coq Require Import Qround.
From MM Require Import Base.Num Model.Mathx.
Local Open Scope Z_scope.

(* ---------- tolerances (property C08) ---------- *)
Local Open Scope Q_scope.
Definition tol_value : Q := 1 # 1000000000.          (* "to within 1e-9" *)
Definition tol_law : Q := 1 # 1000000000000.          (* identities on reported floats: 1e-12 *)
Definition tol_beta_rel : Q := 1 # 1000000000.        (* Beta = Gamma Gamma / Gamma, relative *)
Definition pi_lo : Q := 3141592653589793238 # 1000000000000000000.
Definition pi_hi : Q := 3141592653589793239 # 1000000000000000000.
Definition ln2_lo : Q := 6931471805 # 10000000000.
Definition ln2_hi : Q := 6931471806 # 10000000000.
Local Open Scope Z_scope.

(* |obs - z| <= z * 1e-10, on integers (obs = num/den, z >= 0) *)
Definition close_rel_Z (z : Z) (obs : Q) : bool :=
  let den := Zpos (Qden obs) in
  Z.abs (Qnum obs - z * den) * 10000000000 <=? z * den.

(* ---------- op 1: Choose row ---------- *)
Definition choose_ok (r : choose_res) (obs : xreal) : bool :=
  match r, obs with
  | CExact z, XFin o => Qeqb o (inject_Z z)
  | CApprox z, XFin o => close_rel_Z z o
  | _, _ => false
  end.
(* coarse bracket for ln z from the bit length: (L-1) ln2 <= ln z < L ln2; the precise
   comparison of Lchoose is a certificate goal (M2) on a sample *)
Definition lchoose_ok (r : lchoose_res) (obs : xreal) : bool :=
  match r, obs with
  | LZero, XFin o => Qeqb o 0
  | LNaN, XNaN => true
  | LLogOf z, XFin o =>
      let L := Z.log2 z in      (* 2^L <= z < 2^(L+1) *)
      Qleb (inject_Z L * ln2_lo - (1 # 10000000000)) o && Qleb o (inject_Z (L + 1) * ln2_hi + (1 # 10000000000))
  | _, _ => false
  end.

(* choose_model with the binomial looked up in a precomputed row (same function:
   Proofs/Mathx.v choose_row_lookup) *)
Definition choose_model_row (row : list Z) (n k : Z) : choose_res :=
  if (k =? 0) || (k =? n) then CExact 1
  else if (k <? 0) || (n <? k) then CExact 0
  else if n <=? 20 then CExact (choose_small n k)
  else CApprox (nth (Z.to_nat k) row 0).
Definition lchoose_model_row (row : list Z) (n k : Z) : lchoose_res :=
  if (k =? 0) || (k =? n) then LZero
  else if (k <? 0) || (n <? k) then LNaN
  else LLogOf (nth (Z.to_nat k) row 0).

Fixpoint check_choose (row : list Z) (n : Z) (es : list (Z * xreal * xreal)) (i : Z) : option (Z * Z * Z) :=
  match es with
  | [] => None
  | (k, c, l) :: t =>
      let r := choose_model_row row n k in
      if negb (choose_ok r c) then Some (i, 1, match r with CExact z => z | CApprox z => z end)
      else if negb (lchoose_ok (lchoose_model_row row n k) l) then Some (i, 2, match r with CExact z => z | CApprox z => z end)
      else check_choose row n t (i + 1)
  end.

(* ---------- op 3: BetaInc grid ---------- *)
Local Open Scope Q_scope.
Definition q_is_int (q : Q) : bool := Qeqb q (inject_Z (Qfloor q)).
Definition in01 (v : Q) : bool := Qleb 0 v && Qleb v 1.

Record bstate := mkB { b_prev : option (Q * Q * Q); b_tag : Z }.

(* one grid point; returns an error code or the new state.
   codes: 1 value (closed form), 2 range, 3 monotone, 4 reflection, 5 NaN domain,
          6 end value, 7 status/panic *)
Definition beta_point (intab : option (nat * nat)) (a b : Q) (st : bstate)
           (x x' : xreal) (status : Z) (v v' : xreal) : Z * Q * bstate :=
  match x with
  | XNaN => (* unspecified by the property; the code panics (200 iterations on NaN) *)
      (if (status =? 2)%Z || is_nan v then 0%Z else 7%Z, 0, mkB (b_prev st) (Z.lor (b_tag st) 32))
  | XInf _ => (if (status =? 0)%Z && is_nan v then 0%Z else 5%Z, 0, mkB (b_prev st) (Z.lor (b_tag st) 8))
  | XFin xq =>
      if negb (status =? 0)%Z then (7%Z, 0, st) else
      match betainc_branch_of xq a b with
      | BNaN => (if is_nan v then 0%Z else 5%Z, 0, mkB (b_prev st) (Z.lor (b_tag st) 8))
      | br =>
          let tagbit := match br with BDirect => 2%Z | _ => 4%Z end in
          match v with
          | XFin vq =>
              let st' := mkB (Some (xq, vq, 0)) (Z.lor (b_tag st) tagbit) in
              (* end values are exact *)
              match betainc_end_value xq a b with
              | Some e => if Qeqb vq e then (0%Z, e, mkB (Some (xq, vq, 0)) (Z.lor (Z.lor (b_tag st) tagbit) 16)) else (6%Z, e, st')
              | None =>
                  if negb (in01 vq) then (2%Z, 0, st') else
                  (* closed form at integer parameters *)
                  (* exact evaluation only where the integers stay below ~4000 bits *)
                  let cheap := match intab with
                               | Some (ia, ib) => ((Z.log2 (Zpos (Qden xq)) + 1) * Z.of_nat (ia + ib) <=? 4000)%Z
                               | None => false end in
                  let vchk := match intab with
                              | Some (ia, ib) => if cheap then
                                                   let e := ibeta_int_fast ia ib xq in if within tol_value e vq then (0%Z, e) else (1%Z, e)
                                                 else (0%Z, 0)
                              | None => (0%Z, 0)
                              end in
                  if negb (fst vchk =? 0)%Z then (1%Z, snd vchk, st') else
                  (* monotone on the sorted grid *)
                  let mono := match b_prev st with
                              | Some (px, pv, _) => if Qleb px xq then Qleb (pv - tol_law) vq else true
                              | None => true end in
                  if negb mono then (3%Z, 0, st') else
                  (* reflection, when 1-x is exactly the float x' *)
                  let refl := match x', v' with
                              | XFin xq', XFin vq' => if Qeqb (xq + xq') 1 then within tol_law 1 (vq + vq') && in01 vq' else in01 vq'
                              | _, _ => false end in
                  if negb refl then (4%Z, 0, st') else
                  (0%Z, snd vchk, mkB (Some (xq, vq, 0)) (Z.lor (Z.lor (b_tag st) tagbit) (if cheap then 1%Z else 0%Z)))
              end
          | _ => (2%Z, 0, st)
          end
      end
  end.

Fixpoint check_beta (intab : option (nat * nat)) (a b : Q) (st : bstate)
         (pts : list (xreal * xreal * Z * xreal * xreal)) (i : Z) : Z * option (Z * Z * Q) :=
  match pts with
  | [] => (b_tag st, None)
  | (x, x', s, v, v') :: t =>
      let '(code, e, st') := beta_point intab a b st x x' s v v' in
      if (code =? 0)%Z then check_beta intab a b st' t (i + 1)%Z else (b_tag st', Some (i, code, e))
  end.

Definition int_params (a b : Q) : option (nat * nat) :=
  if q_is_int a && q_is_int b && Qleb 1 a && Qleb 1 b && Qleb a 400 && Qleb b 400
  then Some (Z.to_nat (Qfloor a), Z.to_nat (Qfloor b)) else None.

(* ---------- op 4: GammaInc grid ---------- *)
(* codes: 2 range, 3 monotone, 4 P+Q, 5 NaN domain, 6 value at x = 0, 7 status *)
Definition gamma_point (a : xreal) (prev : option (Q * Q * Q)) (tag : Z)
           (x : xreal) (status : Z) (p q : xreal) : Z * option (Q * Q * Q) * Z :=
  if negb (status =? 0)%Z then (7%Z, prev, tag) else
  match gammainc_branch_of a x with
  | GNaN => (if is_nan p && is_nan q then 0%Z else 5%Z, prev, Z.lor tag 8)
  | br =>
      let tagbit := match br with GSeries => 2%Z | _ => 4%Z end in
      match x, p, q with
      | XFin xq, XFin pq, XFin qq =>
          if Qeqb xq 0 then (if Qeqb pq 0 && Qeqb qq 1 then 0%Z else 6%Z, Some (xq, pq, qq), Z.lor (Z.lor tag tagbit) 16) else
          if negb (in01 pq && in01 qq) then (2%Z, prev, tag) else
          if negb (within tol_law 1 (pq + qq)) then (4%Z, prev, tag) else
          let mono := match prev with
                      | Some (px, pp, pqq) => if Qleb px xq then Qleb (pp - tol_law) pq && Qleb qq (pqq + tol_law) else true
                      | None => true end in
          if negb mono then (3%Z, prev, tag) else (0%Z, Some (xq, pq, qq), Z.lor tag tagbit)
      | _, _, _ => (2%Z, prev, tag)      (* infinite x is not generated *)
      end
  end.

Fixpoint check_gamma (a : xreal) (prev : option (Q * Q * Q)) (tag : Z)
         (pts : list (xreal * Z * xreal * xreal)) (i : Z) : Z * option (Z * Z) :=
  match pts with
  | [] => (tag, None)
  | (x, s, p, q) :: t =>
      let '(code, prev', tag') := gamma_point a prev tag x s p q in
      if (code =? 0)%Z then check_gamma a prev' tag' t (i + 1)%Z else (tag', Some (i, code))
  end.

(* ---------- op 5: Beta ---------- *)
Definition half_int (q : Q) : option Z :=
  let m := q * 2 in if q_is_int m && Qleb 1 m && Qleb m 340 then Some (Qfloor m) else None.
(* 0 ok (compared), 1 mismatch, 2 not comparable in Q (decided by certificate goals) *)
Definition beta_entry (a b : xreal) (obs : xreal) : Z * Q :=
  match a, b with
  | XFin aq, XFin bq =>
      match half_int aq, half_int bq with
      | Some ma, Some mb =>
          let '(q, haspi) := beta_half ma mb in
          let lo := if haspi then q * pi_lo else q in
          let hi := if haspi then q * pi_hi else q in
          match obs with
          | XFin o => (if Qleb (lo * (1 - tol_beta_rel)) o && Qleb o (hi * (1 + tol_beta_rel)) then 0%Z else 1%Z, lo)
          | _ => (1%Z, lo)
          end
      | _, _ => (2%Z, 0)
      end
  | _, _ => (2%Z, 0)
  end.

Fixpoint check_betafn (es : list (xreal * xreal * xreal)) (i : Z) (tag : Z) : Z * option (Z * Q) :=
  match es with
  | [] => (tag, None)
  | (a, b, o) :: t =>
      let '(code, e) := beta_entry a b o in
      if (code =? 1)%Z then (tag, Some (i, e))
      else check_betafn t (i + 1)%Z (Z.lor tag (if (code =? 0)%Z then 1 else 2))
  end.

(* ---------- op 2: Sign ---------- *)
Fixpoint check_sign (es : list (xreal * xreal)) (i : Z) : option Z :=
  match es with
  | [] => None
  | (x, o) :: t => if xeq (sign_model x) o then check_sign t (i + 1)%Z else Some i
  end.

(* ---------- op 6: monotonicity on the pairs located by the scan ---------- *)
(* codes: 2 value outside [0,1] / not finite, 3 not monotone in x *)
Fixpoint check_scan (decreasing : bool) (pts : list (xreal * xreal * xreal * xreal)) (i : Z) : option (Z * Z) :=
  match pts with
  | [] => None
  | (XFin a, XFin b, XFin fa, XFin fb) :: t =>
      let '(ga, gb) := if decreasing then (fb, fa) else (fa, fb) in    (* ga should be <= gb when a < b *)
      if negb (in01 fa && in01 fb) then Some (i, 2%Z)
      else if Qltb a b && negb (Qleb (ga - tol_law) gb) then Some (i, 3%Z)
      else if Qltb b a && negb (Qleb (gb - tol_law) ga) then Some (i, 3%Z)
      else check_scan decreasing t (i + 1)%Z
  | _ :: _ => Some (i, 2%Z)
  end.

(* ---------- the line ---------- *)
Local Open Scope Z_scope.
Inductive c08case :=
| KChoose (n : Z) (es : list (Z * xreal * xreal))
| KSign (es : list (xreal * xreal))
| KBeta (a b : xreal) (pts : list (xreal * xreal * Z * xreal * xreal))
| KGamma (a : xreal) (pts : list (xreal * Z * xreal * xreal))
| KBetaFn (es : list (xreal * xreal * xreal))
| KScan (fn : Z) (a b lo hi : Q) (n status : Z) (pts : list (xreal * xreal * xreal * xreal)).

Definition p_line : parser c08case :=
  do id <- pZ; if negb (id =? 8) then (fun _ => None) else
  do op <- pZ;
  if op =? 1 then (do n <- pZ; do es <- plist (do k <- pZ; do c <- pX; do l <- pX; pret (k, c, l)); pend (KChoose n es))
  else if op =? 2 then (do es <- plist (do x <- pX; do o <- pX; pret (x, o)); pend (KSign es))
  else if op =? 3 then (do a <- pX; do b <- pX;
                        do pts <- plist (do x <- pX; do x' <- pX; do s <- pZ; do v <- pX; do v' <- pX; pret (x, x', s, v, v'));
                        pend (KBeta a b pts))
  else if op =? 4 then (do a <- pX; do pts <- plist (do x <- pX; do s <- pZ; do p <- pX; do q <- pX; pret (x, s, p, q)); pend (KGamma a pts))
  else if op =? 5 then (do es <- plist (do a <- pX; do b <- pX; do o <- pX; pret (a, b, o)); pend (KBetaFn es))
  else if op =? 6 then (do fn <- pZ; do a <- pQ; do b <- pQ; do lo <- pQ; do hi <- pQ; do n <- pZ; do st <- pZ;
                        do pts <- plist (do u <- pX; do v <- pX; do fu <- pX; do fv <- pX; pret (u, v, fu, fv));
                        pend (KScan fn a b lo hi n st pts))
  else (fun _ => None).

(* tags: 64*op + branch bits.
   op 1: +1 exact branch (n <= 20), +2 exp/lgamma branch
   op 3: +1 closed form compared, +2 direct branch, +4 reflected branch, +8 NaN domain, +16 end value, +32 NaN x
   op 4: +2 series, +4 continued fraction, +8 NaN domain, +16 x = 0
   op 5: +1 exact (half-)integer comparison, +2 law-only
   op 6 (384): +1 BetaInc / +2 GammaInc / +3 GammaIncComp scan in x, +4 a candidate jump was located and judged
   tag 0 is never produced by a well-formed case except an empty list *)
Definition check_C08 (line : list Z) : list Z :=
  match p_line line with
  | None => verdict V_MALFORMED 0 (-1) []
  | Some (KChoose n es, _) =>
      if (n <? 0) || (2000 <? n) then verdict V_MALFORMED 0 (-1) [] else
      let row := binom_row (Z.to_nat n) in
      let tag := 64 + (if n <=? 20 then 1 else 2) in
      match check_choose row n es 0 with
      | None => verdict V_OK tag (-1) []
      | Some (i, w, z) => verdict V_MISMATCH tag i [w; z]
      end
  | Some (KSign es, _) =>
      match check_sign es 0 with
      | None => verdict V_OK 128 (-1) []
      | Some i => verdict V_MISMATCH 128 i []
      end
  | Some (KBeta (XFin a) (XFin b) pts, _) =>
      if Qleb a 0 || Qleb b 0 then verdict V_MALFORMED 0 (-1) [] else
      match check_beta (int_params a b) a b (mkB None 0) pts 0 with
      | (tag, None) => verdict V_OK (192 + tag) (-1) []
      | (tag, Some (i, code, e)) => verdict V_MISMATCH (192 + tag) i (code :: qdiag e)
      end
  | Some (KBeta _ _ _, _) => verdict V_MALFORMED 0 (-1) []
  | Some (KGamma a pts, _) =>
      match check_gamma a None 0 pts 0 with
      | (tag, None) => verdict V_OK (256 + tag) (-1) []
      | (tag, Some (i, code)) => verdict V_MISMATCH (256 + tag) i [code]
      end
  | Some (KBetaFn es, _) =>
      match check_betafn es 0 0 with
      | (tag, None) => verdict V_OK (320 + tag) (-1) []
      | (tag, Some (i, e)) => verdict V_MISMATCH (320 + tag) i (qdiag e)
      end
  | Some (KScan fn a b lo hi n st pts, _) =>
      if negb ((1 <=? fn) && (fn <=? 3) && Qltb 0 a && Qltb lo hi && (8 <=? n)) then verdict V_MALFORMED 0 (-1) [] else
      (* +4: the hunt located at least one candidate jump besides the smallest grid increment *)
      let tag := 384 + fn + (if 2 <=? Z.of_nat (length pts) then 4 else 0) in
      if negb (st =? 0) then verdict V_MISMATCH tag (-1) [7]        (* a panic inside the stated parameter range *)
      else match pts with
           | [] => verdict V_MISMATCH tag (-1) [2]
           | _ => match check_scan (fn =? 3) pts 0 with
                  | Some (i, c) => verdict V_MISMATCH tag i [c]
                  | None => verdict V_OK tag (-1) []
                  end
           end
  end.

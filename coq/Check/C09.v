(* Check/C09.v — correspondence comparator for C09 (descriptive statistics, Sort/Copy, vec).
   Line:  9 kind ...
   kind 0 (one sample, every statistic):
       sorted hasw [xs] [ws]
       | slice functions on xs:  Mean Variance StdDev GeoMean Bounds.min Bounds.max
       | Sample methods: st Mean, st Variance, st StdDev, st GeoMean, Sum, Weight, Bounds.min, Bounds.max
         (st: 0 returned, 2 panicked), unmodified (1 = Xs, Weights, Sorted bit-for-bit as before)
   kind 1 (history over a store of samples, samples[0] = the given one):
       sorted hasw [xs] [ws] nops { op }*
         0 Sort i | DUMP     1 Copy i | DUMP     2 Poke i j v | DUMP
         3 Query i | st Mean, Sum, Weight, Bounds.min, Bounds.max, st Variance
       DUMP = number of samples, then for each: sorted hasw [xs] [ws]
   kind 2 (vec): sub
         0 Linspace lo hi num | [res]            1 Logspace lo hi num base | [res]
         2 Sum [xs] | res                        3 Map/Vectorize f [xs] | [map res] [vectorize res] unmodified
         4 Concat n {[xs]}* | [res] unmodified
   kind 3 (IN-PLACE steps: ONE Sample whose backing arrays Xs and Weights are overwritten in place between the steps -
       reweighting, new values, both, another length - every Sample query re-observed after each overwrite):
       nsteps { sorted hasw [xs] [ws] | the 19 observations of kind 0 }*
       [xs] [ws] are the contents current at that step; the statistics are pure functions of the current contents, so
       every step must pass the kind-0 check on its own (this is what exposes a result memoised on storage identity). *)
From MM Require Import Base.Num Base.GASort Model.Sample.
From Coq Require Import Qround.
Local Open Scope Q_scope.

(* ---------- generic pieces ---------- *)
Fixpoint qpow (q : Q) (n : nat) : Q := match n with O => 1 | S k => Qred (q * qpow q k) end.
Definition Qsumabs (l : list Q) : Q := fold_left (fun a x => Qred (a + Qabs x)) l 0.
Definition q_range (xs : list Q) : Q := match xs with [] => 0 | x :: _ => Qlmax x xs - Qlmin x xs end.
Definition nq (xs : list Q) : Q := Qofnat (length xs).

Definition f_close (tol : Q) (r : fres) (st : Z) (obs : xreal) : bool :=
  match r with
  | FNaN => (st =? 0)%Z && is_nan obs
  | FVal v => (st =? 0)%Z && xwithin tol (XFin v) obs
  | FPanic => (st =? 2)%Z
  end.
(* obs ~ sqrt(radicand) *)
Definition f_close_sqrt (tol : Q) (r : fres) (st : Z) (obs : xreal) : bool :=
  match r with
  | FNaN => (st =? 0)%Z && is_nan obs
  | FVal v => (st =? 0)%Z && match obs with XFin s => close_sqrt tol v s | _ => false end
  | FPanic => (st =? 2)%Z
  end.
Definition b_eq (r : option (Q * Q)) (omin omax : xreal) : bool :=
  match r with
  | None => is_nan omin && is_nan omax
  | Some (a, b) => xeq (XFin a) omin && xeq (XFin b) omax
  end.

Definition first_false (l : list bool) : option Z :=
  (fix go (l : list bool) (i : Z) := match l with [] => None | true :: t => go t (i + 1)%Z | false :: _ => Some i end) l 0%Z.

(* ---------- tolerances: "a small multiple of rounding error" ---------- *)
Definition tol_mean (xs : list Q) : Q := (4 * nq xs + 16) * ulp53 * Qmaxabs xs.
Definition tol_wmean (xs : list Q) : Q := (8 * nq xs + 16) * ulp53 * Qmaxabs xs.
Definition tol_var (xs : list Q) (v : Q) : Q :=
  (1 # 1000000000) * v + (4 * nq xs + 64) * ulp53 * Qmaxabs xs * q_range xs.
Definition tol_sum (terms : list Q) : Q := 2 * (nq terms + 1) * ulp53 * Qsumabs terms.

(* ---------- GeoMean: g = exp(sum c_i ln x_i)  <->  g^D = prod x_i^(c_i D) for D = lcm of the
   denominators of the c_i; checked when D <= 64 (no logarithm is ever computed) ---------- *)
Definition lcm_dens (cs : list Q) : Z := fold_left (fun a c => Z.lcm a (Zpos (Qden (Qred c)))) cs 1%Z.
(* 0 value checked, 1 only bracketed (D too large), 2 mismatch *)
(* the log-average carries an absolute error proportional to max |ln x_i| in the exponent: beyond
   |log2 x| = 64 (ordinary magnitudes: factor 1) the relative tolerance grows with max |log2 x_i| / 64
   (16 at the ends of the float64 range) *)
Definition lg2abs (q : Q) : Z := (Z.abs (Z.log2 (Z.abs (Qnum q)) - Z.log2 (Zpos (Qden q))) + 1)%Z.
Definition geo_scale (xs : list Q) : Q :=
  Qmaxb 1 (inject_Z (fold_left (fun a x => Z.max a (lg2abs x)) xs 0%Z) / 64).
Definition geo_check (xs cs : list Q) (obs : xreal) : Z :=
  match obs with
  | XFin g =>
      if Qle_bool g 0 then 2%Z
      else
        let D := lcm_dens cs in
        if (64 <? D)%Z then
          (* between the smallest and the largest value with non-zero coefficient *)
          let used := map fst (filter (fun p => negb (Qeq_bool (snd p) 0)) (combine xs cs)) in
          match used with
          | [] => 2%Z
          | x :: _ => if Qle_bool (Qlmin x used * (1 - (1 # 1000000000))) g && Qle_bool g (Qlmax x used * (1 + (1 # 1000000000)))
                      then 1%Z else 2%Z
          end
        else
          let es := map (fun c => Z.to_nat (Qnum (Qred (c * inject_Z D)))) cs in
          let target := fold_left (fun a p => Qred (a * qpow (fst p) (snd p))) (combine xs es) 1 in
          let rel := geo_scale xs * (inject_Z D * (nq xs + 8) * 64 * (1 # (2 ^ 52)%positive)) in
          if within (rel * target) target (qpow g (Z.to_nat D)) then 0%Z else 2%Z
  | _ => 2%Z
  end.
Definition g_check (xs : list Q) (r : gres) (st : Z) (obs : xreal) : Z :=
  match r with
  | GNaN => if (st =? 0)%Z && is_nan obs then 0%Z else 2%Z
  | GExp cs => if (st =? 0)%Z then geo_check xs cs obs else 2%Z
  end.

(* ---------- tags ---------- *)
Definition T_UNW := 1%Z.     Definition T_WEIGHTED := 2%Z.  Definition T_ZEROW := 4%Z.
Definition T_FIRSTZERO := 8%Z. Definition T_SORTED := 16%Z. Definition T_GEOVAL := 32%Z.
Definition T_GEONAN := 64%Z. Definition T_HIST := 128%Z.    Definition T_VEC := 256%Z.
Definition T_VAR := 512%Z.   Definition T_COPYPOKE := 1024%Z. Definition T_SORTOP := 2048%Z.
Definition T_GEOBRACKET := 4096%Z.
Definition T_ALLZEROW := 8192%Z.   (* weighted, every weight zero: Mean and GeoMean must be NaN *)
Definition T_WNONPOS := 16384%Z.
Definition T_BIG := 32768%Z.        (* values beyond 1e300: sums / squared deviations overflow float64 although the mean does not *)
Definition T_INPLACE := 131072%Z.    (* in-place overwrite steps on one backing array (kind 3) *)
Definition T_LONG := 65536%Z.       (* at least 4096 values *)    (* weighted, a value <= 0 carries weight: GeoMean must be NaN *)

(* ---------- float64 overflow of sums (values near 1e308) ----------
   maxf = MaxFloat64.  vec.Sum / Sample.Sum add from the left: as soon as an EXACT prefix sum exceeds maxf in
   magnitude the float64 accumulator is +-Inf of that sign and stays so (the values are finite).  Welford's M2 is a
   sum of non-negative terms: it exceeds maxf at some step iff its final exact value does, and Variance / StdDev are
   then +Inf.  (Prefix sums within rounding of maxf are not generated.)  The mean has no such branch: it must be
   finite and within tol_mean. *)
Definition maxf : Q := inject_Z (2 ^ 1024 - 2 ^ 971).
Fixpoint first_overflow (terms : list Q) (acc : Q) : option bool :=
  match terms with
  | [] => None
  | x :: t => let a := Qred (acc + x) in
              if Qltb maxf (Qabs a) then Some (Qltb a 0) else first_overflow t a
  end.
(* observed sum of the terms, model value v *)
Definition sum_close (terms : list Q) (tol v : Q) (obs : xreal) : bool :=
  match first_overflow terms 0 with
  | Some neg => xeq (XInf neg) obs
  | None => xwithin tol (XFin v) obs
  end.
(* exact M2 = variance * (n - 1) of an unweighted sample *)
Definition m2_overflows (xs : list Q) (v : fres) : bool :=
  match v with FVal q => Qltb maxf (q * Qofnat (length xs - 1)) | _ => false end.
Definition var_close (xs : list Q) (tv : Q) (v : fres) (st : Z) (obs : xreal) : bool :=
  if m2_overflows xs v then (st =? 0)%Z && xeq (XInf false) obs else f_close tv v st obs.
Definition std_close (xs : list Q) (tv : Q) (v : fres) (st : Z) (obs : xreal) : bool :=
  if m2_overflows xs v then (st =? 0)%Z && xeq (XInf false) obs else f_close_sqrt tv v st obs.

(* ---------- kind 0 ---------- *)
Record stat_obs := mkSO {
  so_mean : xreal; so_var : xreal; so_std : xreal; so_geo : xreal; so_bmin : xreal; so_bmax : xreal;
  sm_st : Z; sm_mean : xreal; sv_st : Z; sv_var : xreal; sd_st : Z; sd_std : xreal; sg_st : Z; sg_geo : xreal;
  s_sum : xreal; s_weight : xreal; s_bmin : xreal; s_bmax : xreal; s_unmod : Z }.

Definition p_stat_obs : parser stat_obs :=
  do a <- pX; do b <- pX; do c <- pX; do d <- pX; do e <- pX; do f <- pX;
  do g1 <- pZ; do g <- pX; do h1 <- pZ; do h <- pX; do i1 <- pZ; do i <- pX; do j1 <- pZ; do j <- pX;
  do k <- pX; do l <- pX; do m <- pX; do n <- pX; do u <- pZ;
  pret (mkSO a b c d e f g1 g h1 h i1 i j1 j k l m n u).

Definition var_val (r : fres) : Q := match r with FVal v => v | _ => 0 end.

Definition check_stats (sorted hasw : bool) (xs ws : list Q) (o : stat_obs) : list Z :=
  let s := mkSample xs (if hasw then Some ws else None) sorted in
  let v := variance xs in
  let tv := tol_var xs (var_val v) in
  let g := geomean xs in
  let gc := g_check xs g 0 (so_geo o) in
  let sv := sample_variance s in
  let sg := sample_geomean s in
  (* tags only: a value <= 0 carries weight / every weight is zero (the model says NaN for both; compared like every other case) *)
  let wnonpos := hasw && existsb (fun p => Qle_bool (fst p) 0 && negb (Qeq_bool (snd p) 0)) (combine xs ws) in
  let allzero := hasw && forallb (fun w => Qeq_bool w 0) ws && negb (length xs =? 0)%nat in
  let sgc := g_check xs sg (sg_st o) (sg_geo o) in
  let terms := if hasw then map (fun p => fst p * snd p) (combine xs ws) else xs in
  let res := first_false
    [ f_close (tol_mean xs) (mean xs) 0 (so_mean o);
      var_close xs tv v 0 (so_var o);
      std_close xs (tv + 8 * ulp53 * var_val v) v 0 (so_std o);
      negb (gc =? 2)%Z;
      b_eq (bounds xs) (so_bmin o) (so_bmax o);
      f_close (if hasw then tol_wmean xs else tol_mean xs) (sample_mean s) (sm_st o) (sm_mean o);
      var_close xs tv sv (sv_st o) (sv_var o);
      std_close xs (tv + 8 * ulp53 * var_val v) sv (sd_st o) (sd_std o);
      negb (sgc =? 2)%Z;
      sum_close terms (tol_sum terms) (sample_sum s) (s_sum o);
      xwithin (if hasw then tol_sum ws else 0) (XFin (sample_weight s)) (s_weight o);
      b_eq (sample_bounds s) (s_bmin o) (s_bmax o);
      (s_unmod o =? 1)%Z ] in
  let zerow := hasw && existsb (fun w => Qeq_bool w 0) ws in
  let firstz := hasw && match ws with w :: _ => Qeq_bool w 0 | [] => false end in
  let tag := Z.lor (if hasw then T_WEIGHTED else T_UNW)
             (Z.lor (if zerow then T_ZEROW else 0)
             (Z.lor (if firstz then T_FIRSTZERO else 0)
             (Z.lor (if sorted then T_SORTED else 0)
             (Z.lor (if (gc =? 0)%Z || (sgc =? 0)%Z then match g, sg with GNaN, GNaN => T_GEONAN | _, _ => T_GEOVAL end else 0)
             (Z.lor (if (gc =? 1)%Z || (sgc =? 1)%Z then T_GEOBRACKET else 0)
             (Z.lor (if allzero then T_ALLZEROW else 0)
             (Z.lor (if wnonpos then T_WNONPOS else 0)
             (Z.lor (if Qltb (1000000000000 # 1) (Qmaxabs xs) then T_BIG else 0)
             (Z.lor (if (4096 <=? length xs)%nat then T_LONG else 0)
                    (if (2 <=? length xs)%nat then T_VAR else 0))))))))))%Z in
  match xs, res with
  | [], None => verdict V_OK 0 (-1) []
  | _, None => verdict V_OK tag (-1) []
  | _, Some w => verdict V_MISMATCH tag w
                   (match sample_mean s with FVal m => qdiag m | _ => [0%Z; 0%Z] end ++
                    match v with FVal x => qdiag x | _ => [0%Z; 0%Z] end ++ qdiag (sample_sum s))
  end.

(* ---------- kind 1: histories ---------- *)
Record sdump := mkSD { sd_sorted : bool; sd_hasw : bool; sd_xs : list Q; sd_ws : list Q }.
Definition p_sdump : parser sdump :=
  do a <- pbool; do b <- pbool; do xs <- plist pQ; do ws <- plist pQ; pret (mkSD a b xs ws).
Definition sample_of_dump (d : sdump) : sample :=
  mkSample (sd_xs d) (if sd_hasw d then Some (sd_ws d) else None) (sd_sorted d).

Inductive hobs :=
| ODump (ds : list sdump)
| OQuery (mst : Z) (m sum w bmin bmax : xreal) (vst : Z) (v : xreal).

Definition p_hop : parser (hop * hobs) :=
  do code <- pZ;
  if (code =? 0)%Z then (do i <- pnat; do ds <- plist_any p_sdump; pret (HSort i, ODump ds))
  else if (code =? 1)%Z then (do i <- pnat; do ds <- plist_any p_sdump; pret (HCopy i, ODump ds))
  else if (code =? 2)%Z then (do i <- pnat; do j <- pnat; do v <- pQ; do ds <- plist_any p_sdump; pret (HPoke i j v, ODump ds))
  else if (code =? 3)%Z then
    (do i <- pnat; do mst <- pZ; do m <- pX; do sm <- pX; do w <- pX; do b1 <- pX; do b2 <- pX; do vst <- pZ; do v <- pX;
     pret (HQuery i, OQuery mst m sm w b1 b2 vst v))
  else (fun _ => None).

Fixpoint list_Qeq (a b : list Q) : bool :=
  match a, b with
  | [], [] => true
  | x :: a', y :: b' => Qeq_bool x y && list_Qeq a' b'
  | _, _ => false
  end.
Definition ws_of (s : sample) : list Q := match s_ws s with Some w => w | None => [] end.
Definition has_w (s : sample) : bool := match s_ws s with Some _ => true | None => false end.
Definition same_sample (m : sample) (d : sdump) : bool :=
  Bool.eqb (s_sorted m) (sd_sorted d) && Bool.eqb (has_w m) (sd_hasw d) &&
  list_Qeq (s_xs m) (sd_xs d) && list_Qeq (ws_of m) (sd_ws d).
(* lexicographic order on (value, weight): canonical form of a pair multiset *)
Definition lex_leb (a b : Q * Q) : bool :=
  Qltb (fst a) (fst b) || (Qeq_bool (fst a) (fst b) && Qle_bool (snd a) (snd b)).
Definition canon (ps : list (Q * Q)) : list (Q * Q) := isort (Q * Q) lex_leb ps.
(* a just-sorted sample: the values are exactly the model's ascending values; the weights are
   attached to the same values (order inside a group of equal values is free: sort.Sort is not stable) *)
Definition same_sorted_sample (m : sample) (d : sdump) : bool :=
  Bool.eqb (s_sorted m) (sd_sorted d) && Bool.eqb (has_w m) (sd_hasw d) &&
  list_Qeq (s_xs m) (sd_xs d) &&
  (if has_w m then
     (length (sd_ws d) =? length (sd_xs d))%nat &&
     let a := canon (combine (s_xs m) (ws_of m)) in
     let b := canon (combine (sd_xs d) (sd_ws d)) in
     list_Qeq (map fst a) (map fst b) && list_Qeq (map snd a) (map snd b)
   else match sd_ws d with [] => true | _ => false end).

Fixpoint same_store (ms : list sample) (ds : list sdump) (special : nat) (k : nat) : bool :=
  match ms, ds with
  | [], [] => true
  | m :: ms', d :: ds' =>
      (if (k =? special)%nat then same_sorted_sample m d else same_sample m d) && same_store ms' ds' special (S k)
  | _, _ => false
  end.

Definition query_ok (s : sample) (mst : Z) (m sm w b1 b2 : xreal) (vst : Z) (v : xreal) : option Z :=
  let xs := s_xs s in
  let hasw := has_w s in
  let terms := if hasw then map (fun p => fst p * snd p) (combine xs (ws_of s)) else xs in
  let sv := sample_variance s in
  first_false
    [ f_close (if hasw then tol_wmean xs else tol_mean xs) (sample_mean s) mst m;
      sum_close terms (tol_sum terms) (sample_sum s) sm;
      xwithin (if hasw then tol_sum (ws_of s) else 0) (XFin (sample_weight s)) w;
      b_eq (sample_bounds s) b1 b2;
      var_close xs (tol_var xs (var_val sv)) sv vst v ].

Fixpoint run_hist (st : list sample) (ops : list (hop * hobs)) (idx tag : Z) : Z * Z * Z * list Z :=
  match ops with
  | [] => (0%Z, tag, (-1)%Z, [])
  | (op, ob) :: rest =>
      let st' := h_step st op in
      match op, ob with
      | HQuery i, OQuery mst m sm w b1 b2 vst v =>
          match nth_error st' i with
          | None => (3%Z, tag, idx, [])
          | Some s => match query_ok s mst m sm w b1 b2 vst v with
                      | None => run_hist st' rest (idx + 1)%Z tag
                      | Some k => (2%Z, tag, idx, [3%Z; k])
                      end
          end
      | HQuery _, _ => (3%Z, tag, idx, [])
      | _, ODump ds =>
          let special := match op with HSort i => i | _ => length st' end in
          if same_store st' ds special 0 then
            (* adopt the observed order of a just-sorted sample *)
            let st'' := match op with
                        | HSort i => match nth_error ds i with Some d => set_nth st' i (sample_of_dump d) | None => st' end
                        | _ => st' end in
            let t := match op with HSort _ => T_SORTOP | HCopy _ => 0%Z | _ => T_COPYPOKE end in
            run_hist st'' rest (idx + 1)%Z (Z.lor tag t)
          else (2%Z, tag, idx, [match op with HSort _ => 0%Z | HCopy _ => 1%Z | _ => 2%Z end])
      | _, _ => (3%Z, tag, idx, [])
      end
  end.

(* ---------- kind 2: vec ---------- *)
Fixpoint lists_close (tol : Q) (e o : list Q) : bool :=
  match e, o with
  | [], [] => true
  | x :: e', y :: o' => within tol x y && lists_close tol e' o'
  | _, _ => false
  end.
(* base^(num/den) ~ v, for small den *)
Definition pow_ok (base e v : Q) : bool :=
  let r := Qred e in
  let den := Pos.to_nat (Qden r) in
  if (8 <? den)%nat then Qltb 0 v      (* not checked beyond positivity *)
  else
    let num := Qnum r in
    let tgt := if (0 <=? num)%Z then qpow base (Z.to_nat num) else qpow (/ base) (Z.to_nat (- num)) in
    let rel := Qofnat den * (16 + 8 * Qabs e) * (1 # (2 ^ 52)%positive) in
    Qltb 0 v && within (rel * tgt) tgt (qpow v den).
Fixpoint pows_ok (base : Q) (es vs : list Q) : bool :=
  match es, vs with
  | [], [] => true
  | e :: es', v :: vs' => pow_ok base e v && pows_ok base es' vs'
  | _, _ => false
  end.

(* Logspace values form a geometric progression: v1^2 = v0 * v2 for consecutive values (relative 2^-36; the
   float64 exponents lo + i*step carry up to 2 ulp(64) = 1.4e-14, times ln base <= 2.4, four times over).
   Together with the end points (pow_ok when lo, hi have denominator <= 8) this pins the values whose own
   exponent has a denominator > 8, which pow_ok only tests for positivity. *)
Definition prog_rel : Q := 1 # (2 ^ 36)%positive.
Fixpoint geo_prog (vs : list Q) : bool :=
  match vs with
  | v0 :: ((v1 :: v2 :: _) as t) => within (prog_rel * (v1 * v1)) (v1 * v1) (v0 * v2) && geo_prog t
  | _ => true
  end.

Definition vec_fun (fid : Z) (x : Q) : Q :=
  if (fid =? 0)%Z then - x else if (fid =? 1)%Z then x / 2 else if (fid =? 2)%Z then 2 * x
  else if (fid =? 3)%Z then x + 1 else x.

(* the decoded vec case *)
Inductive vcase :=
| VLin (lo hi : Q) (num : nat) (res : list Q)
| VLog (lo hi : Q) (num : nat) (base : Q) (res : list Q)
| VSum (xs : list Q) (r : xreal)
| VMap (fid : Z) (xs r1 r2 : list Q) (u : Z)
| VConcat (xss : list (list Q)) (r : list Q) (u : Z).

Definition p_vcase : parser vcase :=
  do sub <- pZ;
  if (sub =? 0)%Z then
    (do lo <- pQ; do hi <- pQ; do num <- pnat; do res <- plist pQ; pend (VLin lo hi num res))
  else if (sub =? 1)%Z then
    (do lo <- pQ; do hi <- pQ; do num <- pnat; do base <- pQ; do res <- plist pQ; pend (VLog lo hi num base res))
  else if (sub =? 2)%Z then
    (do xs <- plist pQ; do r <- pX; pend (VSum xs r))
  else if (sub =? 3)%Z then
    (do fid <- pZ; do xs <- plist pQ; do r1 <- plist pQ; do r2 <- plist pQ; do u <- pZ; pend (VMap fid xs r1 r2 u))
  else if (sub =? 4)%Z then
    (do xss <- plist_any (plist pQ); do r <- plist pQ; do u <- pZ; pend (VConcat xss r u))
  else (fun _ => None).

Definition tol_lin (lo hi : Q) : Q := 8 * ulp53 * (Qabs lo + Qabs hi).

(* (agrees, diagnostics) *)
Definition check_vec (v : vcase) : bool * list Z :=
  match v with
  | VLin lo hi num res => (lists_close (tol_lin lo hi) (linspace lo hi num) res, [0%Z])
  | VLog lo hi num base res => (pows_ok base (logspace_exponents lo hi num) res && geo_prog res, [1%Z])
  | VSum xs r => (sum_close xs (tol_sum xs) (vsum xs) r, [2%Z])
  | VMap fid xs r1 r2 u =>
      (list_Qeq (vmap (vec_fun fid) xs) r1 && list_Qeq (vectorize (vec_fun fid) xs) r2 && (u =? 1)%Z, [3%Z])
  | VConcat xss r u => (list_Qeq (vconcat xss) r && (u =? 1)%Z, [4%Z])
  end.

(* size of the vec call (tag T_LONG from 4096 on) *)
Definition vec_len (v : vcase) : nat :=
  match v with
  | VLin _ _ num _ => num | VLog _ _ num _ _ => num | VSum xs _ => length xs
  | VMap _ xs _ _ _ => length xs | VConcat _ r _ => length r
  end.

(* ---------- the line ---------- *)
Inductive c09case :=
| KStats (sorted hasw : bool) (xs ws : list Q) (o : stat_obs)               (* kind 0 *)
| KHist (sorted hasw : bool) (xs ws : list Q) (ops : list (hop * hobs))     (* kind 1 *)
| KVec (v : vcase)                                                          (* kind 2 *)
| KSteps (steps : list (bool * bool * list Q * list Q * stat_obs)).         (* kind 3 *)

Definition p_line : parser c09case := fun line =>
  match line with
  | 9%Z :: 0%Z :: rest =>
      (do sorted <- pbool; do hasw <- pbool; do xs <- plist pQ; do ws <- plist pQ; do o <- p_stat_obs;
       pend (KStats sorted hasw xs ws o)) rest
  | 9%Z :: 1%Z :: rest =>
      (do sorted <- pbool; do hasw <- pbool; do xs <- plist pQ; do ws <- plist pQ;
       do ops <- plist_any p_hop; pend (KHist sorted hasw xs ws ops)) rest
  | 9%Z :: 2%Z :: rest => (do v <- p_vcase; pret (KVec v)) rest
  | 9%Z :: 3%Z :: rest =>
      (do steps <- plist_any (do sorted <- pbool; do hasw <- pbool; do xs <- plist pQ; do ws <- plist pQ; do o <- p_stat_obs;
                              pret (sorted, hasw, xs, ws, o));
       pend (KSteps steps)) rest
  | _ => None
  end.

(* the documented requirements of the Sample type (the harness refuses to build other cases): one
   non-negative weight per value; the Sorted flag only on ascending data *)
Fixpoint asc (l : list Q) : bool :=
  match l with x :: ((y :: _) as t) => Qle_bool x y && asc t | _ => true end.
Definition sample_ok (sorted hasw : bool) (xs ws : list Q) : bool :=
  (negb hasw || ((length ws =? length xs)%nat && forallb (Qle_bool 0) ws)) && (negb sorted || asc xs).

(* kind 3: every step is a kind-0 case on the contents current at that step; stop at the first step that is not
   accepted: pos = index of the step, diag = the step's own position and diagnostics *)
Fixpoint run_steps (steps : list (bool * bool * list Q * list Q * stat_obs)) (i tag : Z) : list Z :=
  match steps with
  | [] => verdict V_OK tag (-1) []
  | (sorted, hasw, xs, ws, o) :: rest =>
      if negb (sample_ok sorted hasw xs ws) then verdict V_MALFORMED 0 (-1) [] else
      match check_stats sorted hasw xs ws o with
      | code :: t :: p :: d =>
          let tag' := Z.lor tag (if (t =? 0)%Z then 0%Z else Z.lor t T_INPLACE) in
          if (code =? 0)%Z then run_steps rest (i + 1)%Z tag' else verdict code tag' i (p :: d)
      | _ => verdict V_MALFORMED 0 (-1) []
      end
  end.

Definition check_case (c : c09case) : list Z :=
  match c with
  | KStats sorted hasw xs ws o =>
      if negb (sample_ok sorted hasw xs ws) then verdict V_MALFORMED 0 (-1) []
      else check_stats sorted hasw xs ws o
  | KHist sorted hasw xs ws ops =>
      if negb (sample_ok sorted hasw xs ws) then verdict V_MALFORMED 0 (-1) [] else
      let s0 := mkSample xs (if hasw then Some ws else None) sorted in
      match run_hist [s0] ops 0%Z T_HIST with
      | (code, tag, pos, diag) => verdict (if (code =? 3)%Z then V_MALFORMED else code) tag pos diag
      end
  | KVec v =>
      let '(ok, d) := check_vec v in
      let tag := Z.lor T_VEC (if (4096 <=? vec_len v)%nat then T_LONG else 0%Z) in
      if ok then verdict V_OK tag (-1) [] else verdict V_MISMATCH tag 0 d
  | KSteps steps => run_steps steps 0%Z 0%Z
  end.

Definition check_C09 (line : list Z) : list Z :=
  match p_line line with
  | Some (c, _) => check_case c
  | None => verdict V_MALFORMED 0 (-1) []
  end.

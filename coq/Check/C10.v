(* Check/C10.v — correspondence comparator for C10 (Sample.Quantile, Sample.IQR).
   Line:  10 sorted hasw [xs] [ws] nq { q status result }* iqr_status iqr unmodified
     sorted, hasw : the Sorted flag and whether Weights is non-nil ([ws] is empty otherwise)
     status       : 0 returned, 2 panicked
     unmodified   : 1 when Xs, Weights and Sorted are bit-for-bit what they were before the calls
   History line:  10 2 nsteps { sorted hasw [xs] [ws] nq { q status result }* iqr_status iqr unmodified }*
     (the second integer of a plain line is the Sorted flag, 0 or 1; 2 announces a history)
     ONE Sample whose backing arrays are overwritten IN PLACE between the steps; each step records
     the values current at that moment and what Quantile/IQR returned then.  Quantile is a pure
     function of the current values, so every step must pass the plain check on its own. *)
From MM Require Import Base.Num Base.GASort Model.Sample Model.Quantile.
From Coq Require Import Qround.
Local Open Scope Q_scope.

Definition p_q : parser (Q * Z * xreal) := do q <- pQ; do st <- pZ; do r <- pX; pret (q, st, r).

Definition c10case := (bool * bool * list Q * list Q * list (Q * Z * xreal) * Z * xreal * Z)%type.

(* the body of a case, the Sorted flag [k] already read *)
Definition p_body (k : Z) : parser c10case :=
  do hasw <- pbool; do xs <- plist pQ; do ws <- plist pQ;
  do qs <- plist_any p_q; do ist <- pZ; do iv <- pX; do unm <- pZ;
  pret (negb (k =? 0)%Z, hasw, xs, ws, qs, ist, iv, unm).

(* (is a history, the steps); a plain line is a single step *)
Definition p_line : parser (bool * list c10case) :=
  do tag <- pZ; if negb (tag =? 10)%Z then (fun _ => None) else
  do k <- pZ;
  if (k =? 2)%Z then (do steps <- plist_any (do k' <- pZ; p_body k'); pend (true, steps))
  else (do c <- p_body k; pend (false, [c])).

(* ---------- tolerances ---------- *)
Definition q_range (xs : list Q) : Q := match xs with [] => 0 | x :: _ => Qlmax x xs - Qlmin x xs end.
(* unweighted: the float position n = 1/3 + q(N+1/3) carries ~4 roundings (|dn| <= 4u(N+1)), the
   interpolation a + frac*(b-a) a few more; the result moves by at most |dn| * range *)
Definition tol_unw (xs : list Q) : Q :=
  (8 * Qofnat (length xs) + 16) * ulp53 * q_range xs + 16 * ulp53 * Qmaxabs xs.

(* weighted: the float target q*W and the N running subtractions move the target by at most
   (N+4) * 2^-52 * W: the borderline window of the weighted scan *)
Definition tol_wtarget (n : nat) (W : Q) : Q := (Qofnat n + 4) * (1 # (2 ^ 52)%positive) * W.
(* IQR = Q(0.75) - Q(0.25): unweighted, two interpolated values and one subtraction; weighted,
   both quartiles are sample values and only the subtraction rounds *)
Definition tol_iqr_unw (xs : list Q) : Q := 2 * tol_unw xs + 4 * ulp53 * Qmaxabs xs.
Definition tol_iqr_w (xs : list Q) : Q := Qred (4 * ulp53 * Qmaxabs xs).

(* the Sorted flag may only be set on ascending data (precondition of the type; the harness
   refuses such a case): a line that violates it is malformed *)
Fixpoint asc_b (l : list Q) : bool :=
  match l with
  | x :: (y :: _) as t => Qle_bool x y && asc_b t
  | _ => true
  end.

(* ---------- float exactness (weighted scan) ---------- *)
Definition is_pow2 (p : positive) : bool := match pos_odd_part p 0 with (xH, _) => true | _ => false end.
Definition odd_abs (z : Z) : Z :=
  match z with Z0 => 0%Z | Zpos p => Zpos (fst (pos_odd_part p 0)) | Zneg p => Zpos (fst (pos_odd_part p 0)) end.
Definition fits53 (q : Q) : bool :=
  let r := Qred q in is_pow2 (Qden r) && (odd_abs (Qnum r) <? 9007199254740992)%Z.

(* every partial sum of the weights and every running target is exactly representable *)
Fixpoint sums_exact (ws : list Q) (acc : Q) : bool :=
  match ws with [] => true | w :: t => let a := Qred (acc + w) in fits53 a && sums_exact t a end.
Fixpoint targets_exact (ws : list Q) (t : Q) : bool :=
  match ws with [] => true | w :: r => let t' := Qred (t - w) in fits53 t' && targets_exact r t' end.

Definition rv_eq (r : qr) (st : Z) (obs : xreal) : bool :=
  match r with
  | RNaN => (st =? 0)%Z && is_nan obs
  | RVal v => (st =? 0)%Z && xeq (XFin v) obs
  | RPanic => (st =? 2)%Z
  end.
Definition rv_close (tol : Q) (r : qr) (st : Z) (obs : xreal) : bool :=
  match r with
  | RNaN => (st =? 0)%Z && is_nan obs
  | RVal v => (st =? 0)%Z && xwithin tol (XFin v) obs
  | RPanic => (st =? 2)%Z
  end.

(* ---------- tags ---------- *)
Definition T_INTERP := 1%Z.  Definition T_CLAMPLO := 2%Z.  Definition T_CLAMPHI := 4%Z.
Definition T_QLE0 := 8%Z.    Definition T_QGE1 := 16%Z.    Definition T_WEIGHTED := 32%Z.
Definition T_SORTED := 64%Z. Definition T_BREAK := 128%Z.  Definition T_WLAST := 256%Z.
Definition T_BORDER := 512%Z. Definition T_WFIRST := 1024%Z.
Definition T_HISTORY := 2048%Z.

Definition unw_tag (n : nat) (q : Q) : Z :=
  let h := quantile_pos third_f n q in
  let k := Qfloor h in
  let frac := h - inject_Z k in
  if (k <=? 0)%Z then T_CLAMPLO else if (Z.of_nat n <=? k)%Z then T_CLAMPHI
  else Z.lor T_INTERP (if Qle_bool frac (1 # 1000000) || Qle_bool (999999 # 1000000) frac then T_BREAK else 0)%Z.

(* one query: verdict (0 ok / 1 borderline / 2 mismatch), tag, expected value for diagnostics *)
Definition check_q (s0 s : sample) (sorted_ps : list (Q * Q)) (W : Q) (wex : bool) (tolu : Q) (q : Q) (st : Z) (obs : xreal)
  : Z * Z * qr :=
  (* [s0] is the sample as given, [s] = sample_sort s0 computed once by the caller.  For 0 < q < 1
     quantile s0 q = quantile (sample_sort s0) q (Proofs/Quantile.v: quantile_mid_sort_first);
     for q <= 0 and q >= 1 no sorting happens and the model runs on the sample as given. *)
  let r := if Qle_bool q 0 || Qle_bool 1 q then quantile s0 q else quantile s q in
  if Qle_bool q 0 then ((if rv_eq r st obs then 0 else 2)%Z, T_QLE0, r)
  else if Qle_bool 1 q then ((if rv_eq r st obs then 0 else 2)%Z, T_QGE1, r)
  else match s_ws s with
       | None => ((if rv_close tolu r st obs then 0 else 2)%Z, unw_tag (length (s_xs s)) q, r)
       | Some _ =>
           let t0 := W * q in
           let tg := match wscan sorted_ps t0 None, sorted_ps with
                     | Some v, (x0, _) :: _ =>
                         Z.lor (if Qeq_bool v x0 then T_WFIRST else 0)
                               (if Qle_bool W (t0 + 0) then T_WLAST else 0)
                     | _, _ => 0 end%Z in
           if rv_eq r st obs then (0%Z, tg, r)
           else if wex && fits53 t0 && targets_exact (map snd sorted_ps) t0 then (2%Z, tg, r)
           else
             let e := tol_wtarget (length sorted_ps) W in
             let alt t := match wscan sorted_ps t None with Some v => RVal v | None => RPanic end in
             if rv_eq (alt (t0 - e)) st obs || rv_eq (alt (t0 + e)) st obs then (1%Z, Z.lor tg T_BORDER, r)
             else (2%Z, tg, r)
       end.

Fixpoint run_qs (s0 s : sample) (ps : list (Q * Q)) (W : Q) (wex : bool) (tolu : Q)
                (qs : list (Q * Z * xreal)) (i code tag : Z) : Z * Z * Z * list Z :=
  match qs with
  | [] => (code, tag, (-1)%Z, [])
  | (q, st, obs) :: rest =>
      match check_q s0 s ps W wex tolu q st obs with
      | (v, t, r) =>
          if (v =? 2)%Z then (2%Z, Z.lor tag t, i, match r with RVal e => 1%Z :: qdiag e | RNaN => [0%Z] | RPanic => [2%Z] end)
          else run_qs s0 s ps W wex tolu rest (i + 1)%Z (Z.max code v) (Z.lor tag t)
      end
  end.

(* the candidate values of one weighted quartile: the scan at the exact target and at both ends
   of the borderline window *)
Definition wcands (ps : list (Q * Q)) (W t : Q) : list (option Q) :=
  let e := tol_wtarget (length ps) W in
  wscan ps t None :: wscan ps (t - e) None :: wscan ps (t + e) None :: nil.

(* the weighted float scan is exact for both quartile targets *)
Definition wiqr_exact (ps : list (Q * Q)) (W : Q) (wex : bool) : bool :=
  wex && fits53 (W * (3 # 4)) && fits53 (W * (1 # 4)) && targets_exact (map snd ps) (W * (3 # 4)) && targets_exact (map snd ps) (W * (1 # 4)).

(* IQR = Quantile(0.75) - Quantile(0.25);  [s'] is the sorted sample, iqr s' = iqr s (iqr_sort_first).
   Verdict code of the IQR observable: 0 within tolerance of the model value (exact targets 3W/4, W/4),
   1 BORDERLINE: weighted, the float scan is not exact and only a choice inside the borderline windows of the
   two quartile targets matches (accepted, counted as borderline), 2 mismatch *)
Definition iqr_code (s' : sample) (xs : list Q) (ps : list (Q * Q)) (W : Q) (wex : bool) (ist : Z) (iv : xreal) : Z :=
  let ir := iqr s' in
  match s_ws s' with
  | None => if rv_close (tol_iqr_unw xs) ir ist iv then 0%Z else 2%Z
  | Some _ =>
      let tolw := tol_iqr_w xs in
      if rv_close tolw ir ist iv then 0%Z
      else if
      (* weighted: both quartiles are sample values; accept the borderline choices *)
      negb (wiqr_exact ps W wex) && (ist =? 0)%Z &&
      match iv with
      | XFin v =>
          let c1 := wcands ps W (W * (1 # 4)) in
          existsb (fun a => existsb (fun b => match a, b with
                                              | Some a', Some b' => within tolw (a' - b') v
                                              | _, _ => false end) c1)
                  (wcands ps W (W * (3 # 4)))
      | _ => false end
      then 1%Z else 2%Z
  end.
Definition iqr_ok (s' : sample) (xs : list Q) (ps : list (Q * Q)) (W : Q) (wex : bool) (ist : Z) (iv : xreal) : bool :=
  negb (iqr_code s' xs ps W wex ist iv =? 2)%Z.

(* ---------- exact order facts on the observed floats (NO tolerance) ----------
   The property states them outright: a quantile lies between the minimum and the maximum, is
   non-decreasing in q, and between two EQUAL adjacent order statistics it is that value.  They
   hold exactly for the float computation x0 + frac*(x1-x0) (0 <= frac < 1, x0 <= x1: every
   operation is monotone and fl(frac*d) < d), so they are compared without slack. *)
Definition T_TIEBRACKET := 4096%Z.   (* an interpolated query whose bracket [x0,x1] is a single value *)

(* min <= v <= max for every finite result (q outside [0,1] included: the code clamps) *)
Definition in_range_b (xs : list Q) (qs : list (Q * Z * xreal)) : bool :=
  match xs with
  | [] => true
  | x :: _ => let lo := Qlmin x xs in let hi := Qlmax x xs in
              forallb (fun t => match t with (_, _, XFin v) => Qle_bool lo v && Qle_bool v hi | _ => true end) qs
  end.
(* q1 <= q2 -> v1 <= v2 over all pairs of queries of the case with finite results *)
Definition mono_b (qs : list (Q * Z * xreal)) : bool :=
  forallb (fun a => match a with
                    | (q1, _, XFin v1) =>
                        forallb (fun b => match b with
                                          | (q2, _, XFin v2) => negb (Qle_bool q1 q2) || Qle_bool v1 v2
                                          | _ => true end) qs
                    | _ => true end) qs.
(* unweighted, 0 < q < 1, interpolating position h = k + frac with 1 <= k < n: the result lies in
   the bracket of the k-th and (k+1)-th order statistics - widened by one order statistic on each
   side when frac is within 1e-6 of 0 or 1, where the float position may fall in the neighbouring
   interval (its error is below 4 ulp (n+1)).  Returns (ok, bracket is a single value). *)
Definition bracket_b (sx : list Q) (q : Q) (obs : xreal) : bool * bool :=
  match obs with
  | XFin v =>
      let n := length sx in
      let h := quantile_pos third_f n q in
      let k := Qfloor h in
      let frac := h - inject_Z k in
      if Qle_bool q 0 || Qle_bool 1 q || (k <=? 0)%Z || (Z.of_nat n <=? k)%Z then (true, false)
      else
        let brk := Qle_bool frac (1 # 1000000) || Qle_bool (999999 # 1000000) frac in
        let i0 := Z.to_nat (k - 1) in
        let il := if brk then Nat.pred i0 else i0 in
        let ih := Nat.min (if brk then i0 + 2 else i0 + 1)%nat (n - 1)%nat in
        match nth_error sx il, nth_error sx ih with
        | Some a, Some b => (Qle_bool a v && Qle_bool v b, Qeq_bool a b)
        | _, _ => (true, false)
        end
  | _ => (true, false)
  end.
(* None = all hold; Some id = first failing fact (1 range, 2 monotone, 3 bracket); tag *)
Definition order_check (hasw : bool) (xs sx : list Q) (qs : list (Q * Z * xreal)) : option Z * Z :=
  let br := if hasw then [] else map (fun t => match t with (q, _, o) => bracket_b sx q o end) qs in
  let tg := if existsb snd br then T_TIEBRACKET else 0%Z in
  if negb (in_range_b xs qs) then (Some 1%Z, tg)
  else if negb (mono_b qs) then (Some 2%Z, tg)
  else if negb (forallb fst br) then (Some 3%Z, tg)
  else (None, tg).

(* one case / one step of a history: (code, tag, pos, diag) *)
Definition check_case (c : c10case) : Z * Z * Z * list Z :=
  match c with
  | (sorted, hasw, xs, ws, qs, ist, iv, unm) =>
      if (if hasw then negb (length ws =? length xs)%nat else negb (length ws =? 0)%nat) then (V_MALFORMED, 0%Z, (-1)%Z, []) else
      if sorted && negb (asc_b xs) then (V_MALFORMED, 0%Z, (-1)%Z, []) else
      let s := mkSample xs (if hasw then Some ws else None) sorted in
      let s' := if sorted then s else sample_sort s in
      let ps := match s_ws s' with Some w => combine (s_xs s') w | None => [] end in
      let W := wtotal ps in
      let wex := sums_exact (map snd ps) 0 in
      let tolu := tol_unw xs in
      let base := Z.lor (if hasw then T_WEIGHTED else 0) (if sorted then T_SORTED else 0) in
      match run_qs s s' ps W wex tolu qs 0%Z 0%Z 0%Z with
      | (code, tag, pos, diag) =>
          let oc := order_check hasw xs (s_xs s') qs in
          let tag' := match qs with [] => 0%Z | _ => Z.lor (Z.lor tag base) (snd oc) end in
          if (code =? 2)%Z then (V_MISMATCH, tag', pos, diag)
          else if match fst oc with Some _ => true | None => false end
               then (V_MISMATCH, tag', (-4)%Z, match fst oc with Some w => [10%Z; w] | None => [] end)
          else if negb (unm =? 1)%Z then (V_MISMATCH, tag', (-2)%Z, [9%Z])
          else if iqr_ok s' xs ps W wex ist iv then
            (* a borderline choice inside the weighted IQR raises the verdict code to 1 *)
            let ic := iqr_code s' xs ps W wex ist iv in
            (Z.max code ic, (if (ic =? 1)%Z && negb (tag' =? 0)%Z then Z.lor tag' T_BORDER else tag'), (-1)%Z, [])
          else (V_MISMATCH, tag', (-3)%Z, match iqr s' with RVal e => 1%Z :: qdiag e | RNaN => [0%Z] | RPanic => [2%Z] end)
      end
  end.

(* a history: every step is checked on its own; stop at the first step that is not accepted:
   pos = index of that step, diag = the step's own position and diagnostics *)
Fixpoint run_steps (cs : list c10case) (i code tag : Z) : Z * Z * Z * list Z :=
  match cs with
  | [] => (code, tag, (-1)%Z, [])
  | c :: rest =>
      match check_case c with
      | (v, t, p, d) =>
          if (v =? 0)%Z || (v =? 1)%Z then run_steps rest (i + 1)%Z (Z.max code v) (Z.lor tag t)
          else (v, Z.lor tag t, i, p :: d)
      end
  end.

Definition check_C10 (line : list Z) : list Z :=
  match p_line line with
  | None => verdict V_MALFORMED 0 (-1) []
  | Some ((false, [c]), _) => match check_case c with (v, t, p, d) => verdict v t p d end
  | Some ((false, _), _) => verdict V_MALFORMED 0 (-1) []
  | Some ((true, []), _) => verdict V_OK 0 (-1) []      (* a history without steps: trivial (tag 0) *)
  | Some ((true, cs), _) => match run_steps cs 0%Z 0%Z T_HISTORY with (v, t, p, d) => verdict v t p d end
  end.

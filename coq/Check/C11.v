(* Check/C11.v — correspondence comparator for C11 (QuantileCI / SampleCI).
   Lines (first integer 11, second the operation):
   op 0  n <= 30, one (n, q) with a grid of confidence levels:
         11 0 n qbits nitems { cbits  Nobs Qobsbits confbits lo hi amb }*
   op 1  n > 30, one call; oracle values recomputed by the harness from stats.NormalDist:
         11 1 n qbits cbits  mubits sigmabits l1bits r1bits l0 r0 band_lr band_lr1 cdf_l1 cdf_hi cdf_lo cdf_hi1
              K { band_k cdf_hi_k cdf_lo_k }*K   Nobs Qobsbits confbits lo hi amb
         (mu = norm.Mu, sigma = norm.Sigma, l1 = norm.InvCDF(alpha), alpha = (1-c)/2 capped at 1/2, r1 = 2*mu-l1 in floats,
          l0/r0 the rounded band, la = r0-1 if r0 <= l0 else l0 (its left end);  K = the number of times the band was
          widened (quantileci.go: for cdf(l, r) < confidence && (l > 0 || r < n+1) { l--; r++ }), the K triples are the
          masses and CDF values of the bands (la-k, r0+k), k < K, that were too light; lw = la-K, rw = r0+K the band taken:
          band_lr = CDF(rw-.5)-CDF(lw-.5), band_lr1 = CDF(rw-1.5)-CDF(lw-.5), cdf_l1 = CDF(l1),
          cdf_hi = CDF(rw-.5), cdf_lo = CDF(lw-.5), cdf_hi1 = CDF(rw-1.5))
   op 2  SampleCI:  11 2 N lo hi qbits weighted sortedflag status xs_before xs_after qret loret hiret qref
         (status 0 returned, 2 panicked; qref = Quantile(q) of a sorted copy, computed by the harness) *)
From MM Require Import Base.Num Base.GFSum Model.Choose Model.Binom Model.QuantileCI Check.C06.
From Coq Require Import Qround Sorting.Mergesort Orders.
Local Open Scope Z_scope.

(* Confidence "equals the exact Binomial(n,q) probability of the buckets": same absolute tolerance
   as the PMF/CDF of C06 *)
Definition tol_conf : Q := 1 # 10000000000.
(* borderline window of the float comparisons outside the float-exact regime: 2^-40 relative *)
Definition eps_border : Q := 1 # 1099511627776.
Definition ieps_border : Q := 1099511627776 # 1.

(* float-exact regime: n <= 20 (Choose is an exact integer) and all weights fit 53 bits
   (q = a/2^e with e*n <= 52): every float operation of the greedy loop is exact, so every
   comparison is decided exactly and is checked strictly *)
Definition exact_regime (n : Z) (q : Q) : bool :=
  let d := Zpos (Qden q) in
  let e := Z.log2 d in
  (n <=? 20) && (d =? Z.shiftl 1 e) && (e * n <=? 52).

(* scaled integer masses: P'(k) = w_k * cd, c' = cn * D   (common factor D * cd) *)
Definition scaled_pmf (n : Z) (ws : list Z) (k : Z) : Q :=
  if (k <? 0) || (n <? k) then 0%Q
  else match nth_error ws (Z.to_nat k) with Some w => inject_Z w | None => 0%Q end.

Definition mode_candidates (n : Z) (q : Q) (exact : bool) : list Z :=
  let x := mode_x n q in
  if exact || Qeq_bool q 0 then [x] else
  let y := (inject_Z (n + 1) * q)%Q in
  let m := Qfloor (y + (1 # 2))%Q in                       (* nearest integer *)
  if Qle_bool (Qabs (y - inject_Z m)) (eps_border * Qabs y)%Q
  then filter (fun z => (0 <=? z) && (z <=? n)) [m - 1; m] else [x].

Record qobs := mkQO { o_n : Z; o_qbits : Z; o_conf : xreal; o_lo : Z; o_hi : Z; o_amb : bool }.
Definition p_qobs : parser qobs :=
  do a <- pZ; do b <- pZ; do c <- pX; do d <- pZ; do e <- pZ; do f <- pbool; pret (mkQO a b c d e f).

(* does an admissible outcome match the observation?  conf of the outcome is acc / 2^sh *)
Definition match_small (sh : Z) (o : qobs) (r : qres) : bool :=
  (r_lo r =? o_lo o) && (r_hi r =? o_hi o) && Bool.eqb (r_amb r) (o_amb o) &&
  match o_conf o with
  | XFin cf => dwithin tol_conf (Qnum (r_conf r)) 1 sh cf
  | _ => false
  end.

(* an integer mass w (unit 1/2^sh) below 2^-999: the float PMF of such a bucket may have underflowed to 0 *)
Definition negligible (sh : Z) (w : Q) : bool := Qle_bool w 0 || (Z.log2 (Qnum w) + 1000 <=? sh).
Definition conf_ge_c (P : Z -> Q) (sh : Z) (c : Q) (o : qobs) : bool :=
  match o_conf o with
  | XFin cf => if Qle_bool c cf then true else negligible sh (P (o_lo o - 1)) && negligible sh (P (o_hi o))
  | _ => false
  end.

(* the property's own order claim, checked on the observation itself, for every c *)
Definition orders_ok (n : Z) (o : qobs) : bool :=
  (0 <=? o_lo o) && (o_lo o <? o_hi o) && (o_hi o <=? n + 1).

Definition is_full (n : Z) (o : qobs) : bool :=
  (o_lo o =? 0) && (o_hi o =? n + 1) && negb (o_amb o) && xeq (XFin 1) (o_conf o).

(* the admissible outcomes for the level c = cn/2^j on the integer masses of unit 1/D, D = 2^(e n):
   the accumulated integer is scaled by sc = 2^j and compared with the integer cn * D = sc * (D * c).
   Proofs/QuantileCIScale.v (comparator_outs_contain_model): this set contains the result of the
   deterministic model on the rational Binomial(n,q) PMF at level c. *)
Definition small_outs (P : Z -> Q) (n : Z) (g : list (list (st * list st))) (e : Z) (exact : bool) (c : Q) : list qres :=
  let sc := inject_Z (Zpos (Qden c)) in
  let c' := inject_Z (Z.shiftl (Qnum c) (e * n)) in
  qci_small_set P (if exact then 0%Q else ieps_border) n g sc c'.

(* one item of an op-0 line; returns (verdict code, tag) and diagnostics.  [g] is the transition
   graph of the line over the integer masses w_k (unit 1/D, D = 2^(e n)); c = cn/2^j is compared as
   the integer cn * D against (2^j) * accum *)
Definition check_small_item (P : Z -> Q) (n : Z) (x : Z) (qbits : Z) (g : list (list (st * list st))) (e : Z) (exact : bool)
                            (c : Q) (o : qobs) : Z * Z * list Z :=
  if negb ((o_n o =? n) && (o_qbits o =? qbits)) then (V_MISMATCH, 1, [0])
  else if negb (orders_ok n o) then (V_MISMATCH, 1, [9])
  else if Qle_bool 1 c then (if is_full n o then (V_OK, 3, []) else (V_MISMATCH, 3, [1]))
  else
    let sc := inject_Z (Zpos (Qden c)) in
    let c' := inject_Z (Z.shiftl (Qnum c) (e * n)) in
    let outs := small_outs P n g e exact c in
    (* for small n the deterministic model function [qci_small] (the one the theorems are about) is run
       as well, on the same integer masses: its result must be one of the admissible outcomes *)
    let det_ok := if 10 <? n then true else
                  match qci_small (fun k => (sc * P k)%Q) n x c' with
                  | Some r => existsb (fun t => (r_lo r =? r_lo t) && (r_hi r =? r_hi t) && Bool.eqb (r_amb r) (r_amb t)
                                                && Qeq_bool (r_conf r) (sc * r_conf t)%Q) outs
                  | None => false
                  end in
    if negb det_ok then (V_MALFORMED, 1, [8]) else
    let tag := Z.lor 1 (Z.lor (if exact then 64 else 0)
               (Z.lor (if 2 <=? o_hi o - o_lo o then 4 else 0)
               (Z.lor (if o_amb o then 8 else 0)
               (Z.lor (if (o_lo o =? 0) && (o_hi o =? n + 1) then 16 else 0)
                      (if (1 <? Z.of_nat (length outs)) then 32 else 0))))) in
    if existsb (match_small (e * n) o) outs
    then (* "Confidence is at least c", on the observed floats themselves: the loop leaves only when
            accum >= confidence — or when neither neighbour bucket has any mass left (float PMF zero: the exact
            mass is zero or far below the underflow threshold), and it reports accum *)
         if conf_ge_c P (e * n) c o then ((if (1 <? Z.of_nat (length outs)) then V_BORDERLINE else V_OK), tag, [])
         else (V_MISMATCH, tag, [12])
    else (V_MISMATCH, tag,
          match outs with
          | r :: _ => [2; r_lo r; r_hi r; (if r_amb r then 1 else 0); Qnum (r_conf r); e * n; Z.of_nat (length outs)]
          | [] => [2]
          end).

Fixpoint run_small (P : Z -> Q) (n : Z) (x : Z) (qbits : Z) (g : list (list (st * list st))) (e : Z) (exact : bool)
                   (items : list (Q * qobs)) (idx tag : Z) (border : bool) : list Z :=
  match items with
  | [] => verdict (if border then V_BORDERLINE else V_OK) tag (-1) []
  | (c, o) :: rest =>
      let '(code, t, dg) := check_small_item P n x qbits g e exact c o in
      if (code =? V_OK) || (code =? V_BORDERLINE)
      then run_small P n x qbits g e exact rest (idx + 1) (Z.lor tag t) (border || (code =? V_BORDERLINE))
      else verdict code (Z.lor tag t) idx dg
  end.

(* ---- op 0: "intervals are nested as c grows", checked on the observations of a line themselves: the items
   are sorted by level; consecutive items must be nested, and equal levels must give equal intervals ---- *)
Module ItemOrder <: TotalLeBool.
  Definition t := (Q * qobs)%type.
  Definition leb (a b : t) : bool := Qle_bool (fst a) (fst b).
  Theorem leb_total : forall a1 a2, leb a1 a2 = true \/ leb a2 a1 = true.
  Proof. intros a b. apply QOrder.leb_total. Qed.
End ItemOrder.
Module ItemSort := Sort ItemOrder.
Fixpoint nested_chain (l : list (Q * qobs)) : bool :=
  match l with
  | a :: ((b :: _) as t) =>
      (o_lo (snd b) <=? o_lo (snd a)) && (o_hi (snd a) <=? o_hi (snd b)) &&
      (negb (Qle_bool (fst b) (fst a)) || ((o_lo (snd a) =? o_lo (snd b)) && (o_hi (snd a) =? o_hi (snd b)))) &&
      nested_chain t
  | _ => true
  end.
Definition nested_ok (items : list (Q * qobs)) : bool := nested_chain (ItemSort.sort items).

Definition ulps (k : Z) (scale : Q) : Q := (inject_Z k * ulp53 * Qabs scale)%Q.

(* ---- op 1: the bands the widening loop went through (mass, CDF at the upper end, CDF at the lower end) ---- *)
Fixpoint fin_steps (ws : list (xreal * xreal * xreal)) : option (list (Q * Q * Q)) :=
  match ws with
  | [] => Some []
  | (XFin b, XFin h, XFin l) :: t => match fin_steps t with Some r => Some ((b, h, l) :: r) | None => None end
  | _ :: _ => None
  end.
(* every band (la-k, r0+k) of the list: its mass is the difference of its CDF values, the loop guard was true
   there (mass < c and the band does not cover [0, n+1]), and the CDF values are ordered towards the next
   band (the last one towards the band taken, chF / clF) *)
Fixpoint chain_ok (n : Z) (c : Q) (la r0 k : Z) (steps : list (Q * Q * Q)) (chF clF : Q) : bool :=
  match steps with
  | [] => true
  | (b, h, l) :: t =>
      within (ulps 2 1) (h - l)%Q b && Qltb b c && ((0 <? la - k) || (r0 + k <? n + 1))
      && (match t with [] => Qle_bool h chF && Qle_bool clF l | (_, h', l') :: _ => Qle_bool h h' && Qle_bool l' l end)
      && chain_ok n c la r0 (k + 1) t chF clF
  end.
Fixpoint step_lookup (steps : list (Q * Q * Q)) (la r0 k a b : Z) : option Q :=
  match steps with
  | [] => None
  | (w, _, _) :: t => if (a =? la - k) && (b =? r0 + k) then Some w else step_lookup t la r0 (k + 1) a b
  end.
Definition qres_eqb (x y : qres) : bool :=
  (r_lo x =? r_lo y) && (r_hi x =? r_hi y) && Qeq_bool (r_conf x) (r_conf y) && Bool.eqb (r_amb x) (r_amb y).

Definition check_C11 (line : list Z) : list Z :=
  match line with
  | 11 :: 0 :: rest =>
      match (do n <- pZ; do qb <- pZ; do items <- plist (do c <- pQ; do o <- p_qobs; pret (c, o)); pend (n, qb, items)) rest with
      | Some ((n, qb, items), _) =>
          match decode_bits qb with
          | XFin q =>
              if (n <? 1) || (qci_threshold <? n) || Qltb q 0 || Qltb 1 q then verdict V_MALFORMED 0 (-1) [] else
              let d := Zpos (Qden q) in
              let e := Z.log2 d in
              if negb (d =? Z.shiftl 1 e) then verdict V_MALFORMED 0 (-1) [] else
              let ws := binom_weights n (Qnum q) (d - Qnum q) in
              let exact := exact_regime n q in
              match qci_graph (scaled_pmf n ws) (if exact then 0%Q else ieps_border) n (mode_candidates n q exact) with
              | Some g => if negb (nested_ok items) then verdict V_MISMATCH 1 (-1) [10]
                          else run_small (scaled_pmf n ws) n (mode_x n q) qb g e exact items 0 0 false
              | None => verdict V_MALFORMED 0 (-1) [7]
              end
          | _ => verdict V_MALFORMED 0 (-1) []
          end
      | None => verdict V_MALFORMED 0 (-1) []
      end
  | 11 :: 1 :: rest =>
      match (do n <- pZ; do qb <- pZ; do c <- pQ; do mu <- pX; do sg <- pX; do l1 <- pX; do r1 <- pX; do l0 <- pZ; do r0 <- pZ;
             do b1 <- pX; do b2 <- pX; do pl1 <- pX; do ch <- pX; do cl <- pX; do ch1 <- pX;
             do ws <- plist (do b <- pX; do h <- pX; do l <- pX; pret (b, h, l)); do o <- p_qobs;
             pend (n, qb, c, (mu, sg, l1, r1), (l0, r0), (b1, b2, pl1), (ch, cl, ch1), ws, o)) rest with
      | Some ((n, qb, c, (mu, sg, l1, r1), (l0, r0), (b1, b2, pl1), (ch, cl, ch1), ws, o), _) =>
          match decode_bits qb with
          | XFin q =>
              if (n <=? qci_threshold) || Qltb q 0 || Qltb 1 q then verdict V_MALFORMED 0 (-1) [] else
              if negb ((o_n o =? n) && (o_qbits o =? qb)) then verdict V_MISMATCH 128 0 [] else
              (* the property's order claim on the observation itself, for every c *)
              if negb (orders_ok n o) then verdict V_MISMATCH (Z.lor 128 (if Qle_bool c 0 then 16384 else 0)) 9 [o_lo o; o_hi o] else
              if Qle_bool 1 c then (if is_full n o then verdict V_OK 130 (-1) [] else verdict V_MISMATCH 130 1 []) else
              match mu, sg, l1, r1, b1, b2, ch, cl, ch1, fin_steps ws with
              | XFin mu, XFin sg, XFin l1, XFin r1, XFin b1, XFin b2, XFin ch, XFin cl, XFin ch1, Some steps =>
                  let nq := (inject_Z n * q)%Q in
                  (* the approximating normal is Normal(n q, n q (1-q)): sigma^2 within 8 ulps of the variance *)
                  let var := (nq * (1 - q))%Q in
                  if negb (close_sqrt (ulps 8 var) var sg) then verdict V_MISMATCH 128 2 [1] else
                  (* the oracle values are mutually consistent: mu = n q, r1 = 2 mu - l1, the band masses
                     are the differences of the CDF values, the CDF values are ordered *)
                  if negb (within (ulps 4 nq) nq mu) then verdict V_MISMATCH 128 2 [] else
                  if negb (within (ulps 4 (Qabs mu * 2 + Qabs l1)) (2 * mu - l1)%Q r1) then verdict V_MISMATCH 128 3 [] else
                  if negb (within (ulps 2 1) (ch - cl)%Q b1 && within (ulps 2 1) (ch1 - cl)%Q b2
                           && Qle_bool ch1 ch) then verdict V_MISMATCH 128 4 [] else
                  let l := Qfloor (l1 - (1 # 2))%Q + 1 in
                  let r := Qceiling (r1 - (1 # 2))%Q + 1 in
                  if negb ((l =? l0) && (r =? r0)) then verdict V_MISMATCH 128 5 [l; r; l0; r0] else
                  (* the left end of the rounded band: an empty rounded band keeps the bucket below r *)
                  let la := if r <=? l then r - 1 else l in
                  (* the widening loop: K bands that were too light, then the band taken (lw, rw), at which the
                     loop guard is false *)
                  let K := Z.of_nat (length steps) in
                  let lw := la - K in
                  let rw := r0 + K in
                  if negb (chain_ok n c la r0 0 steps ch cl) then verdict V_MISMATCH 128 10 [K] else
                  if Qltb b1 c && ((0 <? lw) || (rw <? n + 1)) then verdict V_MISMATCH 128 10 [K; lw; rw] else
                  (* l1 really is the alpha-quantile of the approximating normal (accuracy of InvCDF/CDF
                     themselves belongs to C05): |CDF(l1) - (1-c)/2| <= 1e-9 *)
                  let alpha_ok := match pl1 with
                                  | XFin p => within (1 # 1000000000) (qci_alpha c) p
                                  | _ => Qeq_bool q 0 || Qeq_bool q 1
                                  end in
                  if negb alpha_ok then verdict V_MISMATCH 128 6 [] else
                  (* the band logic on the observed masses, in closed form ... *)
                  let biased := (lw <? rw - 1) && Qle_bool c b2 && Qltb b2 b1 in
                  let r' := if biased then rw - 1 else rw in
                  let full := (lw <=? 0) && (n + 1 <=? r') in
                  let ex := mkR (Z.max lw 0) (Z.min r' (n + 1)) (if full then 1%Q else if biased then b2 else b1)
                                (biased && negb full) in
                  (* ... which must be what the model function [qci_normal] (the one the theorems are about)
                     computes from the same band masses *)
                  let band := fun a b : Z => match step_lookup steps la r0 0 a b with
                                             | Some w => w
                                             | None => if (a =? lw) && (b =? rw) then b1
                                                       else if (a =? lw) && (b =? rw - 1) then b2 else (-1)%Q
                                             end in
                  if negb (qres_eqb (qci_normal band n c l1 r1) ex) then verdict V_MALFORMED 128 11 [K] else
                  let tag := Z.lor 128 (Z.lor (if r_amb ex then 256 else 0)
                             (Z.lor (if (lw <=? 0) && (n + 1 <=? r_hi ex) then 512 else 0)
                             (Z.lor (if (lw <? 0) || (n + 1 <? rw) then 16 else 0)
                             (Z.lor (if Qle_bool c b2 then 1024 else 0)
                             (Z.lor (if 0 <? K then 32768 else 0)
                                    (if Qle_bool c 0 then 16384 else 0)))))) in
                  if (r_lo ex =? o_lo o) && (r_hi ex =? o_hi o) && Bool.eqb (r_amb ex) (o_amb o)
                     && xeq (XFin (r_conf ex)) (o_conf o) && Qle_bool c (r_conf ex)
                  then verdict V_OK tag (-1) []
                  else verdict V_MISMATCH tag 7 ([r_lo ex; r_hi ex; (if r_amb ex then 1 else 0)] ++ qdiag (r_conf ex))
              | _, _, _, _, _, _, _, _, _, _ => verdict V_MISMATCH 128 8 []
              end
          | _ => verdict V_MALFORMED 0 (-1) []
          end
      | None => verdict V_MALFORMED 0 (-1) []
      end
  | 11 :: 2 :: rest =>
      match (do N <- pZ; do lo <- pZ; do hi <- pZ; do qb <- pZ; do w <- pbool; do sf <- pbool; do st <- pZ;
             do xb <- plist pZ; do xa <- plist pZ; do qret <- pZ; do loret <- pX; do hiret <- pX; do qref <- pZ;
             pend (N, lo, hi, qb, (w, sf, st), (xb, xa), (qret, loret, hiret, qref))) rest with
      | Some ((N, lo, hi, qb, (w, sf, st), (xb, xa), (qret, loret, hiret, qref)), _) =>
          match (fix dec (l : list Z) : option (list Q) :=
                   match l with [] => Some [] | b :: t =>
                     match decode_bits b, dec t with XFin x, Some r => Some (x :: r) | _, _ => None end end) xb with
          | None => verdict V_MALFORMED 0 (-1) []
          | Some xs =>
              if negb (list_Z_eqb xb xa) then verdict V_MISMATCH 1024 0 [] else      (* the sample was modified *)
              match sample_ci N lo hi w sf xs with
              | SciPanic => if st =? 2 then verdict V_OK 4096 (-1) [] else verdict V_MISMATCH 4096 1 []
              | SciOk elo ehi _ =>
                  let tag := Z.lor 1024 (Z.lor (if is_fin elo && is_fin ehi then 0 else 2048) (if sf then 8192 else 0)) in
                  if negb (st =? 0) then verdict V_MISMATCH tag 1 [] else
                  if negb (xeq elo loret) then verdict V_MISMATCH tag 2 [] else
                  if negb (xeq ehi hiret) then verdict V_MISMATCH tag 3 [] else
                  if negb (qret =? qref) then verdict V_MISMATCH tag 4 [] else
                  verdict V_OK tag (-1) []
              end
          end
      | None => verdict V_MALFORMED 0 (-1) []
      end
  | _ => verdict V_MALFORMED 0 (-1) []
  end.

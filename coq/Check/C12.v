(* Check/C12.v — correspondence comparator for C12 (kernel density estimates).

   LINE LAYOUT (all integers hexadecimal on the wire; "f" = IEEE-754 bit pattern of a float64)

     12 kernel hasw [xs] [ws] h bmin bmax
        sc_st sc  si_st si
        npts { x  pst pdf  cst cdf  hafter }*
        b_st b_lo b_hi b_cdflo b_cdfhi b_hafter
        nquad { a b integral cdf_a cdf_b }*
        m_st m_a m_b m_integral
        unmodified sorted npre

     kernel     0 Epanechnikov, 1 Gaussian, 2 Delta                      (KDE.Kernel)
     hasw       1 when Sample.Weights is non-nil ([ws] is the empty list otherwise)
     [xs] [ws]  length-prefixed lists of f (finite)                       (KDE.Sample)
     h          f, the Bandwidth field BEFORE the first call (0 = lazy selection)
     bmin bmax  f, BoundaryMin / BoundaryMax (may be -Inf / +Inf; 0 0 = no boundary)
     sc_st sc   BandwidthScott(Sample):     status (0 returned, 2 panicked), value f
     si_st si   BandwidthSilverman(Sample): status, value f
     per point (points are in ascending order of x):
       x        f, finite
       pst pdf  status (0/2) and value f of KDE.PDF(x)
       cst cdf  status (0/2) and value f of KDE.CDF(x)
       hafter   f, the Bandwidth field after the two calls
     b_st ...   KDE.Bounds(): status (0 returned, 2 panicked, 3 not called), low, high (f), the
                implementation's own CDF(low), CDF(high) (f), Bandwidth field afterwards (f)
     per quadrature record: a b (f), composite Gauss-Legendre integral of the implementation's
                PDF over [a,b] (f), the implementation's own CDF(a), CDF(b) (f)
     m_st ...   total mass: status (0 present, 3 absent), the interval [m_a, m_b] (f) and the
                quadrature of the implementation's PDF over it (f)
     unmodified 1 when Sample.Xs / Sample.Weights are bit-for-bit what they were before
     sorted     1 when Sample.Sorted was set (only on ascending Xs): must not change any result
     npre       number of earlier configurations the SAME KDE object went through (configured by
                field assignment and evaluated) before it was re-configured as this one: must not
                change any result (the only state is the lazily filled Bandwidth, which is h here)

   WHAT IS COMPARED
     Epanechnikov and delta kernels: PDF and CDF against the exact model (abs 1e-9 * peak kernel
     density 0.75/h for PDF, abs 1e-9 for CDF; the delta kernel's PDF exactly: +Inf / 0).
     Every kernel (Gaussian included), on the implementation's own outputs: PDF >= 0, CDF in
     [0,1] and non-decreasing along the sorted points, PDF = 0 outside [BoundaryMin, BoundaryMax),
     CDF = 0 below and AT BoundaryMin, CDF = 1 from BoundaryMax; the quadrature of PDF over
     [a,b] equals CDF(b) - CDF(a) and the total mass is 1 (tolerance 1e-6, supporting evidence:
     the quadrature is float arithmetic of the harness).
     Gaussian VALUES are not compared here (no exp/erfc in Q): they are the subject of the M2
     certificates of bin/plugins/C12.py (group gH), which reads the same line.
     Bandwidth: non-zero h is never changed; h = 0 is replaced at the first call by a value b
     with b^10 = (1.06*min(s, IQR/1.349))^10 / n^2 and never changes afterwards; the model then
     runs with the bandwidth the code stored.  Tolerance of the rules: "to within rounding" of
     the variance (1e-9 relative + the rounding of Welford's loop on data of magnitude maxabs and
     range r: (4n+64) ulp maxabs r, the tolerance of C09) and of the quartiles (C10's tolerance),
     carried through the monotone map s2 -> 1.06^10 s2^5 / n^2, plus 1e-8 relative on the 10th
     power (= 1e-9 on the bandwidth).  For data whose offset is up to 1e9 spreads this stays far
     below the error of a cancelling variance formula.
     Bounds(): finite, low <= high, inside the boundaries, CDF(high) - CDF(low) >= 0.98 with the
     exact model CDF (Gaussian: with the implementation's own CDF values; delta kernel: the
     weight of the data points in the closed interval [low, high]). *)
From MM Require Import Base.Num Base.GASort Model.Sample Model.Quantile Model.Kde.
From Coq Require Import Qround.
Local Open Scope Q_scope.

Record pt := mkPt { p_x : Q; p_pst : Z; p_pdf : xreal; p_cst : Z; p_cdf : xreal; p_h : xreal }.
Record quad := mkQuad { q_a : Q; q_b : Q; q_int : xreal; q_ca : xreal; q_cb : xreal }.
Record bnds := mkBnds { b_st : Z; b_lo : xreal; b_hi : xreal; b_clo : xreal; b_chi : xreal; b_h : xreal }.
Record cline := mkLine {
  l_kernel : Z; l_hasw : bool; l_xs : list Q; l_ws : list Q; l_h : Q; l_bmin : xreal; l_bmax : xreal;
  l_scst : Z; l_sc : xreal; l_sist : Z; l_si : xreal;
  l_pts : list pt; l_bnds : bnds; l_quads : list quad;
  l_mst : Z; l_ma : xreal; l_mb : xreal; l_mint : xreal; l_unmod : Z; l_sorted : bool; l_npre : Z }.

Definition p_pt : parser pt :=
  do x <- pQ; do ps <- pZ; do pv <- pX; do cs <- pZ; do cv <- pX; do h <- pX; pret (mkPt x ps pv cs cv h).
Definition p_quad : parser quad :=
  do a <- pQ; do b <- pQ; do i <- pX; do ca <- pX; do cb <- pX; pret (mkQuad a b i ca cb).
Definition p_bnds : parser bnds :=
  do s <- pZ; do lo <- pX; do hi <- pX; do cl <- pX; do ch <- pX; do h <- pX; pret (mkBnds s lo hi cl ch h).

Definition p_line : parser cline :=
  do tag <- pZ; if negb (tag =? 12)%Z then (fun _ => None) else
  do kern <- pZ; do hasw <- pbool; do xs <- plist pQ; do ws <- plist pQ;
  do h <- pQ; do bmin <- pX; do bmax <- pX;
  do scst <- pZ; do sc <- pX; do sist <- pZ; do si <- pX;
  do pts <- plist_any p_pt; do bn <- p_bnds; do qs <- plist_any p_quad;
  do mst <- pZ; do ma <- pX; do mb <- pX; do mi <- pX; do unm <- pZ; do srt <- pbool; do npre <- pZ;
  pend (mkLine kern hasw xs ws h bmin bmax scst sc sist si pts bn qs mst ma mb mi unm srt npre).

(* ---------- tolerances ---------- *)
Definition e9 : Q := 1 # 1000000000.
Definition e6 : Q := 1 # 1000000.
Definition e8 : Q := 1 # 100000000.
(* float noise allowed on the laws checked on the implementation's own outputs *)
Definition slack : Q := 1 # 1000000000000.
(* "abs 1e-9 * peak density": the peak of one Epanechnikov kernel is 0.75/h *)
Definition tol_pdf (h : Q) : Q := e9 * ((3 # 4) / h).
Definition tol_cdf : Q := e9.

(* ---------- tags ---------- *)
Definition T_EPAN := 1%Z.     Definition T_GAUSS := 2%Z.    Definition T_DELTA := 4%Z.
Definition T_NOBC := 8%Z.     Definition T_LOWER := 16%Z.   Definition T_UPPER := 32%Z.
Definition T_BOTH := 64%Z.    Definition T_OUTSIDE := 128%Z. (* a guard fired: x < min or x >= max *)
Definition T_ATMIN := 256%Z.  Definition T_ATMAX := 512%Z.   (* x exactly at a boundary *)
Definition T_WEIGHTED := 1024%Z.
Definition T_LAZY := 2048%Z.  (* Bandwidth was 0: Scott's rule filled it in *)
Definition T_IMAGES := 4096%Z. (* doubly bounded and an image beyond the two nearest ones contributes *)
Definition T_KEND := 8192%Z.  (* x exactly at the end x_i +- h of a kernel's support / at a data point (delta) *)
Definition T_BOUNDS := 16384%Z.
Definition T_QUAD := 32768%Z.
Definition T_INF := 65536%Z.  (* delta kernel: PDF = +Inf *)
Definition T_EMPTY := 131072%Z.
Definition T_BWRULE := 262144%Z. (* a bandwidth rule returned a value that was compared *)
Definition T_BORDER := 524288%Z.
Definition T_SORTED := 1048576%Z. (* Sample.Sorted set *)
Definition T_HISTORY := 4194304%Z. (* the KDE object had other configurations before *)
Definition T_OFFSET := 2097152%Z. (* bandwidth rule compared on data whose offset is >= 1e4 ranges *) (* delta kernel, inexact image arithmetic within rounding of a jump: either side accepted *)

(* ---------- observable classes (first diagnostic integer of a mismatch) ---------- *)
Definition D_PDF := 1%Z.    Definition D_CDF := 2%Z.     Definition D_HAFTER := 3%Z.
Definition D_LAWPDF := 4%Z. Definition D_LAWCDF := 5%Z.  Definition D_MONO := 6%Z.
Definition D_BOUNDS := 7%Z. Definition D_SCOTT := 8%Z.   Definition D_SILVER := 9%Z.
Definition D_QUAD := 10%Z.  Definition D_MASS := 11%Z.   Definition D_UNMOD := 12%Z.
Definition D_STATUS := 13%Z.

Definition kernel_of (z : Z) : option kernel :=
  if (z =? 0)%Z then Some KEpan else if (z =? 1)%Z then Some KGauss else if (z =? 2)%Z then Some KDelta else None.

Definition xdiag (x : option xreal) : list Z :=
  match x with
  | Some (XFin q) => 1%Z :: qdiag q
  | Some XNaN => [0%Z]
  | Some (XInf s) => [if s then (-2)%Z else 2%Z]
  | None => [9%Z]
  end.

(* ---------- bandwidth rules ---------- *)
Definition bq_range (xs : list Q) : Q := match xs with [] => 0 | x :: _ => Qlmax x xs - Qlmin x xs end.
(* rounding of the variance (Welford's loop): the tolerance of Check/C09.v *)
Definition tol_var12 (xs : list Q) (v : Q) : Q :=
  e9 * v + (4 * Qofnat (length xs) + 64) * ulp53 * Qmaxabs xs * bq_range xs.
(* rounding of IQR = Quantile(0.75) - Quantile(0.25): the tolerance of Check/C10.v *)
Definition tol_iqr12 (xs : list Q) : Q :=
  2 * ((8 * Qofnat (length xs) + 16) * ulp53 * bq_range xs + 16 * ulp53 * Qmaxabs xs) + 4 * ulp53 * Qmaxabs xs.
Definition Qmax0 (a : Q) : Q := if Qle_bool 0 a then a else 0.

(* the interval [lo, hi] of squared scale estimates s2 the float code may legitimately have
   worked with; None = the rule is not defined (NaN / panic: compared by status) *)
Definition silverman_s2 (s : sample) : option (Q * Q) :=
  match s_ws s, kvariance (s_xs s) with
  | None, Some v => let t := tol_var12 (s_xs s) v in Some (Qmax0 (v - t), v + t)
  | _, _ => None
  end.
Definition scott_s2 (s : sample) : option (Q * Q) :=
  match s_ws s, quantile s (3 # 4), quantile s (1 # 4), kvariance (s_xs s) with
  | None, RVal a, RVal b, Some v =>
      let t := tol_var12 (s_xs s) v in
      let r := (a - b) / c1349 in
      let d := tol_iqr12 (s_xs s) / c1349 in
      let rlo := Qmax0 (r - d) in let rhi := Qmax0 (r + d) in
      Some (Qminb (Qmax0 (v - t)) (rlo * rlo), Qminb (v + t) (rhi * rhi))
  | _, _, _, _ => None
  end.

(* obs ~ (1.06^10 s2^5 / n^2)^(1/10) for some s2 in [lo, hi]; 1e-8 relative on the 10th power *)
Definition bw_ok (r : bwres) (iv : option (Q * Q)) (n : Q) (st : Z) (obs : xreal) : bool :=
  match r with
  | BwPanic => (st =? 2)%Z
  | BwNaN => (st =? 0)%Z && is_nan obs
  | BwPow10 _ => (st =? 0)%Z &&
      match obs, iv with
      | XFin o, Some (lo, hi) =>
          let p := qpow o 10 in
          Qle_bool 0 o && Qle_bool (bw10 lo n * (1 - e8)) p && Qle_bool p (bw10 hi n * (1 + e8))
      | _, _ => false
      end
  end.

(* ---------- laws on the implementation's own outputs, one point ---------- *)
Definition law_pdf (kern : kernel) (b : bconf) (x : Q) (v : xreal) : bool :=
  let out := below_min b x || from_max b x in
  match v with
  | XFin q => if out then Qeq_bool q 0 else Qle_bool 0 q
  | XInf false => negb out && match kern with KDelta => true | _ => false end
  | _ => false
  end.
Definition at_min (b : bconf) (x : Q) : bool :=
  match b with BLower m | BBoth m _ => Qeq_bool x m | _ => false end.
Definition at_max (b : bconf) (x : Q) : bool :=
  match b with BUpper M | BBoth _ M => Qeq_bool x M | _ => false end.
Definition law_cdf (b : bconf) (x : Q) (v : xreal) : bool :=
  match v with
  | XFin q =>
      if below_min b x || at_min b x then Qeq_bool q 0
      else if from_max b x then Qeq_bool q 1
      else Qle_bool (- slack) q && Qle_bool q (1 + slack)
  | _ => false
  end.

(* ---------- tags of a point ---------- *)
Definition conf_tag (b : bconf) : Z :=
  match b with BNone => T_NOBC | BLower _ => T_LOWER | BUpper _ => T_UPPER | BBoth _ _ => T_BOTH | BBad => 0%Z end.
Definition kern_tag (k : kernel) : Z := match k with KEpan => T_EPAN | KGauss => T_GAUSS | KDelta => T_DELTA end.

Definition kend (kern : kernel) (h : Q) (xs : list Q) (x : Q) : bool :=
  match kern with
  | KDelta => existsb (fun xi => Qeq_bool x xi) xs
  | _ => existsb (fun xi => Qeq_bool x (xi + h) || Qeq_bool x (xi - h)) xs
  end.
(* doubly bounded: does the second term of either series contribute? *)
Definition far_images (k : kde) (x : Q) : bool :=
  match k_b k, k_kernel k with
  | BBoth m M, KEpan =>
      let y := mix (epan_pdf (k_h k)) (k_xs k) (k_ws k) in
      negb (Qeq_bool (pdf_upper y m M x 1) 0) || negb (Qeq_bool (pdf_lower y m M x 0) 0)
  | _, _ => false
  end.

Definition point_tag (k : kde) (x : Q) (expected_pdf : option xreal) : Z :=
  let b := k_b k in
  Z.lor (if below_min b x || from_max b x then T_OUTSIDE else 0)
 (Z.lor (if at_min b x then T_ATMIN else 0)
 (Z.lor (if at_max b x then T_ATMAX else 0)
 (Z.lor (if kend (k_kernel k) (k_h k) (k_xs k) x then T_KEND else 0)
 (Z.lor (if far_images k x then T_IMAGES else 0)
        (match expected_pdf with Some (XInf _) => T_INF | _ => 0 end)))))%Z.

(* ---------- borderline rule (DESIGN 4.5), delta kernel with boundary reflection only ----------
   The delta kernel's step functions are evaluated at the float values of 2*min - x, x + n*d, ...
   Without boundaries the only arithmetic is x - x_i, whose sign and zero-ness are exact in
   IEEE arithmetic: checked strictly.  With boundaries the image points are rounded; when they
   are NOT exactly representable (inputs not on a common coarse dyadic grid) and an image lies
   within rounding distance of a data point, the float code may legitimately see the other
   side of the jump.  Inputs on a common dyadic grid (the bulk of the generated cases: integers,
   k/1024) are exact and checked strictly. *)
Definition is_pow2 (p : positive) : bool := match pos_odd_part p 0 with (xH, _) => true | _ => false end.
(* every value is a multiple of 1/D (D the largest denominator, a power of two) and smaller
   than 2^42/D in magnitude: all integer combinations with coefficients up to 2^10 are exact *)
Definition grid_ok (vs : list Q) : bool :=
  let D := fold_left (fun d v => Pos.max d (Qden (Qred v))) vs 1%positive in
  forallb (fun v => let r := Qred v in
                    is_pow2 (Qden r) &&
                    (Z.abs (Qnum r) * (Zpos D / Zpos (Qden r)) <? 4398046511104)%Z) vs.
Definition eps_img : Q := 1 # (2 ^ 46)%positive.
(* the arguments at which the closure y is evaluated for the point x *)
Definition img_args (b : bconf) (fuel : nat) (x : Q) : list Q :=
  match b with
  | BLower m => [x; 2 * m - x]
  | BUpper M => [x; 2 * M - x]
  | BBoth m M =>
      let d := img_d m M in let w := img_w m x in
      flat_map (fun n => let q := Qofnat n in
                         [x + q * d; x + q * d - w; x - (q + 1) * d - w; x - (q + 1) * d]) (seq 0 fuel)
  | _ => [x]
  end.
Definition delta_borderline (k : kde) (x : Q) : bool :=
  match k_kernel k, k_b k with
  | KDelta, (BLower _ | BUpper _ | BBoth _ _) =>
      let bvals := match k_b k with BLower m => [m] | BUpper M => [M] | BBoth m M => [m; M] | _ => [] end in
      let vals := x :: bvals ++ k_xs k in
      if grid_ok vals then false
      else
        let scale := Qmaxabs vals + 1 in
        existsb (fun t => existsb (fun xi => Qle_bool (Qabs (t - xi)) (eps_img * scale)) (k_xs k))
                (img_args (k_b k) (k_fuel k) x)
  | _, _ => false
  end.

(* ---------- one point: verdict code (0/2), observable class, diagnostics ---------- *)
Definition xclose (tol : Q) (e o : xreal) : bool := xwithin tol e o.

Definition check_point (k : kde) (panics : bool) (hexp : xreal) (prev : option (Q * Q)) (p : pt)
  : Z * Z * list Z * Z :=
  let x := p_x p in
  if panics then
    (* Scott's rule is not implemented for weighted samples: every call panics, the field stays 0 *)
    if (p_pst p =? 2)%Z && (p_cst p =? 2)%Z && xeq hexp (p_h p) then (0%Z, 0%Z, [], 0%Z) else (2%Z, D_STATUS, [], 0%Z)
  else if negb ((p_pst p =? 0)%Z && (p_cst p =? 0)%Z) then (2%Z, D_STATUS, [p_pst p; p_cst p], 0%Z)
  else if negb (xeq hexp (p_h p)) then (2%Z, D_HAFTER, xdiag (Some hexp), 0%Z)
  else
    let ep := kde_pdf k x in
    let ec := kde_cdf k x in
    let t := point_tag k x ep in
    let okp := match ep with
               | None => true
               | Some e => match k_kernel k with
                           | KEpan => xclose (tol_pdf (k_h k)) e (p_pdf p)
                           | _ => xeq e (p_pdf p)
                           end
               end in
    let border := if okp then false else delta_borderline k x in
    if negb okp && negb border then (2%Z, D_PDF, xdiag ep, t) else
    let okc := match ec with None => true | Some e => xclose tol_cdf e (p_cdf p) end in
    let border := border || (if okc then false else delta_borderline k x) in
    if negb okc && negb border then (2%Z, D_CDF, xdiag ec, t) else
    let ok0 := if border then 1%Z else 0%Z in
    let t := if border then Z.lor t T_BORDER else t in
    match k_xs k with
    | [] => (ok0, 0%Z, [], t)
    | _ =>
      if negb (law_pdf (k_kernel k) (k_b k) x (p_pdf p)) then (2%Z, D_LAWPDF, [], t) else
      if negb (law_cdf (k_b k) x (p_cdf p)) then (2%Z, D_LAWCDF, [], t) else
      match prev, p_cdf p with
      | Some (x0, c0), XFin c =>
          if Qle_bool x0 x && negb (Qle_bool c0 (c + slack)) then (2%Z, D_MONO, qdiag c0, t) else (ok0, 0%Z, [], t)
      | _, _ => (ok0, 0%Z, [], t)
      end
    end.

Fixpoint run_pts (k : kde) (panics : bool) (hexp : xreal) (prev : option (Q * Q)) (pts : list pt) (i code tag : Z)
  : Z * Z * Z * list Z :=
  match pts with
  | [] => (code, tag, (-1)%Z, [])
  | p :: rest =>
      match check_point k panics hexp prev p with
      | (v, cls, diag, t) =>
          if (v =? 2)%Z then (2%Z, t, i, cls :: diag)
          else run_pts k panics hexp
                 (match p_cdf p with XFin c => Some (p_x p, c) | _ => prev end) rest (i + 1)%Z (Z.max code v) (Z.lor tag t)
      end
  end.

(* ---------- quadrature records ---------- *)
Definition quad_ok (q : quad) : bool :=
  match q_int q, q_ca q, q_cb q with
  | XFin i, XFin ca, XFin cb => Qle_bool (- e9) i && within e6 (cb - ca) i
  | _, _, _ => false
  end.
Fixpoint first_bad {A} (f : A -> bool) (l : list A) (i : Z) : Z :=
  match l with [] => (-1)%Z | a :: t => if f a then first_bad f t (i + 1)%Z else i end.

(* the interval over which the total mass is taken must contain the support of the estimate:
   data range widened by the kernel radius (Epanechnikov: h; Gaussian: 8h, tail < 1e-15),
   cut at the boundaries *)
Definition covers (kern : kernel) (h : Q) (b : bconf) (xs : list Q) (a bb : Q) : bool :=
  match xs with
  | [] => false
  | x0 :: _ =>
      let r := match kern with KGauss => 8 * h | _ => h end in
      let lo := Qlmin x0 xs - r in
      let hi := Qlmax x0 xs + r in
      let lo' := match b with BLower m | BBoth m _ => Qmaxb m lo | _ => lo end in
      let hi' := match b with BUpper M | BBoth _ M => Qminb M hi | _ => hi end in
      (* the harness computes the ends in floats: allow their rounding *)
      Qle_bool a (lo' + e9 * (h + Qabs lo')) && Qle_bool (hi' - e9 * (h + Qabs hi')) bb
  end.

(* ---------- the whole case ---------- *)
Definition xfin_or0 (x : xreal) : Q := match x with XFin q => q | _ => 0 end.

Definition check_C12 (line : list Z) : list Z :=
  match p_line line with
  | None => verdict V_MALFORMED 0 (-1) []
  | Some (l, _) =>
    match kernel_of (l_kernel l) with
    | None => verdict V_MALFORMED 0 (-1) []
    | Some kern =>
      if l_hasw l && (negb (length (l_ws l) =? length (l_xs l))%nat || existsb (fun w => Qle_bool w 0) (l_ws l))
      then verdict V_MALFORMED 0 (-1) [] else
      if Qltb (l_h l) 0 then verdict V_MALFORMED 0 (-1) [] else
      let ws := if l_hasw l then Some (l_ws l) else None in
      let s := mkSample (l_xs l) ws (l_sorted l) in
      let nq12 := Qofnat (length (l_xs l)) in
      let b := bconf_of (l_bmin l) (l_bmax l) in
      let base := Z.lor (kern_tag kern) (Z.lor (conf_tag b) (Z.lor (if l_hasw l then T_WEIGHTED else 0)
                    (Z.lor (if l_sorted l then T_SORTED else 0) (Z.lor (if (0 <? l_npre l)%Z then T_HISTORY else 0) (match l_xs l with [] => T_EMPTY | _ => 0 end)))))%Z in
      (* 1. the bandwidth rules *)
      let sc := bandwidth_scott10 s in
      let si := bandwidth_silverman10 s in
      if negb (bw_ok sc (scott_s2 s) nq12 (l_scst l) (l_sc l)) then
        verdict V_MISMATCH T_BWRULE (-20) (D_SCOTT :: match sc with BwPow10 v => qdiag v | _ => [] end) else
      if negb (bw_ok si (silverman_s2 s) nq12 (l_sist l) (l_si l)) then
        verdict V_MISMATCH T_BWRULE (-21) (D_SILVER :: match si with BwPow10 v => qdiag v | _ => [] end) else
      let bwtag := match sc with
                   | BwPow10 _ => Z.lor T_BWRULE (if Qle_bool (10000 * bq_range (l_xs l)) (Qmaxabs (l_xs l)) && Qltb 0 (bq_range (l_xs l)) then T_OFFSET else 0)
                   | _ => 0%Z end in
      (* 2. the bandwidth the calls work with, and the value the field must hold after each call *)
      let lazy := Qeq_bool (l_h l) 0 in
      let panics := lazy && match sc with BwPanic => true | _ => false end in
      let hfirst := match l_pts l with p :: _ => p_h p | [] => b_h (l_bnds l) end in
      let hexp : xreal := if lazy then (if panics then XFin 0 else hfirst) else XFin (l_h l) in
      (* lazy: the stored value is Scott's (10th powers); bw_ok on the stored value *)
      if lazy && negb panics && negb (match l_pts l, b_st (l_bnds l) with [], 3%Z => true | _, _ => bw_ok sc (scott_s2 s) nq12 0 hexp end) then
        verdict V_MISMATCH T_LAZY (-22) (D_HAFTER :: match sc with BwPow10 v => qdiag v | _ => [] end) else
      let heff := xfin_or0 hexp in
      let k := mkKde (l_xs l) ws kern heff b in
      match b with BBad => verdict V_OK 0 (-1) [] | _ =>
      (* a degenerate sample makes Scott's rule return 0: outside the property (positive bandwidth) *)
      if lazy && negb panics && Qeq_bool heff 0 then
        (if forallb (fun p => xeq hexp (p_h p)) (l_pts l) then verdict V_OK 0 (-1) []
         else verdict V_MISMATCH T_LAZY (-22) [D_HAFTER])
      else
      (* 3. the points *)
      match run_pts k panics hexp None (l_pts l) 0%Z 0%Z 0%Z with
      | (code, ptag, pos, diag) =>
        if (code =? 2)%Z then verdict V_MISMATCH (Z.lor (Z.land base 127) ptag) pos diag else
        let tag1 := Z.lor ptag (Z.lor bwtag (if lazy && negb panics then T_LAZY else 0))%Z in
        (* 4. Bounds *)
        let bn := l_bnds l in
        let bres : Z * Z :=      (* verdict, tag *)
          if (b_st bn =? 3)%Z then (0%Z, 0%Z)
          else if panics then ((if (b_st bn =? 2)%Z then 0 else 2)%Z, 0%Z)
          else if negb (b_st bn =? 0)%Z then (2%Z, 0%Z)
          else if negb (xeq hexp (b_h bn)) then (2%Z, 0%Z)
          else
            let cdf_at (x obs : xreal) : option Q :=
              match kern, x with
              | KGauss, _ => xfin obs
              | _, XFin q => match kde_cdf k q with Some (XFin c) => Some c | _ => None end
              | _, _ => None
              end in
            let mass : option Q :=
              match kern, b_lo bn, b_hi bn with
              | KDelta, XFin lo, XFin hi => Some (delta_mass_in (l_xs l) ws lo hi)
              | KDelta, _, _ => None
              | _, _, _ => match cdf_at (b_lo bn) (b_clo bn), cdf_at (b_hi bn) (b_chi bn) with
                           | Some cl, Some ch => Some (ch - cl)
                           | _, _ => None
                           end
              end in
            match mass with
            | Some m => ((if kde_bounds_ok b (b_lo bn) (b_hi bn) m then 0 else 2)%Z, T_BOUNDS)
            | None => (2%Z, 0%Z)
            end in
        if (fst bres =? 2)%Z then verdict V_MISMATCH (Z.lor (Z.land base 127) T_BOUNDS) (-10) [D_BOUNDS] else
        (* 5. quadrature: PDF-CDF consistency and total mass *)
        let qb := first_bad quad_ok (l_quads l) 0 in
        if negb (qb =? -1)%Z then verdict V_MISMATCH (Z.lor (Z.land base 127) T_QUAD) (-100 - qb) [D_QUAD] else
        let mass_ok :=
          if (l_mst l =? 3)%Z then true
          else match l_ma l, l_mb l, l_mint l with
               | XFin a, XFin bb, XFin i => covers kern heff b (l_xs l) a bb && within e6 1 i
               | _, _, _ => false
               end in
        if negb mass_ok then verdict V_MISMATCH (Z.lor (Z.land base 127) T_QUAD) (-30) [D_MASS] else
        let qtag := match l_quads l with [] => (if (l_mst l =? 0)%Z then T_QUAD else 0%Z) | _ => T_QUAD end in
        (* 6. arguments untouched *)
        if negb (l_unmod l =? 1)%Z then verdict V_MISMATCH (Z.land base 127) (-2) [D_UNMOD] else
        let tag := Z.lor tag1 (Z.lor (snd bres) qtag) in
        verdict code (if (tag =? 0)%Z then 0 else Z.lor tag base)%Z (-1) []
      end
      end
    end
  end.

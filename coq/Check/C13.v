(* Check/C13.v — correspondence comparator for C13 (StreamStats).
   Line:  13 k nops { opcode a b  count total min max mean var std rms weight }*
     opcode 0: acc[a].Add(float b)      opcode 1: acc[a].Combine(&acc[b])      opcode 2: no call (b ignored)
   followed each time by the nine observables of acc[a] as the implementation
   reported them (count as an integer, the rest as float64 bit patterns). *)
From MM Require Import Base.Num Model.Stream.
Local Open Scope Q_scope.

Record sobs := mkObs { o_count : Z; o_total : xreal; o_min : xreal; o_max : xreal; o_mean : xreal; o_var : xreal; o_std : xreal; o_rms : xreal; o_weight : xreal }.

Definition p_obs : parser sobs :=
  do c <- pZ; do t <- pX; do mn <- pX; do mx <- pX; do me <- pX; do v <- pX; do sd <- pX; do r <- pX; do w <- pX;
  pret (mkObs c t mn mx me v sd r w).

Definition p_op : parser (sop * sobs) :=
  do code <- pZ;
  if (code =? 0)%Z then (do i <- pnat; do x <- pQ; do o <- p_obs; pret (SAdd i x, o))
  else if (code =? 1)%Z then (do i <- pnat; do j <- pnat; do o <- p_obs; pret (SCombine i j, o))
  else if (code =? 2)%Z then (do i <- pnat; do _ <- pZ; do o <- p_obs; pret (SNop i, o))
  else (fun _ => None).

Definition p_line : parser (nat * list (sop * sobs)) :=
  do tag <- pZ; if negb (tag =? 13)%Z then (fun _ => None) else
  do k <- pnat; do ops <- plist_any p_op; pend (k, ops).

Definition op_target (o : sop) : nat := match o with SAdd i _ => i | SCombine i _ => i | SNop i => i end.

(* tolerances ("to within rounding"), functions of the exact state *)
Definition nq (s : sstate) : Q := QofN (s_count s).
Definition maxabs (s : sstate) : Q := Qmaxb (Qabs (s_min s)) (Qabs (s_max s)).
Definition range (s : sstate) : Q := s_max s - s_min s.
Definition tol_total (s : sstate) : Q := 2 * nq s * nq s * ulp53 * maxabs s.
Definition tol_mean (s : sstate) : Q := (4 * nq s + 16) * ulp53 * maxabs s.
Definition tol_msq (s : sstate) : Q := (4 * nq s + 16) * ulp53 * (maxabs s * maxabs s).
Definition tol_var (s : sstate) : Q := (1 # 1000000000) * s_variance s + 256 * ulp53 * maxabs s * range s.

(* index of the first observable that disagrees: 0 count, 1 total, 2 min, 3 max, 4 mean,
   5 variance, 6 stddev, 7 rms, 8 weight; None when all agree *)
Definition first_false (l : list bool) : option Z :=
  (fix go (l : list bool) (i : Z) := match l with [] => None | true :: t => go t (i + 1)%Z | false :: _ => Some i end) l 0%Z.

Definition std_ok (s : sstate) (o : sobs) : bool :=
  match o_std o with
  | XFin sd => close_sqrt (tol_var s + 8 * ulp53 * s_variance s) (s_variance s) sd
  | XNaN => (* sqrt of a variance that rounding pushed below zero *)
            match o_var o with XFin v => Qltb v 0 && within (tol_var s) (s_variance s) v | _ => false end
  | _ => false
  end.

Definition compare (s : sstate) (o : sobs) : option Z :=
  let n := s_count s in
  first_false
    [ (o_count o =? Z.of_N n)%Z;
      xwithin (tol_total s) (XFin (s_total s)) (o_total o);
      (n =? 0)%N || xeq (XFin (s_min s)) (o_min o);
      (n =? 0)%N || xeq (XFin (s_max s)) (o_max o);
      (n =? 0)%N || xwithin (tol_mean s) (XFin (s_mean s)) (o_mean o);
      (n <? 2)%N || xwithin (tol_var s) (XFin (s_variance s)) (o_var o);
      (n <? 2)%N || std_ok s o;
      (n =? 0)%N || match o_rms o with XFin r => close_sqrt (tol_msq s + 8 * ulp53 * s_msq s) (s_msq s) r | _ => false end;
      xwithin (ulp53 * nq s) (XFin (nq s)) (o_weight o) ].   (* float64(Count) rounds above 2^53 *)

(* branch tag: bit 0 = history contains a Combine, bit 1 = a Combine with an empty side,
   bit 2 = some accumulator reached >= 2 values *)
Definition op_tag (accs : list sstate) (o : sop) (s' : sstate) : Z :=
  let big := if (2 <=? s_count s')%N then 4%Z else 0%Z in
  match o with
  | SCombine i j =>
      let e := match nth_error accs i, nth_error accs j with
               | Some a, Some b => (s_count a =? 0)%N || (s_count b =? 0)%N
               | _, _ => false end in
      Z.lor (Z.lor 1 (if e then 2 else 0)) big
  | _ => big
  end.

(* run the history; stop at the first disagreement: (op index, observable index) *)
Fixpoint run_cmp (accs : list sstate) (ops : list (sop * sobs)) (idx tag : Z) : Z * option (Z * Z * sstate) :=
  match ops with
  | [] => (tag, None)
  | (op, o) :: rest =>
      let accs' := s_step accs op in
      match nth_error accs' (op_target op) with
      | None => (tag, Some (idx, (-1)%Z, s_init))        (* accumulator index out of range: malformed *)
      | Some s => let tag' := Z.lor tag (op_tag accs op s) in
                  match compare s o with
                  | Some w => (tag', Some (idx, w, s))
                  | None => run_cmp accs' rest (idx + 1)%Z tag'
                  end
      end
  end.

Definition check_C13 (line : list Z) : list Z :=
  match p_line line with
  | None => verdict V_MALFORMED 0 (-1) []
  | Some ((k, ops), _) =>
      match run_cmp (repeat s_init k) ops 0%Z 0%Z with
      | (tag, None) => verdict V_OK tag (-1) []
      | (tag, Some (idx, w, s)) =>
          if (w =? -1)%Z then verdict V_MALFORMED tag idx []
          else verdict V_MISMATCH tag idx
                 (w :: Z.of_N (s_count s) :: qdiag (s_total s) ++ qdiag (s_min s) ++ qdiag (s_max s)
                    ++ qdiag (s_mean s) ++ qdiag (s_variance s) ++ qdiag (s_msq s))
      end
  end.

(* Check/C13.v — correspondence comparator for C13 (StreamStats).
   Line:  13 k  F  nops { opcode a b  O }*
     F, O = count total min max mean var std rms weight   (count an integer, the rest float64 bit patterns)
     F    = the nine observables of a FRESH accumulator (zero value, never touched) of the library under test
     opcode 0: acc[a].Add(float b)      opcode 1: acc[a].Combine(&acc[b])  (a = b allowed: s.Combine(s))
     opcode 2: no call (b ignored)
   followed each time by the nine observables O of acc[a] as the implementation reported them.

   What is compared (audit, round 2b):
     Count, Weight, Total                      always (Total of an empty accumulator: exactly 0)
     Min, Max                                  n >= 1: exactly the model's;  n = 0: equal to the FRESH accumulator's
     Mean, RMS                                 n >= 1: within rounding;      n = 0: equal to the FRESH accumulator's
     Variance, StdDev                          n >= 2 ("for two or more values"); nothing is demanded for n < 2
   n = 0: the property fixes no value for the mean of no values, but "combining ... ones that have received no
   values yields the same statistics as adding both sequences to a single StreamStats": the single StreamStats
   with nothing added is the fresh one, so an empty accumulator however obtained must report what F reports. *)
From MM Require Import Base.Num Model.Stream.
Local Open Scope Q_scope.
Record sobs := mkObs { o_count : Z; o_total : xreal; o_min : xreal; o_max : xreal; o_mean : xreal; o_var : xreal; o_std : xreal; o_rms : xreal; o_weight : xreal }.

Definition p_obs : parser sobs :=
  do c <- pZ; do t <- pX; do mn <- pX; do mx <- pX; do me <- pX; do v <- pX; do sd <- pX; do r <- pX; do w <- pX;
  pret (mkObs c t mn mx me v sd r w).

Definition p_op : parser (sop * sobs) :=
  do code <- pZ;
  if (code =? 0)%Z then (do i <- pnat; do x <- pQ; do o <- p_obs; pret (SAdd i x, o))
  else if (code =? 1)%Z then (do i <- pnat; do j <- pnat; do o <- p_obs; pret (SCombine i j, o))
  else if (code =? 2)%Z then (do i <- pnat; do _ <- pZ; do o <- p_obs; pret (SNop i, o))
  else (fun _ => None).

Definition p_line : parser (nat * sobs * list (sop * sobs)) :=
  do tag <- pZ; if negb (tag =? 13)%Z then (fun _ => None) else
  do k <- pnat; do fr <- p_obs; do ops <- plist_any p_op; pend (k, fr, ops).

Definition op_target (o : sop) : nat := match o with SAdd i _ => i | SCombine i _ => i | SNop i => i end.

(* tolerances ("to within rounding"), functions of the batch quantities only: the number n of values,
   their least and greatest value lo, hi, and d = min (n, number of operations performed so far) — an upper
   bound on the depth of the floating-point computation that produced the state (every Add/Combine derives a
   state from at most two earlier ones in O(1) operations).  For histories without repeated combination d = n;
   with s.Combine(s) chains the count doubles per step while the rounding error grows by one step's worth, and
   the tolerance stays tight although n is astronomically large.
     total: depth * u * sum|x_i| <= d * n * u * maxabs            (x2 slack)
     mean, mean of squares: a few u * maxabs per step             (4 d + 16)
     variance: relative 1e-9 + the cancellation term of Welford/Chan: a few u * maxabs * range
               (offset 1e9 x spread: 7e-6 of spread^2; measured worst error of the unchanged code: 1/64 of this term; a formula that cancels catastrophically errs by
                n * u * maxabs^2 = 1e4 spread^2) *)
Definition maxabs2 (lo hi : Q) : Q := Qmaxb (Qabs lo) (Qabs hi).
Definition tolm_total (d n : N) (lo hi : Q) : Q := 2 * QofN d * QofN n * ulp53 * maxabs2 lo hi.
Definition tolm_mean (d : N) (lo hi : Q) : Q := (4 * QofN d + 16) * ulp53 * maxabs2 lo hi.
Definition tolm_msq (d : N) (lo hi : Q) : Q := (4 * QofN d + 16) * ulp53 * (maxabs2 lo hi * maxabs2 lo hi).
Definition tolm_var (v lo hi : Q) : Q := (1 # 1000000000) * v + 64 * ulp53 * maxabs2 lo hi * (hi - lo).
Definition tolm_weight (n : N) : Q := ulp53 * QofN n.        (* float64(Count) rounds above 2^53 *)

(* index of the first observable that disagrees: 0 count, 1 total, 2 min, 3 max, 4 mean,
   5 variance, 6 stddev, 7 rms, 8 weight; None when all agree *)
Definition first_false (l : list bool) : option Z :=
  (fix go (l : list bool) (i : Z) := match l with [] => None | true :: t => go t (i + 1)%Z | false :: _ => Some i end) l 0%Z.

(* StdDev must be a finite non-negative float whose square is the variance (a NaN is NOT accepted: Welford's
   increment delta*(x-mean') and Chan's merge term are non-negative in floats too, so the unchanged code never
   takes the root of a negative number; round 1 accepted NaN next to a slightly negative variance) *)
Definition std_ok (v lo hi : Q) (o : sobs) : bool :=
  match o_std o with
  | XFin sd => close_sqrt (tolm_var v lo hi + 8 * ulp53 * v) v sd
  | _ => false
  end.
Definition rms_ok (d : N) (msq lo hi : Q) (o : sobs) : bool :=
  match o_rms o with
  | XFin r => close_sqrt (tolm_msq d lo hi + 8 * ulp53 * msq) msq r
  | _ => false
  end.

(* fr: the observation of a fresh accumulator; steps: number of operations performed so far *)
Definition compare (fr : sobs) (steps : N) (s : sstate) (o : sobs) : option Z :=
  let n := s_count s in
  let d := N.min n steps in
  let lo := s_min s in let hi := s_max s in
  let v := s_variance s in
  first_false
    [ (o_count o =? Z.of_N n)%Z;
      xwithin (tolm_total d n lo hi) (XFin (s_total s)) (o_total o);
      if (n =? 0)%N then xeq (o_min fr) (o_min o) else xeq (XFin lo) (o_min o);
      if (n =? 0)%N then xeq (o_max fr) (o_max o) else xeq (XFin hi) (o_max o);
      if (n =? 0)%N then xeq (o_mean fr) (o_mean o) else xwithin (tolm_mean d lo hi) (XFin (s_mean s)) (o_mean o);
      (n <? 2)%N || xwithin (tolm_var v lo hi) (XFin v) (o_var o);
      (n <? 2)%N || std_ok v lo hi o;
      if (n =? 0)%N then xeq (o_rms fr) (o_rms o) else rms_ok d (s_msq s) lo hi o;
      xwithin (tolm_weight n) (XFin (QofN n)) (o_weight o) ].

(* branch tag: bit 0 = history contains a Combine, bit 1 = a Combine with an empty side,
   bit 2 = some accumulator reached >= 2 values, bit 3 = s.Combine(s), bit 4 = a count >= 2^53 *)
Definition op_tag (accs : list sstate) (o : sop) (s' : sstate) : Z :=
  let big := Z.lor (if (2 <=? s_count s')%N then 4%Z else 0%Z) (if (9007199254740992 <=? s_count s')%N then 16%Z else 0%Z) in
  match o with
  | SCombine i j =>
      let e := match nth_error accs i, nth_error accs j with
               | Some a, Some b => (s_count a =? 0)%N || (s_count b =? 0)%N
               | _, _ => false end in
      Z.lor (Z.lor (Z.lor 1 (if e then 2 else 0)) (if Nat.eqb i j then 8 else 0)) big
  | _ => big
  end.

(* run the history; stop at the first disagreement: (op index, observable index) *)
Fixpoint run_cmp (fr : sobs) (accs : list sstate) (ops : list (sop * sobs)) (idx tag : Z) : Z * option (Z * Z * sstate) :=
  match ops with
  | [] => (tag, None)
  | (op, o) :: rest =>
      let accs' := s_step accs op in
      match nth_error accs' (op_target op) with
      | None => (tag, Some (idx, (-1)%Z, s_init))        (* accumulator index out of range: malformed *)
      | Some s => let tag' := Z.lor tag (op_tag accs op s) in
                  match compare fr (Z.to_N (idx + 1)) s o with
                  | Some w => (tag', Some (idx, w, s))
                  | None => run_cmp fr accs' rest (idx + 1)%Z tag'
                  end
      end
  end.

Definition diag_of (w : Z) (s : sstate) : list Z :=
  w :: Z.of_N (s_count s) :: qdiag (s_total s) ++ qdiag (s_min s) ++ qdiag (s_max s)
    ++ qdiag (s_mean s) ++ qdiag (s_variance s) ++ qdiag (s_msq s).

Definition check_C13 (line : list Z) : list Z :=
  match p_line line with
  | None => verdict V_MALFORMED 0 (-1) []
  | Some ((k, fr, ops), _) =>
      (* the fresh accumulator itself: Count = 0, Total = 0, Weight = 0 (position -2) *)
      match compare fr 0 s_init fr with
      | Some w => verdict V_MISMATCH 0 (-2) (diag_of w s_init)
      | None =>
      match run_cmp fr (repeat s_init k) ops 0%Z 0%Z with
      | (tag, None) => verdict V_OK tag (-1) []
      | (tag, Some (idx, w, s)) =>
          if (w =? -1)%Z then verdict V_MALFORMED tag idx []
          else verdict V_MISMATCH tag idx (diag_of w s)
      end end
  end.

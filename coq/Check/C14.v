(* Check/C14.v — correspondence comparator for C14 (histograms).
   Line:  14 kind <shape> nops { op }*
     kind 0 LinearHist : min max nbins | len(counts) observed after construction
     kind 1 LogHist    : b m max       | status len(counts)
     kind 2 harness-defined Histogram with BinToValue(bin) = bin : under [counts] over
   ops (inputs | observed):
     0 Add(x)            : x            | number of counters that changed, index of the (first) changed
                                          counter (-1 under, 0..n-1 bin, n over, -2 none), its increment
     1 BinToValue(bin)   : bin          | value
     2 Quantile(q)       : q            | QBLOCK
     3 Counts()          :              | under [counts] over
     4 HistogramIQR      :              | QBLOCK(0.75) QBLOCK(0.25) status iqr
   QBLOCK = status (0 returned, 2 panicked), number of BinToValue calls made by HistogramQuantile,
            the argument and the result of that call (through a recording wrapper around the
            histogram: oracle instantiation on BinToValue), the value HistogramQuantile returned. *)
From MM Require Import Base.Num Model.Hist.
From Coq Require Import Qround.
Local Open Scope Q_scope.

Inductive hkind := KLin (mn mx : Q) | KLog (b : Z) (m : nat) | KFix.

Record qblock := mkQB { qb_status : Z; qb_ncalls : Z; qb_arg : xreal; qb_ret : xreal; qb_res : xreal }.

Inductive hop :=
| OAdd (x : Q) (nch idx delta : Z)
| OBtv (bin : Q) (obs : xreal)
| OQuant (q : Q) (blk : qblock)
| OCounts (u : Z) (cs : list Z) (o : Z)
| OIqr (b75 b25 : qblock) (status : Z) (iqr : xreal).

Definition p_qblock : parser qblock :=
  do s <- pZ; do n <- pZ; do a <- pX; do r <- pX; do v <- pX; pret (mkQB s n a r v).

Definition p_hop : parser hop :=
  do code <- pZ;
  if (code =? 0)%Z then (do x <- pQ; do n <- pZ; do i <- pZ; do d <- pZ; pret (OAdd x n i d))
  else if (code =? 1)%Z then (do b <- pQ; do o <- pX; pret (OBtv b o))
  else if (code =? 2)%Z then (do q <- pQ; do k <- p_qblock; pret (OQuant q k))
  else if (code =? 3)%Z then (do u <- pZ; do cs <- plist pZ; do o <- pZ; pret (OCounts u cs o))
  else if (code =? 4)%Z then (do a <- p_qblock; do b <- p_qblock; do s <- pZ; do v <- pX; pret (OIqr a b s v))
  else (fun _ => None).

(* shape -> (kind, initial state, construction verdict: 0 ok, 1 borderline, 2 mismatch) *)
Definition Zs_to_Ns (l : list Z) : list N := map Z.to_N l.

(* ---------- exactness of a float64 operation: the exact result is representable ---------- *)
Definition is_pow2 (p : positive) : bool := match pos_odd_part p 0 with (xH, _) => true | _ => false end.
Definition odd_abs (z : Z) : Z :=
  match z with Z0 => 0%Z | Zpos p => Zpos (fst (pos_odd_part p 0)) | Zneg p => Zpos (fst (pos_odd_part p 0)) end.
Definition fits53 (q : Q) : bool :=
  let r := Qred q in is_pow2 (Qden r) && (odd_abs (Qnum r) <? 9007199254740992)%Z.

(* ---------- borderline windows (DESIGN 4.5) ---------- *)
(* linear bin index: float error of delta*(x-min) is below 6*2^-53 relative *)
Definition eps_lin : Q := 1 # (2 ^ 46)%positive.
Definition tiny : Q := 1 # (2 ^ 900)%positive.
(* goal = float64(total)*q : one rounding *)
Definition eps_goal : Q := 1 # (2 ^ 50)%positive.
(* log bin index near the edge b^k: m/ln(b)*ln(x) carries ~4*2^-53*|k| absolute error, i.e.
   x^m is within ln(b)*4*2^-53*|k| <= |k|*2^-49 relative of the edge; window |k| * 2^-46 *)
Definition delta_log (k : nat) : Q := Qofnat k * (1 # (2 ^ 46)%positive).

Fixpoint dedupZ (l : list Z) : list Z :=
  match l with [] => [] | x :: t => if existsb (Z.eqb x) t then dedupZ t else x :: dedupZ t end.

Definition slot_code (nbins : nat) (s : slot) : Z :=
  match s with SUnder => (-1)%Z | SBin i => Z.of_nat i | SOver => Z.of_nat nbins end.
Definition code_slot (nbins : nat) (c : Z) : option slot :=
  if (c =? -1)%Z then Some SUnder
  else if (c =? Z.of_nat nbins)%Z then Some SOver
  else if (0 <=? c)%Z && (c <? Z.of_nat nbins)%Z then Some (SBin (Z.to_nat c)) else None.

(* admissible bin indices of Add(x) *)
Definition lin_cands (mn mx : Q) (nbins : nat) (x : Q) : list Z :=
  let t := lin_pos mn mx nbins x in
  (* no underflow: the product is zero or far above the subnormal range *)
  let big := Qeq_bool t 0 || Qle_bool tiny (Qabs t) in
  let exact := fits53 (mx - mn) && fits53 (Qofnat nbins / (mx - mn)) && fits53 (x - mn) && fits53 t && big in
  if exact then [Qfloor t]
  else let e := eps_lin * Qabs t + tiny in [Qfloor t; Qfloor (t - e); Qfloor (t + e)].

Definition log_cands (b : Q) (m nbins : nat) (x : Q) : list Z :=
  let i0 := log_bin_capped b m nbins x in
  if (i0 <? 0)%Z then [i0]
  else
    let y := Qpow x m in
    let k := Z.to_nat i0 in
    let lo := Qpow b k in
    let near_lo := (1 <=? i0)%Z && Qle_bool y (lo * (1 + delta_log k)) in
    let near_hi := (i0 <? Z.of_nat nbins)%Z && Qle_bool (lo * b * (1 - delta_log (S k))) y in
    i0 :: (if near_lo then [(i0 - 1)%Z] else []) ++ (if near_hi then [(i0 + 1)%Z] else []).

Definition add_cands (k : hkind) (nbins : nat) (x : Q) : list Z :=
  match k with
  | KLin mn mx => lin_cands mn mx nbins x
  | KLog b m => log_cands (inject_Z b) m nbins x
  | KFix => []
  end.

(* ---------- BinToValue comparisons ---------- *)
Definition tol_lin_btv (mn mx v : Q) : Q := 16 * ulp53 * (Qabs mn + Qabs mx + Qabs v).
(* relative error allowed on b^(bin/m): the exponent carries the rounding of bin and bin/m *)
Definition tol_log_v (bin : Q) : Q := (8 + 4 * Qabs bin) * (1 # (2 ^ 52)%positive).

(* v ~ b^(num/(m*den))  <->  v^(m*den) ~ b^num *)
Definition close_pow (b : Q) (p num : nat) (bin v : Q) : bool :=
  Qltb 0 v &&
  let target := Qpow b num in
  within (2 * Qofnat p * tol_log_v bin * target) target (Qpow v p).

Definition nat_of_Q (q : Q) : option nat :=
  let r := Qred q in if (Qden r =? 1)%positive && (0 <=? Qnum r)%Z then Some (Z.to_nat (Qnum r)) else None.

(* BinToValue(bin) on a LogHist for a bin whose denominator is small *)
Definition log_btv_ok (b : Q) (m : nat) (bin v : Q) : bool :=
  let r := Qred bin in
  let den := Pos.to_nat (Qden r) in
  let p := (m * den)%nat in
  if (Qnum r <? 0)%Z then false
  else if (64 <? p)%nat then false
  else close_pow b p (Z.to_nat (Qnum r)) bin v.

Definition slack_in_bin : Q := 1 # (2 ^ 40)%positive.

(* the value returned for QAt bin j c *)
Definition ret_ok (k : hkind) (nbins : nat) (bin : nat) (j c : N) (arg ret : Q) : bool :=
  let pos := Qofnat bin + QofN j / QofN c in
  match k with
  | KFix => Qeq_bool ret arg
  | KLin mn mx => let v := lin_bin_to_value mn mx nbins pos in within (tol_lin_btv mn mx v) v ret
  | KLog b m =>
      let bq := inject_Z b in
      let lo := Qpow bq bin in
      let rm := Qpow ret m in
      Qltb 0 ret &&
      Qle_bool (lo * (1 - slack_in_bin)) rm && Qle_bool rm (lo * bq * (1 + slack_in_bin)) &&
      (let p := (m * N.to_nat c)%nat in
       if (p <=? 48)%nat then close_pow bq p (bin * N.to_nat c + N.to_nat j) pos ret else true)
  end.

Definition xsame (a b : xreal) : bool :=
  match a, b with
  | XNaN, XNaN => true
  | XInf s, XInf t => Bool.eqb s t
  | XFin p, XFin q => Qeq_bool p q
  | _, _ => false
  end.

Definition qblock_ok (k : hkind) (nbins : nat) (r : qres) (blk : qblock) : bool :=
  match r with
  | QNaN => (qb_status blk =? 0)%Z && (qb_ncalls blk =? 0)%Z && is_nan (qb_res blk)
  | QPanic => (qb_status blk =? 2)%Z
  | QAt bin j c =>
      (qb_status blk =? 0)%Z && (qb_ncalls blk =? 1)%Z &&
      match qb_arg blk, qb_ret blk with
      | XFin arg, XFin ret =>
          let pos := Qofnat bin + QofN j / QofN c in
          within (4 * ulp53 * pos) pos arg && ret_ok k nbins bin j c arg ret && xsame (qb_ret blk) (qb_res blk)
      | _, _ => false
      end
  end.

(* float64(total) * q is ONE correctly rounded multiplication of two exactly known numbers, so
   the float the code truncates is known exactly: round-to-nearest-even of the dyadic product
   to 53 significant bits.  The exact goal floor(total*q) is always admissible; when the rounded
   product crosses an integer (q = k/total rounded down, say) the rounded goal is admissible too. *)
Definition round53 (q : Q) : Q :=
  let r := Qred q in
  let n := Qnum r in
  if (n <=? 0)%Z then r else
  let bl := (Z.log2 n + 1)%Z in
  if (bl <=? 53)%Z then r else
  let sh := (bl - 53)%Z in
  let m := Z.shiftr n sh in
  let rem := (n - Z.shiftl m sh)%Z in
  let half := Z.shiftl 1 (sh - 1) in
  let m' := if (half <? rem)%Z || ((half =? rem)%Z && Z.odd m) then (m + 1)%Z else m in
  Z.shiftl m' sh # Qden r.

Definition goal_cands (total : N) (q : Q) : list Z :=
  let tq := QofN total * q in
  if is_pow2 (Qden (Qred tq)) then dedupZ [Qfloor tq; Qfloor (round53 tq)]
  else dedupZ [Qfloor tq; Qfloor (tq * (1 - eps_goal)); Qfloor (tq * (1 + eps_goal))].

(* 0 ok, 1 borderline (several admissible goals and the observation matches one), 2 mismatch *)
Definition quant_check (k : hkind) (h : hstate) (q : Q) (blk : qblock) : Z :=
  let nb := length (h_bins h) in
  let cs := goal_cands (h_total h) q in
  let oks := map (fun g => qblock_ok k nb (hist_quantile_goal h (Z.to_N g)) blk) cs in
  if existsb (fun b => b) oks then (if forallb (fun b => b) oks then 0 else 1)%Z else 2%Z.

(* ---------- tags ---------- *)
Definition T_BIN := 1%Z.      Definition T_UNDER := 2%Z.    Definition T_OVER := 4%Z.
Definition T_BORDER := 8%Z.   Definition T_QVAL := 16%Z.    Definition T_QNAN := 32%Z.
Definition T_BELOW1 := 64%Z.  (* value less than one bin width below the first edge (D7 window) *)
Definition T_LOG := 128%Z.    Definition T_FIX := 256%Z.
Definition T_QFULL := 512%Z.  (* the rank is the last one of its bin: goal = count (D8's >= test) *)
Definition T_IQR := 1024%Z.   Definition T_BTV := 2048%Z.
Definition T_QUNDER := 4096%Z. (* quantile taken with a non-zero under count (D8's missing subtraction) *)
Definition T_WIDE := 8192%Z.   (* LogHist with max >= 2^63: its upper edges are beyond the int range (integer edge arithmetic would wrap) *)

Definition qres_tag (h : hstate) (r : qres) : Z :=
  match r with
  | QNaN => T_QNAN
  | QAt _ j c => Z.lor T_QVAL (Z.lor (if (j =? c)%N then T_QFULL else 0) (if (0 <? h_under h)%N then T_QUNDER else 0))%Z
  | QPanic => 0%Z
  end.

Definition below_first (k : hkind) (nbins : nat) (x : Q) : bool :=
  match k with
  | KLin mn mx => let t := lin_pos mn mx nbins x in Qltb (-1) t && Qltb t 0
  | KLog b m => Qltb 0 x && Qltb (Qpow x m) 1 && Qltb 1 (Qpow x m * inject_Z b)
  | KFix => false
  end.

(* ---------- one operation: new state, verdict (0/1/2), tag, diagnostics ---------- *)
Definition Ns_eq (a : list N) (b : list Z) : bool :=
  list_Z_eqb (map Z.of_N a) b.

Definition iqr_ok (b75 b25 : qblock) (status : Z) (iqr : xreal) : bool :=
  if (qb_status b75 =? 2)%Z || (qb_status b25 =? 2)%Z then (status =? 2)%Z
  else (status =? 0)%Z &&
       match qb_res b75, qb_res b25 with
       | XFin a, XFin b => match iqr with XFin v => within (2 * ulp53 * (Qabs a + Qabs b)) (a - b) v | _ => false end
       | _, _ => is_nan iqr
       end.

Definition step (k : hkind) (h : hstate) (op : hop) : hstate * Z * Z * list Z :=
  let nb := length (h_bins h) in
  match op with
  | OAdd x nch idx delta =>
      let cands := add_cands k nb x in
      let codes := dedupZ (map (fun c => slot_code nb (dispatch nb c)) cands) in
      let good := (nch =? 1)%Z && (delta =? 1)%Z && existsb (Z.eqb idx) codes in
      match code_slot nb idx, good with
      | Some s, true =>
          let border := negb (length codes =? 1)%nat in
          let t := Z.lor (match s with SUnder => T_UNDER | SBin _ => T_BIN | SOver => T_OVER end)
                     (Z.lor (if border then T_BORDER else 0) (if below_first k nb x then T_BELOW1 else 0))%Z in
          (h_incr h s, (if border then 1 else 0)%Z, t, [])
      | _, _ => (h, 2%Z, Z.lor (if below_first k nb x then T_BELOW1 else T_BIN) (match k with KLog _ _ => T_LOG | _ => 0 end)%Z,
                 0%Z :: idx :: nch :: delta :: codes)
      end
  | OBtv bin obs =>
      let ok := match obs with
                | XFin v => match k with
                            | KLin mn mx => let e := lin_bin_to_value mn mx nb bin in within (tol_lin_btv mn mx e) e v
                            | KLog b m => log_btv_ok (inject_Z b) m bin v
                            | KFix => Qeq_bool v bin
                            end
                | _ => false
                end in
      (h, (if ok then 0 else 2)%Z, T_BTV, if ok then [] else
         1%Z :: match k with KLin mn mx => qdiag (lin_bin_to_value mn mx nb bin) | _ => [] end)
  | OQuant q blk =>
      let v := quant_check k h q blk in
      let r := hist_quantile h q in
      (h, v, (if (v =? 2)%Z then T_QVAL else Z.lor (qres_tag h r) (if (v =? 1)%Z then T_BORDER else 0))%Z,
       if (v =? 2)%Z then
         2%Z :: Z.of_N (hist_goal (h_total h) q) ::
           match r with QNaN => [0%Z] | QAt b j c => [1%Z; Z.of_nat b; Z.of_N j; Z.of_N c] | QPanic => [2%Z] end
       else [])
  | OCounts u cs o =>
      let ok := (u =? Z.of_N (h_under h))%Z && Ns_eq (h_bins h) cs && (o =? Z.of_N (h_over h))%Z in
      (h, (if ok then 0 else 2)%Z, 0%Z, if ok then [] else [3%Z])
  | OIqr b75 b25 status iqr =>
      let v1 := quant_check k h (3 # 4) b75 in
      let v2 := quant_check k h (1 # 4) b25 in
      let v3 := if iqr_ok b75 b25 status iqr then 0%Z else 2%Z in
      let v := Z.max v1 (Z.max v2 v3) in
      (h, v, (if (v =? 2)%Z then T_QVAL
              else Z.lor T_IQR (Z.lor (qres_tag h (hist_quantile h (3 # 4))) (qres_tag h (hist_quantile h (1 # 4)))))%Z,
       if (v =? 2)%Z then [(if (v1 =? 2)%Z || (v2 =? 2)%Z then 2 else 4)%Z; v1; v2; v3] else [])
  end.

Fixpoint run_ops (k : hkind) (h : hstate) (ops : list hop) (idx code tag : Z) : Z * Z * Z * list Z :=
  match ops with
  | [] => (code, tag, (-1)%Z, [])
  | op :: rest =>
      match step k h op with
      | (h', v, t, diag) =>
          let tag' := Z.lor tag t in
          (* on a mismatch the tag is the failing operation's own class, so that distinct
             failure shapes get distinct (tag, diag) keys in the driver's replay grouping *)
          if (v =? 2)%Z then (2%Z, t, idx, diag)
          else run_ops k h' rest (idx + 1)%Z (Z.max code v) tag'
      end
  end.

(* ---------- the shape ---------- *)
Definition log_nbins_relaxed (b : Q) (m : nat) (mx : Q) (n : nat) : bool :=
  let y := Qpow mx m in
  Qle_bool y (Qpow b n * (1 + delta_log n)) &&
  match n with O => true | S j => Qltb (Qpow b j * (1 - delta_log j)) y end.

(* parser result: kind, initial state, construction verdict, base tag *)
Definition p_shape : parser (hkind * hstate * Z * Z) :=
  do kind <- pZ;
  if (kind =? 0)%Z then
    (do mn <- pQ; do mx <- pQ; do nb <- pnat; do nobs <- pZ;
     if Qltb mn mx && (0 <? nb)%nat then
       pret (KLin mn mx, h_empty nb, (if (nobs =? Z.of_nat nb)%Z then 0 else 2)%Z, 0%Z)
     else (fun _ => None))
  else if (kind =? 1)%Z then
    (do b <- pZ; do m <- pnat; do mx <- pQ; do st <- pZ; do nobs <- pnat;
     if (2 <=? b)%Z && (0 <? m)%nat && Qle_bool 1 mx then
       let bq := inject_Z b in
       let v := if negb (st =? 0)%Z then 2%Z
                else if log_nbins_ok bq m mx nobs then 0%Z
                else if log_nbins_relaxed bq m mx nobs then 1%Z else 2%Z in
       pret (KLog b m, h_empty nobs, v,
             Z.lor T_LOG (if Qle_bool (inject_Z (2 ^ 63)) mx then T_WIDE else 0)%Z)
     else (fun _ => None))
  else if (kind =? 2)%Z then
    (do u <- pZ; do cs <- plist pZ; do o <- pZ;
     if (u <? 0)%Z || (o <? 0)%Z || existsb (fun c => (c <? 0)%Z) cs then (fun _ => None)
     else pret (KFix, mkH (Z.to_N u) (Zs_to_Ns cs) (Z.to_N o), 0%Z, T_FIX))
  else (fun _ => None).

Definition p_line : parser (hkind * hstate * Z * Z * list hop) :=
  do tag <- pZ; if negb (tag =? 14)%Z then (fun _ => None) else
  do sh <- p_shape; do ops <- plist_any p_hop; pend (sh, ops).

Definition check_C14 (line : list Z) : list Z :=
  match p_line line with
  | None => verdict V_MALFORMED 0 (-1) []
  | Some ((k, h0, v0, t0, ops), _) =>
      if (v0 =? 2)%Z then verdict V_MISMATCH t0 (-2) [Z.of_nat (length (h_bins h0))]
      else
        match run_ops k h0 ops 0%Z v0 0%Z with
        | (code, tag, pos, diag) =>
            (* the kind bits alone do not make a case non-trivial *)
            let tag' := if (tag =? 0)%Z || (code =? 2)%Z then tag else Z.lor tag (Z.lor t0 (if (v0 =? 1)%Z then T_BORDER else 0))%Z in
            verdict code tag' pos diag
        end
  end.

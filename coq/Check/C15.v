(* Check/C15.v — correspondence comparator for C15 (LinearLeastSquares, PolynomialRegression, LOESS).
   Lines (hexadecimal integers; floats as IEEE-754 bit patterns; lists length-prefixed):
     15 0 xs ys hasw ws  k col_1 .. col_k        status params unmodified  params'        LinearLeastSquares
     15 1 xs ys hasw ws  degree                  status coeffs  nq (x F(x))*  lstatus lparams unmodified
                                                 coeffs' nq (F(x)')* lparams'      PolynomialRegression (+ LLS on monomials)
     15 2 xs ys degree span                      status nq (x qstatus value)* unmodified  nq (qstatus' value')*   LOESS
   The primed fields are a HISTORY: the same results read AGAIN after the harness ran other fits (same shape on
   other data, larger, smaller, a LOESS closure) while still holding them; for LOESS the second half of the
   queries is evaluated after such fits and all queries once more at the end.  They must equal the first reading
   (a returned slice / closure that shares storage with later calls fails here).
   status: 0 returned, 2 panicked.  [col_j] are the values the j-th term function wrote (the harness owns the
   term functions), so any basis — polynomial, trigonometric, exponential — reaches the model exactly.

   What is compared (property C15):
   * exact residual orthogonality of Go's OWN coefficients: |c_j . W (y - X beta_go)| <= 1e-9 * natural scale,
     computed in Q — independent of the conditioning of the design;
   * coefficients and fitted values against the exact minimiser, relative 1e-6 of the coefficient norm,
     scaled by the condition number kappa_inf of the normal matrix when kappa > 1e7 (1e-13 * kappa);
     designs with kappa > 1e11 are tagged ill-conditioned and only the orthogonality check applies;
   * F(x) against the exact polynomial with Go's returned Coefficients (1e-12 of sum |c_i||x|^i);
   * LOESS values against the model for the admissible window decisions (DESIGN 4.5): the exact one and the one
     the code takes on the correctly rounded float64 product span*n / sum xs[i]+xs[i+q];
   * panics exactly where the model panics; arguments unmodified (also on the panicking paths).
   Round 2 (audit, see meta/C15.json "audit"): NO case is accepted without the comparison the property names
   having taken place, except the no-claim classes listed there (singular design CONFIRMED by the complete
   exact solver; kappa > 1e11: orthogonality only).  Lines the harness never writes (no abscissa, no term, a
   negative weight, a non-finite span, LOESS with len(xs) <> len(ys), a non-panicking PolynomialRegression
   without a query of F) are MALFORMED, not accepted. *)
From MM Require Import Base.Num Model.Fit.
Local Open Scope Q_scope.

(* ---------- parsing ---------- *)
Definition p_optw : parser (option (list Q)) :=
  do h <- pbool; do ws <- plist pQ; pret (if h then Some ws else None).

Inductive c15case :=
| CLls (xs ys : list Q) (w : option (list Q)) (cols : list (list Q)) (st : Z) (params : list xreal) (unmod : bool)
       (rparams : list xreal)
| CPoly (xs ys : list Q) (w : option (list Q)) (deg : Z) (st : Z) (coeffs : list xreal) (qs : list (Q * xreal))
        (lst : Z) (lparams : list xreal) (unmod : bool) (rcoeffs rfs rlparams : list xreal)
| CLoess (xs ys : list Q) (deg : Z) (span : xreal) (st : Z) (qs : list (Q * Z * xreal)) (unmod : bool)
         (rqs : list (Z * xreal)).

Definition p_line : parser c15case :=
  do id <- pZ; if negb (id =? 15)%Z then (fun _ => None) else
  do op <- pZ;
  if (op =? 0)%Z then
    (do xs <- plist pQ; do ys <- plist pQ; do w <- p_optw; do cols <- plist_any (plist pQ);
     do st <- pZ; do ps <- plist pX; do u <- pbool; do rps <- plist pX; pend (CLls xs ys w cols st ps u rps))
  else if (op =? 1)%Z then
    (do xs <- plist pQ; do ys <- plist pQ; do w <- p_optw; do deg <- pZ;
     do st <- pZ; do cs <- plist pX;
     do qs <- plist_any (do x <- pQ; do v <- pX; pret (x, v));
     do lst <- pZ; do lps <- plist pX; do u <- pbool;
     do rcs <- plist pX; do rfs <- plist pX; do rlps <- plist pX;
     pend (CPoly xs ys w deg st cs qs lst lps u rcs rfs rlps))
  else if (op =? 2)%Z then
    (do xs <- plist pQ; do ys <- plist pQ; do deg <- pZ; do span <- pX;
     do st <- pZ; do qs <- plist_any (do x <- pQ; do s <- pZ; do v <- pX; pret (x, s, v));
     do u <- pbool; do rqs <- plist_any (do s <- pZ; do v <- pX; pret (s, v));
     pend (CLoess xs ys deg span st qs u rqs))
  else (fun _ => None).

(* ---------- helpers ---------- *)
Definition qadd (a b : Q) : Q := Qred (a + b).
Definition qsum (l : list Q) : Q := fold_left qadd l 0.
Fixpoint all_fin (l : list xreal) : option (list Q) :=
  match l with
  | [] => Some []
  | XFin q :: t => match all_fin t with Some r => Some (q :: r) | None => None end
  | _ :: _ => None
  end.
Fixpoint all_some {A} (l : list (option A)) : option (list A) :=
  match l with
  | [] => Some []
  | Some a :: t => match all_some t with Some r => Some (a :: r) | None => None end
  | None :: _ => None
  end.
(* the re-read observables equal the first reading: same NaN-ness / infinity / number *)
Fixpoint xlist_eq (a b : list xreal) : bool :=
  match a, b with
  | [], [] => true
  | x :: a', y :: b' => xeq x y && xlist_eq a' b'
  | _, _ => false
  end.
Fixpoint reread_ok (qs : list (Q * Z * xreal)) (rqs : list (Z * xreal)) : bool :=
  match qs, rqs with
  | [], [] => true
  | (_, st, v) :: qs', (st', v') :: rqs' => (st =? st')%Z && xeq v v' && reread_ok qs' rqs'
  | _, _ => false
  end.
Fixpoint vadd (a b : list Q) : list Q :=
  match a, b with x :: a', y :: b' => qadd x y :: vadd a' b' | _, _ => [] end.

(* X.beta as a vector over the observations; [absolute]: sum_l |c_li| |beta_l| *)
Fixpoint fitted (absolute : bool) (n : nat) (cols : list (list Q)) (beta : list Q) : list Q :=
  match cols, beta with
  | c :: cs, b :: bs =>
      vadd (map (fun v => if absolute then Qabs v * Qabs b else v * b) c) (fitted absolute n cs bs)
  | _, _ => repeat 0 n
  end.
Fixpoint vsub (a b : list Q) : list Q :=
  match a, b with x :: a', y :: b' => Qred (x - y) :: vsub a' b' | _, _ => [] end.

(* kappa_inf(A) = |A|_inf * |A^-1|_inf, exactly, through the columns of the inverse *)
Definition unit_vec (k i : nat) : list Q := map (fun j => if (j =? i)%nat then 1 else 0) (seq 0 k).
Definition norm_inf (A : list (list Q)) : Q := Qlmax 0 (map (fun r => qsum (map Qabs r)) A).
(* the exact solution of A.beta = b together with kappa_inf(A), from ONE elimination with the
   right-hand sides b, e_1 .. e_k (every returned column is verified by solve_multi_checked) *)
(* |A^-1|_inf = max_i sum_c |N_c[i]| / |D| for the columns N_c / D of the inverse: integers only *)
Definition inv_rowsums (k : nat) (invcols : list (list Z)) : list Z :=
  fold_left (fun acc c => map (fun p => (fst p + Z.abs (snd p))%Z) (combine acc c)) invcols (repeat 0%Z k).
Definition inv_norm_Z (k : nat) (invcols : list (list Z)) : Z := fold_left Z.max (inv_rowsums k invcols) 0%Z.
Definition kappa_of (A : list (list Q)) (invcols : list (list Z)) (D : Z) : Q :=
  Qred (norm_inf A * (inject_Z (inv_norm_Z (length A) invcols) / inject_Z (Z.abs D))).
(* the exact solution of A.beta = b together with kappa_inf(A), from ONE elimination with the
   right-hand sides b, e_1 .. e_k (every returned column is verified by solve_multi_Z) *)
Definition solve_cond (A : list (list Q)) (b : list Q) : option (list Q * Q) :=
  let k := length A in
  match solve_multi_Z A (b :: map (unit_vec k) (seq 0 k)) with
  | Some (N :: invcols, D) => Some (sol_to_Q D N, kappa_of A invcols D)
  | _ => None
  end.
Definition cond_inf (A : list (list Q)) : option Q :=
  match solve_cond A (repeat 0 (length A)) with Some (_, kap) => Some kap | None => None end.
Definition fit_cond (cols : list (list Q)) (w y : list Q) : option (list Q * Q) :=
  solve_cond (normal_lhs cols w) (normal_rhs cols w y).
(* the reference fit: the exact minimiser with kappa, or a design CONFIRMED singular by the complete solver
   [solve_checked] (Proofs/FitSolve.v: it fails only on a matrix that is not regular).  FitBug (the fraction-free
   elimination failed on a system the fall-back solves) never occurs; it is reported, not accepted. *)
Inductive fitref := FitOk (beta : list Q) (kap : Q) | FitSingular | FitBug.
Definition fit_ref (cols : list (list Q)) (w y : list Q) : fitref :=
  match fit_cond cols w y with
  | Some (beta, kap) => FitOk beta kap
  | None => match lls_solve cols w y with None => FitSingular | Some _ => FitBug end
  end.
Definition kappa_ok : Q := 10000000.                     (* 1e7 *)
Definition kappa_max : Q := 100000000000.                 (* 1e11 *)
Definition tol_rel (kappa : Q) : Q :=
  if Qle_bool kappa kappa_ok then 1 # 1000000 else kappa * (1 # 10000000000000).
Definition tol_orth : Q := 1 # 1000000000.               (* 1e-9 *)
Definition tol_F : Q := 1 # 1000000000000.               (* 1e-12 *)

(* sum_k |x|^k, k = 0..m-1 *)
Definition abs_powsum (x : Q) (m : nat) : Q := qsum (map (fun k => qpow (Qabs x) k) (seq 0 m)).

(* exact orthogonality defect of beta_go, column by column, against its natural scale
   sum_i |c_ji| w_i (|y_i| + sum_l |c_li| |beta_l|) *)
Definition orth_defect (cols : list (list Q)) (w y beta_go c : list Q) : Q :=
  dot3 c w (vsub y (fitted false (length y) cols beta_go)).
Definition orth_scale (cols : list (list Q)) (w y beta_go c : list Q) : Q :=
  dot3 (map Qabs c) w (vadd (map Qabs y) (fitted true (length y) cols beta_go)).
Definition orth_ok (cols : list (list Q)) (w y beta_go : list Q) : bool :=
  forallb (fun c => Qle_bool (Qabs (orth_defect cols w y beta_go c)) (tol_orth * orth_scale cols w y beta_go c)) cols.

(* coefficients against the exact minimiser *)
Definition coeffs_tol (tr : Q) (ymax : Q) (beta : list Q) : Q := tr * Qmaxabs beta + (1 # 1000000000000) * ymax.
Definition coeffs_ok (tr : Q) (ymax : Q) (beta beta_go : list Q) : bool :=
  (length beta =? length beta_go)%nat &&
  forallb (fun p => within (coeffs_tol tr ymax beta) (fst p) (snd p)) (combine beta beta_go).

(* tags *)
Definition T_W : Z := 1.       (* weights given *)
Definition T_DEG3 : Z := 2.    (* degree >= 3 (the terms built by the loop lsquares.go:152-160) *)
Definition T_UNSORTED : Z := 4.
Definition T_INTERIOR : Z := 8.  (* some window strictly inside the data *)
Definition T_FULL : Z := 16.   (* q = n *)
Definition T_BORDER : Z := 32.
Definition T_DEGEN : Z := 64.  (* a zero weight or a repeated abscissa in the data *)
Definition T_ILL : Z := 128.   (* kappa > 1e11: only the orthogonality check applied *)
Definition T_LLS : Z := 256.
Definition T_POLY : Z := 512.
Definition T_LOESS : Z := 1024.
Definition T_EDGEWIN : Z := 2048. (* some window at the first or last position with q < n *)
Definition bit (b : bool) (t : Z) : Z := if b then t else 0%Z.
Fixpoint has_dup (l : list Q) : bool :=
  match l with [] => false | a :: t => existsb (Qeqb a) t || has_dup t end.
Definition degen (xs wl : list Q) : bool := existsb (fun v => Qeqb v 0) wl || has_dup xs.

(* the common part of LLS and POLY, given the exact minimiser [beta] and kappa:
   returns (tag bits, None) or (tag bits, Some (pos, diag)) *)
Definition check_fit (cols : list (list Q)) (w : list Q) (y : list Q) (beta : list Q) (kappa : Q)
  (go : list xreal) : Z * option (Z * list Z) :=
  match all_fin go with
  | None => (0%Z, Some (1%Z, []))                                    (* NaN/Inf coefficient *)
  | Some beta_go =>
      if negb (length beta_go =? length cols)%nat then (0%Z, Some (2%Z, []))
      else if negb (orth_ok cols w y beta_go) then (0%Z, Some (3%Z, concat (map qdiag beta)))
      else if Qle_bool kappa kappa_max then
        if coeffs_ok (tol_rel kappa) (Qmaxabs y) beta beta_go then (0%Z, None)
        else (0%Z, Some (4%Z, concat (map qdiag beta)))
      else (T_ILL, None)
  end.

(* POLY: F(x) against Go's own coefficients and against the model *)
Definition F_scale (beta_go : list Q) (x : Q) : Q :=
  qsum (map (fun p => Qabs (fst p) * qpow (Qabs x) (snd p)) (combine beta_go (seq 0 (length beta_go)))).
Definition F_ok (beta_go : list Q) (beta : option (list Q * Q)) (q : Q * xreal) : bool :=
  let '(x, v) := q in
  match polyF beta_go x, v with
  | Some own, XFin o =>
      let sc := F_scale beta_go x in
      within (tol_F * sc) own o &&
      match beta with
      | Some (b, tr) =>
          match polyF b x with
          | Some e => within (tr * Qmaxabs b * abs_powsum x (length b) + tol_F * sc) e o
          | None => false
          end
      | None => true
      end
  | _, _ => false
  end.

Definition first_bad {A} (f : A -> bool) (l : list A) : option Z :=
  (fix go (l : list A) (i : Z) := match l with [] => None | a :: t => if f a then go t (i + 1)%Z else Some i end) l 0%Z.

(* ---------- LOESS ---------- *)
Definition dedup_nat (l : list nat) : list nat := nodup Nat.eq_dec l.
(* round-to-nearest-even to 53 significant bits of a dyadic rational (sign-symmetric).  span*float64(n) and
   xs[i]+xs[i+q] are each ONE correctly rounded operation on exactly known binary64 numbers, so the number the
   code compares is known exactly (a sum that lands in the subnormal range is exact and has fewer than 53
   bits; nothing here is near overflow).  DESIGN 4.5: the admissible decisions are the EXACT one (the
   property's real-number reading) and the one taken on the rounded number (the code's); they coincide
   whenever the operation is exact, and then no alternative is accepted. *)
Definition round53_pos (n : Z) (d : positive) : Q :=
  let bl := (Z.log2 n + 1)%Z in
  if (bl <=? 53)%Z then n # d else
  let sh := (bl - 53)%Z in
  let m := Z.shiftr n sh in
  let rem := (n - Z.shiftl m sh)%Z in
  let half := Z.shiftl 1 (sh - 1) in
  let m' := if (half <? rem)%Z || ((half =? rem)%Z && Z.odd m) then (m + 1)%Z else m in
  Z.shiftl m' sh # d.
Definition round53 (q : Q) : Q :=
  let r := Qred q in
  match Qnum r with
  | Z0 => 0
  | Zpos p => round53_pos (Zpos p) (Qden r)
  | Zneg p => - round53_pos (Zpos p) (Qden r)
  end.
(* q = min(n, ceil(p)) for the product p (loess.go:45-48) *)
Definition q_of_product (n : nat) (p : Q) : nat :=
  let c := ceilQ p in if (Z.of_nat n <=? c)%Z then n else Z.to_nat c.
(* admissible window widths: from the exact product span*n and from the float64 product *)
Definition q_cands (n : nat) (span : Q) : list nat :=
  dedup_nat [loess_q n span; q_of_product n (round53 (span * Qofnat n))].
(* the search predicate as the code evaluates it: (xs[i]+xs[i+q]) rounded >= x*2 (x*2 is exact) *)
Definition window_pred_fl (xs : list Q) (q : nat) (x : Q) (i : nat) : bool :=
  match nth_error xs i, nth_error xs (i + q) with
  | Some a, Some b => Qle_bool (x * 2) (round53 (a + b))
  | _, _ => true
  end.
Definition window_start_fl (xs : list Q) (q : nat) (x : Q) : nat :=
  if (q <? length xs)%nat then search (length xs - q) (window_pred_fl xs q x) else O.
Definition n0_cands (xs : list Q) (q : nat) (x : Q) : list nat :=
  dedup_nat [window_start 0 xs q x; window_start_fl xs q x].

Definition loess_tol (kappa : Q) (beta cy : list Q) (x : Q) : Q :=
  tol_rel kappa * Qmaxabs beta * abs_powsum x (length beta) + (1 # 1000000000000) * Qmaxabs cy.
(* one query under one window decision: 0 agrees, 1 no claim (d = 0: the weights are 0/0; local design confirmed
   singular; kappa > 1e11) but the call returned, 2 disagrees.  Same pieces as Model.loess_at (loess_design,
   monomials, the verified solver, polyF); the solver is called once with the extra right-hand sides that give kappa. *)
Definition loess_query (sx sy : list Q) (deg : Z) (q n0 : nat) (x : Q) (st : Z) (v : xreal) : Z :=
  match loess_design sx sy q n0 x with
  | FPanic => if (st =? 2)%Z then 0%Z else 2%Z
  | FSingular => if (st =? 0)%Z then 1%Z else 2%Z
  | FOk (cx, cy, w) =>
      if negb (st =? 0)%Z then 2%Z else
      match fit_ref (monomials (Z.to_nat deg) cx) w cy with
      | FitBug => 2%Z
      | FitSingular => 1%Z
      | FitOk beta kappa =>
          match v, polyF beta x with
          | XFin o, Some e =>
              if Qle_bool kappa kappa_max then
                if within (loess_tol kappa beta cy x) e o then 0%Z else 2%Z
              else 1%Z
          | _, _ => 2%Z
          end
      end
  end.

(* one query under window width q: 0 agrees at the exact window start, 1 no claim at the exact start,
   3 disagrees at the exact start but is consistent (code 0 or 1) with the start the float search takes
   (borderline), 2 disagrees *)
Definition query_verdict (sx sy : list Q) (deg : Z) (q : nat) (qd : Q * Z * xreal) : Z :=
  let '(x, st, v) := qd in
  let n0 := window_start 0 sx q x in
  let c0 := loess_query sx sy deg q n0 x st v in
  if negb (c0 =? 2)%Z then c0
  else if existsb (fun m => negb (loess_query sx sy deg q m x st v =? 2)%Z)
                  (filter (fun m => negb (m =? n0)%nat) (n0_cands sx q x)) then 3%Z else 2%Z.
Definition query_tag (sx : list Q) (q : nat) (qd : Q * Z * xreal) (c : Z) : Z :=
  let '(x, st, _) := qd in
  if (c =? 0)%Z && (st =? 0)%Z then
    let n0 := window_start 0 sx q x in
    let n := length sx in
    Z.lor T_LOESS
      (Z.lor (bit ((0 <? n0)%nat && (n0 + q <? n)%nat) T_INTERIOR)
             (bit ((q <? n)%nat && ((n0 =? 0)%nat || (n0 + q =? n)%nat)) T_EDGEWIN))
  else 0%Z.
Definition first_two (vs : list Z) : option Z := first_bad (fun c => negb (c =? 2)%Z) vs.
(* the float width is accepted if no query disagrees under it *)
Definition alt_q_ok (vs' : list Z) : bool := forallb (fun c => negb (c =? 2)%Z) vs'.

Definition check_loess (xs ys : list Q) (deg : Z) (span : xreal) (st : Z) (qs : list (Q * Z * xreal)) (unmod : bool)
  (rqs : list (Z * xreal)) : list Z :=
  match span with
  | XFin s =>
    if negb (length xs =? length ys)%nat then verdict V_MALFORMED 0 (-1) []
    else if (deg <? 0)%Z || Qle_bool s 0 then
      (if (st =? 2)%Z && unmod && (length qs =? 0)%nat && (length rqs =? 0)%nat
       then verdict V_OK 0 (-1) [] else verdict V_MISMATCH 0 0 [])
    else if negb (st =? 0)%Z then verdict V_MISMATCH 0 0 []
    else if negb unmod then verdict V_MISMATCH 0 1 []
    else if (length qs =? 0)%nat then verdict V_MALFORMED 0 (-1) []     (* the closure was never called *)
    else if negb (reread_ok qs rqs) then verdict V_MISMATCH 0 1 [7%Z]   (* a later evaluation differs from the first *)
    else
      let n := length xs in
      let '(sx, sy) := loess_prepare xs ys in
      let qe := loess_q n s in
      let base := Z.lor (Z.lor (bit (negb (sortedb xs)) T_UNSORTED) (bit (qe =? n)%nat T_FULL)) (bit (has_dup xs) T_DEGEN) in
      let vs := map (query_verdict sx sy deg qe) qs in
      match first_two vs with
      | None =>
          let tg := fold_left Z.lor (map (fun p => query_tag sx qe (fst p) (snd p)) (combine qs vs)) 0%Z in
          let border := existsb (Z.eqb 3) vs in
          verdict (if border then V_BORDERLINE else V_OK)
                  (if (tg =? 0)%Z then 0%Z else Z.lor (Z.lor T_LOESS base) (Z.lor tg (bit border T_BORDER))) (-1) []
      | Some i =>
          let alts := filter (fun m => negb (m =? qe)%nat) (q_cands n s) in
          if existsb (fun q => alt_q_ok (map (query_verdict sx sy deg q) qs)) alts
          then verdict V_BORDERLINE (Z.lor (Z.lor T_LOESS base) T_BORDER) (-1) []
          else verdict V_MISMATCH (Z.lor T_LOESS base) (i + 2)%Z
                 (Z.of_nat qe ::
                  match nth_error qs (Z.to_nat i) with
                  | Some (x, _, _) =>
                      let n0 := window_start 0 sx qe x in
                      Z.of_nat n0 ::
                      match loess_at sx sy deg qe n0 x with
                      | FOk (_, e) => qdiag e | _ => [] end
                  | None => [] end)
      end
  | _ => verdict V_MALFORMED 0 (-1) []      (* span = +-Inf / NaN: the harness refuses such a case *)
  end.

(* ---------- LLS / POLY ---------- *)
Definition lens_panic (nx : nat) (ys : list Q) (w : option (list Q)) : bool :=
  negb (nx =? length ys)%nat || match w with Some l => negb (nx =? length l)%nat | None => false end.
Definition nonneg_w (w : option (list Q)) : bool :=
  match w with Some l => forallb (Qle_bool 0) l | None => true end.
Definition hasw (w : option (list Q)) : bool := match w with Some _ => true | None => false end.

Definition check_lls (xs ys : list Q) (w : option (list Q)) (cols : list (list Q)) (st : Z) (ps : list xreal) (unmod : bool)
  (rps : list xreal) : list Z :=
  let nx := length xs in
  if (nx =? 0)%nat || (length cols =? 0)%nat || negb (nonneg_w w) then verdict V_MALFORMED 0 (-1) []
  else if lens_panic nx ys w then
    (if (st =? 2)%Z && unmod && (length ps =? 0)%nat && (length rps =? 0)%nat
     then verdict V_OK 0 (-1) [] else verdict V_MISMATCH 0 0 [])
  else if negb (forallb (fun c => (length c =? nx)%nat) cols) then verdict V_MALFORMED 0 (-1) []
  else if negb (st =? 0)%Z then verdict V_MISMATCH 0 0 []
  else if negb unmod then verdict V_MISMATCH 0 5 []
  else if negb (xlist_eq ps rps) then verdict V_MISMATCH 0 7 []     (* the parameters changed after they were returned *)
  else
    let wl := weights_or_ones nx w in
    match fit_ref cols wl ys with
    | FitBug => verdict V_MALFORMED 0 (-1) []
    | FitSingular => verdict V_OK 0 (-1) []            (* confirmed singular design: outside the property *)
    | FitOk beta kap =>
      let tag := Z.lor (Z.lor T_LLS (bit (hasw w) T_W)) (bit (degen xs wl) T_DEGEN) in
      match check_fit cols wl ys beta kap ps with
      | (t, None) => verdict V_OK (Z.lor tag t) (-1) []
      | (t, Some (pos, diag)) => verdict V_MISMATCH (Z.lor tag t) pos diag
      end
    end.

Definition check_poly (xs ys : list Q) (w : option (list Q)) (deg : Z) (st : Z) (cs : list xreal)
  (qs : list (Q * xreal)) (lst : Z) (lps : list xreal) (unmod : bool) (rcs rfs rlps : list xreal) : list Z :=
  let nx := length xs in
  if (nx =? 0)%nat || negb (nonneg_w w) then verdict V_MALFORMED 0 (-1) []
  else if (deg <? 0)%Z || lens_panic nx ys w then
    (if (st =? 2)%Z && unmod && (length cs =? 0)%nat && (length qs =? 0)%nat
        && (length rcs =? 0)%nat && (length rfs =? 0)%nat && (length rlps =? 0)%nat
     then verdict V_OK 0 (-1) [] else verdict V_MISMATCH 0 0 [])
  else if negb (st =? 0)%Z then verdict V_MISMATCH 0 0 []
  else if negb unmod then verdict V_MISMATCH 0 5 []
  else if (length qs =? 0)%nat then verdict V_MALFORMED 0 (-1) []     (* F was not observed *)
  else if negb (xlist_eq cs rcs && xlist_eq (map snd qs) rfs && xlist_eq lps rlps)
  then verdict V_MISMATCH 0 7 []      (* Coefficients, F or the twin's parameters changed after they were returned *)
  else
    let wl := weights_or_ones nx w in
    let cols := monomials (Z.to_nat deg) xs in
    match fit_ref cols wl ys with
    | FitBug => verdict V_MALFORMED 0 (-1) []
    | FitSingular => verdict V_OK 0 (-1) []            (* confirmed singular design: outside the property *)
    | FitOk beta kap =>
      let tag := Z.lor (Z.lor (Z.lor T_POLY (bit (hasw w) T_W)) (bit (3 <=? deg)%Z T_DEG3))
                       (bit (degen xs wl) T_DEGEN) in
      match check_fit cols wl ys beta kap cs with
      | (t, Some (pos, diag)) => verdict V_MISMATCH (Z.lor tag t) pos diag
      | (t, None) =>
          (* the same through LinearLeastSquares on the monomial basis *)
          if negb (lst =? 0)%Z then verdict V_MISMATCH (Z.lor tag t) 6 [] else
          match check_fit cols wl ys beta kap lps with
          | (_, Some (pos, diag)) => verdict V_MISMATCH (Z.lor tag t) (10 + pos) diag
          | (_, None) =>
              match all_fin cs with
              | None => verdict V_MISMATCH (Z.lor tag t) 1 []
              | Some beta_go =>
                  let model := if Qle_bool kap kappa_max then Some (beta, tol_rel kap) else None in
                  match first_bad (F_ok beta_go model) qs with
                  | None => verdict V_OK (Z.lor tag t) (-1) []
                  | Some i => verdict V_MISMATCH (Z.lor tag t) (20 + i) []
                  end
              end
          end
      end
    end.

Definition check_C15 (line : list Z) : list Z :=
  match p_line line with
  | None => verdict V_MALFORMED 0 (-1) []
  | Some (CLls xs ys w cols st ps u rps, _) => check_lls xs ys w cols st ps u rps
  | Some (CPoly xs ys w deg st cs qs lst lps u rcs rfs rlps, _) => check_poly xs ys w deg st cs qs lst lps u rcs rfs rlps
  | Some (CLoess xs ys deg span st qs u rqs, _) => check_loess xs ys deg span st qs u rqs
  end.

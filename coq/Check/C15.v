(* Check/C15.v — correspondence comparator for C15 (LinearLeastSquares, PolynomialRegression, LOESS).
   Lines (hexadecimal integers; floats as IEEE-754 bit patterns; lists length-prefixed):
     15 0 xs ys hasw ws  k col_1 .. col_k        status params unmodified          LinearLeastSquares
     15 1 xs ys hasw ws  degree                  status coeffs  nq (x F(x))*  lstatus lparams unmodified
                                                                                   PolynomialRegression (+ LLS on monomials)
     15 2 xs ys degree span                      status nq (x qstatus value)* unmodified      LOESS
   status: 0 returned, 2 panicked.  [col_j] are the values the j-th term function wrote (the harness owns the
   term functions), so any basis — polynomial, trigonometric, exponential — reaches the model exactly.

   What is compared (property C15):
   * exact residual orthogonality of Go's OWN coefficients: |c_j . W (y - X beta_go)| <= 1e-9 * natural scale,
     computed in Q — independent of the conditioning of the design;
   * coefficients and fitted values against the exact minimiser, relative 1e-6 of the coefficient norm,
     scaled by the condition number kappa_inf of the normal matrix when kappa > 1e7 (1e-13 * kappa);
     designs with kappa > 1e11 are tagged ill-conditioned and only the orthogonality check applies;
   * F(x) against the exact polynomial with Go's returned Coefficients (1e-12 of sum |c_i||x|^i);
   * LOESS values against the model for the admissible window decisions (DESIGN 4.5);
   * panics exactly where the model panics; arguments unmodified. *)
From MM Require Import Base.Num Model.Fit.
Local Open Scope Q_scope.

(* ---------- parsing ---------- *)
Definition p_optw : parser (option (list Q)) :=
  do h <- pbool; do ws <- plist pQ; pret (if h then Some ws else None).

Inductive c15case :=
| CLls (xs ys : list Q) (w : option (list Q)) (cols : list (list Q)) (st : Z) (params : list xreal) (unmod : bool)
| CPoly (xs ys : list Q) (w : option (list Q)) (deg : Z) (st : Z) (coeffs : list xreal) (qs : list (Q * xreal))
        (lst : Z) (lparams : list xreal) (unmod : bool)
| CLoess (xs ys : list Q) (deg : Z) (span : xreal) (st : Z) (qs : list (Q * Z * xreal)) (unmod : bool).

Definition p_line : parser c15case :=
  do id <- pZ; if negb (id =? 15)%Z then (fun _ => None) else
  do op <- pZ;
  if (op =? 0)%Z then
    (do xs <- plist pQ; do ys <- plist pQ; do w <- p_optw; do cols <- plist_any (plist pQ);
     do st <- pZ; do ps <- plist pX; do u <- pbool; pend (CLls xs ys w cols st ps u))
  else if (op =? 1)%Z then
    (do xs <- plist pQ; do ys <- plist pQ; do w <- p_optw; do deg <- pZ;
     do st <- pZ; do cs <- plist pX;
     do qs <- plist_any (do x <- pQ; do v <- pX; pret (x, v));
     do lst <- pZ; do lps <- plist pX; do u <- pbool; pend (CPoly xs ys w deg st cs qs lst lps u))
  else if (op =? 2)%Z then
    (do xs <- plist pQ; do ys <- plist pQ; do deg <- pZ; do span <- pX;
     do st <- pZ; do qs <- plist_any (do x <- pQ; do s <- pZ; do v <- pX; pret (x, s, v));
     do u <- pbool; pend (CLoess xs ys deg span st qs u))
  else (fun _ => None).

(* ---------- helpers ---------- *)
Definition qadd (a b : Q) : Q := Qred (a + b).
Definition qsum (l : list Q) : Q := fold_left qadd l 0.
Fixpoint all_fin (l : list xreal) : option (list Q) :=
  match l with
  | [] => Some []
  | XFin q :: t => match all_fin t with Some r => Some (q :: r) | None => None end
  | _ :: _ => None
  end.
Fixpoint all_some {A} (l : list (option A)) : option (list A) :=
  match l with
  | [] => Some []
  | Some a :: t => match all_some t with Some r => Some (a :: r) | None => None end
  | None :: _ => None
  end.
Fixpoint vadd (a b : list Q) : list Q :=
  match a, b with x :: a', y :: b' => qadd x y :: vadd a' b' | _, _ => [] end.

(* X.beta as a vector over the observations; [absolute]: sum_l |c_li| |beta_l| *)
Fixpoint fitted (absolute : bool) (n : nat) (cols : list (list Q)) (beta : list Q) : list Q :=
  match cols, beta with
  | c :: cs, b :: bs =>
      vadd (map (fun v => if absolute then Qabs v * Qabs b else v * b) c) (fitted absolute n cs bs)
  | _, _ => repeat 0 n
  end.
Fixpoint vsub (a b : list Q) : list Q :=
  match a, b with x :: a', y :: b' => Qred (x - y) :: vsub a' b' | _, _ => [] end.

(* kappa_inf(A) = |A|_inf * |A^-1|_inf, exactly, through the columns of the inverse *)
Definition unit_vec (k i : nat) : list Q := map (fun j => if (j =? i)%nat then 1 else 0) (seq 0 k).
Definition norm_inf (A : list (list Q)) : Q := Qlmax 0 (map (fun r => qsum (map Qabs r)) A).
(* the exact solution of A.beta = b together with kappa_inf(A), from ONE elimination with the
   right-hand sides b, e_1 .. e_k (every returned column is verified by solve_multi_checked) *)
Definition solve_cond (A : list (list Q)) (b : list Q) : option (list Q * Q) :=
  let k := length A in
  match solve_multi_Z A (b :: map (unit_vec k) (seq 0 k)) with
  | Some (N :: invcols, D) =>
      (* |A^-1|_inf = max_i sum_c |N_c[i]| / |D| : integers only *)
      let rowsums := fold_left (fun acc c => map (fun p => (fst p + Z.abs (snd p))%Z) (combine acc c)) invcols (repeat 0%Z k) in
      let mx := fold_left Z.max rowsums 0%Z in
      Some (sol_to_Q D N, Qred (norm_inf A * (inject_Z mx / inject_Z (Z.abs D))))
  | _ => None
  end.
Definition cond_inf (A : list (list Q)) : option Q :=
  match solve_cond A (repeat 0 (length A)) with Some (_, kap) => Some kap | None => None end.
Definition fit_cond (cols : list (list Q)) (w y : list Q) : option (list Q * Q) :=
  solve_cond (normal_lhs cols w) (normal_rhs cols w y).
Definition kappa_ok : Q := 10000000.                     (* 1e7 *)
Definition kappa_max : Q := 100000000000.                 (* 1e11 *)
Definition tol_rel (kappa : Q) : Q :=
  if Qle_bool kappa kappa_ok then 1 # 1000000 else kappa * (1 # 10000000000000).
Definition tol_orth : Q := 1 # 1000000000.               (* 1e-9 *)
Definition tol_F : Q := 1 # 1000000000000.               (* 1e-12 *)

(* sum_k |x|^k, k = 0..m-1 *)
Definition abs_powsum (x : Q) (m : nat) : Q := qsum (map (fun k => qpow (Qabs x) k) (seq 0 m)).

(* exact orthogonality defect of beta_go, column by column *)
Definition orth_ok (cols : list (list Q)) (w y beta_go : list Q) : bool :=
  let n := length y in
  let r := vsub y (fitted false n cols beta_go) in
  let s := vadd (map Qabs y) (fitted true n cols beta_go) in
  forallb (fun c => Qle_bool (Qabs (dot3 c w r)) (tol_orth * dot3 (map Qabs c) w s)) cols.

(* coefficients against the exact minimiser *)
Definition coeffs_ok (tr : Q) (ymax : Q) (beta beta_go : list Q) : bool :=
  let tol := tr * Qmaxabs beta + (1 # 1000000000000) * ymax in
  (length beta =? length beta_go)%nat &&
  forallb (fun p => within tol (fst p) (snd p)) (combine beta beta_go).

(* tags *)
Definition T_W : Z := 1.       (* weights given *)
Definition T_DEG3 : Z := 2.    (* degree >= 3 (the terms built by the loop lsquares.go:152-160) *)
Definition T_UNSORTED : Z := 4.
Definition T_INTERIOR : Z := 8.  (* some window strictly inside the data *)
Definition T_FULL : Z := 16.   (* q = n *)
Definition T_BORDER : Z := 32.
Definition T_DEGEN : Z := 64.  (* a zero weight or a repeated abscissa in the data *)
Definition T_ILL : Z := 128.   (* kappa > 1e11: only the orthogonality check applied *)
Definition T_LLS : Z := 256.
Definition T_POLY : Z := 512.
Definition T_LOESS : Z := 1024.
Definition T_EDGEWIN : Z := 2048. (* some window at the first or last position with q < n *)
Definition bit (b : bool) (t : Z) : Z := if b then t else 0%Z.
Fixpoint has_dup (l : list Q) : bool :=
  match l with [] => false | a :: t => existsb (Qeqb a) t || has_dup t end.
Definition degen (xs wl : list Q) : bool := existsb (fun v => Qeqb v 0) wl || has_dup xs.

(* the common part of LLS and POLY, given the exact minimiser [beta] and kappa (None: > representable,
   treated as ill-conditioned): returns (tag bits, None) or (tag bits, Some (pos, diag)) *)
Definition check_fit (cols : list (list Q)) (w : list Q) (y : list Q) (beta : list Q) (kappa : option Q)
  (go : list xreal) : Z * option (Z * list Z) :=
  match all_fin go with
  | None => (0%Z, Some (1%Z, []))                                    (* NaN/Inf coefficient *)
  | Some beta_go =>
      if negb (length beta_go =? length cols)%nat then (0%Z, Some (2%Z, []))
      else if negb (orth_ok cols w y beta_go) then (0%Z, Some (3%Z, concat (map qdiag beta)))
      else
        match kappa with
        | Some k =>
            if Qle_bool k kappa_max then
              if coeffs_ok (tol_rel k) (Qmaxabs y) beta beta_go then (0%Z, None)
              else (0%Z, Some (4%Z, concat (map qdiag beta)))
            else (T_ILL, None)
        | None => (T_ILL, None)
        end
  end.

(* POLY: F(x) against Go's own coefficients and against the model *)
Definition F_ok (beta_go : list Q) (beta : option (list Q * Q)) (q : Q * xreal) : bool :=
  let '(x, v) := q in
  match polyF beta_go x, v with
  | Some own, XFin o =>
      let sc := qsum (map (fun p => Qabs (fst p) * qpow (Qabs x) (snd p)) (combine beta_go (seq 0 (length beta_go)))) in
      within (tol_F * sc) own o &&
      match beta with
      | Some (b, tr) =>
          match polyF b x with
          | Some e => within (tr * Qmaxabs b * abs_powsum x (length b) + tol_F * sc) e o
          | None => false
          end
      | None => true
      end
  | _, _ => false
  end.

Definition first_bad {A} (f : A -> bool) (l : list A) : option Z :=
  (fix go (l : list A) (i : Z) := match l with [] => None | a :: t => if f a then go t (i + 1)%Z else Some i end) l 0%Z.

(* ---------- LOESS ---------- *)
Definition eps_q : Q := 1 # (2 ^ 50)%positive.
Definition dedup_nat (l : list nat) : list nat := nodup Nat.eq_dec l.
(* q is a binary64 number: m * 2^e with |m| < 2^53, e >= -1074, below the overflow threshold.  When the
   exact value of a floating-point operation is such a number the operation is EXACT, the code's decision
   is the exact decision and NO borderline alternative is accepted (DESIGN 4.5 applies only where rounding
   can occur). *)
Definition f64_exact (q : Q) : bool :=
  let r := Qred q in
  match Qnum r with
  | Z0 => true
  | Zpos p | Zneg p =>
      let '(od, _) := pos_odd_part p 0 in
      let '(dd, k) := pos_odd_part (Qden r) 0 in
      Pos.eqb dd 1 && (Pos.size_nat od <=? 53)%nat && (k <=? 1074)%Z && Qle_bool (Qabs r) (two_pow 1023)
  end.
(* admissible window widths: ceil of span*n exactly; if the product span*float64(n) is not exact, also with
   the product moved by one part in 2^50 *)
Definition q_cands (n : nat) (span : Q) : list nat :=
  if f64_exact (span * Qofnat n) then [loess_q n span]
  else dedup_nat [loess_q n span; loess_q n (span * (1 - eps_q)); loess_q n (span * (1 + eps_q))].
(* the search predicate as the code evaluates it: xs[i]+xs[i+q] is exact when the sum is a binary64 number
   (then the comparison with x*2 is the exact one), otherwise within one part in 2^50 of the sum *)
Definition window_pred_fl (e : Q) (xs : list Q) (q : nat) (x : Q) (i : nat) : bool :=
  match nth_error xs i, nth_error xs (i + q) with
  | Some a, Some b =>
      let s := a + b in
      if f64_exact s && f64_exact (x * 2) then Qle_bool (x * 2) s else Qle_bool (x * 2) (s + e * Qabs s)
  | _, _ => true
  end.
Definition window_start_fl (e : Q) (xs : list Q) (q : nat) (x : Q) : nat :=
  if (q <? length xs)%nat then search (length xs - q) (window_pred_fl e xs q x) else O.
Definition n0_cands (xs : list Q) (q : nat) (x : Q) : list nat :=
  dedup_nat [window_start 0 xs q x; window_start_fl eps_q xs q x; window_start_fl (- eps_q) xs q x].

(* one query under one window decision: 0 agrees, 1 model singular or ill-conditioned (no claim), 2 disagrees.
   Same pieces as Model.loess_at (loess_design, monomials, the verified solver, polyF); the solver is
   called once with the extra right-hand sides that give kappa. *)
Definition loess_query (sx sy : list Q) (deg : Z) (q n0 : nat) (x : Q) (st : Z) (v : xreal) : Z :=
  match loess_design sx sy q n0 x with
  | FPanic => if (st =? 2)%Z then 0%Z else 2%Z
  | FSingular => 1%Z
  | FOk (cx, cy, w) =>
      if (length cx <? q)%nat then (if (st =? 2)%Z then 0%Z else 1%Z) else   (* slice out of range *)
      match fit_cond (monomials (Z.to_nat deg) cx) w cy with
      | None => 1%Z
      | Some (beta, kappa) =>
          if negb (st =? 0)%Z then 2%Z else
          match v, polyF beta x with
          | XFin o, Some e =>
              if Qle_bool kappa kappa_max then
                if within (tol_rel kappa * Qmaxabs beta * abs_powsum x (length beta)
                           + (1 # 1000000000000) * Qmaxabs cy) e o then 0%Z else 2%Z
              else 1%Z
          | _, _ => 2%Z
          end
      end
  end.

(* all queries under window width q: (worst code over queries taking the best admissible start,
   whether a non-exact start was needed, tag bits, first failing query) *)
Fixpoint loess_queries (sx sy : list Q) (deg : Z) (q : nat) (qs : list (Q * Z * xreal)) (i : Z)
  : bool * bool * Z * option Z :=
  match qs with
  | [] => (true, false, 0%Z, None)
  | (x, st, v) :: t =>
      let n0 := window_start 0 sx q x in
      let c0 := loess_query sx sy deg q n0 x st v in
      let alts := filter (fun m => negb (m =? n0)%nat) (n0_cands sx q x) in
      let calt := existsb (fun m => negb (loess_query sx sy deg q m x st v =? 2)%Z) alts in
      let ok := negb (c0 =? 2)%Z || calt in
      let border := (c0 =? 2)%Z && calt in
      let n := length sx in
      let tg := if (c0 =? 0)%Z && (st =? 0)%Z then
                  Z.lor T_LOESS
                    (Z.lor (bit ((0 <? n0)%nat && (n0 + q <? n)%nat) T_INTERIOR)
                           (bit ((q <? n)%nat && ((n0 =? 0)%nat || (n0 + q =? n)%nat)) T_EDGEWIN))
                else 0%Z in
      let '(ok', border', tg', bad) := loess_queries sx sy deg q t (i + 1)%Z in
      (ok && ok', border || border', Z.lor tg tg', if ok then bad else Some i)
  end.

Definition check_loess (xs ys : list Q) (deg : Z) (span : xreal) (st : Z) (qs : list (Q * Z * xreal)) (unmod : bool)
  : list Z :=
  let panics := match span with
                | XFin s => (deg <? 0)%Z || Qle_bool s 0
                | XInf neg => (deg <? 0)%Z || neg
                | XNaN => (deg <? 0)%Z
                end in
  if panics then (if (st =? 2)%Z then verdict V_OK 0 (-1) [] else verdict V_MISMATCH 0 0 [])
  else match span with
  | XFin s =>
      if negb (st =? 0)%Z then verdict V_MISMATCH 0 0 []
      else if negb unmod then verdict V_MISMATCH 0 1 []
      else
        let n := length xs in
        let '(sx, sy) := loess_prepare xs ys in
        let qe := loess_q n s in
        let base := Z.lor (Z.lor (bit (negb (sortedb xs)) T_UNSORTED) (bit (qe =? n)%nat T_FULL)) (bit (has_dup xs) T_DEGEN) in
        let '(ok, border, tg, bad) := loess_queries sx sy deg qe qs 0%Z in
        if ok then
          let nontrivial := negb (tg =? 0)%Z in
          verdict (if border then V_BORDERLINE else V_OK)
                  (if nontrivial then Z.lor (Z.lor T_LOESS base) (Z.lor tg (bit border T_BORDER)) else 0%Z) (-1) []
        else
          let alts := filter (fun m => negb (m =? qe)%nat) (q_cands n s) in
          if existsb (fun q => let '(ok', _, _, _) := loess_queries sx sy deg q qs 0%Z in ok') alts
          then verdict V_BORDERLINE (Z.lor (Z.lor T_LOESS base) T_BORDER) (-1) []
          else verdict V_MISMATCH (Z.lor T_LOESS base) (match bad with Some i => i + 2 | None => -1 end)%Z
                 (Z.of_nat qe ::
                  match bad with
                  | Some i => match nth_error qs (Z.to_nat i) with
                              | Some (x, _, _) =>
                                  let n0 := window_start 0 sx qe x in
                                  Z.of_nat n0 ::
                                  match loess_at sx sy deg qe n0 x with
                                  | FOk (_, e) => qdiag e | _ => [] end
                              | None => [] end
                  | None => [] end)
  | _ => verdict V_OK 0 (-1) []      (* span = +Inf / NaN, degree >= 0: outside the property *)
  end.

(* ---------- LLS / POLY ---------- *)
Definition lens_panic (nx : nat) (ys : list Q) (w : option (list Q)) : bool :=
  negb (nx =? length ys)%nat || match w with Some l => negb (nx =? length l)%nat | None => false end.

Definition check_lls (xs ys : list Q) (w : option (list Q)) (cols : list (list Q)) (st : Z) (ps : list xreal) (unmod : bool)
  : list Z :=
  let nx := length xs in
  if lens_panic nx ys w then (if (st =? 2)%Z then verdict V_OK 0 (-1) [] else verdict V_MISMATCH 0 0 [])
  else if negb (forallb (fun c => (length c =? nx)%nat) cols) then verdict V_MALFORMED 0 (-1) []
  else if negb (st =? 0)%Z then verdict V_MISMATCH 0 0 []
  else if negb unmod then verdict V_MISMATCH 0 5 []
  else
    let wl := weights_or_ones nx w in
    match fit_cond cols wl ys with
    | None => verdict V_OK 0 (-1) []                   (* singular design: outside the property *)
    | Some (beta, kap) =>
      let kappa := Some kap in
      let tag := Z.lor (Z.lor T_LLS (bit (match w with Some _ => true | None => false end) T_W)) (bit (degen xs wl) T_DEGEN) in
      match check_fit cols wl ys beta kappa ps with
      | (t, None) => verdict V_OK (Z.lor tag t) (-1) []
      | (t, Some (pos, diag)) => verdict V_MISMATCH (Z.lor tag t) pos diag
      end
    end.

Definition check_poly (xs ys : list Q) (w : option (list Q)) (deg : Z) (st : Z) (cs : list xreal)
  (qs : list (Q * xreal)) (lst : Z) (lps : list xreal) (unmod : bool) : list Z :=
  let nx := length xs in
  if (deg <? 0)%Z || lens_panic nx ys w then (if (st =? 2)%Z then verdict V_OK 0 (-1) [] else verdict V_MISMATCH 0 0 [])
  else if negb (st =? 0)%Z then verdict V_MISMATCH 0 0 []
  else if negb unmod then verdict V_MISMATCH 0 5 []
  else
    let wl := weights_or_ones nx w in
    let cols := monomials (Z.to_nat deg) xs in
    match fit_cond cols wl ys with
    | None => verdict V_OK 0 (-1) []                   (* singular design: outside the property *)
    | Some (beta, kap) =>
      let kappa := Some kap in
      let tag := Z.lor (Z.lor (Z.lor T_POLY (bit (match w with Some _ => true | None => false end) T_W)) (bit (3 <=? deg)%Z T_DEG3))
                       (bit (degen xs wl) T_DEGEN) in
      match check_fit cols wl ys beta kappa cs with
      | (t, Some (pos, diag)) => verdict V_MISMATCH (Z.lor tag t) pos diag
      | (t, None) =>
          (* the same through LinearLeastSquares on the monomial basis *)
          if negb (lst =? 0)%Z then verdict V_MISMATCH (Z.lor tag t) 6 [] else
          match check_fit cols wl ys beta kappa lps with
          | (_, Some (pos, diag)) => verdict V_MISMATCH (Z.lor tag t) (10 + pos) diag
          | (_, None) =>
              match all_fin cs with
              | None => verdict V_MISMATCH (Z.lor tag t) 1 []
              | Some beta_go =>
                  let model := match kappa with
                               | Some k => if (t =? 0)%Z then Some (beta, tol_rel k) else None
                               | None => None end in
                  match first_bad (F_ok beta_go model) qs with
                  | None => verdict V_OK (Z.lor tag t) (-1) []
                  | Some i => verdict V_MISMATCH (Z.lor tag t) (20 + i) []
                  end
              end
          end
      end
    end.

Definition check_C15 (line : list Z) : list Z :=
  match p_line line with
  | None => verdict V_MALFORMED 0 (-1) []
  | Some (CLls xs ys w cols st ps u, _) => check_lls xs ys w cols st ps u
  | Some (CPoly xs ys w deg st cs qs lst lps u, _) => check_poly xs ys w deg st cs qs lst lps u
  | Some (CLoess xs ys deg span st qs u, _) => check_loess xs ys deg span st qs u
  end.

(* Check/C16.v — correspondence comparator for C16 (Linear / Log scales, NewLog, QQ).
   Line formats (first integer 16, second the kind):

   kind 0  NewLog:   16 0 min max base  status rmin rmax rbase
           status 0 = nil error, 1 = RangeErr, 2 = another error; r* = fields of the result.

   kind 1  one scale: 16 1 skind min max hint r
                      nprobe { x x2 m0x m1x m0x2 ux }*   ngrid { x m0 }*
                      ny { y uy muy }*                    nygrid { y uy }*
           skind 0 Linear / 1 Log; hint = the integer b whose powers get closed forms;
           r = ratio of the shift law (x2 must equal x*r exactly; r = 0: no shift law);
           m0 = Map with Clamp off, m1 = Map after SetClamp(true), ux = Unmap(m0x),
           uy = Unmap(y), muy = Map(uy) (Clamp off).  Grids are ascending; their values are
           compared like the probes' (Map with Clamp off, Unmap).

   kind 2  QQ:       16 2 skind smin smax sclamp shint  dkind dmin dmax dclamp dhint
                      nx { x sm du qm back }*   ny { y dm su qu fwd }*
           sm = Src.Map(x), du = Dest.Unmap(sm), qm = QQ.Map(x), back = QQ.Unmap(qm);
           dm = Dest.Map(y), su = Src.Unmap(dm), qu = QQ.Unmap(y), fwd = QQ.Map(qu).

   Linear observables are compared with the exact rational model.  Log observables:
   the decision structure (NaN / 0.5 / clamped) exactly; the value exactly (to 1e-10)
   where it is rational (powers of the hint); everywhere the laws that the theorems of
   RealSpec/LogScale.v imply, evaluated on the implementation's own outputs. *)
From MM Require Import Base.Num Model.Scale.
From Coq Require Import Qround.
Local Open Scope Q_scope.

Definition e6 : Q := 1 # 1000000.
Definition e9 : Q := 1 # 1000000000.
Definition e10 : Q := 1 # 10000000000.
Definition e11 : Q := 1 # 100000000000.
Definition e12 : Q := 1 # 1000000000000.

(* tag bits *)
Definition T_LIN := 1%Z.      Definition T_LOG := 2%Z.     Definition T_EXACT := 4%Z.
Definition T_NAN := 8%Z.      Definition T_DEGEN := 16%Z.  Definition T_NEG := 32%Z.
Definition T_REV := 64%Z.     Definition T_CLAMPED := 128%Z. Definition T_UEXACT := 256%Z.
Definition T_QQ := 512%Z.     Definition T_INV := 1024%Z.  Definition T_SHIFT := 2048%Z.
Definition T_MONO := 4096%Z.
Definition T_QSRCLOG := 65536%Z.  Definition T_QDSTLOG := 131072%Z.

(* a check outcome: tag bits gathered, first failure (check id, diagnostics) *)
Definition outcome := (Z * option (Z * list Z))%type.
Definition ok (t : Z) : outcome := (t, None).
Definition failed (t id : Z) (d : list Z) : outcome := (t, Some (id, d)).
Definition andthen (a : outcome) (b : unit -> outcome) : outcome :=
  match a with
  | (t, Some f) => (t, Some f)
  | (t, None) => let '(t', f) := b tt in (Z.lor t t', f)
  end.
Notation "a >>> b" := (andthen a (fun _ => b)) (at level 61, left associativity).
Definition need (c : bool) (t id : Z) (d : list Z) : outcome := if c then ok t else failed t id d.

Definition xdiag (x : xreal) : list Z := match x with XFin q => qdiag q | XNaN => [0; 0]%Z | XInf _ => [1; 0]%Z end.

(* ---------- scales ---------- *)
Definition p_scale : parser (scale * Z) :=
  do k <- pZ; do mn <- pQ; do mx <- pQ; do h <- pZ;
  if (k =? 0)%Z then pret (SLin (mkLin mn mx false), h)
  else if (k =? 1)%Z then
    (* a Log scale must be one NewLog accepts (either order): non-zero ends of one sign *)
    if Qltb 0 (mn * mx) then pret (SLog (mkLog mn mx false), h) else (fun _ => None)
  else (fun _ => None).

Definition width (s : scale) : Q := sc_max s - sc_min s.
Definition sc_tags (s : scale) : Z :=
  Z.lor (match s with SLin _ => T_LIN | SLog _ => T_LOG end)
 (Z.lor (if Qltb (sc_min s) 0 then match s with SLog _ => T_NEG | _ => 0%Z end else 0%Z)
 (Z.lor (if Qltb (sc_max s) (sc_min s) then T_REV else 0%Z)
        (if Qeqb (sc_min s) (sc_max s) then T_DEGEN else 0%Z))).

(* lower bound of |ln max - ln min| for a Log scale: |max-min| / max(|min|,|max|) *)
Definition dlb (s : scale) : Q := Qabs (width s) / Qmaxb (Qabs (sc_min s)) (Qabs (sc_max s)).
(* upper bound: ln t <= log2 t + 1 <= bit-length difference *)
Definition dub (s : scale) : Q :=
  let a := Qminb (Qabs (sc_min s)) (Qabs (sc_max s)) in
  let b := Qmaxb (Qabs (sc_min s)) (Qabs (sc_max s)) in
  inject_Z (Z.log2 (Qceiling (b / a)) + 1).
(* tolerance (absolute, per unit of 1+|y|) of a Log.Map value: rounding of the two
   logarithms (<= 1e-13) divided by ln max - ln min *)
Definition tolm (s : scale) : Q :=
  match s with
  | SLin _ => e12
  | SLog _ => let d := dlb s in if Qleb d 0 then 1 else Qmaxb e9 (e11 / d)
  end.
(* conditioning good enough for the composite inverse laws (QQ) to be checked to 1e-9 *)
Definition well_cond (s : scale) : bool :=
  negb (Qeqb (sc_min s) (sc_max s)) &&
  match s with
  | SLin _ => Qleb (Qabs (sc_min s) + Qabs (sc_max s)) (1000 * Qabs (width s))
  | SLog _ => Qleb (1 # 100) (dlb s)
  end.

Definition direction (s : scale) : Q := if Qltb (sc_min s) (sc_max s) then 1 else -(1).

(* ---------- Map of one x, both clamp modes, and Unmap of the result ---------- *)
(* [m0] observed Map (Clamp off), [m1] observed after SetClamp(true), [ux] Unmap(m0) *)
Definition clamp_consistent (m0 m1 : xreal) : bool :=
  match m0 with XFin q => xeq (XFin (clampq q)) m1 | XNaN => is_nan m1 | XInf n => xeq (XFin (if n then 0 else 1)) m1 end.
Definition clamped_tag (m0 m1 : xreal) : Z := if xeq m0 m1 then 0%Z else T_CLAMPED.

Definition map_check (s : scale) (b : Z) (x : Q) (m0 : xreal) : outcome :=
  match s with
  | SLin l =>
      let e := lin_map l x in
      need (xwithin (e12 * (1 + Qabs e)) (XFin e) m0) 0 1 (qdiag e)
  | SLog g =>
      match log_map_dec g x with
      | LM_nan => need (is_nan m0) T_NAN 2 []
      | LM_half => need (xeq (XFin (1 # 2)) m0) 0 3 []
      | LM_val _ _ _ _ _ as d =>
          match m0 with
          | XFin q =>
              need (negb (Qeqb x (g_min g)) || within e12 0 q) 0 4 [] >>>
              need (negb (Qeqb x (g_max g)) || within e12 1 q) 0 5 [] >>>
              match lmap_exact b d with
              | Some (XFin e) => need (within (e10 * (1 + Qabs e)) e q) T_EXACT 6 (qdiag e)
              | _ => ok 0
              end
          | _ => failed 0 7 []
          end
      end
  end.

(* Unmap of an observed Map value: Linear exactly; Log: the inverse law to 1e-9 *)
Definition unmap_of_map_check (s : scale) (x : Q) (m0 ux : xreal) : outcome :=
  match s with
  | SLin l =>
      match m0 with
      | XFin m => let e := lin_unmap l m in
                  need (xwithin (e12 * (Qabs (m * width s) + Qabs (l_min l))) (XFin e) ux) 0 8 (qdiag e)
      | _ => failed 0 9 []
      end
  | SLog g =>
      match log_map_dec g x with
      | LM_nan => need (is_nan ux) 0 10 []
      | LM_half => need (xwithin (e9 * Qabs (g_min g)) (XFin (g_min g)) ux) 0 11 []
      | LM_val _ _ _ _ _ => need (xwithin (e9 * Qabs x) (XFin x) ux) T_INV 12 []
      end
  end.

Record probe := mkP { p_x : Q; p_x2 : Q; p_m0 : xreal; p_m1 : xreal; p_m02 : xreal; p_ux : xreal }.
Definition p_probe : parser probe :=
  do x <- pQ; do x2 <- pQ; do a <- pX; do b <- pX; do c <- pX; do d <- pX; pret (mkP x x2 a b c d).

Definition probe_check (s : scale) (b : Z) (r : Q) (p : probe) : outcome :=
  map_check s b (p_x p) (p_m0 p) >>>
  need (clamp_consistent (p_m0 p) (p_m1 p)) (clamped_tag (p_m0 p) (p_m1 p)) 13 [] >>>
  unmap_of_map_check s (p_x p) (p_m0 p) (p_ux p) >>>
  (if Qeqb r 0 then ok 0 else map_check s b (p_x2 p) (p_m02 p)).

(* shift law: Map(x r) - Map(x) is the same for every x of the right sign *)
Definition shift_delta (s : scale) (p : probe) : option Q :=
  match p_m0 p, p_m02 p with
  | XFin a, XFin c => Some (c - a)
  | _, _ => None
  end.
Fixpoint shift_check (s : scale) (first : option Q) (ps : list probe) : outcome :=
  match ps with
  | [] => ok 0
  | p :: t =>
      match shift_delta s p, first with
      | Some d, Some d0 =>
          match p_m0 p, p_m02 p with
          | XFin a, XFin c =>
              need (within (tolm s * (2 + Qabs a + Qabs c)) d0 d) T_SHIFT 14 (qdiag d0) >>> shift_check s first t
          | _, _ => shift_check s first t
          end
      | Some d, None => shift_check s (Some d) t
      | None, _ => shift_check s first t
      end
  end.

(* ---------- monotone on ascending grids ---------- *)
(* [gap a b] = is the step from a to b large enough for strictness to survive rounding *)
Fixpoint mono_check (dir : Q) (gap : Q -> Q -> bool) (g : list (Q * xreal)) : outcome :=
  match g with
  | (x1, v1) :: ((x2, v2) :: _) as t =>
      (match v1, v2 with
       | XFin a, XFin b =>
           if Qltb x1 x2 && gap x1 x2 then need (Qltb 0 (dir * (b - a))) T_MONO 15 [] else ok 0
       | _, _ => ok 0
       end) >>> mono_check dir gap t
  | _ => ok 0
  end.
Definition gap_x (s : scale) (a b : Q) : bool :=
  negb (Qeqb (sc_min s) (sc_max s)) &&
  Qleb (e6 * (Qabs a + Qabs b + Qabs (sc_min s))) (b - a).
Definition gap_y (s : scale) (a b : Q) : bool :=
  negb (Qeqb (sc_min s) (sc_max s)) &&
  match s with
  | SLin _ => Qleb (e6 * (Qabs (a * width s) + Qabs (b * width s) + Qabs (sc_min s))) ((b - a) * Qabs (width s))
  | SLog _ => Qleb e9 (dlb s * (b - a))
  end.

(* ---------- Unmap of one y, and Map of the result ---------- *)
Definition sign_ok (s : scale) (u : Q) : bool :=
  if Qltb (sc_min s) 0 then Qltb u 0 else Qltb 0 u.
Definition unmap_check (s : scale) (b : Z) (y : Q) (uy muy : xreal) : outcome :=
  match s with
  | SLin l =>
      let e := lin_unmap l y in
      need (xwithin (e12 * (Qabs (y * width s) + Qabs (l_min l))) (XFin e) uy) 0 16 (qdiag e) >>>
      match uy with
      | XFin u => let m := lin_map l u in need (xwithin (e12 * (1 + Qabs m)) (XFin m) muy) 0 17 (qdiag m)
      | _ => failed 0 18 []
      end
  | SLog g =>
      match uy with
      | XFin u =>
          need (sign_ok s u) 0 19 [] >>>
          (match lunmap_exact b e12 (log_unmap_dec g y) with
           | Some e => need (within (e9 * Qabs e) e u) T_UEXACT 20 (qdiag e)
           | None => ok 0
           end) >>>
          (if Qeqb (g_min g) (g_max g) then need (xeq (XFin (1 # 2)) muy) 0 21 []
           else need (xwithin (tolm s * (1 + Qabs y)) (XFin y) muy) T_INV 22 [])
      | _ => failed 0 23 []
      end
  end.

(* Unmap of one grid value y (the y-grid carries no Map back): the same value comparison *)
Definition unmap_value_check (s : scale) (b : Z) (y : Q) (uy : xreal) : outcome :=
  match s with
  | SLin l =>
      let e := lin_unmap l y in
      need (xwithin (e12 * (Qabs (y * width s) + Qabs (l_min l))) (XFin e) uy) 0 24 (qdiag e)
  | SLog g =>
      match uy with
      | XFin u =>
          need (sign_ok s u) 0 25 [] >>>
          (match lunmap_exact b e12 (log_unmap_dec g y) with
           | Some e => need (within (e9 * Qabs e) e u) T_UEXACT 26 (qdiag e)
           | None => ok 0
           end)
      | _ => failed 0 27 []
      end
  end.

(* ---------- folding over indexed lists ---------- *)
Fixpoint each {A} (f : A -> outcome) (l : list A) (i : Z) : Z * option (Z * Z * list Z) :=
  match l with
  | [] => (0%Z, None)
  | a :: t => match f a with
              | (tg, Some (id, d)) => (tg, Some (i, id, d))
              | (tg, None) => let '(tg', r) := each f t (i + 1)%Z in (Z.lor tg tg', r)
              end
  end.
Definition whole (o : outcome) : Z * option (Z * Z * list Z) :=
  match o with (t, Some (id, d)) => (t, Some ((-1)%Z, id, d)) | (t, None) => (t, None) end.
Definition seq2 (a : Z * option (Z * Z * list Z)) (b : unit -> Z * option (Z * Z * list Z)) :=
  match a with
  | (t, Some f) => (t, Some f)
  | (t, None) => let '(t', f) := b tt in (Z.lor t t', f)
  end.

(* position reported: 64 * index-in-list + check id (index -1: a whole-list law) *)
Definition finish (base : Z) (r : Z * option (Z * Z * list Z)) : list Z :=
  match r with
  | (t, None) => verdict V_OK (Z.lor base t) (-1) []
  | (t, Some (i, id, d)) => verdict V_MISMATCH (Z.lor base t) (64 * (i + 1) + id) d
  end.

(* ---------- kind 0: NewLog ---------- *)
Definition check_newlog : parser (list Z) :=
  do mn <- pX; do mx <- pX; do base <- pZ; do st <- pZ; do rmn <- pX; do rmx <- pX; do rb <- pZ;
  pend (match new_log mn mx base with
        | NL_rangeerr => if (st =? 1)%Z then verdict V_OK (if (base <=? 1)%Z then 8192 else 16384) (-1) []
                         else verdict V_MISMATCH 8192 1 [1%Z]
        | NL_ok a b c =>
            if negb (st =? 0)%Z then verdict V_MISMATCH 32768 1 [0%Z]
            else if xeq a rmn && xeq b rmx && (c =? rb)%Z then verdict V_OK (Z.lor 32768 (if xlt mx mn then T_REV else 0)) (-1) []
            else verdict V_MISMATCH 32768 2 (xdiag a ++ xdiag b ++ [c])
        end).

(* ---------- kind 1: one scale ---------- *)
Definition p_grid : parser (list (Q * xreal)) := plist (do x <- pQ; do v <- pX; pret (x, v)).
Definition p_yprobe : parser (Q * xreal * xreal) := do y <- pQ; do u <- pX; do m <- pX; pret (y, u, m).

Definition shift_ok (r : Q) (ps : list probe) : bool :=
  Qeqb r 0 || forallb (fun p => Qeqb (p_x2 p) (p_x p * r)) ps.

Definition check_scale : parser (list Z) :=
  do sh <- p_scale; let '(s, b) := sh in
  do r <- pQ;
  do ps <- plist p_probe; do g <- p_grid; do ys <- plist p_yprobe; do yg <- p_grid;
  if negb (shift_ok r ps) then (fun _ => None) else
  pend (finish (sc_tags s)
    (seq2 (each (probe_check s b r) ps 0%Z) (fun _ =>
     seq2 (whole (if Qeqb r 0 then ok 0 else shift_check s None ps)) (fun _ =>
     seq2 (whole (mono_check (direction s) (gap_x s) g)) (fun _ =>
     seq2 (each (fun t => let '(y, u, m) := t in unmap_check s b y u m) ys 1000%Z) (fun _ =>
     seq2 (whole (mono_check (direction s) (gap_y s) yg)) (fun _ =>
     (* the grid values themselves, not only their order *)
     seq2 (each (fun t => map_check s b (fst t) (snd t)) g 2000%Z) (fun _ =>
           each (fun t => unmap_value_check s b (fst t) (snd t)) yg 3000%Z)))))))).

(* ---------- kind 2: QQ ---------- *)
Record qprobe := mkQ { q_x : xreal; q_sm : xreal; q_du : xreal; q_qm : xreal; q_back : xreal }.
Definition p_qprobe : parser qprobe :=
  do x <- pQ; do a <- pX; do b <- pX; do c <- pX; do d <- pX; pret (mkQ (XFin x) a b c d).

(* tolerance of an exact QQ.Map value [v] with intermediate Map value [m] *)
Definition tol_qq (dst : scale) (m : xreal) (v : Q) : Q :=
  match dst, m with
  | SLin l, XFin m => e9 * (Qabs (m * width dst) + Qabs (l_min l) + Qabs (width dst))
  | _, _ => e9 * Qabs v
  end.

Definition inside (s : scale) (x : Q) : bool :=
  Qleb (Qminb (sc_min s) (sc_max s)) x && Qleb x (Qmaxb (sc_min s) (sc_max s)).

(* tolerance of a Map value: as in map_check *)
Definition tol_sm (src : scale) (m : Q) : Q := (match src with SLin _ => e12 | SLog _ => e10 end) * (1 + Qabs m).

(* one probe of the map src -> dst (QQ.Map), or with the roles swapped (QQ.Unmap) *)
Definition qq_check (src dst : scale) (bs bd : Z) (p : qprobe) : outcome :=
  (* composition, on the implementation's own component outputs: bit-for-bit *)
  need (xeq (q_du p) (q_qm p)) T_QQ 30 (xdiag (q_du p)) >>>
  (* the source's own Map value, where it is rational *)
  (match sc_map_exact bs src (q_x p) with
   | Some (XFin m) => need (xwithin (tol_sm src m) (XFin m) (q_sm p)) 0 34 (qdiag m)
   | Some XNaN => need (is_nan (q_sm p)) 0 35 []
   | _ => ok 0
   end) >>>
  (* the exact composite where it is rational *)
  (match sc_map_exact bs src (q_x p) with
   | Some m =>
       match sc_unmap_exact bd e12 dst m with
       | Some (XFin v) => need (xwithin (tol_qq dst m v) (XFin v) (q_qm p))
                               (match src, dst with SLin _, SLin _ => 0%Z | _, _ => T_EXACT end) 31 (qdiag v)
       | Some XNaN => need (is_nan (q_qm p)) T_NAN 32 []
       | _ => ok 0
       end
   | None => ok 0
   end) >>>
  (* mutual inverse: Unmap (Map x) = x wherever no clamp interferes *)
  (match q_x p, q_sm p with
   | XFin x, XFin m =>
       (* the property quantifies Unmap over y in [-5,5] *)
       if Qleb (Qabs m) 5 && well_cond src && well_cond dst && ((negb (sc_clamp src) && negb (sc_clamp dst)) || inside src x)
       then need (xwithin (e9 * (1 + Qabs m) * (match src with SLog _ => 1 + dub src | _ => 1 end)
                              * (Qabs x + Qabs (sc_min src) + Qabs (sc_max src))) (XFin x) (q_back p)) T_INV 33 []
       else ok 0
   | _, _ => ok 0
   end).

Definition p_cscale : parser (scale * Z) :=
  do k <- pZ; do mn <- pQ; do mx <- pQ; do c <- pbool; do h <- pZ;
  if (k =? 0)%Z then pret (SLin (mkLin mn mx c), h)
  else if (k =? 1)%Z then
    if Qltb 0 (mn * mx) then pret (SLog (mkLog mn mx c), h) else (fun _ => None)
  else (fun _ => None).

Definition check_qq : parser (list Z) :=
  do sh <- p_cscale; let '(src, bs) := sh in
  do dh <- p_cscale; let '(dst, bd) := dh in
  do xs <- plist p_qprobe; do ys <- plist p_qprobe;
  pend (finish (Z.lor T_QQ (Z.lor (Z.lor (sc_tags src) (sc_tags dst))
                 (Z.lor (match src with SLog _ => T_QSRCLOG | _ => 0%Z end) (match dst with SLog _ => T_QDSTLOG | _ => 0%Z end))))
    (seq2 (each (qq_check src dst bs bd) xs 0%Z) (fun _ =>
           each (qq_check dst src bd bs) ys 1000%Z))).

Definition check_C16 (line : list Z) : list Z :=
  match line with
  | 16%Z :: 0%Z :: r => match check_newlog r with Some (v, _) => v | None => verdict V_MALFORMED 0 (-1) [] end
  | 16%Z :: 1%Z :: r => match check_scale r with Some (v, _) => v | None => verdict V_MALFORMED 0 (-1) [] end
  | 16%Z :: 2%Z :: r => match check_qq r with Some (v, _) => v | None => verdict V_MALFORMED 0 (-1) [] end
  | _ => verdict V_MALFORMED 0 (-1) []
  end.

(* Check/C17.v — correspondence comparator for C17 (FindLevel, Linear and Log ticks, Nice).
   Line formats (first integer 17, second the kind):

   kind 0  FindLevel with a harness-defined ticker:
           17 0 max minlevel maxlevel guess  wlo n v_0 .. v_{n-1} left right   ok level
           count(l) = left for l < wlo, v_{l-wlo} inside the window, right for l >= wlo+n.

   kind 1  Linear / kind 2 Log scale:
           17 k base min max  omax minlevel maxlevel
              st nmajor major.. nminor minor..                      Ticks(o)      (st 0 ok, 2 panic)
              nlev { level count st nticks tick.. }*                CountTicks / TicksAtLevel (st 3: TicksAtLevel not called)
              nomax nminlevel nmaxlevel                             the options o' of Nice and of the calls after it
              st nmin nmax map(nmin) map(nmax)  st nmin2 nmax2      Nice(o') once (then Map of the new ends), twice
              st nmajor' major'..                                   Ticks(o') after Nice(o')

   Floor/ceil decisions within rounding distance of their threshold are "borderline"
   (DESIGN 4.5).  Every group of observables is first compared with the exact model (code 0).
   Only when that fails, the ADMISSIBLE SET is consulted: the model's outcome with each
   floor/ceil whose argument lies within the window [near_round] of an integer taken either
   way (Linear), each undecided slack decision of [log_exps] taken either way and each
   candidate minor tick within 1e-12 (relative) of a domain end kept or dropped (Log).  A member
   of that set is accepted as borderline (code 1); anything else is a mismatch.

   Groups (the position reported with a mismatch):
     10 Ticks(o)   20 CountTicks/TicksAtLevel per level (and CountTicks = len TicksAtLevel)
     21 the observed CountTicks values are non-increasing in the level
     30 Nice(o)    35 Nice never shrinks the domain, new ends finite (observed values, every Max)
     (Nice and the calls after it use the options o' recorded in the line; o' = o except where o
     reaches levels whose spacing overflows float64)
     36 Ticks(o') after Nice on the same object = the model's Ticks on the OBSERVED niced domain
     37 second Nice(o) = the model's Nice on the observed niced domain (every Max)
     40 idempotent (Max >= 3)   41 first/last major tick after Nice are the new ends (Max >= 3,
        Nice found a level and both candidate ends of that level are finite float64 values)
     43 Map(new Min) = 0, Map(new Max) = 1
     45 Nice added at most one major tick spacing at each end (Max >= 3; spacing = distance /
        ratio of the first two and of the last two observed major ticks after Nice) *)
From Coq Require Import Qround.
From MM Require Import Base.Num Model.Ticks.
Local Open Scope Q_scope.

Definition e9 : Q := 1 # 1000000000.
Definition e12 : Q := 1 # 1000000000000.

(* ---------- kind 0: FindLevel ---------- *)
Definition table_cnt (wlo : Z) (vs : list Z) (lft rgt : Z) (l : Z) : Z :=
  if (l <? wlo)%Z then lft else nth (Z.to_nat (l - wlo)) vs rgt.

Record flcase := mkFl { fc_o : tickopts; fc_guess : Z; fc_wlo : Z; fc_vs : list Z; fc_left : Z; fc_right : Z;
                        fc_ok : Z; fc_lev : Z }.
Definition p_flcase : parser flcase :=
  do mx <- pZ; do minl <- pZ; do maxl <- pZ; do guess <- pZ;
  do wlo <- pZ; do vs <- plist pZ; do lft <- pZ; do rgt <- pZ;
  do ok <- pZ; do lev <- pZ;
  pret (mkFl (mkOpts mx minl maxl) guess wlo vs lft rgt ok lev).
Definition fc_cnt (c : flcase) : Z -> Z := table_cnt (fc_wlo c) (fc_vs c) (fc_left c) (fc_right c).

Definition judge_findlevel (c : flcase) : list Z :=
  let o := fc_o c in let guess := fc_guess c in let ok := fc_ok c in let lev := fc_lev c in
  match find_level o (fc_cnt c) guess with
  | FL_ok l =>
      let s := match level_bounds o with
               | Some (lo, hi) => if (guess <? lo)%Z then lo else if (hi <? guess)%Z then hi else guess
               | None => 0%Z end in
      let tag := (if (l <=? s)%Z then 1 else 2)%Z in
      if (ok =? 1)%Z && (lev =? l)%Z then verdict V_OK tag (-1) [] else verdict V_MISMATCH tag 0 [1%Z; l]
  | FL_fail =>
      let tag := match level_bounds o with None => 0%Z | Some _ => if (o_max o <? 1)%Z then 0%Z else 4%Z end in
      if (ok =? 0)%Z && (lev =? 0)%Z then verdict V_OK tag (-1) [] else verdict V_MISMATCH tag 0 [0%Z; 0%Z]
  | FL_fuel => verdict V_MISMATCH 0 0 [2%Z]
  end.
Definition check_findlevel : parser (list Z) := do c <- p_flcase; pend (judge_findlevel c).

(* ---------- shared: comparing tick lists ---------- *)
Fixpoint close_list (tol : Q -> Q) (exp : list Q) (obs : list xreal) : bool :=
  match exp, obs with
  | [], [] => true
  | e :: et, XFin o :: ot => within (tol e) e o && close_list tol et ot
  | _, _ => false
  end.
(* the same with OPTIONAL expected elements (flag true): an optional element may be missing
   from the observation; everything observed must still be an expected element, in order *)
Fixpoint close_list_opt (tol : Q -> Q) (exp : list (Q * bool)) (obs : list xreal) : bool :=
  match exp with
  | [] => match obs with [] => true | _ => false end
  | (e, opt) :: et =>
      match obs with
      | XFin o :: ot => if within (tol e) e o then close_list_opt tol et ot else opt && close_list_opt tol et obs
      | [] => opt && close_list_opt tol et []
      | _ => false
      end
  end.

Record levobs := mkLev { lv_level : Z; lv_count : Z; lv_st : Z; lv_ticks : list xreal }.
Definition p_lev : parser levobs := do l <- pZ; do c <- pZ; do st <- pZ; do t <- plist pX; pret (mkLev l c st t).

Record scobs := mkSc {
  so_st : Z; so_major : list xreal; so_minor : list xreal;
  so_levels : list levobs;
  so_no : tickopts;
  so_nst : Z; so_nmin : xreal; so_nmax : xreal; so_map0 : xreal; so_map1 : xreal;
  so_nst2 : Z; so_nmin2 : xreal; so_nmax2 : xreal;
  so_st3 : Z; so_major3 : list xreal }.
Definition p_scobs : parser scobs :=
  do st <- pZ; do ma <- plist pX; do mi <- plist pX; do lv <- plist p_lev;
  do nomax <- pZ; do nminl <- pZ; do nmaxl <- pZ;
  do nst <- pZ; do a <- pX; do b <- pX; do m0 <- pX; do m1 <- pX; do nst2 <- pZ; do a2 <- pX; do b2 <- pX;
  do st3 <- pZ; do ma3 <- plist pX;
  pret (mkSc st ma mi lv (mkOpts nomax nminl nmaxl) nst a b m0 m1 nst2 a2 b2 st3 ma3).

(* a scale case: inputs and observations *)
Record sccase := mkCase { sc_base : Z; sc_mn : Q; sc_mx : Q; sc_o : tickopts; sc_ob : scobs }.
Definition p_sccase : parser sccase :=
  do base <- pZ; do mn <- pQ; do mx <- pQ; do omax <- pZ; do minl <- pZ; do maxl <- pZ;
  do ob <- p_scobs;
  pret (mkCase base mn mx (mkOpts omax minl maxl) ob).

Definition first_last (l : list xreal) : option (xreal * xreal) :=
  match l with [] => None | x :: _ => Some (x, last l x) end.
Definition first_two (l : list xreal) : option (Q * Q) :=
  match l with XFin x :: XFin y :: _ => Some (x, y) | _ => None end.
Definition last_two (l : list xreal) : option (Q * Q) :=
  match rev l with XFin y :: XFin x :: _ => Some (x, y) | _ => None end.

(* verdict assembly.  A group of observables yields a code: 0 the exact model's outcome was
   observed, 1 not that but a member of the admissible set (only computed then), 2 neither. *)
Definition grp (exact : bool) (adm : unit -> bool) : Z := if exact then 0%Z else if adm tt then 1%Z else 2%Z.
Definition law (holds amb : bool) : Z := if holds then 0%Z else if amb then 1%Z else 2%Z.
Fixpoint first_code (c : Z) (l : list (Z * Z)) : option Z :=
  match l with [] => None | (k, p) :: t => if (c <=? k)%Z then Some p else first_code c t end.
Definition conclude (tag : Z) (gs : list (Z * Z)) : list Z :=
  match first_code 2 gs with
  | Some p => verdict V_MISMATCH tag p []
  | None => match first_code 1 gs with
            | Some p => verdict V_BORDERLINE tag p []
            | None => verdict V_OK tag (-1) []
            end
  end.

(* CountTicks is non-increasing in the level: on the observed counts themselves (levels ascending) *)
Fixpoint counts_noninc (l : list levobs) : bool :=
  match l with
  | a :: ((b :: _) as t) => ((lv_level b <? lv_level a)%Z || (lv_count b <=? lv_count a)%Z) && counts_noninc t
  | _ => true
  end.

Definition zrange (a : Z) (n : nat) : list Z := map (fun i => (a + Z.of_nat i)%Z) (seq 0 n).
Definition zmin_list (l : list Z) : Z := match l with [] => 0%Z | x :: t => fold_left Z.min t x end.
Definition zmax_list (l : list Z) : Z := match l with [] => 0%Z | x :: t => fold_left Z.max t x end.

(* ---------- kind 1: Linear ---------- *)
(* an integer lies within eps of q: floor/ceil of the float quantity may land on either side *)
Definition near_round (q : Q) : option Z :=
  let q := Qred q in
  let n := qfl (q + (1 # 2)) in
  if Qleb (Qabs (q - inject_Z n)) ((4 # 1000000000000000) * (1 + Qabs q)) then Some n else None.
Definition near_int (q : Q) : bool := match near_round q with Some _ => true | None => false end.
(* admissible values of floor(q) / ceil(q) computed in floats *)
Definition floor_adm (q : Q) : list Z := match near_round q with Some n => [(n - 1)%Z; n] | None => [qfl q] end.
Definition ceil_adm (q : Q) : list Z := match near_round q with Some n => [n; (n + 1)%Z] | None => [qcl q] end.
Definition lin_first_last_adm (mn mx sp : Q) (roundOut : bool) : list Z * list Z :=
  let slack := (mx - mn) * slack_factor in
  if roundOut then (floor_adm ((mn + slack) / sp), ceil_adm ((mx - slack) / sp))
  else (ceil_adm ((mn - slack) / sp), floor_adm ((mx + slack) / sp)).
Definition lin_cnt_max (base eb : Z) (mn mx : Q) (roundOut : bool) (l : Z) : Z :=
  let '(F, L) := lin_first_last_adm mn mx (lin_spacing base eb l) roundOut in (zmax_list L - zmin_list F + 1)%Z.
(* the observed list is the level's tick list for an admissible pair (first, last) [and the
   reported count is that pair's] *)
Definition lin_at_adm (base eb : Z) (mn mx : Q) (tolv : Q -> Q) (l : Z) (cnt : option Z) (obs : list xreal) : bool :=
  let sp := lin_spacing base eb l in
  let '(F, L) := lin_first_last_adm mn mx sp false in
  existsb (fun f => existsb (fun la =>
     match cnt with Some c => (c =? la - f + 1)%Z | None => true end &&
     (* never enumerate a huge level (the guard is an [if]: vm_compute evaluates both sides of &&) *)
     (if (la - f + 1 =? Z.of_nat (length obs))%Z then close_list tolv (tick_seq (Z.to_nat (la - f + 1)) f sp) obs else false)) L) F.
(* no level fits, admissibly: the exact search found level c close to the top of the window and
   every level from c up may have more than Max ticks *)
Definition lin_none_adm (o : tickopts) (base eb : Z) (mn mx : Q) (roundOut : bool) (hi : Z) (r : flres) : bool :=
  match r with
  | FL_ok c => if (hi - c <=? 3)%Z
               then forallb (fun l => (o_max o <? lin_cnt_max base eb mn mx roundOut l)%Z) (zrange c (Z.to_nat (hi - c + 1)))
               else false
  | _ => false
  end.
(* Ticks(o), admissibly: for a level L of the window near the exact one, major is an admissible
   tick list of level L with at most Max elements, minor one of level L-1 with more than Max
   elements unless L is the lowest level allowed (the finest level that fits) *)
Definition lin_ticks_adm (o : tickopts) (base eb : Z) (mn mx : Q) (tolv : Q -> Q) (r : flres)
    (major : list xreal) (minor : option (list xreal)) : bool :=
  match level_bounds o with
  | None => false
  | Some (lo, hi) =>
      (1 <=? o_max o)%Z &&
      (let c := match r with FL_ok l => l | _ => (hi + 1)%Z end in
       if existsb (fun L => (lo <=? L)%Z && (L <=? hi)%Z && (Z.of_nat (length major) <=? o_max o)%Z &&
                  lin_at_adm base eb mn mx tolv L None major &&
                  match minor with
                  | Some mi => ((L =? lo)%Z || (o_max o <? Z.of_nat (length mi))%Z) &&
                               lin_at_adm base eb mn mx tolv (L - 1) None mi
                  | None => (L =? lo)%Z || (o_max o <? lin_cnt_max base eb mn mx false (L - 1))%Z
                  end) (zrange (c - 3) 7)
       then true
       else if match major, minor with [], None => true | [], Some [] => true | _, _ => false end
            then lin_none_adm o base eb mn mx false hi r else false)
  end.
(* Nice(o) on the ordered (widened) domain [smn, smx], admissibly *)
Definition lin_nice_adm (o : tickopts) (base eb : Z) (smn smx : Q) (tolv : Q -> Q) (rn : flres) (a b : Q) : bool :=
  match level_bounds o with
  | None => false
  | Some (lo, hi) =>
      (1 <=? o_max o)%Z &&
      (let c := match rn with FL_ok l => l | _ => (hi + 1)%Z end in
       if existsb (fun L => (lo <=? L)%Z && (L <=? hi)%Z &&
                  ((L =? lo)%Z || (o_max o <? lin_cnt_max base eb smn smx true (L - 1))%Z) &&
                  let sp := lin_spacing base eb L in
                  let '(F, La) := lin_first_last_adm smn smx sp true in
                  existsb (fun f => existsb (fun la =>
                     (la - f + 1 <=? o_max o)%Z &&
                     let nmn := inject_Z f * sp in let nmx := inject_Z la * sp in
                     let x := if f64_fin nmn && Qleb nmn smn then nmn else smn in
                     let y := if f64_fin nmx && Qleb smx nmx then nmx else smx in
                     within (tolv x) x a && within (tolv y) y b) La) F) (zrange (c - 3) 7)
       then true
       else if within (tolv smn) smn a && within (tolv smx) smx b then lin_none_adm o base eb smn smx true hi rn else false)
  end.

(* Above level [lin_cap] the spacing eb^(l/2) >= 2^(l/2) exceeds 8 (|mn| + |mx| + 1), so the
   floors and ceilings of linear.go:99-103 no longer change: the count is constant.  The level
   search runs on the capped count so that a search that climbs to level 1000 (no level fits)
   does not form 10^500 a thousand times. *)
Definition lin_cap (mn mx : Q) : Z := 2 * (Z.log2 (Qceiling (Qabs mn + Qabs mx + 1)) + 3).
Definition lin_count_capped (base eb : Z) (mn mx : Q) (roundOut : bool) (level : Z) : Z :=
  lin_count base eb mn mx roundOut (Z.min level (lin_cap mn mx)).

(* the model's Ticks / Nice given the result of the level search (computed once per call:
   Proofs.CheckC17.lin_ticks_from_eq, lin_nice_from_eq: these ARE lin_ticks_gen, lin_nice_gen) *)
Definition lin_order (mn mx : Q) : Q * Q := if Qltb mx mn then (mx, mn) else (mn, mx).
Definition lin_start (mn mx : Q) : Q * Q :=
  if Qeqb mn mx then (mn - (1 # 2), mx + (1 # 2)) else lin_order mn mx.
Definition lin_search (o : tickopts) (base eb : Z) (mn mx : Q) (roundOut : bool) : flres :=
  find_level o (lin_count_capped base eb mn mx roundOut) 0.
Definition lin_ticks_from (base eb : Z) (mn mx : Q) (o : tickopts) (r : flres) : ticks_res :=
  if (o_max o <=? 0)%Z then TR_none
  else if Qeqb mn mx then TR_ticks [mn] [mn]
  else let '(a, b) := lin_order mn mx in
       match r with
       | FL_ok l => TR_ticks (lin_ticks_at base eb a b false l) (lin_ticks_at base eb a b false (l - 1))
       | _ => TR_none
       end.
Definition lin_nice_from (base eb : Z) (smn smx : Q) (rn : flres) : Q * Q :=
  match rn with
  | FL_ok l =>
      let sp := lin_spacing base eb l in
      let '(f, la) := lin_first_last smn smx sp true in
      let nmn := inject_Z f * sp in let nmx := inject_Z la * sp in
      (if f64_fin nmn && Qleb nmn smn then nmn else smn, if f64_fin nmx && Qleb smx nmx then nmx else smx)
  | _ => (smn, smx)
  end.

(* both candidate ends of the level Nice chose are finite float64 values (at a level whose spacing
   overflows float64 only the multiple 0 is): only then can the laws "first and last major tick
   are the new ends" / "at most one spacing added" be demanded *)
Definition lin_nice_rep_b (base eb : Z) (smn smx : Q) (rn : flres) : bool :=
  match rn with
  | FL_ok l => let sp := lin_spacing base eb l in
               let '(f, la) := lin_first_last smn smx sp true in
               f64_fin (inject_Z f * sp) && f64_fin (inject_Z la * sp)
  | _ => false
  end.

Definition ticks_exact (t : ticks_res) (st : Z) (tolv : Q -> Q) (major : list xreal) (minor : option (list xreal)) : bool :=
  match t with
  | TR_ticks ma mi => (st =? 0)%Z && close_list tolv ma major &&
                      match minor with Some m => close_list tolv mi m | None => true end
  | TR_none => (st =? 0)%Z && match major, minor with [], None => true | [], Some [] => true | _, _ => false end
  | TR_panic => (st =? 2)%Z
  end.

(* CountTicks returns int(lastN - firstN + 1) computed in float64, saturated at maxInt = 2^63 - 1
   (linear.go CountTicks): compared exactly up to 1000 ticks (where the tick list is compared too,
   with the admissible set for a floor/ceil within rounding of an integer); beyond that - levels
   far below the natural one - each of the two floor/ceil may fall either way and the two float
   quotients are rounded (their magnitude is up to 1e3 times the count):
   |difference| <= 2 + 1e-9 count allowed *)
Definition count_ok (c obs : Z) : bool :=
  let cs := Z.min c MAXINT in
  (obs =? cs)%Z || ((1000 <? c)%Z && (Z.abs (obs - cs) <=? 2 + c / 1000000000)%Z).
(* status 3 = the harness did not call TicksAtLevel (it does so when CountTicks reports more than
   2000 ticks): accepted only where the MODEL's count exceeds 1000; otherwise a tick list of
   exactly the model's count is demanded and compared *)
Definition lin_level_exact (base eb : Z) (mn mx : Q) (tolv : Q -> Q) (lv : levobs) : bool :=
  let l := lv_level lv in
  let c := lin_count base eb mn mx false l in
  count_ok c (lv_count lv) &&
  if (lv_st lv =? 3)%Z then (1000 <? c)%Z && match lv_ticks lv with [] => true | _ => false end
  else (lv_st lv =? 0)%Z &&
       (* the model's list is only formed when it has the observed length ([if]: vm_compute evaluates both sides of &&) *)
       (if (c =? Z.of_nat (length (lv_ticks lv)))%Z then close_list tolv (lin_ticks_at base eb mn mx false l) (lv_ticks lv) else false).
Definition lin_level_adm (base eb : Z) (mn mx : Q) (tolv : Q -> Q) (lv : levobs) : bool :=
  if (lv_st lv =? 0)%Z && (lv_count lv =? Z.of_nat (length (lv_ticks lv)))%Z
  then lin_at_adm base eb mn mx tolv (lv_level lv) (Some (lv_count lv)) (lv_ticks lv) else false.

(* is one of the floor/ceil decisions at this level within the window? (evidence tag only) *)
Definition lin_amb_level (base eb : Z) (mn mx : Q) (roundOut : bool) (level : Z) : bool :=
  let sp := lin_spacing base eb level in
  let slack := (mx - mn) * slack_factor in
  if roundOut then near_int ((mn + slack) / sp) || near_int ((mx - slack) / sp)
  else near_int ((mn - slack) / sp) || near_int ((mx + slack) / sp).

Definition judge_linear (c : sccase) : list Z :=
  let base := sc_base c in let mn := sc_mn c in let mx := sc_mx c in let o := sc_o c in let ob := sc_ob c in
  let omax := o_max o in
  let no := so_no ob in let nomax := o_max no in
  let w := Qabs (mx - mn) in
  let w := if Qeqb w 0 then 1 else w in
  let tolv := fun v : Q => e9 * Qabs v + e9 * w in
  let reversed := Qltb mx mn in
  let degenerate := Qeqb mn mx in
  match lin_ebase base with
  | None =>
      (* Base = 1 or negative (outside the property's bases): ebase panics wherever a level is
         needed; Nice has then already widened/ordered the domain, so Ticks afterwards panics too *)
      conclude 0
        [ (law (if (omax <=? 0)%Z || degenerate then (so_st ob =? 0)%Z else (so_st ob =? 2)%Z) false, 1%Z);
          (law (so_nst ob =? 2)%Z false, 2%Z);
          (law (so_nst2 ob =? 2)%Z false, 3%Z);
          (law (if (nomax <=? 0)%Z then (so_st3 ob =? 0)%Z else (so_st3 ob =? 2)%Z) false, 4%Z) ]
  | Some eb =>
      let '(a, b) := lin_order mn mx in
      let r := if degenerate then FL_fail else lin_search o base eb a b false in
      let g10 := grp (ticks_exact (lin_ticks_from base eb mn mx o r) (so_st ob) tolv (so_major ob) (Some (so_minor ob)))
                     (fun _ => if negb degenerate && (so_st ob =? 0)%Z
                               then lin_ticks_adm o base eb a b tolv r (so_major ob) (Some (so_minor ob)) else false) in
      (* per-level CountTicks / TicksAtLevel *)
      let g20 := grp (forallb (lin_level_exact base eb mn mx tolv) (so_levels ob))
                     (fun _ => forallb (fun lv => lin_level_exact base eb mn mx tolv lv || lin_level_adm base eb mn mx tolv lv)
                                       (so_levels ob)) in
      let g21 := law (counts_noninc (so_levels ob)) (1 <=? g20)%Z in
      (* Nice *)
      let '(na, nb) := lin_start mn mx in
      let rn := lin_search no base eb na nb true in
      let '(x, y) := lin_nice_from base eb na nb rn in
      let changed := negb (Qeqb x na && Qeqb y nb) in
      let found := match rn with FL_ok _ => true | _ => false end in
      let rep := lin_nice_rep_b base eb na nb rn in
      let tag0 := Z.lor (match r with FL_ok _ => 1 | _ => 0 end)
                 (Z.lor (if reversed then 2 else 0)
                 (Z.lor (if degenerate then 4 else 0)
                 (Z.lor (if found then 8 else 0)
                 (Z.lor (if changed then 16 else 0)
                 (Z.lor (if negb (o_minlevel o =? 0)%Z || negb (o_maxlevel o =? 0)%Z then 32 else 0)
                        (if (base =? 0)%Z then 0 else 64))))))%Z in
      let amb := match r with FL_ok l => lin_amb_level base eb a b false l || lin_amb_level base eb a b false (l - 1) | _ => false end
                 || match rn with FL_ok l => lin_amb_level base eb na nb true l | _ => false end in
      let tag := Z.lor tag0 (if amb then 128 else 0)%Z in
      match so_nmin ob, so_nmax ob with
      | XFin ao, XFin bo =>
          let g30 := grp ((so_nst ob =? 0)%Z && within (tolv x) x ao && within (tolv y) y bo)
                         (fun _ => if (so_nst ob =? 0)%Z then lin_nice_adm no base eb na nb tolv rn ao bo else false) in
          (* on observed values: the domain never shrinks *)
          let g35 := law (Qleb ao a && Qleb b bo) false in
          (* the object after Nice holds [ao, bo]: Ticks(o) on it, and Nice(o) once more *)
          let deg3 := Qeqb ao bo in
          let '(a3, b3) := lin_order ao bo in
          let r3 := if deg3 then FL_fail else lin_search no base eb a3 b3 false in
          let g36 := grp (ticks_exact (lin_ticks_from base eb ao bo no r3) (so_st3 ob) tolv (so_major3 ob) None)
                         (fun _ => if negb deg3 && (so_st3 ob =? 0)%Z then lin_ticks_adm no base eb a3 b3 tolv r3 (so_major3 ob) None else false) in
          let '(na3, nb3) := lin_start ao bo in
          let rn3 := lin_search no base eb na3 nb3 true in
          let '(x3, y3) := lin_nice_from base eb na3 nb3 rn3 in
          let g37 := grp ((so_nst2 ob =? 0)%Z && xwithin (tolv x3) (XFin x3) (so_nmin2 ob) && xwithin (tolv y3) (XFin y3) (so_nmax2 ob))
                         (fun _ => (so_nst2 ob =? 0)%Z &&
                                   match so_nmin2 ob, so_nmax2 ob with
                                   | XFin a2, XFin b2 => lin_nice_adm no base eb na3 nb3 tolv rn3 a2 b2
                                   | _, _ => false end) in
          (* laws on the observed values (Max >= 3); a borderline Nice / Ticks-after-Nice makes them borderline *)
          let bl := (1 <=? g30)%Z || (1 <=? g36)%Z || (1 <=? g37)%Z in
          let g40 := law ((nomax <? 3)%Z ||
                          ((so_nst2 ob =? 0)%Z && xwithin (tolv ao) (XFin ao) (so_nmin2 ob) && xwithin (tolv bo) (XFin bo) (so_nmax2 ob))) bl in
          let g41 := law ((nomax <? 3)%Z || negb rep ||
                          match first_last (so_major3 ob) with
                          | Some (f, l) => xwithin (tolv ao) (XFin ao) f && xwithin (tolv bo) (XFin bo) l
                          | None => false
                          end) bl in
          let g43 := law (Qeqb ao bo || (xwithin e12 (XFin 0) (so_map0 ob) && xwithin e12 (XFin 1) (so_map1 ob))) false in
          let g45 := law ((nomax <? 3)%Z || negb rep ||
                          match first_two (so_major3 ob), last_two (so_major3 ob) with
                          | Some (t0, t1), Some (u0, u1) =>
                              Qleb (na - ao) (t1 - t0 + tolv ao) && Qleb (bo - nb) (u1 - u0 + tolv bo)
                          | _, _ => false
                          end) bl in
          conclude tag [(g10, 10%Z); (g20, 20%Z); (g21, 21%Z); (g30, 30%Z); (g35, 35%Z); (g36, 36%Z); (g37, 37%Z);
                        (g40, 40%Z); (g41, 41%Z); (g43, 43%Z); (g45, 45%Z)]
      | _, _ => conclude tag [(2%Z, 42%Z)]
      end
  end.
Definition check_linear : parser (list Z) := do c <- p_sccase; pend (judge_linear c).

(* ---------- kind 2: Log ---------- *)
(* a candidate minor tick within 1e-12 (relative) of a domain end without being equal to it *)
Definition near_end (tick emin emax : Q) : bool :=
  (negb (Qeqb tick emin) && Qleb (Qabs (tick - emin)) (e12 * emin)) ||
  (negb (Qeqb tick emax) && Qleb (Qabs (tick - emax)) (e12 * emax)).
Fixpoint minor_amb_run (cnt : nat) (i : Z) (step emin emax : Q) : bool :=
  match cnt with
  | O => false
  | S j => near_end (inject_Z i * step) emin emax || minor_amb_run j (i + 1)%Z step emin emax
  end.
Fixpoint minor_amb (n : nat) (b f : Z) (emin emax : Q) : bool :=
  match n with
  | O => false
  | S m => minor_amb_run (Z.to_nat (b - 1)) 1 (qpow b f) emin emax || minor_amb m b (f + 1)%Z emin emax
  end.
(* the minor ticks with the ones near an end marked optional (and present even if just outside) *)
Fixpoint minor_run_opt (cnt : nat) (i : Z) (step emin emax : Q) : list (Q * bool) :=
  match cnt with
  | O => []
  | S j => let tick := inject_Z i * step in
           (if near_end tick emin emax then [(tick, true)]
            else if Qleb emin tick && Qleb tick emax then [(tick, false)] else [])
           ++ minor_run_opt j (i + 1)%Z step emin emax
  end.
Fixpoint minor_seq_opt (n : nat) (b f : Z) (emin emax : Q) : list (Q * bool) :=
  match n with
  | O => []
  | S m => minor_run_opt (Z.to_nat (b - 1)) 1 (qpow b f) emin emax ++ minor_seq_opt m b (f + 1)%Z emin emax
  end.
Definition log_at_opt (b : Z) (e : logexp) (neg : bool) (emin emax : Q) (roundOut : bool) (level : Z) : list (Q * bool) :=
  let t := if (level <? 0)%Z then
             let '(f, l) := log_first_last e true 0 in minor_seq_opt (Z.to_nat (l - f + 1)) b f emin emax
           else
             let '(f, l) := log_first_last e roundOut level in
             map (fun q => (q, false)) (pow_seq (Z.to_nat (l - f + 1)) b f (2 ^ level)%Z) in
  if neg then rev (map (fun p => (- fst p, snd p)) t) else t.

(* every way to take the undecided (N_border) slack decisions of log_exps *)
Definition near_choices (n : near3) (vin vout : Z) : list Z :=
  match n with N_inside => [vin] | N_outside => [vout] | N_border => [vin; vout] end.
Definition log_exps_adm (b : Z) (emin emax : Q) : list logexp :=
  let t := emax / emin in
  let mu := log_mu emin emax in
  let fmin := floor_log b emin in let cmin := ceil_log b emin in
  let fmax := floor_log b emax in let cmax := ceil_log b emax in
  let n1 := near (qpow b fmin) emin t mu in
  let n2 := near emax (qpow b cmax) t mu in
  let n3 := near emin (qpow b cmin) t mu in
  let n4 := near (qpow b fmax) emax t mu in
  flat_map (fun i1 => flat_map (fun i2 => flat_map (fun i3 => map (fun i4 => mkLE i1 i2 i3 i4 false)
    (near_choices n4 fmax cmax)) (near_choices n3 cmin fmin)) (near_choices n2 cmax fmax)) (near_choices n1 fmin cmin).

(* above level [log_cap] 2^level exceeds every admitted exponent in absolute value, so
   firstN and lastN (quotients by 2^level) no longer change: the count is constant *)
Definition log_cap (e : logexp) : Z :=
  Z.log2 (Z.abs (le_in_lo e) + Z.abs (le_in_hi e) + Z.abs (le_out_lo e) + Z.abs (le_out_hi e) + 1) + 2.
Definition log_count_capped (e : logexp) (roundOut : bool) (level : Z) : Z :=
  log_count e roundOut (Z.min level (log_cap e)).

(* the model's Ticks / Nice given the exponents and the result of the level search
   (Proofs.CheckC17.log_ticks_from_eq, log_nice_from_eq: these ARE log_ticks_gen, log_nice_gen) *)
Definition log_search (o : tickopts) (e : logexp) (roundOut : bool) : flres :=
  find_level o (log_count_capped e roundOut) 0.
Definition log_ticks_from (b : Z) (mn mx : Q) (o : tickopts) (e : logexp) (neg : bool) (emin emax : Q) (r : flres) : ticks_res :=
  if (o_max o <=? 0)%Z then TR_none
  else if Qeqb mn mx then TR_ticks [mn] [mx]
  else match r with
       | FL_ok l => TR_ticks (log_ticks_at' b e neg emin emax false l) (log_ticks_at' b e neg emin emax false (l - 1))
       | _ => TR_none
       end.
Definition log_nice_from (b : Z) (mn mx : Q) (e : logexp) (neg : bool) (emin emax : Q) (rn : flres) : Q * Q :=
  if Qeqb mn mx then (mn, mx) else
  match rn with
  | FL_ok l =>
      let '(f, la) := log_first_last e true l in
      let k := (2 ^ l)%Z in
      let nmn := qpow b (f * k) in let nmx := qpow b (la * k) in
      let nemin := if log_end_ok b k f nmn && Qleb nmn emin then nmn else emin in
      let nemax := if log_end_ok b k la nmx && Qleb emax nmx then nmx else emax in
      if neg then (- nemax, - nemin) else (nemin, nemax)
  | _ => (mn, mx)
  end.

(* Ticks(o) for one admissible choice of the exponents, minor ticks near an end optional *)
Definition log_ticks_adm1 (o : tickopts) (b : Z) (neg : bool) (emin emax : Q) (tolv : Q -> Q)
    (major : list xreal) (minor : option (list xreal)) (e' : logexp) : bool :=
  match log_search o e' false with
  | FL_ok l => close_list_opt tolv (log_at_opt b e' neg emin emax false l) major &&
               match minor with Some mi => close_list_opt tolv (log_at_opt b e' neg emin emax false (l - 1)) mi | None => true end
  | _ => match major, minor with [], None => true | [], Some [] => true | _, _ => false end
  end.
Definition log_level_exact (b : Z) (e : logexp) (neg : bool) (emin emax : Q) (tolv : Q -> Q) (lv : levobs) : bool :=
  let l := lv_level lv in
  (lv_st lv =? 0)%Z && (lv_count lv =? log_count e false l)%Z &&
  close_list tolv (log_ticks_at' b e neg emin emax false l) (lv_ticks lv).
Definition log_level_adm1 (b : Z) (neg : bool) (emin emax : Q) (tolv : Q -> Q) (lv : levobs) (e' : logexp) : bool :=
  let l := lv_level lv in
  (lv_st lv =? 0)%Z && (lv_count lv =? log_count e' false l)%Z &&
  ((l <? 0)%Z || (lv_count lv =? Z.of_nat (length (lv_ticks lv)))%Z) &&
  close_list_opt tolv (log_at_opt b e' neg emin emax false l) (lv_ticks lv).

Definition log_nice_rep_b (b : Z) (e : logexp) (rn : flres) : bool :=
  match rn with
  | FL_ok l => let '(f, la) := log_first_last e true l in
               let k := (2 ^ l)%Z in
               log_end_ok b k f (qpow b (f * k)) && log_end_ok b k la (qpow b (la * k))
  | _ => false
  end.

(* a Log scale as NewLog returns it: base >= 2, Min <= Max, non-zero ends of one sign *)
Definition log_pre (base : Z) (mn mx : Q) : bool := (2 <=? base)%Z && Qleb mn mx && Qltb 0 (mn * mx).

(* spacing law 45 on a positive (folded) domain: the new ends lie within one ratio of
   neighbouring major ticks of the old ones *)
Definition xs_fin (l : list xreal) : option (list Q) :=
  fold_right (fun x acc => match x, acc with XFin q, Some t => Some (q :: t) | _, _ => None end) (Some []) l.
Definition log_law45 (neg : bool) (emin emax a' b' : Q) (major3 : list xreal) : bool :=
  match xs_fin major3 with
  | None => false
  | Some t =>
      let t := if neg then rev (map Qopp t) else t in
      match t, rev t with
      | t0 :: t1 :: _, u1 :: u0 :: _ =>
          Qleb (emin * t0) (a' * t1 * (1 + e9)) && Qleb (b' * u0) (emax * u1 * (1 + e9))
      | _, _ => false
      end
  end.

Definition judge_log (c : sccase) : list Z :=
  let base := sc_base c in let mn := sc_mn c in let mx := sc_mx c in let o := sc_o c in let ob := sc_ob c in
  let omax := o_max o in
  let no := so_no ob in let nomax := o_max no in
  let tolv := fun v : Q => e9 * Qabs v in
  let '(neg, emin, emax) := log_fold mn mx in
  let e := log_exps base emin emax in
  let degenerate := Qeqb mn mx in
  let r := if degenerate then FL_fail else log_search o e false in
  let rn := if degenerate then FL_fail else log_search no e true in
  let found := match rn with FL_ok _ => true | _ => false end in
  let rep := log_nice_rep_b base e rn in
  let '(f0, l0) := log_first_last e true 0 in
  let uses_minor := match r with FL_ok l => (l <=? 0)%Z | _ => false end in
  let mamb := if uses_minor || existsb (fun lv => (lv_level lv <? 0)%Z) (so_levels ob)
              then minor_amb (Z.to_nat (l0 - f0 + 1)) base f0 emin emax else false in
  let adm := fun _ : unit => if le_amb e then log_exps_adm base emin emax else [e] in
  let g10 := grp (ticks_exact (log_ticks_from base mn mx o e neg emin emax r) (so_st ob) tolv (so_major ob) (Some (so_minor ob)))
                 (fun u => negb degenerate && (1 <=? omax)%Z && (so_st ob =? 0)%Z &&
                           existsb (log_ticks_adm1 o base neg emin emax tolv (so_major ob) (Some (so_minor ob))) (adm u)) in
  let g20 := grp (forallb (log_level_exact base e neg emin emax tolv) (so_levels ob))
                 (fun u => negb degenerate &&
                           forallb (fun lv => log_level_exact base e neg emin emax tolv lv ||
                                              existsb (log_level_adm1 base neg emin emax tolv lv) (adm u)) (so_levels ob)) in
  let g21 := law (counts_noninc (so_levels ob)) (1 <=? g20)%Z in
  let '(x, y) := log_nice_from base mn mx e neg emin emax rn in
  let changed := negb (Qeqb x mn && Qeqb y mx) in
  let tag := Z.lor 256
            (Z.lor (match r with FL_ok l => if (l =? 0)%Z then 1 else 512 | _ => 0 end)
            (Z.lor (if neg then 2 else 0)
            (Z.lor (if degenerate then 4 else 0)
            (Z.lor (if found then 8 else 0)
            (Z.lor (if changed then 16 else 0)
            (Z.lor (if negb (o_minlevel o =? 0)%Z || negb (o_maxlevel o =? 0)%Z then 32 else 0)
                   (if le_amb e || mamb then 128 else 0)))))))%Z in
  match so_nmin ob, so_nmax ob with
  | XFin ao, XFin bo =>
      let g30 := grp ((so_nst ob =? 0)%Z && within (tolv x) x ao && within (tolv y) y bo)
                     (fun u => negb degenerate && (so_nst ob =? 0)%Z &&
                               existsb (fun e' => let '(x', y') := log_nice_from base mn mx e' neg emin emax (log_search no e' true) in
                                                  within (tolv x') x' ao && within (tolv y') y' bo) (adm u)) in
      let g35 := law (Qleb ao mn && Qleb mx bo) false in
      if negb (Qleb ao bo && Qltb 0 (ao * bo)) then conclude tag [(g10, 10%Z); (g20, 20%Z); (g21, 21%Z); (g30, 30%Z); (g35, 35%Z); (2%Z, 42%Z)] else
      (* the object after Nice holds [ao, bo] *)
      let '(neg3, emin3, emax3) := log_fold ao bo in
      let e3 := log_exps base emin3 emax3 in
      let deg3 := Qeqb ao bo in
      let r3 := if deg3 then FL_fail else log_search no e3 false in
      let rn3 := if deg3 then FL_fail else log_search no e3 true in
      let adm3 := fun _ : unit => if le_amb e3 then log_exps_adm base emin3 emax3 else [e3] in
      let g36 := grp (ticks_exact (log_ticks_from base ao bo no e3 neg3 emin3 emax3 r3) (so_st3 ob) tolv (so_major3 ob) None)
                     (fun u => negb deg3 && (1 <=? nomax)%Z && (so_st3 ob =? 0)%Z &&
                               existsb (log_ticks_adm1 no base neg3 emin3 emax3 tolv (so_major3 ob) None) (adm3 u)) in
      let '(x3, y3) := log_nice_from base ao bo e3 neg3 emin3 emax3 rn3 in
      let g37 := grp ((so_nst2 ob =? 0)%Z && xwithin (tolv x3) (XFin x3) (so_nmin2 ob) && xwithin (tolv y3) (XFin y3) (so_nmax2 ob))
                     (fun u => negb deg3 && (so_nst2 ob =? 0)%Z &&
                               match so_nmin2 ob, so_nmax2 ob with
                               | XFin a2, XFin b2 =>
                                   existsb (fun e' => let '(x', y') := log_nice_from base ao bo e' neg3 emin3 emax3 (log_search no e' true) in
                                                      within (tolv x') x' a2 && within (tolv y') y' b2) (adm3 u)
                               | _, _ => false end) in
      let bl := (1 <=? g30)%Z || (1 <=? g36)%Z || (1 <=? g37)%Z in
      let g40 := law ((nomax <? 3)%Z ||
                      ((so_nst2 ob =? 0)%Z && xwithin (tolv ao) (XFin ao) (so_nmin2 ob) && xwithin (tolv bo) (XFin bo) (so_nmax2 ob))) bl in
      let g41 := law ((nomax <? 3)%Z || negb rep ||
                      match first_last (so_major3 ob) with
                      | Some (f, l) => xwithin (tolv ao) (XFin ao) f && xwithin (tolv bo) (XFin bo) l
                      | None => false
                      end) bl in
      let g43 := law (Qeqb ao bo || (xwithin e12 (XFin 0) (so_map0 ob) && xwithin e12 (XFin 1) (so_map1 ob))) false in
      let g45 := law ((nomax <? 3)%Z || negb rep || log_law45 neg emin emax emin3 emax3 (so_major3 ob)) bl in
      conclude tag [(g10, 10%Z); (g20, 20%Z); (g21, 21%Z); (g30, 30%Z); (g35, 35%Z); (g36, 36%Z); (g37, 37%Z);
                    (g40, 40%Z); (g41, 41%Z); (g43, 43%Z); (g45, 45%Z)]
  | _, _ => conclude tag [(2%Z, 42%Z)]
  end.
Definition check_log : parser (list Z) :=
  do c <- p_sccase;
  if negb (log_pre (sc_base c) (sc_mn c) (sc_mx c)) then (fun _ => None) else pend (judge_log c).

Definition check_C17 (line : list Z) : list Z :=
  match line with
  | 17%Z :: 0%Z :: r => match check_findlevel r with Some (v, _) => v | None => verdict V_MALFORMED 0 (-1) [] end
  | 17%Z :: 1%Z :: r => match check_linear r with Some (v, _) => v | None => verdict V_MALFORMED 0 (-1) [] end
  | 17%Z :: 2%Z :: r => match check_log r with Some (v, _) => v | None => verdict V_MALFORMED 0 (-1) [] end
  | _ => verdict V_MALFORMED 0 (-1) []
  end.

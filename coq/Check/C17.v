(* Check/C17.v — correspondence comparator for C17 (FindLevel, Linear and Log ticks, Nice).
   Line formats (first integer 17, second the kind):

   kind 0  FindLevel with a harness-defined ticker:
           17 0 max minlevel maxlevel guess  wlo n v_0 .. v_{n-1} left right   ok level
           count(l) = left for l < wlo, v_{l-wlo} inside the window, right for l >= wlo+n.

   kind 1  Linear / kind 2 Log scale:
           17 k base min max  omax minlevel maxlevel
              st nmajor major.. nminor minor..                      Ticks(o)      (st 0 ok, 2 panic)
              nlev { level count st nticks tick.. }*                CountTicks / TicksAtLevel
              st nmin nmax map(nmin) map(nmax)  st nmin2 nmax2      Nice(o) once (then Map of the new ends), twice
              st nmajor' major'..                                   Ticks(o) after Nice(o)

   Floor/ceil decisions within rounding distance of their threshold are "borderline"
   (DESIGN 4.5): when the observed result differs from the exact model's AND such a decision
   lies on the path, the case is counted as borderline instead of mismatch. *)
From Coq Require Import Qround.
From MM Require Import Base.Num Model.Ticks.
Local Open Scope Q_scope.

Definition e9 : Q := 1 # 1000000000.
Definition e12 : Q := 1 # 1000000000000.

(* ---------- kind 0: FindLevel ---------- *)
Definition table_cnt (wlo : Z) (vs : list Z) (lft rgt : Z) (l : Z) : Z :=
  if (l <? wlo)%Z then lft else nth (Z.to_nat (l - wlo)) vs rgt.

Definition check_findlevel : parser (list Z) :=
  do mx <- pZ; do minl <- pZ; do maxl <- pZ; do guess <- pZ;
  do wlo <- pZ; do vs <- plist pZ; do lft <- pZ; do rgt <- pZ;
  do ok <- pZ; do lev <- pZ;
  let o := mkOpts mx minl maxl in
  let cnt := table_cnt wlo vs lft rgt in
  pend (match find_level o cnt guess with
        | FL_ok l =>
            let s := match level_bounds o with
                     | Some (lo, hi) => if (guess <? lo)%Z then lo else if (hi <? guess)%Z then hi else guess
                     | None => 0%Z end in
            let tag := (if (l <=? s)%Z then 1 else 2)%Z in
            if (ok =? 1)%Z && (lev =? l)%Z then verdict V_OK tag (-1) [] else verdict V_MISMATCH tag 0 [1%Z; l]
        | FL_fail =>
            let tag := match level_bounds o with None => 0%Z | Some _ => if (mx <? 1)%Z then 0%Z else 4%Z end in
            if (ok =? 0)%Z && (lev =? 0)%Z then verdict V_OK tag (-1) [] else verdict V_MISMATCH tag 0 [0%Z; 0%Z]
        | FL_fuel => verdict V_MISMATCH 0 0 [2%Z]
        end).

(* ---------- shared: comparing tick lists ---------- *)
Fixpoint close_list (tol : Q -> Q) (exp : list Q) (obs : list xreal) : bool :=
  match exp, obs with
  | [], [] => true
  | e :: et, XFin o :: ot => within (tol e) e o && close_list tol et ot
  | _, _ => false
  end.

Record levobs := mkLev { lv_level : Z; lv_count : Z; lv_st : Z; lv_ticks : list xreal }.
Definition p_lev : parser levobs := do l <- pZ; do c <- pZ; do st <- pZ; do t <- plist pX; pret (mkLev l c st t).

Record scobs := mkSc {
  so_st : Z; so_major : list xreal; so_minor : list xreal;
  so_levels : list levobs;
  so_nst : Z; so_nmin : xreal; so_nmax : xreal; so_map0 : xreal; so_map1 : xreal;
  so_nst2 : Z; so_nmin2 : xreal; so_nmax2 : xreal;
  so_st3 : Z; so_major3 : list xreal }.
Definition p_scobs : parser scobs :=
  do st <- pZ; do ma <- plist pX; do mi <- plist pX; do lv <- plist p_lev;
  do nst <- pZ; do a <- pX; do b <- pX; do m0 <- pX; do m1 <- pX; do nst2 <- pZ; do a2 <- pX; do b2 <- pX;
  do st3 <- pZ; do ma3 <- plist pX;
  pret (mkSc st ma mi lv nst a b m0 m1 nst2 a2 b2 st3 ma3).

Definition first_last (l : list xreal) : option (xreal * xreal) :=
  match l with [] => None | x :: _ => Some (x, last l x) end.

(* verdict assembly: [checks] = list of (passed, position); first failure decides *)
Fixpoint first_fail (l : list (bool * Z)) : option Z :=
  match l with [] => None | (true, _) :: t => first_fail t | (false, p) :: _ => Some p end.
Definition conclude (tag : Z) (amb : bool) (checks : list (bool * Z)) : list Z :=
  match first_fail checks with
  | None => verdict V_OK tag (-1) []
  | Some p => if amb then verdict V_BORDERLINE tag p [] else verdict V_MISMATCH tag p []
  end.

(* laws on the implementation's own outputs after Nice (any Max >= 3): idempotent, and the
   first and last major tick of the niced scale are its bounds *)
Definition nice_laws (omax : Z) (found : bool) (tolv : Q -> Q) (ob : scobs) : list (bool * Z) :=
  match so_nmin ob, so_nmax ob with
  | XFin a, XFin b =>
      [ ((omax <? 3)%Z ||
         ((so_nst2 ob =? 0)%Z && xwithin (tolv a) (XFin a) (so_nmin2 ob) && xwithin (tolv b) (XFin b) (so_nmax2 ob)), 40%Z);
        ((omax <? 3)%Z || negb found || Qeqb a b ||
         match first_last (so_major3 ob) with
         | Some (f, l) => xwithin (tolv a) (XFin a) f && xwithin (tolv b) (XFin b) l
         | None => false
         end, 41%Z);
        (* the niced object is a consistent scale: Map(new Min) = 0, Map(new Max) = 1 *)
        (Qeqb a b || (xwithin e12 (XFin 0) (so_map0 ob) && xwithin e12 (XFin 1) (so_map1 ob)), 43%Z) ]
  | _, _ => [(false, 42%Z)]
  end.

(* ---------- kind 1: Linear ---------- *)
(* an integer lies within eps of q: floor/ceil of the float quantity may land on either side *)
Definition near_int (q : Q) : bool :=
  let q := Qred q in
  let n := qfl (q + (1 # 2)) in
  Qleb (Qabs (q - inject_Z n)) ((4 # 1000000000000000) * (1 + Qabs q)).
Definition lin_amb_level (base eb : Z) (mn mx : Q) (roundOut : bool) (level : Z) : bool :=
  let sp := lin_spacing base eb level in
  let slack := (mx - mn) * slack_factor in
  if roundOut then near_int ((mn + slack) / sp) || near_int ((mx - slack) / sp)
  else near_int ((mn - slack) / sp) || near_int ((mx + slack) / sp).
Fixpoint amb_window (f : Z -> bool) (n : nat) (l : Z) : bool :=
  match n with O => false | S k => f l || amb_window f k (l + 1)%Z end.
(* A floor/ceil within rounding of its threshold can change a count by one (two decisions:
   by two).  That matters for the level search only at a level whose exact count is within 2
   of Max, and for the tick values at the chosen level and the one below.  The levels between
   the code's guess and the outcome lie within [c-6, c+12]; clipped to the level window. *)
Definition lin_amb (o : tickopts) (base eb : Z) (mn mx : Q) (roundOut : bool) (r : flres) : bool :=
  match level_bounds o with
  | None => false
  | Some (lo, hi) =>
      let c := match r with FL_ok l => l | _ => hi end in
      let a := Z.max lo (c - 6) in let b := Z.min hi (c + 12) in
      amb_window (fun l => ((Z.abs (lin_count base eb mn mx roundOut l - o_max o) <=? 2)%Z || (l =? c)%Z || (l =? c - 1)%Z)
                           && lin_amb_level base eb mn mx roundOut l) (Z.to_nat (b - a + 1)) a
  end.

(* Above level [lin_cap] the spacing eb^(l/2) >= 2^(l/2) exceeds 8 (|mn| + |mx| + 1), so the
   floors and ceilings of linear.go:99-103 no longer change: the count is constant.  The level
   search runs on the capped count so that a search that climbs to level 1000 (no level fits)
   does not form 10^500 a thousand times. *)
Definition lin_cap (mn mx : Q) : Z := 2 * (Z.log2 (Qceiling (Qabs mn + Qabs mx + 1)) + 3).
Definition lin_count_capped (base eb : Z) (mn mx : Q) (roundOut : bool) (level : Z) : Z :=
  lin_count base eb mn mx roundOut (Z.min level (lin_cap mn mx)).

Definition lin_level_check (base eb : Z) (mn mx : Q) (tolv : Q -> Q) (lv : levobs) : bool * bool :=
  let l := lv_level lv in
  let amb := lin_amb_level base eb mn mx false l in
  let c := lin_count base eb mn mx false l in
  let ok := (lv_st lv =? 0)%Z && (lv_count lv =? c)%Z && close_list tolv (lin_ticks_at base eb mn mx false l) (lv_ticks lv) in
  (ok, amb).

Definition check_linear : parser (list Z) :=
  do base <- pZ; do mn <- pQ; do mx <- pQ; do omax <- pZ; do minl <- pZ; do maxl <- pZ;
  do ob <- p_scobs;
  let o := mkOpts omax minl maxl in
  let w := Qabs (mx - mn) in
  let w := if Qeqb w 0 then 1 else w in
  let tolv := fun v : Q => e9 * Qabs v + e9 * w in
  let reversed := Qltb mx mn in
  let '(a, b) := if reversed then (mx, mn) else (mn, mx) in
  pend (match lin_ebase base with
        | None =>
            (* Base = 1 or negative: ebase panics wherever a level is needed *)
            let degenerate := Qeqb mn mx in
            conclude 0 false
              [ (if (omax <=? 0)%Z || degenerate then (so_st ob =? 0)%Z else (so_st ob =? 2)%Z, 1%Z);
                ((so_nst ob =? 2)%Z, 2%Z) ]
        | Some eb =>
            let r := if Qeqb mn mx then FL_fail else find_level o (lin_count_capped base eb a b false) 0 in
            let amb_t := if Qeqb mn mx then false else lin_amb o base eb a b false r in
            let t := lin_ticks_gen lin_count_capped base mn mx o 0 in
            let ticks_ok :=
              match t with
              | TR_ticks ma mi => (so_st ob =? 0)%Z && close_list tolv ma (so_major ob) && close_list tolv mi (so_minor ob)
              | TR_none => (so_st ob =? 0)%Z && match so_major ob, so_minor ob with [], [] => true | _, _ => false end
              | TR_panic => (so_st ob =? 2)%Z
              end in
            (* per-level CountTicks / TicksAtLevel *)
            let lv := map (lin_level_check base eb mn mx tolv) (so_levels ob) in
            let lv_ok := forallb fst lv in let lv_amb := existsb snd lv in
            (* Nice *)
            let '(na, nb) := if Qeqb mn mx then (mn - (1 # 2), mx + (1 # 2)) else (a, b) in
            let rn := find_level o (lin_count_capped base eb na nb true) 0 in
            let amb_n := lin_amb o base eb na nb true rn in
            let nice_ok :=
              match lin_nice_gen lin_count_capped base mn mx o 0 with
              | NR_dom x y => (so_nst ob =? 0)%Z && xwithin (tolv x) (XFin x) (so_nmin ob) && xwithin (tolv y) (XFin y) (so_nmax ob)
              | NR_panic => (so_nst ob =? 2)%Z
              end in
            let changed := match lin_nice_gen lin_count_capped base mn mx o 0 with NR_dom x y => negb (Qeqb x na && Qeqb y nb) | _ => false end in
            let tag := Z.lor (match r with FL_ok _ => 1 | _ => 0 end)
                      (Z.lor (if reversed then 2 else 0)
                      (Z.lor (if Qeqb mn mx then 4 else 0)
                      (Z.lor (match rn with FL_ok _ => 8 | _ => 0 end)
                      (Z.lor (if changed then 16 else 0)
                      (Z.lor (if negb (minl =? 0)%Z || negb (maxl =? 0)%Z then 32 else 0)
                      (Z.lor (if (base =? 0)%Z then 0 else 64)
                             (if amb_t || amb_n || lv_amb then 128 else 0)))))))%Z in
            match first_fail [(ticks_ok, 10%Z)] with
            | Some p => if amb_t then verdict V_BORDERLINE tag p [] else verdict V_MISMATCH tag p []
            | None =>
              match first_fail [(lv_ok, 20%Z)] with
              | Some p => if lv_amb then verdict V_BORDERLINE tag p [] else verdict V_MISMATCH tag p []
              | None =>
                match first_fail [(nice_ok, 30%Z)] with
                | Some p => if amb_n then verdict V_BORDERLINE tag p [] else verdict V_MISMATCH tag p []
                | None => conclude tag amb_n (nice_laws omax (match rn with FL_ok _ => true | _ => false end) tolv ob)
                end
              end
            end
        end).

(* ---------- kind 2: Log ---------- *)
(* a candidate minor tick within 1e-12 (relative) of a domain end without being equal to it *)
Fixpoint minor_amb_run (cnt : nat) (i : Z) (step emin emax : Q) : bool :=
  match cnt with
  | O => false
  | S j => let tick := inject_Z i * step in
           (negb (Qeqb tick emin) && Qleb (Qabs (tick - emin)) (e12 * emin)) ||
           (negb (Qeqb tick emax) && Qleb (Qabs (tick - emax)) (e12 * emax)) ||
           minor_amb_run j (i + 1)%Z step emin emax
  end.
Fixpoint minor_amb (n : nat) (b f : Z) (emin emax : Q) : bool :=
  match n with
  | O => false
  | S m => minor_amb_run (Z.to_nat (b - 1)) 1 (qpow b f) emin emax || minor_amb m b (f + 1)%Z emin emax
  end.

(* above level [log_cap] 2^level exceeds every admitted exponent in absolute value, so
   firstN and lastN (quotients by 2^level) no longer change: the count is constant *)
Definition log_cap (e : logexp) : Z :=
  Z.log2 (Z.abs (le_in_lo e) + Z.abs (le_in_hi e) + Z.abs (le_out_lo e) + Z.abs (le_out_hi e) + 1) + 2.
Definition log_count_capped (e : logexp) (roundOut : bool) (level : Z) : Z :=
  log_count e roundOut (Z.min level (log_cap e)).

Definition check_log : parser (list Z) :=
  do base <- pZ; do mn <- pQ; do mx <- pQ; do omax <- pZ; do minl <- pZ; do maxl <- pZ;
  do ob <- p_scobs;
  (* a Log scale as NewLog returns it: base >= 2, Min <= Max, non-zero ends of one sign *)
  if negb ((2 <=? base)%Z && Qleb mn mx && Qltb 0 (mn * mx)) then (fun _ => None) else
  let o := mkOpts omax minl maxl in
  let tolv := fun v : Q => e9 * Qabs v in
  let '(neg, emin, emax) := log_fold mn mx in
  let e := log_exps base emin emax in
  let degenerate := Qeqb mn mx in
  let r := if degenerate then FL_fail else find_level o (log_count_capped e false) 0 in
  let rn := if degenerate then FL_fail else find_level o (log_count_capped e true) 0 in
  let '(f0, l0) := log_first_last e true 0 in
  let uses_minor := match r with FL_ok l => (l <=? 0)%Z | _ => false end in
  let mamb := if uses_minor || existsb (fun lv => (lv_level lv <? 0)%Z) (so_levels ob)
              then minor_amb (Z.to_nat (l0 - f0 + 1)) base f0 emin emax else false in
  let amb_t := negb degenerate && (le_amb e || (uses_minor && mamb)) in
  let ticks_ok :=
    match log_ticks_gen log_count_capped base mn mx o with
    | TR_ticks ma mi => (so_st ob =? 0)%Z && close_list tolv ma (so_major ob) && close_list tolv mi (so_minor ob)
    | TR_none => (so_st ob =? 0)%Z && match so_major ob, so_minor ob with [], [] => true | _, _ => false end
    | TR_panic => false
    end in
  let lv := map (fun lv => let l := lv_level lv in
                   ((lv_st lv =? 0)%Z && (lv_count lv =? log_count e false l)%Z &&
                    close_list tolv (log_ticks_at' base e neg emin emax false l) (lv_ticks lv),
                    le_amb e || ((l <? 0)%Z && mamb))) (so_levels ob) in
  let lv_ok := forallb fst lv in let lv_amb := existsb snd lv in
  let '(x, y) := log_nice_gen log_count_capped base mn mx o in
  let nice_ok := (so_nst ob =? 0)%Z && xwithin (tolv x) (XFin x) (so_nmin ob) && xwithin (tolv y) (XFin y) (so_nmax ob) in
  let changed := negb (Qeqb x mn && Qeqb y mx) in
  let amb_n := negb degenerate && le_amb e in
  let tag := Z.lor 256
            (Z.lor (match r with FL_ok l => if (l =? 0)%Z then 1 else 512 | _ => 0 end)
            (Z.lor (if neg then 2 else 0)
            (Z.lor (if degenerate then 4 else 0)
            (Z.lor (match rn with FL_ok _ => 8 | _ => 0 end)
            (Z.lor (if changed then 16 else 0)
            (Z.lor (if negb (minl =? 0)%Z || negb (maxl =? 0)%Z then 32 else 0)
                   (if le_amb e || mamb then 128 else 0)))))))%Z in
  pend (match first_fail [(ticks_ok, 10%Z)] with
        | Some p => if amb_t then verdict V_BORDERLINE tag p [] else verdict V_MISMATCH tag p []
        | None =>
          match first_fail [(lv_ok, 20%Z)] with
          | Some p => if lv_amb then verdict V_BORDERLINE tag p [] else verdict V_MISMATCH tag p []
          | None =>
            match first_fail [(nice_ok, 30%Z)] with
            | Some p => if amb_n then verdict V_BORDERLINE tag p [] else verdict V_MISMATCH tag p []
            | None => conclude tag amb_n (nice_laws omax (match rn with FL_ok _ => true | _ => false end) tolv ob)
            end
          end
        end).

Definition check_C17 (line : list Z) : list Z :=
  match line with
  | 17%Z :: 0%Z :: r => match check_findlevel r with Some (v, _) => v | None => verdict V_MALFORMED 0 (-1) [] end
  | 17%Z :: 1%Z :: r => match check_linear r with Some (v, _) => v | None => verdict V_MALFORMED 0 (-1) [] end
  | 17%Z :: 2%Z :: r => match check_log r with Some (v, _) => v | None => verdict V_MALFORMED 0 (-1) [] end
  | _ => verdict V_MALFORMED 0 (-1) []
  end.

(* Check/C18.v — correspondence comparator for C18 (graph package).
   Line:  18 op ...      (op selects the slice; every comparison is exact)
     op 1  NodeMarks history:   18 1 nops { code id obs }*
             code 0 Mark(id) 1 Unmark(id) 2 Test(id) 3 Next(id);
             obs: Mark/Unmark 0 (returned) or 2 (panicked: the history stops there),
                  Test 0/1, Next the returned int.
   Verdict tag = 0 for a trivial case, else 256*op + branch bits (listed per op). *)
From MM Require Import Base.Num Model.Marks.
Open Scope Z_scope.

Definition pfail {A} : parser A := fun _ => None.
Definition mk_tag (op bits : Z) : Z := if bits =? 0 then 0 else 256 * op + bits.

(* ------------------------------------------------------------------ op 1: NodeMarks *)
Definition p_mop : parser (mop * Z) :=
  do c <- pZ; do i <- pZ; do o <- pZ;
  if c =? 0 then (if i <? 0 then pfail else pret (MMark (Z.to_N i), o))
  else if c =? 1 then (if i <? 0 then pfail else pret (MUnmark (Z.to_N i), o))
  else if c =? 2 then pret (MTest i, o)
  else if c =? 3 then pret (MNext i, o)
  else pfail.

(* branch bits: 1 Mark grew the storage, 2 Mark/Unmark inside the storage, 4 Unmark beyond the
   storage (early return), 8 Test true, 16 Test false, 32 Next found in the first word,
   64 Next found by the block scan, 128 Next = -1 *)
Definition mop_bits (m : marks) (o : mop) (r : Z) : Z :=
  match o with
  | MMark i => if (length m <=? N.to_nat (i / 32))%nat then 1 else 2
  | MUnmark i => if (length m <=? N.to_nat (i / 32))%nat then 4 else 2
  | MTest _ => if r =? 1 then 8 else 16
  | MNext i =>
      if r <? 0 then 128
      else let i2 := if i + 1 <? 0 then 0 else i + 1 in
           if (r / 32 =? i2 / 32) then 32 else 64
  end.

Fixpoint marks_cmp (m : marks) (ops : list (mop * Z)) (idx bits : Z) : Z * option (Z * Z) :=
  match ops with
  | [] => (bits, None)
  | (o, obs) :: rest =>
      let '(m', r) := m_step m o in
      let bits' := Z.lor bits (mop_bits m o r) in
      if r =? obs then marks_cmp m' rest (idx + 1) bits' else (bits', Some (idx, r))
  end.

Definition check_marks : parser (list Z) :=
  do ops <- plist_any p_mop;
  pend (match marks_cmp m_new ops 0 0 with
        | (bits, None) => verdict V_OK (mk_tag 1 bits) (-1) []
        | (bits, Some (idx, r)) => verdict V_MISMATCH (mk_tag 1 (Z.lor bits 1)) idx [1; r]
        end).

(* ------------------------------------------------------------------ dispatch *)
Definition check_C18 (line : list Z) : list Z :=
  match line with
  | 18 :: op :: rest =>
      let p := if op =? 1 then check_marks else pfail in
      match p rest with
      | Some (v, _) => v
      | None => verdict V_MALFORMED 0 (-1) [op]
      end
  | _ => verdict V_MALFORMED 0 (-1) []
  end.

(* Check/C18.v — correspondence comparator for C18 (graph package).
   Line:  18 op ...      (op selects the slice; every comparison is exact)
     op 1  NodeMarks history:   18 1 nops { code id obs }*
             code 0 Mark(id) 1 Unmark(id) 2 Test(id) 3 Next(id);
             obs: Mark/Unmark 0 (returned) or 2 (panicked: the history stops there),
                  Test 0/1, Next the returned int.  nops = 0 (nothing observed) is MALFORMED.
     op 2  traversals:          18 2 <graph> nroots { root status <pre> <post> <revpost> <revarg> <euler> <enterOnly> <exitOnly> }* pure <graph after>
             <graph> = n { deg target* }^n ; lists are count-prefixed; euler events are 2*node (Enter)
             or 2*node+1 (Exit); status 0 = all calls returned, 2 = a call panicked (lists empty);
             revpost = the slice returned by Reverse(xs), xs = PostOrder(g, root); revarg = xs after that call (Reverse
             works in place); enterOnly / exitOnly = Euler with one nil callback; nroots = 0 is MALFORMED;
             pure = 1 iff the harness found the adjacency lists unchanged after all calls; <graph after> = the
             argument graph as it is after all calls (compared here with <graph>; the same for ops 3-8 and 10).
     op 3  SCC:                 18 3 <graph> flags status ncomps {<Subnodes(c)>}* hascof <SubnodeComponent(0..n-1)> nouts {<Out(c)>}* pure <graph after>
             flags: 1 SCCSubnodeComponent, 2 SCCEdges; ncomps = SCCGraph.NumNodes(); hascof = 1 iff flags != 0
             (otherwise the list is empty and hascof = 0 iff SubnodeComponent(0) panicked as documented, 2 if it returned);
             Out(c) is listed for every component (all empty without SCCEdges).
     op 4  MakeBiGraph:         18 4 <graph> status n {<In(j)>}^n <Out graph of the result> idem pure <graph after>
             <Out graph of the result> = NumNodes() and Out(0..NumNodes()-1) of the result b; idem = 1 iff MakeBiGraph(b) == b.
     op 5  Equal:               18 5 <g1> <g2> status result result21 pure <g1 after> <g2 after>
             result = Equal(g1, g2), result21 = Equal(g2, g1) (0/1).
     op 6  SimplifyMulti:       18 6 <graph> weighted n {<weights(i)>}^n status <Out graph> n' {<OutWeight(i,.)>}^n' pure <graph after>
             weights are float64 bit patterns; weighted = 0: a plain graph (weight lists empty, unit weights).
     op 7  SubgraphKeep:        18 7 <graph> <nodes> <edges flat: node edge ...> status n' { old <Out(i)> <EdgeMap(i,.) flat> }^n' pure <graph after> <nodes after> <edges flat after>
     op 8  SubgraphRemove:      18 8 <graph> <nodes> <edges flat> status n' { old <Out(i)> <EdgeMap(i,.) flat> }^n' pure <graph after> <nodes after> <edges flat after>
             old = NodeMap(identity)(i); EdgeMap with the pairing map, flattened node edge node edge ...
     op 9  DotString:           18 9 <bytes> status <result bytes>
     op 10 Dot.Sprint:          18 10 <graph> <name> haslabel n {<label(i)>}^n hasnattrs n {<attrs(i)>}^n haseattrs n { deg {<attrs(i,j)>}^deg }^n status <output bytes> pure <graph after>
             <attrs> = count { <name bytes> kind payload }*; kind 0 string <bytes>, 1 int z, 2 DotLiteral <bytes>,
             3 a bool (formatAttrs panics), 4 uint z.  The tables are empty when the has-flag is 0 (nil func).
     op 11 history on ONE graph object:  18 11 k { len op <the line of operation op without its leading "18 op"> }^k
             the k >= 1 calls (ops 2-8 and 10) are made one after the other on the same graph object (for a BiGraph
             object: the result of one MakeBiGraph call); each step is judged by the check of its operation, which
             includes "the argument after the call equals the argument before the call", and the graph printed before
             every step must equal the graph printed before the first step.
   Verdict tag = 0 for a trivial case, else 256*op + branch bits (listed per op). *)
From Coq Require Import FMapPositive.
From MM Require Import Base.Num Base.GCGraph Base.GCReach Model.Marks Spec.Dfs Model.Order Spec.Scc Model.Scc Model.Graph Model.Subgraph Model.Dot.
Open Scope Z_scope.

Definition pfail {A} : parser A := fun _ => None.
Definition mk_tag (op bits : Z) : Z := if bits =? 0 then 0 else 256 * op + bits.

(* ------------------------------------------------------------------ op 1: NodeMarks *)
Definition p_mop : parser (mop * Z) :=
  do c <- pZ; do i <- pZ; do o <- pZ;
  if c =? 0 then (if i <? 0 then pfail else pret (MMark (Z.to_N i), o))
  else if c =? 1 then (if i <? 0 then pfail else pret (MUnmark (Z.to_N i), o))
  else if c =? 2 then pret (MTest i, o)
  else if c =? 3 then pret (MNext i, o)
  else pfail.

(* branch bits: 1 Mark grew the storage, 2 Mark/Unmark inside the storage, 4 Unmark beyond the
   storage (early return), 8 Test true, 16 Test false, 32 Next found in the first word,
   64 Next found by the block scan, 128 Next = -1 *)
Definition mop_bits (m : marks) (o : mop) (r : Z) : Z :=
  match o with
  | MMark i => if (length m <=? N.to_nat (i / 32))%nat then 1 else 2
  | MUnmark i => if (length m <=? N.to_nat (i / 32))%nat then 4 else 2
  | MTest _ => if r =? 1 then 8 else 16
  | MNext i =>
      if r <? 0 then 128
      else let i2 := if i + 1 <? 0 then 0 else i + 1 in
           if (r / 32 =? i2 / 32) then 32 else 64
  end.

(* m_step, computed without building the unary word index when the id lies beyond the storage
   (Test/Next are run for EVERY int, e.g. math.MaxInt): equal to m_step for all arguments,
   Proofs/C18MarksBig.v m_step_c_eq *)
Definition m_step_c (m : marks) (o : mop) : marks * Z :=
  match o with
  | MTest i => if Z.of_nat (length m) <=? i / 32 then (m, 0) else m_step m o
  | MNext i => if Z.of_nat (length m) <=? (i + 1) / 32 then (m, -1) else m_step m o
  | _ => m_step m o
  end.

Fixpoint marks_cmp (m : marks) (ops : list (mop * Z)) (idx bits : Z) : Z * option (Z * Z) :=
  match ops with
  | [] => (bits, None)
  | (o, obs) :: rest =>
      let '(m', r) := m_step_c m o in
      let bits' := Z.lor bits (mop_bits m o r) in
      if r =? obs then marks_cmp m' rest (idx + 1) bits' else (bits', Some (idx, r))
  end.

Definition check_marks : parser (list Z) :=
  do ops <- plist_any p_mop;
  pend (if (length ops =? 0)%nat then verdict V_MALFORMED 0 (-1) [1] else
        match marks_cmp m_new ops 0 0 with
        | (bits, None) => verdict V_OK (mk_tag 1 bits) (-1) []
        | (bits, Some (idx, r)) => verdict V_MISMATCH (mk_tag 1 (Z.lor bits 1)) idx [1; r]
        end).

(* ------------------------------------------------------------------ graph decoding *)
(* n { deg target* }^n, one structural pass over the line (no per-list length scans) *)
Fixpoint pg_go (l : list Z) (k d : Z) (cur : list N) (acc : graph) {struct l} : option (graph * list Z) :=
  if (d <? 0) && (k =? 0) then Some (rev_append acc [], l) else
  match l with
  | [] => None
  | x :: r =>
      if x <? 0 then None
      else if d <? 0 then (if x =? 0 then pg_go r (k - 1) (-1) [] ([] :: acc) else pg_go r k x [] acc)
      else if d =? 1 then pg_go r (k - 1) (-1) [] (rev_append (Z.to_N x :: cur) [] :: acc)
      else pg_go r k (d - 1) (Z.to_N x :: cur) acc
  end.
Definition p_graph : parser graph := fun l =>
  match l with n :: r => if n <? 0 then None else pg_go r n (-1) [] [] | [] => None end.

Fixpoint ptake (l : list Z) (k : Z) (acc : list Z) {struct l} : option (list Z * list Z) :=
  if k <=? 0 then Some (rev_append acc [], l) else
  match l with [] => None | x :: r => ptake r (k - 1) (x :: acc) end.
(* count-prefixed list of integers *)
Definition p_Zs : parser (list Z) := fun l =>
  match l with k :: r => if k <? 0 then None else ptake r k [] | [] => None end.

Definition ZsN (l : list N) : list Z := map Z.of_N l.
Definition ev_code (e : event) : Z := match e with Enter n => 2 * Z.of_N n | Exit n => 2 * Z.of_N n + 1 end.
Definition first_false (l : list bool) : option Z :=
  (fix go (l : list bool) (i : Z) := match l with [] => None | true :: t => go t (i + 1) | false :: _ => Some i end) l 0.

(* ------------------------------------------------------------------ op 2: traversals *)
Record trav_obs := mkTrav { t_root : Z; t_status : Z; t_pre : list Z; t_post : list Z; t_rev : list Z; t_rva : list Z;
                            t_eul : list Z; t_ent : list Z; t_ext : list Z }.
Definition p_trav : parser trav_obs :=
  do r <- pZ; do st <- pZ; do a <- p_Zs; do b <- p_Zs; do c <- p_Zs; do c2 <- p_Zs; do d <- p_Zs; do e <- p_Zs; do f <- p_Zs;
  pret (mkTrav r st a b c c2 d e f).

(* the argument graph as printed after the calls equals the graph printed before them *)
Fixpoint graph_eqb (a b : graph) : bool :=
  match a, b with
  | [], [] => true
  | x :: a', y :: b' => Ns_eqb x y && graph_eqb a' b'
  | _, _ => false
  end.

Definition oZs (o : option (list N)) : option (list Z) := option_map ZsN o.
Definition oeq (expected : option (list Z)) (obs : list Z) : bool :=
  match expected with Some l => list_Z_eqb l obs | None => false end.

(* branch bits: 1 an edge to an already visited node was skipped, 2 some node is unreachable,
   4 a visited node id >= 1024 (mark storage grew), 8 root has a self-loop, 16 more than one node
   visited, 32 root outside the graph (the call panics), 64 more than 1024 nodes visited *)
Definition trav_bits (out : N -> list N) (n : N) (root : N) (pre : list N) : Z :=
  let deg := fold_left (fun a u => (length (out u) + a)%nat) pre O in
  let k := length pre in
  Z.lor (if (k <? S deg)%nat && negb (S deg =? k)%nat then 1 else 0)
  (Z.lor (if (N.of_nat k <? n)%N then 2 else 0)
  (Z.lor (if existsb (fun v => (1024 <=? v)%N) pre then 4 else 0)
  (Z.lor (if existsb (N.eqb root) (out root) then 8 else 0)
  (Z.lor (if (1 <? k)%nat then 16 else 0)
         (if (1024 <? k)%nat then 64 else 0))))).

Definition trav_one (out : N -> list N) (n : N) (fuel : nat) (o : trav_obs) : Z * option Z :=
  if (t_root o <? 0) || (Z.of_N n <=? t_root o) then
    (* the call panics: status 2 and nothing else was observed (all seven lists empty) *)
    (32, if (t_status o =? 2) && (length (t_pre o ++ t_post o ++ t_rev o ++ t_rva o ++ t_eul o ++ t_ent o ++ t_ext o) =? 0)%nat
         then None else Some 0)
  else
    let r := Z.to_N (t_root o) in
    (* preorder / postorder are, by definition, the node projections of run_visit true false /
       run_visit false true (Model/Order.v); each traversal is run once and shared *)
    let ent := run_visit out true false fuel r in
    let ext := run_visit out false true fuel r in
    let pre := option_map (map ev_node) ent in      (* = preorder out fuel r *)
    let post := option_map (map ev_node) ext in     (* = postorder out fuel r *)
    let eul := euler out fuel r in
    let bits := match pre with Some l => trav_bits out n r l | None => 0 end in
    (bits,
     first_false [ t_status o =? 0;
                   oeq (oZs pre) (t_pre o);
                   oeq (oZs post) (t_post o);
                   oeq (oZs (option_map reverse post)) (t_rev o);
                   oeq (oZs (option_map reverse post)) (t_rva o);
                   oeq (option_map (map ev_code) eul) (t_eul o);
                   oeq (option_map (map ev_code) ent) (t_ent o);
                   oeq (option_map (map ev_code) ext) (t_ext o) ]).

Fixpoint trav_all (out : N -> list N) (n : N) (fuel : nat) (l : list trav_obs) (idx bits : Z) : Z * option (Z * Z) :=
  match l with
  | [] => (bits, None)
  | o :: t =>
      let '(b, w) := trav_one out n fuel o in
      match w with
      | Some k => (Z.lor bits b, Some (idx, k))
      | None => trav_all out n fuel t (idx + 1) (Z.lor bits b)
      end
  end.

Definition check_trav : parser (list Z) :=
  do g <- p_graph; do obs <- plist_any p_trav; do pure <- pZ; do g' <- p_graph;
  pend (if negb (g_wfb g) || (length obs =? 0)%nat then verdict V_MALFORMED 0 (-1) [2]
        else
          let out := gm_out (gm_build g) in
          match trav_all out (g_n g) (S (length g)) obs 0 0 with
          | (bits, Some (idx, k)) => verdict V_MISMATCH (mk_tag 2 (Z.lor bits 128)) idx [2; k]
          | (bits, None) =>
              if (pure =? 1) && graph_eqb g g' then verdict V_OK (mk_tag 2 bits) (-1) []
              else verdict V_MISMATCH (mk_tag 2 (Z.lor bits 128)) (-1) [2; 99]
          end).

(* ------------------------------------------------------------------ op 3: SCC *)
Definition NsZ (l : list Z) : list N := map Z.to_N l.
Fixpoint cof_match (m : cmap) (obs : list Z) (v : N) : bool :=
  match obs with
  | [] => true
  | c :: t => (Z.of_N (cm_of m v) =? c) && cof_match m t (v + 1)%N
  end.

Fixpoint lists_eqb (a b : list (list N)) : bool :=
  match a, b with
  | [], [] => true
  | x :: a', y :: b' => Ns_eqb x y && lists_eqb a' b'
  | _, _ => false
  end.
Fixpoint tj_cof_match (st : tj) (obs : list Z) (v : N) : bool :=
  match obs with
  | [] => true
  | c :: t => (Z.of_N (tj_compof st v) =? c) && tj_cof_match st t (v + 1)%N
  end.

(* branch bits: 1 a component with more than one node, 2 more than one component, 4 >= 1024 nodes,
   8 SCCEdges with a non-empty out list, 16 no flag, 32 SCCSubnodeComponent only, 64 an empty graph *)
Definition scc_bits (g : graph) (flags : Z) (comps outs : list (list Z)) : Z :=
  Z.lor (if existsb (fun l => (1 <? length l)%nat) comps then 1 else 0)
  (Z.lor (if (1 <? length comps)%nat then 2 else 0)
  (Z.lor (if (1024 <=? length g)%nat then 4 else 0)
  (Z.lor (if Z.testbit flags 1 && existsb (fun l => (0 <? length l)%nat) outs then 8 else 0)
  (Z.lor (if flags =? 0 then 16 else 0)
  (Z.lor (if flags =? 1 then 32 else 0)
         (if (length g =? 0)%nat then 64 else 0)))))).

Definition check_scc : parser (list Z) :=
  do g <- p_graph; do flags <- pZ; do status <- pZ; do comps <- plist_any p_Zs; do hascof <- pZ; do cof <- p_Zs;
  do outs <- plist_any p_Zs; do pure <- pZ; do g' <- p_graph;
  pend (if negb (g_wfb g) then verdict V_MALFORMED 0 (-1) [3]
        else
          let bits := scc_bits g flags comps outs in
          let compsN := map NsZ comps in
          let outsN := map NsZ outs in
          let neg := existsb (existsb (fun x => x <? 0)) comps || existsb (existsb (fun x => x <? 0)) outs in
          let w := first_false
            [ status =? 0;
              negb neg;
              scc_ok g compsN;                      (* the proved checker certifies this very output *)
              (* and the output is, list for list, what the model of Tarjan's algorithm as written produces *)
              match tarjan_run (gm_out (gm_build g)) (Z.testbit flags 1) g with
              | Some st =>
                  lists_eqb compsN (rev_append (tj_comps st) []) &&
                  lists_eqb outsN (rev_append (tj_outs st) []) &&
                  ((hascof =? 0) || tj_cof_match st cof 0%N)
              | None => false
              end;
              (hascof =? (if flags =? 0 then 0 else 1));
              negb (hascof =? 0) || (length cof =? 0)%nat;      (* no SubnodeComponent list without a flag *)
              (hascof =? 0) || ((length cof =? length g)%nat &&
                 match cm_build (g_n g) compsN 0%N (PositiveMap.empty N) with Some m => cof_match m cof 0%N | None => false end);
              (length outs =? length comps)%nat;
              if Z.testbit flags 1 then scc_edges_ok g compsN outsN else forallb (fun l => (length l =? 0)%nat) outs;
              pure =? 1; graph_eqb g g' ] in
          match w with
          | None => verdict V_OK (mk_tag 3 bits) (-1) []
          | Some k => verdict V_MISMATCH (mk_tag 3 (Z.lor bits 128)) k [3; k]
          end).

(* ------------------------------------------------------------------ op 4: MakeBiGraph *)
Fixpoint lists_match (f : N -> list Z) (obs : list (list Z)) (j : N) : option Z :=
  match obs with
  | [] => None
  | l :: t => if list_Z_eqb (f j) l then lists_match f t (j + 1)%N else Some (Z.of_N j)
  end.

(* branch bits: 1 some node has several predecessors, 2 a parallel edge (a source listed twice),
   4 a self-loop, 8 a node without predecessors, 16 >= 1024 nodes *)
Definition bi_bits (g : graph) (ins : list (list Z)) : Z :=
  Z.lor (if existsb (fun l => (1 <? length l)%nat) ins then 1 else 0)
  (Z.lor (if existsb (fun l => match l with a :: b :: _ => a =? b | _ => false end) ins then 2 else 0)
  (Z.lor (if existsb (fun l => (length l =? 0)%nat) ins then 8 else 0)
         (if (1024 <=? length g)%nat then 16 else 0))).

Definition check_bigraph : parser (list Z) :=
  do g <- p_graph; do status <- pZ; do ins <- plist_any p_Zs; do bout <- p_graph; do idem <- pZ; do pure <- pZ; do g' <- p_graph;
  pend (if negb (g_wfb g) then verdict V_MALFORMED 0 (-1) [4]
        else
          let preds := bi_build g in
          let bits := bi_bits g ins in
          let w := first_false [ status =? 0; (length ins =? length g)%nat;
                                 match lists_match (fun j => ZsN (gm_out preds j)) ins 0%N with None => true | Some _ => false end;
                                 graph_eqb g bout; idem =? 1; pure =? 1; graph_eqb g g' ] in
          match w with
          | None => verdict V_OK (mk_tag 4 bits) (-1) []
          | Some k => verdict V_MISMATCH (mk_tag 4 (Z.lor bits 128)) k [4; k]
          end).

(* ------------------------------------------------------------------ op 5: Equal *)
(* branch bits: 1 equal, 2 different, 4 node counts differ, 8 some list differs in order only
   (decided after sorting), 16 identical lists throughout *)
Definition eq_bits (g1 g2 : graph) (r : bool) : Z :=
  Z.lor (if r then 1 else 2)
  (Z.lor (if negb (length g1 =? length g2)%nat then 4 else 0)
  (Z.lor (if r && negb (Ns_eqb (concat g1) (concat g2)) then 8 else 0)
         (if r && Ns_eqb (concat g1) (concat g2) then 16 else 0))).
Definition check_equal : parser (list Z) :=
  do g1 <- p_graph; do g2 <- p_graph; do status <- pZ; do res <- pZ; do res21 <- pZ; do pure <- pZ; do g1' <- p_graph; do g2' <- p_graph;
  pend (if negb (g_wfb g1 && g_wfb g2) then verdict V_MALFORMED 0 (-1) [5]
        else
          let r := g_equal g1 g2 in
          let w := first_false [ status =? 0; res =? (if r then 1 else 0); res21 =? (if g_equal g2 g1 then 1 else 0); pure =? 1;
                                 graph_eqb g1 g1'; graph_eqb g2 g2' ] in
          match w with
          | None => verdict V_OK (mk_tag 5 (eq_bits g1 g2 r)) (-1) []
          | Some k => verdict V_MISMATCH (mk_tag 5 (Z.lor (eq_bits g1 g2 r) 128)) k [5; k]
          end).

(* ------------------------------------------------------------------ op 6: SimplifyMulti *)
Local Open Scope Q_scope.
Fixpoint zipw (ts : list N) (ws : list Z) : option wadj :=
  match ts, ws with
  | [], [] => Some []
  | t :: ts', w :: ws' =>
      match decode_bits w, zipw ts' ws' with
      | XFin q, Some r => Some ((t, q) :: r)
      | _, _ => None
      end
  | _, _ => None
  end.
Fixpoint zipwg (g : graph) (ws : list (list Z)) : option wgraph :=
  match g, ws with
  | [], [] => Some []
  | l :: g', w :: ws' => match zipw l w, zipwg g' ws' with Some a, Some r => Some (a :: r) | _, _ => None end
  | _, _ => None
  end.
Definition wadj_eqb (a b : wadj) : bool :=
  Ns_eqb (map fst a) (map fst b) &&
  (fix go (x y : wadj) := match x, y with
                          | [], [] => true
                          | (_, p) :: x', (_, q) :: y' => Qeq_bool p q && go x' y'
                          | _, _ => false end) a b.
Fixpoint wgraph_eqb (a b : wgraph) : bool :=
  match a, b with
  | [], [] => true
  | x :: a', y :: b' => wadj_eqb x y && wgraph_eqb a' b'
  | _, _ => false
  end.
Local Close Scope Q_scope.

(* branch bits: 1 some parallel edges were merged, 2 weighted input, 4 unweighted input,
   8 a merged target that is not adjacent to its first occurrence, 16 nothing to merge *)
Definition simp_bits (g : graph) (weighted : Z) (r : wgraph) : Z :=
  let merged := negb (length (concat r) =? length (concat g))%nat in
  Z.lor (if merged then 1 else 16) (if weighted =? 0 then 4 else 2).

Definition check_simplify : parser (list Z) :=
  do g <- p_graph; do weighted <- pZ; do ws <- plist_any p_Zs; do status <- pZ;
  do rg <- p_graph; do rws <- plist_any p_Zs; do pure <- pZ; do g' <- p_graph;
  pend (if negb (g_wfb g) then verdict V_MALFORMED 0 (-1) [6]
        else
          match (if weighted =? 0 then Some (unit_weights g) else zipwg g ws), zipwg rg rws with
          | Some wg, Some obs =>
              let r := simplify_multi wg in
              let w := first_false [ status =? 0; (length obs =? length g)%nat; wgraph_eqb r obs; pure =? 1; graph_eqb g g';
                                     negb (weighted =? 0) || (length ws =? 0)%nat ] in
              match w with
              | None => verdict V_OK (mk_tag 6 (simp_bits g weighted r)) (-1) []
              | Some k => verdict V_MISMATCH (mk_tag 6 (Z.lor (simp_bits g weighted r) 128)) k [6; k]
              end
          | Some _, None => if status =? 0 then verdict V_MISMATCH (mk_tag 6 128) 2 [6; 2] else verdict V_MISMATCH (mk_tag 6 128) 0 [6; 0]
          | None, _ => verdict V_MALFORMED 0 (-1) [6]
          end).

(* ------------------------------------------------------------------ op 7/8: SubgraphKeep / SubgraphRemove *)
Fixpoint pairs_of (l : list Z) : option (list (Z * Z)) :=
  match l with
  | [] => Some []
  | a :: b :: t => option_map (cons (a, b)) (pairs_of t)
  | _ => None
  end.
Record sg_obs := mkSgObs { so_old : Z; so_out : list Z; so_emap : list Z }.
Definition p_sgobs : parser sg_obs := do o <- pZ; do a <- p_Zs; do b <- p_Zs; pret (mkSgObs o a b).

Definition sg_node_eqb (nd : sgnode) (o : sg_obs) : bool :=
  (Z.of_N (sg_old nd) =? so_old o) && list_Z_eqb (ZsN (sg_out nd)) (so_out o) &&
  list_Z_eqb (flat_map (fun e => [Z.of_N (sg_old nd); Z.of_N e]) (sg_oldedges nd)) (so_emap o).
Fixpoint sg_eqb (s : subgraph) (obs : list sg_obs) : bool :=
  match s, obs with
  | [], [] => true
  | nd :: s', o :: obs' => sg_node_eqb nd o && sg_eqb s' obs'
  | _, _ => false
  end.

(* compare an expected result (None = panic) with the observation *)
Definition sg_verdict (op : Z) (bits : Z) (expected : option subgraph) (status : Z) (obs : list sg_obs) (pure : Z) (args_same : bool) : list Z :=
  let w := match expected with
           | None => first_false [ status =? 2; pure =? 1; args_same; (length obs =? 0)%nat ]
           | Some s => first_false [ status =? 0; sg_eqb s obs; pure =? 1; args_same ]
           end in
  match w with
  | None => verdict V_OK (mk_tag op bits) (-1) []
  | Some k => verdict V_MISMATCH (mk_tag op (Z.lor bits 128)) k [op; k]
  end.

(* branch bits (keep): 1 some edge kept, 2 the call panics, 4 a lookup of a node that is not kept fell
   back to 0 (edge source or target not among the kept nodes), 8 all nodes kept, 16 an edge kept twice,
   32 no node kept *)
Definition check_keep : parser (list Z) :=
  do g <- p_graph; do nodes <- p_Zs; do eflat <- p_Zs; do status <- pZ; do obs <- plist_any p_sgobs; do pure <- pZ;
  do g' <- p_graph; do nodes' <- p_Zs; do eflat' <- p_Zs;
  pend (if negb (g_wfb g) then verdict V_MALFORMED 0 (-1) [7]
        else match pairs_of eflat with
        | None => verdict V_MALFORMED 0 (-1) [7]
        | Some edges =>
            let neg := existsb (fun x => x <? 0) nodes || existsb (fun x => x <? 0) eflat in
            let nodesN := NsZ nodes in
            let edgesN := map (fun e => (Z.to_N (fst e), Z.to_N (snd e))) edges in
            let expected := if neg then None else subgraph_keep g nodesN edgesN in
            let fallback := existsb (fun e => negb (existsb (N.eqb (fst e)) nodesN)
                                              || match nth_error (g_out g (fst e)) (N.to_nat (snd e)) with
                                                 | Some t => negb (existsb (N.eqb t) nodesN) | None => false end) edgesN in
            let bits := match expected with
                        | None => 2
                        | Some s =>
                            Z.lor (if existsb (fun nd => (0 <? length (sg_out nd))%nat) s then 1 else 0)
                            (Z.lor (if fallback then 4 else 0)
                            (Z.lor (if (length nodes =? length g)%nat then 8 else 0)
                            (Z.lor (if negb (no_dup_b (map (fun e => (fst e * 4194304 + snd e)%N) edgesN)) then 16 else 0)
                                   (if (length nodes =? 0)%nat then 32 else 64))))
                        end in
            sg_verdict 7 bits expected status obs pure (graph_eqb g g' && list_Z_eqb nodes nodes' && list_Z_eqb eflat eflat')
        end).

(* branch bits (remove): 1 a node removed, 2 the call panics, 4 an edge removed by name, 8 an edge dropped
   because its target was removed, 16 nothing removed, 32 ids outside the graph among the arguments *)
Definition check_remove : parser (list Z) :=
  do g <- p_graph; do nodes <- p_Zs; do eflat <- p_Zs; do status <- pZ; do obs <- plist_any p_sgobs; do pure <- pZ;
  do g' <- p_graph; do nodes' <- p_Zs; do eflat' <- p_Zs;
  pend (if negb (g_wfb g) then verdict V_MALFORMED 0 (-1) [8]
        else match pairs_of eflat with
        | None => verdict V_MALFORMED 0 (-1) [8]
        | Some edges =>
            let expected := subgraph_remove g nodes edges in
            let n := Z.of_nat (length g) in
            let bits := match expected with
                        | None => 2
                        | Some s =>
                            let kept_edges := length (concat (map sg_out s)) in
                            Z.lor (if (length s <? length g)%nat then 1 else 0)
                            (Z.lor (if existsb (fun e => negb (zmem (fst e) nodes) && (0 <=? fst e) && (fst e <? n)) edges then 4 else 0)
                            (Z.lor (if (length s <? length g)%nat && (kept_edges <? length (concat g))%nat then 8 else 0)
                            (Z.lor (if (length s =? length g)%nat && (kept_edges =? length (concat g))%nat then 16 else 0)
                                   (if existsb (fun x => (x <? 0) || (n <=? x)) nodes then 32 else 0))))
                        end in
            sg_verdict 8 bits expected status obs pure (graph_eqb g g' && list_Z_eqb nodes nodes' && list_Z_eqb eflat eflat')
        end).

(* ------------------------------------------------------------------ op 9/10: Dot *)
Definition obytes_eqb (expected : option bytes) (obs : list Z) : bool :=
  match expected with Some b => list_Z_eqb (ZsN b) obs | None => false end.

(* branch bits (DotString): 1 a newline escaped, 2 a special byte escaped, 4 plain bytes only, 8 empty,
   16 bytes >= 128 *)
Definition check_dotstring : parser (list Z) :=
  do sz <- p_Zs; do status <- pZ; do obs <- p_Zs;
  pend (let s := NsZ sz in
        let bits := Z.lor (if existsb (N.eqb 10) s then 1 else 0)
                   (Z.lor (if existsb dot_special s then 2 else 0)
                   (Z.lor (if negb (existsb (fun c => (c =? 10)%N || dot_special c) s) && (0 <? length s)%nat then 4 else 0)
                   (Z.lor (if (length s =? 0)%nat then 8 else 0)
                          (if existsb (fun c => (128 <=? c)%N) s then 16 else 0)))) in
        let w := first_false [ status =? 0; negb (existsb (fun x => x <? 0) obs);
                               obytes_eqb (Some (dot_string s)) obs;
                               (* the proved reader applied to the OBSERVED output restores the input *)
                               match unescape (NsZ obs) with Some r => bytes_eqb r s | None => false end ] in
        match w with
        | None => verdict V_OK (mk_tag 9 bits) (-1) []
        | Some k => verdict V_MISMATCH (mk_tag 9 (Z.lor bits 128)) k [9; k]
        end).

Definition p_attr : parser attr :=
  do name <- p_Zs; do kind <- pZ;
  if (kind =? 0) then (do b <- p_Zs; pret (NsZ name, AStr (NsZ b)))
  else if (kind =? 2) then (do b <- p_Zs; pret (NsZ name, ALit (NsZ b)))
  else if (kind =? 1) || (kind =? 4) then (do z <- pZ; pret (NsZ name, AInt z))
  else if (kind =? 3) then pret (NsZ name, AOther)
  else pfail.
Definition p_attrs : parser (list attr) := plist_any p_attr.

(* branch bits (Sprint): 1 Label given, 2 NodeAttrs given, 4 EdgeAttrs given, 8 a NodeAttrs label overrides
   Label, 16 the call panics (attribute of unknown type), 32 the graph has edges, 64 no option at all *)
Definition check_sprint : parser (list Z) :=
  do g <- p_graph; do name <- p_Zs;
  do haslabel <- pZ; do labels <- plist_any p_Zs;
  do hasn <- pZ; do nattrs <- plist_any p_attrs;
  do hase <- pZ; do eattrs <- plist_any (plist_any p_attrs);
  do status <- pZ; do obs <- p_Zs; do pure <- pZ; do g' <- p_graph;
  pend (if negb (g_wfb g) then verdict V_MALFORMED 0 (-1) [10]
        else
          let d := mk_dot_opts (NsZ name)
                     (if haslabel =? 0 then None else Some (fun i => NsZ (nth (N.to_nat i) labels [])))
                     (if hasn =? 0 then None else Some (fun i => nth (N.to_nat i) nattrs []))
                     (if hase =? 0 then None else Some (fun i j => nth (N.to_nat j) (nth (N.to_nat i) eattrs []) [])) in
          let expected := dot_sprint d (g_out g) (g_n g) in
          let overrides := negb (hasn =? 0) && existsb (existsb (fun a => bytes_eqb (fst a) str_label)) nattrs in
          let bits := Z.lor (if haslabel =? 0 then 0 else 1)
                     (Z.lor (if hasn =? 0 then 0 else 2)
                     (Z.lor (if hase =? 0 then 0 else 4)
                     (Z.lor (if overrides then 8 else 0)
                     (Z.lor (match expected with None => 16 | Some _ => 0 end)
                     (Z.lor (if (0 <? length (concat g))%nat then 32 else 0)
                            (if (haslabel =? 0) && (hasn =? 0) && (hase =? 0) then 64 else 0)))))) in
          let w := match expected with
                   | None => first_false [ status =? 2; pure =? 1; graph_eqb g g'; (length obs =? 0)%nat ]
                   | Some b => first_false [ status =? 0; obytes_eqb expected obs; pure =? 1; graph_eqb g g' ]
                   end in
          match w with
          | None => verdict V_OK (mk_tag 10 bits) (-1) []
          | Some k => verdict V_MISMATCH (mk_tag 10 (Z.lor bits 128)) k [10; k]
          end).

(* ------------------------------------------------------------------ op 11: a history of calls on one graph object *)
Definition check_op (op : Z) : parser (list Z) :=
  if op =? 2 then check_trav else if op =? 3 then check_scc else if op =? 4 then check_bigraph else if op =? 5 then check_equal
  else if op =? 6 then check_simplify else if op =? 7 then check_keep else if op =? 8 then check_remove
  else if op =? 10 then check_sprint else pfail.

(* branch bits: 1 traversals, 2 SCC, 4 MakeBiGraph, 8 Equal / SimplifyMulti, 16 SubgraphKeep / SubgraphRemove, 32 Dot.Sprint,
   64 more than one step *)
Definition hist_bit (op : Z) : Z :=
  if op =? 2 then 1 else if op =? 3 then 2 else if op =? 4 then 4 else if (op =? 5) || (op =? 6) then 8
  else if (op =? 7) || (op =? 8) then 16 else 32.

(* k steps "len op rest" left in l; g0 = the graph of the first step (None before it); fuel >= length l.
   A step with verdict OK continues; the first other verdict ends the history: MALFORMED stays MALFORMED, a MISMATCH is
   reported with the step index as position and "11 op <verdict of the step>" as diagnosis; diagnosis [11; op; 98] = the
   graph printed before this step differs from the graph printed before the first step. *)
Fixpoint hist_go (fuel : nat) (l : list Z) (k : Z) (g0 : option graph) (idx bits : Z) : list Z :=
  match fuel with
  | O => (if k <=? 0 then match l with [] => verdict V_OK (mk_tag 11 bits) (-1) [] | _ => verdict V_MALFORMED 0 (-1) [11] end
          else verdict V_MALFORMED 0 (-1) [11])
  | S f =>
      if k <=? 0 then match l with [] => verdict V_OK (mk_tag 11 bits) (-1) [] | _ => verdict V_MALFORMED 0 (-1) [11] end
      else
        match l with
        | len :: r =>
            match (if len <? 1 then None else ptake r len []) with
            | Some (op :: sub, rest) =>
                match p_graph sub with
                | Some (g, _) =>
                    if match g0 with Some g1 => graph_eqb g1 g | None => true end then
                      match check_op op sub with
                      | Some (c :: v, _) =>
                          if c =? V_OK then
                            hist_go f rest (k - 1) (Some (match g0 with Some g1 => g1 | None => g end)) (idx + 1)
                                    (Z.lor (Z.lor bits (hist_bit op)) (if 0 <? idx then 64 else 0))
                          else if c =? V_MISMATCH then verdict V_MISMATCH (mk_tag 11 (Z.lor bits 128)) idx (11 :: op :: c :: v)
                          else verdict V_MALFORMED 0 (-1) [11; op]
                      | _ => verdict V_MALFORMED 0 (-1) [11; op]
                      end
                    else verdict V_MISMATCH (mk_tag 11 (Z.lor bits 128)) idx [11; op; 98]
                | None => verdict V_MALFORMED 0 (-1) [11; op]
                end
            | _ => verdict V_MALFORMED 0 (-1) [11]
            end
        | [] => verdict V_MALFORMED 0 (-1) [11]
        end
  end.

Definition check_hist : parser (list Z) := fun l =>
  match l with
  | k :: r => if k <? 1 then None else Some (hist_go (length r) r k None 0 0, [])
  | [] => None
  end.

(* ------------------------------------------------------------------ dispatch *)
Definition check_C18 (line : list Z) : list Z :=
  match line with
  | 18 :: op :: rest =>
      let p := if op =? 1 then check_marks else if op =? 2 then check_trav else if op =? 3 then check_scc else if op =? 4 then check_bigraph else if op =? 5 then check_equal
               else if op =? 6 then check_simplify else if op =? 7 then check_keep else if op =? 8 then check_remove
               else if op =? 9 then check_dotstring else if op =? 10 then check_sprint else if op =? 11 then check_hist else pfail in
      match p rest with
      | Some (v, _) => v
      | None => verdict V_MALFORMED 0 (-1) [op]
      end
  | _ => verdict V_MALFORMED 0 (-1) []
  end.

(* Check/C19.v — correspondence comparator for C19 (IDom, Dom, DomFrontier).
   Line:  19 n {len succ...}*n  nroots
          { root nil stI [n]idom  stD numNodes [n]{IDom(k) [..]In(k) [..]Out(k)}  stF [n][..]df  mutated }*
   st* : 0 = the call returned, 2 = it panicked.
   mutated : 1 when an argument (graph, idom) changed during a call OR a result read differently after the
   harness, as a caller may, appended a sentinel to every slice the results hand out (harness/c19.go).
   Every root is judged twice:
   (A) against the SPECIFICATION ORACLE of Spec/Dom.v (dominance by node deletion and
       reachability): IDom exactly, Dom's child lists as inversions of IDom, DomFrontier
       as sets per reachable node (root membership not judged when the root has exactly
       one incoming edge: the property's carve-out);
   (B) against the ALGORITHM MODEL of Model/Dom.v (Cooper-Harvey-Kennedy as written),
       exactly (order of children and of frontier members included).
   pos = 16 * (index of the root in the case) + k, k =
     0 IDom panicked            1 IDom <> idom_spec           2 IDom <> idom_chk (model)
     3 Dom panicked             4 Dom.NumNodes                5 Dom.IDom / Dom.In
     6 Dom.Out does not invert IDom (spec)                    7 Dom.Out <> dom_children (model)
     8 DomFrontier panicked     9 DomFrontier <> df_spec (sets, reachable nodes)
    10 DomFrontier <> dom_frontier (model, exact, rows of reachable nodes)   11 an argument was modified
    12 the model itself panicked / ran out of fuel (diag 1 / 2)
   A line with no root at all is a mismatch (pos -1, diag 13): nothing was observed.  *)
From MM Require Import Base.Num Base.GDGraph Spec.Dom Model.Dom.
Local Open Scope Z_scope.

Record rootobs := mkRO {
  ro_root : nat; ro_nil : bool;
  ro_stI : Z; ro_idom : list Z;
  ro_stD : Z; ro_nn : Z; ro_tree : list (Z * (list Z * list Z));
  ro_stF : Z; ro_df : list (list Z);
  ro_mut : Z }.

Definition p_tree_node : parser (Z * (list Z * list Z)) :=
  do i <- pZ; do a <- plist pZ; do b <- plist pZ; pret (i, (a, b)).

Definition p_root : parser rootobs :=
  do r <- pnat; do nl <- pbool;
  do sI <- pZ; do id <- plist pZ;
  do sD <- pZ; do nn <- pZ; do tr <- plist p_tree_node;
  do sF <- pZ; do df <- plist (plist pZ);
  do m <- pZ;
  pret (mkRO r nl sI id sD nn tr sF df m).

Definition p_line : parser (graph * list rootobs) :=
  do tag <- pZ; if negb (tag =? 19) then (fun _ => None) else
  do n <- pnat; do g <- prep (plist pnat) n; do rs <- plist p_root; pend (g, rs).

Definition oz (o : option nat) : Z := match o with Some k => Z.of_nat k | None => -1 end.
Definition zs (l : list nat) : list Z := map Z.of_nat l.

Fixpoint llZ_eqb (a b : list (list Z)) : bool :=
  match a, b with
  | [], [] => true
  | x :: a', y :: b' => list_Z_eqb x y && llZ_eqb a' b'
  | _, _ => false
  end.

Definition zmem (x : Z) (l : list Z) : bool := existsb (Z.eqb x) l.
Definition set_eqb (a b : list Z) : bool := forallb (fun x => zmem x b) a && forallb (fun x => zmem x a) b.

(* first index (with its expected value) at which [f i] fails *)
Fixpoint first_bad {A} (f : A -> bool) (l : list A) : option A :=
  match l with [] => None | x :: t => if f x then first_bad f t else Some x end.

(* the fuel for which Properties/C19.v proves that the model returns the specification *)
Definition fuel_for (g : graph) : nat := ((length g + 1) * (length g + 1))%nat.

(* what the oracle says for (g, r): reachable set, deletion table, idom list *)
Definition tree_ok (ispecZ : list Z) (tree : list (Z * (list Z * list Z))) : bool :=
  (fix go (es : list Z) (t : list (Z * (list Z * list Z))) : bool :=
     match es, t with
     | [], [] => true
     | e :: es', (i, (inn, _)) :: t' => (i =? e) && list_Z_eqb inn [e] && go es' t'
     | _, _ => false
     end) ispecZ tree.

Definition bor (b : bool) (k : Z) : Z := if b then k else 0.

Definition root_tag (g : graph) (insl : list (list nat)) (r : nat) (R : list nat) (av : nat -> list nat) : Z :=
  let n := length g in
  let fuel := fuel_for g in
  let irreducible :=
    match rpostorder fuel g r with
    | Ok rpo => match po_numbering g (rev rpo) with
                | Ok pn => existsb (fun u => existsb (fun v => (nth u pn 0 <=? nth v pn 0)%nat && negb (domb R av v u))
                                                     (succs g u)) R
                | _ => false end
    | _ => false end in
  bor (length R <? n)%nat 1
  + bor (existsb (fun b => let ps := nth b insl [] in (2 <=? length ps)%nat && existsb (fun p => negb (memb p R)) ps) R) 2
  + bor irreducible 4
  + bor (existsb (fun u => memb u (succs g u)) R) 8
  + bor (existsb (fun u => negb (length (dedup [] (succs g u)) =? length (succs g u))%nat) R) 16
  + bor (length (nth r insl []) =? 1)%nat 32
  + bor (existsb (fun x => match df_of g R av x with [] => false | _ => true end) R) 64
  + bor (1024 <=? n)%nat 128.

Definition check_root (g : graph) (insl : list (list nat)) (o : rootobs) : Z * option (Z * list Z) :=
  let n := length g in
  let r := ro_root o in
  let fuel := fuel_for g in
  let R := reach g r in
  let av := lookup (avoid_table_on g r R) in
  let ispec := map (idom_of R av) (seq 0 n) in
  let ispecZ := map oz ispec in
  let tag := root_tag g insl r R av in
  let fail (k : Z) (d : list Z) := (tag, Some (k, d)) in
  if negb (ro_stI o =? 0) then fail 0 [ro_stI o] else
  if negb (list_Z_eqb (ro_idom o) ispecZ) then fail 1 ispecZ else
  match idom_chk fuel g r with
  | Panic => fail 12 [1; 0]
  | NoFuel => fail 12 [2; 0]
  | Ok im =>
  if negb (list_Z_eqb (ro_idom o) (map oz im)) then fail 2 (map oz im) else
  if negb (ro_stD o =? 0) then fail 3 [ro_stD o] else
  if negb (ro_nn o =? Z.of_nat n) then fail 4 [Z.of_nat n] else
  if negb (tree_ok ispecZ (ro_tree o)) then fail 5 ispecZ else
  let outs := map (fun t => snd (snd t)) (ro_tree o) in
  match first_bad (fun i => let e := zs (children_of ispec i) in let ob := nth i outs [] in
                            set_eqb ob e && (length ob =? length e)%nat) (seq 0 n) with
  | Some i => fail 6 (Z.of_nat i :: zs (children_of ispec i))
  | None =>
  match dom_children ispec with
  | Panic => fail 12 [1; 1]
  | NoFuel => fail 12 [2; 1]
  | Ok ch =>
  if negb (llZ_eqb outs (map zs ch)) then fail 7 [] else
  if negb (ro_stF o =? 0) then fail 8 [ro_stF o] else
  let carve := (length (nth r insl []) =? 1)%nat in
  let strip (l : list Z) := if carve then filter (fun y => negb (y =? Z.of_nat r)) l else l in
  if negb (length (ro_df o) =? n)%nat then fail 9 [-1] else
  match first_bad (fun x => set_eqb (strip (nth x (ro_df o) [])) (strip (zs (df_of g R av x)))) R with
  | Some x => fail 9 (Z.of_nat x :: zs (df_of g R av x))
  | None =>
  match dom_frontier fuel g r ispec with
  | Panic => fail 12 [1; 2]
  | NoFuel => fail 12 [2; 2]
  | Ok d =>
  (* rows of reachable nodes only: the property claims nothing about the frontier of an unreachable node *)
  if negb (llZ_eqb (map (fun x => nth x (ro_df o) []) R) (map (fun x => zs (nth x d [])) R))
  then fail 10 (concat (map (fun x => Z.of_nat x :: Z.of_nat (length (nth x d [])) :: zs (nth x d [])) R)) else
  if negb (ro_mut o =? 0) then fail 11 [] else
  (tag, None)
  end end end end end.

Fixpoint check_roots (g : graph) (insl : list (list nat)) (os : list rootobs) (idx tag : Z) : Z * option (Z * list Z) :=
  match os with
  | [] => (tag, None)
  | o :: rest =>
      match check_root g insl o with
      | (t, None) => check_roots g insl rest (idx + 1) (Z.lor tag t)
      | (t, Some (k, d)) => (Z.lor tag t, Some (16 * idx + k, d))
      end
  end.

Definition check_C19 (line : list Z) : list Z :=
  match p_line line with
  | None => verdict V_MALFORMED 0 (-1) []
  | Some ((g, os), _) =>
      if negb (wfb g) || negb (forallb (fun o => (ro_root o <? length g)%nat) os) then verdict V_MALFORMED 0 (-1) [] else
      (* a line without any root observes nothing: never accepted (the harness rejects such a case) *)
      if (length os =? 0)%nat then verdict V_MISMATCH 0 (-1) [13] else
      match mk_ins g with
      | Ok insl =>
          match check_roots g insl os 0 0 with
          | (tag, None) => verdict V_OK tag (-1) []
          | (tag, Some (pos, d)) => verdict V_MISMATCH tag pos d
          end
      | _ => verdict V_MALFORMED 0 (-1) []
      end
  end.

(* Check/C20.v — correspondence comparator for C20 (purity / determinism / schedules).
   Line: 20 routine nargs mutated[nargs] det conc callIndex seedLow32 size
   The observed set of modified argument arrays must be contained in the footprint that
   the static effect analysis of Model/Heap.v computes for the routine's array program
   (empty for read-only routines; and non-empty observations are demanded for the
   documented in-place operations, whose inputs are chosen so that they must change);
   det and conc must be 1. *)
From MM Require Import Base.Num Model.Heap.

Definition p_line : parser (Z * list bool * bool * bool * Z) :=
  do tag <- pZ; if negb (tag =? 20)%Z then (fun _ => None) else
  do rid <- pZ; do mut <- plist pbool; do det <- pbool; do conc <- pbool; do idx <- pZ; do _ <- pZ; do _ <- pZ;
  pend (rid, mut, det, conc, idx).

Fixpoint observed_set (mut : list bool) (i : nat) : list nat :=
  match mut with [] => [] | b :: t => (if b then [i] else []) ++ observed_set t (S i) end.

Definition subset (a b : list nat) : bool := forallb (fun x => mem x b) a.

(* position codes: 0 = an argument outside the footprint was modified, 1 = not deterministic,
   2 = concurrent results differ / shared input modified, 3 = in-place operation changed nothing,
   4 = (pseudo-routine 30) an exported function or method taking a slice, Sample, graph or
   distribution is exercised by no entry of the harness table.  Tags: 1 read-only routine,
   2 in-place routine, 4 API-surface case. *)
Definition check_C20 (line : list Z) : list Z :=
  match p_line line with
  | None => verdict V_MALFORMED 0 (-1) []
  | Some ((rid, mut, det, conc, idx), _) =>
      match find_routine rid with
      | None => verdict V_MALFORMED 0 (-1) [rid]
      | Some r =>
          if negb (Nat.eqb (length mut) (r_nargs r)) then verdict V_MALFORMED 0 (-1) [rid] else
          let fp := footprint r in
          let obs := observed_set mut 0 in
          let tag := if (rid =? 30)%Z then 4%Z else if readonly (r_prog r) then 1%Z else 2%Z in
          if (rid =? 30)%Z && negb det then verdict V_MISMATCH tag 4 [idx]
          else if negb (subset obs fp) then verdict V_MISMATCH tag 0 (idx :: map Z.of_nat obs)
          else if negb det then verdict V_MISMATCH tag 1 [idx]
          else if negb conc then verdict V_MISMATCH tag 2 [idx]
          else if negb (readonly (r_prog r)) && (match obs with [] => true | _ => false end)
               then verdict V_MISMATCH tag 3 [idx]
          else verdict V_OK tag (-1) [idx]
      end
  end.

(* Check/C20.v — correspondence comparator for C20 (purity / determinism / schedules).
   Line: 20 routine nargs mutated[nargs] det conc panics callIndex seedLow32 size
   (mutated[i], det, conc are 0 or 1 - any other integer makes the line MALFORMED).
   The observed set of modified argument arrays must be contained in the footprint that
   the static effect analysis of Model/Heap.v computes for the routine's array program
   (empty for read-only routines; and non-empty observations are demanded for the
   documented in-place operations, whose inputs are chosen so that they must change);
   det and conc must be 1; no library call of the case may have panicked (a call that
   panics has compared nothing).
   The comparator sees only FLAGS computed by the harness.  Routine ids 40..45 are the
   harness's CANARIES (harness/c20canary.go): deliberately impure / history-dependent /
   schedule-dependent functions defined in the harness that go through the same pipeline;
   for them the comparator demands that they ARE flagged ([canary_expect]), so a harness that
   no longer sees modifications, repeats or schedules fails the run. *)
From MM Require Import Base.Num Model.Heap.

(* a flag: exactly 0 or 1 *)
Definition p01 : parser bool :=
  do z <- pZ; if (z =? 0)%Z then pret false else if (z =? 1)%Z then pret true else (fun _ => None).

Definition p_line : parser (Z * list bool * bool * bool * Z * Z) :=
  do tag <- pZ; if negb (tag =? 20)%Z then (fun _ => None) else
  do rid <- pZ; do mut <- plist p01; do det <- p01; do conc <- p01; do pan <- pZ; do idx <- pZ; do _ <- pZ; do _ <- pZ;
  pend (rid, mut, det, conc, pan, idx).

Fixpoint observed_set (mut : list bool) (i : nat) : list nat :=
  match mut with [] => [] | b :: t => (if b then [i] else []) ++ observed_set t (S i) end.

Definition subset (a b : list nat) : bool := forallb (fun x => mem x b) a.

Fixpoint list_bool_eqb (a b : list bool) : bool :=
  match a, b with
  | [], [] => true
  | x :: a', y :: b' => Bool.eqb x y && list_bool_eqb a' b'
  | _, _ => false
  end.

(* what the harness must report for its own canaries: the exact modification flags, det / conc
   where the canary fixes them (None: not constrained) and the exact number of panics *)
Definition canary_expect (rid : Z) : option (list bool * option bool * option bool * Z) :=
  if (rid =? 40)%Z then Some ([true; true; false], Some true, Some true, 0%Z)   (* sorts arg 0, writes the spare capacity of arg 1, reads arg 2 *)
  else if (rid =? 41)%Z then Some ([false], Some false, None, 0%Z)              (* call counter / cache keyed by address / process history *)
  else if (rid =? 42)%Z then Some ([false], Some true, Some false, 0%Z)         (* result depends on another call being in flight *)
  else if (rid =? 43)%Z then Some ([false], Some true, Some true, 0%Z)          (* data race on a harness global: judged by the -race twin *)
  else if (rid =? 44)%Z then Some ([false], Some true, Some true, 1%Z)          (* always panics: the panic must be counted *)
  else if (rid =? 45)%Z then Some ([false], Some false, None, 0%Z)              (* first call of a case differs from every later one: only the plain repeat sees it *)
  else None.

Definition opt_ok (e : option bool) (b : bool) : bool := match e with None => true | Some x => Bool.eqb x b end.

(* position codes: 0 = an argument outside the footprint was modified, 1 = not deterministic,
   2 = concurrent results differ / shared input modified, 3 = in-place operation changed nothing,
   4 = (pseudo-routine 30) an exported function or method taking a slice, Sample, graph or
   distribution is exercised by no entry of the harness table, 5 = a library call of the case
   panicked (nothing was compared), 6 = a canary of the harness was not flagged as it must be
   (the harness is blind).  Tags: 1 read-only routine, 2 in-place routine, 4 API-surface case,
   8 canary. *)
Definition check_C20 (line : list Z) : list Z :=
  match p_line line with
  | None => verdict V_MALFORMED 0 (-1) []
  | Some ((rid, mut, det, conc, pan, idx), _) =>
      match canary_expect rid with
      | Some (em, ed, ec, ep) =>
          if list_bool_eqb mut em && opt_ok ed det && opt_ok ec conc && (pan =? ep)%Z
          then verdict V_OK 8 (-1) [idx] else verdict V_MISMATCH 8 6 [idx; rid]
      | None =>
      match find_routine rid with
      | None => verdict V_MALFORMED 0 (-1) [rid]
      | Some r =>
          if negb (Nat.eqb (length mut) (r_nargs r)) then verdict V_MALFORMED 0 (-1) [rid] else
          let fp := footprint r in
          let obs := observed_set mut 0 in
          let tag := if (rid =? 30)%Z then 4%Z else if readonly (r_prog r) then 1%Z else 2%Z in
          if (rid =? 30)%Z && negb det then verdict V_MISMATCH tag 4 [idx]
          else if negb (subset obs fp) then verdict V_MISMATCH tag 0 (idx :: map Z.of_nat obs)
          else if negb det then verdict V_MISMATCH tag 1 [idx]
          else if negb conc then verdict V_MISMATCH tag 2 [idx]
          else if negb (pan =? 0)%Z then verdict V_MISMATCH tag 5 [idx; pan]
          else if negb (readonly (r_prog r)) && (match obs with [] => true | _ => false end)
               then verdict V_MISMATCH tag 3 [idx]
          else verdict V_OK tag (-1) [idx]
      end
      end
  end.

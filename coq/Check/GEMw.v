(* Check/GEMw.v (group gE) — shared by Check/C01.v and Check/C03.v: decoding and comparison of
   one "run" of MannWhitneyUTest on fixed samples and limits under several alternatives.
   run :=  EL TL |x1| x1... |x2| x2...  ncalls { alt status N1 N2 U P althyp zf phi }*  pure
     EL, TL     the two package-level limit variables during the calls (integers)
     x1, x2     float64 bit patterns (finite)
     status     0 result, 1 ErrSampleSize, 2 ErrSamplesEqual, 3 other error, 4 panic
     U, P       float64 bit patterns; althyp the AltHypothesis echoed in the result
     zf, phi    oracle instantiation for the normal branch (DESIGN 3): a float64 z computed by the
                harness and the implementation's own StdNormal.CDF(zf); the comparator verifies zf
                against the model's exact z^2 and sign, so the harness arithmetic is not trusted
     pure       1 iff both argument slices are bit-identical after the calls and the limits were restored
   Verdict codes: 0 ok, 2 mismatch, 10 = known finding D2 (two-sided exact p-value equals the legacy
   formula 2*CDF(min(U1,U2)) where the specified min(1, 2 min(Pr[U'<=U], Pr[U'>=U])) differs). *)
From Coq Require Import Qround.
From MM Require Import Base.Num Base.GEComb Model.GEChoose Model.Udist Model.Utest.
Local Open Scope Z_scope.

Definition V_KNOWN_D2 : Z := 10.

Record mwcall := mkCall { c_alt : Z; c_status : Z; c_n1 : Z; c_n2 : Z; c_U : xreal; c_P : xreal; c_althyp : Z;
                          c_zf : xreal; c_phi : xreal }.
Definition p_call : parser mwcall :=
  do a <- pZ; do st <- pZ; do n1 <- pZ; do n2 <- pZ; do u <- pX; do p <- pX; do ah <- pZ; do zf <- pX; do phi <- pX;
  pret (mkCall a st n1 n2 u p ah zf phi).
Record mwrun := mkRun { r_EL : Z; r_TL : Z; r_x1 : list Q; r_x2 : list Q; r_calls : list mwcall; r_pure : Z }.
Definition p_run : parser mwrun :=
  do el <- pZ; do tl <- pZ; do x1 <- plist pQ; do x2 <- plist pQ; do cs <- plist_any p_call; do pure <- pZ;
  pret (mkRun el tl x1 x2 cs pure).

(* the executable twin of UDist.CDF: the whole distribution once per run (Proofs/UdistTable.v) *)
Definition table_cdf (n1 n2 : nat) (T : list nat) : Q -> Q :=
  let tbl := dist_table n1 n2 T in
  let cs := cumsum 0 tbl in
  let tot := choosen (n1 + n2) n1 in
  fast_cdf n1 n2 T cs tot.

Local Open Scope Q_scope.
Definition tol_p (e : Q) : Q := (1 # 10000000000) + (1 # 1000000000) * Qabs e.     (* abs 1e-10 + rel 1e-9 *)
Definition tol_phi : Q := 1 # 1000000000.                                           (* abs 1e-9 (C03) *)

(* tag bits: 1 exact untied, 2 exact tied, 4 normal approximation, 8 legacy two-sided value differs
   from the specified one, 16 ErrSamplesEqual, 32 exact branch with a TIED PALINDROMIC tie vector
   (T = rev T: by C01_two_sided_symmetric bit 8 cannot occur together with bit 32 for the same call);
   0 = ErrSampleSize (trivial) *)
Fixpoint nat_list_eqb (a b : list nat) : bool :=
  match a, b with
  | [], [] => true
  | x :: a', y :: b' => Nat.eqb x y && nat_list_eqb a' b'
  | _, _ => false
  end.
Definition palin (T : list nat) : bool := nat_list_eqb (rev T) T.
Definition res_tag (s : mwstat) (r : mwres) : Z :=
  let ties := ms_ties s in
  match r with
  | MWErrSize => 0%Z
  | MWErrEqual => 16%Z
  | MWExact _ _ _ p ps => ((if ties then 2 else 1) + (if Qeq_bool p ps then 0 else 8)
                           + (if ties && palin (ms_T s) then 32 else 0))%Z
  | MWApprox _ _ _ _ _ => 4%Z
  end.

(* compare one call with the model result: (code, which observable, expected value) *)
Definition cmp_call (r : mwres) (c : mwcall) : Z * Z * Q :=
  let bad (w : Z) (e : Q) := (V_MISMATCH, w, e) in
  match r with
  | MWErrSize => if (c_status c =? 1)%Z then (V_OK, 0%Z, 0) else bad 0%Z 1
  | MWErrEqual => if (c_status c =? 2)%Z then (V_OK, 0%Z, 0) else bad 0%Z 2
  | MWExact n1 n2 twoU p ps =>
      if negb (c_status c =? 0)%Z then bad 0%Z 0
      else if negb ((c_n1 c =? Z.of_nat n1)%Z && (c_n2 c =? Z.of_nat n2)%Z) then bad 1%Z (QN n1)
      else if negb (xeq (XFin (half twoU)) (c_U c)) then bad 2%Z (half twoU)
      else if negb (c_althyp c =? c_alt c)%Z then bad 4%Z 0
      else if xwithin (tol_p ps) (XFin ps) (c_P c) then (V_OK, 3%Z, ps)
      else if xwithin (tol_p p) (XFin p) (c_P c) then (V_KNOWN_D2, 3%Z, ps)
      else bad 3%Z ps
  | MWApprox n1 n2 twoU num2 sig2 =>
      if negb (c_status c =? 0)%Z then bad 0%Z 0
      else if negb ((c_n1 c =? Z.of_nat n1)%Z && (c_n2 c =? Z.of_nat n2)%Z) then bad 1%Z (QN n1)
      else if negb (xeq (XFin (half twoU)) (c_U c)) then bad 2%Z (half twoU)
      else if negb (c_althyp c =? c_alt c)%Z then bad 4%Z 0
      else match c_zf c, c_phi c, c_P c with
           | XFin zf, XFin phi, XFin pobs =>
               let nsq := inject_Z (num2 * num2) / 4 in                         (* numer^2 *)
               (* zf is the model's z: same sign, zf^2 * sigma^2 = numer^2 to 1e-9 relative *)
               if negb ((Z.sgn (Qnum zf) =? Z.sgn num2)%Z && within ((1 # 1000000000) * nsq) nsq (zf * zf * sig2))
               then bad 5%Z (nsq / sig2)
               else if negb (Qle_bool 0 phi && Qle_bool phi 1) then bad 6%Z phi
               else let e := mw_approx_p phi (c_alt c) in
                    if within tol_phi e pobs then (V_OK, 3%Z, e) else bad 3%Z e
           | _, _, _ => bad 5%Z 0
           end
  end.

(* run the model once per alternative (the distribution table is shared through [cdf]) *)
Fixpoint cmp_calls (run : mwrun) (empty : bool) (s : mwstat) (cdf : nat -> nat -> list nat -> Q -> Q) (cs : list mwcall) (i : Z)
                   (code tag : Z) : Z * Z * option (Z * Z * Q) :=
  match cs with
  | [] => (code, tag, None)
  | c :: rest =>
      let r := mw_test_s cdf (r_EL run) (r_TL run) empty s (c_alt c) in
      let '(cd, w, e) := cmp_call r c in
      let tag' := Z.lor tag (res_tag s r) in
      if (cd =? V_MISMATCH)%Z then (V_MISMATCH, tag', Some (i, w, e))
      else cmp_calls run empty s cdf rest (i + 1)%Z (Z.max code cd) tag'
  end.

(* the rank pass and the distribution table are computed once per run: n1, n2, T, U do not depend on the
   alternative (mw_test = mw_test_s on mw_stat by definition) *)
Definition check_run (run : mwrun) : Z * Z * option (Z * Z * Q) :=
  if negb (r_pure run =? 1)%Z then (V_MISMATCH, 0%Z, Some ((-1)%Z, 7%Z, 0))
  else
    let s := mw_stat Qcompare (r_x1 run) (r_x2 run) in
    let empty := is_nil (r_x1 run) || is_nil (r_x2 run) in
    (* the table is only needed (and only affordable) when the exact branch is taken *)
    let f := if negb empty && use_exact (ms_ties s) (ms_n1 s) (ms_n2 s) (r_EL run) (r_TL run)
                && negb (length (ms_T s) =? 1)%nat
             then table_cdf (ms_n1 s) (ms_n2 s) (ms_T s) else (fun _ => 0) in
    cmp_calls run empty s (fun _ _ _ => f) (r_calls run) 0%Z V_OK 0%Z.

(* Model/Binom.v — stats/binomdist.go, exact rationals.  DEFINITIONS ONLY. *)
From MM Require Import Base.Num Base.GFSum Model.Choose.
From Coq Require Import Qround.
Local Open Scope Q_scope.

(* PMF (binomdist.go:26-32): ki = floor k; 0 outside 0..N; Choose(N,ki) * P^ki * (1-P)^(N-ki) *)
Definition binom_pmf_i (n : Z) (p : Q) (ki : Z) : Q :=
  if (ki <? 0)%Z || (n <? ki)%Z then 0
  else inject_Z (choose n ki) * qpow p (Z.to_nat ki) * qpow (1 - p) (Z.to_nat (n - ki)).
Definition binom_pmf (n : Z) (p : Q) (k : Q) : Q := binom_pmf_i n p (Qfloor k).

(* mathx.BetaInc(x, a, b) at positive integer a, b (beta.go:28-56 evaluates the continued
   fraction; its value is the regularized incomplete beta function, whose closed form at
   integer parameters is the binomial tail  sum_{j=a}^{a+b-1} C(a+b-1,j) x^j (1-x)^(a+b-1-j)) *)
Definition ibeta_int (x : Q) (a b : Z) : Q :=
  let m := (a + b - 1)%Z in
  Qsum_n (fun i => let j := (a + Z.of_nat i)%Z in
                   inject_Z (choose m j) * qpow x (Z.to_nat j) * qpow (1 - x) (Z.to_nat (m - j)))
         (Z.to_nat b).

(* CDF (binomdist.go:36-46): floor; 0 below 0; 1 from N; else BetaInc(1-P, N-ki, ki+1) *)
Definition binom_cdf_i (n : Z) (p : Q) (ki : Z) : Q :=
  if (ki <? 0)%Z then 0
  else if (n <=? ki)%Z then 1
  else ibeta_int (1 - p) (n - ki) (ki + 1).
Definition binom_cdf (n : Z) (p : Q) (k : Q) : Q := binom_cdf_i n p (Qfloor k).

(* Bounds, Step (binomdist.go:48-54) *)
Definition binom_bounds (n : Z) : Z * Z := (0%Z, n).
Definition binom_step : Z := 1%Z.
(* Mean, Variance (binomdist.go:56-62) *)
Definition binom_mean (n : Z) (p : Q) : Q := inject_Z n * p.
Definition binom_var (n : Z) (p : Q) : Q := inject_Z n * p * (1 - p).
(* NormalApprox (binomdist.go:75-77): NormalDist{Mu: Mean, Sigma: sqrt(Variance)}; the model
   returns (mu, sigma^2) — square roots are never taken in the model *)
Definition binom_normal_approx (n : Z) (p : Q) : Q * Q := (binom_mean n p, binom_var n p).

(* Model/Choose.v — mathx/choose.go, exact integers.  DEFINITIONS ONLY.
   Choose (choose.go:22-45): guards k==0||k==n -> 1, k<0||n<k -> 0; for n <= 20 the code
   evaluates numer/denom with numer = (n-k+1)...n in int64 and denom = k! (choose_small);
   for larger n it takes exp(lgamma(n+1)-lgamma(k+1)-lgamma(n-k+1)).  Both are the binomial
   coefficient; the exact model computes it by the exact recurrence c <- c*(n-i)/(i+1)
   (Proofs/Choose.v: choose = Pascal's binomial, choose_small agrees and does not
   overflow int64 for n <= 20). *)
From MM Require Import Base.Num.
Local Open Scope Z_scope.

(* c_{i+1} = c_i * (n - i) / (i + 1); every division is exact *)
Fixpoint choose_iter (n : Z) (steps : nat) (i c : Z) : Z :=
  match steps with
  | O => c
  | S s => choose_iter n s (i + 1) (c * (n - i) / (i + 1))
  end.

Definition choose (n k : Z) : Z :=
  if (k =? 0) || (k =? n) then 1
  else if (k <? 0) || (n <? k) then 0
  else choose_iter n (Z.to_nat k) 0 1.

(* choose.go:36-41: the int64 branch for n <= smallFactLimit = 20 *)
Fixpoint prod_up (lo : Z) (cnt : nat) : Z :=      (* lo * (lo+1) * ... (cnt factors) *)
  match cnt with O => 1 | S c => lo * prod_up (lo + 1) c end.
Definition falling (n k : Z) : Z := prod_up (n - (k - 1)) (Z.to_nat k).     (* numer *)
Definition fact (k : Z) : Z := prod_up 1 (Z.to_nat k).                       (* smallFact[k] *)
Definition choose_small (n k : Z) : Z :=
  if (k =? 0) || (k =? n) then 1
  else if (k <? 0) || (n <? k) then 0
  else falling n k / fact k.

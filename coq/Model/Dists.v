(* Model/Dists.v — exact model of the parts of stats/{deltadist,normaldist,tdist}.go that
   are rational: DeltaDist completely; NormalDist.{Mean,Variance,Bounds,Rand} and the
   special-value structure of InvCDF; TDist.Bounds and CDF(0).  DEFINITIONS ONLY.
   The transcendental values (normal/t PDF and CDF) are specified over the reals in
   RealSpec/{Normal,TDist}.v and decided per case by certificate goals. *)
From MM Require Import Base.Num.
Local Open Scope Q_scope.

(* comparisons of extended reals as float64 does them (false when a NaN is involved) *)
Definition xlt (a b : xreal) : bool :=
  match a, b with
  | XNaN, _ | _, XNaN => false
  | XInf true, XInf true => false | XInf true, _ => true
  | _, XInf true => false
  | XInf false, _ => false
  | _, XInf false => true
  | XFin p, XFin q => Qltb p q
  end.
Definition xeqf (a b : xreal) : bool :=
  match a, b with
  | XNaN, _ | _, XNaN => false
  | XInf s, XInf t => Bool.eqb s t
  | XFin p, XFin q => Qeqb p q
  | _, _ => false
  end.
Definition xle (a b : xreal) : bool := xlt a b || xeqf a b.

(* ---------- deltadist.go ---------- *)
(* :16-21  PDF: +inf at T, 0 elsewhere *)
Definition delta_pdf (T x : xreal) : xreal := if xeqf x T then XInf false else XFin 0.
(* :33-38  CDF: the unit step at T (right-continuous: 1 at T) *)
Definition delta_cdf (T x : xreal) : xreal := if xle T x then XFin 1 else XFin 0.
(* :48-53  InvCDF: NaN outside [0,1], T otherwise *)
Definition delta_invcdf (T y : xreal) : xreal :=
  if xlt y (XFin 0) || xlt (XFin 1) y then XNaN else T.
(* :55-57  Bounds *)
Definition delta_bounds (T : Q) : Q * Q := (T - 1, T + 1).

(* ---------- normaldist.go ---------- *)
(* :145-147 Mean, :149-151 Variance, :140-143 Bounds (3 standard deviations) *)
Definition normal_mean (mu sigma : Q) : Q := mu.
Definition normal_variance (mu sigma : Q) : Q := sigma * sigma.
Definition normal_bounds (mu sigma : Q) : Q * Q := (mu - 3 * sigma, mu + 3 * sigma).
(* :130-138 Rand: the standard normal variate z of the source, scaled and shifted *)
Definition normal_rand (mu sigma z : Q) : Q := z * sigma + mu.
(* :92-98 InvCDF special values: Some r when the result does not depend on the
   approximation; None = interior probability (0 < p < 1), value decided by
   CDF(InvCDF p) = p *)
Definition normal_invcdf_special (p : xreal) : option xreal :=
  if xlt p (XFin 0) || xlt (XFin 1) p then Some XNaN
  else if xeqf p (XFin 0) then Some (XInf true)
  else if xeqf p (XFin 1) then Some (XInf false)
  else match p with XNaN => Some XNaN | _ => None end.

(* :88-89, :100-115 which of Acklam's three rational approximations an interior probability
   goes through.  plow = 0.02425 and phigh = 1 - plow are untyped constants (phigh = 0.97575
   exactly); the comparisons p < plow and phigh < p are float64 comparisons against the nearest
   doubles, whose exact values are these rationals. *)
Definition acklam_plow : Q := 3494793310839505 # 144115188075855872.     (* float64(0.02425), 2^57 *)
Definition acklam_phigh : Q := 8788774672813523 # 9007199254740992.      (* float64(0.97575), 2^53 *)
Inductive invcdf_region := RLow | RCentral | RHigh.
Definition invcdf_region_of (p : Q) : invcdf_region :=
  if Qltb p acklam_plow then RLow else if Qltb acklam_phigh p then RHigh else RCentral.

(* ---------- tdist.go ---------- *)
(* :40-42 Bounds *)
Definition tdist_bounds : Q * Q := (-(4), 4).
(* :28-38 CDF: exact structure: 1/2 at 0; for x < 0 computed as 1 - CDF(-x); NaN at NaN *)
Inductive tcdf_branch := TZero | TPos | TNeg | TNaN.
Definition tcdf_branch_of (x : xreal) : tcdf_branch :=
  if xeqf x (XFin 0) then TZero else if xlt (XFin 0) x then TPos else if xlt x (XFin 0) then TNeg else TNaN.

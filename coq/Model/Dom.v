(* Model/Dom.v — executable model of graph/graphalg/dom.go (IDom, intersect, DomFrontier,
   Dom), of PostOrder/Reverse in graph/graphalg/order.go and of MakeBiGraph in
   graph/graph.go, as written (with the repair D12 of DESIGN section 6: DomFrontier skips
   predecessors that are unreachable from the root).  DEFINITIONS ONLY.
   Nodes are [nat]; the Go value -1 in an idom slice is [None].
   Every Go slice index is a [get]/[set] that yields [Panic] when out of range, every
   loop that is not a range-loop runs on fuel and yields [NoFuel] when it is exhausted
   (so a Go panic and a Go non-termination are both visible in the result). *)
From Coq Require Import List Arith Bool PeanoNat.
From MM Require Import Base.GDGraph.
Import ListNotations.

Inductive res (A : Type) : Type := Ok (a : A) | Panic | NoFuel.
Arguments Ok {A} a.
Arguments Panic {A}.
Arguments NoFuel {A}.

Definition rbind {A B} (x : res A) (f : A -> res B) : res B :=
  match x with Ok a => f a | Panic => Panic | NoFuel => NoFuel end.
Notation "'rdo' x <- p ; q" := (rbind p (fun x => q)) (at level 200, x pattern, p at level 100, q at level 200).

(* a range loop with early exit on panic *)
Fixpoint fold_res {A B} (f : A -> B -> res A) (l : list B) (a : A) : res A :=
  match l with
  | [] => Ok a
  | x :: t => match f a x with Ok a' => fold_res f t a' | Panic => Panic | NoFuel => NoFuel end
  end.

(* s[i] and s[i] = x *)
Definition get {A} (l : list A) (i : nat) : res A :=
  match nth_error l i with Some x => Ok x | None => Panic end.
Fixpoint set {A} (l : list A) (i : nat) (x : A) : res (list A) :=
  match l, i with
  | [], _ => Panic
  | _ :: t, O => Ok (x :: t)
  | y :: t, S k => match set t k x with Ok t' => Ok (y :: t') | Panic => Panic | NoFuel => NoFuel end
  end.

Definition oeqb (a b : option nat) : bool :=
  match a, b with
  | None, None => true
  | Some x, Some y => x =? y
  | _, _ => false
  end.

(* graph.go:33-47 MakeBiGraph: preds[j] = append(preds[j], i) for i ascending, j in Out(i) order *)
Definition mk_ins (g : graph) : res (list (list nat)) :=
  fold_res (fun ins io =>
              fold_res (fun ins j => rdo c <- get ins j; set ins j (c ++ [fst io])) (snd io) ins)
           (combine (seq 0 (length g)) g) (repeat [] (length g)).

(* order.go:31-47 PostOrder.  State = (visited marks, nodes finished so far, LATEST FIRST);
   fuel bounds the recursion depth of visit. *)
Fixpoint po_visit (fuel : nat) (g : graph) (n : nat) (st : list nat * list nat) : res (list nat * list nat) :=
  match fuel with
  | O => NoFuel
  | S f =>
      rdo out <- get g n;                                               (* g.Out(n) *)
      rdo st' <- fold_res (fun st s => if memb s (fst st) then Ok st else po_visit f g s st)
                          out (n :: fst st, snd st);                     (* visited.Mark(n); loop *)
      Ok (fst st', n :: snd st')                                         (* out = append(out, n) *)
  end.
(* reverse post-order (= Reverse(PostOrder(g, root))) *)
Definition rpostorder (fuel : nat) (g : graph) (root : nat) : res (list nat) :=
  rdo st <- po_visit fuel g root ([], []); Ok (snd st).

(* dom.go:22-27: poNum[n] = i for i, n := range po; nodes not visited keep 0 *)
Definition po_numbering (g : graph) (po : list nat) : res (list nat) :=
  fold_res (fun pn ip => set pn (snd ip) (fst ip)) (combine (seq 0 (length po)) po) (repeat 0 (length g)).

(* dom.go:72-82 intersect.  The two nested loops are flattened: one finger step per unit of fuel.
   Following a -1 link makes the next poNum[...] index panic. Equal numbers on distinct
   nodes would spin for ever. *)
Fixpoint intersect (fuel : nat) (idom : list (option nat)) (poNum : list nat) (b1 b2 : nat) : res nat :=
  if b1 =? b2 then Ok b1 else
  match fuel with
  | O => NoFuel
  | S f =>
      rdo n1 <- get poNum b1; rdo n2 <- get poNum b2;
      if n1 <? n2 then
        rdo i <- get idom b1; match i with None => Panic | Some b1' => intersect f idom poNum b1' b2 end
      else if n2 <? n1 then
        rdo i <- get idom b2; match i with None => Panic | Some b2' => intersect f idom poNum b1 b2' end
      else NoFuel
  end.

(* dom.go:47-57: newIdom of b from its processed predecessors *)
Definition new_idom (fuel : nat) (idom : list (option nat)) (poNum : list nat) (ps : list nat) : res (option nat) :=
  fold_res (fun cur p =>
              rdo ip <- get idom p;
              match ip with
              | None => Ok cur                                          (* idom[p] == -1: continue *)
              | Some _ => match cur with
                          | None => Ok (Some p)
                          | Some c => rdo x <- intersect fuel idom poNum p c; Ok (Some x)
                          end
              end) ps None.

(* dom.go:42-62: one node of the sweep *)
Definition sweep_node (fuel : nat) (insl : list (list nat)) (poNum : list nat) (root : nat)
           (st : list (option nat) * bool) (b : nat) : res (list (option nat) * bool) :=
  if b =? root then Ok st else
  rdo ps <- get insl b;
  rdo ni <- new_idom fuel (fst st) poNum ps;
  rdo old <- get (fst st) b;
  if oeqb old ni then Ok st else rdo idom' <- set (fst st) b ni; Ok (idom', true).

Definition sweep (fuel : nat) (insl : list (list nat)) (poNum rpo : list nat) (root : nat) (idom : list (option nat))
  : res (list (option nat) * bool) :=
  fold_res (sweep_node fuel insl poNum root) rpo (idom, false).

(* dom.go:38-63: for changed { ... } *)
Fixpoint iterate (n fuel : nat) (insl : list (list nat)) (poNum rpo : list nat) (root : nat) (idom : list (option nat))
  : res (list (option nat)) :=
  match n with
  | O => NoFuel
  | S k => rdo st <- sweep fuel insl poNum rpo root idom;
           if snd st then iterate k fuel insl poNum rpo root (fst st) else Ok (fst st)
  end.

(* dom.go:11-69 IDom *)
Definition idom_chk (fuel : nat) (g : graph) (root : nat) : res (list (option nat)) :=
  rdo insl <- mk_ins g;
  rdo rpo <- rpostorder fuel g root;
  rdo poNum <- po_numbering g (rev rpo);
  rdo idom0 <- set (repeat None (length g)) root (Some root);
  rdo idom <- iterate fuel fuel insl poNum rpo root idom0;
  set idom root None.

(* dom.go:108-119: walk up from runner until bdom, adding b to each frontier once *)
Fixpoint df_walk (fuel : nat) (idom : list (option nat)) (df : list (list nat))
         (runner bdom : option nat) (b : nat) : res (list (list nat)) :=
  if oeqb runner bdom then Ok df else
  match fuel with
  | O => NoFuel
  | S f =>
      match runner with
      | None => Panic                                                   (* df[-1] *)
      | Some rn =>
          rdo cur <- get df rn;
          rdo df' <- (if memb b cur then Ok df else set df rn (cur ++ [b]));
          rdo nx <- get idom rn;
          df_walk f idom df' nx bdom b
      end
  end.

(* dom.go:97-121 *)
Definition df_node (fuel : nat) (insl : list (list nat)) (root : nat) (idom : list (option nat))
           (df : list (list nat)) (b : nat) : res (list (list nat)) :=
  rdo bdom <- get idom b;
  rdo ps <- get insl b;
  if length ps <? 2 then Ok df else
  fold_res (fun df pred =>
              rdo ip <- get idom pred;
              if negb (pred =? root) && oeqb ip None then Ok df      (* pred unreachable (D12 repair) *)
              else df_walk fuel idom df (Some pred) bdom b) ps df.

(* dom.go:87-127 DomFrontier with idom given *)
Definition dom_frontier (fuel : nat) (g : graph) (root : nat) (idom : list (option nat)) : res (list (list nat)) :=
  rdo insl <- mk_ins g;
  fold_res (df_node fuel insl root idom) (seq 0 (length idom)) (repeat [] (length g)).

(* dom.go:131-155 Dom: children[parent] = append(children[parent], node) in node order
   (the carving of one backing slice gives each list exactly its final capacity) *)
Definition dom_children (idom : list (option nat)) : res (list (list nat)) :=
  fold_res (fun ch np =>
              match snd np with
              | None => Ok ch
              | Some p => rdo c <- get ch p; set ch p (c ++ [fst np])
              end)
           (combine (seq 0 (length idom)) idom) (repeat [] (length idom)).

(* Model/Dot.v — graph/graphout/dot.go: DotString 113-134, formatAttrs 139-170, Fprint 67-112
   (Sprint 60-64 returns what Fprint writes).  DEFINITIONS ONLY.
   Strings are lists of bytes (N).  fmt's %d of an int is [dec_Z]; attribute values are the
   string / int / uint / DotLiteral cases of formatAttrs (float64 goes through fmt's %v, which
   is not modelled); any other dynamic type makes formatAttrs panic = None. *)
From Coq Require Import List NArith ZArith Bool.
From MM Require Import Base.GCGraph.
Import ListNotations.
Open Scope N_scope.

Definition bytes := list N.

(* DotString, dot.go:113-134 *)
Definition dot_special (c : N) : bool :=
  (c =? 92) || (c =? 34) || (c =? 123) || (c =? 125) || (c =? 60) || (c =? 62) || (c =? 124).  (* backslash, double quote, braces, angle brackets, bar *)
Definition dot_esc (c : N) : bytes :=
  if c =? 10 then [92; 110]                    (* \n -> backslash n *)
  else if dot_special c then [92; c]
  else [c].
Definition dot_string (s : bytes) : bytes := 34 :: flat_map dot_esc s ++ [34].

(* the reader's side: a dot quoted string ends at the first unescaped quote; backslash n is a
   newline, backslash c is c *)
Fixpoint unescape_body (l : bytes) : option (bytes * bytes) :=
  match l with
  | [] => None
  | c :: r =>
      if c =? 34 then Some ([], r)
      else if c =? 92 then
        match r with
        | [] => None
        | d :: r' => match unescape_body r' with
                     | Some (s, rest) => Some ((if d =? 110 then 10 else d) :: s, rest)
                     | None => None
                     end
        end
      else match unescape_body r with
           | Some (s, rest) => Some (c :: s, rest)
           | None => None
           end
  end.
Definition unescape (l : bytes) : option bytes :=
  match l with
  | c :: r => if c =? 34 then match unescape_body r with Some (s, []) => Some s | _ => None end else None
  | [] => None
  end.

(* fmt %d *)
Fixpoint dec_digits (fuel : nat) (n : N) (acc : bytes) : bytes :=
  match fuel with
  | O => acc
  | S f => let acc' := (48 + n mod 10) :: acc in
           if n <? 10 then acc' else dec_digits f (n / 10) acc'
  end.
Definition dec_N (n : N) : bytes := dec_digits (S (N.size_nat n)) n [].
Definition dec_Z (z : Z) : bytes :=
  match z with
  | Zneg p => 45 :: dec_N (Npos p)
  | _ => dec_N (Z.to_N z)
  end.

Inductive attr_val := AStr (s : bytes) | AInt (z : Z) | ALit (s : bytes) | AOther.
Definition attr := (bytes * attr_val)%type.

Definition fmt_val (v : attr_val) : option bytes :=
  match v with
  | AStr s => Some (dot_string s)
  | AInt z => Some (dec_Z z)
  | ALit s => Some s
  | AOther => None                               (* panic: unknown type *)
  end.

(* name=value joined by commas *)
Fixpoint fmt_attr_list (first : bool) (l : list attr) : option bytes :=
  match l with
  | [] => Some []
  | (name, v) :: t =>
      match fmt_val v, fmt_attr_list false t with
      | Some fv, Some rest => Some ((if first then [] else [44]) ++ name ++ [61] ++ fv ++ rest)
      | _, _ => None
      end
  end.
(* formatAttrs, dot.go:139-170 *)
Definition format_attrs (l : list attr) : option bytes :=
  match l with
  | [] => Some []
  | _ => match fmt_attr_list true l with
         | Some b => Some ([32; 91] ++ b ++ [93])          (* space, open bracket ... close bracket *)
         | None => None
         end
  end.

Definition str_label : bytes := [108; 97; 98; 101; 108].   (* the bytes of: label *)
Fixpoint bytes_eqb (a b : bytes) : bool :=
  match a, b with
  | [], [] => true
  | x :: a', y :: b' => (x =? y) && bytes_eqb a' b'
  | _, _ => false
  end.

Record dot_opts := mk_dot_opts {
  d_name : bytes;
  d_label : option (N -> bytes);                 (* Label; None = nil = node number *)
  d_nattrs : option (N -> list attr);            (* NodeAttrs *)
  d_eattrs : option (N -> N -> list attr)        (* EdgeAttrs(node, edge index) *)
}.

(* the statements Fprint writes, in order: one node statement per node followed by one edge
   statement per out-edge *)
Inductive stmt := SNode (i : N) (attrs : list attr) | SEdge (i o : N) (attrs : option (list attr)).

(* dot.go:81-96 *)
Definition node_attrs (d : dot_opts) (i : N) : list attr :=
  let l := match d_nattrs d with Some f => f i | None => [] end in
  if existsb (fun a => bytes_eqb (fst a) str_label) l then l
  else l ++ [(str_label, AStr (match d_label d with Some f => f i | None => dec_N i end))].

Fixpoint edge_stmts (d : dot_opts) (i : N) (outs : list N) (j : N) : list stmt :=
  match outs with
  | [] => []
  | o :: t => SEdge i o (match d_eattrs d with Some f => Some (f i j) | None => None end)
              :: edge_stmts d i t (j + 1)
  end.

Definition dot_stmts (d : dot_opts) (out : N -> list N) (n : N) : list stmt :=
  flat_map (fun i => SNode i (node_attrs d i) :: edge_stmts d i (out i) 0) (nodes_upto n).

Definition opt_app (a : option bytes) (b : option bytes) : option bytes :=
  match a, b with Some x, Some y => Some (x ++ y) | _, _ => None end.

(* the formats  n%d%s;\n  and  n%d -> n%d%s;\n *)
Definition render_stmt (s : stmt) : option bytes :=
  match s with
  | SNode i attrs =>
      option_map (fun a => [110] ++ dec_N i ++ a ++ [59; 10]) (format_attrs attrs)
  | SEdge i o attrs =>
      option_map (fun a => [110] ++ dec_N i ++ [32; 45; 62; 32; 110] ++ dec_N o ++ a ++ [59; 10])
                 (match attrs with Some l => format_attrs l | None => Some [] end)
  end.

Fixpoint render_all (l : list stmt) : option bytes :=
  match l with
  | [] => Some []
  | s :: t => opt_app (render_stmt s) (render_all t)
  end.

(* Fprint / Sprint: digraph %s {\n ... }\n *)
Definition dot_sprint (d : dot_opts) (out : N -> list N) (n : N) : option bytes :=
  option_map (fun body => [100; 105; 103; 114; 97; 112; 104; 32] ++ dot_string (d_name d) ++ [32; 123; 10]
                          ++ body ++ [125; 10])
             (render_all (dot_stmts d out n)).

(* Model/Fit.v — fit/lsquares.go (LinearLeastSquares, PolynomialRegression) and
   fit/loess.go (LOESS), exact arithmetic over Q.  DEFINITIONS ONLY.
   The design matrix is held the way the Go code holds it: as the list of the
   term functions' outputs, i.e. the rows of XT (one list of n values per term).
   gonum's solver is NOT modelled: [solve_checked] is an exact solver that
   answers only after verifying A.beta = b. *)
From MM Require Import Base.Num.
Local Open Scope Q_scope.

(* ---------- vectors ---------- *)
Fixpoint dot (a b : list Q) : Q :=
  match a, b with x :: a', y :: b' => Qred (x * y + dot a' b') | _, _ => 0 end.
(* sum_i a_i w_i b_i : one entry of XT.W.X (lsquares.go:66-90) *)
Fixpoint dot3 (a w b : list Q) : Q :=
  match a, w, b with x :: a', u :: w', y :: b' => Qred (x * u * y + dot3 a' w' b') | _, _, _ => 0 end.
Definition mat_vec (A : list (list Q)) (v : list Q) : list Q := map (fun r => dot r v) A.
Fixpoint veqb (a b : list Q) : bool :=
  match a, b with
  | [], [] => true
  | x :: a', y :: b' => Qeqb x y && veqb a' b'
  | _, _ => false
  end.

(* ---------- exact linear solver ---------- *)
(* Fraction-free (Bareiss) elimination over Z on the rows scaled to integers, several right-hand
   sides at once; the result is ACCEPTED ONLY AFTER the exact check A.N = D.b, so nothing below
   [solve_multi_checked] has to be trusted or proved (no gcd is taken until the answer is formed). *)
Local Open Scope Z_scope.
(* first row whose leading entry is non-zero, and the other rows in order *)
Fixpoint zfind_pivot (rows : list (list Z)) : option (list Z * list (list Z)) :=
  match rows with
  | [] => None
  | r :: rs =>
      match r with
      | p :: _ =>
          if p =? 0 then
            match zfind_pivot rs with Some (pr, others) => Some (pr, r :: others) | None => None end
          else Some (r, rs)
      | [] => None
      end
  end.
(* (p * t - h * r) / pp, entrywise: one Bareiss step on a row with leading entry h *)
Fixpoint zrow_elim (pp p h : Z) (t r : list Z) : list Z :=
  match t, r with a :: t', b :: r' => ((p * a - h * b) / pp) :: zrow_elim pp p h t' r' | _, _ => [] end.
(* acc - c * v, entrywise *)
Fixpoint zaxpy (acc : list Z) (c : Z) (v : list Z) : list Z :=
  match acc, v with a :: acc', b :: v' => (a - c * b) :: zaxpy acc' c v' | _, _ => [] end.
(* acc - sum_j r_j * M_j ; stops with the shorter of r and S *)
Fixpoint zcomb (acc : list Z) (r : list Z) (M : list (list Z)) : list Z :=
  match r, M with c :: r', v :: M' => zcomb (zaxpy acc c v) r' M' | _, _ => acc end.
(* rows = k coefficients followed by m right-hand sides; pp = previous pivot.
   Result: numerators (k rows of m entries) and the common denominator D. *)
Fixpoint bareiss (k : nat) (pp : Z) (rows : list (list Z)) : option (list (list Z) * Z) :=
  match k with
  | O => Some ([], pp)
  | S k' =>
      match zfind_pivot rows with
      | Some (p :: r, others) =>
          let others' := map (fun row => match row with h :: t => zrow_elim pp p h t r | [] => [] end) others in
          match bareiss k' p others' with
          | Some (M, D) =>
              let rhs := skipn k' r in
              let n0 := map (fun v => v / p) (zcomb (map (Z.mul D) rhs) r M) in
              Some (n0 :: M, D)
          | None => None
          end
      | _ => None
      end
  end.
(* a row of rationals times the least common multiple of its denominators *)
Definition row_lcm (r : list Q) : Z := fold_left (fun l q => Z.lcm l (Zpos (Qden q))) r 1.
Definition row_to_Z (r : list Q) : list Z :=
  let l := row_lcm r in map (fun q => Qnum q * (l / Zpos (Qden q))) r.
Local Close Scope Z_scope.

(* [A | b_1 .. b_m] by rows; the right-hand sides are given as vectors *)
Fixpoint augment (A : list (list Q)) (bs : list (list Q)) : list (list Q) :=
  match A with
  | [] => []
  | r :: A' => (r ++ map (fun b => hd 0 b) bs) :: augment A' (map (@tl Q) bs)
  end.
Fixpoint transpose_Z (m : nat) (rows : list (list Z)) : list (list Z) :=
  match m with
  | O => []
  | S m' => map (fun r => hd 0%Z r) rows :: transpose_Z m' (map (@tl Z) rows)
  end.
(* A . N == D * b, entry by entry, N integer *)
Definition sol_ok (A : list (list Q)) (b : list Q) (N : list Z) (D : Z) : bool :=
  (length N =? length b)%nat && (length A =? length b)%nat &&
  veqb (mat_vec A (map inject_Z N)) (map (fun x => Qred (x * inject_Z D)) b).
(* Some (N_1 .. N_m, D) ONLY IF D <> 0 and A.N_c = D.b_c holds exactly for every c *)
Definition solve_multi_Z (A : list (list Q)) (bs : list (list Q)) : option (list (list Z) * Z) :=
  let k := length A in
  match bareiss k 1 (map row_to_Z (augment A bs)) with
  | Some (M, D) =>
      let Ns := transpose_Z (length bs) M in
      if negb (D =? 0)%Z && (length Ns =? length bs)%nat
         && forallb (fun p => sol_ok A (fst p) (snd p) D) (combine bs Ns)
      then Some (Ns, D) else None
  | None => None
  end.
Definition sol_to_Q (D : Z) (N : list Z) : list Q := map (fun n => Qred (inject_Z n / inject_Z D)) N.
(* Some [beta_1 .. beta_m] ONLY IF A.beta_c = b_c holds exactly for every c *)
Definition solve_multi_checked (A : list (list Q)) (bs : list (list Q)) : option (list (list Q)) :=
  match solve_multi_Z A bs with
  | Some (Ns, D) => Some (map (sol_to_Q D) Ns)
  | None => None
  end.

(* Second exact solver: plain Gaussian elimination over Q on the augmented rows [a_1 .. a_k | b].
   It is the fall-back of [solve_checked]; its answer too is accepted only after the exact check
   A.beta = b.  It exists so that COMPLETENESS can be proved (Proofs/FitSolve.v: a regular matrix always
   yields an answer) without proving the exact-division property of the fraction-free elimination above. *)
(* first row whose leading entry is non-zero, and the other rows in order *)
Fixpoint qfind_pivot (rows : list (list Q)) : option (list Q * list (list Q)) :=
  match rows with
  | [] => None
  | r :: rs =>
      match r with
      | p :: _ =>
          if Qeqb p 0 then
            match qfind_pivot rs with Some (pr, others) => Some (pr, r :: others) | None => None end
          else Some (r, rs)
      | [] => None
      end
  end.
(* t - c * r, entrywise *)
Fixpoint qaxpy (t : list Q) (c : Q) (r : list Q) : list Q :=
  match t, r with a :: t', b :: r' => Qred (a - c * b) :: qaxpy t' c r' | _, _ => [] end.
(* rows = k coefficients followed by the right-hand side.  The unknowns x satisfy row . (x ++ [-1]) = 0. *)
Fixpoint gauss (k : nat) (rows : list (list Q)) : option (list Q) :=
  match k with
  | O => Some []
  | S k' =>
      match qfind_pivot rows with
      | Some (p :: r, others) =>
          let others' := map (fun row => match row with h :: t => qaxpy t (h / p) r | [] => [] end) others in
          match gauss k' others' with
          | Some sol => Some (Qred (- dot r (sol ++ [-1]) / p) :: sol)
          | None => None
          end
      | _ => None
      end
  end.
Definition solve_gauss (A : list (list Q)) (b : list Q) : option (list Q) :=
  match gauss (length A) (augment A [b]) with
  | Some beta => if veqb (mat_vec A beta) b then Some beta else None
  | None => None
  end.
(* Some beta ONLY IF A.beta = b exactly (either solver); None only if BOTH solvers fail, which by
   Proofs/FitSolve.v [solve_checked_complete] happens only for a singular A. *)
Definition solve_checked (A : list (list Q)) (b : list Q) : option (list Q) :=
  match solve_multi_checked A [b] with Some [beta] => Some beta | _ => solve_gauss A b end.

(* ---------- LinearLeastSquares (lsquares.go:36-101) ---------- *)
Inductive fres (A : Type) := FOk (a : A) | FPanic | FSingular.
Arguments FOk {A} a. Arguments FPanic {A}. Arguments FSingular {A}.

(* XT.W.X and XT.W.y; cols = rows of XT = the term outputs *)
Definition normal_lhs (cols : list (list Q)) (w : list Q) : list (list Q) :=
  map (fun cj => map (fun cl => dot3 cj w cl) cols) cols.
Definition normal_rhs (cols : list (list Q)) (w y : list Q) : list Q :=
  map (fun cj => dot3 cj w y) cols.
(* weights == nil: W is the identity (lsquares.go:68-70) *)
Definition weights_or_ones (n : nat) (w : option (list Q)) : list Q :=
  match w with Some l => l | None => repeat 1 n end.
(* the solution of the normal equations, exactly *)
Definition lls_solve (cols : list (list Q)) (w y : list Q) : option (list Q) :=
  solve_checked (normal_lhs cols w) (normal_rhs cols w y).
(* [nx] = len(xs); the two length panics of lsquares.go:51-56.  The term functions fill
   slices of length len(xs), so every column has nx entries. *)
Definition lls (nx : nat) (y : list Q) (w : option (list Q)) (cols : list (list Q)) : fres (list Q) :=
  if negb (nx =? length y)%nat then FPanic
  else match w with
       | Some l => if negb (nx =? length l)%nat then FPanic
                   else match lls_solve cols l y with Some b => FOk b | None => FSingular end
       | None => match lls_solve cols (repeat 1 nx) y with Some b => FOk b | None => FSingular end
       end.

(* ---------- PolynomialRegression (lsquares.go:135-174) ---------- *)
Fixpoint qpow (x : Q) (n : nat) : Q := match n with O => 1 | S m => Qred (x * qpow x m) end.
(* terms[i] = x^i for i = 0..degree (the four cases 137-160 of the code all say x^i;
   the pinned tree's x^(d+1) for d >= 3 is defect D9) *)
Definition monomials (degree : nat) (xs : list Q) : list (list Q) :=
  map (fun i => map (fun x => qpow x i) xs) (seq 0 (S degree)).
(* degree < 0: terms has length 0 and terms[0] panics *)
Definition polyreg (xs y : list Q) (w : option (list Q)) (degree : Z) : fres (list Q) :=
  if (degree <? 0)%Z then FPanic
  else lls (length xs) y w (monomials (Z.to_nat degree) xs).
(* F (lsquares.go:163-171): y := c0; xp := x; for c in coeffs[1:] { y += xp*c; xp *= x } *)
Fixpoint F_loop (cs : list Q) (x xp y : Q) : Q :=
  match cs with [] => y | c :: t => F_loop t x (Qred (xp * x)) (Qred (y + xp * c)) end.
Definition polyF (coeffs : list Q) (x : Q) : option Q :=
  match coeffs with [] => None | c0 :: t => Some (F_loop t x x c0) end.

(* ---------- LOESS (loess.go:36-97) ---------- *)
Definition ceilQ (q : Q) : Z := (- ((- Qnum q) / Zpos (Qden q)))%Z.
(* q = min(n, ceil(span*n))  (loess.go:45-48) *)
Definition loess_q (n : nat) (span : Q) : nat :=
  let c := ceilQ (span * Qofnat n) in
  if (Z.of_nat n <=? c)%Z then n else Z.to_nat c.

(* sort.Float64sAreSorted *)
Fixpoint sortedb (xs : list Q) : bool :=
  match xs with
  | a :: ((b :: _) as t) => negb (Qltb b a) && sortedb t
  | _ => true
  end.
(* sort.Sort(&pairSlice) with Less = xs[i] < xs[j]: modelled by a stable insertion sort
   (for distinct xs every correct sort gives the same result) *)
Fixpoint insert_pair (p : Q * Q) (l : list (Q * Q)) : list (Q * Q) :=
  match l with
  | [] => [p]
  | h :: t => if Qltb (fst p) (fst h) then p :: l else h :: insert_pair p t
  end.
Fixpoint sort_pairs (l : list (Q * Q)) : list (Q * Q) :=
  match l with [] => [] | p :: t => insert_pair p (sort_pairs t) end.
(* loess.go:51-56 : copy and sort unless already sorted *)
Definition loess_prepare (xs ys : list Q) : list Q * list Q :=
  if sortedb xs then (xs, ys)
  else let ps := sort_pairs (combine xs ys) in (map fst ps, map snd ps).

(* sort.Search(n, f): i, j := 0, n; for i < j { h := (i+j)/2; if !f(h) { i = h+1 } else { j = h } }; return i *)
Fixpoint bsearch (fuel : nat) (f : nat -> bool) (i j : nat) : nat :=
  match fuel with
  | O => i
  | S fu => if (i <? j)%nat then
              let h := ((i + j) / 2)%nat in
              if f h then bsearch fu f i h else bsearch fu f (S h) j
            else i
  end.
Definition search (n : nat) (f : nat -> bool) : nat := bsearch n f 0 n.

(* the search predicate of loess.go:62-67, with the compared sum shifted by [e * |sum|]
   (e = 0 is the exact predicate; e = +-eps gives the borderline variants of DESIGN 4.5) *)
Definition window_pred (e : Q) (xs : list Q) (q : nat) (x : Q) (i : nat) : bool :=
  match nth_error xs i, nth_error xs (i + q) with
  | Some a, Some b => let s := a + b in Qle_bool (x * 2) (s + e * Qabs s)
  | _, _ => true
  end.
Definition window_start (e : Q) (xs : list Q) (q : nat) (x : Q) : nat :=
  if (q <? length xs)%nat then search (length xs - q) (window_pred e xs q x) else O.

(* tricube weight of a point at distance |x-c| when the farthest window point is at distance d *)
Definition tricube (x d c : Q) : Q :=
  let u := Qabs (x - c) / d in
  let t := 1 - u * u * u in Qred (t * t * t).

(* the local design of loess.go:69-90 for prepared (sorted) data, window width q and window start n0:
   the window's xs and ys and their tricube weights.  FPanic: closest[0] out of range (q = 0).
   FSingular: d = 0 (the weights are 0/0). *)
Definition loess_design (xs ys : list Q) (q n0 : nat) (x : Q) : fres (list Q * list Q * list Q) :=
  let cx := firstn q (skipn n0 xs) in
  let cy := firstn q (skipn n0 ys) in
  match cx with
  | [] => FPanic
  | c0 :: _ =>
      let d0 := x - c0 in
      let d1 := last cx 0 - x in
      let d := if Qltb d0 d1 then d1 else d0 in
      if Qeqb d 0 then FSingular else FOk (cx, cy, map (tricube x d) cx)
  end.
(* the closure returned by LOESS, applied to x (loess.go:92-96): the weighted polynomial regression on
   the window, evaluated at x.  FSingular also when the local normal equations are singular. *)
Definition loess_at (xs ys : list Q) (degree : Z) (q n0 : nat) (x : Q) : fres (list Q * Q) :=
  match loess_design xs ys q n0 x with
  | FOk (cx, cy, w) =>
      match polyreg cx cy (Some w) degree with
      | FOk beta => match polyF beta x with Some v => FOk (beta, v) | None => FPanic end
      | FPanic => FPanic
      | FSingular => FSingular
      end
  | FPanic => FPanic
  | FSingular => FSingular
  end.

(* LOESS(xs, ys, degree, span)(x) with the exact window decisions *)
Definition loess (xs ys : list Q) (degree : Z) (span : Q) (x : Q) : fres (list Q * Q) :=
  if (degree <? 0)%Z then FPanic
  else if Qle_bool span 0 then FPanic
  else
    let q := loess_q (length xs) span in
    let '(sx, sy) := loess_prepare xs ys in
    loess_at sx sy degree q (window_start 0 sx q x) x.

(* Model/GEChoose.v — mathx/choose.go:22-44 (Choose) on exact integers.  DEFINITIONS ONLY. *)
From Coq Require Import ZArith Bool.
Open Scope Z_scope.

(* numer: n1 from n-(k-1) to n multiplied up (choose.go:35-38) *)
Fixpoint ffact (n : Z) (k : nat) : Z :=
  match k with O => 1 | S k' => ffact n k' * (n - Z.of_nat k') end.
(* smallFact[k] (choose.go:12-19) *)
Fixpoint zfact (k : nat) : Z := match k with O => 1 | S k' => Z.of_nat k * zfact k' end.

(* Choose(n,k): the two early returns, then numer/denom.  For n > 20 the Go code
   evaluates exp(lchoose n k), a floating approximation of the same integer; the
   model keeps the exact value (the comparison tolerance absorbs the difference). *)
Definition choose (n k : Z) : Z :=
  if (k =? 0) || (k =? n) then 1
  else if (k <? 0) || (n <? k) then 0
  else ffact n (Z.to_nat k) / zfact (Z.to_nat k).
Definition choosen (n k : nat) : Z := choose (Z.of_nat n) (Z.of_nat k).

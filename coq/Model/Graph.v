(* Model/Graph.v — graph/graph.go (MakeBiGraph 32-46), graph/eq.go (Equal 11-48),
   graph/graphalg/multigraph.go (SimplifyMulti 14-41), graph/weighted.go (WeightedUnit).
   DEFINITIONS ONLY. *)
From Coq Require Import List NArith ZArith QArith FMapPositive Bool.
From MM Require Import Base.GCGraph.
Import ListNotations.

(* ---------------- MakeBiGraph, graph.go:32-46 ----------------
   for i := range preds { for _, j := range g.Out(i) { preds[j] = append(preds[j], i) } }
   preds is kept in a trie (absent = the nil slice); In(j) = gm_out preds j. *)
Definition bi_add (i : N) (outs : list N) (preds : gmap) : gmap :=
  fold_left (fun p j => PositiveMap.add (N.succ_pos j) (gm_out p j ++ [i]) p) outs preds.
Fixpoint bi_build_from (g : graph) (i : N) (preds : gmap) : gmap :=
  match g with
  | [] => preds
  | outs :: t => bi_build_from t (i + 1)%N (bi_add i outs preds)
  end.
Definition bi_build (g : graph) : gmap := bi_build_from g 0%N (PositiveMap.empty _).
(* MakeBiGraph(g).In(j) *)
Definition bi_in (g : graph) (j : N) : list N := gm_out (bi_build g) j.

(* ---------------- Equal, eq.go:11-48 ---------------- *)
Fixpoint Ns_eqb (a b : list N) : bool :=
  match a, b with
  | [], [] => true
  | x :: a', y :: b' => (x =? y)%N && Ns_eqb a' b'
  | _, _ => false
  end.
(* sort.Ints: any sorting function gives the same result; insertion sort *)
Fixpoint ins_sorted (x : N) (l : list N) : list N :=
  match l with
  | [] => [x]
  | y :: t => if (x <=? y)%N then x :: l else y :: ins_sorted x t
  end.
Definition isort (l : list N) : list N := fold_right ins_sorted [] l.

(* one adjacency list: lengths, the quick identical check, then sort both and compare *)
Definition adj_equal (e1 e2 : list N) : bool :=
  (length e1 =? length e2)%nat && (Ns_eqb e1 e2 || Ns_eqb (isort e1) (isort e2)).
Fixpoint adjs_equal (g1 g2 : graph) : bool :=
  match g1, g2 with
  | [], [] => true
  | e1 :: t1, e2 :: t2 => adj_equal e1 e2 && adjs_equal t1 t2
  | _, _ => false
  end.
Definition g_equal (g1 g2 : graph) : bool :=
  (length g1 =? length g2)%nat && adjs_equal g1 g2.

(* ---------------- SimplifyMulti, multigraph.go:14-41 ----------------
   a weighted adjacency list is a list of (target, weight); an unweighted graph gets weight 1
   (graph.WeightedUnit).  Per node: the first edge to a target creates the merged edge, later
   ones add their weight to it; merged edges keep first-occurrence order. *)
Definition wadj := list (N * Q).
Definition wgraph := list wadj.
Fixpoint merge_edge (acc : wadj) (o : N) (w : Q) : wadj :=
  match acc with
  | [] => [(o, w)]
  | (o', w') :: t => if (o' =? o)%N then (o', Qred (w' + w)) :: t else (o', w') :: merge_edge t o w
  end.
Definition simplify_adj (l : wadj) : wadj := fold_left (fun acc e => merge_edge acc (fst e) (snd e)) l [].
Definition simplify_multi (g : wgraph) : wgraph := map simplify_adj g.
Definition unit_weights (g : graph) : wgraph := map (map (fun o => (o, 1%Q))) g.

(* Model/Heap.v — store-passing model of the library's MEMORY behaviour (C20).
   Values in the other models are immutable, so "does not modify its argument"
   is invisible there.  Here a routine is abstracted to its *array program*:
   which argument arrays it reads, which fresh arrays it allocates (defensive
   copies, result slices, scratch buffers, memo tables) and which arrays it
   updates in place.  The numeric content of the computations is abstract
   (arbitrary functions of what is read): purity, footprints and determinism do
   not depend on it.  DEFINITIONS ONLY. *)
From Coq Require Import List ZArith Bool Arith Lia.
Import ListNotations.

Definition var := nat.
Definition loc := nat.
Definition arr := list Z.
Definition store := list arr.                  (* location l = position l; allocation appends *)
Definition env := list (var * loc).

Definition fn := list arr -> arr.               (* an abstract computation on what was read *)

Inductive cmd :=
| Compute (dst : var) (f : fn) (srcs : list var)   (* dst := fresh array holding f(contents of srcs) *)
| Update  (tgt : var) (f : fn) (srcs : list var).  (* contents(tgt) := f(contents of srcs), in place *)

Fixpoint lookup (e : env) (v : var) : option loc :=
  match e with [] => None | (w, l) :: t => if Nat.eqb v w then Some l else lookup t v end.

Definition read (s : store) (e : env) (v : var) : arr :=
  match lookup e v with Some l => nth l s [] | None => [] end.

Fixpoint set_nth (s : store) (l : loc) (a : arr) : store :=
  match s, l with
  | [], _ => []
  | _ :: t, O => a :: t
  | x :: t, S k => x :: set_nth t k a
  end.

Definition step (c : cmd) (es : env * store) : env * store :=
  let '(e, s) := es in
  match c with
  | Compute dst f srcs => ((dst, length s) :: e, s ++ [f (map (read s e) srcs)])
  | Update tgt f srcs =>
      match lookup e tgt with
      | Some l => (e, set_nth s l (f (map (read s e) srcs)))
      | None => (e, s)
      end
  end.

Definition exec (p : list cmd) (es : env * store) : env * store := fold_left (fun es c => step c es) p es.

(* ---------- static effect analysis ---------- *)
(* variables bound to fresh arrays so far *)
Fixpoint mem (v : var) (l : list var) : bool :=
  match l with [] => false | w :: t => Nat.eqb v w || mem v t end.

(* argument variables (i.e. not bound by an earlier Compute) that some Update targets *)
Fixpoint written_args (p : list cmd) (fresh : list var) : list var :=
  match p with
  | [] => []
  | Compute dst _ _ :: r => written_args r (dst :: fresh)
  | Update tgt _ _ :: r => if mem tgt fresh then written_args r fresh else tgt :: written_args r fresh
  end.

Definition readonly (p : list cmd) : bool := match written_args p [] with [] => true | _ => false end.

(* ---------- the routines of the library as array programs ---------- *)
(* Abstract computations; their definitions are irrelevant to the memory theorems. *)
Definition f_copy : fn := fun l => hd [] l.
Definition f_sort : fn := fun l => hd [] l.          (* "some permutation": content abstracted *)
Definition f_any  : fn := fun l => concat l.

(* arguments are variables 0,1,2,...; locals from 10 upward *)
Record routine := { r_id : Z; r_nargs : nat; r_prog : list cmd }.

Definition copy_sort_use (args : list var) : list cmd :=
  (* for each argument: defensive copy, sort the copy in place; then compute from the copies *)
  let locals := map (fun a => 10 + a) args in
  map (fun a => Compute (10 + a) f_copy [a]) args ++
  map (fun a => Update (10 + a) f_sort [10 + a]) args ++
  [Compute 99 f_any locals].

Definition pure_read (args : list var) : list cmd := [Compute 99 f_any args].

Definition routines : list routine := [
  (* 1  stats.MannWhitneyUTest(x1, x2): copies, sorts the copies (utest.go:134-137) *)
  {| r_id := 1; r_nargs := 2; r_prog := copy_sort_use [0; 1] |};
  (* 2  Sample.Quantile on an unsorted sample: s.Copy().Sort() (sample.go:280-283); args Xs, Weights *)
  {| r_id := 2; r_nargs := 2;
     r_prog := [Compute 10 f_copy [0]; Compute 11 f_copy [1]; Update 10 f_sort [10; 11]; Update 11 f_sort [10; 11]; Compute 99 f_any [10; 11]] |};
  (* 3  Sample.IQR: same copy, then two quantiles (sample.go:317-322) *)
  {| r_id := 3; r_nargs := 2;
     r_prog := [Compute 10 f_copy [0]; Compute 11 f_copy [1]; Update 10 f_sort [10; 11]; Update 11 f_sort [10; 11]; Compute 98 f_any [10; 11]; Compute 99 f_any [10; 11; 98]] |};
  (* 4  QuantileCIResult.SampleCI (quantileci.go:54-56) *)
  {| r_id := 4; r_nargs := 1; r_prog := copy_sort_use [0] |};
  (* 5  fit.LOESS(xs, ys) + evaluation: copies both, sorts the pair in place (loess.go:51-56) *)
  {| r_id := 5; r_nargs := 2;
     r_prog := [Compute 10 f_copy [0]; Compute 11 f_copy [1]; Update 10 f_sort [10; 11]; Update 11 f_sort [10; 11];
                Compute 12 f_any [10]; Compute 99 f_any [10; 11; 12]] |};
  (* 6  fit.LinearLeastSquares / PolynomialRegression(xs, ys, weights): fresh matrices only *)
  {| r_id := 6; r_nargs := 3; r_prog := [Compute 10 f_any [0]; Compute 11 f_any [10; 2]; Compute 99 f_any [10; 11; 1; 2]] |};
  (* 7  graph.Equal(g1, g2): sorts a scratch copy of each adjacency list (eq.go:33-38) *)
  {| r_id := 7; r_nargs := 2;
     r_prog := [Compute 10 f_copy [0]; Update 10 f_sort [10]; Compute 11 f_copy [1]; Update 11 f_sort [11]; Compute 99 f_any [10; 11]] |};
  (* 8  graphalg.SCC(g): own stacks/low array, sorts its own component edge lists (scc.go) *)
  {| r_id := 8; r_nargs := 1; r_prog := [Compute 10 f_any [0]; Update 10 f_any [10; 0]; Compute 11 f_any [10]; Update 11 f_sort [11]; Compute 99 f_any [10; 11]] |};
  (* 9  graph.SubgraphKeep / SubgraphRemove(g, nodes, edges): fresh maps and adjacency *)
  {| r_id := 9; r_nargs := 3; r_prog := [Compute 10 f_any [1]; Compute 11 f_any [0; 10; 2]; Compute 99 f_any [10; 11]] |};
  (* 10 graphalg.PreOrder/PostOrder/IDom/DomFrontier/Dom/SimplifyMulti/MakeBiGraph/Dot: read-only *)
  {| r_id := 10; r_nargs := 1; r_prog := [Compute 10 f_any [0]; Update 10 f_any [10; 0]; Compute 99 f_any [10]] |};
  (* 11 vec.Map/Vectorize/Concat/Sum/Linspace/Logspace, stats slice statistics (Mean, Variance,
        StdDev, GeoMean, Bounds, Sum, Weight, MeanCI), t-tests, UDist/dist PMF/CDF: read-only, fresh output *)
  {| r_id := 11; r_nargs := 2; r_prog := pure_read [0; 1] |};
  (* 12 KDE.PDF/CDF/Bounds with Bandwidth already set: fresh normalizedXs etc. (kde.go:173-179); args Xs, Weights, Bandwidth cell *)
  {| r_id := 12; r_nargs := 3; r_prog := [Compute 10 f_any [0; 2]; Compute 11 f_any [10; 1]; Compute 99 f_any [11]] |};
  (* ---- documented in-place operations ---- *)
  (* 20 Sample.Sort: sorts Xs and Weights in place (sample.go:345-356) *)
  {| r_id := 20; r_nargs := 2; r_prog := [Update 0 f_sort [0; 1]; Update 1 f_sort [0; 1]] |};
  (* 21 graphalg.Reverse(xs): in place *)
  {| r_id := 21; r_nargs := 1; r_prog := [Update 0 f_sort [0]] |};
  (* 22 Linear.Nice / Log.Nice / SetClamp: writes the scale's own fields (one cell) *)
  {| r_id := 22; r_nargs := 1; r_prog := [Update 0 f_any [0]] |};
  (* 23 StreamStats.Add / LinearHist.Add / LogHist.Add / NodeMarks.Mark/Unmark: receiver only *)
  {| r_id := 23; r_nargs := 1; r_prog := [Update 0 f_any [0]] |};
  (* 24 StreamStats.Combine(o): writes the receiver, only reads o *)
  {| r_id := 24; r_nargs := 2; r_prog := [Update 0 f_any [0; 1]] |};
  (* 25 KDE.PDF/CDF/Bounds with Bandwidth = 0: fills the Bandwidth cell (arg 2), nothing else (kde.go:141-145) *)
  {| r_id := 25; r_nargs := 3; r_prog := [Update 2 f_any [0; 1; 2]; Compute 10 f_any [0; 2]; Compute 11 f_any [10; 1]; Compute 99 f_any [11]] |}
].

Definition find_routine (id : Z) : option routine := find (fun r => Z.eqb (r_id r) id) routines.

(* the argument positions a routine may modify, per the static analysis *)
Definition footprint (r : routine) : list var := written_args (r_prog r) [].

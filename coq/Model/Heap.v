(* Model/Heap.v — store-passing model of the library's MEMORY behaviour (C20).
   Values in the other models are immutable, so "does not modify its argument"
   is invisible there.  Here a routine is abstracted to its *array program*:
   which argument arrays it reads, which fresh arrays it allocates (defensive
   copies, result slices, scratch buffers, memo tables) and which arrays it
   updates in place.  The numeric content of the computations is abstract
   (arbitrary functions of what is read): purity, footprints and determinism do
   not depend on it.  DEFINITIONS ONLY. *)
From Coq Require Import List ZArith Bool Arith Lia.
Import ListNotations.

Definition var := nat.
Definition loc := nat.
Definition env := list (var * loc).

Fixpoint lookup (e : env) (v : var) : option loc :=
  match e with [] => None | (w, l) :: t => if Nat.eqb v w then Some l else lookup t v end.

Fixpoint mem (v : var) (l : list var) : bool :=
  match l with [] => false | w :: t => Nat.eqb v w || mem v t end.

(* The element type A of the arrays is a parameter: the memory theorems hold for every A;
   the table [routines] below (effect analysis only, contents abstract) uses Z, the valued
   array programs of Model/HeapRoutines.v use Q, N, nat or a record as the routine needs. *)
Section Prog.
Context {A : Type}.

Definition arr := list A.
Definition store := list arr.                  (* location l = position l; allocation appends *)

Definition fn := list arr -> arr.               (* a computation on what was read *)

Inductive cmd :=
| Compute (dst : var) (f : fn) (srcs : list var)   (* dst := fresh array holding f(contents of srcs) *)
| Update  (tgt : var) (f : fn) (srcs : list var).  (* contents(tgt) := f(contents of srcs), in place *)

Definition read (s : store) (e : env) (v : var) : arr :=
  match lookup e v with Some l => nth l s [] | None => [] end.

Fixpoint set_nth (s : store) (l : loc) (a : arr) : store :=
  match s, l with
  | [], _ => []
  | _ :: t, O => a :: t
  | x :: t, S k => x :: set_nth t k a
  end.

Definition step (c : cmd) (es : env * store) : env * store :=
  let '(e, s) := es in
  match c with
  | Compute dst f srcs => ((dst, length s) :: e, s ++ [f (map (read s e) srcs)])
  | Update tgt f srcs =>
      match lookup e tgt with
      | Some l => (e, set_nth s l (f (map (read s e) srcs)))
      | None => (e, s)
      end
  end.

Definition exec (p : list cmd) (es : env * store) : env * store := fold_left (fun es c => step c es) p es.

(* ---------- static effect analysis ---------- *)
(* argument variables (i.e. not bound by an earlier Compute) that some Update targets *)
Fixpoint written_args (p : list cmd) (fresh : list var) : list var :=
  match p with
  | [] => []
  | Compute dst _ _ :: r => written_args r (dst :: fresh)
  | Update tgt _ _ :: r => if mem tgt fresh then written_args r fresh else tgt :: written_args r fresh
  end.

Definition readonly (p : list cmd) : bool := match written_args p [] with [] => true | _ => false end.

(* ---------- the VALUE semantics of an array program, without any store ---------- *)
(* variables denote array CONTENTS; Compute and Update both just rebind the variable.  This is
   the "pure model" side of the refinement theorem (Proofs/HeapRefine.v): under the stated
   no-aliasing condition on the written arguments, what [exec] leaves in the store is exactly
   what [pexec] computes from the contents the arguments had at the call. *)
Definition venv := var -> arr.
Definition vupd (r : venv) (v : var) (a : arr) : venv := fun w => if Nat.eqb w v then a else r w.
Definition pstep (c : cmd) (r : venv) : venv :=
  match c with
  | Compute dst f srcs => vupd r dst (f (map r srcs))
  | Update tgt f srcs => vupd r tgt (f (map r srcs))
  end.
Definition pexec (p : list cmd) (r : venv) : venv := fold_left (fun r c => pstep c r) p r.

(* static side conditions of the refinement theorem *)
(* every Update targets an argument or a variable bound by an earlier Compute *)
Fixpoint targets_bound (p : list cmd) (bound : list var) : bool :=
  match p with
  | [] => true
  | Compute dst _ _ :: r => targets_bound r (dst :: bound)
  | Update tgt _ _ :: r => mem tgt bound && targets_bound r bound
  end.
(* no Compute re-binds one of the variables [vs] *)
Fixpoint no_shadow (p : list cmd) (vs : list var) : bool :=
  match p with
  | [] => true
  | Compute dst _ _ :: r => negb (mem dst vs) && no_shadow r vs
  | Update _ _ _ :: r => no_shadow r vs
  end.

(* A routine with its result: the array program, the argument variables, and the result as a
   function of the final contents of some variables (so results of any type R need no
   encoding into arrays). *)
Record vroutine (R : Type) := mkVR {
  v_prog : list cmd; v_args : list var; v_rvars : list var; v_rfn : list arr -> R }.
Arguments v_prog {R} _.
Arguments v_args {R} _.
Arguments v_rvars {R} _.
Arguments v_rfn {R} _ _.
Arguments mkVR {R} _ _ _ _.
Definition v_static_ok {R} (r : vroutine R) : bool :=
  targets_bound (v_prog r) (v_args r) && no_shadow (v_prog r) (v_args r).
(* run: result and final store *)
Definition v_run {R} (r : vroutine R) (e : env) (s : store) : R * store :=
  let es := exec (v_prog r) (e, s) in
  (v_rfn r (map (read (snd es) (fst es)) (v_rvars r)), snd es).

End Prog.
Arguments v_prog {A R} _.
Arguments v_args {A R} _.
Arguments v_rvars {A R} _.
Arguments v_rfn {A R} _ _.
Arguments mkVR {A R} _ _ _ _.
Arguments venv : clear implicits.
Arguments vroutine : clear implicits.
Arguments arr : clear implicits.
Arguments store : clear implicits.
Arguments fn : clear implicits.
Arguments cmd : clear implicits.

(* ---------- the routines of the library as array programs ---------- *)
(* Abstract computations; their definitions are irrelevant to the memory theorems. *)
Definition f_copy : fn Z := fun l => hd [] l.
Definition f_sort : fn Z := fun l => hd [] l.          (* "some permutation": content abstracted *)
Definition f_any  : fn Z := fun l => concat l.

(* arguments are variables 0,1,2,...; locals from 10 upward *)
Record routine := { r_id : Z; r_nargs : nat; r_prog : list (cmd Z) }.

Definition copy_sort_use (args : list var) : list (cmd Z) :=
  (* for each argument: defensive copy, sort the copy in place; then compute from the copies *)
  let locals := map (fun a => 10 + a) args in
  map (fun a => Compute (10 + a) f_copy [a]) args ++
  map (fun a => Update (10 + a) f_sort [10 + a]) args ++
  [Compute 99 f_any locals].

Definition pure_read (args : list var) : list (cmd Z) := [Compute 99 f_any args].

Definition routines : list routine := [
  (* 1  stats.MannWhitneyUTest(x1, x2): copies, sorts the copies (utest.go:134-137) *)
  {| r_id := 1; r_nargs := 2; r_prog := copy_sort_use [0; 1] |};
  (* 2  Sample.Quantile on an unsorted sample: s.Copy().Sort() (sample.go:280-283); args Xs, Weights *)
  {| r_id := 2; r_nargs := 2;
     r_prog := [Compute 10 f_copy [0]; Compute 11 f_copy [1]; Update 10 f_sort [10; 11]; Update 11 f_sort [10; 11]; Compute 99 f_any [10; 11]] |};
  (* 3  Sample.IQR: same copy, then two quantiles (sample.go:317-322) *)
  {| r_id := 3; r_nargs := 2;
     r_prog := [Compute 10 f_copy [0]; Compute 11 f_copy [1]; Update 10 f_sort [10; 11]; Update 11 f_sort [10; 11]; Compute 98 f_any [10; 11]; Compute 99 f_any [10; 11; 98]] |};
  (* 4  QuantileCIResult.SampleCI (quantileci.go:54-56) *)
  {| r_id := 4; r_nargs := 1; r_prog := copy_sort_use [0] |};
  (* 5  fit.LOESS(xs, ys) + evaluation: copies both, sorts the pair in place (loess.go:51-56) *)
  {| r_id := 5; r_nargs := 2;
     r_prog := [Compute 10 f_copy [0]; Compute 11 f_copy [1]; Update 10 f_sort [10; 11]; Update 11 f_sort [10; 11];
                Compute 12 f_any [10]; Compute 99 f_any [10; 11; 12]] |};
  (* 6  fit.LinearLeastSquares / PolynomialRegression(xs, ys, weights): fresh matrices only *)
  {| r_id := 6; r_nargs := 3; r_prog := [Compute 10 f_any [0]; Compute 11 f_any [10; 2]; Compute 99 f_any [10; 11; 1; 2]] |};
  (* 7  graph.Equal(g1, g2): sorts a scratch copy of each adjacency list (eq.go:33-38) *)
  {| r_id := 7; r_nargs := 2;
     r_prog := [Compute 10 f_copy [0]; Update 10 f_sort [10]; Compute 11 f_copy [1]; Update 11 f_sort [11]; Compute 99 f_any [10; 11]] |};
  (* 8  graphalg.SCC(g): own stacks/low array, sorts its own component edge lists (scc.go) *)
  {| r_id := 8; r_nargs := 1; r_prog := [Compute 10 f_any [0]; Update 10 f_any [10; 0]; Compute 11 f_any [10]; Update 11 f_sort [11]; Compute 99 f_any [10; 11]] |};
  (* 9  graph.SubgraphKeep / SubgraphRemove(g, nodes, edges): fresh maps and adjacency *)
  {| r_id := 9; r_nargs := 3; r_prog := [Compute 10 f_any [1]; Compute 11 f_any [0; 10; 2]; Compute 99 f_any [10; 11]] |};
  (* 10 graphalg.PreOrder/PostOrder/IDom/DomFrontier/Dom/SimplifyMulti/MakeBiGraph/Dot: read-only *)
  {| r_id := 10; r_nargs := 1; r_prog := [Compute 10 f_any [0]; Update 10 f_any [10; 0]; Compute 99 f_any [10]] |};
  (* 11 vec.Map/Vectorize/Concat/Sum/Linspace/Logspace, stats slice statistics (Mean, Variance,
        StdDev, GeoMean, Bounds, Sum, Weight, MeanCI), t-tests, UDist/dist PMF/CDF: read-only, fresh output *)
  {| r_id := 11; r_nargs := 2; r_prog := pure_read [0; 1] |};
  (* 12 KDE.PDF/CDF/Bounds with Bandwidth already set: fresh normalizedXs etc. (kde.go:173-179); args Xs, Weights, Bandwidth cell *)
  {| r_id := 12; r_nargs := 3; r_prog := [Compute 10 f_any [0; 2]; Compute 11 f_any [10; 1]; Compute 99 f_any [11]] |};
  (* ---- documented in-place operations ---- *)
  (* 20 Sample.Sort: sorts Xs and Weights in place (sample.go:345-356) *)
  {| r_id := 20; r_nargs := 2; r_prog := [Update 0 f_sort [0; 1]; Update 1 f_sort [0; 1]] |};
  (* 21 graphalg.Reverse(xs): in place *)
  {| r_id := 21; r_nargs := 1; r_prog := [Update 0 f_sort [0]] |};
  (* 22 Linear.Nice / Log.Nice / SetClamp: writes the scale's own fields (one cell) *)
  {| r_id := 22; r_nargs := 1; r_prog := [Update 0 f_any [0]] |};
  (* 23 StreamStats.Add / LinearHist.Add / LogHist.Add / NodeMarks.Mark/Unmark: receiver only *)
  {| r_id := 23; r_nargs := 1; r_prog := [Update 0 f_any [0]] |};
  (* 24 StreamStats.Combine(o): writes the receiver, only reads o *)
  {| r_id := 24; r_nargs := 2; r_prog := [Update 0 f_any [0; 1]] |};
  (* 25 KDE.PDF/CDF/Bounds with Bandwidth = 0: fills the Bandwidth cell (arg 2), nothing else (kde.go:141-145) *)
  {| r_id := 25; r_nargs := 3; r_prog := [Update 2 f_any [0; 1; 2]; Compute 10 f_any [0; 2]; Compute 11 f_any [10; 1]; Compute 99 f_any [11]] |};
  (* 30 pseudo-routine of the API-surface cases ("@api", "@unlisted:<name>", harness/c20api.go): no arrays *)
  {| r_id := 30; r_nargs := 0; r_prog := [] |}
].

Definition find_routine (id : Z) : option routine := find (fun r => Z.eqb (r_id r) id) routines.

(* the argument positions a routine may modify, per the static analysis *)
Definition footprint (r : routine) : list var := written_args (r_prog r) [].

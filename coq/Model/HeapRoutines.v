(* Model/HeapRoutines.v — the library routines whose purity rests on a defensive copy, and the
   documented in-place operations, as VALUED array programs (C20): the shape (which arrays
   are copied / allocated / updated in place) is the one of Model/Heap.v's table, and the
   functions inside Compute/Update are the numeric models the other properties use
   (Model.Utest, Model.Quantile, Model.QuantileCI, Model.Fit, Model.Graph, Model.Kde,
   Model.Sample, Model.Stream, Model.Marks, Model.Order, Model.Scale, Model.Ticks).
   Variables 0,1,2 are the arguments; locals are 10, 11, ...   DEFINITIONS ONLY. *)
From Coq Require Import List ZArith QArith Bool Arith.
From MM Require Import Base.Num Model.Heap.
From MM Require Base.GASort Base.GESort Model.Sample Model.Quantile Model.Utest Model.QuantileCI
  Model.Fit Model.Udist Model.Graph Model.Kde Model.Stream Model.Marks Model.Order Model.Scale Model.Ticks.
Import ListNotations.
Local Open Scope nat_scope.

(* lifting n-ary functions on arrays to [fn] (missing operands read as the empty array) *)
Section Lift.
Context {A : Type}.
Definition a0 (l : list (arr A)) : arr A := nth 0 l [].
Definition a1 (l : list (arr A)) : arr A := nth 1 l [].
Definition a2 (l : list (arr A)) : arr A := nth 2 l [].
Definition a3 (l : list (arr A)) : arr A := nth 3 l [].
Definition L1 (f : arr A -> arr A) : fn A := fun l => f (a0 l).
Definition L2 (f : arr A -> arr A -> arr A) : fn A := fun l => f (a0 l) (a1 l).
Definition L3 (f : arr A -> arr A -> arr A -> arr A) : fn A := fun l => f (a0 l) (a1 l) (a2 l).
Definition copy : fn A := L1 (fun a => a).          (* append([]T(nil), a...) *)
(* a struct held in one cell *)
Definition cell (d : A) (a : arr A) : A := hd d a.
End Lift.

(* ====================================================================== *)
(* 1. stats.MannWhitneyUTest(x1, x2, alt)  (utest.go:127-137)             *)
(*    n1, n2 := len(x1), len(x2); x1 = append(nil, x1...); x2 = ...; sort.Float64s(x1); (x2)  *)
(* ====================================================================== *)
Section MW.
Context {A : Type} (cmp : A -> A -> comparison) (cdf : nat -> nat -> list nat -> Q -> Q) (EL TL : Z) (alt : Z).
(* the statistic from the SORTED copies and the original lengths (utest.go:138-166) *)
Definition mw_stat_sorted (n1 n2 : nat) (s1 s2 : list A) : Utest.mwstat :=
  let gs := Utest.tgroups cmp (Utest.lmerge cmp s1 s2) in
  let T := map (@Utest.gsize A) gs in
  Utest.mkStat n1 n2 T (Udist.has_ties T)
    (Utest.rank_sum2 gs 0 - Z.of_nat n1 * (Z.of_nat n1 + 1))%Z.
Definition mw_h : vroutine A Utest.mwres :=
  mkVR [Compute 10 copy [0]; Compute 11 copy [1];
        Update 10 (L1 (Utest.msort cmp)) [10]; Update 11 (L1 (Utest.msort cmp)) [11]]
       [0; 1] [0; 1; 10; 11]
       (fun l => Utest.mw_test_s cdf EL TL (Utest.is_nil (a0 l) || Utest.is_nil (a1 l))
                   (mw_stat_sorted (length (a0 l)) (length (a1 l)) (a2 l) (a3 l)) alt).
End MW.

(* ====================================================================== *)
(* 2-3. Sample.Quantile / Sample.IQR / Copy().Sort()  (sample.go:275-328, 345-378)  *)
(*    args: 0 = Xs, 1 = Weights (read only when the sample is weighted: flag w)    *)
(* ====================================================================== *)
Definition wopt (w : bool) (ws : list Q) : option (list Q) := if w then Some ws else None.
(* sort.Sort(&sampleSorter{xs, weights}) on arrays vx, vw: each weight follows its value *)
Definition sort_sample_cmds (w : bool) (vx vw : var) : list (cmd Q) :=
  if w then [Update vw (L2 (fun xs ws => map snd (GASort.psort (combine xs ws)))) [vx; vw];
             Update vx (L1 GASort.Qsort) [vx]]
  else [Update vx (L1 GASort.Qsort) [vx]].
(* s = *s.Copy().Sort(): fresh Xs (and Weights), sorted in place *)
Definition copy_sort_cmds (w : bool) : list (cmd Q) :=
  (if w then [Compute 10 copy [0]; Compute 11 copy [1]] else [Compute 10 copy [0]]) ++ sort_sample_cmds w 10 11.

(* Quantile with the sorted sample s' supplied (sample.go:275-318 after line 283) *)
Definition quantile_on (c : Q) (s s' : Sample.sample) (q : Q) : Quantile.qr :=
  match Sample.s_xs s with
  | [] => Quantile.RNaN
  | _ =>
    if Qle_bool q 0%Q then match Sample.sample_bounds s with Some (mn, _) => Quantile.RVal mn | None => Quantile.RNaN end
    else if Qle_bool 1%Q q then match Sample.sample_bounds s with Some (_, mx) => Quantile.RVal mx | None => Quantile.RNaN end
    else match Sample.s_ws s' with
         | None => Quantile.quantile_unw c (Sample.s_xs s') q
         | Some ws => Quantile.quantile_w (combine (Sample.s_xs s') ws) q
         end
  end.
(* flag [sorted] = s.Sorted: then no copy is made and the arguments themselves are read *)
Definition quantile_h (w sorted : bool) (q : Q) : vroutine Q Quantile.qr :=
  mkVR (if sorted then [] else copy_sort_cmds w) [0; 1]
       (if sorted then [0; 1; 0; 1] else [0; 1; 10; 11])
       (fun l => quantile_on Quantile.third_f (Sample.mkSample (a0 l) (wopt w (a1 l)) sorted)
                             (Sample.mkSample (a2 l) (wopt w (a3 l)) true) q).
Definition iqr_on (c : Q) (s' : Sample.sample) : Quantile.qr :=
  match Quantile.quantile_c c s' (3 # 4)%Q, Quantile.quantile_c c s' (1 # 4)%Q with
  | Quantile.RVal a, Quantile.RVal b => Quantile.RVal (a - b)%Q
  | Quantile.RPanic, _ | _, Quantile.RPanic => Quantile.RPanic
  | _, _ => Quantile.RNaN
  end.
Definition iqr_h (w sorted : bool) : vroutine Q Quantile.qr :=
  mkVR (if sorted then [] else copy_sort_cmds w) [0; 1]
       (if sorted then [0; 1] else [10; 11])
       (fun l => iqr_on Quantile.third_f (Sample.mkSample (a0 l) (wopt w (a1 l)) true)).
(* the documented in-place Sample.Sort (sample.go:345-356); flag = s.Sorted (then nothing happens) *)
Definition sort_h (w sorted : bool) : vroutine Q unit :=
  mkVR (if sorted then [] else sort_sample_cmds w 0 1) [0; 1] [] (fun _ => tt).

(* ====================================================================== *)
(* 4. QuantileCIResult.SampleCI(s)  (quantileci.go:45-70): unweighted only *)
(* ====================================================================== *)
Definition sample_ci_h (N lo hi : Z) (sorted : bool) : vroutine Q QuantileCI.sci_result :=
  mkVR (if sorted then [] else [Compute 10 copy [0]; Update 10 (L1 QuantileCI.QSort.sort) [10]]) [0]
       (if sorted then [0] else [10])
       (fun l => QuantileCI.sample_ci N lo hi false true (a0 l)).

(* ====================================================================== *)
(* 5. fit.LOESS(xs, ys, degree, span)(x)  (loess.go:33-56)                 *)
(*    the model always takes the copies (the code skips them when xs is already sorted and  *)
(*    then only reads its arguments)                                                        *)
(* ====================================================================== *)
(* sort.Sort(&pairSlice{xs, ys}) seen from the xs array alone: the same insertion sort on the keys *)
Fixpoint insert_key (x : Q) (l : list Q) : list Q :=
  match l with
  | [] => [x]
  | h :: t => if Qltb x h then x :: l else h :: insert_key x t
  end.
Fixpoint sort_keys (l : list Q) : list Q :=
  match l with [] => [] | x :: t => insert_key x (sort_keys t) end.
Definition loess_h (degree : Z) (span x : Q) : vroutine Q (Fit.fres (list Q * Q)) :=
  mkVR [Compute 10 copy [0]; Compute 11 copy [1];
        Update 11 (L2 (fun xs ys => snd (Fit.loess_prepare xs ys))) [10; 11];
        Update 10 (L1 (fun xs => if Fit.sortedb xs then xs else sort_keys xs)) [10]]
       [0; 1] [0; 10; 11]
       (fun l => if (degree <? 0)%Z then Fit.FPanic else if Qle_bool span 0%Q then Fit.FPanic else
                 let q := Fit.loess_q (length (a0 l)) span in
                 Fit.loess_at (a1 l) (a2 l) degree q (Fit.window_start 0%Q (a1 l) q x) x).

(* ====================================================================== *)
(* 6. graph.Equal(g1, g2)  (eq.go:11-48): one scratch buffer [temp] holding a copy of both *)
(*    adjacency lists of node i, sorted there; the graphs' own lists are only read.         *)
(*    A = N; variable 0 = temp, 1 = the verdict so far ([1] = equal), node i of g1 = 2+2i,  *)
(*    node i of g2 = 3+2i.                                                                  *)
(* ====================================================================== *)
Definition v1 (i : nat) : var := 2 + 2 * i.
Definition v2 (i : nat) : var := 3 + 2 * i.
Definition halves_sorted (t e1 : list N) : list N :=
  Graph.isort (firstn (length e1) t) ++ Graph.isort (skipn (length e1) t).
Definition flag (b : bool) : list N := [if b then 1%N else 0%N].
Definition unflag (a : list N) : bool := match a with [1%N] => true | _ => false end.
Definition equal_node (i : nat) : list (cmd N) :=
  [ Update 0 (L2 (fun e1 e2 => e1 ++ e2)) [v1 i; v2 i];              (* temp = append(append(temp[:0], e1...), e2...) *)
    Update 0 (L2 halves_sorted) [0; v1 i];                           (* sort.Ints(e1); sort.Ints(e2) on the halves of temp *)
    Update 1 (fun l => flag (unflag (a0 l) && (length (a2 l) =? length (a3 l))%nat &&
                             (Graph.Ns_eqb (a2 l) (a3 l) ||
                              Graph.Ns_eqb (firstn (length (a2 l)) (a1 l)) (skipn (length (a2 l)) (a1 l)))))
             [1; 0; v1 i; v2 i] ].
Definition equal_h (n1 n2 : nat) : vroutine N bool :=
  mkVR ([Compute 0 (fun _ => []) []; Compute 1 (fun _ => flag true) []] ++ flat_map equal_node (seq 0 n1))
       (map v1 (seq 0 n1) ++ map v2 (seq 0 n2)) [1]
       (fun l => (n1 =? n2)%nat && unflag (a0 l)).

(* ====================================================================== *)
(* 7. vec helpers: fresh output slices (vec.go:12-76)                      *)
(* ====================================================================== *)
Definition vmap_h (f : Q -> Q) : vroutine Q (list Q) :=
  mkVR [Compute 10 (L1 (Sample.vmap f)) [0]] [0] [10] a0.
Definition vconcat_h (k : nat) : vroutine Q (list Q) :=
  mkVR [Compute 10 (fun l => Sample.vconcat l) (seq 0 k)] (seq 0 k) [10] a0.
Definition vsum_h : vroutine Q Q := mkVR [] [0] [0] (fun l => Sample.vsum (a0 l)).

(* ====================================================================== *)
(* 8. KDE.PDF(x)  (kde.go:141-145, 173-179): fills the Bandwidth cell when it is 0, fresh  *)
(*    scratch otherwise.  args: 0 = Sample.Xs, 1 = Sample.Weights, 2 = the Bandwidth field *)
(*    (one cell).  [scott] = BandwidthScott of the sample (a 10th root; the numeric model   *)
(*    Model.Kde has its 10th power only, so the value is a parameter here).                *)
(* ====================================================================== *)
Definition kde_pdf_h (scott : list Q -> option (list Q) -> Q) (w : bool) (kern : Kde.kernel) (b : Kde.bconf) (x : Q)
  : vroutine Q (option xreal) :=
  mkVR [Update 2 (L3 (fun xs ws h => [Kde.bandwidth_after (cell 0%Q h) (scott xs (wopt w ws))])) [0; 1; 2]]
       [0; 1; 2] [0; 1; 2]
       (fun l => Kde.kde_pdf (Kde.mkKde (a0 l) (wopt w (a1 l)) kern (cell 0%Q (a2 l)) b) x).

(* ====================================================================== *)
(* 9. the documented in-place operations on one receiver                   *)
(* ====================================================================== *)
(* graphalg.Reverse(xs) (order.go:41-48) *)
Definition reverse_h : vroutine N unit := mkVR [Update 0 (L1 Order.reverse) [0]] [0] [] (fun _ => tt).
(* Linear.Nice(o) (linear.go:152-173): the receiver's Min, Max in one array [min; max] *)
Definition pairq (a : list Q) : Q * Q := (nth 0 a 0%Q, nth 1 a 0%Q).
Definition lin_nice_h (base : Z) (o : Ticks.tickopts) (guess : Z) : vroutine Q unit :=
  mkVR [Update 0 (L1 (fun a => match Ticks.lin_nice base (fst (pairq a)) (snd (pairq a)) o guess with
                               | Ticks.NR_dom mn mx => [mn; mx] | Ticks.NR_panic => a end)) [0]]
       [0] [] (fun _ => tt).
Definition log_nice_h (base : Z) (o : Ticks.tickopts) : vroutine Q unit :=
  mkVR [Update 0 (L1 (fun a => let r := Ticks.log_nice base (fst (pairq a)) (snd (pairq a)) o in [fst r; snd r])) [0]]
       [0] [] (fun _ => tt).
(* Linear.SetClamp / Log.SetClamp (linear.go:53-55, log.go:73-75): A = the scale record *)
Definition set_clamp_h (c : bool) : vroutine Scale.scale unit :=
  mkVR [Update 0 (L1 (fun a => match a with [s] => [Scale.sc_set_clamp s c] | _ => a end)) [0]] [0] [] (fun _ => tt).
(* StreamStats.Add(x) / Combine(o) (stream.go:40-100): A = the accumulator record *)
Definition add_h (x : Q) : vroutine Stream.sstate unit :=
  mkVR [Update 0 (L1 (fun a => match a with [s] => [Stream.s_add s x] | _ => a end)) [0]] [0] [] (fun _ => tt).
Definition combine_h : vroutine Stream.sstate unit :=
  mkVR [Update 0 (L2 (fun a b => match a, b with [s], [o] => [Stream.s_combine s o] | _, _ => a end)) [0; 1]]
       [0; 1] [] (fun _ => tt).
(* NodeMarks.Mark(i) / Unmark(i) (marks.go:23-36): the receiver's word array *)
Definition mark_h (i : N) : vroutine N unit :=
  mkVR [Update 0 (L1 (fun m => Marks.m_mark m i)) [0]] [0] [] (fun _ => tt).
Definition unmark_h (i : N) : vroutine N unit :=
  mkVR [Update 0 (L1 (fun m => Marks.m_unmark m i)) [0]] [0] [] (fun _ => tt).

(* Model/Hist.v — stats/hist.go, stats/linearhist.go, stats/loghist.go, exact arithmetic.
   DEFINITIONS ONLY.  The model describes the repaired behaviour (DESIGN section 6):
   D7 — the bin index is floor(...) (math.Floor), not truncation toward zero;
   D8 — the rank walk first subtracts the under count and tests [count >= goal]. *)
From MM Require Import Base.Num.
From Coq Require Import Qround.
Local Open Scope Q_scope.

(* ---------- counters: low/high/bins (linearhist.go:8-13, loghist.go:10-16) ---------- *)
Record hstate := mkH { h_under : N; h_bins : list N; h_over : N }.
Definition h_empty (nbins : nat) : hstate := mkH 0 (repeat 0%N nbins) 0.

Inductive slot := SUnder | SBin (i : nat) | SOver.

(* Add's dispatch (linearhist.go:26-35 = loghist.go:33-42):
   bin < 0 -> low++ ; bin >= len(bins) -> high++ ; else bins[bin]++ *)
Definition dispatch (nbins : nat) (bin : Z) : slot :=
  if (bin <? 0)%Z then SUnder
  else if (Z.of_nat nbins <=? bin)%Z then SOver
  else SBin (Z.to_nat bin).

Fixpoint incr_nth (l : list N) (i : nat) : list N :=
  match l, i with
  | [], _ => []
  | c :: t, O => (c + 1)%N :: t
  | c :: t, S j => c :: incr_nth t j
  end.

Definition h_incr (h : hstate) (s : slot) : hstate :=
  match s with
  | SUnder => mkH (h_under h + 1) (h_bins h) (h_over h)
  | SBin i => mkH (h_under h) (incr_nth (h_bins h) i) (h_over h)
  | SOver => mkH (h_under h) (h_bins h) (h_over h + 1)
  end.

Fixpoint Nsum (l : list N) : N := match l with [] => 0%N | c :: t => (c + Nsum t)%N end.
Definition h_total (h : hstate) : N := (h_under h + h_over h + Nsum (h_bins h))%N.

(* ---------- LinearHist (linearhist.go) ---------- *)
(* delta * (x - min) with delta = nbins / (max - min)   (linearhist.go:19, 23) *)
Definition lin_pos (mn mx : Q) (nbins : nat) (x : Q) : Q := Qofnat nbins * (x - mn) / (mx - mn).
(* bin(x) = floor(delta * (x - min))                     (linearhist.go:22-24, repaired) *)
Definition lin_bin (mn mx : Q) (nbins : nat) (x : Q) : Z := Qfloor (lin_pos mn mx nbins x).
Definition lin_slot (mn mx : Q) (nbins : nat) (x : Q) : slot := dispatch nbins (lin_bin mn mx nbins x).
(* Add                                                    (linearhist.go:26-35) *)
Definition lin_add (mn mx : Q) (h : hstate) (x : Q) : hstate :=
  h_incr h (lin_slot mn mx (length (h_bins h)) x).
(* BinToValue(bin) = min + bin / delta                    (linearhist.go:41-43) *)
Definition lin_bin_to_value (mn mx : Q) (nbins : nat) (bin : Q) : Q := mn + bin * (mx - mn) / Qofnat nbins.

(* ---------- LogHist (loghist.go), base b >= 2 and m >= 1 bins per power, both integers ---------- *)
Fixpoint Qpow (q : Q) (n : nat) : Q := match n with O => 1 | S k => q * Qpow q k end.

(* bin(x) = floor(m * log_b x) (loghist.go:29-31, repaired) is characterised without
   logarithms:  bin(x) = i  <->  b^i <= x^m < b^(i+1).  Only the dispatch of Add looks at
   it, so the model computes the index CAPPED to [-1, nbins]:
     -1 when x <= 0 (log gives -Inf / NaN, the conversion yields a negative int) or x^m < 1,
     otherwise the number of edges b^1, b^2, ..., b^nbins that are <= x^m. *)
Fixpoint log_scan (b y edge : Q) (fuel : nat) (i : Z) : Z :=       (* invariant: edge = b^(i+1) *)
  match fuel with
  | O => i
  | S f => if Qltb y edge then i else log_scan b y (edge * b) f (i + 1)%Z
  end.
Definition log_bin_capped (b : Q) (m nbins : nat) (x : Q) : Z :=
  if Qle_bool x 0 then (-1)%Z
  else let y := Qpow x m in
       if Qltb y 1 then (-1)%Z else log_scan b y b nbins 0%Z.
Definition log_slot (b : Q) (m nbins : nat) (x : Q) : slot := dispatch nbins (log_bin_capped b m nbins x).
(* Add                                                    (loghist.go:33-42) *)
Definition log_add (b : Q) (m : nat) (h : hstate) (x : Q) : hstate :=
  h_incr h (log_slot b m (length (h_bins h)) x).
(* nbins = ceil(m * log_b max) (loghist.go:25-26): the least n with max^m <= b^n, as a
   decidable relation (no search, hence no fuel) *)
Definition log_nbins_ok (b : Q) (m : nat) (mx : Q) (n : nat) : bool :=
  Qle_bool (Qpow mx m) (Qpow b n) &&
  match n with O => true | S k => Qltb (Qpow b k) (Qpow mx m) end.
(* BinToValue(bin) = b^(bin/m) (loghist.go:48-50).  Not computable in Q in general; the model
   gives its m-th power at integer bins (the EDGE powers the binning theorem speaks about)
   and, for a rational bin = num/den, the defining relation  v^(m*den) = b^num. *)
Definition log_edge_pow (b : Q) (i : nat) : Q := Qpow b i.                (* = BinToValue(i)^m *)
Definition log_btv_rel (b : Q) (m : nat) (num den : nat) (v : Q) : Prop :=
  0 < v /\ Qpow v (m * den) == Qpow b num.

(* ---------- HistogramQuantile (hist.go:42-60, repaired) ---------- *)
(* result: NaN, BinToValue(bin + j/c), or the final panic("goal count not reached") *)
Inductive qres := QNaN | QAt (bin : nat) (j c : N) | QPanic.

(* for bin, count := range counts { if count >= goal { return ... } ; goal -= count }   (hist.go:54-59) *)
Fixpoint rank_walk (counts : list N) (goal : N) (bin : nat) : qres :=
  match counts with
  | [] => QPanic
  | c :: t => if (goal <=? c)%N then QAt bin goal c else rank_walk t (goal - c)%N (S bin)
  end.

(* goal := uint(float64(total) * q)                       (hist.go:49) *)
Definition hist_goal (total : N) (q : Q) : N := Z.to_N (Qfloor (QofN total * q)).

(* if goal <= under || goal > total-over { NaN } ; goal -= under ; walk   (hist.go:50-59) *)
Definition hist_quantile_goal (h : hstate) (goal : N) : qres :=
  if (goal <=? h_under h)%N || (h_total h - h_over h <? goal)%N then QNaN
  else rank_walk (h_bins h) (goal - h_under h)%N 0.

Definition hist_quantile (h : hstate) (q : Q) : qres := hist_quantile_goal h (hist_goal (h_total h) q).

(* the fractional bin handed to BinToValue *)
Definition qres_pos (r : qres) : option Q :=
  match r with QAt b j c => Some (Qofnat b + QofN j / QofN c) | _ => None end.

(* value of a result under a given BinToValue (oracle instantiation: the theorems hold for
   every increasing [btv]) *)
Definition qres_value (btv : Q -> Q) (r : qres) : option Q :=
  match qres_pos r with Some p => Some (btv p) | None => None end.

(* HistogramIQR (hist.go:64-66): Quantile(0.75) - Quantile(0.25); NaN if either is NaN *)
Definition hist_iqr (btv : Q -> Q) (h : hstate) : option Q :=
  match qres_value btv (hist_quantile h (3 # 4)), qres_value btv (hist_quantile h (1 # 4)) with
  | Some a, Some b => Some (a - b)
  | _, _ => None
  end.

(* ---------- histories ---------- *)
Definition lin_run (mn mx : Q) (nbins : nat) (xs : list Q) : hstate := fold_left (lin_add mn mx) xs (h_empty nbins).
Definition log_run (b : Q) (m nbins : nat) (xs : list Q) : hstate := fold_left (log_add b m) xs (h_empty nbins).

(* Model/Hyperg.v — stats/hypergdist.go, exact rationals.  DEFINITIONS ONLY.
   Parameters: N population, K successes, n = Draws. *)
From MM Require Import Base.Num Base.GFSum Model.Choose.
From Coq Require Import Qround.
Local Open Scope Q_scope.

(* bounds (hypergdist.go:81-83) *)
Definition hg_lo (N K n : Z) : Z := Z.max 0 (n + K - N).
Definition hg_hi (N K n : Z) : Z := Z.min n K.

(* pmf (hypergdist.go:40-42): exp(Lchoose(K,k) + Lchoose(N-K,n-k) - Lchoose(N,n)) *)
Definition hg_num (N K n k : Z) : Z := (choose K k * choose (N - K) (n - k))%Z.
Definition hg_pmf_i (N K n k : Z) : Q := inject_Z (hg_num N K n k) / inject_Z (choose N n).

(* PMF (hypergdist.go:30-38) *)
Definition hg_pmf (N K n : Z) (k : Q) : Q :=
  let ki := Qfloor k in
  if (ki <? hg_lo N K n)%Z || (hg_hi N K n <? ki)%Z then 0 else hg_pmf_i N K n ki.

(* sum (hypergdist.go:70-79) without the 1e-14 early exit (a pure truncation below the
   tolerance): sum = 1 + a_1 + ... + a_{k-L}, a_dk = a_{dk-1} * (1+k-dk)/(n-k+dk) * (N-K-n+k+1-dk)/(K-k+dk) *)
Fixpoint hg_sum_loop (N K n k : Z) (cnt : nat) (dk : Z) (ak sum : Q) : Q :=
  match cnt with
  | O => sum
  | S c =>
      let ak' := ak * (inject_Z (1 + k - dk) / inject_Z (n - k + dk))
                    * (inject_Z (N - K - n + k + 1 - dk) / inject_Z (K - k + dk)) in
      hg_sum_loop N K n k c (dk + 1)%Z ak' (sum + ak')
  end.
Definition hg_sum (N K n k : Z) : Q :=
  hg_sum_loop N K n k (Z.to_nat (k - hg_lo N K n)) 1%Z 1 1.

(* the flip test of hypergdist.go:57 in Go's integer arithmetic *)
Definition hg_flip_test (N K n ki : Z) : bool := ((n + 1) / (N + 1) * (K + 1) <? ki)%Z.

(* CDF (hypergdist.go:47-68) *)
Definition hg_cdf_i (N K n ki : Z) : Q :=
  if (ki <? hg_lo N K n)%Z then 0
  else if (hg_hi N K n <=? ki)%Z then 1
  else if hg_flip_test N K n ki then
    let ki' := (K - ki - 1)%Z in
    let n' := (N - n)%Z in
    1 - hg_pmf_i N K n' ki' * hg_sum N K n' ki'
  else hg_pmf_i N K n ki * hg_sum N K n ki.
Definition hg_cdf (N K n : Z) (k : Q) : Q := hg_cdf_i N K n (Qfloor k).

(* Bounds, Step (hypergdist.go:85-92) *)
Definition hg_bounds (N K n : Z) : Z * Z := (hg_lo N K n, hg_hi N K n).
Definition hg_step : Z := 1%Z.
(* Mean, Variance (hypergdist.go:94-101) *)
Definition hg_mean (N K n : Z) : Q := inject_Z (n * K) / inject_Z N.
Definition hg_var (N K n : Z) : Q := inject_Z (n * K * (N - K) * (N - n)) / inject_Z (N * N * (N - 1)).

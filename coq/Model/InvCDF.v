(* Model/InvCDF.v — stats/dist.go (generic InvCDF, Rand) and stats/alg.go (bisectBool), over exact
   rationals.  DEFINITIONS ONLY.

   Part 1 (Section Generic): the algorithm of dist.go:116-178 for an ABSTRACT cdf F : Q -> Q and
   abstract Bounds (bl, bh), exactly in the order the Go code takes its decisions.  The bracket
   expansion is modelled WITH its float64 rounding and overflow (integer operands: exact), the
   bisection over exact rationals.
   Part 2: Rand (dist.go:197-209).
   Part 3: an executable family of cdfs — piecewise linear, right continuous, with jumps, ramps
   and flat stretches at rational break points — with its exact generalized inverse
   [pw_quantile] (smallest x with cdf x >= y).  The correspondence check instantiates F with
   [pw_cdf pw] for harness-defined distributions whose Go CDF method evaluates the same pieces. *)
From MM Require Import Base.Num.
Local Open Scope Q_scope.

(* what the returned closure can do for one argument *)
Inductive ires :=
| IVal (x : xreal)            (* returns x (XInf: the bracket expansion overflowed, dist.go:163-167) *)
| INoBracket (neg : bool)     (* model artefact: the expansion was given less fuel than the 1024 trips
                                 float64 needs to overflow (never with [go_expand_fuel], Proofs:
                                 [go_fuel_enough]) *)
| IPanic.                     (* bisectBool panics: "root of f is not bracketed" (alg.go:85-87) *)

(* ---------- the float64 arithmetic of the bracket expansion ----------
   x1 = 0, xdelta = 1, then hiX+xdelta / loX-xdelta and xdelta *= 2 (dist.go:148-162): every operand is
   an INTEGER, so the float64 result is the exact integer sum rounded to 53 significant bits, ties to
   even, and +-Inf when the rounded magnitude reaches 2^1024.  (xdelta *= 2 is exact up to 2^1023; it
   becomes +Inf only in the trip in which hiX / loX has just become infinite.)
   None = the sum overflows.  The probes are 2^k - 1 for k <= 53, 2^k for 54 <= k <= 1023, then Inf
   (Proofs: [go_probes_closed_form]). *)
Definition f64_round_Z (n : Z) : option Z :=
  let a := Z.abs n in
  let l := Z.log2 a in                              (* 2^l <= a < 2^(l+1) for a > 0 *)
  if (l <? 53)%Z then Some n else
  let s := (l - 52)%Z in                            (* bits that do not fit *)
  let q := Z.shiftr a s in
  let r := Z.land a (Z.ones s) in
  let half := Z.shiftl 1 (s - 1) in
  let q' := if (half <? r)%Z || ((r =? half)%Z && Z.odd q) then (q + 1)%Z else q in
  let v := Z.shiftl q' s in
  if (2 ^ 1024 <=? v)%Z then None else Some (Z.sgn n * v)%Z.

(* result of the bracket expansion *)
Inductive bres :=
| BFound (lo hi : Z)          (* cdf(lo) < y <= cdf(hi) *)
| BInf (neg : bool)           (* loX reached -Inf (neg) / hiX reached +Inf: the closure returns it *)
| BFuel.                      (* out of fuel (model artefact, see INoBracket) *)

Section Generic.
  Variable F : Q -> Q.          (* dist.CDF *)
  Variables bl bh : Q.          (* dist.Bounds() *)

  (* dist.go:123-144.  y<0 || y>1 -> NaN;  y==0 -> l if CDF(l)==0 else -Inf;
     y==1 -> h if CDF(h)==1 else +Inf;  None = fall through to the numerical part *)
  Definition inv_special (y : Q) : option xreal :=
    if Qltb y 0 || Qltb 1 y then Some XNaN
    else if Qeq_bool y 0 then Some (if Qeq_bool (F bl) 0 then XFin bl else XInf true)
    else if Qeq_bool y 1 then Some (if Qeq_bool (F bh) 1 then XFin bh else XInf false)
    else None.

  (* dist.go:150-156: entered with CDF(hi) < y.
       for hiY < y && hiX != inf { loX, loY, hiX = hiX, hiY, hiX+xdelta; hiY = CDF(hiX); xdelta *= 2 }
     one unit of fuel = one trip through the body.  When the sum overflows hiX is +Inf: the code
     evaluates CDF(+Inf), leaves the loop whatever it is and returns +Inf (dist.go:165-167) *)
  Fixpoint expand_right (fuel : nat) (y : Q) (hi delta : Z) : bres :=
    match fuel with
    | O => BFuel
    | S f => match f64_round_Z (hi + delta)%Z with
             | None => BInf false
             | Some hi' => if Qltb (F (inject_Z hi')) y then expand_right f y hi' (2 * delta)%Z else BFound hi hi'
             end
    end.

  (* dist.go:157-162: entered with y <= CDF(lo).
       for y <= loY && loX != -inf { hiX, hiY, loX = loX, loY, loX-xdelta; loY = CDF(loX); xdelta *= 2 } *)
  Fixpoint expand_left (fuel : nat) (y : Q) (lo delta : Z) : bres :=
    match fuel with
    | O => BFuel
    | S f => match f64_round_Z (lo - delta)%Z with
             | None => BInf true
             | Some lo' => if Qle_bool y (F (inject_Z lo')) then expand_left f y lo' (2 * delta)%Z else BFound lo' lo
             end
    end.

  (* dist.go:146-150: x1, y1 := 0, CDF(0); xdelta := 1; right when y1 < y, else left.
     [true] = expanded to the right *)
  Definition goes_right (y : Q) : bool := Qltb (F 0) y.
  Definition bracket (fuel : nat) (y : Q) : bres :=
    if goes_right y then expand_right fuel y 0%Z 1%Z else expand_left fuel y 0%Z 1%Z.

  (* alg.go:80-102 bisectBool with f x := CDF(x) < y (dist.go:172-175): entered with f lo = true,
     f hi = false;  mid := (high+low)/2;  fmid == flow -> low = mid  else high = mid.
     k = number of halvings.  The float code stops when high-low <= 1e-16 or mid == low or mid == high;
     that rule only decides WHEN to stop (Proofs: the invariant holds for every k). *)
  Fixpoint bisect_bool (k : nat) (y lo hi : Q) : Q * Q :=
    match k with
    | O => (lo, hi)
    | S k' => let mid := Qred ((hi + lo) / 2) in
              if Qltb (F mid) y then bisect_bool k' y mid hi else bisect_bool k' y lo mid
    end.

  (* the numerical part with its intermediate results: (bracket, final pair); None: no finite bracket *)
  Definition invcdf_core (fuel k : nat) (y : Q) : option ((Q * Q) * (Q * Q)) :=
    match bracket fuel y with
    | BFound lo hi => Some ((inject_Z lo, inject_Z hi), bisect_bool k y (inject_Z lo) (inject_Z hi))
    | _ => None
    end.

  (* the closure returned by InvCDF (dist.go:122-177) at a rational y: the UPPER end of the final pair *)
  Definition invcdf_generic (fuel k : nat) (y : Q) : ires :=
    match inv_special y with
    | Some r => IVal r
    | None =>
        match bracket fuel y with
        | BFound lo hi => IVal (XFin (snd (bisect_bool k y (inject_Z lo) (inject_Z hi))))
        | BInf neg => IVal (XInf neg)
        | BFuel => INoBracket (negb (goes_right y))
        end
    end.

  (* ... at any float64 argument.  y = NaN: every comparison of the prelude is false, CDF(0) < NaN is
     false, so is NaN <= CDF(0): loX = hiX = 0 and bisectBool panics because f(0) == f(0).
     y = +-Inf is < 0 or > 1. *)
  Definition invcdf_x (fuel k : nat) (y : xreal) : ires :=
    match y with
    | XNaN => IPanic
    | XInf _ => IVal XNaN
    | XFin q => invcdf_generic fuel k q
    end.
End Generic.

(* float64: the 1024th sum is 2^1023 + 2^1023 = Inf; any larger fuel gives the same results *)
Definition go_expand_fuel : nat := 1100.

(* ---------- the probes in closed form ----------
   The points at which the expansion evaluates the cdf do not depend on the cdf: 1, 3, 7, ..., 2^53 - 1,
   then 2^54, 2^55, ..., 2^1023 (2^54 - 1 is a tie and rounds to even), then +Inf; mirrored to the left.
   [bracket_fast] walks over this list instead of redoing the float64 rounding for every level; it is the
   SAME function as [bracket _ go_expand_fuel] (Proofs: [bracket_fast_correct], for every F and y) and is
   what the correspondence check executes. *)
Fixpoint go_probes_from (n : nat) (k p : Z) : list Z :=      (* p = the k-th probe *)
  match n with
  | O => []
  | S m => let p' := (if k <? 53 then 2 * p + 1 else if k =? 53 then 2 * p + 2 else 2 * p)%Z in
           p' :: go_probes_from m (k + 1)%Z p'
  end.
Definition go_probes : list Z := go_probes_from 1023 0%Z 0%Z.
Definition go_probes_neg : list Z := map Z.opp go_probes.
Definition go_last_probe : Z := (2 ^ 1023)%Z.

Section Walk.
  Variable F : Q -> Q.
  (* the loop of dist.go:150-156 over a given list of probes; [fin]: what happens after the last one *)
  Fixpoint walk_right (y : Q) (prev : Z) (ps : list Z) (fin : bres) : bres :=
    match ps with
    | [] => fin
    | p :: r => if Qltb (F (inject_Z p)) y then walk_right y p r fin else BFound prev p
    end.
  (* dist.go:157-162 *)
  Fixpoint walk_left (y : Q) (prev : Z) (ps : list Z) (fin : bres) : bres :=
    match ps with
    | [] => fin
    | p :: r => if Qle_bool y (F (inject_Z p)) then walk_left y p r fin else BFound p prev
    end.
  Definition bracket_fast (y : Q) : bres :=
    if goes_right F y then walk_right y 0%Z go_probes (BInf false) else walk_left y 0%Z go_probes_neg (BInf true).
  Definition invcdf_core_fast (k : nat) (y : Q) : option ((Q * Q) * (Q * Q)) :=
    match bracket_fast y with
    | BFound lo hi => Some ((inject_Z lo, inject_Z hi), bisect_bool F k y (inject_Z lo) (inject_Z hi))
    | _ => None
    end.
End Walk.

(* ---------- Rand (dist.go:197-209) ----------
     var y float64; for y == 0 { y = r.Float64() }; return inv(y)
   The source is the list of values r.Float64() will return.  Result: the draw and the number
   of values consumed; None = the source ran dry while every value was 0. *)
Fixpoint rand_model {R : Type} (inv : Q -> R) (src : list Q) : option (R * nat) :=
  match src with
  | [] => None
  | y :: rest =>
      if Qeq_bool y 0 then
        match rand_model inv rest with Some (r, n) => Some (r, S n) | None => None end
      else Some (inv y, 1%nat)
  end.

(* math/rand (Go 1.23) Rand.Float64: float64(src.Int63()) / 2^63; exact when the low 10 bits are 0 *)
Definition float64_of_int63 (v : Z) : Q := inject_Z v / inject_Z (2 ^ 63).

(* ---------- piecewise cdfs ----------
   A knot (x, l, v): break point x, left limit l = cdf(x-), value v = cdf(x)  (jump iff l < v).
   Between consecutive knots (x, _, v) (x', l', _) the cdf is linear from v to l' (flat iff v = l').
   Left of the first knot it is 0, from the last knot on it is the last v. *)
Definition knot := (Q * Q * Q)%type.
Definition pwf := list knot.

(* cdf at x, given the last knot (px, pv) with px <= x *)
Fixpoint pw_cdf_from (px pv : Q) (rest : pwf) (x : Q) : Q :=
  match rest with
  | [] => pv
  | (xi, li, vi) :: r =>
      if Qle_bool xi x then pw_cdf_from xi vi r x
      else pv + (x - px) * (li - pv) / (xi - px)
  end.
Definition pw_cdf (pw : pwf) (x : Q) : Q :=
  match pw with
  | [] => 0
  | (x0, _, v0) :: r => if Qle_bool x0 x then pw_cdf_from x0 v0 r x else 0
  end.

(* smallest x with cdf x >= y, given the last knot (px, pv) with pv < y; None: y is above the sup *)
Fixpoint pw_q_from (px pv : Q) (rest : pwf) (y : Q) : option Q :=
  match rest with
  | [] => None
  | (xi, li, vi) :: r =>
      if Qle_bool y li then Some (px + (y - pv) * (xi - px) / (li - pv))       (* on the ramp *)
      else if Qle_bool y vi then Some xi                                         (* in the jump at xi *)
      else pw_q_from xi vi r y
  end.
(* for 0 < y *)
Definition pw_quantile (pw : pwf) (y : Q) : option Q :=
  match pw with
  | [] => None
  | (x0, _, v0) :: r => if Qle_bool y v0 then Some x0 else pw_q_from x0 v0 r y
  end.

(* well-formed: break points strictly increasing, levels non-decreasing, from 0 to 1 *)
Fixpoint pw_wf_from (px pv : Q) (rest : pwf) : Prop :=
  match rest with
  | [] => pv == 1
  | (xi, li, vi) :: r => px < xi /\ pv <= li /\ li <= vi /\ pw_wf_from xi vi r
  end.
Definition pw_wf (pw : pwf) : Prop :=
  match pw with
  | [] => False
  | (x0, l0, v0) :: r => l0 == 0 /\ 0 <= v0 /\ pw_wf_from x0 v0 r
  end.
(* the same, decidable (run by the check on every line) *)
Fixpoint pw_wfb_from (px pv : Q) (rest : pwf) : bool :=
  match rest with
  | [] => Qeq_bool pv 1
  | (xi, li, vi) :: r => Qltb px xi && Qle_bool pv li && Qle_bool li vi && pw_wfb_from xi vi r
  end.
Definition pw_wfb (pw : pwf) : bool :=
  match pw with
  | [] => false
  | (x0, l0, v0) :: r => Qeq_bool l0 0 && Qle_bool 0 v0 && pw_wfb_from x0 v0 r
  end.

(* InvCDF of a harness-defined distribution with this cdf and the given Bounds *)
Definition pw_invcdf (pw : pwf) (bl bh : Q) (k : nat) (y : xreal) : ires :=
  invcdf_x (pw_cdf pw) bl bh go_expand_fuel k y.

(* ---------- discrete distributions given by the exact cdf at their support points ----------
   (BinomialDist, HypergeometicDist: Step() = 1, cdf = Model/Binom.v, Model/Hyperg.v) *)
(* [(k, cdf k)] for cnt consecutive support points from k on *)
Fixpoint disc_table (cdf : Z -> Q) (k : Z) (cnt : nat) : list (Z * Q) :=
  match cnt with O => [] | S c => (k, Qred (cdf k)) :: disc_table cdf (k + 1)%Z c end.
(* first support point whose cdf is >= t; the last point (initially dflt) when there is none *)
Fixpoint disc_quantile (tab : list (Z * Q)) (t : Q) (dflt : Z) : Z :=
  match tab with
  | [] => dflt
  | (k, c) :: r => if Qle_bool t c then k else disc_quantile r t k
  end.

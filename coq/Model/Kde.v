(* Model/Kde.v — stats/kde.go (KDE.PDF, KDE.CDF, Bounds, BandwidthScott, BandwidthSilverman,
   epanechnikovKernel), stats/deltadist.go (pdfEach/cdfEach of DeltaDist{0}), stats/alg.go
   (series), exact arithmetic over Q.  DEFINITIONS ONLY.
   The model describes the repaired behaviour (DESIGN section 6, D5: the second image series
   of the doubly bounded density reflects with -w).
   What is NOT computed here: the Gaussian kernel's values (exp/erfc; RealSpec/KdeR.v and the
   M2 certificates of group gH), square roots and fifth roots (the bandwidth rules return the
   10th power of the bandwidth). *)
From MM Require Import Base.Num Base.GASort Model.Sample Model.Quantile.
From Coq Require Import Qround.
Local Open Scope Q_scope.

(* KDEKernel (kde.go:99-119) *)
Inductive kernel := KEpan | KGauss | KDelta.

(* ====================================================================== *)
(* kernels                                                                  *)
(* ====================================================================== *)

(* epanechnikovKernel.pdfEach (kde.go:326-336):
     a := 0.75 / h ; invhh := 1 / (h*h)
     if -h < x && x < h { y = a * (1 - x*x*invhh) }   else 0       (both tests strict) *)
Definition epan_pdf (h x : Q) : Q :=
  if Qltb (- h) x && Qltb x h then ((3 # 4) / h) * (1 - x * x * (1 / (h * h))) else 0.

(* epanechnikovKernel.cdfEach (kde.go:338-350):
     invh := 1 / h
     if x > h { 1 } else if x > -h { u := x*invh ; 0.25 * (2 + 3u - u^3) } else 0
   (x = h takes the polynomial branch, whose value there is 1; x = -h gives 0) *)
Definition epan_cdf (h x : Q) : Q :=
  if Qltb h x then 1
  else if Qltb (- h) x then let u := x * (1 / h) in (1 # 4) * (2 + 3 * u - u * u * u)
  else 0.

(* DeltaDist{0}.pdfEach (deltadist.go:23-31): +Inf when x == T, else 0.  +Inf is not a
   rational: the model carries the INDICATOR of "+Inf" (1 / 0); a sum of indicators with
   positive weights is positive exactly when the float sum is +Inf. *)
Definition delta_hit (x : Q) : Q := if Qeq_bool x 0 then 1 else 0.
(* DeltaDist{0}.CDF (deltadist.go:33-38): 1 when x >= T, else 0  (f(T) = 1) *)
Definition delta_cdf (x : Q) : Q := if Qle_bool 0 x then 1 else 0.

(* ====================================================================== *)
(* the closure y of KDE.PDF / KDE.CDF (kde.go:189-197, 235-243)             *)
(* ====================================================================== *)
(* ys := kernel.{pdf,cdf}Each(x - Xs) ; wys := Sample{Xs: ys, Weights: Weights} ;
   wys.Sum() / wys.Weight()
   Sample.Sum (sample.go:95-104): vec.Sum(ys) without weights, sum += y*w with weights.
   Sample.Weight (sample.go:107-112): float64(len) without weights, vec.Sum(Weights) with. *)
Definition mix_sum (g : Q -> Q) (xs : list Q) (ws : option (list Q)) (x : Q) : Q :=
  match ws with
  | None => fold_left (fun a xi => Qred (a + g (x - xi))) xs 0
  | Some w => fold_left (fun a p => Qred (a + g (x - fst p) * snd p)) (combine xs w) 0
  end.
Definition mix_weight (xs : list Q) (ws : option (list Q)) : Q :=
  match ws with
  | None => Qofnat (length xs)
  | Some w => fold_left (fun a wi => Qred (a + wi)) w 0
  end.
Definition mix (g : Q -> Q) (xs : list Q) (ws : option (list Q)) (x : Q) : Q :=
  Qred (mix_sum g xs ws x / mix_weight xs ws).

(* ====================================================================== *)
(* boundary configuration (kde.go:49-56, 160-161, 205-209)                  *)
(* ====================================================================== *)
(* bc := BoundaryMin != 0 || BoundaryMax != 0; then IsInf(BoundaryMax,1) -> lower bound only,
   else IsInf(BoundaryMin,-1) -> upper bound only, else both.  BBad: configurations the
   property does not speak about (NaN, BoundaryMin = +Inf, BoundaryMax = -Inf, both infinite). *)
Inductive bconf := BNone | BLower (m : Q) | BUpper (M : Q) | BBoth (m M : Q) | BBad.
Definition bconf_of (bmin bmax : xreal) : bconf :=
  match bmin, bmax with
  | XFin a, XFin b => if Qeq_bool a 0 && Qeq_bool b 0 then BNone else BBoth a b
  | XFin a, XInf false => BLower a
  | XInf true, XFin b => BUpper b
  | _, _ => BBad
  end.

(* x < BoundaryMin  /  x >= BoundaryMax  (kde.go:185, 228-232); an infinite bound never fires *)
Definition below_min (b : bconf) (x : Q) : bool :=
  match b with BLower m | BBoth m _ => Qltb x m | _ => false end.
Definition from_max (b : bconf) (x : Q) : bool :=
  match b with BUpper M | BBoth _ M => Qle_bool M x | _ => false end.

(* ====================================================================== *)
(* series (alg.go:107-114)                                                  *)
(* ====================================================================== *)
(* y, yp := 0, 1 ; for n := 0; y != yp; n++ { yp = y ; y += f(n) }
   In exact arithmetic y == yp after adding f(n) exactly when f(n) = 0: the loop adds
   f(0), f(1), ... and stops at the first term that is zero.  Fuel: None when it runs out
   (the theorems give the fuel that suffices for a kernel of bounded support). *)
Fixpoint series_q (f : nat -> Q) (n fuel : nat) (acc : Q) : option Q :=
  match fuel with
  | O => None
  | S k => let t := f n in
           if Qeq_bool t 0 then Some acc else series_q f (S n) k (Qred (acc + t))
  end.

(* ====================================================================== *)
(* BoundaryReflect (kde.go:201-219, 247-265)                                *)
(* ====================================================================== *)
Section Reflect.
  Variable y : Q -> Q.      (* the closure y: unbounded estimate of the density / distribution *)
  Variable fuel : nat.

  (* d := 2*(Max - Min) ; w := 2*(x - Min) *)
  Definition img_d (m M : Q) : Q := 2 * (M - m).
  Definition img_w (m x : Q) : Q := 2 * (x - m).

  (* kde.go:212-214  "Points >= x":  y(x+n*d) + y(x+n*d-w) *)
  Definition pdf_upper (m M x : Q) (n : nat) : Q :=
    y (x + Qofnat n * img_d m M) + y (x + Qofnat n * img_d m M - img_w m x).
  (* kde.go:215-218  "Points < x" (repaired):  y(x-(n+1)*d-w) + y(x-(n+1)*d) *)
  Definition pdf_lower (m M x : Q) (n : nat) : Q :=
    y (x - (Qofnat n + 1) * img_d m M - img_w m x) + y (x - (Qofnat n + 1) * img_d m M).
  (* kde.go:258-260  "Windows >= x-w":  y(x+n*d) - y(x+n*d-w) *)
  Definition cdf_upper (m M x : Q) (n : nat) : Q :=
    y (x + Qofnat n * img_d m M) - y (x + Qofnat n * img_d m M - img_w m x).
  (* kde.go:261-264  "Windows < x-w":  y(x-(n+1)*d) - y(x-(n+1)*d-w) *)
  Definition cdf_lower (m M x : Q) (n : nat) : Q :=
    y (x - (Qofnat n + 1) * img_d m M) - y (x - (Qofnat n + 1) * img_d m M - img_w m x).

  Definition two_series (up lo : nat -> Q) : option Q :=
    match series_q up 0 fuel 0, series_q lo 0 fuel 0 with
    | Some a, Some b => Some (Qred (a + b))
    | _, _ => None
    end.

  (* KDE.PDF after prepare (kde.go:184-220); None = not modelled (BBad / out of fuel) *)
  Definition reflect_pdf (b : bconf) (x : Q) : option Q :=
    match b with
    | BBad => None
    | BNone => Some (y x)
    | BLower m => if Qltb x m then Some 0 else Some (y x + y (2 * m - x))
    | BUpper M => if Qle_bool M x then Some 0 else Some (y x + y (2 * M - x))
    | BBoth m M =>
        if Qltb x m || Qle_bool M x then Some 0
        else two_series (pdf_upper m M x) (pdf_lower m M x)
    end.

  (* KDE.CDF after prepare (kde.go:226-266) *)
  Definition reflect_cdf (b : bconf) (x : Q) : option Q :=
    match b with
    | BBad => None
    | BNone => Some (y x)
    | BLower m => if Qltb x m then Some 0 else Some (y x - y (2 * m - x))
    | BUpper M => if Qle_bool M x then Some 1 else Some (y x + (1 - y (2 * M - x)))
    | BBoth m M =>
        if Qltb x m then Some 0 else if Qle_bool M x then Some 1
        else two_series (cdf_upper m M x) (cdf_lower m M x)
    end.
End Reflect.

(* number of terms after which every image of a kernel of support radius r has left the
   data, for data inside [m, M]:  n*d >= (M - m) + r  (+ margin; the stopping term itself
   needs one unit of fuel) *)
Definition img_fuel (r m M : Q) : nat :=
  if Qle_bool M m then 2%nat
  else Z.to_nat (Qceiling (r / img_d m M)) + 4.

(* ====================================================================== *)
(* KDE.PDF / KDE.CDF                                                        *)
(* ====================================================================== *)
(* the KDE after prepare(): Bandwidth already filled in *)
Record kde := mkKde { k_xs : list Q; k_ws : option (list Q); k_kernel : kernel; k_h : Q; k_b : bconf }.

Definition k_fuel (k : kde) : nat :=
  match k_b k with
  | BBoth m M => img_fuel (match k_kernel k with KDelta => 0 | _ => k_h k end) m M
  | _ => 0%nat
  end.

(* an empty sample makes Sum()/Weight() = 0/0 = NaN wherever y is evaluated *)
Definition kde_pdf (k : kde) (x : Q) : option xreal :=
  let inside := negb (below_min (k_b k) x || from_max (k_b k) x) in
  match k_xs k, k_kernel k with
  | _, KGauss => None
  | [], _ => match k_b k with
             | BBad | BBoth _ _ => None
             | _ => Some (if inside then XNaN else XFin 0)
             end
  | _, KEpan =>
      if Qle_bool (k_h k) 0 then None
      else option_map XFin (reflect_pdf (mix (epan_pdf (k_h k)) (k_xs k) (k_ws k)) (k_fuel k) (k_b k) x)
  | _, KDelta =>
      option_map (fun v => if Qltb 0 v then XInf false else XFin 0)
                 (reflect_pdf (mix delta_hit (k_xs k) (k_ws k)) (k_fuel k) (k_b k) x)
  end.

Definition kde_cdf (k : kde) (x : Q) : option xreal :=
  match k_xs k, k_kernel k with
  | _, KGauss => None
  | [], _ => match k_b k with
             | BBad | BBoth _ _ => None
             | b => Some (if below_min b x then XFin 0 else if from_max b x then XFin 1 else XNaN)
             end
  | _, KEpan =>
      if Qle_bool (k_h k) 0 then None
      else option_map XFin (reflect_cdf (mix (epan_cdf (k_h k)) (k_xs k) (k_ws k)) (k_fuel k) (k_b k) x)
  | _, KDelta =>
      option_map XFin (reflect_cdf (mix delta_cdf (k_xs k) (k_ws k)) (k_fuel k) (k_b k) x)
  end.

(* ====================================================================== *)
(* lazy bandwidth (kde.go:141-145)                                          *)
(* ====================================================================== *)
(* if k.Bandwidth == 0 { k.Bandwidth = BandwidthScott(k.Sample) }: the value stored after a
   call, given the value before it and Scott's value for the sample.  A non-zero bandwidth is
   never touched; once filled it is non-zero (unless Scott's rule itself gives 0). *)
Definition bandwidth_after (before scott : Q) : Q := if Qeq_bool before 0 then scott else before.

(* ====================================================================== *)
(* bandwidth rules (kde.go:64-94), as 10th powers                           *)
(* ====================================================================== *)
Fixpoint qpow (q : Q) (n : nat) : Q := match n with O => 1 | S k => q * qpow q k end.

(* Variance (sample.go:219-237), Welford: delta := x - mean; mean += delta/(n+1);
   M2 += delta*(x - mean); result M2/(len-1).  (Same recurrence as the C09 model.) *)
Fixpoint kvar_loop (xs : list Q) (n : nat) (mean m2 : Q) : Q * Q :=
  match xs with
  | [] => (mean, m2)
  | x :: t => let delta := x - mean in
              let mean' := Qred (mean + delta / Qofnat (S n)) in
              kvar_loop t (S n) mean' (Qred (m2 + delta * (x - mean')))
  end.
(* None = NaN (empty sample) *)
Definition kvariance (xs : list Q) : option Q :=
  match xs with
  | [] => None
  | [_] => Some 0
  | _ => Some (Qred (snd (kvar_loop xs 0 0 0) / Qofnat (length xs - 1)))
  end.

Definition c106 : Q := 106 # 100.       (* 1.06 *)
Definition c1349 : Q := 1349 # 1000.    (* 1.349 *)

Inductive bwres := BwPanic | BwNaN | BwPow10 (v : Q).

(* (1.06 * s * n^(-1/5))^10 = 1.06^10 * (s^2)^5 / n^2 *)
Definition bw10 (s2 n : Q) : Q := qpow c106 10 * qpow s2 5 / (n * n).

(* BandwidthSilverman (kde.go:64-69): 1.06 * StdDev() * Weight()^(-1/5).
   Sample.StdDev panics for a weighted sample (sample.go:253-259); NaN for an empty one. *)
Definition bandwidth_silverman10 (s : sample) : bwres :=
  match s_xs s, s_ws s with
  | [], _ => BwNaN
  | _, Some _ => BwPanic
  | xs, None => match kvariance xs with
                | Some v => BwPow10 (bw10 v (Qofnat (length xs)))
                | None => BwNaN
                end
  end.

(* BandwidthScott (kde.go:78-94): iqr := Quantile(0.75) - Quantile(0.25);
   hScale := 1.06 * Weight()^(-1/5); stdDev := StdDev();
   if stdDev < iqr/1.349 { hScale*stdDev } else { hScale*(iqr/1.349) }.
   The comparison is made on squares (both sides are >= 0). *)
Definition bandwidth_scott10 (s : sample) : bwres :=
  match s_xs s, s_ws s with
  | [], _ => BwNaN
  | _, Some _ => BwPanic
  | xs, None =>
      match quantile s (3 # 4), quantile s (1 # 4), kvariance xs with
      | RVal a, RVal b, Some v =>
          let r := (a - b) / c1349 in
          let n := Qofnat (length xs) in
          if Qltb v (r * r) then BwPow10 (bw10 v n) else BwPow10 (bw10 (r * r) n)
      | RPanic, _, _ | _, RPanic, _ => BwPanic
      | _, _, _ => BwNaN
      end
  end.

(* ====================================================================== *)
(* Bounds (kde.go:269-320) — through a checker                              *)
(* ====================================================================== *)
(* Bounds brackets and bisects the 0.5% / 99.5% points of the float CDF to a tolerance of
   0.001 and widens by 10%: the exact interval depends on every float CDF evaluation of the
   search, which the property does not fix.  What it fixes: the interval is finite, lies
   inside the boundaries and holds at least 98% of the mass. *)
Definition inside_bounds (b : bconf) (lo hi : Q) : bool :=
  match b with
  | BNone => true
  | BLower m => Qle_bool m lo
  | BUpper M => Qle_bool hi M
  | BBoth m M => Qle_bool m lo && Qle_bool hi M
  | BBad => false
  end.
(* [mass] is the mass of the closed interval [lo, hi]: CDF(hi) - CDF(lo) for a continuous
   estimate; for the delta kernel (atoms at the data points, all inside the boundaries) the
   total weight of the data points in [lo, hi] over the total weight, [delta_mass_in]. *)
Definition kde_bounds_ok (b : bconf) (lo hi : xreal) (mass : Q) : bool :=
  match lo, hi with
  | XFin l, XFin h => Qle_bool l h && inside_bounds b l h && Qle_bool (98 # 100) mass
  | _, _ => false
  end.
(* sum of w_i over lo <= x_i <= hi, over the total weight (t = hi - x_i ranges over [0, hi-lo]) *)
Definition delta_mass_in (xs : list Q) (ws : option (list Q)) (lo hi : Q) : Q :=
  mix (fun t => if Qle_bool 0 t && Qle_bool t (hi - lo) then 1 else 0) xs ws hi.

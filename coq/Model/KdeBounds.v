(* Model/KdeBounds.v — the SEARCH of KDE.Bounds() (stats/kde.go:269-321) with `bisect`
   (stats/alg.go:45-73) and mathx.Sign (mathx/sign.go:9-18), exact arithmetic over Q, with fuel.
   DEFINITIONS ONLY.  Generic in the distribution function F : Q -> Q the search evaluates
   (kde.CDF); instantiated at the end with the model's KDE.CDF (Model/Kde.v kde_cdf).
   This is a model of the ALGORITHM in exact arithmetic: the float search evaluates a rounded
   CDF, uses the float constant 0.1 and ends on `mid == low`; nothing here is tied to those
   float values (the correspondence check applies kde_bounds_ok to the implementation's result). *)
From MM Require Import Base.Num Model.Kde.
Local Open Scope Q_scope.

(* mathx.Sign (mathx/sign.go:9-18): -1 if x < 0, 0 if x == 0, 1 if x > 0 (NaN: not in Q) *)
Definition qsign (x : Q) : Z :=
  if Qeq_bool x 0 then 0%Z else if Qltb x 0 then (-1)%Z else 1%Z.

(* alg.go:47, 50, 59:  -tolerance <= v && v <= tolerance *)
Definition within_tol (tol v : Q) : bool := Qle_bool (- tol) v && Qle_bool v tol.

(* result of bisect: (x, ok) | panic | the model's fuel ran out *)
Inductive bisect_res := BisRet (x : Q) (found : bool) | BisPanic | BisFuel.

(* the loop of bisect (alg.go:56-72):
     mid := (high + low) / 2 ; fmid := f(mid)
     if -tolerance <= fmid && fmid <= tolerance { return mid, true }
     if mid == high || mid == low { return mid, false }
     if Sign(fmid) == Sign(flow) { low = mid; flow = fmid } else { high = mid; fhigh = fmid }
   In Q, mid == high or mid == low happens only when low == high (the test is kept as written);
   in floats it is what ends the loop at a discontinuity (adjacent floats).  In Q a step
   function such as the delta kernel's CDF never reaches the tolerance around a jump and the
   loop does not end: the fuel runs out (BisFuel). *)
Fixpoint bisect_loop (f : Q -> Q) (tol : Q) (fuel : nat) (low high flow fhigh : Q) : bisect_res :=
  match fuel with
  | O => BisFuel
  | S k =>
      let mid := Qred ((high + low) / 2) in
      let fmid := f mid in
      if within_tol tol fmid then BisRet mid true
      else if Qeq_bool mid high || Qeq_bool mid low then BisRet mid false
      else if Z.eqb (qsign fmid) (qsign flow) then bisect_loop f tol k mid high fmid fhigh
      else bisect_loop f tol k low mid flow fmid
  end.

(* bisect (alg.go:45-73):
     flow, fhigh := f(low), f(high)
     if -tolerance <= flow && flow <= tolerance { return low, true }
     if -tolerance <= fhigh && fhigh <= tolerance { return high, true }
     if Sign(flow) == Sign(fhigh) { panic }
     for { ... } *)
Definition bisect (f : Q -> Q) (low high tol : Q) (fuel : nat) : bisect_res :=
  let flow := f low in
  let fhigh := f high in
  if within_tol tol flow then BisRet low true
  else if within_tol tol fhigh then BisRet high true
  else if Z.eqb (qsign flow) (qsign fhigh) then BisPanic
  else bisect_loop f tol fuel low high flow fhigh.

(* kde.go:300-304 *)
Definition lowY : Q := 5 # 1000.        (* 0.005 *)
Definition highY : Q := 995 # 1000.     (* 0.995 *)
Definition tolerance : Q := 1 # 1000.   (* 0.001 *)

(* kde.go:305-307:  for kde.CDF(lowX) > lowY { lowX -= highX - lowX }    None: out of fuel *)
Fixpoint expand_low (F : Q -> Q) (fuel : nat) (lowX highX : Q) : option Q :=
  match fuel with
  | O => None
  | S k => if Qltb lowY (F lowX) then expand_low F k (Qred (lowX - (highX - lowX))) highX
           else Some lowX
  end.
(* kde.go:308-310:  for kde.CDF(highX) < highY { highX += highX - lowX } *)
Fixpoint expand_high (F : Q -> Q) (fuel : nat) (lowX highX : Q) : option Q :=
  match fuel with
  | O => None
  | S k => if Qltb (F highX) highY then expand_high F k lowX (Qred (highX + (highX - lowX)))
           else Some highX
  end.

(* Sample.Bounds (sample.go:51-92) for a non-empty sample whose weights, if any, are all
   non-zero (the property's assumption: positive weights): (min xs, max xs).
   kde.go:282-293:  if lowX == highX { lowX -= 1; highX += 1; if lowX == highX { Nextafter .. } }
   The inner Nextafter fallback (/repo commit 15eb6d6) is a float-only case (|x| >= 2^53, where
   x - 1 == x + 1 == x): in Q, x - 1 <> x + 1 always, so it has no counterpart here. *)
Definition start_points (x0 : Q) (t : list Q) : Q * Q :=
  let mn := Qlmin x0 t in
  let mx := Qlmax x0 t in
  if Qeq_bool mn mx then (mn - 1, mx + 1) else (mn, mx).

(* result of the search: the interval | bisect panicked | fuel ran out | outside the model
   (empty sample: Sample.Bounds gives NaN; BBad boundary configuration) *)
Inductive bounds_res := BrOk (lo hi : Q) | BrPanic | BrFuel | BrBad.

(* kde.go:317-324:  width := high - low ; low, high = low - 0.1*width, high + 0.1*width
   (the float constant 0.1 is 3602879701896397/2^55, not exactly 1/10; the model uses 1/10)
     if bc { low = math.Max(low, BoundaryMin); high = math.Min(high, BoundaryMax) }
   bc is false exactly for BNone; an infinite boundary leaves its end unchanged. *)
Definition margin_clip (b : bconf) (low high : Q) : bounds_res :=
  let width := high - low in
  let low1 := low - (1 # 10) * width in
  let high1 := high + (1 # 10) * width in
  match b with
  | BNone => BrOk low1 high1
  | BLower m => BrOk (Qmaxb low1 m) high1
  | BUpper M => BrOk low1 (Qminb high1 M)
  | BBoth m M => BrOk (Qmaxb low1 m) (Qminb high1 M)
  | BBad => BrBad
  end.

(* KDE.Bounds (kde.go:269-325), the CDF being F.  Both bisect calls start from the SAME
   expanded (lowX, highX) (kde.go:313-314); the `ok` flag of bisect is dropped (`low, _ =`).
   [fuel] bounds each of the four loops separately. *)
Definition bounds_search (F : Q -> Q) (b : bconf) (fuel : nat) (xs : list Q) : bounds_res :=
  match xs, b with
  | [], _ => BrBad
  | _, BBad => BrBad
  | x0 :: t, _ =>
      let '(lowX0, highX0) := start_points x0 t in
      match expand_low F fuel lowX0 highX0 with
      | None => BrFuel
      | Some lowX =>
          match expand_high F fuel lowX highX0 with
          | None => BrFuel
          | Some highX =>
              match bisect (fun x => F x - lowY) lowX highX tolerance fuel with
              | BisFuel => BrFuel
              | BisPanic => BrPanic
              | BisRet low _ =>
                  match bisect (fun x => F x - highY) lowX highX tolerance fuel with
                  | BisFuel => BrFuel
                  | BisPanic => BrPanic
                  | BisRet high _ => margin_clip b low high
                  end
              end
          end
      end
  end.

(* the model's KDE.CDF as a total function: kde_cdf k x is Some (XFin c) for every x when the
   KDE is well-formed (C12_model_is_spec, C12_delta_kernel; restated with the theorems about
   the search); the default 0 is never used there *)
Definition kde_cdf_q (k : kde) (x : Q) : Q :=
  match kde_cdf k x with Some (XFin c) => c | _ => 0 end.

(* KDE.Bounds of the model (Epanechnikov and delta kernels; the Gaussian CDF has no values in Q) *)
Definition kde_bounds_search (k : kde) (fuel : nat) : bounds_res :=
  match k_kernel k with
  | KGauss => BrBad
  | _ => bounds_search (kde_cdf_q k) (k_b k) fuel (k_xs k)
  end.

(* Model/Marks.v — graph/graphalg/marks.go (NodeMarks), repaired tree (D11: grow's loop is
   "for k < n").  DEFINITIONS ONLY.
   The bit words ([]uint32) are a list of N; every word the model produces is < 2^32
   (Proofs/Marks.v, words_bounded), so N.lor / N.ldiff / N.shiftr coincide with the
   uint32 operations of the Go code.  Node ids: Go [int]; Mark/Unmark are modelled on the
   non-negative ids (N) the property speaks about, Test/Next on every int (Z). *)
From Coq Require Import List ZArith NArith Lia.
Import ListNotations.

Definition marks := list N.

(* NewNodeMarks, marks.go:81-85: 1024/32 zero words *)
Definition m_new : marks := repeat 0%N 32.

(* m.marks[q] = f(m.marks[q]); no effect when q is out of range (the callers establish
   the range first: Mark by growing — see Proofs/Marks.v grow_covers —, Unmark by its
   early return) *)
Fixpoint m_upd (m : marks) (q : nat) (f : N -> N) : marks :=
  match m, q with
  | [], _ => []
  | w :: t, O => f w :: t
  | w :: t, S k => w :: m_upd t k f
  end.

(* Test, marks.go:15-20 *)
Definition m_test (m : marks) (i : Z) : bool :=
  if (i <? 0)%Z then false
  else let n := Z.to_N i in
       match nth_error m (N.to_nat (n / 32)) with
       | None => false                                   (* i/32 >= len(m.marks) *)
       | Some w => N.testbit w (n mod 32)
       end.

(* marks.go:40-44: k := 1; for k < n { k <<= 1 } — fuel = number of bits of n, plus one *)
Fixpoint pow2_loop (fuel : nat) (k n : N) : N :=
  match fuel with
  | O => k
  | S f => if (k <? n)%N then pow2_loop f (2 * k)%N n else k
  end.
Definition pow2_ge (n : N) : N := pow2_loop (S (N.size_nat n)) 1%N n.

(* grow, marks.go:38-49: make([]uint32, k); copy(marks, m.marks) *)
Definition m_grow (m : marks) (i : N) : marks :=
  let n := (i / 32 + 1)%N in
  let k := N.to_nat (pow2_ge n) in
  firstn k m ++ repeat 0%N (k - length m).

(* Mark, marks.go:23-28 *)
Definition m_mark (m : marks) (i : N) : marks :=
  let q := N.to_nat (i / 32) in
  let m1 := if (length m <=? q)%nat then m_grow m i else m in
  m_upd m1 q (fun w => N.lor w (N.shiftl 1 (i mod 32))).

(* Unmark, marks.go:31-36 *)
Definition m_unmark (m : marks) (i : N) : marks :=
  let q := N.to_nat (i / 32) in
  if (length m <=? q)%nat then m
  else m_upd m q (fun w => N.ldiff w (N.shiftl 1 (i mod 32))).

(* bits.TrailingZeros32 on a non-zero word *)
Fixpoint ctz_pos (p : positive) : N :=
  match p with xO q => N.succ (ctz_pos q) | _ => 0%N end.
Definition ctz (w : N) : N := match w with N0 => 32%N | Npos p => ctz_pos p end.

(* marks.go:70-76: scan the remaining blocks, bi = index of the head of l *)
Fixpoint m_scan (l : marks) (bi : N) : Z :=
  match l with
  | [] => (-1)%Z
  | b :: t => if (b =? 0)%N then m_scan t (bi + 1)%N else Z.of_N (32 * bi + ctz b)
  end.

(* Next, marks.go:57-78 *)
Definition m_next (m : marks) (i : Z) : Z :=
  let i1 := (i + 1)%Z in
  let i2 := if (i1 <? 0)%Z then 0%Z else i1 in
  let n := Z.to_N i2 in
  let q := N.to_nat (n / 32) in
  match nth_error m q with
  | None => (-1)%Z                                        (* i/32 >= len(m.marks) *)
  | Some w =>
      let b0 := N.shiftr w (n mod 32) in
      if (b0 =? 0)%N then m_scan (skipn (S q) m) (n / 32 + 1)%N
      else Z.of_N (n + ctz b0)
  end.

(* ---- histories ---- *)
Inductive mop := MMark (i : N) | MUnmark (i : N) | MTest (i : Z) | MNext (i : Z).

(* one step: new state and the observable result (Mark/Unmark: 0) *)
Definition m_step (m : marks) (o : mop) : marks * Z :=
  match o with
  | MMark i => (m_mark m i, 0%Z)
  | MUnmark i => (m_unmark m i, 0%Z)
  | MTest i => (m, if m_test m i then 1%Z else 0%Z)
  | MNext i => (m, m_next m i)
  end.

Fixpoint m_run (m : marks) (ops : list mop) : list Z :=
  match ops with
  | [] => []
  | o :: t => let '(m', r) := m_step m o in r :: m_run m' t
  end.

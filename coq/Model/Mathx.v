(* Model/Mathx.v — executable exact model of mathx/{choose,sign,beta,gamma}.go.
   DEFINITIONS ONLY (proofs: Proofs/Mathx.v).  Integers are Z, floats are exact
   rationals / xreal.  exp, log and lgamma are never computed: where the Go code uses
   them the model returns the exact mathematical value they approximate (a binomial
   coefficient, a closed form at integer parameters) or only the decision structure. *)
From MM Require Import Base.Num.
Local Open Scope Z_scope.

(* ---------- mathematics the models refer to ---------- *)
(* Pascal's triangle: the binomial coefficient C(n,k), the number of k-subsets *)
Fixpoint binom (n k : nat) : Z :=
  match n, k with
  | _, O => 1
  | O, S _ => 0
  | S n', S k' => binom n' k' + binom n' k
  end.

Fixpoint factZ (n : nat) : Z := match n with O => 1 | S k => Z.of_nat n * factZ k end.

(* ---------- choose.go ---------- *)
(* int64 arithmetic: two's-complement wrap-around *)
Definition wrap64 (z : Z) : Z := (z + 2 ^ 63) mod 2 ^ 64 - 2 ^ 63.

(* choose.go:36-39  numer := 1; for n1 := n-(k-1); n1 <= n; n1++ { numer *= n1 }
   [cnt] factors starting at [lo], wrapping after every multiplication as int64 does *)
Fixpoint prod_up64 (lo : Z) (cnt : nat) (acc : Z) : Z :=
  match cnt with O => acc | S c => prod_up64 (lo + 1) c (wrap64 (acc * lo)) end.
(* the same product without wrap-around (mathematical falling factorial n!/(n-k)!) *)
Fixpoint prod_up (lo : Z) (cnt : nat) (acc : Z) : Z :=
  match cnt with O => acc | S c => prod_up (lo + 1) c (acc * lo) end.

(* choose.go:30-42: the n <= 20 branch.  Go's integer division truncates (Z.quot). *)
Definition choose_small (n k : Z) : Z :=
  Z.quot (prod_up64 (n - (k - 1)) (Z.to_nat k) 1) (factZ (Z.to_nat k)).

(* row n of Pascal's triangle by the multiplicative recurrence
   C(n,j+1) = C(n,j) * (n-j) / (j+1)  (exact division): [C(n,j); C(n,j+1); ...] *)
Fixpoint binom_row_from (n : Z) (j : Z) (c : Z) (cnt : nat) : list Z :=
  match cnt with
  | O => [c]
  | S m => c :: binom_row_from n (j + 1) (c * (n - j) / (j + 1)) m
  end.
Definition binom_row (n : nat) : list Z := binom_row_from (Z.of_nat n) 0 1 n.
Definition binomZ (n k : nat) : Z := nth k (binom_row n) 0.

Inductive choose_res := CExact (z : Z) | CApprox (z : Z).
(* choose.go:22-44  Choose(n,k).  CExact z: the float result is exactly z;
   CApprox z: the code returns exp(lgamma(n+1)-lgamma(k+1)-lgamma(n-k+1)), whose
   mathematical value is z = C(n,k) (property: within 1e-10 relative). *)
Definition choose_model (n k : Z) : choose_res :=
  if (k =? 0) || (k =? n) then CExact 1
  else if (k <? 0) || (n <? k) then CExact 0
  else if n <=? 20 then CExact (choose_small n k)
  else CApprox (binomZ (Z.to_nat n) (Z.to_nat k)).

Inductive lchoose_res := LZero | LNaN | LLogOf (z : Z).
(* choose.go:47-55  Lchoose(n,k): 0, NaN, or ln C(n,k) (via lgamma) *)
Definition lchoose_model (n k : Z) : lchoose_res :=
  if (k =? 0) || (k =? n) then LZero
  else if (k <? 0) || (n <? k) then LNaN
  else LLogOf (binomZ (Z.to_nat n) (Z.to_nat k)).

(* ---------- sign.go:9-18 ---------- *)
Definition sign_model (x : xreal) : xreal :=
  match x with
  | XNaN => XNaN
  | XInf neg => XFin (if neg then (-1)%Q else 1%Q)
  | XFin q => if Qeqb q 0 then XFin 0%Q else if Qltb q 0 then XFin (-1)%Q else XFin 1%Q
  end.

(* ---------- beta.go:27-52  decision structure of BetaInc ---------- *)
Inductive betainc_branch := BNaN | BDirect | BReflected.
(* which evaluation the code performs for finite x, a, b *)
Definition betainc_branch_of (x a b : Q) : betainc_branch :=
  if Qltb x 0 || Qltb 1 x then BNaN
  else if Qltb x ((a + 1) / (a + b + 2)) then BDirect else BReflected.
(* bt = 0 at the two ends (beta.go:41-46): the value is then 0*cf/a = 0 resp. 1 - 0 = 1 *)
Definition betainc_end_value (x a b : Q) : option Q :=
  if Qeqb x 0 then (match betainc_branch_of x a b with BDirect => Some 0%Q | BReflected => Some 1%Q | BNaN => None end)
  else if Qeqb x 1 then (match betainc_branch_of x a b with BDirect => Some 0%Q | BReflected => Some 1%Q | BNaN => None end)
  else None.

(* closed form of the regularized incomplete beta function at integer parameters
   a, b >= 1:  I_x(a,b) = sum_{j=a}^{a+b-1} C(a+b-1, j) x^j (1-x)^(a+b-1-j)
   (the probability that a Binomial(a+b-1, x) variable is >= a). *)
Local Open Scope Q_scope.
Fixpoint Qpow (x : Q) (n : nat) : Q := match n with O => 1 | S k => x * Qpow x k end.
Definition ibeta_term (n j : nat) (x : Q) : Q :=
  inject_Z (binom n j) * Qpow x j * Qpow (1 - x) (n - j).
(* sum_{j=a}^{a+cnt-1} term j *)
Fixpoint ibeta_sum_from (n a cnt : nat) (x : Q) : Q :=
  match cnt with O => 0 | S c => ibeta_term n a x + ibeta_sum_from n (S a) c x end.
(* SPECIFICATION-level closed form *)
Definition ibeta_int (a b : nat) (x : Q) : Q := ibeta_sum_from (a + b - 1) a b x.

(* fast evaluation used by the checker, on integers: with x = p/q, r = q - p,
   T_j = C(n,j) p^j r^(n-j),  T_(j+1) = T_j * (n-j) * p / ((j+1) * r)  (exact),
   I = sum_{j=a}^{n} T_j / q^n.  (Proofs/Mathx.v: equal to ibeta_int for 0 <= x <= 1.) *)
Local Open Scope Z_scope.
Fixpoint ibeta_terms_fast (n p r : Z) (j : Z) (t : Z) (cnt : nat) (acc : Z) : Z :=
  match cnt with
  | O => acc
  | S c => ibeta_terms_fast n p r (j + 1) (t * (n - j) * p / ((j + 1) * r)) c (acc + t)
  end.
Definition ibeta_int_fast (a b : nat) (x : Q) : Q :=
  let n := (a + b - 1)%nat in
  let p := Qnum x in let q := Zpos (Qden x) in let r := q - p in
  if p <=? 0 then 0%Q
  else if r <=? 0 then 1%Q
  else
    let t0 := binomZ n a * p ^ (Z.of_nat a) * r ^ (Z.of_nat (n - a)) in
    Qred (Qmake (ibeta_terms_fast (Z.of_nat n) p r (Z.of_nat a) t0 b 0) (Z.to_pos (q ^ (Z.of_nat n)))).

(* ---------- gamma.go:13-43  decision structure of GammaInc / GammaIncComp ---------- *)
Inductive gammainc_branch := GNaN | GSeries | GContFrac.
Definition gammainc_branch_of (a x : xreal) : gammainc_branch :=
  match a, x with
  | XFin a, XFin x => if Qleb a 0 || Qltb x 0 then GNaN else if Qltb x (a + 1) then GSeries else GContFrac
  | XNaN, _ | _, XNaN => GNaN
  | XInf true, _ => GNaN           (* a = -inf <= 0 *)
  | _, XInf true => GNaN           (* x = -inf < 0 *)
  | XFin a, XInf false => if Qleb a 0 then GNaN else GContFrac
  | XInf false, XFin x => if Qltb x 0 then GNaN else GSeries
  | XInf false, XInf false => GContFrac    (* inf < inf+1 is false *)
  end.

(* ---------- beta.go:15-18  Beta at integer and half-integer arguments ---------- *)
(* Gamma(m/2) = q * sqrt(pi)^s  as (q, s) *)
Local Open Scope Q_scope.
Fixpoint gamma_half_fuel (fuel : nat) (m : Z) : Q * bool :=
  match fuel with
  | O => (1, false)
  | S f =>
      if (m =? 1)%Z then (1, true)
      else if (m =? 2)%Z then (1, false)
      else let '(q, s) := gamma_half_fuel f (m - 2)%Z in (Qred (((m - 2)%Z # 2) * q), s)
  end.
Definition gamma_half (m : Z) : Q * bool := gamma_half_fuel (Z.to_nat m) m.
(* Beta(ma/2, mb/2) = q * pi^e  with e in {0,1}: returns (q, e) *)
Definition beta_half (ma mb : Z) : Q * bool :=
  let '(qa, sa) := gamma_half ma in
  let '(qb, sb) := gamma_half mb in
  let '(qc, sc) := gamma_half (ma + mb)%Z in
  (Qred (qa * qb / qc), sa && sb).

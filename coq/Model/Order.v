(* Model/Order.v — graph/graphalg/order.go (PreOrder 12-28, PostOrder 31-47, Reverse 52-57)
   and graph/graphalg/visit.go (Euler.Visit 29-47).  DEFINITIONS ONLY.
   The three Go functions are the same recursive closure, differing only in what they
   record: PreOrder appends n before the successor loop, PostOrder after it, Euler calls
   Enter before and Exit after.  [visit pe px] is that closure with the two recording
   points switched by pe / px; the visited set is the NodeMarks model.  The Go recursion
   has no bound; the model recurses on fuel = recursion depth and answers None when it
   runs out (Proofs/Order.v: fuel > number of nodes always suffices). *)
From Coq Require Import List ZArith NArith.
From MM Require Import Base.GCGraph Model.Marks Spec.Dfs.
Import ListNotations.

(* marks and the events recorded so far, most recent first *)
Definition dstate := (marks * list event)%type.

Section Order.
  Variable out : N -> list N.

  (* for _, succ := range g.Out(n) { if !visited.Test(succ) { visit(succ) } } *)
  Fixpoint visit_succs (rec : N -> dstate -> option dstate) (l : list N) (s : dstate) : option dstate :=
    match l with
    | [] => Some s
    | v :: t =>
        if m_test (fst s) (Z.of_N v) then visit_succs rec t s
        else match rec v s with
             | None => None
             | Some s' => visit_succs rec t s'
             end
    end.

  Fixpoint visit (pe px : bool) (fuel : nat) (n : N) (s : dstate) : option dstate :=
    match fuel with
    | O => None
    | S f =>
        let s1 := (m_mark (fst s) n, if pe then Enter n :: snd s else snd s) in
        match visit_succs (visit pe px f) (out n) s1 with
        | None => None
        | Some s2 => Some (fst s2, if px then Exit n :: snd s2 else snd s2)
        end
    end.

  Definition run_visit (pe px : bool) (fuel : nat) (root : N) : option (list event) :=
    match visit pe px fuel root (m_new, []) with
    | None => None
    | Some s => Some (rev_append (snd s) [])      (* = rev (snd s), linear time *)
    end.

  (* PreOrder, order.go:12-28 *)
  Definition preorder (fuel : nat) (root : N) : option (list N) :=
    option_map (map ev_node) (run_visit true false fuel root).
  (* PostOrder, order.go:31-47 *)
  Definition postorder (fuel : nat) (root : N) : option (list N) :=
    option_map (map ev_node) (run_visit false true fuel root).
  (* Euler.Visit, visit.go:29-47: the sequence of callback invocations *)
  Definition euler (fuel : nat) (root : N) : option (list event) :=
    run_visit true true fuel root.
End Order.

(* Reverse, order.go:52-57 *)
Definition reverse (xs : list N) : list N := rev_append xs [].   (* = rev xs (rev_alt) *)

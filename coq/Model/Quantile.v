(* Model/Quantile.v — Sample.Quantile and Sample.IQR (stats/sample.go:261-328), exact arithmetic.
   DEFINITIONS ONLY. *)
From MM Require Import Base.Num Base.GASort Model.Sample.
From Coq Require Import Qround.
Local Open Scope Q_scope.

Inductive qr := RNaN | RVal (v : Q) | RPanic.

(* the float64 nearest to 1/3 — the value of the constant 1/3.0 once it meets a float64
   operand (sample.go:294): 0x3FD5555555555555 = 6004799503160661 / 2^54 *)
Definition third_f : Q := 6004799503160661 # 18014398509481984.

Definition idx (xs : list Q) (i : Z) : option Q :=
  if (i <? 0)%Z then None else nth_error xs (Z.to_nat i).

(* the unweighted branch (sample.go:291-302), on the sorted values; [c] is the plotting
   constant (1/3 for R8; the code uses [third_f]) *)
Definition quantile_pos (c : Q) (len : nat) (q : Q) : Q := c + q * (Qofnat len + c).
Definition quantile_unw (c : Q) (xs : list Q) (q : Q) : qr :=
  let n := quantile_pos c (length xs) q in
  let k := Qfloor n in                      (* kf, frac := math.Modf(n); k := int(kf)   (n > 0) *)
  let frac := n - inject_Z k in
  if (k <=? 0)%Z then match idx xs 0 with Some v => RVal v | None => RPanic end
  else if (Z.of_nat (length xs) <=? k)%Z then
    match idx xs (Z.of_nat (length xs) - 1) with Some v => RVal v | None => RPanic end
  else match idx xs (k - 1), idx xs k with
       | Some a, Some b => RVal (a + frac * (b - a))
       | _, _ => RPanic
       end.

(* the weighted branch (sample.go:303-317): target := Weight()*q; for each (x, w) in ascending
   order: target -= w; if target < 0 return x; finally the last value *)
Fixpoint wscan (ps : list (Q * Q)) (target : Q) (lastx : option Q) : option Q :=
  match ps with
  | [] => lastx
  | (x, w) :: t => let target' := Qred (target - w) in
                   if Qltb target' 0 then Some x else wscan t target' (Some x)
  end.
(* s.Weight() = vec.Sum(s.Weights): sum += w  (kept reduced) *)
Definition wtotal (ps : list (Q * Q)) : Q := fold_left (fun a p => Qred (a + snd p)) ps 0.
Definition quantile_w (ps : list (Q * Q)) (q : Q) : qr :=
  let target := wtotal ps * q in
  match wscan ps target None with Some v => RVal v | None => RPanic end.

(* Sample.Quantile (sample.go:275-318) *)
Definition quantile_c (c : Q) (s : sample) (q : Q) : qr :=
  match s_xs s with
  | [] => RNaN
  | _ =>
    if Qle_bool q 0 then match sample_bounds s with Some (mn, _) => RVal mn | None => RNaN end
    else if Qle_bool 1 q then match sample_bounds s with Some (_, mx) => RVal mx | None => RNaN end
    else
      let s' := if s_sorted s then s else sample_sort (sample_copy s) in
      match s_ws s' with
      | None => quantile_unw c (s_xs s') q
      | Some ws => quantile_w (combine (s_xs s') ws) q
      end
  end.
Definition quantile : sample -> Q -> qr := quantile_c third_f.

(* Sample.IQR (sample.go:323-328) *)
Definition iqr_c (c : Q) (s : sample) : qr :=
  let s' := if s_sorted s then s else sample_sort (sample_copy s) in
  match quantile_c c s' (3 # 4), quantile_c c s' (1 # 4) with
  | RVal a, RVal b => RVal (a - b)
  | RPanic, _ | _, RPanic => RPanic
  | _, _ => RNaN
  end.
Definition iqr : sample -> qr := iqr_c third_f.

(* Model/QuantileCI.v — stats/quantileci.go, exact rationals.  DEFINITIONS ONLY.
   QuantileCI (quantileci.go:82-290) and QuantileCIResult.SampleCI (46-71). *)
From MM Require Import Base.Num Base.GFSum Model.Choose Model.Binom.
From Coq Require Import Qround Sorting.Mergesort Orders.
Local Open Scope Q_scope.

Record qres := mkR { r_lo : Z; r_hi : Z; r_conf : Q; r_amb : bool }.

(* confidence >= 1 (quantileci.go:89-94) *)
Definition qci_full (n : Z) : qres := mkR 0 (n + 1) 1 false.

(* lower mode (quantileci.go:139-142): x = ceil((n+1) q) - 1, 0 when q = 0 *)
Definition mode_x (n : Z) (q : Q) : Z :=
  if Qeq_bool q 0 then 0%Z else (Qceiling (inject_Z (n + 1) * q) - 1)%Z.

(* final clamping (quantileci.go:281-288) *)
Definition clampR (n l r : Z) (conf : Q) (amb : bool) : qres :=
  mkR (if (l <? 0)%Z then 0%Z else l) (if (n + 1 <? r)%Z then (n + 1)%Z else r) conf amb.

(* ---------- n <= 30: greedy accumulation (quantileci.go:124-191) ---------- *)
Section Small.
Variable P : Z -> Q.            (* samp.PMF at integer arguments *)

(* loop state: [l, r) is the interval summed so far; lp, rp of the code are P (l-1), P r *)
Record st := mkSt { s_l : Z; s_r : Z; s_acc : Q; s_amb : bool }.
Definition lp (s : st) : Q := P (s_l s - 1).
Definition rp (s : st) : Q := P (s_r s).

(* quantileci.go:143-155: accum = PMF(x); l, r = x, x+1; Ambiguous = rp == accum *)
Definition st_init (x : Z) : st := mkSt x (x + 1) (P x) (Qeq_bool (P (x + 1)) (P x)).
(* loop guard (quantileci.go:168): accum < confidence && (lp > 0 || rp > 0) *)
Definition more (c : Q) (s : st) : bool := Qltb (s_acc s) c && (Qltb 0 (lp s) || Qltb 0 (rp s)).
(* loop body (quantileci.go:169-185): Ambiguous = lp == rp; left bias on lp >= rp *)
Definition step (s : st) : st :=
  let amb := Qeq_bool (lp s) (rp s) in
  if Qle_bool (rp s) (lp s) then mkSt (s_l s - 1) (s_r s) (s_acc s + lp s) amb
  else mkSt (s_l s) (s_r s + 1) (s_acc s + rp s) amb.
Fixpoint loop (c : Q) (fuel : nat) (s : st) : option st :=
  match fuel with
  | O => if more c s then None else Some s
  | S f => if more c s then loop c f (step s) else Some s
  end.

Definition qci_small (n : Z) (x : Z) (c : Q) : option qres :=
  match loop c (Z.to_nat (n + 1)) (st_init x) with
  | Some s => Some (clampR n (s_l s) (s_r s) (s_acc s) (s_amb s))
  | None => None
  end.

(* ---- the same algorithm with every float comparison allowed to go either way when its two
   sides are within relative eps = 1/[ieps] of each other (DESIGN 4.5): the set of admissible
   outcomes.  ieps = 0 (no window) gives exactly the deterministic algorithm above. ---- *)
Variable ieps : Q.               (* 1/eps, or 0 for "no window" *)
Definition near_exact (a b : Q) : bool := Qle_bool (ieps * Qabs (a - b)) (Qmaxb (Qabs a) (Qabs b)).
(* the same test, decided from the bit lengths when that is already conclusive (integers only) *)
Definition near (a b : Q) : bool :=
  negb (Qeq_bool ieps 0) &&
  match Qden a, Qden b, Qden ieps with
  | xH, xH, xH =>
      let d := Z.abs (Qnum a - Qnum b) in
      let m := Z.max (Z.abs (Qnum a)) (Z.abs (Qnum b)) in
      if (d =? 0)%Z then true
      else if (Z.log2 d + Z.log2 (Qnum ieps) + 2 <=? Z.log2 m)%Z then true
      else if (Z.log2 m + 1 <? Z.log2 d + Z.log2 (Qnum ieps))%Z then false
      else (Qnum ieps * d <=? m)%Z
  | _, _, _ => near_exact a b
  end.
(* admissible outcomes of the three decisions of one iteration: (Ambiguous, go left) *)
Definition step_choices (s : st) : list (bool * bool) :=
  if near (lp s) (rp s) then [(true, true); (false, true); (false, false)]
  else [(Qeq_bool (lp s) (rp s), Qle_bool (rp s) (lp s))].
Definition apply_choice (s : st) (ch : bool * bool) : st :=
  let '(amb, goleft) := ch in
  if goleft then mkSt (s_l s - 1) (s_r s) (s_acc s + lp s) amb
  else mkSt (s_l s) (s_r s + 1) (s_acc s + rp s) amb.
Definition has_mass (s : st) : bool := Qltb 0 (lp s) || Qltb 0 (rp s).
(* (may stop, may go on) at the loop guard; [sc] is a positive scale factor applied to the
   accumulated value (the algorithm is invariant under scaling all masses and c alike; the
   comparator uses it to keep every number an integer) *)
Definition guard_choices (sc c : Q) (s : st) : bool * bool :=
  let m := has_mass s in
  let a := sc * s_acc s in
  let lt := Qltb a c in
  let nr := near a c in
  (negb m || negb lt || nr, m && (lt || nr)).
Definition same_key (a b : st) : bool :=
  (s_l a =? s_l b)%Z && (s_r a =? s_r b)%Z && Bool.eqb (s_amb a) (s_amb b).
Fixpoint insert_st (s : st) (l : list st) : list st :=
  match l with
  | [] => [s]
  | t :: r => if same_key s t then l else t :: insert_st s r
  end.
Definition init_choices (x : Z) : list st :=
  if near (P (x + 1)) (P x) then [mkSt x (x + 1) (P x) true; mkSt x (x + 1) (P x) false] else [st_init x].
(* the transitions do not depend on c: layer k holds the states of interval width k+1 that some
   admissible run can reach, each with its admissible successors *)
Fixpoint graph (fuel : nat) (layer : list st) : option (list (list (st * list st))) :=
  match layer with
  | [] => Some []
  | _ =>
      match fuel with
      | O => None
      | S f =>
          let nodes := map (fun s => (s, if has_mass s then map (apply_choice s) (step_choices s) else [])) layer in
          let next := fold_left (fun a nd => fold_left (fun a t => insert_st t a) (snd nd) a) nodes [] in
          option_map (cons nodes) (graph f next)
      end
  end.
Definition qci_graph (n : Z) (xs : list Z) : option (list (list (st * list st))) :=
  graph (Z.to_nat (n + 3)) (fold_left (fun a x => fold_left (fun a t => insert_st t a) (init_choices x) a) xs []).
(* for a given c: follow the layers from the states reached so far; [outs] collects the states
   at which the loop may stop *)
Fixpoint walk (sc c : Q) (g : list (list (st * list st))) (reach outs : list st) : list st :=
  match g with
  | [] => outs
  | nodes :: g' =>
      let '(outs', next) :=
        fold_left (fun (acc : list st * list st) (nd : st * list st) =>
                     let '(o, nx) := acc in
                     let '(s, succs) := nd in
                     if existsb (same_key s) reach then
                       let '(stop, go) := guard_choices sc c s in
                       ((if stop then insert_st s o else o),
                        (if go then fold_left (fun a t => insert_st t a) succs nx else nx))
                     else acc)
                  nodes (outs, []) in
      match next with [] => outs' | _ => walk sc c g' next outs' end
  end.
Definition qci_small_set (n : Z) (g : list (list (st * list st))) (sc c : Q) : list qres :=
  match g with
  | [] => []
  | nodes :: _ => map (fun s => clampR n (s_l s) (s_r s) (s_acc s) (s_amb s)) (walk sc c g (map fst nodes) [])
  end.
End Small.

(* ---------- n > 30: normal approximation (quantileci.go:192-279) ----------
   Oracle instantiation: l1 = norm.InvCDF(alpha) with alpha = [qci_alpha c] and r1 = 2*norm.Mu - l1
   are given, and [cdfband l r] is the closure cdf(l, r) = norm.CDF(r-0.5) - norm.CDF(l-0.5) of the
   code.  This is the code after "fix: QuantileCI returns an empty or inverted interval for
   confidence <= 0 when n > 30": alpha is capped at 1/2, an empty rounded band keeps the bucket below
   it, and the left-biased trim is never taken when it would leave an empty band. *)
(* quantileci.go:195-200: alpha = (1 - confidence)/2, capped at 0.5 *)
Definition qci_alpha (c : Q) : Q :=
  let a := (1 - c) / 2 in if Qltb (1 # 2) a then 1 # 2 else a.
Section Normal.
Variable cdfband : Z -> Z -> Q.
(* quantileci.go:253-256 ("fix: QuantileCI confidence can fall a few ulps short of the request when n > 30"):
   for cdf(l, r) < confidence && (l > 0 || r < n+1) { l--; r++ } *)
Definition widen_more (n : Z) (c : Q) (l r : Z) : bool :=
  Qltb (cdfband l r) c && ((0 <? l)%Z || (r <? n + 1)%Z).
Fixpoint widen (fuel : nat) (n : Z) (c : Q) (l r : Z) : Z * Z :=
  match fuel with
  | O => (l, r)
  | S f => if widen_more n c l r then widen f n c (l - 1)%Z (r + 1)%Z else (l, r)
  end.
(* after max(l, n+1-r) steps the band covers [0, n+1] and the loop has stopped (Proofs: widen_spec) *)
Definition widen_fuel (n l r : Z) : nat := Z.to_nat (Z.max l (n + 1 - r)).
Definition qci_normal (n : Z) (c l1 r1 : Q) : qres :=
  (* floorInt(math.Floor(l1-0.5)+0.5)+1 and floorInt(math.Ceil(r1-0.5)+0.5)+1 *)
  let l0 := (Qfloor (l1 - (1 # 2)) + 1)%Z in
  let r0 := (Qceiling (r1 - (1 # 2)) + 1)%Z in
  (* quantileci.go:226-231: if r <= l { l = r - 1 } *)
  let la := if (r0 <=? l0)%Z then (r0 - 1)%Z else l0 in
  let '(l, r) := widen (widen_fuel n la r0) n c la r0 in
  let conf := cdfband l r in
  let ab := cdfband l (r - 1) in
  (* rBiased > l && aBiased >= confidence && aBiased < res.Confidence *)
  let '(conf1, amb1, r1') := if (l <? r - 1)%Z && Qle_bool c ab && Qltb ab conf then (ab, true, (r - 1)%Z) else (conf, false, r) in
  let '(conf2, amb2) := if (l <=? 0)%Z && (n + 1 <=? r1')%Z then (1, false) else (conf1, amb1) in
  clampR n l r1' conf2 amb2.
End Normal.

Definition qci_threshold : Z := 30.       (* quantileCIApproxThreshold *)

(* QuantileCI(n, q, c) *)
Definition quantile_ci (cdfband : Z -> Z -> Q) (n : Z) (q c l1 r1 : Q) : option qres :=
  if Qle_bool 1 c then Some (qci_full n)
  else if (n <=? qci_threshold)%Z then qci_small (binom_pmf_i n q) n (mode_x n q) c
  else Some (qci_normal cdfband n c l1 r1).

(* ---------- SampleCI (quantileci.go:46-71) ---------- *)
Module QOrder <: TotalLeBool.
  Definition t := Q.
  Definition leb := Qle_bool.
  Theorem leb_total : forall a1 a2, leb a1 a2 = true \/ leb a2 a1 = true.
  Proof.
    intros a b. unfold leb. destruct (Qle_bool a b) eqn:E; [left; reflexivity|right].
    apply Qle_bool_iff. apply Qlt_le_weak. apply Qnot_le_lt. intros H. apply Qle_bool_iff in H. congruence.
  Qed.
End QOrder.
Module QSort := Sort QOrder.

Inductive sci_result := SciPanic | SciOk (lo hi : xreal) (sorted : list Q).
(* panics on a weighted sample or a size mismatch; sorts a copy unless the sample is flagged
   Sorted; lo = -inf when LoOrder < 1 else xs[LoOrder-1]; hi = +inf when HiOrder-1 >= len else
   xs[HiOrder-1].  The first component, s.Quantile(ci.Quantile), is C10's function evaluated on
   the returned sorted copy. *)
Definition sample_ci (N lo hi : Z) (weighted sorted_flag : bool) (xs : list Q) : sci_result :=
  if weighted || negb (Z.of_nat (length xs) =? N)%Z then SciPanic else
  let s := if sorted_flag then xs else QSort.sort xs in
  let olo := if (lo <? 1)%Z then Some (XInf true)
             else option_map XFin (nth_error s (Z.to_nat (lo - 1))) in
  let ohi := if (Z.of_nat (length s) <=? hi - 1)%Z then Some (XInf false)
             else if (hi <? 1)%Z then None
             else option_map XFin (nth_error s (Z.to_nat (hi - 1))) in
  match olo, ohi with
  | Some a, Some b => SciOk a b s
  | _, _ => SciPanic                (* index out of range *)
  end.

(* Model/Sample.v — stats/sample.go (Sample, Bounds, Sum, Weight, Mean, GeoMean, Variance, Sort,
   Copy) and vec/vec.go, exact arithmetic.  DEFINITIONS ONLY.
   The model describes the repaired behaviour (DESIGN section 6, D4: the weighted incremental
   Mean/GeoMean skip zero weights). *)
From MM Require Import Base.Num Base.GASort.
Local Open Scope Q_scope.

(* Sample{Xs, Weights, Sorted} (sample.go:15-26).  Weights = None is the nil slice; a weighted
   sample has len(Weights) = len(Xs) (documented requirement of the type). *)
Record sample := mkSample { s_xs : list Q; s_ws : option (list Q); s_sorted : bool }.

(* ---------- Bounds (sample.go:29-43) ---------- *)
Definition bounds_step (acc : Q * Q) (x : Q) : Q * Q :=
  ((if Qltb x (fst acc) then x else fst acc), (if Qltb (snd acc) x then x else snd acc)).
(* None = (NaN, NaN) *)
Definition bounds (xs : list Q) : option (Q * Q) :=
  match xs with [] => None | x0 :: _ => Some (fold_left bounds_step xs (x0, x0)) end.

(* first value with a non-zero weight, scanning from the front (sample.go:61-66) *)
Fixpoint first_nonzero (ps : list (Q * Q)) : option Q :=
  match ps with [] => None | (x, w) :: t => if Qeq_bool w 0 then first_nonzero t else Some x end.
(* unsorted weighted scan (sample.go:77-89): min/max over the values with non-zero weight *)
Definition wbounds_step (acc : option (Q * Q)) (p : Q * Q) : option (Q * Q) :=
  let '(x, w) := p in
  if Qeq_bool w 0 then acc
  else match acc with None => Some (x, x) | Some a => Some (bounds_step a x) end.

(* Sample.Bounds (sample.go:51-92), all four paths *)
Definition sample_bounds (s : sample) : option (Q * Q) :=
  match s_xs s, s_ws s, s_sorted s with
  | [], _, _ => None
  | xs, None, false => bounds xs
  | x0 :: t, None, true => Some (x0, last t x0)
  | xs, Some ws, true =>
      let ps := combine xs ws in
      match first_nonzero ps, first_nonzero (rev ps) with
      | Some mn, Some mx => Some (mn, mx)
      | _, _ => None
      end
  | xs, Some ws, false => fold_left wbounds_step (combine xs ws) None
  end.

(* ---------- Sort (sample.go:330-361) and Copy (363-378) ---------- *)
(* Sort keeps each weight attached to its value.  sort.Sort is not stable: the order among
   equal values is unspecified, which no query can observe except through the pairing itself;
   the model uses the (verified) stable insertion sort of Base/GASort.v. *)
Definition sample_sort (s : sample) : sample :=
  if s_sorted s then s
  else match s_ws s with
       | None => mkSample (Qsort (s_xs s)) None true
       | Some ws => let ps := psort (combine (s_xs s) ws) in mkSample (map fst ps) (Some (map snd ps)) true
       end.
Definition sample_copy (s : sample) : sample := s.

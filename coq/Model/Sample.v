(* Model/Sample.v — stats/sample.go (Sample, Bounds, Sum, Weight, Mean, GeoMean, Variance, Sort,
   Copy) and vec/vec.go, exact arithmetic.  DEFINITIONS ONLY.
   The model describes the repaired behaviour (DESIGN section 6, D4: the weighted incremental
   Mean/GeoMean skip zero weights; all-zero weights give NaN; a non-positive value that carries
   weight makes the weighted GeoMean NaN). *)
From MM Require Import Base.Num Base.GASort.
Local Open Scope Q_scope.

(* Sample{Xs, Weights, Sorted} (sample.go:15-26).  Weights = None is the nil slice; a weighted
   sample has len(Weights) = len(Xs) (documented requirement of the type). *)
Record sample := mkSample { s_xs : list Q; s_ws : option (list Q); s_sorted : bool }.

(* ---------- Bounds (sample.go:29-43) ---------- *)
Definition bounds_step (acc : Q * Q) (x : Q) : Q * Q :=
  ((if Qltb x (fst acc) then x else fst acc), (if Qltb (snd acc) x then x else snd acc)).
(* None = (NaN, NaN) *)
Definition bounds (xs : list Q) : option (Q * Q) :=
  match xs with [] => None | x0 :: _ => Some (fold_left bounds_step xs (x0, x0)) end.

(* first value with a non-zero weight, scanning from the front (sample.go:61-66) *)
Fixpoint first_nonzero (ps : list (Q * Q)) : option Q :=
  match ps with [] => None | (x, w) :: t => if Qeq_bool w 0 then first_nonzero t else Some x end.
(* unsorted weighted scan (sample.go:77-89): min/max over the values with non-zero weight *)
Definition wbounds_step (acc : option (Q * Q)) (p : Q * Q) : option (Q * Q) :=
  let '(x, w) := p in
  if Qeq_bool w 0 then acc
  else match acc with None => Some (x, x) | Some a => Some (bounds_step a x) end.

(* Sample.Bounds (sample.go:51-92), all four paths *)
Definition sample_bounds (s : sample) : option (Q * Q) :=
  match s_xs s, s_ws s, s_sorted s with
  | [], _, _ => None
  | xs, None, false => bounds xs
  | x0 :: t, None, true => Some (x0, last t x0)
  | xs, Some ws, true =>
      let ps := combine xs ws in
      match first_nonzero ps, first_nonzero (rev ps) with
      | Some mn, Some mx => Some (mn, mx)
      | _, _ => None
      end
  | xs, Some ws, false => fold_left wbounds_step (combine xs ws) None
  end.

(* ---------- Sort (sample.go:330-361) and Copy (363-378) ---------- *)
(* Sort keeps each weight attached to its value.  sort.Sort is not stable: the order among
   equal values is unspecified, which no query can observe except through the pairing itself;
   the model uses the (verified) stable insertion sort of Base/GASort.v. *)
Definition sample_sort (s : sample) : sample :=
  if s_sorted s then s
  else match s_ws s with
       | None => mkSample (Qsort (s_xs s)) None true
       | Some ws => let ps := psort (combine (s_xs s) ws) in mkSample (map fst ps) (Some (map snd ps)) true
       end.
Definition sample_copy (s : sample) : sample := s.

(* ====================================================================== *)
(* descriptive statistics (C09)                                             *)
(* ====================================================================== *)
Inductive fres := FNaN | FVal (v : Q) | FPanic.

(* vec.Sum (vec.go:55-61): sum += x  (kept reduced) *)
Definition vsum (xs : list Q) : Q := fold_left (fun a x => Qred (a + x)) xs 0.

(* Sample.Sum (sample.go:95-104) *)
Definition sample_sum (s : sample) : Q :=
  match s_ws s with
  | None => vsum (s_xs s)
  | Some ws => fold_left (fun a p => Qred (a + fst p * snd p)) (combine (s_xs s) ws) 0
  end.
(* Sample.Weight (sample.go:107-112) *)
Definition sample_weight (s : sample) : Q :=
  match s_ws s with None => Qofnat (length (s_xs s)) | Some ws => vsum ws end.

(* Mean (sample.go:115-124): m += (x - m) / (i+1) *)
Fixpoint mean_loop (xs : list Q) (i : nat) (m : Q) : Q :=
  match xs with
  | [] => m
  | x :: t => mean_loop t (S i) (Qred (m + (x - m) / Qofnat (S i)))
  end.
Definition mean (xs : list Q) : fres := match xs with [] => FNaN | _ => FVal (mean_loop xs 0 0) end.

(* Sample.Mean, weighted (sample.go:127-150, repaired: zero weights are skipped; nothing carries weight -> NaN):
     for i, x := range Xs { w := Weights[i]; if w == 0 { continue }; wsum += w; m += (x - m) * w / wsum }
     if wsum == 0 { return NaN }; return m
   the loop returns (m, wsum) *)
Fixpoint wmean_loop (ps : list (Q * Q)) (m wsum : Q) : Q * Q :=
  match ps with
  | [] => (m, wsum)
  | (x, w) :: t =>
      if Qeq_bool w 0 then wmean_loop t m wsum
      else let wsum' := Qred (wsum + w) in wmean_loop t (Qred (m + (x - m) * w / wsum')) wsum'
  end.
Definition sample_mean (s : sample) : fres :=
  match s_xs s, s_ws s with
  | [], _ => FNaN
  | xs, None => mean xs
  | xs, Some ws => let '(m, wsum) := wmean_loop (combine xs ws) 0 0 in
                   if Qeq_bool wsum 0 then FNaN else FVal m
  end.

(* Variance (sample.go:219-237), Welford: delta := x - mean; mean += delta/(n+1);
   M2 += delta*(x - mean); result M2/(len-1) *)
Fixpoint var_loop (xs : list Q) (n : nat) (mean m2 : Q) : Q * Q :=
  match xs with
  | [] => (mean, m2)
  | x :: t => let delta := x - mean in
              let mean' := Qred (mean + delta / Qofnat (S n)) in
              var_loop t (S n) mean' (Qred (m2 + delta * (x - mean')))
  end.
Definition variance (xs : list Q) : fres :=
  match xs with
  | [] => FNaN
  | [_] => FVal 0
  | _ => FVal (snd (var_loop xs 0 0 0) / Qofnat (length xs - 1))
  end.
(* Sample.Variance / StdDev (sample.go:239-259): weighted is panic("not implemented").
   StdDev is sqrt(Variance): the model returns the radicand. *)
Definition sample_variance (s : sample) : fres :=
  match s_xs s, s_ws s with
  | [], _ => FNaN
  | xs, None => variance xs
  | _, Some _ => FPanic
  end.

(* GeoMean (sample.go:183-216) = exp(incremental mean of ln x).  exp and ln are not computable
   in Q; the model tracks the value of m as a FORMAL linear combination sum_i c_i * ln(x_i) and
   returns the coefficients c_i (one per value, in order): the result is exp(sum c_i ln x_i).
   NaN for an empty sample and, unweighted, as soon as a value is <= 0. *)
Inductive gres := GNaN | GExp (cs : list Q).
Fixpoint geo_loop (xs : list Q) (i : nat) (cs : list Q) : option (list Q) :=
  match xs with
  | [] => Some cs
  | x :: t => if Qle_bool x 0 then None
              else let d := Qofnat (S i) in                       (* m += (lx - m) / (i+1) *)
                   geo_loop t (S i) (map (fun c => Qred (c - c / d)) cs ++ [Qred (1 / d)])
  end.
Definition geomean (xs : list Q) : gres :=
  match xs with [] => GNaN | _ => match geo_loop xs 0 [] with None => GNaN | Some cs => GExp cs end end.
(* weighted (sample.go:205-227, repaired):
     for i, x := range Xs { w := Weights[i]; if w == 0 { continue }; if x <= 0 { return NaN }
                            wsum += w; lx := Log(x); m += (lx - m) * w / wsum }
     if wsum == 0 { return NaN }; return Exp(m)
   the zero-weight skip comes BEFORE the x <= 0 guard: a non-positive value that carries no weight is ignored.
   None = the early NaN return; Some (coefficients, wsum) otherwise *)
Fixpoint wgeo_loop (ps : list (Q * Q)) (cs : list Q) (wsum : Q) : option (list Q * Q) :=
  match ps with
  | [] => Some (cs, wsum)
  | (x, w) :: t =>
      if Qeq_bool w 0 then wgeo_loop t (cs ++ [0]) wsum
      else if Qle_bool x 0 then None
      else let wsum' := Qred (wsum + w) in
           wgeo_loop t (map (fun c => Qred (c - c * w / wsum')) cs ++ [Qred (w / wsum')]) wsum'
  end.
Definition sample_geomean (s : sample) : gres :=
  match s_xs s, s_ws s with
  | [], _ => GNaN
  | xs, None => geomean xs
  | xs, Some ws => match wgeo_loop (combine xs ws) [] 0 with
                   | None => GNaN
                   | Some (cs, wsum) => if Qeq_bool wsum 0 then GNaN else GExp cs
                   end
  end.

(* ====================================================================== *)
(* vec/vec.go                                                               *)
(* ====================================================================== *)
(* Linspace (vec.go:32-42): num = 1 -> [lo]; else lo + i*(hi-lo)/(num-1), i = 0..num-1 *)
Definition linspace (lo hi : Q) (num : nat) : list Q :=
  match num with
  | 1%nat => [lo]
  | _ => map (fun i => Qred (lo + Qofnat i * (hi - lo) / Qofnat (num - 1))) (seq 0 num)
  end.
(* Logspace (vec.go:46-52) = base ** Linspace(lo, hi, num): the model returns the exponents *)
Definition logspace_exponents (lo hi : Q) (num : nat) : list Q := linspace lo hi num.
(* Map / Vectorize (vec.go:12-28), Concat (vec.go:65-76) *)
Definition vmap (f : Q -> Q) (xs : list Q) : list Q := map f xs.
Definition vectorize (f : Q -> Q) : list Q -> list Q := fun xs => vmap f xs.
Definition vconcat (xss : list (list Q)) : list Q := concat xss.

(* ====================================================================== *)
(* histories of Sort / Copy / direct writes / queries over a store of samples *)
(* ====================================================================== *)
Inductive hop :=
| HSort (i : nat)                 (* samples[i].Sort()   (in place) *)
| HCopy (i : nat)                 (* samples = append(samples, samples[i].Copy()) *)
| HPoke (i j : nat) (v : Q)       (* samples[i].Xs[j] = v ; samples[i].Sorted = false  (done by the caller) *)
| HQuery (i : nat).               (* observe samples[i] *)

Fixpoint set_nth {A} (l : list A) (i : nat) (a : A) : list A :=
  match l, i with
  | [], _ => []
  | _ :: t, O => a :: t
  | x :: t, S j => x :: set_nth t j a
  end.

Definition h_step (st : list sample) (o : hop) : list sample :=
  match o with
  | HSort i => match nth_error st i with Some s => set_nth st i (sample_sort s) | None => st end
  | HCopy i => match nth_error st i with Some s => st ++ [sample_copy s] | None => st end
  | HPoke i j v => match nth_error st i with
                   | Some s => set_nth st i (mkSample (set_nth (s_xs s) j v) (s_ws s) false)
                   | None => st end
  | HQuery _ => st
  end.
Definition h_run (s0 : sample) (ops : list hop) : list sample := fold_left h_step ops [s0].

(* Model/Scale.v — scale/linear.go (Map/Unmap/SetClamp), scale/util.go (clamp),
   scale/log.go (NewLog, ebounds, Map, Unmap), scale/interface.go (QQ).
   DEFINITIONS ONLY.  Linear is exact rational arithmetic.  Log: the decision
   structure is exact (which of NaN / 0.5 / the interpolation formula applies,
   sign folding, clamping); the VALUE of the interpolation formula involves ln/exp
   and is represented symbolically ([lmap], [lunmap]); it is evaluated exactly
   where it is rational (arguments that are integer powers of one integer b), and
   given its real-number meaning in RealSpec/LogScale.v. *)
From MM Require Import Base.Num.
From Coq Require Import Qround.
Local Open Scope Q_scope.

(* ---------- util.go:8-16 ---------- *)
Definition clampq (y : Q) : Q := if Qltb y 0 then 0 else if Qltb 1 y then 1 else y.

(* ---------- linear.go:13-50 ---------- *)
Record linear := mkLin { l_min : Q; l_max : Q; l_clamp : bool }.

(* linear.go:33-42 *)
Definition lin_map (s : linear) (x : Q) : Q :=
  if Qeqb (l_min s) (l_max s) then 1 # 2
  else let y := (x - l_min s) / (l_max s - l_min s) in
       if l_clamp s then clampq y else y.
(* linear.go:44-46 *)
Definition lin_unmap (s : linear) (y : Q) : Q := y * (l_max s - l_min s) + l_min s.
(* linear.go:48-50 *)
Definition lin_set_clamp (s : linear) (c : bool) : linear := mkLin (l_min s) (l_max s) c.

(* ---------- IEEE comparisons on extended reals (NaN compares false) ---------- *)
Definition xlt (a b : xreal) : bool :=
  match a, b with
  | XNaN, _ | _, XNaN => false
  | XFin p, XFin q => Qltb p q
  | XInf true, XInf true => false
  | XInf true, _ => true
  | XInf false, _ => false
  | XFin _, XInf n => negb n
  end.
Definition xle (a b : xreal) : bool :=
  match a, b with
  | XNaN, _ | _, XNaN => false
  | XFin p, XFin q => Qleb p q
  | XInf true, _ => true
  | XInf false, XInf false => true
  | XInf false, _ => false
  | XFin _, XInf n => negb n
  end.

(* ---------- log.go:36-49 NewLog ---------- *)
Inductive newlog_res := NL_ok (min max : xreal) (base : Z) | NL_rangeerr.
Definition new_log (min max : xreal) (base : Z) : newlog_res :=
  let '(mn, mx) := if xlt max min then (max, min) else (min, max) in     (* min > max: swap *)
  if (base <=? 1)%Z then NL_rangeerr
  else if xle mn (XFin 0) && xle (XFin 0) mx then NL_rangeerr
  else NL_ok mn mx base.

(* ---------- log.go:9-29 the scale; Base plays no part in Map/Unmap ---------- *)
Record logscale := mkLog { g_min : Q; g_max : Q; g_clamp : bool }.
Definition log_set_clamp (s : logscale) (c : bool) : logscale := mkLog (g_min s) (g_max s) c.

(* log.go:51-56 *)
Definition ebounds (s : logscale) : bool * Q * Q :=
  if Qltb (g_min s) 0 then (true, - g_max s, - g_min s) else (false, g_min s, g_max s).

(* log.go:58-79 Map.  [LM_val neg clamp mn mx x] stands for
     y := (ln x - ln mn) / (ln mx - ln mn);  if neg, y := 1 - y;  if clamp, y := clamp y. *)
Inductive lmap := LM_nan | LM_half | LM_val (neg clamp : bool) (emin emax ex : Q).
Definition log_map_dec (s : logscale) (x : Q) : lmap :=
  let '(neg, mn, mx) := ebounds s in
  let x := if neg then - x else x in
  if Qleb x 0 then LM_nan
  else if Qeqb mn mx then LM_half
  else LM_val neg (g_clamp s) mn mx x.

(* log.go:81-92 Unmap.  [LU_val neg mn mx y] stands for
     x := exp (y * (ln mx - ln mn) + ln mn);  if neg, x := - x      (y already folded: 1 - y if neg) *)
Inductive lunmap := LU_val (neg : bool) (emin emax y : Q).
Definition log_unmap_dec (s : logscale) (y : Q) : lunmap :=
  let '(neg, mn, mx) := ebounds s in
  LU_val neg mn mx (if neg then 1 - y else y).

(* ---------- closed forms at integer powers of an integer b >= 2 ---------- *)
Definition bpow (b : Z) (k : Z) : Q :=
  if (0 <=? k)%Z then inject_Z (b ^ k) else 1 # Z.to_pos (b ^ (- k)).

(* n = b^k for some k >= 0 ?  (repeated exact division; fuel = bit length) *)
Fixpoint ilog_pos (fuel : nat) (b n k : Z) : option Z :=
  if (n =? 1)%Z then Some k
  else match fuel with
       | O => None
       | S f => if (n mod b =? 0)%Z then ilog_pos f b (n / b) (k + 1)%Z else None
       end.
(* q = b^k for some integer k ? *)
Definition ilog (b : Z) (q : Q) : option Z :=
  if (b <? 2)%Z then None else
  let r := Qred q in
  let n := Qnum r in let d := Zpos (Qden r) in
  if (n <=? 0)%Z then None
  else if (d =? 1)%Z then ilog_pos (S (Z.to_nat (Z.log2 n))) b n 0
  else if (n =? 1)%Z then option_map Z.opp (ilog_pos (S (Z.to_nat (Z.log2 d))) b d 0)
  else None.

(* the exact value of a symbolic Map result when min, max, x are powers of b *)
Definition lmap_exact (b : Z) (r : lmap) : option xreal :=
  match r with
  | LM_nan => Some XNaN
  | LM_half => Some (XFin (1 # 2))
  | LM_val neg clamp mn mx x =>
      match ilog b mn, ilog b mx, ilog b x with
      | Some i, Some j, Some k =>
          if (i =? j)%Z then None else
          let y := Qred (inject_Z (k - i) / inject_Z (j - i)) in
          let y := if neg then 1 - y else y in
          Some (XFin (if clamp then clampq y else y))
      | _, _, _ => None
      end
  end.

(* nearest integer to q (ties up) *)
Definition Qround (q : Q) : Z := Qfloor (q + (1 # 2)).

(* the exact value of a symbolic Unmap result when min = b^i, max = b^j and the
   exponent i + y (j - i) is within [eps] of an integer n: the value is then b^n up
   to a relative deviation of at most 2 eps ln b (RealSpec.LogScale.lunmap_exact_sound
   proves the case eps = 0). *)
Definition lunmap_exact (b : Z) (eps : Q) (r : lunmap) : option Q :=
  match r with
  | LU_val neg mn mx y =>
      match ilog b mn, ilog b mx with
      | Some i, Some j =>
          let e := inject_Z i + y * inject_Z (j - i) in
          let n := Qround e in
          if Qleb (Qabs (e - inject_Z n)) eps
          then Some (if neg then - bpow b n else bpow b n) else None
      | _, _ => None
      end
  end.

(* ---------- a Quantitative scale: Linear or Log (interface.go:9-41) ---------- *)
Inductive scale := SLin (s : linear) | SLog (s : logscale).

Definition sc_min (s : scale) : Q := match s with SLin l => l_min l | SLog g => g_min g end.
Definition sc_max (s : scale) : Q := match s with SLin l => l_max l | SLog g => g_max g end.
Definition sc_clamp (s : scale) : bool := match s with SLin l => l_clamp l | SLog g => g_clamp g end.
Definition sc_set_clamp (s : scale) (c : bool) : scale :=
  match s with SLin l => SLin (lin_set_clamp l c) | SLog g => SLog (log_set_clamp g c) end.

(* exact value of Map / Unmap where it is rational; [None] = not rational-computable
   here.  A NaN argument propagates (Linear: arithmetic on NaN; Log: NaN <= 0 is false,
   ln NaN = NaN; clamp(NaN) = NaN because both comparisons are false). *)
Definition sc_map_exact (b : Z) (s : scale) (x : xreal) : option xreal :=
  match x with
  | XFin x => match s with
              | SLin l => Some (XFin (lin_map l x))
              | SLog g => lmap_exact b (log_map_dec g x)
              end
  | XNaN => match s with
            | SLin l => if Qeqb (l_min l) (l_max l) then Some (XFin (1 # 2)) else Some XNaN
            | SLog g => let '(_, mn, mx) := ebounds g in
                        if Qeqb mn mx then Some (XFin (1 # 2)) else Some XNaN
            end
  | XInf _ => None
  end.
Definition sc_unmap_exact (b : Z) (eps : Q) (s : scale) (y : xreal) : option xreal :=
  match y with
  | XFin y => match s with
              | SLin l => Some (XFin (lin_unmap l y))
              | SLog g => option_map XFin (lunmap_exact b eps (log_unmap_dec g y))
              end
  | XNaN => Some XNaN
  | XInf _ => None
  end.

(* ---------- interface.go:43-57 QQ ---------- *)
(* [bs], [bd]: the integers whose powers the closed forms of the source and of the
   destination scale look for *)
Definition qq_map_exact (bs bd : Z) (eps : Q) (src dst : scale) (x : xreal) : option xreal :=
  match sc_map_exact bs src x with Some m => sc_unmap_exact bd eps dst m | None => None end.
Definition qq_unmap_exact (bs bd : Z) (eps : Q) (src dst : scale) (y : xreal) : option xreal :=
  match sc_map_exact bd dst y with Some m => sc_unmap_exact bs eps src m | None => None end.

(* Linear -> Linear needs no closed form: plain rational arithmetic *)
Definition qq_lin_map (src dst : linear) (x : Q) : Q := lin_unmap dst (lin_map src x).
Definition qq_lin_unmap (src dst : linear) (y : Q) : Q := lin_unmap src (lin_map dst y).

(* Model/Scc.v — graph/graphalg/scc.go:35-166, Tarjan's algorithm exactly as written there.
   DEFINITIONS ONLY.
   low[]: a trie; absent = 0 = not visited, LIdx k = the uint k, LDone = ^uint(0) (processed).
   The node stack is a list with the top at the head plus its length (len(stack)); the
   parallel out-edge stack holds (component id, stackLen) with the top at the head.
   connect recurses on fuel = recursion depth (the Go code has no bound); None = out of fuel. *)
From Coq Require Import List NArith ZArith FMapPositive Bool.
From MM Require Import Base.GCGraph Model.Graph.
Import ListNotations.
Open Scope N_scope.

Inductive lowv := LIdx (k : N) | LDone.

Record tj := mk_tj {
  tj_low : PositiveMap.t lowv;
  tj_stack : list N; tj_slen : N;
  tj_index : N;
  tj_out : list (N * N);                      (* out-edge stack: (cid, stackLen) *)
  tj_comps : list (list N); tj_ncomps : N;    (* components found so far, latest first *)
  tj_comp : PositiveMap.t N;                  (* subnodeComponent *)
  tj_outs : list (list N)                     (* Out(cid), latest first *)
}.

Definition tj_init : tj :=
  mk_tj (PositiveMap.empty _) [] 0 1 [] [] 0 (PositiveMap.empty _) [].

Definition tj_lowof (st : tj) (v : N) : option lowv := PositiveMap.find (N.succ_pos v) (tj_low st).
Definition tj_compof (st : tj) (v : N) : N :=
  match PositiveMap.find (N.succ_pos v) (tj_comp st) with Some c => c | None => 0 end.
Definition tj_setlow (st : tj) (v : N) (x : lowv) : tj :=
  mk_tj (PositiveMap.add (N.succ_pos v) x (tj_low st)) (tj_stack st) (tj_slen st) (tj_index st)
        (tj_out st) (tj_comps st) (tj_ncomps st) (tj_comp st) (tj_outs st).

(* scc.go:78-96, the successor loop; mn is the local variable min *)
Fixpoint tj_succs (rec : N -> tj -> option tj) (edges : bool) (stackPos : N) (l : list N) (st : tj) (mn : N)
  : option (tj * N) :=
  match l with
  | [] => Some (st, mn)
  | oid :: t =>
      match (match tj_lowof st oid with
             | None => rec oid st                          (* low[oid] == 0: connect(oid) *)
             | Some _ => Some st
             end) with
      | None => None
      | Some st1 =>
          let lo := tj_lowof st1 oid in
          let mn' := match lo with Some (LIdx k) => if k <? mn then k else mn | _ => mn end in
          let st2 := match lo with
                     | Some LDone =>
                         if edges then
                           mk_tj (tj_low st1) (tj_stack st1) (tj_slen st1) (tj_index st1)
                                 ((tj_compof st1 oid, stackPos) :: tj_out st1)
                                 (tj_comps st1) (tj_ncomps st1) (tj_comp st1) (tj_outs st1)
                         else st1
                     | _ => st1
                     end in
          tj_succs rec edges stackPos t st2 mn'
      end
  end.

(* scc.go:108-122: pop the stack down to nid; result = stack[i:] (bottom to top) and stack[:i] *)
Fixpoint tj_pop (nid : N) (stack : list N) (acc : list N) : list N * list N :=
  match stack with
  | [] => (acc, [])
  | x :: r => if x =? nid then (x :: acc, r) else tj_pop nid r (x :: acc)
  end.

(* scc.go:131-137: pop the out-edge stack while stackLen >= len(stack) *)
Fixpoint tj_popout (slen : N) (out : list (N * N)) (acc : list N) : list N * list (N * N) :=
  match out with
  | [] => (acc, [])
  | e :: r => if snd e <? slen then (acc, out) else tj_popout slen r (fst e :: acc)
  end.

(* scc.go:141-149: remove adjacent duplicates of a sorted list *)
Fixpoint dedup_adj (l : list N) : list N :=
  match l with
  | [] => []
  | x :: t => match t with
              | y :: _ => if x =? y then dedup_adj t else x :: dedup_adj t
              | [] => [x]
              end
  end.

Definition tj_mark_done (cid : N) (members : list N) (low : PositiveMap.t lowv) (comp : PositiveMap.t N)
  : PositiveMap.t lowv * PositiveMap.t N :=
  fold_left (fun lc v => (PositiveMap.add (N.succ_pos v) LDone (fst lc), PositiveMap.add (N.succ_pos v) cid (snd lc)))
            members (low, comp).

(* connect, scc.go:66-151 *)
Fixpoint tj_connect (out : N -> list N) (edges : bool) (fuel : nat) (nid : N) (st : tj) : option tj :=
  match fuel with
  | O => None
  | S f =>
      let idx := tj_index st in
      let stackPos := tj_slen st in
      let st0 := mk_tj (PositiveMap.add (N.succ_pos nid) (LIdx idx) (tj_low st))
                       (nid :: tj_stack st) (stackPos + 1) (idx + 1)
                       (tj_out st) (tj_comps st) (tj_ncomps st) (tj_comp st) (tj_outs st) in
      match tj_succs (tj_connect out edges f) edges stackPos (out nid) st0 idx with
      | None => None
      | Some (st1, mn) =>
          if mn <? idx then Some (tj_setlow st1 nid (LIdx mn))      (* not the root of an SCC *)
          else
            let cid := tj_ncomps st1 in
            let '(members, rest) := tj_pop nid (tj_stack st1) [] in
            let '(low', comp') := tj_mark_done cid members (tj_low st1) (tj_comp st1) in
            let '(ocs, outrest) := if edges then tj_popout stackPos (tj_out st1) [] else ([], tj_out st1) in
            Some (mk_tj low' rest stackPos (tj_index st1) outrest
                        (members :: tj_comps st1) (cid + 1) comp'
                        (dedup_adj (isort (rev_append ocs [])) :: tj_outs st1))
      end
  end.

(* scc.go:158-163: for nid := range low { if low[nid] == 0 { connect(nid) } } *)
Fixpoint tj_all (out : N -> list N) (edges : bool) (fuel : nat) (g : graph) (nid : N) (st : tj) : option tj :=
  match g with
  | [] => Some st
  | _ :: t =>
      match (match tj_lowof st nid with None => tj_connect out edges fuel nid st | Some _ => Some st end) with
      | None => None
      | Some st' => tj_all out edges fuel t (nid + 1) st'
      end
  end.

(* SCC(g, flags): (Subnodes(0..), Out(0..)) — Out lists are empty without SCCEdges — and the
   final state for SubnodeComponent *)
Definition tarjan_run (out : N -> list N) (edges : bool) (g : graph) : option tj :=
  tj_all out edges (S (length g)) g 0 tj_init.
Definition tarjan (g : graph) (edges : bool) : option (list (list N) * list (list N)) :=
  match tarjan_run (g_out g) edges g with
  | None => None
  | Some st => Some (rev_append (tj_comps st) [], rev_append (tj_outs st) [])
  end.

(* Model/Stream.v — stats/stream.go (StreamStats), exact arithmetic.
   DEFINITIONS ONLY.  Mirrors Add (stream.go:31-53), the derived statistics
   (55-73) and Combine (77-96, with the empty-side early returns). *)
From MM Require Import Base.Num.
Local Open Scope Q_scope.

Record sstate := mkS { s_count : N; s_total : Q; s_min : Q; s_max : Q;
                       s_mean : Q; s_msq : Q; s_m2 : Q }.

Definition s_init : sstate := mkS 0 0 0 0 0 0 0.

Definition s_add (s : sstate) (x : Q) : sstate :=
  let total := Qred (s_total s + x) in
  let mn := if (s_count s =? 0)%N then x else if Qltb x (s_min s) then x else s_min s in
  let mx := if (s_count s =? 0)%N then x else if Qltb (s_max s) x then x else s_max s in
  let c := (s_count s + 1)%N in
  let delta := x - s_mean s in
  let mean := Qred (s_mean s + delta / QofN c) in
  let msq := Qred (s_msq s + (x * x - s_msq s) / QofN c) in
  let m2 := Qred (s_m2 s + delta * (x - mean)) in
  mkS c total mn mx mean msq m2.

Definition s_combine (s o : sstate) : sstate :=
  if (s_count o =? 0)%N then s
  else if (s_count s =? 0)%N then o
  else
    let c := (s_count s + s_count o)%N in
    let delta := s_mean o - s_mean s in
    let mean := Qred (s_mean s + delta * QofN (s_count o) / QofN c) in
    let m2 := Qred (s_m2 s + s_m2 o + delta * delta * QofN (s_count s) * QofN (s_count o) / QofN c) in
    let mn := if Qltb (s_min o) (s_min s) then s_min o else s_min s in
    let mx := if Qltb (s_max s) (s_max o) then s_max o else s_max s in
    let msq := Qred (s_msq s + (s_msq o - s_msq s) * QofN (s_count o) / QofN c) in
    mkS c (Qred (s_total s + s_total o)) mn mx mean msq m2.

(* derived statistics; square roots are never taken in the model *)
Definition s_weight (s : sstate) : Q := QofN (s_count s).
Definition s_variance (s : sstate) : Q := s_m2 s / QofN (s_count s - 1).   (* meaningful for count >= 2 *)
Definition s_rms_sq (s : sstate) : Q := s_msq s.

(* ---------- histories over several accumulators ---------- *)
Inductive sop := SAdd (i : nat) (x : Q) | SCombine (i j : nat) | SNop (i : nat).
(* acc[i].Add(x) ; acc[i].Combine(&acc[j]) ; no call, acc[i] is only observed *)

Definition upd {A} (l : list A) (i : nat) (a : A) : list A :=
  firstn i l ++ match skipn i l with [] => [] | _ :: t => a :: t end.

Definition s_step (accs : list sstate) (o : sop) : list sstate :=
  match o with
  | SAdd i x => match nth_error accs i with Some s => upd accs i (s_add s x) | None => accs end
  | SCombine i j => match nth_error accs i, nth_error accs j with
                    | Some s, Some t => upd accs i (s_combine s t)
                    | _, _ => accs
                    end
  | SNop _ => accs
  end.
Definition s_run (k : nat) (ops : list sop) : list sstate := fold_left s_step ops (repeat s_init k).

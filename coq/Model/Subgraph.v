(* Model/Subgraph.v — graph/subgraph.go: SubgraphKeep 27-60, SubgraphRemove 64-107,
   listSubgraph accessors 120-141.  DEFINITIONS ONLY.
   A result is the list of listSubgraphNode {out, oldNode, oldEdges}; None = the call panics.
   The Go maps oldToNew / rmNodes / rmEdges are association lookups in the argument lists;
   a lookup of a missing key in oldToNew yields 0, as a Go map does. *)
From Coq Require Import List NArith ZArith Bool.
From MM Require Import Base.GCGraph.
Import ListNotations.

Record sgnode := mk_sgnode { sg_out : list N; sg_old : N; sg_oldedges : list N }.
Definition subgraph := list sgnode.

(* NumNodes / Out / NodeMap / EdgeMap with the identity maps of the underlying graph *)
Definition sg_numnodes (s : subgraph) : nat := length s.
Definition sg_nodemap (s : subgraph) : list N := map sg_old s.
Definition sg_edgemap (s : subgraph) : list (list (N * N)) :=
  map (fun nd => map (fun e => (sg_old nd, e)) (sg_oldedges nd)) s.

(* position of x in l (the value oldToNew[x] after the first loop of SubgraphKeep) *)
Fixpoint index_of (x : N) (l : list N) : option nat :=
  match l with
  | [] => None
  | y :: t => if (y =? x)%N then Some O else option_map S (index_of x t)
  end.
Definition index_or_0 (x : N) (l : list N) : nat := match index_of x l with Some k => k | None => O end.

Fixpoint no_dup_b (l : list N) : bool :=
  match l with
  | [] => true
  | x :: t => negb (existsb (N.eqb x) t) && no_dup_b t
  end.

(* newNode.out = append(newNode.out, newTo); newNode.oldEdges = append(..., oldEdge) at index k;
   None when k is out of range (newNodes[k] panics) *)
Fixpoint sg_append (s : subgraph) (k : nat) (newTo oldEdge : N) : option subgraph :=
  match s, k with
  | [], _ => None
  | nd :: t, O => Some (mk_sgnode (sg_out nd ++ [newTo]) (sg_old nd) (sg_oldedges nd ++ [oldEdge]) :: t)
  | nd :: t, S k' => option_map (cons nd) (sg_append t k' newTo oldEdge)
  end.

(* SubgraphKeep, subgraph.go:27-60.  nodes: ids to keep (new node i = nodes[i]);
   edges: (node, edge index) pairs. *)
Definition keep_step (g : graph) (nodes : list N) (acc : option subgraph) (e : N * N) : option subgraph :=
  match acc with
  | None => None
  | Some s =>
      let k := index_or_0 (fst e) nodes in                         (* oldToNew[oldEdge.Node] *)
      match nth_error g (N.to_nat (fst e)) with
      | None => None                                               (* g.Out(node) panics *)
      | Some outs =>
          match nth_error outs (N.to_nat (snd e)) with
          | None => None                                           (* [oldEdge.Edge] panics *)
          | Some oldTo => sg_append s k (N.of_nat (index_or_0 oldTo nodes)) (snd e)
          end
      end
  end.
Definition subgraph_keep (g : graph) (nodes : list N) (edges : list (N * N)) : option subgraph :=
  if forallb (fun v => (v <? g_n g)%N) nodes && no_dup_b nodes      (* the two panics of the first loop *)
  then fold_left (keep_step g nodes) edges (Some (map (fun o => mk_sgnode [] o []) nodes))
  else None.

(* SubgraphRemove, subgraph.go:64-107.  rm ids / edges are arbitrary ints (map keys). *)
Definition zmem (x : Z) (l : list Z) : bool := existsb (Z.eqb x) l.
Definition zzmem (x : Z * Z) (l : list (Z * Z)) : bool :=
  existsb (fun y => (fst x =? fst y)%Z && (snd x =? snd y)%Z) l.
Fixpoint zdistinct (l : list Z) : nat :=
  match l with
  | [] => O
  | x :: t => if zmem x t then zdistinct t else S (zdistinct t)
  end.

(* surviving nodes, ascending (new node id = position) *)
Definition remove_kept (n : N) (rm : list Z) : list N :=
  filter (fun v => negb (zmem (Z.of_N v) rm)) (nodes_upto n).

(* edges of old node u that survive: (new target, old edge index), j = index of the head of outs *)
Fixpoint remove_edges (kept : list N) (rm : list Z) (rme : list (Z * Z)) (u : N) (outs : list N) (j : N)
  : list (N * N) :=
  match outs with
  | [] => []
  | t :: r =>
      let rest := remove_edges kept rm rme u r (j + 1)%N in
      if zmem (Z.of_N t) rm then rest                              (* target node removed *)
      else if zzmem (Z.of_N u, Z.of_N j) rme then rest             (* edge removed *)
      else (N.of_nat (index_or_0 t kept), j) :: rest
  end.

Definition subgraph_remove (g : graph) (rm : list Z) (rme : list (Z * Z)) : option subgraph :=
  if (length g <? zdistinct rm)%nat then None                      (* make(.., 0, negative cap) panics *)
  else
    let kept := remove_kept (g_n g) rm in
    Some (map (fun u => let es := remove_edges kept rm rme u (g_out g u) 0%N in
                        mk_sgnode (map fst es) u (map snd es)) kept).

(* Model/TTest.v — stats/ttest.go (the four t-tests, tail selection) and MeanCI (stats/sample.go:146-167),
   exact arithmetic over Q.  DEFINITIONS ONLY.
   Square roots are never taken: a test returns the sign of T and T^2.  The Student-t CDF is not
   modelled: tail selection is a function of an abstract F (instantiated by the correspondence check
   with the implementation's own TDist{DoF}.CDF; its accuracy is property C05). *)
From MM Require Import Base.Num.
Local Open Scope Q_scope.

(* ---------- Sample.Mean / Sample.Variance for unweighted samples ---------- *)
(* Mean (sample.go:113-122): m += (x - m) / (i+1) ; [k] = number of values consumed *)
Fixpoint w_mean_loop (xs : list Q) (k : nat) (m : Q) : Q :=
  match xs with
  | [] => m
  | x :: t => w_mean_loop t (S k) (Qred (m + (x - m) / Qofnat (S k)))
  end.
Definition w_mean (xs : list Q) : Q := w_mean_loop xs 0 0.        (* Go: NaN for the empty sample *)
(* Variance (sample.go:213-231): Welford; 0 for a single value *)
Fixpoint w_var_loop (xs : list Q) (k : nat) (mean m2 : Q) : Q :=
  match xs with
  | [] => m2
  | x :: t => let delta := x - mean in
              let mean' := Qred (mean + delta / Qofnat (S k)) in
              w_var_loop t (S k) mean' (Qred (m2 + delta * (x - mean')))
  end.
Definition w_variance (xs : list Q) : Q :=
  if (length xs <=? 1)%nat then 0 else Qred (w_var_loop xs 0 0 0 / Qofnat (length xs - 1)).

(* ---------- results ---------- *)
Inductive terr := ErrSampleSize | ErrZeroVariance | ErrMismatchedSamples.
(* N1, N2, sign of T (-1, 0, 1), T^2, DoF *)
Record tres := mkT { t_n1 : Z; t_n2 : Z; t_sign : Z; t_sq : Q; t_dof : Q }.
Inductive tout := TOk (r : tres) | TErr (e : terr).

Definition Qsign (q : Q) : Z := Z.sgn (Qnum q).
Definition is_zero (q : Q) : bool := Qeqb q 0.
Definition lenQ (xs : list Q) : Q := Qofnat (length xs).
Definition zlen (xs : list Q) : Z := Z.of_nat (length xs).

(* TwoSampleTTest (ttest.go:66-83): pooled variance *)
Definition two_sample (x1 x2 : list Q) : tout :=
  let n1 := lenQ x1 in let n2 := lenQ x2 in
  if (length x1 =? 0)%nat || (length x2 =? 0)%nat then TErr ErrSampleSize
  else
    let v1 := w_variance x1 in let v2 := w_variance x2 in
    if is_zero v1 && is_zero v2 then TErr ErrZeroVariance
    else
      let dof := n1 + n2 - 2 in
      let v12 := ((n1 - 1) * v1 + (n2 - 1) * v2) / dof in
      let d := w_mean x1 - w_mean x2 in
      TOk (mkT (zlen x1) (zlen x2) (Qsign d) (Qred (d * d / (v12 * (1 / n1 + 1 / n2)))) (Qred dof)).

(* TwoSampleWelchTTest (ttest.go:85-102) *)
Definition welch (x1 x2 : list Q) : tout :=
  let n1 := lenQ x1 in let n2 := lenQ x2 in
  if (length x1 <=? 1)%nat || (length x2 <=? 1)%nat then TErr ErrSampleSize
  else
    let v1 := w_variance x1 in let v2 := w_variance x2 in
    if is_zero v1 && is_zero v2 then TErr ErrZeroVariance
    else
      let a := v1 / n1 in let b := v2 / n2 in
      let dof := (a + b) * (a + b) / (a * a / (n1 - 1) + b * b / (n2 - 1)) in
      let d := w_mean x1 - w_mean x2 in
      TOk (mkT (zlen x1) (zlen x2) (Qsign d) (Qred (d * d / (a + b))) (Qred dof)).

(* PairedTTest (ttest.go:107-129) *)
Fixpoint vdiff (a b : list Q) : list Q :=
  match a, b with x :: a', y :: b' => (x - y) :: vdiff a' b' | _, _ => [] end.
Definition paired (x1 x2 : list Q) (mu0 : Q) : tout :=
  if negb (length x1 =? length x2)%nat then TErr ErrMismatchedSamples
  else if (length x1 <=? 1)%nat then TErr ErrSampleSize
  else
    let diff := vdiff x1 x2 in
    let v := w_variance diff in
    if is_zero v then TErr ErrZeroVariance
    else
      let d := w_mean diff - mu0 in
      TOk (mkT (zlen x1) (zlen x2) (Qsign d) (Qred (d * d * lenQ x1 / v)) (Qred (lenQ x1 - 1))).

(* OneSampleTTest (ttest.go:135-147) *)
Definition one_sample (x : list Q) (mu0 : Q) : tout :=
  if (length x =? 0)%nat then TErr ErrSampleSize
  else
    let v := w_variance x in
    if is_zero v then TErr ErrZeroVariance
    else
      let d := w_mean x - mu0 in
      TOk (mkT (zlen x) 0 (Qsign d) (Qred (d * d * lenQ x / v)) (Qred (lenQ x - 1))).

(* ---------- tail selection (ttest.go:33-46) over an abstract CDF ---------- *)
(* alt: -1 LocationLess, 0 LocationDiffers, 1 LocationGreater *)
Definition ttail (F : Q -> Q) (alt : Z) (t : Q) : Q :=
  match alt with
  | Z0 => 2 * (1 - F (Qabs t))
  | Zneg _ => F t
  | Zpos _ => 1 - F t
  end.

(* ---------- MeanCI (sample.go:146-167) ---------- *)
(* the half width: 0, +Inf, or t*s/sqrt(n) where F_{n-1}(-t) = alpha *)
Inductive ciwidth := CIZero | CIInf | CIStudent (n : nat) (variance alpha : Q).
(* mean = None stands for NaN (empty input): then lo and hi are NaN too *)
Definition meanci (xs : list Q) (c : Q) : option Q * ciwidth :=
  (match xs with [] => None | _ => Some (w_mean xs) end,
   if Qle_bool c 0 then CIZero
   else if Qle_bool 1 c || (length xs <=? 1)%nat then CIInf
   else CIStudent (length xs) (w_variance xs) ((1 - c) / 2)).

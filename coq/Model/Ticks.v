(* Model/Ticks.v — scale/ticks.go (TickOptions.FindLevel), the Linear tick code
   (scale/linear.go:81-173), vec.Linspace (vec/vec.go:32-44) and the Log tick code
   (scale/log.go:111-232, with the repair of D10).  DEFINITIONS ONLY.
   Levels, counts and tick indices are integers (Z); spacings and tick values are exact
   rationals (Q). *)
From Coq Require Import Qround.
From MM Require Import Base.Num.
Local Open Scope Z_scope.

(* ================= ticks.go:15-23, 56-101 ================= *)
Record tickopts := mkOpts { o_max : Z; o_minlevel : Z; o_maxlevel : Z }.

(* ticks.go:57-62: the level window; None = "minLevel > maxLevel: return 0,false" *)
Definition level_bounds (o : tickopts) : option (Z * Z) :=
  if (o_minlevel o =? 0) && (o_maxlevel o =? 0) then Some (-1000, 1000)
  else if o_maxlevel o <? o_minlevel o then None
  else Some (o_minlevel o, o_maxlevel o).

Inductive flres := FL_ok (l : Z) | FL_fail | FL_fuel.

(* ticks.go:81-84: for l--; l >= minLevel && count(l) <= Max; l-- {} ; l++ *)
Fixpoint fl_down (fuel : nat) (cnt : Z -> Z) (mx lo l : Z) : flres :=
  match fuel with
  | O => FL_fuel
  | S f => if (lo <=? l) && (cnt l <=? mx) then fl_down f cnt mx lo (l - 1) else FL_ok (l + 1)
  end.
(* ticks.go:89-94: for l++; l <= maxLevel && count(l) > Max; l++ {} ; if l > maxLevel fail *)
Fixpoint fl_up (fuel : nat) (cnt : Z -> Z) (mx hi l : Z) : flres :=
  match fuel with
  | O => FL_fuel
  | S f => if (l <=? hi) && (mx <? cnt l) then fl_up f cnt mx hi (l + 1)
           else if hi <? l then FL_fail else FL_ok l
  end.

Definition fl_fuel (lo hi : Z) : nat := Z.to_nat (hi - lo) + 2.

Definition find_level (o : tickopts) (cnt : Z -> Z) (guess : Z) : flres :=
  match level_bounds o with
  | None => FL_fail
  | Some (lo, hi) =>
      if o_max o <? 1 then FL_fail else
      let l := if guess <? lo then lo else if hi <? guess then hi else guess in
      if cnt l <=? o_max o then fl_down (fl_fuel lo hi) cnt (o_max o) lo (l - 1)
      else fl_up (fl_fuel lo hi) cnt (o_max o) hi (l + 1)
  end.

(* ================= linear.go ================= *)
Local Open Scope Q_scope.

(* b^e for an integer b >= 1 and any integer e, exactly *)
Definition qpow (b : Z) (e : Z) : Q :=
  if (0 <=? e)%Z then inject_Z (b ^ e) else 1 # Z.to_pos (b ^ (- e)).

(* linear.go:55-64: 0 -> 10; 1 and negatives panic *)
Definition lin_ebase (base : Z) : option Z :=
  if (base =? 0)%Z then Some 10%Z else if (base <=? 1)%Z then None else Some base.

(* linear.go:88-92: spacing = ebase^floor(level/2), times 5 on odd levels when Base = 0 *)
Definition lin_spacing (base eb : Z) (level : Z) : Q :=
  let sp := qpow eb (level / 2) in
  if Z.odd level && (base =? 0)%Z then sp * 5 else sp.

Definition slack_factor : Q := 1 # 10000000000.   (* 1e-10, linear.go:96, log.go:120 *)

(* floor and ceiling; the common cases -1 <= q < 1 are decided by comparisons so that the
   level search far above the natural level (huge spacings) does not divide big numbers
   (Proofs.TicksLinear.qfl_floor, qcl_ceiling: these ARE Qfloor and Qceiling) *)
Definition qfl (q : Q) : Z :=
  if Qleb 0 q && Qltb q 1 then 0%Z else if Qleb (-(1)) q && Qltb q 0 then (-1)%Z else Qfloor q.
Definition qcl (q : Q) : Z := (- qfl (- q))%Z.
Definition Qceil (q : Q) : Z := Qceiling q.

(* linear.go:85-106 for an (ordered) domain [mn, mx] *)
Definition lin_first_last (mn mx sp : Q) (roundOut : bool) : Z * Z :=
  let slack := (mx - mn) * slack_factor in
  if roundOut then (qfl ((mn + slack) / sp), qcl ((mx - slack) / sp))
  else (qcl ((mn - slack) / sp), qfl ((mx + slack) / sp)).

(* linear.go:125-128 *)
Definition lin_count (base eb : Z) (mn mx : Q) (roundOut : bool) (level : Z) : Z :=
  let '(f, l) := lin_first_last mn mx (lin_spacing base eb level) roundOut in (l - f + 1)%Z.

(* vec.go:32-44 with lo = f*sp, hi = l*sp, num = l - f + 1:  lo + i (hi - lo)/(num - 1) = (f + i) sp *)
Fixpoint tick_seq (n : nat) (f : Z) (sp : Q) : list Q :=
  match n with O => [] | S k => inject_Z f * sp :: tick_seq k (f + 1)%Z sp end.

(* linear.go:130-134 *)
Definition lin_ticks_at (base eb : Z) (mn mx : Q) (roundOut : bool) (level : Z) : list Q :=
  let sp := lin_spacing base eb level in
  let '(f, l) := lin_first_last mn mx sp roundOut in
  tick_seq (Z.to_nat (l - f + 1)) f sp.

Inductive ticks_res := TR_panic | TR_none | TR_ticks (major minor : list Q).

(* linear.go:136-150.  The guess (linear.go:81-83) involves a logarithm; any guess gives the
   same level because the count is non-increasing (Proofs.Ticks.find_level_guess_irrelevant,
   lin_count_nonincreasing), so the model starts from [guess] supplied by the caller. *)
Definition lin_ticks_gen (C : Z -> Z -> Q -> Q -> bool -> Z -> Z)
    (base : Z) (mn mx : Q) (o : tickopts) (guess : Z) : ticks_res :=
  if (o_max o <=? 0)%Z then TR_none
  else if Qeqb mn mx then TR_ticks [mn] [mn]
  else
    let '(mn, mx) := if Qltb mx mn then (mx, mn) else (mn, mx) in
    match lin_ebase base with
    | None => TR_panic
    | Some eb =>
        match find_level o (C base eb mn mx false) guess with
        | FL_ok l => TR_ticks (lin_ticks_at base eb mn mx false l) (lin_ticks_at base eb mn mx false (l - 1))
        | _ => TR_none
        end
    end.
(* [lin_ticks_gen] takes the count function as a parameter only so that the correspondence
   check can run the level search with an extensionally equal but cheaper count
   (Check.C17.lin_count_capped, Proofs.TicksLinear.lin_count_capped_eq) *)
Definition lin_ticks := lin_ticks_gen lin_count.

Inductive nice_res := NR_panic | NR_dom (mn mx : Q).

(* a finite float64 magnitude: n * spacing does not overflow to +-Inf (nor is it NaN = 0 * Inf) *)
Definition f64_fin (q : Q) : bool := Qltb (Qabs q) (qpow 2 1024).

(* linear.go:152-173, repaired (D10): each end moves only outwards and only to a finite
   value — an end whose nice value would lie inside the domain (by rounding, within the
   slack) or is not a finite float64 (the level's spacing overflows) stays where it is *)
Definition lin_nice_gen (C : Z -> Z -> Q -> Q -> bool -> Z -> Z)
    (base : Z) (mn mx : Q) (o : tickopts) (guess : Z) : nice_res :=
  let '(mn, mx) := if Qeqb mn mx then (mn - (1 # 2), mx + (1 # 2))
                   else if Qltb mx mn then (mx, mn) else (mn, mx) in
  match lin_ebase base with
  | None => NR_panic
  | Some eb =>
      match find_level o (C base eb mn mx true) guess with
      | FL_ok l =>
          let sp := lin_spacing base eb l in
          let '(f, la) := lin_first_last mn mx sp true in
          let nmn := inject_Z f * sp in let nmx := inject_Z la * sp in
          NR_dom (if f64_fin nmn && Qleb nmn mn then nmn else mn) (if f64_fin nmx && Qleb mx nmx then nmx else mx)
      | _ => NR_dom mn mx
      end
  end.
Definition lin_nice := lin_nice_gen lin_count.

(* ================= log.go:111-232 ================= *)
(* All tick positions of a Log scale are powers of Base; a level-l tick is Base^(n 2^l).
   floor(log_E q) for E = Base^(2^l) is floor(floor(log_Base q) / 2^l), so the model works
   with exponents of Base and never forms E. *)

(* greatest n with b^n <= q  (b >= 2, q > 0): linear search, fuel = bit length *)
Fixpoint flog_up (fuel : nat) (b : Z) (q : Q) (p n : Z) : Z :=      (* p = b^n <= q *)
  match fuel with
  | O => n
  | S f => if Qleb (inject_Z (p * b)) q then flog_up f b q (p * b)%Z (n + 1)%Z else n
  end.
Fixpoint flog_down (fuel : nat) (b : Z) (q : Q) (p m : Z) : Z :=    (* p = b^m, looking for the least m with b^-m <= q *)
  match fuel with
  | O => (- m)%Z
  | S f => if Qleb 1 (q * inject_Z p) then (- m)%Z else flog_down f b q (p * b)%Z (m + 1)%Z
  end.
Definition log_fuel (q : Q) : nat := Z.to_nat (Z.log2 (Z.abs (Qnum q)) + Z.log2 (Zpos (Qden q))) + 2.
Definition floor_log (b : Z) (q : Q) : Z :=
  if Qleb 1 q then flog_up (log_fuel q) b q 1 0 else flog_down (log_fuel q) b q b 1.
(* least n with b^n >= q *)
Definition ceil_log (b : Z) (q : Q) : Z :=
  let f := floor_log b q in if Qeqb (qpow b f) q then f else (f + 1)%Z.

(* is ln(big/small) <= 1e-10 ln(t)?  (0 < small <= big, t >= 1 the ratio of the domain ends)
   Decided with rational bounds  rho <= -ln(1-rho) <= rho/(1-rho),  1 - 1/t <= ln t <= min(t-1, bits t);
   [mu] absorbs the rounding of the two logarithms in the float code.  Three-valued. *)
Inductive near3 := N_inside | N_outside | N_border.
Definition qbits (q : Q) : Q := inject_Z (Z.log2 (Z.abs (Qnum q)) + Z.log2 (Zpos (Qden q)) + 2).
Definition ln_lo (t : Q) : Q := 1 - 1 / t.
Definition ln_hi (t : Q) : Q := Qminb (t - 1) (inject_Z (Z.log2 (Qceil t) + 1)).
Definition near (small big t mu : Q) : near3 :=
  if Qleb ((big - small) / small) (slack_factor * ln_lo t - mu) then N_inside
  else if Qleb (slack_factor * ln_hi t + mu) ((big - small) / big) then N_outside
  else N_border.

(* the admitted exponents of Base, with the slack of log.go:118-128; the boolean says a
   decision was too close to call.
   roundOut = false: ticks inside the domain: [in_lo, in_hi]
   roundOut = true : the covering exponents:  out_lo = floor(lmin + slack), out_hi = ceil(lmax - slack) *)
Record logexp := mkLE { le_in_lo : Z; le_in_hi : Z; le_out_lo : Z; le_out_hi : Z; le_amb : bool }.
Definition log_mu (emin emax : Q) : Q := (2 # 1000000000000000) * (1 + qbits emin + qbits emax).
Definition log_exps (b : Z) (emin emax : Q) : logexp :=
  let t := emax / emin in
  let mu := log_mu emin emax in
  let fmin := floor_log b emin in let cmin := ceil_log b emin in
  let fmax := floor_log b emax in let cmax := ceil_log b emax in
  (* emin at or just above b^fmin: the slack admits b^fmin as a tick *)
  let n1 := near (qpow b fmin) emin t mu in
  (* emax at or just below b^cmax *)
  let n2 := near emax (qpow b cmax) t mu in
  (* emin at or just below b^cmin: rounding out need not go down to fmin *)
  let n3 := near emin (qpow b cmin) t mu in
  (* emax at or just above b^fmax *)
  let n4 := near (qpow b fmax) emax t mu in
  let isin n := match n with N_inside => true | _ => false end in
  let isb n := match n with N_border => true | _ => false end in
  mkLE (if isin n1 then fmin else cmin) (if isin n2 then cmax else fmax)
       (if isin n3 then cmin else fmin) (if isin n4 then fmax else cmax)
       (isb n1 || isb n2 || isb n3 || isb n4).

Definition cdiv (a k : Z) : Z := (- ((- a) / k))%Z.

(* log.go:111-131 in exponent form: firstN, lastN at a level >= 0 *)
Definition log_first_last (e : logexp) (roundOut : bool) (level : Z) : Z * Z :=
  let k := (2 ^ level)%Z in
  if roundOut then ((le_out_lo e / k)%Z, cdiv (le_out_hi e) k)
  else (cdiv (le_in_lo e) k, (le_in_hi e / k)%Z).

Definition MAXINT : Z := 9223372036854775807%Z.
(* log.go:146-154 *)
Definition log_count (e : logexp) (roundOut : bool) (level : Z) : Z :=
  if (level <? 0)%Z then MAXINT else
  let '(f, l) := log_first_last e roundOut level in (l - f + 1)%Z.

Fixpoint pow_seq (n : nat) (b : Z) (f k : Z) : list Q :=      (* b^(f k), b^((f+1) k), ... *)
  match n with O => [] | S m => qpow b (f * k) :: pow_seq m b (f + 1)%Z k end.

(* log.go:160-174 minor ticks i b^n, i = 1..b-1, kept when inside [emin, emax].  (The code
   accumulates tick += step; in exact arithmetic that is i * step.) *)
Fixpoint minor_run (cnt : nat) (i : Z) (step : Q) (emin emax : Q) : list Q :=
  match cnt with
  | O => []
  | S j => let tick := inject_Z i * step in
           (if Qleb emin tick && Qleb tick emax then [tick] else []) ++ minor_run j (i + 1)%Z step emin emax
  end.
Fixpoint minor_seq (n : nat) (b : Z) (f : Z) (emin emax : Q) : list Q :=
  match n with
  | O => []
  | S m => minor_run (Z.to_nat (b - 1)) 1 (qpow b f) emin emax ++ minor_seq m b (f + 1)%Z emin emax
  end.

(* log.go:156-191 for the folded (positive) domain; negation/reversal is applied by [log_ticks_at] *)
Definition log_ticks_pos (b : Z) (e : logexp) (emin emax : Q) (roundOut : bool) (level : Z) : list Q :=
  if (level <? 0)%Z then
    let '(f, l) := log_first_last e true 0 in minor_seq (Z.to_nat (l - f + 1)) b f emin emax
  else
    let '(f, l) := log_first_last e roundOut level in pow_seq (Z.to_nat (l - f + 1)) b f (2 ^ level)%Z.

Definition neg_rev (l : list Q) : list Q := rev (map Qopp l).

(* an (ordered, zero-free) Log domain: ebounds *)
Definition log_fold (mn mx : Q) : bool * Q * Q := if Qltb mn 0 then (true, - mx, - mn) else (false, mn, mx).

Definition log_ticks_at' (b : Z) (e : logexp) (neg : bool) (emin emax : Q) (roundOut : bool) (level : Z) : list Q :=
  let t := log_ticks_pos b e emin emax roundOut level in
  if neg then neg_rev t else t.
Definition log_ticks_at (b : Z) (mn mx : Q) (roundOut : bool) (level : Z) : list Q :=
  let '(neg, emin, emax) := log_fold mn mx in
  log_ticks_at' b (log_exps b emin emax) neg emin emax roundOut level.

(* log.go:193-207 *)
Definition log_ticks_gen (C : logexp -> bool -> Z -> Z) (b : Z) (mn mx : Q) (o : tickopts) : ticks_res :=
  if (o_max o <=? 0)%Z then TR_none
  else if Qeqb mn mx then TR_ticks [mn] [mx]
  else
    let '(neg, emin, emax) := log_fold mn mx in
    let e := log_exps b emin emax in
    match find_level o (C e false) 0 with
    | FL_ok l => TR_ticks (log_ticks_at' b e neg emin emax false l) (log_ticks_at' b e neg emin emax false (l - 1))
    | _ => TR_none
    end.
(* the count function is a parameter only for the check's cheaper, extensionally equal count *)
Definition log_ticks := log_ticks_gen log_count.

(* float64 range: a positive value neither underflows to 0 nor overflows to +Inf *)
Definition f64_pos_ok (q : Q) : bool := Qleb (qpow 2 (-1074)) q && Qltb q (qpow 2 1024).

(* an end may move to the power b^(n 2^level) only if that is a positive finite float64 and -
   at a level whose effective base b^(2^level) is itself beyond float64 - only for n = 0
   (log.go Nice: `overflow && firstN != 0`): there 1 is the only representable power *)
Definition log_end_ok (b k n : Z) (q : Q) : bool :=
  (Qltb (qpow b k) (qpow 2 1024) || (n =? 0)%Z) && f64_pos_ok q.

(* log.go:209-232, repaired (D10): each end moves only outwards and only to a positive finite
   float64 value *)
Definition log_nice_gen (C : logexp -> bool -> Z -> Z) (b : Z) (mn mx : Q) (o : tickopts) : Q * Q :=
  if Qeqb mn mx then (mn, mx) else
  let '(neg, emin, emax) := log_fold mn mx in
  let e := log_exps b emin emax in
  match find_level o (C e true) 0 with
  | FL_ok l =>
      let '(f, la) := log_first_last e true l in
      let k := (2 ^ l)%Z in
      let nmn := qpow b (f * k) in let nmx := qpow b (la * k) in
      let nemin := if log_end_ok b k f nmn && Qleb nmn emin then nmn else emin in
      let nemax := if log_end_ok b k la nmx && Qleb emax nmx then nmx else emax in
      if neg then (- nemax, - nemin) else (nemin, nemax)
  | _ => (mn, mx)
  end.
Definition log_nice := log_nice_gen log_count.

(* Model/Udist.v — stats/udist.go on exact numbers.  DEFINITIONS ONLY.
   Counts are integers (Z); the division by Choose(N1+N2,N1) happens last.
   A tie vector T is ascending as in Go; the recurrences below work on
   Tr = rev T (highest rank first), so that Go's prefix t[:k-1] is the tail.
   The model describes the REPAIRED code (D1: floor division in the two-rank base case). *)
From Coq Require Import Qround.
From MM Require Import Base.Num Base.GEComb Model.GEChoose.
Open Scope Z_scope.

(* ---------- coefficients and feasible range of 2U (udist.go:195-201, 301-323) ---------- *)
(* a[k] = t_k + 2 * sum_{j<k} t_j   (udist.go:197-201) *)
Definition acoef (tK srest : nat) : Z := 2 * Z.of_nat srest + Z.of_nat tK.
(* rk*(a[k]-2*n1+rk): what rank k contributes to 2U when rk of the n1 are in it (udist.go:242, 286) *)
Definition stepw (tK srest n1 r : nat) : Z := Z.of_nat r * (acoef tK srest - 2 * Z.of_nat n1 + Z.of_nat r).

(* twoUmax (udist.go:313-323 / repaired tree 322-332): greedy fill, k = K down to 1 *)
Fixpoint gmax (Tr : list nat) (n : nat) : Z :=
  match Tr with
  | [] => 0
  | tK :: rest => let g := Nat.min n tK in Z.of_nat g * acoef tK (lsum rest) + gmax rest (n - g)
  end.
Definition twoUmax (n1 : nat) (Tr : list nat) : Z := - (Z.of_nat n1 * Z.of_nat n1) + gmax Tr n1.

(* twoUmin (udist.go:301-311): greedy fill, k = 1 up to K, over the ascending prefix *)
Fixpoint gmin_asc (ts : list nat) (base n : nat) : Z :=
  match ts with
  | [] => 0
  | t :: ts' => let g := Nat.min n t in Z.of_nat g * acoef t base + gmin_asc ts' (base + t) (n - g)
  end.
Definition twoUmin (n1 : nat) (Tr : list nat) : Z := - (Z.of_nat n1 * Z.of_nat n1) + gmin_asc (rev Tr) 0 n1.

(* ---------- tied case: cumulative counts A_k(n1, 2U) (udist.go:167-299) ---------- *)
Definition zrange (lo hi : Z) : list Z := map (fun i => lo + Z.of_nat i) (seq 0 (Z.to_nat (hi - lo + 1))).

(* K == 2 closed form (udist.go:263-273), floor division (repair of D1).
   r2 runs from r2Low = max(0, n1-t0) to r2High; Choose is 0 outside 0..n. *)
Definition base2_term (t0 t1 n1 r2 : nat) : Z :=
  choose (Z.of_nat t0) (Z.of_nat n1 - Z.of_nat r2) * choose (Z.of_nat t1) (Z.of_nat r2).
Definition base2 (t0 t1 n1 : nat) (w : Z) : Z :=
  let r2Low := (n1 - t0)%nat in
  let r2High := (w - Z.of_nat n1 * (Z.of_nat t0 - Z.of_nat n1)) / (Z.of_nat t0 + Z.of_nat t1) in
  zsum (base2_term t0 t1 n1) (seq r2Low (Z.to_nat (r2High + 1 - Z.of_nat r2Low))).
(* the pinned tree's version: Go's "/" truncates toward zero (defect D1) *)
Definition base2_trunc (t0 t1 n1 : nat) (w : Z) : Z :=
  let r2Low := (n1 - t0)%nat in
  let r2High := Z.quot (w - Z.of_nat n1 * (Z.of_nat t0 - Z.of_nat n1)) (Z.of_nat t0 + Z.of_nat t1) in
  zsum (base2_term t0 t1 n1) (seq r2Low (Z.to_nat (r2High + 1 - Z.of_nat r2Low))).

(* A[k][{n1,twoU}] as the memo table defines it.  The table only stores keys inside
   [twoUmin, twoUmax] (udist.go:244); at fill time a missing key means 0 below the range and
   Choose(tsum, n1) above it (udist.go:288-291).  K < 2 panics in Go ("K < 2"); the model
   returns 0 there and no statement covers it. *)
Fixpoint tiedA (Tr : list nat) (n1 : nat) (w : Z) : Z :=
  match Tr with
  | [] => 0
  | tK :: rest =>
    match rest with
    | [] => 0
    | [t0] => base2 t0 tK n1 w
    | _ :: _ :: _ =>
      let tsum := lsum rest in
      zsum (fun rk =>
              let w' := w - stepw tK tsum n1 rk in
              let n' := (n1 - rk)%nat in
              let x := if w' <? twoUmin n' rest then 0
                       else if twoUmax n' rest <? w' then choosen tsum n'
                       else tiedA rest n' w' in
              x * choosen tK rk)
           (seq (n1 - tsum) (Nat.min n1 tK + 1 - (n1 - tsum)))
    end
  end.

(* ---------- untied case: p_{n,m}(U) (udist.go:54-147) ---------- *)
Definition QN (n : nat) : Q := inject_Z (Z.of_nat n).
(* The recurrence on the region n <= m that the code fills; on the diagonal the
   "p_{n,m-1}" operand is read through symmetry from memo[m-1] (udist.go:117-122).
   fuel > n + m suffices. *)
Fixpoint untied_p (fuel n m : nat) (U : Z) : Q :=
  match fuel with
  | O => 0%Q
  | S f =>
    match n with
    | O => if U =? 0 then 1%Q else 0%Q                    (* memo[0][0] = 1 *)
    | S n' =>
      let l := if 0 <=? U - Z.of_nat m then (QN n * untied_p f n' m (U - Z.of_nat m))%Q else 0%Q in
      let rp := if (n <=? m - 1)%nat then untied_p f n (m - 1) U else untied_p f (m - 1) n U in
      ((l + QN m * rp) / QN (n + m))%Q
    end
  end.
(* integer-count twin of the Mann-Whitney recurrence *)
Fixpoint untied_c (n : nat) : nat -> Z -> Z :=
  match n with
  | O => fun _ u => if u =? 0 then 1 else 0
  | S n' => fix ucm (m : nat) (u : Z) : Z :=
      match m with
      | O => if u =? 0 then 1 else 0
      | S m' => untied_c n' m (u - Z.of_nat m) + ucm m' u
      end
  end.

(* ---------- PMF / CDF on a real argument (udist.go:325-380) ---------- *)
Definition has_ties (T : list nat) : bool := existsb (fun t => (1 <? t)%nat) T.
Definition qcount (c tot : Z) : Q := (inject_Z c / inject_Z tot)%Q.

Definition udist_pmf (N1 N2 : nat) (T : list nat) (u : Q) : Q :=
  if Qltb u 0 || Qleb ((1 # 2) + QN (N1 * N2)) u then 0%Q
  else if has_ties T then
    let w := Qfloor (2 * u) in                             (* int(2*U), U >= 0 *)
    qcount (tiedA (rev T) N1 w - tiedA (rev T) N1 (w - 1)) (choosen (N1 + N2) N1)
  else
    let Ui := Qfloor u in
    untied_p (S (N1 + N2)) (Nat.min N1 N2) (Nat.max N1 N2) Ui.

Definition udist_cdf (N1 N2 : nat) (T : list nat) (u : Q) : Q :=
  if Qltb u 0 then 0%Q
  else if Qleb (QN (N1 * N2)) u then 1%Q
  else if has_ties T then
    qcount (tiedA (rev T) N1 (Qfloor (2 * u))) (choosen (N1 + N2) N1)
  else
    let Ui := Qfloor u in
    let nm := Z.of_nat (N1 * N2) in
    let flip := (nm + 1) / 2 <=? Ui in
    let Ui' := if flip then nm - Ui - 1 else Ui in
    let p := Qsum (map (untied_p (S (N1 + N2)) (Nat.min N1 N2) (Nat.max N1 N2)) (zrange 0 Ui')) in
    if flip then (1 - p)%Q else p.

Definition udist_bounds (N1 N2 : nat) : Q * Q := (0%Q, QN (N1 * N2)).
Definition udist_step : Q := 1 # 2.

(* ---------- executable twin: the whole distribution at once ----------
   A polynomial (list of coefficients, index = 2U) per number n of first-sample values;
   peeling the top rank: P(tK::rest, n) = sum_r C(tK,r) x^{stepw r} P(rest, n-r).
   Proofs/Udist.v shows its coefficients are the counts the recurrences above compute. *)
Fixpoint padd (p q : list Z) : list Z :=
  match p, q with
  | [], _ => q
  | _, [] => p
  | a :: p', b :: q' => (a + b) :: padd p' q'
  end.
Definition pshift (k : nat) (p : list Z) : list Z := match p with [] => [] | _ => repeat 0 k ++ p end.
Definition pscale (c : Z) (p : list Z) : list Z := map (Z.mul c) p.
Definition row_step (tK srest : nat) (R : list (list Z)) (n : nat) : list Z :=
  fold_left (fun acc r => padd acc (pshift (Z.to_nat (stepw tK srest n r))
                                           (pscale (choosen tK r) (nth (n - r) R []))))
            (seq 0 (Nat.min n tK + 1)) [].
Fixpoint rows (nmax : nat) (Tr : list nat) : list (list Z) :=
  match Tr with
  | [] => [1] :: repeat [] nmax
  | tK :: rest => let R := rows nmax rest in map (row_step tK (lsum rest) R) (seq 0 (nmax + 1))
  end.
(* counts of labellings by 2U for (N1, N2, T); T = nil means no ties = all ones *)
Definition eff_T (N1 N2 : nat) (T : list nat) : list nat := match T with [] => repeat 1%nat (N1 + N2) | _ => T end.
Definition mass_table (N1 N2 : nat) (T : list nat) : list Z := nth N1 (rows N1 (rev (eff_T N1 N2 T))) [].
Fixpoint cumsum (acc : Z) (p : list Z) : list Z :=
  match p with [] => [] | a :: p' => (acc + a) :: cumsum (acc + a) p' end.
Definition coef (p : list Z) (v : Z) : Z := if v <? 0 then 0 else nth (Z.to_nat v) p 0.
(* cumulative count at w; beyond the end of the table it is the last (= total) value *)
Definition cum_at (cs : list Z) (w : Z) : Z := if w <? 0 then 0 else nth (Z.to_nat w) cs (last cs 0).

(* untied twin: P(n,m) = P(n,m-1) + x^m P(n-1,m), coefficient index = U (not 2U), one row per m *)
Fixpoint urow_step (m : nat) (prev : list (list Z)) (left : list Z) : list (list Z) :=
  match prev with
  | [] => []
  | q :: prev' => let p := padd q (pshift m left) in p :: urow_step m prev' p
  end.
Fixpoint urows (nmax m : nat) : list (list Z) :=
  match m with
  | O => repeat [1] (S nmax)
  | S m' => match urows nmax m' with
            | [] => []
            | p0 :: rest => p0 :: urow_step m rest p0
            end
  end.
Definition untied_table (n1 n2 : nat) : list Z := nth n1 (urows n1 n2) [].
(* the table the checks use: index 2U with ties, index U without *)
Definition dist_table (N1 N2 : nat) (T : list nat) : list Z :=
  if has_ties T then mass_table N1 N2 T else untied_table N1 N2.

Definition fast_pmf (N1 N2 : nat) (T : list nat) (tbl : list Z) (tot : Z) (u : Q) : Q :=
  if Qltb u 0 || Qleb ((1 # 2) + QN (N1 * N2)) u then 0%Q
  else if has_ties T then qcount (coef tbl (Qfloor (2 * u))) tot
  else qcount (coef tbl (Qfloor u)) tot.
Definition fast_cdf (N1 N2 : nat) (T : list nat) (cs : list Z) (tot : Z) (u : Q) : Q :=
  if Qltb u 0 then 0%Q
  else if Qleb (QN (N1 * N2)) u then 1%Q
  else if has_ties T then qcount (cum_at cs (Qfloor (2 * u))) tot
  else qcount (cum_at cs (Qfloor u)) tot.

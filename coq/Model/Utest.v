(* Model/Utest.v — stats/utest.go (MannWhitneyUTest, labeledMerge, tieCorrection) on exact numbers.
   DEFINITIONS ONLY.  Generic in the value type A and its three-way comparison cmp (the code only
   ever compares sample values); instantiated with Q / Qcompare by the checks.
   The model describes the REPAIRED code (D3: LocationGreater uses CDF(U1-0.5)); the two-sided exact
   p-value is the legacy formula the code has (finding D2) and the specified value is computed next to it. *)
From Coq Require Import Qround.
From MM Require Import Base.Num Base.GEComb Base.GESort Model.GEChoose Model.Udist.
Open Scope Z_scope.

Section MW.
  Context {A : Type} (cmp : A -> A -> comparison).

  Definition leb (a b : A) : bool := match cmp a b with Gt => false | _ => true end.
  (* sort.Float64s on the defensive copies (utest.go:134-137) *)
  Definition msort (l : list A) : list A := isort leb l.

  (* labeledMerge (utest.go:238-266): label true = from x1; on equal values x2 goes first *)
  Fixpoint lmerge (x1 : list A) : list A -> list (A * bool) :=
    fix inner (x2 : list A) : list (A * bool) :=
      match x1, x2 with
      | [], _ => map (fun v => (v, false)) x2
      | _, [] => map (fun v => (v, true)) x1
      | a :: x1', b :: x2' =>
          match cmp a b with
          | Lt => (a, true) :: lmerge x1' x2
          | _ => (b, false) :: inner x2'
          end
      end.

  (* the scan over tie groups (utest.go:140-160): per group (first value, size, number from x1) *)
  Definition b2n (b : bool) : nat := if b then 1%nat else 0%nat.
  Fixpoint tgroups (l : list (A * bool)) : list (A * nat * nat) :=
    match l with
    | [] => []
    | (v, b) :: l' =>
        match tgroups l' with
        | (v', g, k) :: rest =>
            match cmp v v' with
            | Eq => (v, S g, (k + b2n b)%nat) :: rest
            | _ => (v, 1%nat, b2n b) :: (v', g, k) :: rest
            end
        | [] => [(v, 1%nat, b2n b)]
        end
    end.
  Definition gsize (x : A * nat * nat) : nat := snd (fst x).
  Definition gnx1 (x : A * nat * nat) : nat := snd x.
  (* 2*R1: a group occupying positions i+1..i+g has average rank (i+g + i+1)/2 (utest.go:152-155) *)
  Fixpoint rank_sum2 (gs : list (A * nat * nat)) (i : nat) : Z :=
    match gs with
    | [] => 0
    | x :: rest =>
        (if (gnx1 x =? 0)%nat then 0 else (Z.of_nat (i + gsize x) + Z.of_nat (i + 1)) * Z.of_nat (gnx1 x))
        + rank_sum2 rest (i + gsize x)
    end.

  Record mwstat := mkStat { ms_n1 : nat; ms_n2 : nat; ms_T : list nat; ms_ties : bool; ms_twoU : Z }.
  Definition mw_stat (x1 x2 : list A) : mwstat :=
    let gs := tgroups (lmerge (msort x1) (msort x2)) in
    let n1 := length x1 in
    let T := map gsize gs in
    mkStat n1 (length x2) T (has_ties T)
           (rank_sum2 gs 0 - Z.of_nat n1 * (Z.of_nat n1 + 1)).     (* 2*U1 = 2*R1 - n1(n1+1) *)
End MW.

(* ---------- the exact branch (utest.go:170-199) ---------- *)
Local Open Scope Q_scope.
Definition half (z : Z) : Q := z # 2.
(* the three tail formulas on UDist.CDF as the code has them; alt: -1 less, 0 differs, 1 greater *)
Definition mw_exact_p (cdf : Q -> Q) (n1 n2 : nat) (twoU : Z) (alt : Z) : Q :=
  let U1 := half twoU in
  let U2 := QN (n1 * n2) - U1 in
  if (alt =? 0)%Z then
    (if (twoU =? 2 * Z.of_nat (n1 * n2) - twoU)%Z then 1          (* U1 == U2 *)
     else 2 * cdf (Qminb U1 U2))                                    (* legacy two-sided value (D2) *)
  else if (alt <? 0)%Z then cdf U1
  else 1 - cdf (U1 - (1 # 2)).
(* the specified value: Pr[U'<=U], Pr[U'>=U], min(1, 2 min(both)) *)
Definition mw_spec_p (cdf : Q -> Q) (n1 n2 : nat) (twoU : Z) (alt : Z) : Q :=
  let U1 := half twoU in
  let ple := cdf U1 in
  let pge := 1 - cdf (U1 - (1 # 2)) in
  if (alt =? 0)%Z then Qminb 1 (2 * Qminb ple pge)
  else if (alt <? 0)%Z then ple else pge.

(* ---------- the normal approximation (utest.go:200-229, 270-276) ---------- *)
Definition tie_correction (T : list nat) : Z :=
  zsum (fun t => Z.of_nat t * Z.of_nat t * Z.of_nat t - Z.of_nat t)%Z T.
(* sigma_U^2 = n1 n2 ((N+1) - t/(N(N-1))) / 12 *)
Definition sigma2 (n1 n2 : nat) (T : list nat) : Q :=
  let N := Z.of_nat (n1 + n2) in
  QN (n1 * n2) * (inject_Z (N + 1) - inject_Z (tie_correction T) / inject_Z (N * (N - 1))) / 12.
(* 2 * numerator after the continuity correction *)
Definition numer2 (n1 n2 : nat) (twoU : Z) (alt : Z) : Z :=
  let d := (twoU - Z.of_nat (n1 * n2))%Z in                        (* 2 (U1 - mu) *)
  if (alt =? 0)%Z then (d - Z.sgn d)%Z else if (alt <? 0)%Z then (d + 1)%Z else (d - 1)%Z.
(* p from the standard normal CDF Phi evaluated at z = numer / sigma *)
Definition mw_approx_p (phi_z : Q) (alt : Z) : Q :=
  if (alt =? 0)%Z then 2 * Qminb phi_z (1 - phi_z) else if (alt <? 0)%Z then phi_z else 1 - phi_z.

Inductive mwres :=
| MWErrSize | MWErrEqual
| MWExact (n1 n2 : nat) (twoU : Z) (p pspec : Q)
| MWApprox (n1 n2 : nat) (twoU : Z) (num2 : Z) (sig2 : Q).         (* z = (num2/2) / sqrt sig2 *)

(* method selection (utest.go:168-169) *)
Definition use_exact (ties : bool) (n1 n2 : nat) (EL TL : Z) : bool :=
  (negb ties && (Z.of_nat n1 <=? EL)%Z && (Z.of_nat n2 <=? EL)%Z)
  || (ties && (Z.of_nat n1 <=? TL)%Z && (Z.of_nat n2 <=? TL)%Z).

(* everything after the rank pass, as a function of (n1, n2, T, hasTies, 2U) *)
Definition mw_finish (cdf : nat -> nat -> list nat -> Q -> Q) (EL TL : Z) (s : mwstat) (alt : Z) : mwres :=
  let n1 := ms_n1 s in let n2 := ms_n2 s in
  if use_exact (ms_ties s) n1 n2 EL TL then
    (if (length (ms_T s) =? 1)%nat then MWErrEqual
     else MWExact n1 n2 (ms_twoU s)
                  (mw_exact_p (cdf n1 n2 (ms_T s)) n1 n2 (ms_twoU s) alt)
                  (mw_spec_p (cdf n1 n2 (ms_T s)) n1 n2 (ms_twoU s) alt))
  else
    let s2 := sigma2 n1 n2 (ms_T s) in
    if Qeqb s2 0 then MWErrEqual
    else MWApprox n1 n2 (ms_twoU s) (numer2 n1 n2 (ms_twoU s) alt) s2.
Definition mw_test_s (cdf : nat -> nat -> list nat -> Q -> Q) (EL TL : Z) (empty : bool) (s : mwstat) (alt : Z) : mwres :=
  if empty then MWErrSize else mw_finish cdf EL TL s alt.
Definition is_nil {A} (l : list A) : bool := match l with [] => true | _ => false end.

(* MannWhitneyUTest; cdf is UDist{n1,n2,T}.CDF (Model.Udist.udist_cdf, or its table twin in the checks) *)
Definition mw_test {A} (cmp : A -> A -> comparison) (cdf : nat -> nat -> list nat -> Q -> Q)
           (EL TL : Z) (x1 x2 : list A) (alt : Z) : mwres :=
  mw_test_s cdf EL TL (is_nil x1 || is_nil x2) (mw_stat cmp x1 x2) alt.

(* Proofs/BetaGen.v — laws of Ibeta_gen (RealSpec/BetaGen.v) for ALL real a, b > 0.
   Main results (a, b > 0 throughout):
     Bhalf_tail, Bhalf_is_limit, Bhalf_tail_bounds : Bhalf a b = lim_{e->0+} int_e^(1/2) k(a,b),
                                       with error in (0, (1+a+b)/a * e^a]
     Bgen_is_limit, Btotal_is_limit  : Bgen a b x = lim int_e^x k,  Btotal a b = lim int_e^(1-e) k
     Bgen_range, Bgen_reflect        : 0 < Bgen a b x < Btotal a b,  Bgen a b x + Bgen b a (1-x) = Btotal a b
     Ibeta_gen_range / _monotone / _increasing / _reflect / _0 / _1, summary ibeta_gen_laws
     ibeta_gen_agrees                : Ibeta_gen x a b = Ibeta_R x a b  for a, b >= 1, 0 <= x <= 1
     Ibeta_gen_derive                : density bkernel a b x / Btotal a b on (0,1)
     Ibeta_gen_continuous            : continuous on the whole line (so also at 0 and 1)
     Ibeta_gen_b1, Ibeta_gen_a1      : I_x(a,1) = x^a,  I_x(1,b) = 1 - (1-x)^b  (a, b < 1 included) *)
From Coq Require Import Reals Lra Psatz ssreflect.
From Coquelicot Require Import Coquelicot.
From MM Require Import RealSpec.Beta Proofs.BetaR.
From MM Require Import RealSpec.BetaGen.
Open Scope R_scope.

(* ------------------------------------------------------------------ *)
(* 1. rpow0, bpart, bkernel: values, sign, continuity                   *)
(* ------------------------------------------------------------------ *)

Lemma rpow0_pw : forall a t, 0 < a -> rpow0 a t = pw a t.
Proof.
  intros a t Ha. unfold rpow0, pw.
  destruct (Req_EM_T a 0); [lra | reflexivity].
Qed.

Lemma rpow0_Rpower : forall a t, 0 < t -> rpow0 a t = Rpower t a.
Proof. intros a t Ht. unfold rpow0. destruct (Rle_dec t 0); [lra | reflexivity]. Qed.

Lemma rpow0_0 : forall a t, t <= 0 -> rpow0 a t = 0.
Proof. intros a t Ht. unfold rpow0. destruct (Rle_dec t 0); [reflexivity | lra]. Qed.

Lemma rpow0_nonneg : forall a t, 0 <= rpow0 a t.
Proof.
  intros a t. unfold rpow0. destruct (Rle_dec t 0); [lra | left; apply exp_pos].
Qed.

Lemma rpow0_continuous : forall a t, 0 < a -> continuous (rpow0 a) t.
Proof.
  intros a t Ha. apply continuous_ext with (f := pw a).
  - intros u. symmetry. apply rpow0_pw; assumption.
  - apply pw_continuous; lra.
Qed.

Lemma Rpower_1m_continuous : forall s t, t < 1 -> continuous (fun u => Rpower (1 - u) s) t.
Proof.
  intros s t Ht. apply (ex_derive_continuous (K:=R_AbsRing) (V:=R_NormedModule)).
  unfold Rpower. auto_derive. lra.
Qed.

Lemma bpart_continuous : forall a b t, 0 < a -> t < 1 -> continuous (bpart a b) t.
Proof.
  intros a b t Ha Ht. unfold bpart.
  apply (continuous_mult (K:=R_AbsRing) (fun t => rpow0 a t) (fun t => Rpower (1 - t) (b - 1))).
  - apply rpow0_continuous; assumption.
  - apply Rpower_1m_continuous; assumption.
Qed.

Lemma bpart_nonneg : forall a b t, 0 <= bpart a b t.
Proof.
  intros a b t. unfold bpart. apply Rmult_le_pos; [apply rpow0_nonneg | left; apply exp_pos].
Qed.

Lemma bpart_0 : forall a b, bpart a b 0 = 0.
Proof. intros. unfold bpart. rewrite rpow0_0; [ring | lra]. Qed.

Lemma bkernel_pos : forall a b t, 0 < bkernel a b t.
Proof. intros. unfold bkernel. apply Rmult_lt_0_compat; apply exp_pos. Qed.

Lemma bkernel_continuous : forall a b t, 0 < t < 1 -> continuous (bkernel a b) t.
Proof.
  intros a b t [Ht0 Ht1]. apply (ex_derive_continuous (K:=R_AbsRing) (V:=R_NormedModule)).
  unfold bkernel, Rpower. auto_derive. lra.
Qed.

Lemma bkernel_reflect : forall a b t, bkernel b a (1 - t) = bkernel a b t.
Proof.
  intros a b t. unfold bkernel. replace (1 - (1 - t)) with t by ring. ring.
Qed.

Lemma open_between : forall u v t, 0 < u < 1 -> 0 < v < 1 -> Rmin u v <= t <= Rmax u v -> 0 < t < 1.
Proof.
  intros u v t Hu Hv [H1 H2]. split.
  - apply Rlt_le_trans with (2 := H1). apply Rmin_case; lra.
  - apply Rle_lt_trans with (1 := H2). apply Rmax_case; lra.
Qed.

Lemma below1_between : forall u v t, u < 1 -> v < 1 -> Rmin u v <= t <= Rmax u v -> t < 1.
Proof.
  intros u v t Hu Hv [H1 H2]. apply Rle_lt_trans with (1 := H2). apply Rmax_case; lra.
Qed.

Lemma bkernel_ex_RInt_open : forall a b u v, 0 < u < 1 -> 0 < v < 1 -> ex_RInt (bkernel a b) u v.
Proof.
  intros a b u v Hu Hv. apply (ex_RInt_continuous (V:=R_CompleteNormedModule)).
  intros z Hz. apply bkernel_continuous. apply (open_between u v); assumption.
Qed.

Lemma bpart_ex_RInt : forall a b u v, 0 < a -> u < 1 -> v < 1 -> ex_RInt (bpart a b) u v.
Proof.
  intros a b u v Ha Hu Hv. apply (ex_RInt_continuous (V:=R_CompleteNormedModule)).
  intros z Hz. apply bpart_continuous; [assumption|]. apply (below1_between u v); assumption.
Qed.

Lemma bpart_RInt_nonneg : forall a b u v, 0 < a -> u <= v -> v < 1 -> 0 <= RInt (bpart a b) u v.
Proof.
  intros a b u v Ha Huv Hv. apply RInt_ge_0; [assumption | apply bpart_ex_RInt; lra |].
  intros t _. apply bpart_nonneg.
Qed.

Lemma bkernel_Chasles : forall a b u v w, 0 < u < 1 -> 0 < v < 1 -> 0 < w < 1 ->
  @eq R (RInt (bkernel a b) u v + RInt (bkernel a b) v w) (RInt (bkernel a b) u w).
Proof.
  intros a b u v w Hu Hv Hw.
  apply (RInt_Chasles (bkernel a b) u v w); apply bkernel_ex_RInt_open; assumption.
Qed.

Lemma bpart_Chasles : forall a b u v w, 0 < a -> u < 1 -> v < 1 -> w < 1 ->
  @eq R (RInt (bpart a b) u v + RInt (bpart a b) v w) (RInt (bpart a b) u w).
Proof.
  intros a b u v w Ha Hu Hv Hw.
  apply (RInt_Chasles (bpart a b) u v w); apply bpart_ex_RInt; assumption.
Qed.

Lemma bkernel_RInt_nonneg : forall a b u v, 0 < u -> u <= v -> v < 1 -> 0 <= RInt (bkernel a b) u v.
Proof.
  intros a b u v Hu Huv Hv. apply RInt_ge_0; [assumption | apply bkernel_ex_RInt_open; lra |].
  intros t _. left. apply bkernel_pos.
Qed.

(* ------------------------------------------------------------------ *)
(* 2. Integration by parts on [e, x] inside (0,1) *)
(* ------------------------------------------------------------------ *)

Lemma Rpower_pred : forall t s, 0 < t -> Rpower t (s - 1) = Rpower t s / t.
Proof.
  intros t s Ht. unfold Rminus. rewrite Rpower_plus Rpower_Ropp Rpower_1 //.
Qed.

Lemma Ppart_derive : forall a b t, 0 < a -> 0 < t < 1 ->
  is_derive (fun t => Rpower t a * Rpower (1 - t) b / a) t
            (bkernel a b t - (a + b) / a * bpart a b t).
Proof.
  intros a b t Ha [Ht0 Ht1].
  unfold bkernel, bpart. rewrite rpow0_Rpower // !Rpower_pred; try lra.
  unfold Rpower. auto_derive; [lra|].
  replace (1 + - t) with (1 - t) by ring.
  field. lra.
Qed.

Definition Ppart (a b t : R) : R := Rpower t a * Rpower (1 - t) b / a.

(* int_0^x k(a,b) written with proper integrals only (0 <= x < 1) *)
Definition Hpart (a b x : R) : R :=
  rpow0 a x * Rpower (1 - x) b / a + (a + b) / a * RInt (bpart a b) 0 x.

Lemma byparts_is_RInt : forall a b e x, 0 < a -> 0 < e < 1 -> 0 < x < 1 ->
  is_RInt (bkernel a b) e x
    (Ppart a b x - Ppart a b e + (a + b) / a * RInt (bpart a b) e x).
Proof.
  intros a b e x Ha He Hx.
  set (c := (a + b) / a).
  assert (H1 : is_RInt (fun t => bkernel a b t - c * bpart a b t) e x
                 (minus (Ppart a b x) (Ppart a b e))).
  { apply (is_RInt_derive (Ppart a b) (fun t => bkernel a b t - c * bpart a b t)).
    - intros t Ht. apply Ppart_derive; [assumption|]. apply (open_between e x); assumption.
    - intros t Ht. assert (Ht' := open_between e x t He Hx Ht).
      apply (continuous_minus (K:=R_AbsRing) (V:=R_NormedModule)
               (fun t => bkernel a b t) (fun t => c * bpart a b t)).
      + apply bkernel_continuous; assumption.
      + apply (continuous_scal_r (K:=R_AbsRing) c (fun t => bpart a b t)).
        apply bpart_continuous; lra. }
  assert (H2 : is_RInt (fun t => scal c (bpart a b t)) e x (scal c (RInt (bpart a b) e x))).
  { apply (is_RInt_scal (V:=R_NormedModule)).
    apply (RInt_correct (V:=R_CompleteNormedModule)). apply bpart_ex_RInt; lra. }
  assert (H3 := is_RInt_plus (V:=R_NormedModule) _ _ _ _ _ _ H1 H2).
  apply (is_RInt_ext (V:=R_NormedModule)) with (g := bkernel a b) in H3.
  - replace (Ppart a b x - Ppart a b e + c * RInt (bpart a b) e x)
      with (plus (minus (Ppart a b x) (Ppart a b e)) (scal c (RInt (bpart a b) e x))).
    + exact H3.
    + rewrite /minus /plus /opp /scal /= /mult /=. ring.
  - intros t _. rewrite /plus /scal /= /mult /=. ring.
Qed.

Lemma byparts_RInt : forall a b e x, 0 < a -> 0 < e < 1 -> 0 < x < 1 ->
  @eq R (RInt (bkernel a b) e x) (Hpart a b x - Hpart a b e).
Proof.
  intros a b e x Ha He Hx.
  rewrite (is_RInt_unique _ _ _ _ (byparts_is_RInt a b e x Ha He Hx)).
  unfold Hpart, Ppart. rewrite !rpow0_Rpower; try lra.
  assert (C := bpart_Chasles a b 0 e x Ha). 
  rewrite <- C; [ring | lra ..].
Qed.

(* ------------------------------------------------------------------ *)
(* 3. Bhalf is the improper integral; Bgen in by-parts form; positivity *)
(* ------------------------------------------------------------------ *)

Lemma Hpart_0 : forall a b, Hpart a b 0 = 0.
Proof.
  intros a b. unfold Hpart. rewrite rpow0_0; [|lra].
  rewrite (RInt_point (V:=R_CompleteNormedModule)). rewrite /zero /=. unfold Rdiv; ring.
Qed.

Lemma Bhalf_Hpart : forall a b, Bhalf a b = Hpart a b (1 / 2).
Proof.
  intros a b. unfold Bhalf, Hpart. rewrite rpow0_Rpower; [|lra].
  replace (1 - 1 / 2) with (1 / 2) by lra. rewrite Rpower_plus. reflexivity.
Qed.

Lemma bpart_RInt_derive : forall a b x, 0 < a -> x < 1 ->
  is_derive (fun y => RInt (bpart a b) 0 y) x (bpart a b x).
Proof.
  intros a b x Ha Hx.
  apply (is_derive_RInt (bpart a b) _ 0).
  - apply (locally_interval _ x m_infty 1); simpl; auto.
    intros y _ Hy. apply (RInt_correct (V:=R_CompleteNormedModule)).
    apply bpart_ex_RInt; lra.
  - apply bpart_continuous; assumption.
Qed.

Lemma Hpart_continuous : forall a b x, 0 < a -> x < 1 -> continuous (Hpart a b) x.
Proof.
  intros a b x Ha Hx. unfold Hpart.
  apply (continuous_plus (K:=R_AbsRing) (V:=R_NormedModule)
           (fun x => rpow0 a x * Rpower (1 - x) b / a)
           (fun x => (a + b) / a * RInt (bpart a b) 0 x)).
  - apply (continuous_mult (K:=R_AbsRing) (fun x => rpow0 a x * Rpower (1 - x) b) (fun _ => / a)).
    + apply (continuous_mult (K:=R_AbsRing) (fun x => rpow0 a x) (fun x => Rpower (1 - x) b)).
      * apply rpow0_continuous; assumption.
      * apply Rpower_1m_continuous; assumption.
    + apply continuous_const.
  - apply (continuous_scal_r (K:=R_AbsRing) ((a + b) / a) (fun x => RInt (bpart a b) 0 x)).
    apply (ex_derive_continuous (K:=R_AbsRing) (V:=R_NormedModule)).
    eexists. apply bpart_RInt_derive; assumption.
Qed.

Lemma Hpart_pos : forall a b x, 0 < a -> 0 < b -> 0 < x < 1 -> 0 < Hpart a b x.
Proof.
  intros a b x Ha Hb Hx. unfold Hpart. rewrite rpow0_Rpower; [|lra].
  assert (H1 : 0 < Rpower x a * Rpower (1 - x) b / a).
  { apply Rdiv_lt_0_compat; [|assumption]. apply Rmult_lt_0_compat; apply exp_pos. }
  assert (H2 : 0 <= RInt (bpart a b) 0 x) by (apply bpart_RInt_nonneg; lra).
  assert (H3 : 0 < (a + b) / a) by (apply Rdiv_lt_0_compat; lra).
  assert (H4 : 0 <= (a + b) / a * RInt (bpart a b) 0 x) by (apply Rmult_le_pos; lra).
  lra.
Qed.

(* Theorem 1: Bhalf a b is the improper integral int_0^(1/2) k(a,b) *)
Lemma Bhalf_tail : forall a b e, 0 < a -> 0 < e <= 1 / 2 ->
  @eq R (RInt (bkernel a b) e (1 / 2))
    (Bhalf a b - (Rpower e a * Rpower (1 - e) b / a + (a + b) / a * RInt (bpart a b) 0 e)).
Proof.
  intros a b e Ha He. rewrite byparts_RInt; try lra.
  rewrite -Bhalf_Hpart. unfold Hpart at 1. rewrite rpow0_Rpower; [|lra]. reflexivity.
Qed.

Theorem Bhalf_is_limit : forall a b, 0 < a ->
  filterlim (fun e => RInt (bkernel a b) e (1 / 2)) (at_right 0) (locally (Bhalf a b)).
Proof.
  intros a b Ha.
  apply filterlim_ext_loc with (f := fun e => Bhalf a b - Hpart a b e).
  - assert (Hh : 0 < 1 / 2) by lra.
    exists (mkposreal _ Hh). intros y Hy Hy0.
    change (Rabs (y - 0) < 1 / 2) in Hy. rewrite Rminus_0_r in Hy.
    apply Rabs_def2 in Hy. symmetry. rewrite byparts_RInt; try lra.
    rewrite -Bhalf_Hpart. reflexivity.
  - apply (filterlim_filter_le_1 (F := locally 0)).
    + apply filter_le_within.
    + assert (C : continuous (fun e => Bhalf a b - Hpart a b e) 0).
      { apply (continuous_minus (K:=R_AbsRing) (V:=R_NormedModule)
                 (fun _ => Bhalf a b) (fun e => Hpart a b e)).
        - apply continuous_const.
        - apply Hpart_continuous; lra. }
      unfold continuous in C. rewrite Hpart_0 Rminus_0_r in C. exact C.
Qed.

(* Bgen in by-parts form *)
Lemma Bgen_Hpart : forall a b x, 0 < a -> 0 < x < 1 -> Bgen a b x = Hpart a b x.
Proof.
  intros a b x Ha Hx. unfold Bgen. rewrite byparts_RInt; try lra.
  rewrite Bhalf_Hpart. ring.
Qed.

Lemma Bgen_pos : forall a b x, 0 < a -> 0 < b -> 0 < x < 1 -> 0 < Bgen a b x.
Proof. intros a b x Ha Hb Hx. rewrite Bgen_Hpart //. apply Hpart_pos; assumption. Qed.

(* ------------------------------------------------------------------ *)
(* 4. Reflection, range, monotonicity; the laws of Ibeta_gen *)
(* ------------------------------------------------------------------ *)

(* substitution t -> 1 - t *)
Lemma bkernel_RInt_reflect : forall a b u v, 0 < u < 1 -> 0 < v < 1 ->
  @eq R (RInt (bkernel b a) (1 - u) (1 - v)) (- RInt (bkernel a b) u v).
Proof.
  intros a b u v Hu Hv.
  assert (H := RInt_comp_lin (V:=R_CompleteNormedModule) (bkernel b a) (-1) 1 u v).
  replace (-1 * u + 1) with (1 - u) in H by ring.
  replace (-1 * v + 1) with (1 - v) in H by ring.
  rewrite <- H; [|apply bkernel_ex_RInt_open; lra].
  etransitivity;
    [| exact (RInt_opp (V:=R_CompleteNormedModule) (bkernel a b) u v
                (bkernel_ex_RInt_open a b u v Hu Hv))].
  apply RInt_ext. intros y _.
  rewrite <- (bkernel_reflect a b y). replace (-1 * y + 1) with (1 - y) by ring.
  rewrite /scal /opp /= /mult /=. ring.
Qed.

(* Theorem 3 (integral form) *)
Theorem Bgen_reflect : forall a b x, 0 < x < 1 -> Bgen a b x + Bgen b a (1 - x) = Btotal a b.
Proof.
  intros a b x Hx. unfold Bgen, Btotal.
  assert (H := bkernel_RInt_reflect a b (1 / 2) x).
  replace (1 - 1 / 2) with (1 / 2) in H by lra.
  rewrite H; lra.
Qed.

Lemma Btotal_comm : forall a b, Btotal b a = Btotal a b.
Proof. intros. unfold Btotal. ring. Qed.

(* Theorem 2 (integral form) *)
Theorem Bgen_range : forall a b x, 0 < a -> 0 < b -> 0 < x < 1 -> 0 < Bgen a b x < Btotal a b.
Proof.
  intros a b x Ha Hb Hx. split; [apply Bgen_pos; assumption|].
  assert (H := Bgen_reflect a b x Hx).
  assert (H' : 0 < Bgen b a (1 - x)) by (apply Bgen_pos; lra).
  lra.
Qed.

Lemma Btotal_pos : forall a b, 0 < a -> 0 < b -> 0 < Btotal a b.
Proof.
  intros a b Ha Hb. assert (Hh : 0 < 1 / 2 < 1) by lra.
  destruct (Bgen_range a b (1 / 2) Ha Hb Hh). lra.
Qed.

Lemma Bgen_monotone : forall a b x y, 0 < x -> x <= y -> y < 1 -> Bgen a b x <= Bgen a b y.
Proof.
  intros a b x y Hx Hxy Hy. unfold Bgen.
  assert (C := bkernel_Chasles a b (1 / 2) x y).
  rewrite <- C; try lra.
  assert (H := bkernel_RInt_nonneg a b x y Hx Hxy Hy). lra.
Qed.

Lemma Bgen_increasing : forall a b x y, 0 < x -> x < y -> y < 1 -> Bgen a b x < Bgen a b y.
Proof.
  intros a b x y Hx Hxy Hy. unfold Bgen.
  assert (C := bkernel_Chasles a b (1 / 2) x y).
  rewrite <- C; try lra.
  assert (H : 0 < RInt (bkernel a b) x y).
  { apply RInt_gt_0; [assumption | |].
    - intros t _. apply bkernel_pos.
    - intros t Ht. apply bkernel_continuous. lra. }
  lra.
Qed.

(* ------------------------------------------------------------------ *)
(* Ibeta_gen                                                            *)
(* ------------------------------------------------------------------ *)

Lemma Ibeta_gen_0 : forall a b, Ibeta_gen 0 a b = 0.
Proof. intros. unfold Ibeta_gen. destruct (Rle_dec 0 0); [reflexivity | lra]. Qed.

Lemma Ibeta_gen_1 : forall a b, Ibeta_gen 1 a b = 1.
Proof.
  intros. unfold Ibeta_gen. destruct (Rle_dec 1 0); [lra|].
  destruct (Rle_dec 1 1); [reflexivity | lra].
Qed.

Lemma Ibeta_gen_le0 : forall a b x, x <= 0 -> Ibeta_gen x a b = 0.
Proof. intros. unfold Ibeta_gen. destruct (Rle_dec x 0); [reflexivity | lra]. Qed.

Lemma Ibeta_gen_ge1 : forall a b x, 1 <= x -> Ibeta_gen x a b = 1.
Proof.
  intros. unfold Ibeta_gen. destruct (Rle_dec x 0); [lra|].
  destruct (Rle_dec 1 x); [reflexivity | lra].
Qed.

Lemma Ibeta_gen_open : forall a b x, 0 < x < 1 -> Ibeta_gen x a b = Bgen a b x / Btotal a b.
Proof.
  intros a b x Hx. unfold Ibeta_gen. destruct (Rle_dec x 0); [lra|].
  destruct (Rle_dec 1 x); [lra | reflexivity].
Qed.

Lemma Ibeta_gen_open_range : forall a b x, 0 < a -> 0 < b -> 0 < x < 1 -> 0 < Ibeta_gen x a b < 1.
Proof.
  intros a b x Ha Hb Hx. rewrite Ibeta_gen_open //.
  destruct (Bgen_range a b x Ha Hb Hx) as [H0 H1].
  assert (HT := Btotal_pos a b Ha Hb).
  split.
  - apply Rdiv_lt_0_compat; assumption.
  - apply (Rmult_lt_reg_r (Btotal a b)); [assumption|].
    unfold Rdiv. rewrite Rmult_assoc Rinv_l; lra.
Qed.

Theorem Ibeta_gen_range : forall a b x, 0 < a -> 0 < b -> 0 <= x <= 1 -> 0 <= Ibeta_gen x a b <= 1.
Proof.
  intros a b x Ha Hb [Hx0 Hx1].
  destruct (Rle_dec x 0) as [H0|H0]; [rewrite Ibeta_gen_le0 //; lra|].
  destruct (Rle_dec 1 x) as [H1|H1]; [rewrite Ibeta_gen_ge1 //; lra|].
  assert (Hx : 0 < x < 1) by lra.
  destruct (Ibeta_gen_open_range a b x Ha Hb Hx). lra.
Qed.

Theorem Ibeta_gen_monotone : forall a b x y, 0 < a -> 0 < b -> 0 <= x <= y -> y <= 1 ->
  Ibeta_gen x a b <= Ibeta_gen y a b.
Proof.
  intros a b x y Ha Hb [Hx0 Hxy] Hy1.
  destruct (Rle_dec x 0) as [H0|H0].
  { rewrite (Ibeta_gen_le0 a b x) //. apply Ibeta_gen_range; try assumption; lra. }
  destruct (Rle_dec 1 y) as [H1|H1].
  { rewrite (Ibeta_gen_ge1 a b y) //. apply Ibeta_gen_range; try assumption; lra. }
  rewrite !Ibeta_gen_open; try lra.
  assert (HT := Btotal_pos a b Ha Hb).
  apply Rmult_le_compat_r; [left; apply Rinv_0_lt_compat; assumption|].
  apply Bgen_monotone; lra.
Qed.

Theorem Ibeta_gen_increasing : forall a b x y, 0 < a -> 0 < b -> 0 <= x -> x < y -> y <= 1 ->
  Ibeta_gen x a b < Ibeta_gen y a b.
Proof.
  intros a b x y Ha Hb Hx0 Hxy Hy1.
  destruct (Rle_dec x 0) as [H0|H0]; destruct (Rle_dec 1 y) as [H1|H1].
  - rewrite (Ibeta_gen_le0 a b x) // (Ibeta_gen_ge1 a b y) //. lra.
  - rewrite (Ibeta_gen_le0 a b x) //.
    assert (Hy : 0 < y < 1) by lra. destruct (Ibeta_gen_open_range a b y Ha Hb Hy). lra.
  - rewrite (Ibeta_gen_ge1 a b y) //.
    assert (Hx : 0 < x < 1) by lra. destruct (Ibeta_gen_open_range a b x Ha Hb Hx). lra.
  - rewrite !Ibeta_gen_open; try lra.
    assert (HT := Btotal_pos a b Ha Hb).
    apply Rmult_lt_compat_r; [apply Rinv_0_lt_compat; assumption|].
    apply Bgen_increasing; lra.
Qed.

Theorem Ibeta_gen_reflect : forall a b x, 0 < a -> 0 < b -> 0 <= x <= 1 ->
  Ibeta_gen x a b + Ibeta_gen (1 - x) b a = 1.
Proof.
  intros a b x Ha Hb [Hx0 Hx1].
  destruct (Rle_dec x 0) as [H0|H0].
  { rewrite (Ibeta_gen_le0 a b x) // (Ibeta_gen_ge1 b a (1 - x)); lra. }
  destruct (Rle_dec 1 x) as [H1|H1].
  { rewrite (Ibeta_gen_ge1 a b x) // (Ibeta_gen_le0 b a (1 - x)); lra. }
  rewrite !Ibeta_gen_open; try lra. rewrite (Btotal_comm a b).
  assert (HT := Btotal_pos a b Ha Hb).
  assert (Hx : 0 < x < 1) by lra.
  replace (Bgen a b x / Btotal a b + Bgen b a (1 - x) / Btotal a b)
    with ((Bgen a b x + Bgen b a (1 - x)) / Btotal a b) by (field; lra).
  rewrite (Bgen_reflect a b x Hx). field. lra.
Qed.

(* ------------------------------------------------------------------ *)
(* 5. Agreement with Ibeta_R for a, b >= 1 *)
(* ------------------------------------------------------------------ *)

(* a function continuous at 0 and constant on (0, x] has that constant as value at 0 *)
Lemma const_right_of_0 : forall (D : R -> R) (K x : R), 0 < x ->
  continuous D 0 -> (forall e, 0 < e <= x -> D e = K) -> D 0 = K.
Proof.
  intros D K x Hx C HK.
  destruct (Req_dec (D 0) K) as [E|E]; [exact E | exfalso].
  assert (Heps : 0 < Rabs (D 0 - K)) by (apply Rabs_pos_lt; lra).
  destruct (proj1 (filterlim_locally D (D 0)) C (mkposreal _ Heps)) as [d Hd].
  set (e := Rmin (d / 2) x).
  assert (Hd0 := cond_pos d).
  assert (He : 0 < e <= x).
  { unfold e. split; [apply Rmin_case; lra | apply Rmin_r]. }
  assert (He2 : e <= d / 2) by apply Rmin_l.
  assert (B : ball 0 d e).
  { change (Rabs (e - 0) < d). rewrite Rminus_0_r Rabs_pos_eq; lra. }
  specialize (Hd e B). change (Rabs (D e - D 0) < Rabs (D 0 - K)) in Hd.
  rewrite (HK e He) in Hd. rewrite (Rabs_minus_sym K (D 0)) in Hd. lra.
Qed.

Lemma bext_RInt_continuous : forall a b x, 1 <= a -> 1 <= b ->
  continuous (fun y => RInt (bext a b) 0 y) x.
Proof.
  intros a b x Ha Hb. apply (ex_derive_continuous (K:=R_AbsRing) (V:=R_NormedModule)).
  exists (bext a b x). apply (is_derive_RInt (bext a b) _ 0).
  - apply filter_forall. intros y. apply (RInt_correct (V:=R_CompleteNormedModule)).
    apply bext_ex_RInt; assumption.
  - apply bext_continuous; assumption.
Qed.

(* for a, b >= 1 the by-parts form is the ordinary integral from 0 *)
Lemma Hpart_Bint : forall a b x, 1 <= a -> 1 <= b -> 0 < x < 1 -> Hpart a b x = Bint a b x.
Proof.
  intros a b x Ha Hb Hx.
  rewrite Bint_ext; [|lra].
  set (D := fun e => RInt (bext a b) 0 e - Hpart a b e).
  assert (H0 : D 0 = RInt (bext a b) 0 x - Hpart a b x).
  { apply (const_right_of_0 D _ x); [lra | |].
    - apply (continuous_minus (K:=R_AbsRing) (V:=R_NormedModule)
               (fun e => RInt (bext a b) 0 e) (fun e => Hpart a b e)).
      + apply bext_RInt_continuous; assumption.
      + apply Hpart_continuous; lra.
    - intros e He. unfold D.
      assert (E1 := byparts_RInt a b e x).
      rewrite bkernel_RInt_ext in E1; [|lra..].
      assert (C := RInt_Chasles (bext a b) 0 e x (bext_ex_RInt a b 0 e Ha Hb)
                     (bext_ex_RInt a b e x Ha Hb)).
      rewrite /plus /= in C. rewrite <- C. rewrite E1; lra. }
  unfold D in H0. rewrite Hpart_0 in H0.
  rewrite (RInt_point (V:=R_CompleteNormedModule)) in H0. rewrite /zero /= in H0. lra.
Qed.

Lemma Bgen_Bint : forall a b x, 1 <= a -> 1 <= b -> 0 < x < 1 -> Bgen a b x = Bint a b x.
Proof.
  intros a b x Ha Hb Hx. rewrite Bgen_Hpart; [|lra|assumption]. apply Hpart_Bint; assumption.
Qed.

Lemma Btotal_Bint : forall a b, 1 <= a -> 1 <= b -> Btotal a b = Bint a b 1.
Proof.
  intros a b Ha Hb.
  assert (Hh : 0 < 1 / 2 < 1) by lra.
  rewrite <- (Bgen_reflect a b (1 / 2) Hh).
  rewrite !Bgen_Bint; try lra.
  apply Bint_split; try assumption; lra.
Qed.

(* Theorem 6 *)
Theorem ibeta_gen_agrees : forall a b x, 1 <= a -> 1 <= b -> 0 <= x <= 1 ->
  Ibeta_gen x a b = Ibeta_R x a b.
Proof.
  intros a b x Ha Hb [Hx0 Hx1].
  destruct (Rle_dec x 0) as [H0|H0].
  { assert (x = 0) by lra. subst x. rewrite Ibeta_gen_0 Ibeta_R_0 //. }
  destruct (Rle_dec 1 x) as [H1|H1].
  { assert (x = 1) by lra. subst x. rewrite Ibeta_gen_1 Ibeta_R_1 //. }
  rewrite Ibeta_gen_open; [|lra]. unfold Ibeta_R.
  rewrite Bgen_Bint; try lra. rewrite Btotal_Bint //.
Qed.

(* ------------------------------------------------------------------ *)
(* 6. Bgen and Btotal as improper integrals; the density *)
(* ------------------------------------------------------------------ *)

(* Bgen a b x is the improper integral int_0^x k(a,b), and Btotal a b is int_0^1 k(a,b) *)
Theorem Bgen_is_limit : forall a b x, 0 < a -> 0 < x < 1 ->
  filterlim (fun e => RInt (bkernel a b) e x) (at_right 0) (locally (Bgen a b x)).
Proof.
  intros a b x Ha Hx.
  apply filterlim_ext_loc with (f := fun e => Bgen a b x - Hpart a b e).
  - assert (Hh : 0 < 1 / 2) by lra.
    exists (mkposreal _ Hh). intros y Hy Hy0.
    change (Rabs (y - 0) < 1 / 2) in Hy. rewrite Rminus_0_r in Hy.
    apply Rabs_def2 in Hy. symmetry. rewrite byparts_RInt; try lra.
    rewrite Bgen_Hpart //.
  - apply (filterlim_filter_le_1 (F := locally 0)).
    + apply filter_le_within.
    + assert (C : continuous (fun e => Bgen a b x - Hpart a b e) 0).
      { apply (continuous_minus (K:=R_AbsRing) (V:=R_NormedModule)
                 (fun _ => Bgen a b x) (fun e => Hpart a b e)).
        - apply continuous_const.
        - apply Hpart_continuous; lra. }
      unfold continuous in C. rewrite Hpart_0 Rminus_0_r in C. exact C.
Qed.

Theorem Btotal_is_limit : forall a b, 0 < a -> 0 < b ->
  filterlim (fun e => RInt (bkernel a b) e (1 - e)) (at_right 0) (locally (Btotal a b)).
Proof.
  intros a b Ha Hb.
  apply filterlim_ext_loc with (f := fun e => Btotal a b - (Hpart a b e + Hpart b a e)).
  - assert (Hh : 0 < 1 / 2) by lra.
    exists (mkposreal _ Hh). intros y Hy Hy0.
    change (Rabs (y - 0) < 1 / 2) in Hy. rewrite Rminus_0_r in Hy.
    apply Rabs_def2 in Hy. symmetry.
    assert (C := bkernel_Chasles a b y (1 / 2) (1 - y)).
    rewrite <- C; try lra.
    assert (R := bkernel_RInt_reflect b a (1 / 2) y).
    replace (1 - 1 / 2) with (1 / 2) in R by lra. rewrite R; try lra.
    assert (S := opp_RInt_swap (V:=R_CompleteNormedModule) (bkernel b a) (1 / 2) y).
    rewrite /opp /= in S. rewrite S; [|apply bkernel_ex_RInt_open; lra].
    rewrite !byparts_RInt; try lra. rewrite -!Bhalf_Hpart. unfold Btotal. ring.
  - apply (filterlim_filter_le_1 (F := locally 0)).
    + apply filter_le_within.
    + assert (C : continuous (fun e => Btotal a b - (Hpart a b e + Hpart b a e)) 0).
      { apply (continuous_minus (K:=R_AbsRing) (V:=R_NormedModule)
                 (fun _ => Btotal a b) (fun e => Hpart a b e + Hpart b a e)).
        - apply continuous_const.
        - apply (continuous_plus (K:=R_AbsRing) (V:=R_NormedModule)
                   (fun e => Hpart a b e) (fun e => Hpart b a e));
            apply Hpart_continuous; lra. }
      unfold continuous in C. rewrite !Hpart_0 Rplus_0_r Rminus_0_r in C. exact C.
Qed.

(* Theorem 7: the density *)
Lemma Bgen_derive : forall a b x, 0 < x < 1 -> is_derive (Bgen a b) x (bkernel a b x).
Proof.
  intros a b x Hx.
  assert (H : is_derive (fun y => RInt (bkernel a b) (1 / 2) y) x (bkernel a b x)).
  { apply (is_derive_RInt (bkernel a b) _ (1 / 2)).
    - apply (locally_interval _ x 0 1); simpl; try lra.
      intros y Hy0 Hy1. apply (RInt_correct (V:=R_CompleteNormedModule)).
      apply bkernel_ex_RInt_open; lra.
    - apply bkernel_continuous; assumption. }
  unfold Bgen. evar_last.
  - apply (is_derive_plus (K:=R_AbsRing) (V:=R_NormedModule)
             (fun _ => Bhalf a b) (fun y => RInt (bkernel a b) (1 / 2) y)).
    + apply (is_derive_const (K:=R_AbsRing) (V:=R_NormedModule)).
    + exact H.
  - rewrite /plus /zero /=. ring.
Qed.

Theorem Ibeta_gen_derive : forall a b x, 0 < x < 1 ->
  is_derive (fun y => Ibeta_gen y a b) x (bkernel a b x / Btotal a b).
Proof.
  intros a b x Hx.
  apply (is_derive_ext_loc (fun y => Bgen a b y / Btotal a b)).
  - apply (locally_interval _ x 0 1); simpl; try lra.
    intros y Hy0 Hy1. symmetry. apply Ibeta_gen_open; lra.
  - apply div_const_derive. apply Bgen_derive; assumption.
Qed.

(* ------------------------------------------------------------------ *)
(* 7. Rate of convergence; continuity on the whole line *)
(* ------------------------------------------------------------------ *)

(* --- explicit rate of Bhalf_is_limit --- *)

Lemma exp_le_compat : forall x y, x <= y -> exp x <= exp y.
Proof.
  intros x y Hxy. destruct Hxy as [H|E].
  - left. apply exp_increasing; assumption.
  - rewrite E. apply Rle_refl.
Qed.

Lemma Rpower_1m_le_1 : forall t s, 0 <= t < 1 -> 0 <= s -> Rpower (1 - t) s <= 1.
Proof.
  intros t s Ht Hs. unfold Rpower.
  apply Rle_trans with (exp 0); [apply exp_le_compat | rewrite exp_0; lra].
  assert (L : ln (1 - t) <= 0).
  { rewrite <- ln_1. destruct (Req_dec t 0) as [Z|N].
    - rewrite Z Rminus_0_r. lra.
    - left. apply ln_increasing; lra. }
  nra.
Qed.

Lemma Rpower_1m_le_2 : forall t b, 0 <= t <= 1 / 2 -> 0 < b -> Rpower (1 - t) (b - 1) <= 2.
Proof.
  intros t b Ht Hb. unfold Rpower.
  assert (L : ln (1 - t) <= 0).
  { rewrite <- ln_1. destruct (Req_dec t 0) as [Z|N].
    - rewrite Z Rminus_0_r. lra.
    - left. apply ln_increasing; lra. }
  apply Rle_trans with (exp (- ln (1 - t))).
  - apply exp_le_compat. nra.
  - rewrite exp_Ropp exp_ln; [|lra].
    apply (Rmult_le_reg_r (1 - t)); [lra|]. rewrite Rinv_l; lra.
Qed.

Lemma bpart_le : forall a b e t, 0 < a -> 0 < b -> 0 < t <= e -> e <= 1 / 2 ->
  bpart a b t <= 2 * Rpower e a.
Proof.
  intros a b e t Ha Hb Ht He. unfold bpart. rewrite rpow0_Rpower; [|lra].
  assert (H1 : Rpower t a <= Rpower e a) by (apply Rle_Rpower_l; lra).
  assert (H2 : Rpower (1 - t) (b - 1) <= 2) by (apply Rpower_1m_le_2; lra).
  assert (P1 : 0 < Rpower t a) by apply exp_pos.
  assert (P2 : 0 < Rpower (1 - t) (b - 1)) by apply exp_pos.
  nra.
Qed.

Lemma Hpart_le : forall a b e, 0 < a -> 0 < b -> 0 < e <= 1 / 2 ->
  Hpart a b e <= (1 + a + b) / a * Rpower e a.
Proof.
  intros a b e Ha Hb He. unfold Hpart. rewrite rpow0_Rpower; [|lra].
  assert (Pe : 0 < Rpower e a) by apply exp_pos.
  assert (H1 : Rpower (1 - e) b <= 1) by (apply Rpower_1m_le_1; lra).
  assert (H2 : RInt (bpart a b) 0 e <= Rpower e a).
  { apply Rle_trans with (RInt (fun _ => 2 * Rpower e a) 0 e).
    - apply RInt_le; [lra | apply bpart_ex_RInt; lra | apply ex_RInt_const |].
      intros t Ht. apply bpart_le; lra.
    - rewrite RInt_const. rewrite /scal /= /mult /=. nra. }
  assert (Pa : 0 < / a) by (apply Rinv_0_lt_compat; assumption).
  assert (P1 : 0 < Rpower (1 - e) b) by apply exp_pos.
  replace ((1 + a + b) / a * Rpower e a)
    with (Rpower e a * 1 * / a + (a + b) * / a * Rpower e a) by (field; lra).
  unfold Rdiv. apply Rplus_le_compat.
  - apply Rmult_le_compat_r; [lra|]. apply Rmult_le_compat_l; lra.
  - apply Rmult_le_compat_l; [|assumption]. apply Rmult_le_pos; lra.
Qed.

(* the truncated integral int_e^(1/2) k(a,b) misses Bhalf a b by at most C e^a, C = (1+a+b)/a *)
Theorem Bhalf_tail_bounds : forall a b e, 0 < a -> 0 < b -> 0 < e <= 1 / 2 ->
  0 < Bhalf a b - RInt (bkernel a b) e (1 / 2) <= (1 + a + b) / a * Rpower e a.
Proof.
  intros a b e Ha Hb He. rewrite byparts_RInt; try lra. rewrite -Bhalf_Hpart.
  assert (H := Hpart_pos a b e Ha Hb).
  assert (H' := Hpart_le a b e Ha Hb He). lra.
Qed.

(* --- Ibeta_gen is continuous on the whole line (in particular at x = 0 and x = 1) --- *)

Lemma Hpart_neg : forall a b x, x <= 0 -> Hpart a b x = 0.
Proof.
  intros a b x Hx. unfold Hpart. rewrite rpow0_0 //.
  replace (RInt (bpart a b) 0 x) with (RInt (fun _ : R => 0) 0 x).
  - rewrite RInt_const. rewrite /scal /= /mult /=. unfold Rdiv; ring.
  - apply RInt_ext. intros t. rewrite Rmin_right // Rmax_left //. intros Ht.
    unfold bpart. rewrite rpow0_0; [rewrite Rmult_0_l; reflexivity | lra].
Qed.

Lemma Ibeta_gen_Hpart : forall a b x, 0 < a -> x < 1 -> Ibeta_gen x a b = Hpart a b x / Btotal a b.
Proof.
  intros a b x Ha Hx. destruct (Rle_dec x 0) as [H0|H0].
  - rewrite Ibeta_gen_le0 // Hpart_neg //. unfold Rdiv; ring.
  - rewrite Ibeta_gen_open; [|lra]. rewrite Bgen_Hpart //. lra.
Qed.

Theorem Ibeta_gen_reflect_all : forall a b x, 0 < a -> 0 < b ->
  Ibeta_gen x a b + Ibeta_gen (1 - x) b a = 1.
Proof.
  intros a b x Ha Hb.
  destruct (Rle_dec x 0) as [H0|H0].
  { rewrite (Ibeta_gen_le0 a b x) // (Ibeta_gen_ge1 b a (1 - x)); lra. }
  destruct (Rle_dec 1 x) as [H1|H1].
  { rewrite (Ibeta_gen_ge1 a b x) // (Ibeta_gen_le0 b a (1 - x)); lra. }
  apply Ibeta_gen_reflect; try assumption; lra.
Qed.

Theorem Ibeta_gen_continuous : forall a b x, 0 < a -> 0 < b ->
  continuous (fun y => Ibeta_gen y a b) x.
Proof.
  intros a b x Ha Hb.
  destruct (Rlt_dec x 1) as [Hx|Hx].
  - apply continuous_ext_loc with (g := fun y => Hpart a b y * / Btotal a b).
    + apply (locally_interval _ x m_infty 1); simpl; auto.
      intros y _ Hy. symmetry. apply Ibeta_gen_Hpart; assumption.
    + apply (continuous_mult (K:=R_AbsRing) (fun y => Hpart a b y) (fun _ => / Btotal a b)).
      * apply Hpart_continuous; assumption.
      * apply continuous_const.
  - assert (Hx0 : 0 < x) by lra.
    apply continuous_ext_loc with (g := fun y => 1 - Hpart b a (1 - y) * / Btotal b a).
    + apply (locally_interval _ x 0 p_infty); simpl; auto.
      intros y Hy _. assert (R := Ibeta_gen_reflect_all a b y Ha Hb).
      rewrite (Ibeta_gen_Hpart b a (1 - y)) in R; [| assumption | lra].
      unfold Rdiv in R. lra.
    + apply (continuous_minus (K:=R_AbsRing) (V:=R_NormedModule)
               (fun _ => 1) (fun y => Hpart b a (1 - y) * / Btotal b a)).
      * apply continuous_const.
      * apply (continuous_mult (K:=R_AbsRing) (fun y => Hpart b a (1 - y)) (fun _ => / Btotal b a)).
        -- apply (continuous_comp (fun y => 1 - y) (Hpart b a)).
           ++ apply (continuous_minus (K:=R_AbsRing) (V:=R_NormedModule) (fun _ => 1) (fun t => t)).
              ** apply continuous_const.
              ** apply continuous_id.
           ++ apply Hpart_continuous; lra.
        -- apply continuous_const.
Qed.

(* --- sanity values outside a, b >= 1 --- *)

Lemma Ibeta_gen_half_symm : forall a, 0 < a -> Ibeta_gen (1 / 2) a a = 1 / 2.
Proof.
  intros a Ha. assert (H := Ibeta_gen_reflect_all a a (1 / 2) Ha Ha).
  replace (1 - 1 / 2) with (1 / 2) in H by lra. lra.
Qed.

(* ------------------------------------------------------------------ *)
(* 8. Closed forms at b = 1 and a = 1 (any positive other parameter) *)
(* ------------------------------------------------------------------ *)

(* --- closed form at b = 1, every a > 0 (a < 1 included): I_x(a,1) = x^a --- *)

Lemma bkernel_a1 : forall a t, bkernel a 1 t = Rpower t (a - 1).
Proof.
  intros a t. unfold bkernel. replace (1 - 1) with 0 by ring.
  unfold Rpower at 2. rewrite Rmult_0_l exp_0. ring.
Qed.

Lemma bkernel_a1_scaled : forall a t, 0 < a -> a * Rpower t (a - 1) / a = bkernel a 1 t.
Proof. intros a t Ha. rewrite bkernel_a1. field. lra. Qed.

Lemma Rpower_derive : forall a t, 0 < t ->
  is_derive (fun t => Rpower t a / a) t (a * Rpower t (a - 1) / a).
Proof.
  intros a t Ht. rewrite Rpower_pred //. unfold Rpower. auto_derive; [assumption|].
  unfold Rdiv; ring.
Qed.

Lemma bkernel_a1_RInt : forall a u v, 0 < a -> 0 < u -> 0 < v ->
  @eq R (RInt (bkernel a 1) u v) (Rpower v a / a - Rpower u a / a).
Proof.
  intros a u v Ha Hu Hv.
  apply is_RInt_unique.
  apply (is_RInt_ext (V:=R_NormedModule)) with (f := fun t => a * Rpower t (a - 1) / a).
  { intros t _. apply bkernel_a1_scaled; assumption. }
  assert (Hpos : forall t, Rmin u v <= t <= Rmax u v -> 0 < t).
  { intros t [H1 _]. apply Rlt_le_trans with (2 := H1). apply Rmin_case; assumption. }
  apply (is_RInt_derive (fun t => Rpower t a / a) (fun t => a * Rpower t (a - 1) / a)).
  - intros t Ht. apply Rpower_derive. apply Hpos; assumption.
  - intros t Ht.
    apply (continuous_mult (K:=R_AbsRing) (fun t => a * Rpower t (a - 1)) (fun _ => / a)).
    + apply (continuous_scal_r (K:=R_AbsRing) a (fun t => Rpower t (a - 1))).
      apply Rpower_continuous_pos. apply Hpos; assumption.
    + apply continuous_const.
Qed.

Lemma Bgen_a1 : forall a x, 0 < a -> 0 < x < 1 -> Bgen a 1 x = Rpower x a / a.
Proof.
  intros a x Ha Hx.
  apply (filterlim_locally_unique (F := at_right 0) (fun e => RInt (bkernel a 1) e x)).
  - apply Bgen_is_limit; assumption.
  - apply filterlim_ext_loc with (f := fun e => Rpower x a / a - rpow0 a e / a).
    + assert (Hh : 0 < 1) by lra.
      exists (mkposreal _ Hh). intros y _ Hy0. rewrite rpow0_Rpower //.
      symmetry. apply bkernel_a1_RInt; lra.
    + apply (filterlim_filter_le_1 (F := locally 0)).
      * apply filter_le_within.
      * assert (C : continuous (fun e => Rpower x a / a - rpow0 a e / a) 0).
        { apply (continuous_minus (K:=R_AbsRing) (V:=R_NormedModule)
                   (fun _ => Rpower x a / a) (fun e => rpow0 a e / a)).
          - apply continuous_const.
          - apply (continuous_mult (K:=R_AbsRing) (fun e => rpow0 a e) (fun _ => / a)).
            + apply rpow0_continuous; assumption.
            + apply continuous_const. }
        unfold continuous in C. rewrite (rpow0_0 a 0) in C; [|lra].
        replace (Rpower x a / a - 0 / a) with (Rpower x a / a) in C by (unfold Rdiv; ring).
        exact C.
Qed.

Lemma Btotal_a1 : forall a, 0 < a -> Btotal a 1 = / a.
Proof.
  intros a Ha.
  apply (filterlim_locally_unique (F := at_right 0) (fun e => RInt (bkernel a 1) e (1 - e))).
  - apply Btotal_is_limit; lra.
  - apply filterlim_ext_loc with (f := fun e => Rpower (1 - e) a / a - rpow0 a e / a).
    + assert (Hh : 0 < 1) by lra.
      exists (mkposreal _ Hh). intros y Hy Hy0.
      change (Rabs (y - 0) < 1) in Hy. rewrite Rminus_0_r in Hy. apply Rabs_def2 in Hy.
      rewrite rpow0_Rpower //.
      symmetry. apply bkernel_a1_RInt; lra.
    + apply (filterlim_filter_le_1 (F := locally 0)).
      * apply filter_le_within.
      * assert (C : continuous (fun e => Rpower (1 - e) a / a - rpow0 a e / a) 0).
        { apply (continuous_minus (K:=R_AbsRing) (V:=R_NormedModule)
                   (fun e => Rpower (1 - e) a / a) (fun e => rpow0 a e / a)).
          - apply (continuous_mult (K:=R_AbsRing) (fun e => Rpower (1 - e) a) (fun _ => / a)).
            + apply Rpower_1m_continuous; lra.
            + apply continuous_const.
          - apply (continuous_mult (K:=R_AbsRing) (fun e => rpow0 a e) (fun _ => / a)).
            + apply rpow0_continuous; assumption.
            + apply continuous_const. }
        unfold continuous in C. rewrite (rpow0_0 a 0) in C; [|lra].
        rewrite Rminus_0_r in C.
        replace (Rpower 1 a / a - 0 / a) with (/ a) in C.
        -- exact C.
        -- unfold Rpower. rewrite ln_1 Rmult_0_r exp_0. unfold Rdiv; ring.
Qed.

Theorem Ibeta_gen_b1 : forall a x, 0 < a -> 0 <= x <= 1 -> Ibeta_gen x a 1 = rpow0 a x.
Proof.
  intros a x Ha [Hx0 Hx1].
  destruct (Rle_dec x 0) as [H0|H0].
  { rewrite Ibeta_gen_le0 // rpow0_0 //. }
  destruct (Rle_dec 1 x) as [H1|H1].
  { assert (E : x = 1) by lra. rewrite E Ibeta_gen_1 rpow0_Rpower; [|lra].
    unfold Rpower. rewrite ln_1 Rmult_0_r exp_0 //. }
  rewrite Ibeta_gen_open; [|lra]. rewrite Bgen_a1; [|assumption|lra].
  rewrite Btotal_a1 // rpow0_Rpower; [|lra]. field. lra.
Qed.

(* and by reflection I_x(1,b) = 1 - (1-x)^b *)
Corollary Ibeta_gen_a1 : forall b x, 0 < b -> 0 <= x <= 1 -> Ibeta_gen x 1 b = 1 - rpow0 b (1 - x).
Proof.
  intros b x Hb Hx.
  assert (R := Ibeta_gen_reflect 1 b x Rlt_0_1 Hb Hx).
  rewrite (Ibeta_gen_b1 b (1 - x)) in R; [| assumption | lra]. lra.
Qed.

(* a value with both parameters below 1 is excluded from Ibeta_R but covered here *)
Example Ibeta_gen_example : Ibeta_gen (1 / 4) (1 / 2) 1 = 1 / 2.
Proof.
  rewrite Ibeta_gen_b1; [|lra..]. rewrite rpow0_Rpower; [|lra].
  replace (1 / 4) with (Rsqr (1 / 2)) by (unfold Rsqr; lra).
  replace (1 / 2) with (/ 2) at 2 by lra.
  rewrite Rpower_sqrt; [|unfold Rsqr; lra]. rewrite sqrt_Rsqr; lra.
Qed.

(* ------------------------------------------------------------------ *)
(* 9. Summary *)
(* ------------------------------------------------------------------ *)

Theorem ibeta_gen_laws : forall a b x y, 0 < a -> 0 < b ->
  (0 <= x <= 1 -> 0 <= Ibeta_gen x a b <= 1) /\
  (0 <= x <= y -> y <= 1 -> Ibeta_gen x a b <= Ibeta_gen y a b) /\
  (0 <= x <= 1 -> Ibeta_gen x a b + Ibeta_gen (1 - x) b a = 1) /\
  Ibeta_gen 0 a b = 0 /\ Ibeta_gen 1 a b = 1.
Proof.
  intros a b x y Ha Hb. repeat split.
  - apply Ibeta_gen_range; assumption.
  - apply Ibeta_gen_range; assumption.
  - intros Hx Hy. apply Ibeta_gen_monotone; assumption.
  - apply Ibeta_gen_reflect; assumption.
  - apply Ibeta_gen_0.
  - apply Ibeta_gen_1.
Qed.

Print Assumptions ibeta_gen_laws.
Print Assumptions ibeta_gen_agrees.
Print Assumptions Bhalf_is_limit.
Print Assumptions Ibeta_gen_derive.
Print Assumptions Bhalf_tail_bounds.
Print Assumptions Ibeta_gen_continuous.
Print Assumptions Ibeta_gen_b1.

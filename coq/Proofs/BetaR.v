(* Proofs/BetaR.v — the incomplete beta integral at half-integer and integer parameters. *)
From Coq Require Import Reals Lra Psatz Lia.
From Coquelicot Require Import Coquelicot.
From MM Require Import RealSpec.Beta.
Open Scope R_scope.

(* ------------------------------------------------------------------ *)
(* 1. Interface lemmas: the Rpower kernel on the OPEN interval          *)
(* ------------------------------------------------------------------ *)

Lemma Rpower_half_nat : forall (p : nat) t, 0 < t -> Rpower t (INR p / 2) = sqrt t ^ p.
Proof.
  intros p t Ht.
  replace (INR p / 2) with (/ 2 * INR p) by field.
  rewrite <- Rpower_mult, Rpower_sqrt by assumption.
  apply Rpower_pow. apply sqrt_lt_R0; assumption.
Qed.

Lemma Bint_half : forall (p q : nat) a b x,
  a = 1 + INR p / 2 -> b = 1 + INR q / 2 -> 0 <= x <= 1 ->
  Bint a b x = RInt (fun t => sqrt t ^ p * sqrt (1 - t) ^ q) 0 x.
Proof.
  intros p q a b x Ha Hb [Hx0 Hx1]. unfold Bint.
  apply RInt_ext. intros t. rewrite Rmin_left, Rmax_right by lra. intros [Ht0 Htx].
  unfold bkernel.
  replace (a - 1) with (INR p / 2) by lra.
  replace (b - 1) with (INR q / 2) by lra.
  rewrite !Rpower_half_nat by lra. reflexivity.
Qed.

Lemma Ibeta_half : forall (p q : nat) a b x,
  a = 1 + INR p / 2 -> b = 1 + INR q / 2 -> 0 <= x <= 1 ->
  Ibeta_R x a b = RInt (fun t => sqrt t ^ p * sqrt (1 - t) ^ q) 0 x
                  / RInt (fun t => sqrt t ^ p * sqrt (1 - t) ^ q) 0 1.
Proof.
  intros p q a b x Ha Hb Hx. unfold Ibeta_R.
  rewrite (Bint_half p q a b x Ha Hb Hx).
  rewrite (Bint_half p q a b 1 Ha Hb) by lra.
  reflexivity.
Qed.

Lemma Bint_nat : forall (m n : nat) a b x,
  a = 1 + INR m -> b = 1 + INR n -> 0 <= x <= 1 ->
  Bint a b x = RInt (fun t => t ^ m * (1 - t) ^ n) 0 x.
Proof.
  intros m n a b x Ha Hb [Hx0 Hx1]. unfold Bint.
  apply RInt_ext. intros t. rewrite Rmin_left, Rmax_right by lra. intros [Ht0 Htx].
  unfold bkernel.
  replace (a - 1) with (INR m) by lra.
  replace (b - 1) with (INR n) by lra.
  rewrite !Rpower_pow by lra. reflexivity.
Qed.

(* ------------------------------------------------------------------ *)
(* 2. Closed form at integer parameters                                 *)
(* ------------------------------------------------------------------ *)

(* sum_{j=a}^{a+b-1} C(a+b-1, j) x^j (1-x)^(a+b-1-j), indexed by i = j - a *)
Definition Ibeta_sum (a b : nat) (x : R) : R :=
  sum_f_R0 (fun i => Binomial.C (a + b - 1) (a + i) * x ^ (a + i) * (1 - x) ^ (b - 1 - i))
           (b - 1).

(* the same sum by structural recursion: tailsum j k x = sum_{l=j}^{j+k} C(j+k,l) x^l (1-x)^(j+k-l) *)
Definition bterm (j k : nat) (x : R) : R := Binomial.C (j + k) j * x ^ j * (1 - x) ^ k.
Fixpoint tailsum (j k : nat) (x : R) : R :=
  bterm j k x + match k with O => 0 | S k' => tailsum (S j) k' x end.

Lemma tailsum_sum : forall k j x,
  tailsum j k x =
  sum_f_R0 (fun i => Binomial.C (j + k) (j + i) * x ^ (j + i) * (1 - x) ^ (k - i)) k.
Proof.
  induction k; intros j x.
  - simpl. unfold bterm. rewrite !Nat.add_0_r. ring.
  - rewrite decomp_sum by lia.
    change (tailsum j (S k) x) with (bterm j (S k) x + tailsum (S j) k x).
    f_equal.
    + unfold bterm. rewrite !Nat.add_0_r, Nat.sub_0_r. reflexivity.
    + rewrite IHk. simpl pred. apply sum_eq. intros i Hi.
      replace (j + S i)%nat with (S j + i)%nat by lia.
      replace (j + S k)%nat with (S j + k)%nat by lia.
      replace (S k - S i)%nat with (k - i)%nat by lia.
      reflexivity.
Qed.

Lemma Ibeta_sum_tailsum : forall a k x, Ibeta_sum a (S k) x = tailsum a k x.
Proof.
  intros a k x. rewrite tailsum_sum. unfold Ibeta_sum.
  replace (S k - 1)%nat with k by lia.
  replace (a + S k - 1)%nat with (a + k)%nat by lia.
  reflexivity.
Qed.

Lemma C_add : forall j k,
  Binomial.C (j + k) j = INR (fact (j + k)) / (INR (fact j) * INR (fact k)).
Proof.
  intros j k. unfold Binomial.C.
  replace (j + k - j)%nat with k by lia. reflexivity.
Qed.

Lemma C_shift : forall j k,
  Binomial.C (S j + k) (S j) = Binomial.C (j + S k) j * INR (S k) / INR (S j).
Proof.
  intros j k. rewrite !C_add.
  replace (S j + k)%nat with (j + S k)%nat by lia.
  rewrite (fact_simpl j), (fact_simpl k), !mult_INR.
  assert (INR (S j) <> 0) by (apply not_0_INR; discriminate).
  assert (INR (S k) <> 0) by (apply not_0_INR; discriminate).
  assert (H1 := INR_fact_neq_0 j). assert (H2 := INR_fact_neq_0 k).
  field. repeat split; assumption.
Qed.

Lemma C_lower : forall j k,
  Binomial.C (S j + k) (S j) * INR (S j) = INR (S (j + k)) * Binomial.C (j + k) j.
Proof.
  intros j k. rewrite !C_add.
  change (S j + k)%nat with (S (j + k)).
  rewrite (fact_simpl j), (fact_simpl (j + k)), !mult_INR.
  assert (INR (S j) <> 0) by (apply not_0_INR; discriminate).
  assert (H1 := INR_fact_neq_0 j). assert (H2 := INR_fact_neq_0 k).
  field. repeat split; assumption.
Qed.

Lemma C_pos : forall n k, 0 < Binomial.C n k.
Proof.
  intros n k. unfold Binomial.C. apply Rdiv_lt_0_compat.
  - apply INR_fact_lt_0.
  - apply Rmult_lt_0_compat; apply INR_fact_lt_0.
Qed.

Lemma monomial_derive : forall c (j k : nat) x,
  is_derive (fun y => c * y ^ j * (1 - y) ^ k) x
    (c * (INR j * x ^ pred j * (1 - x) ^ k - x ^ j * (INR k * (1 - x) ^ pred k))).
Proof.
  intros c j k x. auto_derive; [exact I | unfold Rminus; ring].
Qed.

Definition tailD (j k : nat) (x : R) : R :=
  Binomial.C (j + k) j * INR j * x ^ pred j * (1 - x) ^ k.

(* telescoping: every term's negative part cancels the next term's positive part *)
Lemma tailsum_derive : forall k j x, is_derive (tailsum j k) x (tailD j k x).
Proof.
  induction k; intros j x.
  - apply is_derive_ext with (f := fun y => Binomial.C (j + 0) j * y ^ j * (1 - y) ^ 0).
    + intros t. simpl. unfold bterm. ring.
    + unfold tailD. set (c := Binomial.C (j + 0) j).
      replace (c * INR j * x ^ pred j * (1 - x) ^ 0)
        with (c * (INR j * x ^ pred j * (1 - x) ^ 0 - x ^ j * (INR 0 * (1 - x) ^ pred 0)))
        by (simpl; ring).
      apply monomial_derive.
  - apply is_derive_ext with
      (f := fun y => Binomial.C (j + S k) j * y ^ j * (1 - y) ^ S k + tailsum (S j) k y).
    + intros t. reflexivity.
    + replace (tailD j (S k) x) with
        (Binomial.C (j + S k) j *
           (INR j * x ^ pred j * (1 - x) ^ S k - x ^ j * (INR (S k) * (1 - x) ^ pred (S k)))
         + tailD (S j) k x).
      * apply (is_derive_plus (K:=R_AbsRing) (V:=R_NormedModule)).
        -- apply monomial_derive.
        -- apply IHk.
      * unfold tailD. rewrite C_shift, !Nat.pred_succ.
        assert (INR (S j) <> 0) by (apply not_0_INR; discriminate).
        set (c := Binomial.C (j + S k) j).
        field. assumption.
Qed.

Lemma tailsum_0 : forall k j, tailsum (S j) k 0 = 0.
Proof.
  induction k; intros j.
  - simpl. unfold bterm. rewrite pow_i by lia. ring.
  - change (tailsum (S j) (S k) 0) with (bterm (S j) (S k) 0 + tailsum (S (S j)) k 0).
    rewrite IHk. unfold bterm. rewrite pow_i by lia. ring.
Qed.

Lemma C_diag : forall j, Binomial.C (j + 0) j = 1.
Proof.
  intros j. rewrite C_add, Nat.add_0_r. simpl fact. simpl INR.
  field. apply INR_fact_neq_0.
Qed.

Lemma tailsum_1 : forall k j, tailsum j k 1 = 1.
Proof.
  induction k; intros j.
  - simpl. unfold bterm. rewrite C_diag, pow1. simpl. ring.
  - change (tailsum j (S k) 1) with (bterm j (S k) 1 + tailsum (S j) k 1).
    rewrite IHk. unfold bterm.
    replace (1 - 1) with 0 by ring. rewrite pow_i by lia. ring.
Qed.

Lemma tailD_const : forall j k x,
  tailD (S j) k x = INR (S (j + k)) * Binomial.C (j + k) j * x ^ j * (1 - x) ^ k.
Proof.
  intros j k x. unfold tailD. rewrite C_lower, Nat.pred_succ. ring.
Qed.

Lemma Ibeta_sum_derive : forall a b x, (1 <= a)%nat -> (1 <= b)%nat ->
  is_derive (Ibeta_sum a b) x
    (INR (a + b - 1) * Binomial.C (a + b - 2) (a - 1) * x ^ (a - 1) * (1 - x) ^ (b - 1)).
Proof.
  intros a b x Ha Hb.
  destruct a as [|j]; [lia|]. destruct b as [|k]; [lia|].
  apply is_derive_ext with (f := tailsum (S j) k).
  - intros t. symmetry. apply Ibeta_sum_tailsum.
  - replace (S j + S k - 1)%nat with (S (j + k)) by lia.
    replace (S j + S k - 2)%nat with (j + k)%nat by lia.
    replace (S j - 1)%nat with j by lia.
    replace (S k - 1)%nat with k by lia.
    rewrite <- tailD_const. apply tailsum_derive.
Qed.

Lemma Ibeta_sum_0 : forall a b, (1 <= a)%nat -> (1 <= b)%nat -> Ibeta_sum a b 0 = 0.
Proof.
  intros a b Ha Hb.
  destruct a as [|j]; [lia|]. destruct b as [|k]; [lia|].
  rewrite Ibeta_sum_tailsum. apply tailsum_0.
Qed.

Lemma Ibeta_sum_1 : forall a b, (1 <= b)%nat -> Ibeta_sum a b 1 = 1.
Proof.
  intros a b Hb. destruct b as [|k]; [lia|].
  rewrite Ibeta_sum_tailsum. apply tailsum_1.
Qed.

(* the polynomial kernel, its primitive and its integral (any real x) *)
Lemma poly_kernel_continuous : forall (m n : nat) t,
  continuous (fun t => t ^ m * (1 - t) ^ n) t.
Proof.
  intros m n t. apply (ex_derive_continuous (K:=R_AbsRing) (V:=R_NormedModule)).
  auto_derive. exact I.
Qed.

Definition beta_const (j k : nat) : R := INR (S (j + k)) * Binomial.C (j + k) j.

Lemma beta_const_pos : forall j k, 0 < beta_const j k.
Proof.
  intros j k. unfold beta_const. apply Rmult_lt_0_compat.
  - apply lt_0_INR; lia.
  - apply C_pos.
Qed.

Lemma div_const_derive : forall (g : R -> R) c x dg,
  is_derive g x dg -> is_derive (fun y => g y / c) x (dg / c).
Proof.
  intros g c x dg H. auto_derive.
  - eexists; exact H.
  - assert (E : Derive (fun x0 : R => g x0) x = dg) by (apply is_derive_unique; exact H).
    rewrite E. unfold Rdiv; ring.
Qed.

Lemma poly_kernel_is_RInt : forall (j k : nat) x,
  is_RInt (fun t => t ^ j * (1 - t) ^ k) 0 x (tailsum (S j) k x / beta_const j k).
Proof.
  intros j k x.
  assert (Hc := beta_const_pos j k).
  replace (tailsum (S j) k x / beta_const j k)
    with (minus (tailsum (S j) k x / beta_const j k) (tailsum (S j) k 0 / beta_const j k))
    by (rewrite tailsum_0; unfold minus, plus, opp; simpl; field; lra).
  apply (is_RInt_derive (fun y => tailsum (S j) k y / beta_const j k)
                        (fun t => t ^ j * (1 - t) ^ k)).
  - intros t _.
    replace (t ^ j * (1 - t) ^ k) with (tailD (S j) k t / beta_const j k).
    + apply div_const_derive, tailsum_derive.
    + rewrite tailD_const. fold (beta_const j k). field. lra.
  - intros t _. apply poly_kernel_continuous.
Qed.

Lemma poly_kernel_RInt : forall (j k : nat) x,
  @eq R (RInt (fun t => t ^ j * (1 - t) ^ k) 0 x) (tailsum (S j) k x / beta_const j k).
Proof. intros. apply is_RInt_unique, poly_kernel_is_RInt. Qed.

(* the complete beta integral B(j+1, k+1) = j! k! / (j+k+1)! *)
Lemma poly_kernel_RInt_1 : forall (j k : nat),
  @eq R (RInt (fun t => t ^ j * (1 - t) ^ k) 0 1) (/ beta_const j k).
Proof. intros. rewrite poly_kernel_RInt, tailsum_1. unfold Rdiv; ring. Qed.

Theorem Ibeta_closed_form : forall (a b : nat) x, (1 <= a)%nat -> (1 <= b)%nat ->
  0 <= x <= 1 -> Ibeta_R x (INR a) (INR b) = Ibeta_sum a b x.
Proof.
  intros a b x Ha Hb Hx.
  destruct a as [|j]; [lia|]. destruct b as [|k]; [lia|].
  unfold Ibeta_R.
  assert (Ea : INR (S j) = 1 + INR j) by (rewrite S_INR; ring).
  assert (Eb : INR (S k) = 1 + INR k) by (rewrite S_INR; ring).
  rewrite (Bint_nat j k _ _ x Ea Eb Hx).
  rewrite (Bint_nat j k _ _ 1 Ea Eb) by lra.
  rewrite poly_kernel_RInt, poly_kernel_RInt_1, Ibeta_sum_tailsum.
  assert (Hc := beta_const_pos j k).
  field. lra.
Qed.

(* consequences at integer parameters *)
Lemma Bint_nat_closed : forall (j k : nat) x, 0 <= x <= 1 ->
  Bint (INR (S j)) (INR (S k)) x = Ibeta_sum (S j) (S k) x / beta_const j k.
Proof.
  intros j k x Hx.
  assert (Ea : INR (S j) = 1 + INR j) by (rewrite S_INR; ring).
  assert (Eb : INR (S k) = 1 + INR k) by (rewrite S_INR; ring).
  rewrite (Bint_nat j k _ _ x Ea Eb Hx), poly_kernel_RInt, Ibeta_sum_tailsum. reflexivity.
Qed.

(* ------------------------------------------------------------------ *)
(* 3. Real parameters a, b >= 1: integrability, range, monotonicity     *)
(* ------------------------------------------------------------------ *)

(* continuous extension of t |-> Rpower t s to the whole line, for s >= 0
   (Coq's Rpower 0 s = 1 is junk for s > 0: the extension takes the value 0 there) *)
Definition pw (s t : R) : R :=
  if Req_EM_T s 0 then 1 else if Rle_dec t 0 then 0 else Rpower t s.

Lemma pw_Rpower : forall s t, 0 < t -> pw s t = Rpower t s.
Proof.
  intros s t Ht. unfold pw.
  destruct (Req_EM_T s 0) as [->|_].
  - unfold Rpower. rewrite Rmult_0_l, exp_0. reflexivity.
  - destruct (Rle_dec t 0); [lra | reflexivity].
Qed.

Lemma pw_pos : forall s t, 0 < t -> 0 < pw s t.
Proof. intros s t Ht. rewrite pw_Rpower by assumption. apply exp_pos. Qed.

Lemma pw_nonneg : forall s t, 0 <= pw s t.
Proof.
  intros s t. unfold pw.
  destruct (Req_EM_T s 0); [lra|].
  destruct (Rle_dec t 0); [lra|]. left; apply exp_pos.
Qed.

Lemma Rpower_continuous_pos : forall s t, 0 < t -> continuous (fun u => Rpower u s) t.
Proof.
  intros s t Ht. apply (ex_derive_continuous (K:=R_AbsRing) (V:=R_NormedModule)).
  unfold Rpower. auto_derive. assumption.
Qed.

Lemma pw_continuous : forall s t, 0 <= s -> continuous (pw s) t.
Proof.
  intros s t Hs.
  destruct (Req_EM_T s 0) as [E|E].
  - apply continuous_ext with (f := fun _ => 1).
    + intros u. unfold pw. destruct (Req_EM_T s 0); [reflexivity | contradiction].
    + apply continuous_const.
  - assert (Hs' : 0 < s) by lra.
    destruct (Rtotal_order t 0) as [Ht|[Ht|Ht]].
    + (* t < 0: locally 0 *)
      apply continuous_ext_loc with (g := fun _ => 0).
      * apply (locally_interval _ t m_infty 0); simpl; auto.
        intros y _ Hy. unfold pw.
        destruct (Req_EM_T s 0); [contradiction|].
        destruct (Rle_dec y 0); [reflexivity | lra].
      * apply continuous_const.
    + (* t = 0 *)
      subst t. apply continuity_pt_filterlim.
      intros eps Heps.
      exists (exp (ln eps / s)). split; [apply exp_pos|].
      intros u [_ Hu].
      simpl in *. unfold R_dist in *. rewrite Rminus_0_r in Hu.
      replace (pw s 0) with 0.
      2:{ unfold pw. destruct (Req_EM_T s 0); [contradiction|].
          destruct (Rle_dec 0 0); [reflexivity | lra]. }
      rewrite Rminus_0_r, Rabs_pos_eq by apply pw_nonneg.
      unfold pw. destruct (Req_EM_T s 0); [contradiction|].
      destruct (Rle_dec u 0) as [Hu0|Hu0]; [assumption|].
      assert (Hup : 0 < u) by lra.
      rewrite Rabs_pos_eq in Hu by lra.
      unfold Rpower.
      rewrite <- (exp_ln eps Heps). apply exp_increasing.
      assert (Hl : ln u < ln eps / s).
      { rewrite <- (ln_exp (ln eps / s)). apply ln_increasing; assumption. }
      apply (Rmult_lt_compat_l s) in Hl; [|assumption].
      replace (s * (ln eps / s)) with (ln eps) in Hl by (field; lra).
      assumption.
    + (* t > 0: locally Rpower *)
      apply continuous_ext_loc with (g := fun u => Rpower u s).
      * apply (locally_interval _ t 0 p_infty); simpl; auto.
        intros y Hy _. symmetry. apply pw_Rpower; assumption.
      * apply Rpower_continuous_pos; assumption.
Qed.

Definition bext (a b t : R) : R := pw (a - 1) t * pw (b - 1) (1 - t).

Lemma bext_continuous : forall a b t, 1 <= a -> 1 <= b -> continuous (bext a b) t.
Proof.
  intros a b t Ha Hb. unfold bext.
  apply (continuous_mult (K:=R_AbsRing) (fun t => pw (a - 1) t) (fun t => pw (b - 1) (1 - t))).
  - apply pw_continuous; lra.
  - apply (continuous_comp (fun t => 1 - t) (pw (b - 1))).
    + apply (continuous_minus (K:=R_AbsRing) (V:=R_NormedModule) (fun _ => 1) (fun t => t)).
      * apply continuous_const.
      * apply continuous_id.
    + apply pw_continuous; lra.
Qed.

Lemma bext_bkernel : forall a b t, 0 < t < 1 -> bext a b t = bkernel a b t.
Proof.
  intros a b t Ht. unfold bext, bkernel. rewrite !pw_Rpower by lra. reflexivity.
Qed.

Lemma bext_pos : forall a b t, 0 < t < 1 -> 0 < bext a b t.
Proof. intros a b t Ht. unfold bext. apply Rmult_lt_0_compat; apply pw_pos; lra. Qed.

Lemma bkernel_RInt_ext : forall a b u v, 0 <= u <= v -> v <= 1 ->
  RInt (bkernel a b) u v = RInt (bext a b) u v.
Proof.
  intros a b u v Hu Hv. apply RInt_ext. intros t.
  rewrite Rmin_left, Rmax_right by lra. intros Ht. symmetry. apply bext_bkernel. lra.
Qed.

Lemma bext_ex_RInt : forall a b u v, 1 <= a -> 1 <= b -> ex_RInt (bext a b) u v.
Proof.
  intros a b u v Ha Hb. apply (ex_RInt_continuous (V:=R_CompleteNormedModule)).
  intros z _. apply bext_continuous; assumption.
Qed.

(* the textbook integrand IS integrable on every [u,v] inside [0,1], in spite of the
   junk values of Rpower at the end points *)
Lemma bkernel_ex_RInt : forall a b u v, 1 <= a -> 1 <= b -> 0 <= u <= v -> v <= 1 ->
  ex_RInt (bkernel a b) u v.
Proof.
  intros a b u v Ha Hb Hu Hv.
  apply ex_RInt_ext with (f := bext a b).
  - intros t. rewrite Rmin_left, Rmax_right by lra. intros Ht. apply bext_bkernel. lra.
  - apply bext_ex_RInt; assumption.
Qed.

Lemma Bint_ext : forall a b x, 0 <= x <= 1 -> Bint a b x = RInt (bext a b) 0 x.
Proof. intros a b x Hx. unfold Bint. apply bkernel_RInt_ext; lra. Qed.

Lemma Bint_0 : forall a b, Bint a b 0 = 0.
Proof. intros. unfold Bint. apply (RInt_point (V:=R_CompleteNormedModule)). Qed.

Lemma Bint_monotone : forall a b x y, 1 <= a -> 1 <= b -> 0 <= x <= y -> y <= 1 ->
  Bint a b x <= Bint a b y.
Proof.
  intros a b x y Ha Hb Hx Hy.
  rewrite !Bint_ext by lra.
  assert (Hc := RInt_Chasles (bext a b) 0 x y (bext_ex_RInt a b 0 x Ha Hb) (bext_ex_RInt a b x y Ha Hb)).
  unfold plus in Hc; simpl in Hc. rewrite <- Hc.
  assert (0 <= RInt (bext a b) x y).
  { apply RInt_ge_0; [lra | apply bext_ex_RInt; assumption |].
    intros t Ht. left. apply bext_pos. lra. }
  lra.
Qed.

Lemma Bint_nonneg : forall a b x, 1 <= a -> 1 <= b -> 0 <= x <= 1 -> 0 <= Bint a b x.
Proof.
  intros a b x Ha Hb Hx. rewrite <- (Bint_0 a b). apply Bint_monotone; lra.
Qed.

Lemma Bint_1_pos : forall a b, 1 <= a -> 1 <= b -> 0 < Bint a b 1.
Proof.
  intros a b Ha Hb. rewrite Bint_ext by lra.
  apply RInt_gt_0; [lra | |].
  - intros t Ht. apply bext_pos; assumption.
  - intros t _. apply bext_continuous; assumption.
Qed.

Theorem Ibeta_R_range : forall a b x, 1 <= a -> 1 <= b -> 0 <= x <= 1 ->
  0 <= Ibeta_R x a b <= 1.
Proof.
  intros a b x Ha Hb Hx. unfold Ibeta_R.
  assert (H1 := Bint_1_pos a b Ha Hb).
  assert (H0 := Bint_nonneg a b x Ha Hb Hx).
  assert (Hm := Bint_monotone a b x 1 Ha Hb Hx (Rle_refl 1)).
  split.
  - apply Rmult_le_pos; [assumption|]. left; apply Rinv_0_lt_compat; assumption.
  - apply (Rmult_le_reg_r (Bint a b 1)); [assumption|].
    unfold Rdiv. rewrite Rmult_assoc, Rinv_l by lra. lra.
Qed.

Theorem Ibeta_R_monotone : forall a b x y, 1 <= a -> 1 <= b -> 0 <= x <= y -> y <= 1 ->
  Ibeta_R x a b <= Ibeta_R y a b.
Proof.
  intros a b x y Ha Hb Hx Hy. unfold Ibeta_R.
  assert (H1 := Bint_1_pos a b Ha Hb).
  assert (Hm := Bint_monotone a b x y Ha Hb Hx Hy).
  apply Rmult_le_compat_r; [|assumption].
  left; apply Rinv_0_lt_compat; assumption.
Qed.

Lemma Ibeta_R_0 : forall a b, Ibeta_R 0 a b = 0.
Proof. intros. unfold Ibeta_R. rewrite Bint_0. unfold Rdiv; ring. Qed.

Lemma Ibeta_R_1 : forall a b, 1 <= a -> 1 <= b -> Ibeta_R 1 a b = 1.
Proof.
  intros a b Ha Hb. unfold Ibeta_R. assert (H1 := Bint_1_pos a b Ha Hb). field. lra.
Qed.


(* ------------------------------------------------------------------ *)
(* 4. Reflection symmetry  I_x(a,b) + I_{1-x}(b,a) = 1                  *)
(* ------------------------------------------------------------------ *)

Lemma bext_reflect : forall a b t, bext b a (1 - t) = bext a b t.
Proof.
  intros a b t. unfold bext. replace (1 - (1 - t)) with t by ring. ring.
Qed.

Lemma Bint_reflect : forall a b x, 1 <= a -> 1 <= b -> 0 <= x <= 1 ->
  Bint b a (1 - x) = RInt (bext a b) x 1.
Proof.
  intros a b x Ha Hb Hx.
  rewrite Bint_ext by lra.
  assert (H := RInt_comp_lin (V:=R_CompleteNormedModule) (bext a b) (-1) 1 0 (1 - x)).
  replace (-1 * 0 + 1) with 1 in H by ring.
  replace (-1 * (1 - x) + 1) with x in H by ring.
  specialize (H (bext_ex_RInt a b 1 x Ha Hb)).
  assert (E1 := opp_RInt_swap (V:=R_CompleteNormedModule) (bext a b) x 1
                  (bext_ex_RInt a b x 1 Ha Hb)).
  assert (E2 := RInt_opp (V:=R_CompleteNormedModule) (bext b a) 0 (1 - x)
                  (bext_ex_RInt b a 0 (1 - x) Hb Ha)).
  assert (E3 : RInt (fun y => scal (-1) (bext a b (-1 * y + 1))) 0 (1 - x)
               = RInt (fun y => opp (bext b a y)) 0 (1 - x)).
  { apply RInt_ext. intros y _. rewrite <- (bext_reflect b a y).
    replace (1 - y) with (-1 * y + 1) by ring.
    unfold scal, opp; simpl. unfold mult; simpl. ring. }
  unfold opp in *; simpl in *.
  assert (E : - RInt (bext a b) x 1 = - RInt (bext b a) 0 (1 - x))
    by exact (eq_trans E1 (eq_trans (eq_sym H) (eq_trans E3 E2))).
  apply Ropp_eq_compat in E. rewrite !Ropp_involutive in E. symmetry; exact E.
Qed.

Lemma Bint_split : forall a b x, 1 <= a -> 1 <= b -> 0 <= x <= 1 ->
  Bint a b x + Bint b a (1 - x) = Bint a b 1.
Proof.
  intros a b x Ha Hb Hx.
  rewrite Bint_reflect by assumption. rewrite !Bint_ext by lra.
  apply (RInt_Chasles (bext a b) 0 x 1); apply bext_ex_RInt; assumption.
Qed.

Lemma Bint_1_symm : forall a b, 1 <= a -> 1 <= b -> Bint b a 1 = Bint a b 1.
Proof.
  intros a b Ha Hb.
  assert (H := Bint_split a b 0 Ha Hb). rewrite Bint_0, Rminus_0_r in H. lra.
Qed.

Theorem Ibeta_R_reflect : forall a b x, 1 <= a -> 1 <= b -> 0 <= x <= 1 ->
  Ibeta_R x a b + Ibeta_R (1 - x) b a = 1.
Proof.
  intros a b x Ha Hb Hx. unfold Ibeta_R.
  rewrite (Bint_1_symm a b Ha Hb).
  assert (H1 := Bint_1_pos a b Ha Hb).
  assert (Hs := Bint_split a b x Ha Hb Hx).
  replace (Bint a b x / Bint a b 1 + Bint b a (1 - x) / Bint a b 1)
    with ((Bint a b x + Bint b a (1 - x)) / Bint a b 1) by (field; lra).
  rewrite Hs. field. lra.
Qed.

(* ------------------------------------------------------------------ *)
(* 5. The half-integer kernel is continuous, hence integrable anywhere  *)
(* ------------------------------------------------------------------ *)

Lemma pow_continuous : forall (n : nat) (f : R -> R) t,
  continuous f t -> continuous (fun u => f u ^ n) t.
Proof.
  intros n f t Hf. induction n.
  - simpl. apply continuous_const.
  - simpl. apply (continuous_mult (K:=R_AbsRing) f (fun u => f u ^ n)); assumption.
Qed.

Lemma half_kernel_continuous : forall (p q : nat) t,
  continuous (fun t => sqrt t ^ p * sqrt (1 - t) ^ q) t.
Proof.
  intros p q t.
  apply (continuous_mult (K:=R_AbsRing) (fun t => sqrt t ^ p) (fun t => sqrt (1 - t) ^ q)).
  - apply pow_continuous, continuous_sqrt.
  - apply pow_continuous. apply continuous_sqrt_comp.
    apply (continuous_minus (K:=R_AbsRing) (V:=R_NormedModule) (fun _ => 1) (fun t => t)).
    + apply continuous_const.
    + apply continuous_id.
Qed.

Lemma half_kernel_ex_RInt : forall (p q : nat) u v,
  ex_RInt (fun t => sqrt t ^ p * sqrt (1 - t) ^ q) u v.
Proof.
  intros p q u v. apply (ex_RInt_continuous (V:=R_CompleteNormedModule)).
  intros z _. apply half_kernel_continuous.
Qed.

Lemma poly_kernel_ex_RInt : forall (m n : nat) u v,
  ex_RInt (fun t => t ^ m * (1 - t) ^ n) u v.
Proof.
  intros m n u v. apply (ex_RInt_continuous (V:=R_CompleteNormedModule)).
  intros z _. apply poly_kernel_continuous.
Qed.

(* ------------------------------------------------------------------ *)
(* 6. Corollaries for the certificate generator and the rational model  *)
(* ------------------------------------------------------------------ *)

(* the normalising integral of the half-integer kernel is positive (safe to divide by) *)
Lemma half_kernel_RInt_1_pos : forall (p q : nat),
  0 < RInt (fun t => sqrt t ^ p * sqrt (1 - t) ^ q) 0 1.
Proof.
  intros p q.
  assert (Hp : 0 <= INR p) by apply pos_INR.
  assert (Hq : 0 <= INR q) by apply pos_INR.
  rewrite <- (Bint_half p q (1 + INR p / 2) (1 + INR q / 2) 1) by (try reflexivity; lra).
  apply Bint_1_pos; lra.
Qed.

Lemma INR_ge_1 : forall a, (1 <= a)%nat -> 1 <= INR a.
Proof. intros a Ha. change 1 with (INR 1). apply le_INR; assumption. Qed.

Lemma Ibeta_sum_range : forall (a b : nat) x, (1 <= a)%nat -> (1 <= b)%nat ->
  0 <= x <= 1 -> 0 <= Ibeta_sum a b x <= 1.
Proof.
  intros a b x Ha Hb Hx. rewrite <- Ibeta_closed_form by assumption.
  apply Ibeta_R_range; try apply INR_ge_1; assumption.
Qed.

Lemma Ibeta_sum_monotone : forall (a b : nat) x y, (1 <= a)%nat -> (1 <= b)%nat ->
  0 <= x <= y -> y <= 1 -> Ibeta_sum a b x <= Ibeta_sum a b y.
Proof.
  intros a b x y Ha Hb Hx Hy. rewrite <- !Ibeta_closed_form by (assumption || lra).
  apply Ibeta_R_monotone; try apply INR_ge_1; assumption.
Qed.

Print Assumptions Bint_half.
Print Assumptions Ibeta_half.
Print Assumptions Ibeta_closed_form.
Print Assumptions Ibeta_R_range.
Print Assumptions Ibeta_R_monotone.
Print Assumptions Ibeta_R_reflect.

(* Proofs/Binom.v — the binomial model (Model/Binom.v) against its definition. *)
From MM Require Import Base.Num Base.GFSum Base.GFComb Model.Choose Model.Binom Proofs.Choose.
From Coq Require Import Lqa Lia Qround.
Local Open Scope Q_scope.

(* the PMF model is the binomial term, for every natural k (0 beyond n) *)
Lemma binom_pmf_i_bterm : forall (n k : nat) p,
  binom_pmf_i (Z.of_nat n) p (Z.of_nat k) == bterm p (1 - p) n k.
Proof.
  intros n k p. unfold binom_pmf_i, bterm.
  destruct (Z.ltb_spec (Z.of_nat k) 0) as [L|L]; [lia|]. simpl.
  destruct (Z.ltb_spec (Z.of_nat n) (Z.of_nat k)) as [L2|L2].
  - rewrite binom_gt by lia. unfold inject_Z at 1. ring.
  - rewrite choose_binom, Nat2Z.id. replace (Z.to_nat (Z.of_nat n - Z.of_nat k)) with (n - k)%nat by lia.
    reflexivity.
Qed.

Lemma binom_pmf_i_neg : forall n p ki, (ki < 0)%Z -> binom_pmf_i n p ki = 0.
Proof. intros. unfold binom_pmf_i. destruct (Z.ltb_spec ki 0); [reflexivity|lia]. Qed.

Lemma binom_pmf_i_above : forall n p ki, (n < ki)%Z -> binom_pmf_i n p ki = 0.
Proof.
  intros. unfold binom_pmf_i. destruct (Z.ltb_spec n ki); [|lia]. rewrite orb_true_r. reflexivity.
Qed.

(* sum over 0..n is 1: the binomial theorem *)
Theorem binom_pmf_sums_to_one : forall (n : nat) p,
  Qsum_range (binom_pmf_i (Z.of_nat n) p) 0 (Z.of_nat n) == 1.
Proof.
  intros n p. unfold Qsum_range.
  replace (Z.to_nat (Z.of_nat n - 0 + 1)) with (S n) by lia.
  rewrite (Qsum_n_ext _ (bterm p (1 - p) n)) by (intros; simpl; apply binom_pmf_i_bterm).
  rewrite binomial_theorem.
  assert (E : p + (1 - p) == 1) by ring. rewrite E. apply qpow_1_l.
Qed.

(* partial sums of the binomial terms from the top equal those from the bottom, mirrored *)
Lemma ibeta_int_is_lower_sum : forall (n k : nat) p, (k < n)%nat ->
  ibeta_int (1 - p) (Z.of_nat n - Z.of_nat k) (Z.of_nat k + 1) == Qsum_n (bterm p (1 - p) n) (S k).
Proof.
  intros n k p Hk. unfold ibeta_int.
  replace (Z.to_nat (Z.of_nat k + 1)) with (S k) by lia.
  rewrite (Qsum_n_rev (S k) (bterm p (1 - p) n)).
  apply Qsum_n_ext. intros i Hi. cbv zeta.
  replace (Z.of_nat n - Z.of_nat k + (Z.of_nat k + 1) - 1)%Z with (Z.of_nat n) by lia.
  replace (Z.of_nat n - Z.of_nat k + Z.of_nat i)%Z with (Z.of_nat (n - (S k - 1 - i))) by lia.
  rewrite choose_binom, Nat2Z.id.
  replace (Z.to_nat (Z.of_nat n - Z.of_nat (n - (S k - 1 - i)))) with (S k - 1 - i)%nat by lia.
  unfold bterm. rewrite <- binom_sym by lia.
  assert (E : 1 - (1 - p) == p) by ring. rewrite E. ring.
Qed.

(* CDF(k) = sum of the PMF over the integers 0..floor k — for EVERY ki, including below 0
   (empty sum) and from n upwards (1) *)
Theorem binom_cdf_i_is_sum : forall (n : nat) p ki,
  binom_cdf_i (Z.of_nat n) p ki == Qsum_range (binom_pmf_i (Z.of_nat n) p) 0 ki.
Proof.
  intros n p ki. unfold binom_cdf_i.
  destruct (Z.ltb_spec ki 0) as [L|L].
  { rewrite Qsum_range_empty by lia. reflexivity. }
  destruct (Z.leb_spec (Z.of_nat n) ki) as [L2|L2].
  - rewrite (Qsum_range_split _ 0 (Z.of_nat n + 1) ki) by lia.
    replace (Z.of_nat n + 1 - 1)%Z with (Z.of_nat n) by lia.
    rewrite binom_pmf_sums_to_one.
    rewrite Qsum_range_zero; [ring|]. intros j Hj. rewrite binom_pmf_i_above by lia. reflexivity.
  - replace ki with (Z.of_nat (Z.to_nat ki)) by lia.
    rewrite ibeta_int_is_lower_sum by lia.
    unfold Qsum_range. replace (Z.to_nat (Z.of_nat (Z.to_nat ki) - 0 + 1)) with (S (Z.to_nat ki)) by lia.
    apply Qsum_n_ext. intros i Hi. simpl. symmetry. apply binom_pmf_i_bterm.
Qed.

(* floor handling *)
Lemma binom_pmf_floor : forall n p k, binom_pmf n p k = binom_pmf n p (inject_Z (Qfloor k)).
Proof. intros. unfold binom_pmf. rewrite Qfloor_Z. reflexivity. Qed.
Lemma binom_cdf_floor : forall n p k, binom_cdf n p k = binom_cdf n p (inject_Z (Qfloor k)).
Proof. intros. unfold binom_cdf. rewrite Qfloor_Z. reflexivity. Qed.

Theorem binom_cdf_is_sum : forall (n : nat) p k,
  binom_cdf (Z.of_nat n) p k ==
  Qsum_range (fun j => binom_pmf (Z.of_nat n) p (inject_Z j)) 0 (Qfloor k).
Proof.
  intros n p k. unfold binom_cdf. rewrite binom_cdf_i_is_sum.
  apply Qsum_range_ext. intros j Hj. unfold binom_pmf. rewrite Qfloor_Z. reflexivity.
Qed.

Lemma binom_cdf_zero_below : forall n p k, (Qfloor k < 0)%Z -> binom_cdf n p k = 0.
Proof. intros. unfold binom_cdf, binom_cdf_i. destruct (Z.ltb_spec (Qfloor k) 0); [reflexivity|lia]. Qed.
Lemma binom_cdf_one_from_top : forall n p k, (0 <= n)%Z -> (n <= Qfloor k)%Z -> binom_cdf n p k = 1.
Proof.
  intros. unfold binom_cdf, binom_cdf_i. destruct (Z.ltb_spec (Qfloor k) 0); [lia|].
  destruct (Z.leb_spec n (Qfloor k)); [reflexivity|lia].
Qed.
Lemma binom_pmf_zero_outside : forall n p k, (Qfloor k < 0 \/ n < Qfloor k)%Z -> binom_pmf n p k = 0.
Proof.
  intros n p k [H|H]; unfold binom_pmf; [apply binom_pmf_i_neg | apply binom_pmf_i_above]; assumption.
Qed.
Lemma binom_pmf_nonneg : forall (n : nat) p ki, 0 <= p <= 1 -> 0 <= binom_pmf_i (Z.of_nat n) p ki.
Proof.
  intros n p ki Hp. unfold binom_pmf_i.
  destruct ((ki <? 0)%Z || (Z.of_nat n <? ki)%Z); [lra|].
  apply Qmult_le_0_compat; [apply Qmult_le_0_compat|].
  - change 0 with (inject_Z 0). rewrite <- Zle_Qle. apply choose_nonneg. lia.
  - apply qpow_nonneg; lra.
  - apply qpow_nonneg; lra.
Qed.

(* ---------- moments ---------- *)
Section Moments.
Variables a b : Q.
Hypothesis Hab : a + b == 1.

Lemma M0 : forall n, Qsum_n (bterm a b n) (S n) == 1.
Proof. intros. rewrite binomial_theorem, Hab. apply qpow_1_l. Qed.

Lemma M1 : forall n, Qsum_n (fun k => inject_Z (Z.of_nat k) * bterm a b n k) (S n) == inject_Z (Z.of_nat n) * a.
Proof.
  intros [|m].
  - simpl. ring.
  - rewrite (Qsum_n_ext _ (fun k => inject_Z (Z.of_nat k) * 1 * bterm a b (S m) k)) by (intros; ring).
    rewrite (binomial_shift (fun _ => 1)).
    rewrite (Qsum_n_ext _ (bterm a b m)) by (intros; ring).
    rewrite M0. ring.
Qed.

Lemma M2 : forall n, Qsum_n (fun k => inject_Z (Z.of_nat k) * (inject_Z (Z.of_nat k) - 1) * bterm a b n k) (S n)
                     == inject_Z (Z.of_nat n) * (inject_Z (Z.of_nat n) - 1) * a * a.
Proof.
  intros [|m].
  - simpl. ring.
  - rewrite (binomial_shift (fun k => inject_Z (Z.of_nat k) - 1)).
    rewrite (Qsum_n_ext _ (fun i => inject_Z (Z.of_nat i) * bterm a b m i)).
    2:{ intros i Hi. rewrite Nat2Z.inj_succ. unfold Z.succ. rewrite inject_Z_plus. ring. }
    rewrite M1. rewrite Nat2Z.inj_succ. unfold Z.succ. rewrite inject_Z_plus. ring.
Qed.

Lemma Mvar : forall n mu, mu == inject_Z (Z.of_nat n) * a ->
  Qsum_n (fun k => (inject_Z (Z.of_nat k) - mu) * (inject_Z (Z.of_nat k) - mu) * bterm a b n k) (S n)
  == inject_Z (Z.of_nat n) * a * b.
Proof.
  intros n mu Hmu.
  rewrite (Qsum_n_ext _ (fun k => inject_Z (Z.of_nat k) * (inject_Z (Z.of_nat k) - 1) * bterm a b n k
                                  + ((1 - 2 * mu) * (inject_Z (Z.of_nat k) * bterm a b n k) + mu * mu * bterm a b n k)))
    by (intros; ring).
  rewrite !Qsum_n_plus, !Qsum_n_scal, M0, M1, M2, Hmu.
  assert (Hb : b == 1 - a) by (rewrite <- Hab; ring). rewrite Hb. ring.
Qed.
End Moments.

(* Mean() and Variance() are the first two moments of the PMF *)
Theorem binom_mean_is_first_moment : forall (n : nat) p,
  Qsum_range (fun j => inject_Z j * binom_pmf_i (Z.of_nat n) p j) 0 (Z.of_nat n) == binom_mean (Z.of_nat n) p.
Proof.
  intros n p. unfold Qsum_range, binom_mean.
  replace (Z.to_nat (Z.of_nat n - 0 + 1)) with (S n) by lia.
  rewrite (Qsum_n_ext _ (fun k => inject_Z (Z.of_nat k) * bterm p (1 - p) n k)).
  2:{ intros i Hi. simpl. rewrite binom_pmf_i_bterm. reflexivity. }
  apply M1. ring.
Qed.

Theorem binom_variance_is_second_central_moment : forall (n : nat) p,
  Qsum_range (fun j => (inject_Z j - binom_mean (Z.of_nat n) p) * (inject_Z j - binom_mean (Z.of_nat n) p)
                       * binom_pmf_i (Z.of_nat n) p j) 0 (Z.of_nat n)
  == binom_var (Z.of_nat n) p.
Proof.
  intros n p. unfold Qsum_range, binom_var.
  replace (Z.to_nat (Z.of_nat n - 0 + 1)) with (S n) by lia.
  rewrite (Qsum_n_ext _ (fun k => (inject_Z (Z.of_nat k) - binom_mean (Z.of_nat n) p)
                                  * (inject_Z (Z.of_nat k) - binom_mean (Z.of_nat n) p) * bterm p (1 - p) n k)).
  2:{ intros i Hi. simpl. rewrite binom_pmf_i_bterm. reflexivity. }
  apply Mvar; [ring | reflexivity].
Qed.

Theorem binom_normal_approx_params : forall n p,
  binom_normal_approx n p = (binom_mean n p, binom_var n p).
Proof. reflexivity. Qed.

(* for 0 < p < 1 the support is exactly 0..n: Bounds() returns its end points *)
Theorem binom_bounds_support : forall (n : nat) p ki, 0 < p -> p < 1 ->
  (~ binom_pmf_i (Z.of_nat n) p ki == 0 <-> (0 <= ki <= Z.of_nat n)%Z).
Proof.
  intros n p ki Hp0 Hp1. split.
  - intros H. destruct (Z.ltb_spec ki 0) as [L|L].
    { exfalso. apply H. rewrite binom_pmf_i_neg by lia. reflexivity. }
    destruct (Z.ltb_spec (Z.of_nat n) ki) as [L2|L2].
    { exfalso. apply H. rewrite binom_pmf_i_above by lia. reflexivity. }
    lia.
  - intros Hk E. unfold binom_pmf_i in E.
    destruct (Z.ltb_spec ki 0) as [L|L]; [lia|]. destruct (Z.ltb_spec (Z.of_nat n) ki) as [L2|L2]; [lia|].
    simpl in E.
    assert (P1 : 0 < inject_Z (choose (Z.of_nat n) ki)).
    { change 0 with (inject_Z 0). rewrite <- Zlt_Qlt. apply choose_pos. lia. }
    assert (P2 : 0 < qpow p (Z.to_nat ki)) by (apply qpow_pos; assumption).
    assert (P3 : 0 < qpow (1 - p) (Z.to_nat (Z.of_nat n - ki))) by (apply qpow_pos; lra).
    pose proof (Qmult_lt_0_compat _ _ (Qmult_lt_0_compat _ _ P1 P2) P3) as P. rewrite E in P. lra.
Qed.

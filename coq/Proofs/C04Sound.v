(* Proofs/C04Sound.v — what an OK verdict of the C04 comparator (Check/C04.v) MEANS.
   The comparator is an extracted Gallina function; these theorems turn "check_C04 line returned OK"
   into a statement about the observed Go outputs and the model values of Model/TTest.v (and, through
   Proofs/TTest.v, the textbook formulas).  Everything is over Z/Q/lists and closed under the global context, except the last section
   (near_signed_root_real, check_test_ok_T_real), which restates the T clause over the stdlib reals.
   [ok v] is "the head of the verdict line is V_OK"; test_sound / ci_sound / case_sound spell out what is certified. *)
From MM Require Import Base.Num Model.TTest Proofs.TTest Check.C04.
From Coq Require Import Field Lqa Setoid Morphisms.
Local Open Scope Q_scope.

(* ====================================================================== *)
(* verdicts, first_false, boolean reflection                               *)
(* ====================================================================== *)
(* an OK verdict: the head of the verdict line is V_OK (= 0); nothing is assumed about tag/pos/diag *)
Definition ok (v : list Z) : Prop := hd 1%Z v = V_OK.

Lemma ok_verdict c t p d : ok (verdict c t p d) -> c = V_OK.
Proof. exact (fun H => H). Qed.
Lemma not_ok_mismatch t p d : ~ ok (verdict V_MISMATCH t p d).
Proof. discriminate. Qed.
Lemma not_ok_malformed t p d : ~ ok (verdict V_MALFORMED t p d).
Proof. discriminate. Qed.

Lemma first_false_none l : first_false l = None -> forall b, In b l -> b = true.
Proof.
  unfold first_false. generalize 0%Z. induction l as [|a l IH]; intros i H b Hb; [destruct Hb|].
  destruct a; [|discriminate]. destruct Hb as [<-|Hb]; [reflexivity|]. exact (IH _ H b Hb).
Qed.

Lemma within_iff tol e o : within tol e o = true <-> Qabs (o - e) <= tol.
Proof. apply Qle_bool_iff. Qed.
Lemma Qltb_iff a b : Qltb a b = true <-> a < b.
Proof.
  unfold Qltb. rewrite negb_true_iff. split.
  - intros H. apply Qnot_le_lt. intro L. apply Qle_bool_iff in L. congruence.
  - intros H. destruct (Qle_bool b a) eqn:E; [|reflexivity]. apply Qle_bool_iff in E. lra.
Qed.
Lemma Qle_bool_false a b : Qle_bool a b = false -> b < a.
Proof. intros H. apply Qnot_le_lt. intro L. apply Qle_bool_iff in L. congruence. Qed.

(* the interval [-1e-12, 1+1e-12] every probability reported by the code must lie in *)
Definition in01Q (q : Q) : Prop := - (1 # 1000000000000) <= q /\ q <= 1 + (1 # 1000000000000).
Lemma in01_sound x : in01 x = true -> exists q, x = XFin q /\ in01Q q.
Proof.
  destruct x as [| |q]; cbn [in01]; try discriminate. intros H. apply andb_prop in H as [A B].
  apply Qle_bool_iff in A, B. exists q. now repeat split.
Qed.

(* ====================================================================== *)
(* s * sqrt q without taking the root                                      *)
(* ====================================================================== *)
Lemma sq_le_le a b : 0 <= b -> a * a <= b * b -> a <= b.
Proof. intros Hb H. destruct (Qlt_le_dec b a) as [L|L]; [|exact L]. exfalso. nra. Qed.

(* sqrt_ge s q L = true certifies L <= s*sqrt q, read order-theoretically: for s >= 0, L is below every
   rational upper bound y of sqrt q; for s < 0, L is below -y for every rational lower bound y of sqrt q.
   (The converse needs density of Q and is not needed for soundness.) *)
Lemma sqrt_ge_sound s q L : sqrt_ge s q L = true ->
  ((0 <= s)%Z -> forall y, 0 <= y -> q <= y * y -> L <= y) /\
  ((s < 0)%Z -> forall y, 0 <= y -> y * y <= q -> L <= - y).
Proof.
  unfold sqrt_ge. destruct (0 <=? s)%Z eqn:Es; intros H.
  - apply Z.leb_le in Es. split; [|lia]. intros _ y Hy Hq.
    destruct (Qle_bool L 0) eqn:E0; [apply Qle_bool_iff in E0; lra|].
    apply Qle_bool_iff in H. apply sq_le_le; [exact Hy | lra].
  - apply Z.leb_gt in Es. split; [lia|]. intros _ y Hy Hq.
    apply andb_prop in H as [A B]. apply Qle_bool_iff in A, B.
    assert (y <= - L); [|lra]. apply sq_le_le; [lra | nra].
Qed.

(* "x is within tau of s * sqrt q" over Q, root-free: for EVERY rational bracket lo <= sqrt q <= hi
   (0 <= lo, lo^2 <= q <= hi^2) the interval [x - tau, x + tau] meets the interval between s*lo and s*hi.
   Since sqrt q is the supremum of such lo and the infimum of such hi this is exactly
   |x - s sqrt q| <= tau in the reals; if q has a rational root it is the statement near_root_exact. *)
Definition near_signed_root (s : Z) (q x tau : Q) : Prop :=
  forall lo hi, 0 <= lo -> lo * lo <= q -> 0 <= hi -> q <= hi * hi ->
    x - tau <= Qmax (inject_Z s * lo) (inject_Z s * hi) /\
    Qmin (inject_Z s * lo) (inject_Z s * hi) <= x + tau.

Lemma near_signed_root_ext s q q' x tau : q == q' -> near_signed_root s q x tau -> near_signed_root s q' x tau.
Proof. intros E H lo hi H1 H2 H3 H4. apply H; try assumption; rewrite E; assumption. Qed.

Lemma near_root_exact s q x tau : near_signed_root s q x tau ->
  forall root, 0 <= root -> root * root == q -> Qabs (x - inject_Z s * root) <= tau.
Proof.
  intros H root H0 Hr. destruct (H root root) as [A B]; try assumption; try (rewrite Hr; apply Qle_refl).
  rewrite Q.max_id in A. rewrite Q.min_id in B. apply Qabs_Qle_condition. split; lra.
Qed.

Lemma T_close_sound s q x tau : (s = -1 \/ s = 0 \/ s = 1)%Z -> (s = 0%Z -> q == 0) ->
  T_close s q x tau = true -> near_signed_root s q x tau.
Proof.
  intros Hs Hq0 H. unfold T_close, sqrt_le in H. apply andb_prop in H as [H1 H2].
  apply sqrt_ge_sound in H1, H2. destruct H1 as [H1p H1n], H2 as [H2p H2n].
  intros lo hi Hlo Hloq Hhi Hhiq.
  destruct Hs as [ -> | [ -> | -> ] ].
  - specialize (H1n ltac:(lia) lo Hlo Hloq). specialize (H2p ltac:(lia) hi Hhi Hhiq).
    change (inject_Z (-1)) with (-1 # 1). split.
    + eapply Qle_trans; [|apply Q.le_max_l]. lra.
    + eapply Qle_trans; [apply Q.le_min_r|]. lra.
  - specialize (Hq0 eq_refl).
    assert (Z0 : q <= 0 * 0) by lra.
    specialize (H1p ltac:(lia) 0 (Qle_refl 0) Z0). specialize (H2p ltac:(lia) 0 (Qle_refl 0) Z0).
    change (inject_Z 0) with 0. split.
    + eapply Qle_trans; [|apply Q.le_max_l]. lra.
    + eapply Qle_trans; [apply Q.le_min_l|]. lra.
  - specialize (H1p ltac:(lia) hi Hhi Hhiq). specialize (H2n ltac:(lia) lo Hlo Hloq).
    change (inject_Z 1) with 1. split.
    + eapply Qle_trans; [|apply Q.le_max_r]. lra.
    + eapply Qle_trans; [apply Q.le_min_l|]. lra.
Qed.

(* ====================================================================== *)
(* the model's results are well formed: T^2 >= 0, sign in {-1,0,1}, sign 0 only with T^2 = 0 *)
(* ====================================================================== *)
Definition c04_model (op : Z) (x1 x2 : list Q) (mu0 : Q) : tout :=
  if (op =? 0)%Z then two_sample x1 x2 else if (op =? 1)%Z then welch x1 x2
  else if (op =? 2)%Z then paired x1 x2 mu0 else one_sample x1 mu0.

Definition tres_wf (r : tres) : Prop :=
  0 <= t_sq r /\ (t_sign r = -1 \/ t_sign r = 0 \/ t_sign r = 1)%Z /\ (t_sign r = 0%Z -> t_sq r == 0).

Lemma w_variance_nonneg xs : 0 <= w_variance xs.
Proof.
  destruct (le_lt_dec (length xs) 1) as [H|H].
  - unfold w_variance. apply Nat.leb_le in H. rewrite H. apply Qle_refl.
  - rewrite w_variance_eq by lia. apply var_def_nonneg. lia.
Qed.
Lemma Qsign_cases q : (Qsign q = -1 \/ Qsign q = 0 \/ Qsign q = 1)%Z.
Proof. unfold Qsign. destruct (Qnum q); cbn; auto. Qed.
Lemma Qsign_zero q : Qsign q = 0%Z -> q == 0.
Proof. unfold Qsign. destruct q as [[|p|p] d]; cbn; try discriminate. intros _. reflexivity. Qed.
Lemma Qdiv_nonneg a b : 0 <= a -> 0 <= b -> 0 <= a / b.
Proof. intros Ha Hb. unfold Qdiv. apply Qmult_le_0_compat; [exact Ha|]. now apply Qinv_le_0_compat. Qed.
Lemma lenQ_ge1 (xs : list Q) : (1 <= length xs)%nat -> 1 <= lenQ xs.
Proof. intros H. exact (Qofnat_le 1 (length xs) H). Qed.
Lemma lenQ_nonneg (xs : list Q) : 0 <= lenQ xs.
Proof. apply Qofnat_nonneg. Qed.

Lemma mk_wf n1 n2 d num den dof : 0 <= num -> (d == 0 -> num == 0) -> 0 <= den ->
  tres_wf (mkT n1 n2 (Qsign d) (Qred (num / den)) dof).
Proof.
  intros Hn Hd Hden. unfold tres_wf. cbn [t_sq t_sign]. split; [|split].
  - rewrite Qred_correct. now apply Qdiv_nonneg.
  - apply Qsign_cases.
  - intros H. apply Qsign_zero in H. rewrite Qred_correct, (Hd H). unfold Qdiv. ring.
Qed.

Lemma sq_nonneg (d : Q) : 0 <= d * d.
Proof. nra. Qed.

Lemma TOk_inj a b : TOk a = TOk b -> a = b.
Proof. now intros [= ->]. Qed.

Theorem model_tres_wf op x1 x2 mu0 r : c04_model op x1 x2 mu0 = TOk r -> tres_wf r.
Proof.
  unfold c04_model.
  destruct (op =? 0)%Z; [|destruct (op =? 1)%Z; [|destruct (op =? 2)%Z]].
  - unfold two_sample; cbv zeta.
    destruct (length x1 =? 0)%nat eqn:E1; [discriminate|]. destruct (length x2 =? 0)%nat eqn:E2; [discriminate|].
    cbn [orb]. destruct (is_zero (w_variance x1) && is_zero (w_variance x2)); [discriminate|].
    intros H; apply TOk_inj in H; subst r. apply Nat.eqb_neq in E1, E2.
    pose proof (lenQ_ge1 x1 ltac:(lia)) as L1. pose proof (lenQ_ge1 x2 ltac:(lia)) as L2.
    pose proof (w_variance_nonneg x1) as V1. pose proof (w_variance_nonneg x2) as V2.
    apply mk_wf; [apply sq_nonneg | intros ->; ring |].
    apply Qmult_le_0_compat.
    + apply Qdiv_nonneg; [|lra]. assert (0 <= (lenQ x1 - 1) * w_variance x1) by (apply Qmult_le_0_compat; lra).
      assert (0 <= (lenQ x2 - 1) * w_variance x2) by (apply Qmult_le_0_compat; lra). lra.
    + assert (0 <= 1 / lenQ x1) by (apply Qdiv_nonneg; lra). assert (0 <= 1 / lenQ x2) by (apply Qdiv_nonneg; lra). lra.
  - unfold welch; cbv zeta.
    destruct ((length x1 <=? 1)%nat || (length x2 <=? 1)%nat); [discriminate|].
    destruct (is_zero (w_variance x1) && is_zero (w_variance x2)); [discriminate|].
    intros H; apply TOk_inj in H; subst r.
    pose proof (w_variance_nonneg x1) as V1. pose proof (w_variance_nonneg x2) as V2.
    apply mk_wf; [apply sq_nonneg | intros ->; ring |].
    assert (0 <= w_variance x1 / lenQ x1) by (apply Qdiv_nonneg; [lra | apply lenQ_nonneg]).
    assert (0 <= w_variance x2 / lenQ x2) by (apply Qdiv_nonneg; [lra | apply lenQ_nonneg]). lra.
  - unfold paired; cbv zeta.
    destruct (negb (length x1 =? length x2)%nat); [discriminate|].
    destruct (length x1 <=? 1)%nat; [discriminate|].
    destruct (is_zero (w_variance (vdiff x1 x2))); [discriminate|].
    intros H; apply TOk_inj in H; subst r. apply mk_wf; [| intros ->; ring | apply w_variance_nonneg].
    apply Qmult_le_0_compat; [apply sq_nonneg | apply lenQ_nonneg].
  - unfold one_sample; cbv zeta.
    destruct (length x1 =? 0)%nat; [discriminate|].
    destruct (is_zero (w_variance x1)); [discriminate|].
    intros H; apply TOk_inj in H; subst r. apply mk_wf; [| intros ->; ring | apply w_variance_nonneg].
    apply Qmult_le_0_compat; [apply sq_nonneg | apply lenQ_nonneg].
Qed.

(* ====================================================================== *)
(* check_test: what OK means                                               *)
(* ====================================================================== *)
Lemma first_false_7 b1 b2 b3 b4 b5 b6 b7 : first_false [b1; b2; b3; b4; b5; b6; b7] = None ->
  b1 = true /\ b2 = true /\ b3 = true /\ b4 = true /\ b5 = true /\ b6 = true /\ b7 = true.
Proof. intros H. pose proof (first_false_none _ H) as A. repeat split; apply A; cbn; auto 10. Qed.
Lemma first_false_5 b1 b2 b3 b4 b5 : first_false [b1; b2; b3; b4; b5] = None ->
  b1 = true /\ b2 = true /\ b3 = true /\ b4 = true /\ b5 = true.
Proof. intros H. pose proof (first_false_none _ H) as A. repeat split; apply A; cbn; auto 10. Qed.

(* the conditioning factor and the relative tolerance "to within rounding" used by check_test *)
Definition c04_kappa (op : Z) (x1 x2 : list Q) : Q :=
  if (op =? 2)%Z then Qmaxb (cond (vdiff x1 x2)) (Qmaxabs (x1 ++ x2) * cond (vdiff x1 x2) / (Qmaxabs (vdiff x1 x2) + (1 # 1000000000000000000)))
  else Qmaxb (cond x1) (cond x2).
Definition c04_tr (op : Z) (x1 x2 : list Q) : Q := tol_rel (length x1 + length x2) (c04_kappa op x1 x2).
(* the CDF the reported p-value is compared against: the implementation's own TDist{DoF}.CDF, observed
   at |T| (ca) and at T (ct); its accuracy is property C05 *)
Definition obs_cdf (tgo ct ca : Q) : Q -> Q := fun q => if Qeqb q (Qabs tgo) then ca else ct.

Definition test_sound (op : Z) (x1 x2 : list Q) (mu0 : Q) (alt st n1 n2 : Z) (T dof : xreal) (altout : Z)
  (P cdfT cdfAbs : xreal) : Prop :=
  match c04_model op x1 x2 mu0 with
  | TErr e => st = err_code e
  | TOk r =>
      st = 0%Z /\ n1 = t_n1 r /\ n2 = t_n2 r /\ altout = alt /\
      exists tgo dgo pgo ct ca,
        T = XFin tgo /\ dof = XFin dgo /\ P = XFin pgo /\ cdfT = XFin ct /\ cdfAbs = XFin ca /\
        let tr := c04_tr op x1 x2 in
        let tau := tr * Qabs tgo + tr in
        near_signed_root (t_sign r) (t_sq r) tgo tau /\
        (forall root, 0 <= root -> root * root == t_sq r -> Qabs (tgo - inject_Z (t_sign r) * root) <= tau) /\
        Qabs (dgo - t_dof r) <= tr * t_dof r /\
        Qabs (pgo - ttail (obs_cdf tgo ct ca) alt tgo) <= tol_P /\
        in01Q pgo /\ in01Q ct /\ in01Q ca
  end.

Theorem check_test_ok_sound op x1 x2 mu0 alt st n1 n2 T dof altout P cdfT cdfAbs :
  ok (check_test op x1 x2 mu0 alt st n1 n2 T dof altout P cdfT cdfAbs) ->
  test_sound op x1 x2 mu0 alt st n1 n2 T dof altout P cdfT cdfAbs.
Proof.
  unfold test_sound, check_test. cbv zeta.
  fold (c04_model op x1 x2 mu0). fold (c04_kappa op x1 x2). fold (c04_tr op x1 x2).
  destruct (c04_model op x1 x2 mu0) as [r|e] eqn:Em.
  2:{ destruct (st =? err_code e)%Z eqn:E; intros H; [now apply Z.eqb_eq in E | destruct (not_ok_mismatch _ _ _ H)]. }
  destruct (negb (st =? 0)%Z) eqn:E0; [intros H; destruct (not_ok_mismatch _ _ _ H)|].
  apply negb_false_iff, Z.eqb_eq in E0.
  destruct T as [| |tgo]; try (intros H; destruct (not_ok_mismatch _ _ _ H)).
  destruct dof as [| |dgo]; try (intros H; destruct (not_ok_mismatch _ _ _ H)).
  destruct P as [| |pgo]; try (intros H; destruct (not_ok_mismatch _ _ _ H)).
  destruct cdfT as [| |ct]; try (intros H; destruct (not_ok_mismatch _ _ _ H)).
  destruct cdfAbs as [| |ca]; try (intros H; destruct (not_ok_mismatch _ _ _ H)).
  fold (obs_cdf tgo ct ca).
  match goal with |- context [first_false ?l] => destruct (first_false l) eqn:Eff end;
    [intros H; destruct (not_ok_mismatch _ _ _ H)|]. intros _.
  apply first_false_7 in Eff. destruct Eff as (B1 & B2 & B3 & B4 & B5 & B6 & B7).
  apply Z.eqb_eq in B1, B2, B5. apply within_iff in B4, B6.
  apply andb_prop in B7 as [B7 B9]. apply andb_prop in B7 as [B7 B8].
  apply in01_sound in B7 as (? & [= <-] & I7), B8 as (? & [= <-] & I8), B9 as (? & [= <-] & I9).
  destruct (model_tres_wf _ _ _ _ _ Em) as (W1 & W2 & W3).
  apply (T_close_sound _ _ _ _ W2 W3) in B3.
  split; [exact E0|]. split; [exact B1|]. split; [exact B2|]. split; [exact B5|].
  exists tgo, dgo, pgo, ct, ca. do 5 (split; [reflexivity|]). cbv zeta.
  split; [exact B3|]. split; [apply near_root_exact; exact B3|]. split; [exact B4|]. split; [exact B6|].
  split; [exact I7|]. split; [exact I8 | exact I9].
Qed.

(* the model p-value over the observed CDF values, written out: the two-sided one uses CDF(|T|); the
   one-sided ones use CDF(T), which the comparator reads from cdfAbs when T >= 0 (then |T| = T) *)
Lemma ttail_obs_explicit tgo ct ca alt :
  ttail (obs_cdf tgo ct ca) alt tgo =
  match alt with
  | Z0 => 2 * (1 - ca)
  | Zneg _ => if Qle_bool 0 tgo then ca else ct
  | Zpos _ => 1 - (if Qle_bool 0 tgo then ca else ct)
  end.
Proof.
  assert (E1 : obs_cdf tgo ct ca (Qabs tgo) = ca).
  { unfold obs_cdf, Qeqb. now rewrite (proj2 (Qeq_bool_iff (Qabs tgo) (Qabs tgo)) (Qeq_refl _)). }
  assert (E2 : obs_cdf tgo ct ca tgo = if Qle_bool 0 tgo then ca else ct).
  { unfold obs_cdf, Qeqb. destruct (Qle_bool 0 tgo) eqn:E.
    - apply Qle_bool_iff in E. now rewrite (proj2 (Qeq_bool_iff tgo (Qabs tgo)) (Qeq_sym _ _ (Qabs_pos tgo E))).
    - apply Qle_bool_false in E. destruct (Qeq_bool tgo (Qabs tgo)) eqn:E'; [|reflexivity].
      apply Qeq_bool_iff in E'. rewrite Qabs_neg in E' by lra. exfalso. lra. }
  destruct alt; cbn [ttail]; now rewrite ?E1, ?E2.
Qed.

(* ====================================================================== *)
(* corollaries: OK verdicts against the textbook formulas (Proofs/TTest.v) *)
(* ====================================================================== *)
(* what is certified about T and DoF, with the model's values replaced by textbook expressions *)
Definition T_dof_sound (tr : Q) (s : Z) (q d : Q) (T dof : xreal) : Prop :=
  exists tgo dgo, T = XFin tgo /\ dof = XFin dgo /\
    near_signed_root s q tgo (tr * Qabs tgo + tr) /\ Qabs (dgo - d) <= tr * d.

Lemma test_sound_textbook op x1 x2 mu0 alt st n1 n2 T dof altout P cdfT cdfAbs r N1 N2 s q d :
  c04_model op x1 x2 mu0 = TOk r -> t_n1 r = N1 -> t_n2 r = N2 -> t_sign r = s -> t_sq r == q -> t_dof r == d ->
  test_sound op x1 x2 mu0 alt st n1 n2 T dof altout P cdfT cdfAbs ->
  st = 0%Z /\ n1 = N1 /\ n2 = N2 /\ altout = alt /\ T_dof_sound (c04_tr op x1 x2) s q d T dof.
Proof.
  intros Em E1 E2 Es Eq Ed H. unfold test_sound in H. rewrite Em in H.
  destruct H as (H0 & H1 & H2 & H3 & tgo & dgo & pgo & ct & ca & -> & -> & _ & _ & _ & H4 & _ & H5 & _).
  split; [exact H0|]. split; [congruence|]. split; [congruence|]. split; [exact H3|].
  exists tgo, dgo. split; [reflexivity|]. split; [reflexivity|]. split.
  - rewrite <- Es. exact (near_signed_root_ext _ _ _ _ _ Eq H4).
  - rewrite <- Ed. exact H5.
Qed.

(* TwoSampleTTest (op 0) *)
Theorem check_pooled_ok_textbook x1 x2 mu0 alt st n1 n2 T dof altout P cdfT cdfAbs :
  (2 <= length x1)%nat -> (2 <= length x2)%nat -> ~ (var_def x1 == 0 /\ var_def x2 == 0) ->
  ok (check_test 0 x1 x2 mu0 alt st n1 n2 T dof altout P cdfT cdfAbs) ->
  st = 0%Z /\ n1 = zlen x1 /\ n2 = zlen x2 /\ altout = alt /\
  let d := mean_def x1 - mean_def x2 in
  let sp2 := ((lenQ x1 - 1) * var_def x1 + (lenQ x2 - 1) * var_def x2) / (lenQ x1 + lenQ x2 - 2) in
  T_dof_sound (c04_tr 0 x1 x2) (Qsign d) (d * d / (sp2 * (1 / lenQ x1 + 1 / lenQ x2))) (lenQ x1 + lenQ x2 - 2) T dof.
Proof.
  intros L1 L2 Hv H. apply check_test_ok_sound in H.
  destruct (pooled_T_textbook x1 x2 L1 L2 Hv) as (r & Er & A1 & A2 & A3 & A4 & A5).
  exact (test_sound_textbook 0 x1 x2 mu0 _ _ _ _ _ _ _ _ _ _ r _ _ _ _ _ Er A1 A2 A3 A4 A5 H).
Qed.

(* TwoSampleWelchTTest (op 1): unpooled statistic, Welch-Satterthwaite degrees of freedom *)
Theorem check_welch_ok_textbook x1 x2 mu0 alt st n1 n2 T dof altout P cdfT cdfAbs :
  (2 <= length x1)%nat -> (2 <= length x2)%nat -> ~ (var_def x1 == 0 /\ var_def x2 == 0) ->
  ok (check_test 1 x1 x2 mu0 alt st n1 n2 T dof altout P cdfT cdfAbs) ->
  st = 0%Z /\ n1 = zlen x1 /\ n2 = zlen x2 /\ altout = alt /\
  let d := mean_def x1 - mean_def x2 in
  let a := var_def x1 / lenQ x1 in let b := var_def x2 / lenQ x2 in
  T_dof_sound (c04_tr 1 x1 x2) (Qsign d) (d * d / (a + b))
    ((a + b) * (a + b) / (a * a / (lenQ x1 - 1) + b * b / (lenQ x2 - 1))) T dof.
Proof.
  intros L1 L2 Hv H. apply check_test_ok_sound in H.
  destruct (welch_T_dof_textbook x1 x2 L1 L2 Hv) as (r & Er & A1 & A2 & A3 & A4 & A5).
  exact (test_sound_textbook 1 x1 x2 mu0 _ _ _ _ _ _ _ _ _ _ r _ _ _ _ _ Er A1 A2 A3 A4 A5 H).
Qed.

(* PairedTTest (op 2) *)
Theorem check_paired_ok_textbook x1 x2 mu0 alt st n1 n2 T dof altout P cdfT cdfAbs :
  length x1 = length x2 -> (2 <= length x1)%nat -> ~ var_def (vdiff x1 x2) == 0 ->
  ok (check_test 2 x1 x2 mu0 alt st n1 n2 T dof altout P cdfT cdfAbs) ->
  st = 0%Z /\ n1 = zlen x1 /\ n2 = zlen x2 /\ altout = alt /\
  let dm := mean_def (vdiff x1 x2) - mu0 in
  T_dof_sound (c04_tr 2 x1 x2) (Qsign dm) (dm * dm * lenQ x1 / var_def (vdiff x1 x2)) (lenQ x1 - 1) T dof.
Proof.
  intros Hl L1 Hv H. apply check_test_ok_sound in H.
  destruct (paired_textbook x1 x2 mu0 Hl L1 Hv) as (r & Er & A1 & A2 & A3 & A4 & A5).
  exact (test_sound_textbook 2 x1 x2 mu0 _ _ _ _ _ _ _ _ _ _ r _ _ _ _ _ Er A1 A2 A3 A4 A5 H).
Qed.

(* OneSampleTTest (op 3; the line parser passes x2 = []) *)
Theorem check_one_sample_ok_textbook x x2 mu0 alt st n1 n2 T dof altout P cdfT cdfAbs :
  (2 <= length x)%nat -> ~ var_def x == 0 ->
  ok (check_test 3 x x2 mu0 alt st n1 n2 T dof altout P cdfT cdfAbs) ->
  st = 0%Z /\ n1 = zlen x /\ n2 = 0%Z /\ altout = alt /\
  let dm := mean_def x - mu0 in
  T_dof_sound (c04_tr 3 x x2) (Qsign dm) (dm * dm * lenQ x / var_def x) (lenQ x - 1) T dof.
Proof.
  intros L1 Hv H. apply check_test_ok_sound in H.
  destruct (one_sample_textbook x mu0 L1 Hv) as (r & Er & A1 & A2 & A3 & A4 & A5).
  exact (test_sound_textbook 3 x x2 mu0 _ _ _ _ _ _ _ _ _ _ r _ _ _ _ _ Er A1 A2 A3 A4 A5 H).
Qed.

(* ====================================================================== *)
(* check_ci: what OK means                                                 *)
(* ====================================================================== *)
(* a finite float whose exact value is q *)
Definition xis (x : xreal) (q : Q) : Prop := exists l, x = XFin l /\ l == q.

Lemma xeq_fin_sound a x : xeq (XFin a) x = true -> xis x a.
Proof.
  destruct x as [| |l]; unfold xeq, xwithin; try discriminate. intros H. apply within_iff in H.
  exists l. split; [reflexivity|]. apply Qabs_Qle_condition in H. lra.
Qed.
Lemma xeq_inf_sound b x : xeq (XInf b) x = true -> x = XInf b.
Proof. destruct x as [|b'|]; unfold xeq, xwithin; try discriminate. intros H. apply eqb_prop in H. now subst. Qed.
Lemma is_nan_sound x : is_nan x = true -> x = XNaN.
Proof. destruct x; cbn; try discriminate. reflexivity. Qed.

Definition ci_sound (xs : list Q) (c : Q) (mean lo hi trec fneg : xreal) : Prop :=
  (xs = [] -> mean = XNaN /\ lo = XNaN /\ hi = XNaN) /\
  (xs <> [] -> exists mgo, mean = XFin mgo /\
     let n := length xs in
     Qabs (mgo - w_mean xs) <= (4 * Qofnat n + 16) * ulp53 * Qmaxabs xs /\
     (c <= 0 -> xis lo mgo /\ xis hi mgo) /\
     (0 < c -> 1 <= c \/ (n <= 1)%nat -> lo = XInf true /\ hi = XInf false) /\
     (0 < c -> c < 1 -> (2 <= n)%nat -> w_variance xs == 0 -> xis lo mgo /\ xis hi mgo) /\
     (0 < c -> c < 1 -> (2 <= n)%nat -> ~ w_variance xs == 0 ->
        exists l h t f, lo = XFin l /\ hi = XFin h /\ trec = XFin t /\ fneg = XFin f /\
          let wh := h - mgo in
          let wl := mgo - l in
          let rnd := 8 * ulp53 * (Qabs mgo + Qabs wh) in
          let relw := rnd / wh in
          let tr := tol_rel n (cond xs) in
          l < mgo /\ mgo < h /\
          Qabs (wl - wh) <= rnd /\
          0 < t /\
          Qabs (wh * wh * Qofnat n / (t * t * w_variance xs) - 1) <= 2 * tr + 2 * relw /\
          Qabs (f - (1 - c) / 2) <= tol_P + t * (tr + relw))).

Theorem check_ci_ok_sound xs c mean lo hi trec fneg :
  ok (check_ci xs c mean lo hi trec fneg) -> ci_sound xs c mean lo hi trec fneg.
Proof.
  unfold ci_sound, check_ci.
  destruct (meanci xs c) as [[m|] w] eqn:Em; unfold meanci in Em; apply pair_equal_spec in Em as [Hm Hw].
  2:{ assert (Hx : xs = []) by (destruct xs; [reflexivity | discriminate]).
      destruct (is_nan mean && is_nan lo && is_nan hi) eqn:E; intros H; [|destruct (not_ok_mismatch _ _ _ H)].
      apply andb_prop in E as [E E3]. apply andb_prop in E as [E1 E2].
      apply is_nan_sound in E1, E2, E3. split; [now intros _ | intros Hne; contradiction]. }
  assert (Hne : xs <> []) by (intros ->; discriminate).
  assert (Hmm : m = w_mean xs) by (destruct xs; [contradiction | congruence]). clear Hm. subst m.
  destruct mean as [| |mgo]; try (intros H; destruct (not_ok_mismatch _ _ _ H)).
  destruct (negb (within ((4 * Qofnat (length xs) + 16) * ulp53 * Qmaxabs xs) (w_mean xs) mgo)) eqn:Ew;
    [intros H; destruct (not_ok_mismatch _ _ _ H)|].
  apply negb_false_iff, within_iff in Ew.
  destruct (Qle_bool c 0) eqn:Ec0; [| destruct (Qle_bool 1 c || (length xs <=? 1)%nat) eqn:Ec1]; subst w.
  - (* c <= 0: zero width *)
    apply Qle_bool_iff in Ec0.
    destruct (xeq (XFin mgo) lo && xeq (XFin mgo) hi) eqn:Ex; intros H; [|destruct (not_ok_mismatch _ _ _ H)].
    apply andb_prop in Ex as [X1 X2]. apply xeq_fin_sound in X1, X2.
    split; [intros ?; contradiction|]. intros _. exists mgo. split; [reflexivity|]. cbv zeta.
    split; [exact Ew|]. split; [now intros _|]. split; [intros; lra|]. split; intros; lra.
  - (* 1 <= c or n <= 1: infinite width *)
    apply Qle_bool_false in Ec0. apply orb_true_iff in Ec1.
    destruct (xeq (XInf true) lo && xeq (XInf false) hi) eqn:Ex; intros H; [|destruct (not_ok_mismatch _ _ _ H)].
    apply andb_prop in Ex as [X1 X2]. apply xeq_inf_sound in X1, X2.
    split; [intros ?; contradiction|]. intros _. exists mgo. split; [reflexivity|]. cbv zeta.
    split; [exact Ew|]. split; [intros; lra|]. split; [now intros _ _|].
    split; intros _ C1 N2 _; exfalso; destruct Ec1 as [E|E];
      try (apply Qle_bool_iff in E; lra); apply Nat.leb_le in E; lia.
  - (* Student interval *)
    apply Qle_bool_false in Ec0. apply orb_false_iff in Ec1 as [Ec1 En].
    apply Qle_bool_false in Ec1. apply Nat.leb_gt in En.
    destruct (is_zero (w_variance xs)) eqn:Ez.
    + apply is_zero_iff in Ez.
      destruct (xeq (XFin mgo) lo && xeq (XFin mgo) hi) eqn:Ex; intros H; [|destruct (not_ok_mismatch _ _ _ H)].
      apply andb_prop in Ex as [X1 X2]. apply xeq_fin_sound in X1, X2.
      split; [intros ?; contradiction|]. intros _. exists mgo. split; [reflexivity|]. cbv zeta.
      split; [exact Ew|]. split; [intros; lra|]. split; [intros _ [?|?]; [lra | lia]|].
      split; [now intros _ _ _ _ | intros _ _ _ Hv; contradiction].
    + apply is_zero_false in Ez.
      destruct lo as [| |l]; try (intros H; destruct (not_ok_mismatch _ _ _ H)).
      destruct hi as [| |h]; try (intros H; destruct (not_ok_mismatch _ _ _ H)).
      destruct trec as [| |t]; try (intros H; destruct (not_ok_mismatch _ _ _ H)).
      destruct fneg as [| |f]; try (intros H; destruct (not_ok_mismatch _ _ _ H)).
      cbv zeta.
      match goal with |- context [first_false ?l] => destruct (first_false l) eqn:Eff end;
        [intros H; destruct (not_ok_mismatch _ _ _ H)|]. intros _.
      apply first_false_5 in Eff. destruct Eff as (B1 & B2 & B3 & B4 & B5).
      apply andb_prop in B1 as [B1 B1']. apply Qltb_iff in B1, B1', B3.
      assert (Er : Qle_bool (h - mgo) 0 = false).
      { destruct (Qle_bool (h - mgo) 0) eqn:E; [|reflexivity]. apply Qle_bool_iff in E. lra. }
      rewrite Er in B4, B5. apply within_iff in B2, B4, B5.
      split; [intros ?; contradiction|]. intros _. exists mgo. split; [reflexivity|].
      split; [exact Ew|]. split; [intros; lra|]. split; [intros _ [?|?]; [lra | lia]|].
      split; [intros _ _ _ Hv; contradiction|]. intros _ _ _ _.
      exists l, h, t, f. do 4 (split; [reflexivity|]).
      split; [lra|]. split; [lra|]. split; [exact B2|]. split; [exact B3|]. split; [exact B4 | exact B5].
Qed.

(* ====================================================================== *)
(* check_C04: a whole case line                                            *)
(* ====================================================================== *)
Definition case_sound (cs : c04case) : Prop :=
  match cs with
  | CTest op x1 x2 mu0 alt st n1 n2 T dof ao P c1 c2 => test_sound op x1 x2 mu0 alt st n1 n2 T dof ao P c1 c2
  | CCI xs c m lo hi tr fn => ci_sound xs c m lo hi tr fn
  end.

(* an OK verdict on a line: the line decodes (p_line) to a case, and the case satisfies the above *)
Theorem check_C04_ok_sound line : ok (check_C04 line) ->
  exists cs rest, p_line line = Some (cs, rest) /\ case_sound cs.
Proof.
  unfold check_C04. destruct (p_line line) as [[cs rest]|]; [|intros H; destruct (not_ok_malformed _ _ _ H)].
  intros H. exists cs, rest. split; [reflexivity|].
  destruct cs; [now apply check_test_ok_sound | now apply check_ci_ok_sound].
Qed.

(* ---------- readings of ci_sound ---------- *)
(* the observed mean against the definitional mean *)
Corollary check_ci_mean_textbook xs c mean lo hi trec fneg : xs <> [] ->
  ok (check_ci xs c mean lo hi trec fneg) ->
  exists mgo, mean = XFin mgo /\
    Qabs (mgo - mean_def xs) <= (4 * Qofnat (length xs) + 16) * ulp53 * Qmaxabs xs.
Proof.
  intros Hne H. apply check_ci_ok_sound in H. destruct H as [_ H]. destruct (H Hne) as (mgo & -> & Hm & _).
  exists mgo. split; [reflexivity|]. cbv zeta in Hm. rewrite <- (w_mean_eq xs Hne). exact Hm.
Qed.

(* the last clause of ci_sound bounds |F(-t) - (1-c)/2| for the implementation's CDF F of TDist{n-1}
   (f is the observed F(-t)); for a symmetric F this bounds the Student content of [-t, t] around c
   (compare meanci_content, which is the case e = 0) *)
Lemma ci_content_approx (F : Q -> Q) t c f e :
  F (- t) == f -> F t == 1 - F (- t) -> Qabs (f - (1 - c) / 2) <= e -> Qabs (F t - F (- t) - c) <= 2 * e.
Proof.
  intros Hf Hs H. rewrite Hs, Hf. apply Qabs_Qle_condition in H. apply Qabs_Qle_condition.
  assert (E : (1 - c) / 2 == (1 - c) * (1 # 2)) by field. rewrite E in H. split; lra.
Qed.

(* ====================================================================== *)
(* non-vacuity: actual harness lines (Go outputs of /repo) on which the comparator says OK *)
(* ====================================================================== *)
Local Open Scope Z_scope.
(* OneSampleTTest [1;2;3;4] mu0=2, two-sided *)
Definition ex_line_one : list Z :=
  [4; 3; 4; 0x3ff0000000000000; 0x4000000000000000; 0x4008000000000000; 0x4010000000000000; 0x4000000000000000; 0;
   0; 4; 0; 0x3fe8c97ef43f7248; 0x4008000000000000; 0; 0x3fdfae7eca011f64; 0x3fe814604d7fb827; 0x3fe814604d7fb827].
(* TwoSampleWelchTTest [1;2;3;4] [2;4;6;9], LocationLess *)
Definition ex_line_welch : list Z :=
  [4; 1; 4; 0x3ff0000000000000; 0x4000000000000000; 0x4008000000000000; 0x4010000000000000;
   4; 0x4000000000000000; 0x4010000000000000; 0x4018000000000000; 0x4022000000000000; -1;
   0; 4; 4; 0xbffb0cddcd604354; 0x401055a49c299182; -1; 0x3fb514f52ecaf7e0; 0x3fb514f52ecaf7e0; 0x3fed5d615a26a104].
(* TwoSampleTTest [1;2;3;4] [2;4;6;9], LocationGreater *)
Definition ex_line_pooled : list Z :=
  [4; 0; 4; 0x3ff0000000000000; 0x4000000000000000; 0x4008000000000000; 0x4010000000000000;
   4; 0x4000000000000000; 0x4010000000000000; 0x4018000000000000; 0x4022000000000000; 1;
   0; 4; 4; 0xbffb0cddcd604354; 0x4018000000000000; 1; 0x3fedbaf0a17f936f; 0x3fb2287af4036488; 0x3fedbaf0a17f936f].
(* PairedTTest [1;2;3;4] [2;4;6;9] mu0=0, two-sided *)
Definition ex_line_paired : list Z :=
  [4; 2; 4; 0x3ff0000000000000; 0x4000000000000000; 0x4008000000000000; 0x4010000000000000;
   4; 0x4000000000000000; 0x4010000000000000; 0x4018000000000000; 0x4022000000000000; 0; 0;
   0; 4; 4; 0xc009c385e6cd6b13; 0x4008000000000000; 0; 0x3fa8ddc149300f80; 0x3f98ddc149300f80; 0x3fef3911f5b67f84].
(* TwoSampleTTest [] [1;2]: ErrSampleSize *)
Definition ex_line_err : list Z :=
  [4; 0; 0; 2; 0x3ff0000000000000; 0x4000000000000000; 1; 1; 0; 0; 0; 0; 0; 0; 0; 0].
(* MeanCI [1;2;3;5] at 0.95 (Student interval), at 0 (zero width), at 1 (infinite), of [] (NaN), of [3;3;3] (zero variance) *)
Definition ex_line_ci : list Z :=
  [4; 4; 4; 0x3ff0000000000000; 0x4000000000000000; 0x4008000000000000; 0x4014000000000000; 0x3fee666666666666;
   0x4006000000000000; 0x3fa09fcac073c740; 0x4015dec06a7f1872; 0x400975a66893c1ae; 0x3f99999999999980].
Definition ex_line_ci0 : list Z :=
  [4; 4; 4; 0x3ff0000000000000; 0x4000000000000000; 0x4008000000000000; 0x4014000000000000; 0;
   0x4006000000000000; 0x4006000000000000; 0x4006000000000000; 0; 0x3fe0000000000000].
Definition ex_line_ci1 : list Z :=
  [4; 4; 4; 0x3ff0000000000000; 0x4000000000000000; 0x4008000000000000; 0x4014000000000000; 0x3ff0000000000000;
   0x4006000000000000; 0xfff0000000000000; 0x7ff0000000000000; 0x7ff0000000000000; 0x7ff8000000000001].
Definition ex_line_ci_empty : list Z :=
  [4; 4; 0; 0x3fe0000000000000; 0x7ff8000000000001; 0x7ff8000000000001; 0x7ff8000000000001; 0x7ff8000000000001; 0x7ff8000000000001].
Definition ex_line_ci_const : list Z :=
  [4; 4; 3; 0x4008000000000000; 0x4008000000000000; 0x4008000000000000; 0x3fe0000000000000;
   0x4008000000000000; 0x4008000000000000; 0x4008000000000000; 0xfff8000000000000; 0x7ff8000000000001].

Example check_C04_ok_example :
  ok (check_C04 ex_line_one) /\ ok (check_C04 ex_line_welch) /\ ok (check_C04 ex_line_pooled) /\
  ok (check_C04 ex_line_paired) /\ ok (check_C04 ex_line_err) /\
  ok (check_C04 ex_line_ci) /\ ok (check_C04 ex_line_ci0) /\ ok (check_C04 ex_line_ci1) /\
  ok (check_C04 ex_line_ci_empty) /\ ok (check_C04 ex_line_ci_const).
Proof. vm_compute. repeat split; reflexivity. Qed.

(* how a line is read: the fields of harness/c04.go become the arguments of check_test *)
Example p_line_example :
  p_line ex_line_one =
    Some (CTest 3 [1; 2; 3; 4]%Q [] 2%Q 0 0 4 0 (decode_bits 0x3fe8c97ef43f7248) (XFin 3%Q) 0
            (decode_bits 0x3fdfae7eca011f64) (decode_bits 0x3fe814604d7fb827) (decode_bits 0x3fe814604d7fb827), []) /\
  decode_bits 0x3fe8c97ef43f7248 = XFin (872118317739593 # 1125899906842624)%Q.
Proof. vm_compute. split; reflexivity. Qed.

(* the comparator is not constantly OK: the one-sample line with T replaced by -T, and with DoF 4 for 3 *)
Example check_C04_mismatch_example :
  check_C04 [4; 3; 4; 0x3ff0000000000000; 0x4000000000000000; 0x4008000000000000; 0x4010000000000000; 0x4000000000000000; 0;
             0; 4; 0; 0xbfe8c97ef43f7248; 0x4008000000000000; 0; 0x3fdfae7eca011f64; 0x3fe814604d7fb827; 0x3fe814604d7fb827]
    = verdict V_MISMATCH 44 3 [4; 0; 1; 3; 5; 3; 1; 2229395964053465; 4503599627370496] /\
  hd 1 (check_C04 [4; 3; 4; 0x3ff0000000000000; 0x4000000000000000; 0x4008000000000000; 0x4010000000000000; 0x4000000000000000; 0;
             0; 4; 0; 0x3fe8c97ef43f7248; 0x4010000000000000; 0; 0x3fdfae7eca011f64; 0x3fe814604d7fb827; 0x3fe814604d7fb827])
    = V_MISMATCH.
Proof. vm_compute. split; reflexivity. Qed.

(* the decoded arguments of check_test / check_ci for these lines, so that the hypotheses of
   check_test_ok_sound, the textbook corollaries and check_ci_ok_sound are seen to be satisfiable *)
Local Open Scope Q_scope.
Example check_test_ok_example :
  ok (check_test 3 [1; 2; 3; 4] [] 2 0 0 4 0 (decode_bits 0x3fe8c97ef43f7248) (XFin 3) 0
        (decode_bits 0x3fdfae7eca011f64) (decode_bits 0x3fe814604d7fb827) (decode_bits 0x3fe814604d7fb827)) /\
  ok (check_test 0 [] [1; 2] 0 1 1 0 0 (XFin 0) (XFin 0) 0 (XFin 0) (XFin 0) (XFin 0)) /\
  c04_model 3 [1; 2; 3; 4] [] 2 = TOk (mkT 4 0 1 (3 # 5) 3) /\ c04_model 0 [] [1; 2] 0 = TErr ErrSampleSize.
Proof. vm_compute. repeat split; reflexivity. Qed.

Example check_one_sample_textbook_example :
  (2 <= length [1; 2; 3; 4])%nat /\ ~ var_def [1; 2; 3; 4] == 0 /\
  ok (check_test 3 [1; 2; 3; 4] [] 2 0 0 4 0 (decode_bits 0x3fe8c97ef43f7248) (XFin 3) 0
        (decode_bits 0x3fdfae7eca011f64) (decode_bits 0x3fe814604d7fb827) (decode_bits 0x3fe814604d7fb827)).
Proof. split; [cbn; lia|]. split; [intros H; vm_compute in H; discriminate | vm_compute; reflexivity]. Qed.

Example check_welch_textbook_example :
  (2 <= length [1; 2; 3; 4])%nat /\ (2 <= length [2; 4; 6; 9])%nat /\
  ~ (var_def [1; 2; 3; 4] == 0 /\ var_def [2; 4; 6; 9] == 0) /\
  ok (check_test 1 [1; 2; 3; 4] [2; 4; 6; 9] 0 (-1) 0 4 4 (decode_bits 0xbffb0cddcd604354) (decode_bits 0x401055a49c299182) (-1)
        (decode_bits 0x3fb514f52ecaf7e0) (decode_bits 0x3fb514f52ecaf7e0) (decode_bits 0x3fed5d615a26a104)) /\
  ok (check_test 0 [1; 2; 3; 4] [2; 4; 6; 9] 0 1 0 4 4 (decode_bits 0xbffb0cddcd604354) (XFin 6) 1
        (decode_bits 0x3fedbaf0a17f936f) (decode_bits 0x3fb2287af4036488) (decode_bits 0x3fedbaf0a17f936f)).
Proof.
  split; [cbn; lia|]. split; [cbn; lia|]. split; [intros [H _]; vm_compute in H; discriminate|].
  vm_compute. split; reflexivity.
Qed.

Example check_paired_textbook_example :
  length [1; 2; 3; 4] = length [2; 4; 6; 9] /\ (2 <= length [1; 2; 3; 4])%nat /\
  ~ var_def (vdiff [1; 2; 3; 4] [2; 4; 6; 9]) == 0 /\
  ok (check_test 2 [1; 2; 3; 4] [2; 4; 6; 9] 0 0 0 4 4 (decode_bits 0xc009c385e6cd6b13) (XFin 3) 0
        (decode_bits 0x3fa8ddc149300f80) (decode_bits 0x3f98ddc149300f80) (decode_bits 0x3fef3911f5b67f84)).
Proof.
  split; [reflexivity|]. split; [cbn; lia|]. split; [intros H; vm_compute in H; discriminate | vm_compute; reflexivity].
Qed.

(* MeanCI: each branch of ci_sound is inhabited by an OK case *)
Example check_ci_ok_example :
  let c95 := 4278419646001971 # 4503599627370496 in        (* the float64 0.95 *)
  ok (check_ci [1; 2; 3; 5] c95 (XFin (11 # 4)) (decode_bits 0x3fa09fcac073c740) (decode_bits 0x4015dec06a7f1872)
        (decode_bits 0x400975a66893c1ae) (decode_bits 0x3f99999999999980)) /\
  0 < c95 /\ c95 < 1 /\ ~ w_variance [1; 2; 3; 5] == 0 /\
  ok (check_ci [1; 2; 3; 5] 0 (XFin (11 # 4)) (XFin (11 # 4)) (XFin (11 # 4)) (XFin 0) (XFin (1 # 2))) /\
  ok (check_ci [1; 2; 3; 5] 1 (XFin (11 # 4)) (XInf true) (XInf false) (XInf false) XNaN) /\
  ok (check_ci [] (1 # 2) XNaN XNaN XNaN XNaN XNaN) /\
  ok (check_ci [3; 3; 3] (1 # 2) (XFin 3) (XFin 3) (XFin 3) XNaN XNaN) /\ w_variance [3; 3; 3] == 0.
Proof.
  cbv zeta. split; [vm_compute; reflexivity|]. split; [reflexivity|]. split; [reflexivity|].
  split; [intros H; vm_compute in H; discriminate|]. vm_compute. repeat split; reflexivity.
Qed.

Print Assumptions check_test_ok_sound.
Print Assumptions model_tres_wf.
Print Assumptions near_root_exact.
Print Assumptions ttail_obs_explicit.
Print Assumptions check_pooled_ok_textbook.
Print Assumptions check_welch_ok_textbook.
Print Assumptions check_paired_ok_textbook.
Print Assumptions check_one_sample_ok_textbook.
Print Assumptions check_ci_ok_sound.
Print Assumptions check_ci_mean_textbook.
Print Assumptions ci_content_approx.
Print Assumptions check_C04_ok_sound.

(* ====================================================================== *)
(* the real-number reading of near_signed_root (this part, and only this part, uses the stdlib reals: *)
(* Print Assumptions shows the three standard axioms of Coq's classical real numbers)                *)
(* ====================================================================== *)
From Coq Require Import Reals Qreals Lra.
Local Open Scope R_scope.

(* rational brackets of a non-negative real, as fine as wanted *)
Lemma rational_bracket (r eps : R) : 0 <= r -> 0 < eps ->
  exists lo hi : Q, (0 <= lo)%Q /\ Q2R lo <= r /\ r <= Q2R hi /\ Q2R hi - Q2R lo < eps.
Proof.
  intros Hr He. destruct (archimed_cor1 eps He) as (N & HN & HN0).
  set (n := Pos.of_nat N).
  assert (En : IZR (Zpos n) = INR N).
  { rewrite INR_IZR_INZ. f_equal. rewrite <- positive_nat_Z. unfold n. now rewrite Nat2Pos.id by lia. }
  assert (Hn : 0 < IZR (Zpos n)) by (apply IZR_lt; lia).
  destruct (archimed (r * IZR (Zpos n))) as [U1 U2]. set (k := up (r * IZR (Zpos n))) in *.
  assert (Hk : (1 <= k)%Z).
  { assert (0 < k)%Z; [|lia]. apply lt_IZR. assert (0 <= r * IZR (Z.pos n)) by (apply Rmult_le_pos; lra). lra. }
  exists ((k - 1) # n)%Q, (k # n)%Q. unfold Q2R. cbn [Qnum Qden]. repeat split.
  - unfold Qle. cbn. lia.
  - rewrite minus_IZR. apply Rmult_le_reg_r with (IZR (Z.pos n)); [exact Hn|]. field_simplify; lra.
  - apply Rmult_le_reg_r with (IZR (Z.pos n)); [exact Hn|]. field_simplify; lra.
  - rewrite minus_IZR. rewrite En in *. replace (IZR k * / INR N - (IZR k - 1) * / INR N) with (/ INR N) by (field; lra). exact HN.
Qed.

Lemma Q2R_zero : Q2R 0 = 0.
Proof. unfold Q2R. cbn. ring. Qed.
Lemma Q2R_inject_Z z : Q2R (inject_Z z) = IZR z.
Proof. unfold Q2R, inject_Z. cbn. rewrite Rinv_1. ring. Qed.
Lemma Q2R_nonneg a : (0 <= a)%Q -> 0 <= Q2R a.
Proof. intros H. apply Qle_Rle in H. now rewrite Q2R_zero in H. Qed.
Lemma Qmax_cases_R a b c : (c <= Qmax a b)%Q -> Q2R c <= Q2R a \/ Q2R c <= Q2R b.
Proof. intros H. destruct (Q.max_spec a b) as [[_ E]|[_ E]]; rewrite E in H; apply Qle_Rle in H; auto. Qed.
Lemma Qmin_cases_R a b c : (Qmin a b <= c)%Q -> Q2R a <= Q2R c \/ Q2R b <= Q2R c.
Proof. intros H. destruct (Q.min_spec a b) as [[_ E]|[_ E]]; rewrite E in H; apply Qle_Rle in H; auto. Qed.
Lemma Rabs_bounds a b : Rabs a <= b -> - b <= a <= b.
Proof. unfold Rabs. destruct (Rcase_abs a); lra. Qed.
Lemma mul_close (a e r d : R) : Rabs (e - r) <= d ->
  a * e <= a * r + Rabs a * d /\ a * r - Rabs a * d <= a * e.
Proof.
  intros H. assert (B : Rabs (a * (e - r)) <= Rabs a * d).
  { rewrite Rabs_mult. apply Rmult_le_compat_l; [apply Rabs_pos | exact H]. }
  apply Rabs_bounds in B. lra.
Qed.

(* lo <= sqrt q <= hi for a rational bracket *)
Lemma bracket_real q lo hi : (0 <= q)%Q -> (0 <= lo)%Q -> (lo * lo <= q)%Q -> (0 <= hi)%Q -> (q <= hi * hi)%Q ->
  Q2R lo <= sqrt (Q2R q) <= Q2R hi.
Proof.
  intros Hq Hlo Hloq Hhi Hhiq. apply Q2R_nonneg in Hq, Hlo, Hhi.
  apply Qle_Rle in Hloq, Hhiq. rewrite Q2R_mult in Hloq, Hhiq. split.
  - rewrite <- (sqrt_square (Q2R lo) Hlo). now apply sqrt_le_1_alt.
  - rewrite <- (sqrt_square (Q2R hi) Hhi). now apply sqrt_le_1_alt.
Qed.

(* near_signed_root is exactly |x - s sqrt q| <= tau in the reals *)
Theorem near_signed_root_real s q x tau : (0 <= q)%Q ->
  (near_signed_root s q x tau <-> Rabs (Q2R x - IZR s * sqrt (Q2R q)) <= Q2R tau).
Proof.
  intros Hq. pose proof (Q2R_nonneg q Hq) as HqR.
  set (r := sqrt (Q2R q)). assert (Hr : 0 <= r) by apply sqrt_pos.
  assert (Hrr : r * r = Q2R q) by (apply sqrt_sqrt; exact HqR).
  split.
  - intros H.
    assert (K : forall eps, 0 < eps ->
              Q2R x - Q2R tau <= IZR s * r + eps /\ IZR s * r - eps <= Q2R x + Q2R tau).
    { intros eps He. set (A := Rabs (IZR s)). assert (HA : 0 <= A) by apply Rabs_pos.
      assert (He' : 0 < eps / (A + 1)) by (apply Rdiv_lt_0_compat; lra).
      assert (Hsmall : A * (eps / (A + 1)) <= eps).
      { unfold Rdiv in *. assert (Hi : 0 < / (A + 1)) by (apply Rinv_0_lt_compat; lra).
        assert (Hi1 : / (A + 1) * (A + 1) = 1) by (apply Rinv_l; lra). nra. }
      destruct (rational_bracket r _ Hr He') as (lo & hi & Hlo & L1 & L2 & L3).
      pose proof (Q2R_nonneg lo Hlo) as HloR.
      assert (Hhi : (0 <= hi)%Q) by (apply Rle_Qle; rewrite Q2R_zero; lra).
      assert (Hloq : (lo * lo <= q)%Q) by (apply Rle_Qle; rewrite Q2R_mult; nra).
      assert (Hhiq : (q <= hi * hi)%Q) by (apply Rle_Qle; rewrite Q2R_mult; nra).
      destruct (H lo hi Hlo Hloq Hhi Hhiq) as [B1 B2].
      apply Qmax_cases_R in B1. apply Qmin_cases_R in B2.
      rewrite Q2R_minus, !Q2R_mult, !Q2R_inject_Z in B1. rewrite Q2R_plus, !Q2R_mult, !Q2R_inject_Z in B2.
      assert (Clo : Rabs (Q2R lo - r) <= eps / (A + 1)) by (apply Rabs_le; lra).
      assert (Chi : Rabs (Q2R hi - r) <= eps / (A + 1)) by (apply Rabs_le; lra).
      destruct (mul_close (IZR s) _ _ _ Clo) as [M1 M2]. destruct (mul_close (IZR s) _ _ _ Chi) as [M3 M4].
      fold A in M1, M2, M3, M4.
      split; [destruct B1 | destruct B2]; lra. }
    apply Rabs_le. split.
    + assert (IZR s * r <= Q2R x + Q2R tau); [|fold r; lra].
      apply le_epsilon. intros eps He. destruct (K eps He). lra.
    + assert (Q2R x - Q2R tau <= IZR s * r); [|fold r; lra].
      apply le_epsilon. intros eps He. destruct (K eps He). lra.
  - intros H lo hi Hlo Hloq Hhi Hhiq. fold r in H. apply Rabs_bounds in H.
    destruct (bracket_real q lo hi Hq Hlo Hloq Hhi Hhiq) as [L1 L2]. fold r in L1, L2.
    destruct (Z_le_gt_dec 0 s) as [Hs|Hs].
    + apply IZR_le in Hs. split.
      * eapply Qle_trans; [|apply Q.le_max_r]. apply Rle_Qle.
        rewrite Q2R_minus, Q2R_mult, Q2R_inject_Z. assert (IZR s * r <= IZR s * Q2R hi) by nra. lra.
      * eapply Qle_trans; [apply Q.le_min_l|]. apply Rle_Qle.
        rewrite Q2R_plus, Q2R_mult, Q2R_inject_Z. assert (IZR s * Q2R lo <= IZR s * r) by nra. lra.
    + assert (Hs' : IZR s <= 0) by (apply IZR_le; lia). split.
      * eapply Qle_trans; [|apply Q.le_max_l]. apply Rle_Qle.
        rewrite Q2R_minus, Q2R_mult, Q2R_inject_Z. assert (IZR s * r <= IZR s * Q2R lo) by nra. lra.
      * eapply Qle_trans; [apply Q.le_min_r|]. apply Rle_Qle.
        rewrite Q2R_plus, Q2R_mult, Q2R_inject_Z. assert (IZR s * Q2R hi <= IZR s * r) by nra. lra.
Qed.

(* hence: an OK verdict of check_test on a result case certifies |T_go - sign * sqrt(T^2_model)| <= tau in R *)
Corollary check_test_ok_T_real op x1 x2 mu0 alt st n1 n2 T dof altout P cdfT cdfAbs r :
  ok (check_test op x1 x2 mu0 alt st n1 n2 T dof altout P cdfT cdfAbs) -> c04_model op x1 x2 mu0 = TOk r ->
  exists tgo, T = XFin tgo /\
    Rabs (Q2R tgo - IZR (t_sign r) * sqrt (Q2R (t_sq r))) <= Q2R (c04_tr op x1 x2 * Qabs tgo + c04_tr op x1 x2).
Proof.
  intros H Em. apply check_test_ok_sound in H. unfold test_sound in H. rewrite Em in H.
  destruct H as (_ & _ & _ & _ & tgo & dgo & pgo & ct & ca & -> & _ & _ & _ & _ & H & _).
  exists tgo. split; [reflexivity|]. destruct (model_tres_wf _ _ _ _ _ Em) as (W & _).
  apply (near_signed_root_real _ _ _ _ W). exact H.
Qed.

Print Assumptions near_signed_root_real.
Print Assumptions check_test_ok_T_real.
